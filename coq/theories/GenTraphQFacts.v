(* GenTraphQFacts.v — the per-webentity link requests of the public API translated from /repo/traph/traph.py on every
   run (GenTraphQ.v: Traph.get_webentity_pagelinks / get_webentity_outlinks / get_webentity_inlinks, over the translated
   LRUTrie.lru_node / webentity_dfs_iter / windup_lru / windup_lru_for_webentity, LRUTrieNode.read and
   LinkStore.weighted_link_nodes_iter / deduped_link_nodes_iter) answer exactly what the model's
   Traph.webentity_pagelinks / webentity_neighbours answer, for EVERY history: on any trie storage holding the trie file of
   the state reached and any link storage holding its link file.  A refusal (TraphException) is None on the code's side,
   RRefused on the model's; the translated code never fails otherwise, never runs out of fuel, and leaves every byte of
   the trie storage as it was. *)
From Coq Require Import List NArith Bool Lia Arith.
Import ListNotations.
From Traph Require Import Bytes Consts Layout Helpers Rules Tst TstDefs Traph Spec Ops RefDefs Traphw TraceDefs Codec
  CodecFacts TstFacts Store StoreFacts StoreFacts2 RefFull LinkFacts GenStorage GenNode GenNodeFacts GenLinks
  GenLinksFacts GenTrie GenTrieFacts GenTrieW GenTrieD GenTrieDDefs GenTraphL GenTraphLFacts GenTraphQ.
From Traph Require Import TopkFacts QueryLinks GenTraphPages GenTrieDWdfs.
From Traph Require GenTrieWPage GenTrieDDfs SchedFacts9 GenTraphHier.
Open Scope N_scope.

Arguments N.shiftr : simpl never.
Arguments N.shiftl : simpl never.
Arguments N.modulo : simpl never.
Arguments N.div : simpl never.
Arguments N.land : simpl never.
Arguments N.lor : simpl never.
Arguments N.mul : simpl never.
Arguments N.add : simpl never.
Arguments N.sub : simpl never.
Arguments N.ltb : simpl never.
Arguments N.leb : simpl never.
Arguments N.eqb : simpl never.

(* the code's "no webentity" is None, the model's is 0 *)
Definition lift_we (w : N) : option N := if w =? 0 then None else Some w.

(* ====================================================================================== *)
(* 1. LRUTrie.windup_lru_for_webentity                                                    *)
(* ====================================================================================== *)
(* the loop `while parent.has_parent(): parent.read_parent(); if parent.has_webentity(): return parent.webentity()` *)
Definition wloop :=
  fix py_loop (fuel : nat) (st : (py_pm * py_node)) {struct fuel} : (option (py_pm * option N) + (py_pm * py_node)) :=
  match fuel with
  | O => inr st
  | S fuel' =>
  let '(sg, v_parent) := st in
  (if (py_node_has_parent v_parent)
  then (match py_node_read_parent v_parent sg with
  | None => (inl None)
  | Some (v_parent, sg) => (if (py_node_has_webentity v_parent)
  then (inl (Some (sg, (py_node_webentity v_parent))))
  else (py_loop fuel' (sg, v_parent))) end)
  else inr st)
  end.

Lemma windup_we_eq : forall sg n,
  py_trie_windup_lru_for_webentity sg n =
  if py_node_has_webentity n then Some (sg, py_node_webentity n)
  else if py_node_has_parent n
       then let '(p, sg) := py_node_parent_node n sg in
            if py_node_has_webentity p then Some (sg, py_node_webentity p)
            else match wloop (S (length (pm_array sg))) (sg, p) with
                 | inl r => r
                 | inr (sg, _) => Some (sg, None)
                 end
       else Some (sg, None).
Proof. reflexivity. Qed.

(* the webentity inherited along a walk, seen from the far end *)
Lemma wwalk_snoc : forall q x t w d, find (q ++ [x]) t = Some d ->
  wwalk w t (q ++ [x]) = if we d =? 0 then wwalk w t q else we d.
Proof.
  induction q as [|y q IH]; intros x t w d Hf.
  - cbn [app] in *. rewrite find_sib in Hf. cbn [wwalk].
    destruct (sib_find x t) as [[d1 c]|]; [|discriminate Hf]. injection Hf as ->. reflexivity.
  - change ((y :: q) ++ [x]) with (y :: (q ++ [x])) in *. rewrite find_sib in Hf. cbn [wwalk].
    destruct (sib_find y t) as [[d1 c]|]; [|discriminate Hf].
    destruct (q ++ [x]) as [|z rest] eqn:E; [destruct q; discriminate E|]. rewrite <- E in *.
    apply IH. exact Hf.
Qed.

Lemma lift_we_node : forall d l c r n, GenTrieFacts.node_at (Nd d l c r) n -> we d <> 0 ->
  py_node_webentity n = lift_we (we d).
Proof.
  intros d l c r n Hn Hz. rewrite (GenTrieDDfs.node_at_we d l c r n Hn). reflexivity.
Qed.

Section Windup.
  Variable s : traph.
  Hypothesis Hinv : Inv18 s.

  Lemma wloop_spec : forall p d l c r n sg fuel,
    find p (tr s) = Some d -> subt (Nd d l c r) (tr s) -> GenTrieFacts.node_at (Nd d l c r) n ->
    trep (files_of s) sg -> (length p <= fuel)%nat ->
    exists sg', trep (files_of s) sg' /\ pm_array sg' = pm_array sg /\
      (if wwalk 0 (tr s) (removelast p) =? 0
       then exists n', wloop fuel (sg, n) = inr (sg', n')
       else wloop fuel (sg, n) = inl (Some (sg', lift_we (wwalk 0 (tr s) (removelast p))))).
  Proof.
    intros p. remember (length p) as len eqn:Hlen. revert p Hlen.
    induction len as [|len IH]; intros p Hlen d l c r n sg fuel Hf Hsub Hn Hrep Hfuel.
    - destruct p; [rewrite find_nil in Hf; discriminate|discriminate Hlen].
    - destruct (exists_last (l := p)) as (q & x & ->); [intro E; subst p; discriminate Hlen|].
      rewrite app_length in Hlen. cbn [length] in Hlen.
      destruct fuel as [|k]; [lia|].
      destruct (parent_reg s q x d l c r n Hf Hn) as [Hp _].
      cbn [wloop]. unfold py_node_has_parent. rewrite Hp.
      pose proof (I_pars _ Hinv q x d Hf) as HP.
      rewrite removelast_last.
      destruct q as [|y q'].
      + rewrite HP. change (0 =? 0) with true. cbn [negb wwalk]. change (0 =? 0) with true.
        exists sg. split; [exact Hrep|]. split; [reflexivity|]. exists n. reflexivity.
      + destruct HP as (dp & Hdp & Epar).
        destruct (find_subt _ _ _ Hdp) as (l' & c' & r' & _ & Hsub').
        pose proof (root_addr_ge s Hinv dp l' c' r' Hsub') as Hge.
        assert (Hnz : (par d =? 0) = false).
        { apply N.eqb_neq. rewrite Epar. change py_first_data_block with 128 in Hge. lia. }
        rewrite Hnz. cbn [negb]. unfold py_node_read_parent, py_node_parent. rewrite Hp, Epar.
        destruct (N.ltb_spec (addr dp) py_first_data_block) as [Hlt|_]; [lia|].
        pose proof (read_subt s Hinv dp l' c' r' n sg Hsub' Hrep) as HR. cbv zeta in HR.
        pose proof (node_read_o_arr n sg (Some (addr dp))) as Ha.
        destruct (py_node_read_o n sg (Some (addr dp))) as [n1 sg1]. cbn [fst snd] in HR, Ha.
        destruct HR as [Hn1 Hrep1].
        rewrite (GenTrieDDfs.node_at_has_we dp l' c' r' n1 Hn1).
        destruct (exists_last (l := y :: q')) as (q2 & z & Eq2); [discriminate|].
        rewrite Eq2 in *.
        rewrite (wwalk_snoc q2 z (tr s) 0 dp Hdp).
        destruct (N.eqb_spec (we dp) 0) as [Ez|Enz]; cbn [negb].
        * destruct (IH (q2 ++ [z]) ltac:(rewrite app_length in *; cbn [length] in *; lia)
                     dp l' c' r' n1 sg1 k Hdp Hsub' Hn1 Hrep1) as (sg' & Hrep' & Harr' & H).
          { rewrite app_length in *. cbn [length] in *. lia. }
          rewrite removelast_last in H.
          exists sg'. split; [exact Hrep'|]. split; [congruence|exact H].
        * destruct (N.eqb_spec (we dp) 0) as [Ez|_]; [contradiction|].
          exists sg1. split; [exact Hrep1|]. split; [exact Ha|].
          rewrite (lift_we_node dp l' c' r' n1 Hn1 Enz). reflexivity.
  Qed.

  (* the webentity governing the node at path p, from a node object of that node *)
  Lemma windup_we_walk : forall p d l c r n sg,
    find p (tr s) = Some d -> subt (Nd d l c r) (tr s) -> GenTrieFacts.node_at (Nd d l c r) n ->
    trep (files_of s) sg ->
    exists sg', py_trie_windup_lru_for_webentity sg n = Some (sg', lift_we (wwalk 0 (tr s) p)) /\
      trep (files_of s) sg' /\ pm_array sg' = pm_array sg.
  Proof.
    intros p d l c r n sg Hf Hsub Hn Hrep.
    destruct (exists_last (l := p)) as (q & x & ->); [intro E; subst p; rewrite find_nil in Hf; discriminate|].
    rewrite windup_we_eq, (wwalk_snoc q x (tr s) 0 d Hf).
    rewrite (GenTrieDDfs.node_at_has_we d l c r n Hn).
    destruct (N.eqb_spec (we d) 0) as [Ez|Enz]; cbn [negb].
    2:{ exists sg. rewrite (lift_we_node d l c r n Hn Enz). split; [reflexivity|]. split; [exact Hrep|reflexivity]. }
    destruct (parent_reg s q x d l c r n Hf Hn) as [Hp _].
    unfold py_node_has_parent. rewrite Hp.
    pose proof (I_pars _ Hinv q x d Hf) as HP.
    destruct q as [|y q'].
    - rewrite HP. change (0 =? 0) with true. cbn [negb wwalk].
      exists sg. split; [reflexivity|]. split; [exact Hrep|reflexivity].
    - destruct HP as (dp & Hdp & Epar).
      destruct (find_subt _ _ _ Hdp) as (l' & c' & r' & _ & Hsub').
      pose proof (root_addr_ge s Hinv dp l' c' r' Hsub') as Hge.
      assert (Hnz : (par d =? 0) = false).
      { apply N.eqb_neq. rewrite Epar. change py_first_data_block with 128 in Hge. lia. }
      rewrite Hnz. cbn [negb]. unfold py_node_parent_node, py_node_parent. rewrite Hp, Epar, init_read.
      set (nd0 := nd_set_tail [] (nd_set_exists false (nd_set_block None py_node_new))).
      pose proof (read_subt s Hinv dp l' c' r' nd0 sg Hsub' Hrep) as HR. cbv zeta in HR.
      pose proof (node_read_o_arr nd0 sg (Some (addr dp))) as Ha.
      destruct (py_node_read_o nd0 sg (Some (addr dp))) as [n1 sg1]. cbn [fst snd] in HR, Ha.
      destruct HR as [Hn1 Hrep1].
      rewrite (GenTrieDDfs.node_at_has_we dp l' c' r' n1 Hn1).
      destruct (exists_last (l := y :: q')) as (q2 & z & Eq2); [discriminate|].
      rewrite Eq2 in *.
      rewrite (wwalk_snoc q2 z (tr s) 0 dp Hdp).
      destruct (N.eqb_spec (we dp) 0) as [Ez'|Enz']; cbn [negb].
      + destruct (wloop_spec (q2 ++ [z]) dp l' c' r' n1 sg1 (S (length (pm_array sg1))) Hdp Hsub' Hn1 Hrep1)
          as (sg' & Hrep' & Harr' & H).
        { pose proof (find_length_size _ _ _ Hdp). pose proof (fuel_enough s (tr s) sg1 (subt_here _) Hrep1). lia. }
        rewrite removelast_last in H.
        exists sg'. destruct (wwalk 0 (tr s) q2 =? 0) eqn:Ew.
        * destruct H as (n' & ->). apply N.eqb_eq in Ew. rewrite Ew.
          split; [reflexivity|]. split; [exact Hrep'|congruence].
        * rewrite H. split; [reflexivity|]. split; [exact Hrep'|congruence].
      + exists sg1. rewrite (lift_we_node dp l' c' r' n1 Hn1 Enz').
        split; [reflexivity|]. split; [exact Hrep1|exact Ha].
  Qed.

  Theorem windup_we_on_state : forall p d l c r n sg,
    find p (tr s) = Some d -> subt (Nd d l c r) (tr s) -> GenTrieFacts.node_at (Nd d l c r) n ->
    trep (files_of s) sg ->
    exists sg', py_trie_windup_lru_for_webentity sg n = Some (sg', lift_we (we_at (addr d) (tr s))) /\
      trep (files_of s) sg' /\ pm_array sg' = pm_array sg.
  Proof.
    intros p d l c r n sg Hf Hsub Hn Hrep.
    rewrite (SchedFacts9.we_at_find_g (tr s) (nb s) p d (I_wf _ Hinv) (I_addr _ Hinv) Hf).
    exact (windup_we_walk p d l c r n sg Hf Hsub Hn Hrep).
  Qed.
End Windup.

Theorem py_trie_windup_lru_for_webentity_spec : forall s, Inv18 s -> forall p d l c r n sg,
  find p (tr s) = Some d -> subt (Nd d l c r) (tr s) -> GenTrieFacts.node_at (Nd d l c r) n ->
  trep (files_of s) sg ->
  exists sg', py_trie_windup_lru_for_webentity sg n = Some (sg', lift_we (we_at (addr d) (tr s))) /\
    trep (files_of s) sg' /\ pm_array sg' = pm_array sg.
Proof. intros s Hinv. exact (windup_we_on_state s Hinv). Qed.

Print Assumptions py_trie_windup_lru_for_webentity_spec.

(* ====================================================================================== *)
(* 2. get_webentity_outlinks / get_webentity_inlinks, re-stated in named pieces           *)
(* ====================================================================================== *)
Definition NSt : Type := option (py_pm * list (option N) * py_node * list (option N)).

(* body of `for target in deduped_link_nodes_iter(list)` *)
Definition nb_body (st : NSt) (v__it : option N) : NSt :=
  match st with
  | None => None
  | Some (sg, v_done_blocks, v_target_node, v_weids) => (let v_target := v__it in
   (let '(v_target_node, sg) := py_node_read_o v_target_node sg v_target in
   (if (negb (existsb (oN_eqb (nd_block v_target_node)) v_done_blocks))
   then (match py_trie_windup_lru_for_webentity sg v_target_node with
   | None => None
   | Some (sg, v_target_webentity) => (let v_done_blocks := py_set_add (nd_block v_target_node) v_done_blocks in
   (let v_weids := py_set_add v_target_webentity v_weids in
   (Some (sg, v_done_blocks, v_target_node, v_weids)))) end)
   else (Some (sg, v_done_blocks, v_target_node, v_weids))))) end.

(* body of `for node, lru in webentity_dfs_iter(...)`, for either direction *)
Definition nb_item (hasl : py_node -> bool) (links : py_node -> N) (sgl : py_pm) (st : NSt) (v__it : py_node * bytes) : NSt :=
  match st with
  | None => None
  | Some (sg, v_done_blocks, v_target_node, v_weids) => (let '(v_node, v_lru) := v__it in
   (if (negb (py_node_is_page v_node))
   then (Some (sg, v_done_blocks, v_target_node, v_weids))
   else (if (hasl v_node)
   then (let v_links_block := (links v_node) in
   (match py_ls_deduped_link_nodes_iter sgl v_links_block with
   | None => None
   | Some v__stubs => (match fold_left nb_body v__stubs (Some (sg, v_done_blocks, v_target_node, v_weids)) with
   | None => None
   | Some (sg, v_done_blocks, v_target_node, v_weids) => (Some (sg, v_done_blocks, v_target_node, v_weids)) end) end))
   else (Some (sg, v_done_blocks, v_target_node, v_weids))))) end.

(* body of `for prefix in prefixes` *)
Definition nb_prefix (hasl : py_node -> bool) (links : py_node -> N) (sgl : py_pm) (st : NSt) (v_prefix : bytes) : NSt :=
  match st with
  | None => None
  | Some (sg, v_done_blocks, v_target_node, v_weids) =>
   (match py_trie_lru_node sg v_prefix with
   | None => None
   | Some (sg, v_starting_node) => (match v_starting_node with
   | None => None
   | Some v_starting_node => (match py_trie_webentity_dfs_iter sg v_starting_node v_prefix None with
   | None => None
   | Some (v__items, sg) => (match fold_left (nb_item hasl links sgl) v__items (Some (sg, v_done_blocks, v_target_node, v_weids)) with
   | None => None
   | Some (sg, v_done_blocks, v_target_node, v_weids) => (Some (sg, v_done_blocks, v_target_node, v_weids)) end) end) end) end) end.

Definition nb_req (hasl : py_node -> bool) (links : py_node -> N) (sg sgl : py_pm) (ps : list bytes) : option (py_pm * list (option N)) :=
  let '(v_target_node, sg) := py_node_init sg None None None in
  match fold_left (nb_prefix hasl links sgl) ps (Some (sg, [], v_target_node, [])) with
  | None => None
  | Some (sg, _, _, v_weids) => Some (sg, v_weids)
  end.

Lemma outlinks_eq : forall sg sgl w ps,
  py_traph_get_webentity_outlinks sg sgl w ps = nb_req py_node_has_outlinks py_node_outlinks sg sgl ps.
Proof. reflexivity. Qed.
Lemma inlinks_eq : forall sg sgl w ps,
  py_traph_get_webentity_inlinks sg sgl w ps = nb_req py_node_has_inlinks py_node_inlinks sg sgl ps.
Proof. reflexivity. Qed.

(* ---- the two Python sets (lists without repetition, in insertion order) and the model's deduped ---- *)
Lemma dd_nil : forall acc, dedup_from acc [] = acc.
Proof. reflexivity. Qed.
Lemma dd_cons : forall acc x l, dedup_from acc (x :: l) = dedup_from (if memN x acc then acc else acc ++ [x]) l.
Proof. reflexivity. Qed.
Lemma dd_app : forall acc l1 l2, dedup_from acc (l1 ++ l2) = dedup_from (dedup_from acc l1) l2.
Proof. intros acc l1 l2. unfold dedup_from. apply fold_left_app. Qed.
Lemma deduped_dd : forall l, deduped l = dedup_from [] l.
Proof. reflexivity. Qed.
Lemma deduped_snoc : forall l x, deduped (l ++ [x]) = if memN x (deduped l) then deduped l else deduped l ++ [x].
Proof. intros l x. rewrite !deduped_dd, dd_app. reflexivity. Qed.

Lemma lift_we_eqb : forall x y, oN_eqb (lift_we x) (lift_we y) = (x =? y).
Proof.
  intros x y. unfold lift_we.
  destruct (N.eqb_spec x 0) as [->|Hx], (N.eqb_spec y 0) as [->|Hy]; cbn [oN_eqb].
  - reflexivity.
  - symmetry. apply N.eqb_neq. congruence.
  - symmetry. apply N.eqb_neq. exact Hx.
  - reflexivity.
Qed.

Lemma mem_lift_we : forall x acc, existsb (oN_eqb (lift_we x)) (map lift_we acc) = memN x acc.
Proof.
  intros x acc. unfold memN. induction acc as [|y acc IH]; [reflexivity|].
  cbn [map existsb]. rewrite IH, lift_we_eqb. reflexivity.
Qed.

Lemma set_add_some : forall a acc,
  py_set_add (Some a) (map Some acc) = map Some (if memN a acc then acc else acc ++ [a]).
Proof.
  intros a acc. unfold py_set_add. rewrite GenTraphHier.mem_some.
  destruct (memN a acc); [reflexivity|]. rewrite map_app. reflexivity.
Qed.

Lemma set_add_lift_we : forall a acc,
  py_set_add (lift_we a) (map lift_we acc) = map lift_we (if memN a acc then acc else acc ++ [a]).
Proof.
  intros a acc. unfold py_set_add. rewrite mem_lift_we.
  destruct (memN a acc); [reflexivity|]. rewrite map_app. reflexivity.
Qed.

Lemma targets_of_zero : forall st, targets_of st 0 = [].
Proof. reflexivity. Qed.

Lemma fold_nb_body_none : forall l, fold_left nb_body l None = None.
Proof. induction l as [|x l IH]; [reflexivity|exact IH]. Qed.
Lemma fold_nb_item_none : forall hasl links sgl l, fold_left (nb_item hasl links sgl) l None = None.
Proof. intros hasl links sgl. induction l as [|x l IH]; [reflexivity|exact IH]. Qed.
Lemma fold_nb_prefix_none : forall hasl links sgl l, fold_left (nb_prefix hasl links sgl) l None = None.
Proof. intros hasl links sgl. induction l as [|x l IH]; [reflexivity|exact IH]. Qed.

Section Neighbours.
  Variable s : traph.
  Hypothesis Hinv : Inv18 s.
  Hypothesis Hroot : root_first s.

  (* a block address that is the address of a node of the tree *)
  Definition known_block (a : N) : Prop := exists p d, find p (tr s) = Some d /\ addr d = a.

  Lemma targets_known : forall h a, In a (targets_of (stubs s) h) -> known_block a.
  Proof.
    intros h a Hin. unfold targets_of in Hin. apply chain_in' in Hin. destruct Hin as (i & pv & Hn).
    exact (I_targets _ Hinv i a pv Hn).
  Qed.

  Definition wof (a : N) : N := we_at a (tr s).
  (* the set of webentities is a function of the set of blocks done *)
  Definition WS (done : list N) : list (option N) := map lift_we (deduped (map wof done)).

  Lemma nb_fold_spec : forall items sg done tn,
    trep (files_of s) sg -> Forall known_block items ->
    exists sg' tn',
      fold_left nb_body (map Some items) (Some (sg, map Some done, tn, WS done))
        = Some (sg', map Some (dedup_from done items), tn', WS (dedup_from done items)) /\
      trep (files_of s) sg' /\ pm_array sg' = pm_array sg.
  Proof.
    induction items as [|a items IH]; intros sg done tn Hrep Hk.
    - cbn [map fold_left]. rewrite dd_nil. exists sg, tn. split; [reflexivity|]. split; [exact Hrep|reflexivity].
    - inversion Hk as [|? ? (p & d & Hf & Ha) Hrest]; subst.
      destruct (find_subt _ _ _ Hf) as (l & c & r & _ & Hsub).
      pose proof (read_subt s Hinv d l c r tn sg Hsub Hrep) as HR. cbv zeta in HR.
      pose proof (node_read_o_arr tn sg (Some (addr d))) as Harr.
      destruct (py_node_read_o tn sg (Some (addr d))) as [nd1 sg1] eqn:Er. cbn [fst snd] in HR, Harr.
      destruct HR as [Hn1 Hrep1]. pose proof Hn1 as (_ & Hb & _).
      cbn [map fold_left]. cbn [nb_body]. rewrite Er, Hb, GenTraphHier.mem_some, dd_cons.
      destruct (memN (addr d) done) eqn:Em; cbn [negb].
      + destruct (IH sg1 done nd1 Hrep1 Hrest) as (sg' & tn' & E & Hrep' & Harr').
        exists sg', tn'. split; [exact E|]. split; [exact Hrep'|congruence].
      + destruct (windup_we_on_state s Hinv p d l c r nd1 sg1 Hf Hsub Hn1 Hrep1) as (sg2 & Ew & Hrep2 & Harr2).
        rewrite Ew. cbv zeta. rewrite set_add_some, Em.
        assert (EW : py_set_add (lift_we (we_at (addr d) (tr s))) (WS done) = WS (done ++ [addr d])).
        { unfold WS. rewrite set_add_lift_we, map_app. cbn [map]. rewrite deduped_snoc. reflexivity. }
        rewrite EW.
        destruct (IH sg2 (done ++ [addr d]) nd1 Hrep2 Hrest) as (sg' & tn' & E & Hrep' & Harr').
        exists sg', tn'. split; [exact E|]. split; [exact Hrep'|congruence].
  Qed.

  (* one direction: which register of the node holds the head of the list *)
  Variable hasl : py_node -> bool.
  Variable links : py_node -> N.
  Variable head : nd -> N.
  Variable sgl : py_pm.
  Hypothesis Hreg : forall d l c r n, GenTrieFacts.node_at (Nd d l c r) n ->
    hasl n = negb (head d =? 0) /\ links n = head d.
  Hypothesis Hiter : forall p d, find p (tr s) = Some d -> head d <> 0 ->
    py_ls_deduped_link_nodes_iter sgl (head d) = Some (map Some (deduped (targets_of (stubs s) (head d)))).

  Definition blocks_of (m : bytes * nd) : list N := deduped (targets_of (stubs s) (head (snd m))).

  Lemma nb_item_spec : forall it m sg done tn,
    item_rep s it m -> trep (files_of s) sg ->
    exists sg' tn',
      nb_item hasl links sgl (Some (sg, map Some done, tn, WS done)) it
        = Some (sg', map Some (dedup_from done (if page (snd m) then blocks_of m else [])), tn',
                WS (dedup_from done (if page (snd m) then blocks_of m else []))) /\
      trep (files_of s) sg' /\ pm_array sg' = pm_array sg.
  Proof.
    intros [n lru] [lru' d] sg done tn Hit Hrep. pose proof (item_page s _ _ Hit) as Hpg.
    destruct Hit as (_ & l & c & r & Hsub & Hn). cbn [fst snd] in *.
    cbn [nb_item]. rewrite Hpg.
    destruct (page d); cbn [negb].
    2:{ rewrite dd_nil. exists sg, tn. split; [reflexivity|]. split; [exact Hrep|reflexivity]. }
    destruct (Hreg d l c r n Hn) as [Eh El]. rewrite Eh, El. unfold blocks_of. cbn [snd].
    destruct (N.eqb_spec (head d) 0) as [Ez|Enz]; cbn [negb].
    - rewrite Ez, targets_of_zero. change (deduped []) with (@nil N). rewrite dd_nil.
      exists sg, tn. split; [reflexivity|]. split; [exact Hrep|reflexivity].
    - destruct (subt_node_find d l c r (tr s) (proj1 (I_wf _ Hinv)) Hsub) as (p & Hf).
      rewrite (Hiter p d Hf Enz).
      assert (Hk : Forall known_block (deduped (targets_of (stubs s) (head d)))).
      { apply Forall_forall. intros a Ha. apply (proj1 (deduped_in _ _)) in Ha. exact (targets_known _ _ Ha). }
      destruct (nb_fold_spec _ sg done tn Hrep Hk) as (sg' & tn' & E & Hrep' & Harr').
      rewrite E. exists sg', tn'. split; [reflexivity|]. split; assumption.
  Qed.

  Lemma nb_items_spec : forall items ms sg done tn,
    Forall2 (item_rep s) items ms -> trep (files_of s) sg ->
    exists sg' tn',
      fold_left (nb_item hasl links sgl) items (Some (sg, map Some done, tn, WS done))
        = Some (sg', map Some (dedup_from done (flat_map blocks_of (filter (fun x => page (snd x)) ms))), tn',
                WS (dedup_from done (flat_map blocks_of (filter (fun x => page (snd x)) ms)))) /\
      trep (files_of s) sg' /\ pm_array sg' = pm_array sg.
  Proof.
    intros items ms sg done tn H. revert sg done tn.
    induction H as [|it m items ms Hit _ IH]; intros sg done tn Hrep.
    - cbn [fold_left filter flat_map]. rewrite dd_nil. exists sg, tn.
      split; [reflexivity|]. split; [exact Hrep|reflexivity].
    - destruct (nb_item_spec it m sg done tn Hit Hrep) as (sg1 & tn1 & E1 & Hrep1 & Harr1).
      cbn [fold_left]. rewrite E1.
      destruct (IH sg1 (dedup_from done (if page (snd m) then blocks_of m else [])) tn1 Hrep1) as (sg' & tn' & E & Hrep' & Harr').
      exists sg', tn'. rewrite E. cbn [filter].
      destruct (page (snd m)).
      + cbn [flat_map]. rewrite dd_app. split; [reflexivity|]. split; [exact Hrep'|congruence].
      + rewrite dd_nil. split; [reflexivity|]. split; [exact Hrep'|congruence].
  Qed.

  Lemma nb_prefixes_spec : forall ps sg done tn,
    trep (files_of s) sg -> Forall wf_lru ps ->
    match over_prefixes pages_of ps (tr s) with
    | ROk l => exists sg' tn',
        fold_left (nb_prefix hasl links sgl) ps (Some (sg, map Some done, tn, WS done))
          = Some (sg', map Some (dedup_from done (flat_map blocks_of l)), tn',
                  WS (dedup_from done (flat_map blocks_of l))) /\
        trep (files_of s) sg' /\ pm_array sg' = pm_array sg
    | _ => fold_left (nb_prefix hasl links sgl) ps (Some (sg, map Some done, tn, WS done)) = None
    end.
  Proof.
    induction ps as [|p ps IH]; intros sg done tn Hrep Hwf.
    - cbn [over_prefixes fold_left flat_map]. rewrite dd_nil. exists sg, tn.
      split; [reflexivity|]. split; [exact Hrep|reflexivity].
    - inversion Hwf as [|? ? Hp Hps]; subst.
      cbn [over_prefixes fold_left].
      destruct (lru_node_full s Hinv Hroot sg p Hrep Hp) as (sg1 & Hrep1 & Harr1 & H1).
      destruct (find_sub (lru_iter p) (tr s)) as [sub|].
      2:{ cbn [nb_prefix]. rewrite H1. apply fold_nb_prefix_none. }
      destruct H1 as (n1 & E1 & Hn1 & Hsub1).
      destruct (py_trie_webentity_dfs_iter_spec s Hinv sg1 None sub n1 p Hrep1 Hsub1 Hn1)
        as (items & sg2 & E2 & Hrep2 & Harr2 & Hitems).
      destruct (nb_items_spec items _ sg2 done tn Hitems Hrep2) as (sg3 & tn3 & E3 & Hrep3 & Harr3).
      cbn [nb_prefix]. rewrite E1, E2, E3.
      fold (pages_of p sub).
      specialize (IH sg3 (dedup_from done (flat_map blocks_of (pages_of p sub))) tn3 Hrep3 Hps).
      destruct (over_prefixes pages_of ps (tr s)) as [| |l].
      + exact IH.
      + exact IH.
      + destruct IH as (sg' & tn' & E & Hrep' & Harr'). exists sg', tn'.
        rewrite E, flat_map_app, dd_app. split; [reflexivity|]. split; [exact Hrep'|congruence].
  Qed.

  Lemma nb_req_spec : forall sg ps,
    trep (files_of s) sg -> Forall wf_lru ps ->
    match we_page_nodes None ps s with
    | ROk l => exists sg',
        nb_req hasl links sg sgl ps
          = Some (sg', map lift_we (deduped (map wof (deduped (flat_map blocks_of l))))) /\
        trep (files_of s) sg' /\ pm_array sg' = pm_array sg
    | _ => nb_req hasl links sg sgl ps = None
    end.
  Proof.
    intros sg ps Hrep Hwf. unfold nb_req. rewrite node_init_none.
    pose proof (nb_prefixes_spec ps sg [] (py_node_set_default_data py_node_new None) Hrep Hwf) as H.
    unfold we_page_nodes.
    change (fun p sub => filter (fun x => page (snd x)) (wdfs_at None (lru_dirname p) sub)) with pages_of.
    change (WS []) with (@nil (option N)) in H. cbn [map] in H.
    destruct (over_prefixes pages_of ps (tr s)) as [| |l].
    - rewrite H. reflexivity.
    - rewrite H. reflexivity.
    - destruct H as (sg' & tn' & E & Hrep' & Harr'). rewrite E. exists sg'.
      split; [reflexivity|]. split; assumption.
  Qed.
End Neighbours.

(* ---- the two directions, for every history ---- *)
Lemma out_reg : forall d l c r n, GenTrieFacts.node_at (Nd d l c r) n ->
  py_node_has_outlinks n = negb (outh d =? 0) /\ py_node_outlinks n = outh d.
Proof.
  intros d l c r n (_ & _ & Hd & _). unfold py_node_has_outlinks, py_node_outlinks.
  rewrite Hd, GenTraphLFacts.get_out. cbn [main_block b_out]. split; reflexivity.
Qed.
Lemma in_reg : forall d l c r n, GenTrieFacts.node_at (Nd d l c r) n ->
  py_node_has_inlinks n = negb (inh d =? 0) /\ py_node_inlinks n = inh d.
Proof.
  intros d l c r n (_ & _ & Hd & _). unfold py_node_has_inlinks, py_node_inlinks.
  rewrite Hd, GenTraphLFacts.get_in. cbn [main_block b_in]. split; reflexivity.
Qed.

(* what a reachable state gives: the invariant, the lists of the link file *)
Lemma run_facts : forall d rs h, wf_rules rs -> Forall wf_op h ->
  let s := run d rs h in
  forall sgl, lrep (stubs s) sgl -> fits (nb s * bsz) -> fits (saddr (length (stubs s))) ->
  Inv18 s /\ root_first s /\
  (forall h x, In x (weighted (targets_of (stubs s) h)) -> known_target s x) /\
  (forall p nd, find p (tr s) = Some nd ->
     (outh nd <> 0 -> py_ls_weighted_link_nodes_iter sgl (outh nd) = Some (map lift (out_w nd s)) /\
                      py_ls_deduped_link_nodes_iter sgl (outh nd) = Some (map Some (deduped (targets_of (stubs s) (outh nd))))) /\
     (inh nd <> 0 -> py_ls_weighted_link_nodes_iter sgl (inh nd) = Some (map lift (in_w nd s)) /\
                     py_ls_deduped_link_nodes_iter sgl (inh nd) = Some (map Some (deduped (targets_of (stubs s) (inh nd)))))).
Proof.
  intros d rs h Hr Hh s sgl Hlrep Hft Hfl.
  pose proof (run_Inv18 d rs h Hh) as Hinv. fold s in Hinv.
  pose proof (run_root_first d rs h) as Hroot. fold s in Hroot.
  pose proof (run_RR d rs h Hr Hh) as HRR. fold s in HRR.
  pose proof (proj2 HRR) as HR.
  pose proof (reachable_wf_stubs s _ HR Hft Hfl) as Hwfs.
  split; [exact Hinv|]. split; [exact Hroot|]. split; [exact (reachable_known_target s _ HRR)|].
  intros p nd Hf. destruct (L_heads s _ HR p nd Hf) as [Ho Hi].
  split; intro Hnz.
  - destruct Ho as [E|(j & Hj & E)]; [contradiction|]. unfold out_w. rewrite E.
    destruct (nth_error (stubs s) j) as [x|] eqn:En; [|apply nth_error_None in En; lia].
    split; [exact (py_ls_weighted_spec (stubs s) sgl j x Hwfs Hlrep En)|
            exact (py_ls_deduped_spec (stubs s) sgl j x Hwfs Hlrep En)].
  - destruct Hi as [E|(j & Hj & E)]; [contradiction|]. unfold in_w. rewrite E.
    destruct (nth_error (stubs s) j) as [x|] eqn:En; [|apply nth_error_None in En; lia].
    split; [exact (py_ls_weighted_spec (stubs s) sgl j x Hwfs Hlrep En)|
            exact (py_ls_deduped_spec (stubs s) sgl j x Hwfs Hlrep En)].
Qed.

Theorem py_traph_get_webentity_neighbours_spec : forall d rs h, wf_rules rs -> Forall wf_op h ->
  let s := run d rs h in
  forall sg sgl w ps,
    trep (files_of s) sg -> lrep (stubs s) sgl -> fits (nb s * bsz) -> fits (saddr (length (stubs s))) ->
    Forall wf_lru ps ->
    match webentity_neighbours true ps s with
    | ROk l => exists sg', py_traph_get_webentity_outlinks sg sgl w ps = Some (sg', map lift_we l) /\
                 trep (files_of s) sg' /\ pm_array sg' = pm_array sg
    | _ => py_traph_get_webentity_outlinks sg sgl w ps = None
    end /\
    match webentity_neighbours false ps s with
    | ROk l => exists sg', py_traph_get_webentity_inlinks sg sgl w ps = Some (sg', map lift_we l) /\
                 trep (files_of s) sg' /\ pm_array sg' = pm_array sg
    | _ => py_traph_get_webentity_inlinks sg sgl w ps = None
    end.
Proof.
  intros d rs h Hr Hh s sg sgl w ps Hrep Hlrep Hft Hfl Hwf.
  destruct (run_facts d rs h Hr Hh sgl Hlrep Hft Hfl) as (Hinv & Hroot & _ & Hheads). fold s in Hinv, Hroot, Hheads.
  split.
  - rewrite outlinks_eq.
    pose proof (nb_req_spec s Hinv Hroot py_node_has_outlinks py_node_outlinks outh sgl out_reg
                  (fun p nd Hf Hnz => proj2 (proj1 (Hheads p nd Hf) Hnz)) sg ps Hrep Hwf) as H.
    unfold webentity_neighbours. destruct (we_page_nodes None ps s) as [| |l]; exact H.
  - rewrite inlinks_eq.
    pose proof (nb_req_spec s Hinv Hroot py_node_has_inlinks py_node_inlinks inh sgl in_reg
                  (fun p nd Hf Hnz => proj2 (proj2 (Hheads p nd Hf) Hnz)) sg ps Hrep Hwf) as H.
    unfold webentity_neighbours. destruct (we_page_nodes None ps s) as [| |l]; exact H.
Qed.

Corollary py_traph_get_webentity_outlinks_spec : forall d rs h, wf_rules rs -> Forall wf_op h ->
  let s := run d rs h in
  forall sg sgl w ps,
    trep (files_of s) sg -> lrep (stubs s) sgl -> fits (nb s * bsz) -> fits (saddr (length (stubs s))) ->
    Forall wf_lru ps ->
    match webentity_neighbours true ps s with
    | ROk l => exists sg', py_traph_get_webentity_outlinks sg sgl w ps = Some (sg', map lift_we l) /\
                 trep (files_of s) sg' /\ pm_array sg' = pm_array sg
    | _ => py_traph_get_webentity_outlinks sg sgl w ps = None
    end.
Proof.
  intros d rs h Hr Hh s sg sgl w ps Hrep Hlrep Hft Hfl Hwf.
  exact (proj1 (py_traph_get_webentity_neighbours_spec d rs h Hr Hh sg sgl w ps Hrep Hlrep Hft Hfl Hwf)).
Qed.

Corollary py_traph_get_webentity_inlinks_spec : forall d rs h, wf_rules rs -> Forall wf_op h ->
  let s := run d rs h in
  forall sg sgl w ps,
    trep (files_of s) sg -> lrep (stubs s) sgl -> fits (nb s * bsz) -> fits (saddr (length (stubs s))) ->
    Forall wf_lru ps ->
    match webentity_neighbours false ps s with
    | ROk l => exists sg', py_traph_get_webentity_inlinks sg sgl w ps = Some (sg', map lift_we l) /\
                 trep (files_of s) sg' /\ pm_array sg' = pm_array sg
    | _ => py_traph_get_webentity_inlinks sg sgl w ps = None
    end.
Proof.
  intros d rs h Hr Hh s sg sgl w ps Hrep Hlrep Hft Hfl Hwf.
  exact (proj2 (py_traph_get_webentity_neighbours_spec d rs h Hr Hh sg sgl w ps Hrep Hlrep Hft Hfl Hwf)).
Qed.

Print Assumptions py_traph_get_webentity_neighbours_spec.

(* ====================================================================================== *)
(* 3. get_webentity_pagelinks, re-stated in named pieces                                  *)
(* ====================================================================================== *)
Definition PSt : Type := option (py_pm * list (bytes * bytes * N) * py_node * py_node).

(* body of `for target, weight in weighted_link_nodes_iter(out-list)` *)
Definition pq_out_body (v_weid : N) (v_lru : bytes) (v_include_outbound v_include_internal : bool)
    (st : LSt) (v__it : option N * N) : LSt :=
  match st with
  | None => None
  | Some (sg, v_pagelinks, v_target_node) => (let '(v_target, v_weight) := v__it in
   (let '(v_target_node, sg) := py_node_read_o v_target_node sg v_target in
   (match (nd_block v_target_node) with
   | None => None
   | Some v__x => (match py_trie_windup_lru sg v__x with
   | None => None
   | Some (sg, v_target_lru) => (match py_trie_windup_lru_for_webentity sg v_target_node with
   | None => None
   | Some (sg, v_target_webentity) => (if ((v_include_outbound && (negb (oN_eqb v_target_webentity (Some v_weid)))) || (v_include_internal && (oN_eqb v_target_webentity (Some v_weid))))
   then (let v_pagelinks := v_pagelinks ++ [(v_lru, v_target_lru, v_weight)] in
   (Some (sg, v_pagelinks, v_target_node)))
   else (Some (sg, v_pagelinks, v_target_node))) end) end) end))) end.

(* body of `for source, weight in weighted_link_nodes_iter(in-list)` *)
Definition pq_in_body (v_weid : N) (v_lru : bytes) (st : LSt) (v__it : option N * N) : LSt :=
  match st with
  | None => None
  | Some (sg, v_pagelinks, v_source_node) => (let '(v_target, v_weight) := v__it in
   (let '(v_source_node, sg) := py_node_read_o v_source_node sg v_target in
   (match (nd_block v_source_node) with
   | None => None
   | Some v__x => (match py_trie_windup_lru sg v__x with
   | None => None
   | Some (sg, v_source_lru) => (match py_trie_windup_lru_for_webentity sg v_source_node with
   | None => None
   | Some (sg, v_source_webentity) => (if (negb (oN_eqb v_source_webentity (Some v_weid)))
   then (let v_pagelinks := v_pagelinks ++ [(v_source_lru, v_lru, v_weight)] in
   (Some (sg, v_pagelinks, v_source_node)))
   else (Some (sg, v_pagelinks, v_source_node))) end) end) end))) end.

(* the inbound part of the loop body (the generated term has it once per branch of the outbound `if`) *)
Definition pq_in_part (sgl : py_pm) (v_weid : N) (v_lru : bytes) (v_include_inbound : bool) (v_node : py_node)
    (sg : py_pm) (v_pagelinks : list (bytes * bytes * N)) (v_source_node v_target_node : py_node) : PSt :=
  if ((py_node_has_inlinks v_node) && v_include_inbound)
  then (match py_ls_weighted_link_nodes_iter sgl (py_node_inlinks v_node) with
        | None => None
        | Some v__stubs =>
            match fold_left (pq_in_body v_weid v_lru) v__stubs (Some (sg, v_pagelinks, v_source_node)) with
            | None => None
            | Some (sg, v_pagelinks, v_source_node) => Some (sg, v_pagelinks, v_source_node, v_target_node)
            end
        end)
  else Some (sg, v_pagelinks, v_source_node, v_target_node).

(* body of `for node, lru in webentity_dfs_iter(...)` *)
Definition pq_item (sgl : py_pm) (v_weid : N) (inb int outb : bool) (st : PSt) (v__it : py_node * bytes) : PSt :=
  match st with
  | None => None
  | Some (sg, v_pagelinks, v_source_node, v_target_node) => (let '(v_node, v_lru) := v__it in
   (if (negb (py_node_is_page v_node))
   then (Some (sg, v_pagelinks, v_source_node, v_target_node))
   else (if ((py_node_has_outlinks v_node) && (outb || int))
   then (match py_ls_weighted_link_nodes_iter sgl (py_node_outlinks v_node) with
   | None => None
   | Some v__stubs => (match fold_left (pq_out_body v_weid v_lru outb int) v__stubs (Some (sg, v_pagelinks, v_target_node)) with
   | None => None
   | Some (sg, v_pagelinks, v_target_node) =>
       pq_in_part sgl v_weid v_lru inb v_node sg v_pagelinks v_source_node v_target_node end) end)
   else pq_in_part sgl v_weid v_lru inb v_node sg v_pagelinks v_source_node v_target_node))) end.

(* body of `for prefix in prefixes` *)
Definition pq_prefix (sgl : py_pm) (v_weid : N) (inb int outb : bool) (st : PSt) (v_prefix : bytes) : PSt :=
  match st with
  | None => None
  | Some (sg, v_pagelinks, v_source_node, v_target_node) =>
   (match py_trie_lru_node sg v_prefix with
   | None => None
   | Some (sg, v_starting_node) => (match v_starting_node with
   | None => None
   | Some v_starting_node => (match py_trie_webentity_dfs_iter sg v_starting_node v_prefix None with
   | None => None
   | Some (v__items, sg) => (match fold_left (pq_item sgl v_weid inb int outb) v__items (Some (sg, v_pagelinks, v_source_node, v_target_node)) with
   | None => None
   | Some (sg, v_pagelinks, v_source_node, v_target_node) => (Some (sg, v_pagelinks, v_source_node, v_target_node)) end) end) end) end) end.

Lemma pagelinks_eq : forall sg sgl w ps inb int outb,
  py_traph_get_webentity_pagelinks sg sgl w ps inb int outb =
  if (negb int) && (negb outb) && (negb inb) then None
  else
    let '(v_source_node, sg) := py_node_init sg None None None in
    let '(v_target_node, sg) := py_node_init sg None None None in
    match fold_left (pq_prefix sgl w inb int outb) ps (Some (sg, [], v_source_node, v_target_node)) with
    | None => None
    | Some (sg, v_pagelinks, _, _) => Some (sg, v_pagelinks)
    end.
Proof. reflexivity. Qed.

(* what the model does with one weighted out-target / in-source of a page of webentity w *)
Definition wout_keep (w : N) (lru : bytes) (outb int : bool) (s : traph) (x : N * N) : list (bytes * bytes * N) :=
  let '(tg, wt) := x in
  let tw := we_at tg (tr s) in
  if (outb && negb (tw =? w)) || (int && (tw =? w)) then [(lru, lru_at tg s, wt)] else [].
Definition win_keep (w : N) (lru : bytes) (s : traph) (x : N * N) : list (bytes * bytes * N) :=
  let '(sr, wt) := x in
  if negb (we_at sr (tr s) =? w) then [(lru_at sr s, lru, wt)] else [].

Lemma pagelinks_of_eq : forall w inb int outb s x,
  pagelinks_of w inb int outb s x =
  (if negb (outh (snd x) =? 0) && (outb || int) then flat_map (wout_keep w (fst x) outb int s) (out_w (snd x) s) else [])
  ++ (if negb (inh (snd x) =? 0) && inb then flat_map (win_keep w (fst x) s) (in_w (snd x) s) else []).
Proof. intros w inb int outb s [lru d]. reflexivity. Qed.

Lemma lift_we_some : forall w, w <> 0 -> Some w = lift_we w.
Proof. intros w Hw. unfold lift_we. destruct (N.eqb_spec w 0) as [E|_]; [contradiction|reflexivity]. Qed.

Lemma fold_pq_item_none : forall sgl w inb int outb l, fold_left (pq_item sgl w inb int outb) l None = None.
Proof. intros sgl w inb int outb. induction l as [|x l IH]; [reflexivity|exact IH]. Qed.
Lemma fold_pq_prefix_none : forall sgl w inb int outb l, fold_left (pq_prefix sgl w inb int outb) l None = None.
Proof. intros sgl w inb int outb. induction l as [|x l IH]; [reflexivity|exact IH]. Qed.

Section Pagelinks.
  Variable s : traph.
  Hypothesis Hinv : Inv18 s.
  Hypothesis Hroot : root_first s.
  Variable w : N.
  Hypothesis Hw : w <> 0.

  (* reading the block of a target into any node object, winding it up to its LRU, then to its webentity *)
  Lemma read_windup_we : forall x nd0 sg, known_target s x -> trep (files_of s) sg ->
    exists nd1 sg1 sg2 sg3,
      py_node_read_o nd0 sg (Some (fst x)) = (nd1, sg1) /\ nd_block nd1 = Some (fst x) /\
      py_trie_windup_lru sg1 (fst x) = Some (sg2, lru_at (fst x) s) /\
      py_trie_windup_lru_for_webentity sg2 nd1 = Some (sg3, lift_we (we_at (fst x) (tr s))) /\
      trep (files_of s) sg3 /\ pm_array sg3 = pm_array sg.
  Proof.
    intros x nd0 sg (p & d & Hf & Ha & Hl) Hrep.
    destruct (find_subt _ _ _ Hf) as (l & c & r & _ & Hsub).
    pose proof (read_subt s Hinv d l c r nd0 sg Hsub Hrep) as HR. cbv zeta in HR.
    pose proof (node_read_o_arr nd0 sg (Some (addr d))) as Harr.
    rewrite Ha in HR, Harr.
    destruct (py_node_read_o nd0 sg (Some (fst x))) as [nd1 sg1]. cbn [fst snd] in HR, Harr.
    destruct HR as [Hn1 Hrep1]. pose proof Hn1 as (_ & Hb & _).
    destruct (py_trie_windup_spec s Hinv sg1 p d Hrep1 Hf) as (sg2 & Ew & Hrep2).
    destruct (windup_we_on_state s Hinv p d l c r nd1 sg2 Hf Hsub Hn1 Hrep2) as (sg3 & Ew3 & Hrep3 & Harr3).
    rewrite Ha in Hb, Ew, Ew3.
    exists nd1, sg1, sg2, sg3. split; [reflexivity|]. split; [exact Hb|].
    split; [rewrite Hl; exact Ew|]. split; [exact Ew3|]. split; [exact Hrep3|].
    rewrite Harr3, (windup_arr _ _ _ _ Ew). exact Harr.
  Qed.

  Lemma pq_out_fold_spec : forall lru outb int items sg pl tn,
    trep (files_of s) sg -> Forall (known_target s) items ->
    exists sg' tn',
      fold_left (pq_out_body w lru outb int) (map lift items) (Some (sg, pl, tn))
        = Some (sg', pl ++ flat_map (wout_keep w lru outb int s) items, tn') /\
      trep (files_of s) sg' /\ pm_array sg' = pm_array sg.
  Proof.
    intros lru outb int. induction items as [|[tg wt] items IH]; intros sg pl tn Hrep Hk.
    - cbn [map fold_left flat_map]. rewrite app_nil_r. exists sg, tn.
      split; [reflexivity|]. split; [exact Hrep|reflexivity].
    - inversion Hk as [|? ? Hx Hrest]; subst.
      destruct (read_windup_we (tg, wt) tn sg Hx Hrep) as (nd1 & sg1 & sg2 & sg3 & Er & Hb & Ew & Ew3 & Hrep3 & Harr3).
      cbn [fst] in Er, Hb, Ew, Ew3.
      cbn [map fold_left flat_map]. change (lift (tg, wt)) with (Some tg, wt). cbn [pq_out_body].
      rewrite Er, Hb, Ew, Ew3. cbn [wout_keep]. cbv zeta.
      rewrite (lift_we_some w Hw), lift_we_eqb.
      destruct ((outb && negb (we_at tg (tr s) =? w)) || (int && (we_at tg (tr s) =? w))).
      + destruct (IH sg3 (pl ++ [(lru, lru_at tg s, wt)]) nd1 Hrep3 Hrest) as (sg' & tn' & E & Hrep' & Harr').
        exists sg', tn'. rewrite E, <- app_assoc. split; [reflexivity|]. split; [exact Hrep'|congruence].
      + destruct (IH sg3 pl nd1 Hrep3 Hrest) as (sg' & tn' & E & Hrep' & Harr').
        exists sg', tn'. rewrite E. split; [reflexivity|]. split; [exact Hrep'|congruence].
  Qed.

  Lemma pq_in_fold_spec : forall lru items sg pl sn,
    trep (files_of s) sg -> Forall (known_target s) items ->
    exists sg' sn',
      fold_left (pq_in_body w lru) (map lift items) (Some (sg, pl, sn))
        = Some (sg', pl ++ flat_map (win_keep w lru s) items, sn') /\
      trep (files_of s) sg' /\ pm_array sg' = pm_array sg.
  Proof.
    intros lru. induction items as [|[tg wt] items IH]; intros sg pl sn Hrep Hk.
    - cbn [map fold_left flat_map]. rewrite app_nil_r. exists sg, sn.
      split; [reflexivity|]. split; [exact Hrep|reflexivity].
    - inversion Hk as [|? ? Hx Hrest]; subst.
      destruct (read_windup_we (tg, wt) sn sg Hx Hrep) as (nd1 & sg1 & sg2 & sg3 & Er & Hb & Ew & Ew3 & Hrep3 & Harr3).
      cbn [fst] in Er, Hb, Ew, Ew3.
      cbn [map fold_left flat_map]. change (lift (tg, wt)) with (Some tg, wt). cbn [pq_in_body].
      rewrite Er, Hb, Ew, Ew3. cbn [win_keep]. cbv zeta.
      rewrite (lift_we_some w Hw), lift_we_eqb.
      destruct (negb (we_at tg (tr s) =? w)).
      + destruct (IH sg3 (pl ++ [(lru_at tg s, lru, wt)]) nd1 Hrep3 Hrest) as (sg' & sn' & E & Hrep' & Harr').
        exists sg', sn'. rewrite E, <- app_assoc. split; [reflexivity|]. split; [exact Hrep'|congruence].
      + destruct (IH sg3 pl nd1 Hrep3 Hrest) as (sg' & sn' & E & Hrep' & Harr').
        exists sg', sn'. rewrite E. split; [reflexivity|]. split; [exact Hrep'|congruence].
  Qed.

  Variable sgl : py_pm.
  Hypothesis Hiter : forall p nd, find p (tr s) = Some nd ->
    (outh nd <> 0 -> py_ls_weighted_link_nodes_iter sgl (outh nd) = Some (map lift (out_w nd s))) /\
    (inh nd <> 0 -> py_ls_weighted_link_nodes_iter sgl (inh nd) = Some (map lift (in_w nd s))).
  Hypothesis Hknown : forall h x, In x (weighted (targets_of (stubs s) h)) -> known_target s x.

  Lemma pq_in_part_spec : forall lru inb d l c r n p sg pl sn tn,
    GenTrieFacts.node_at (Nd d l c r) n -> find p (tr s) = Some d -> trep (files_of s) sg ->
    exists sg' sn', pq_in_part sgl w lru inb n sg pl sn tn
                = Some (sg', pl ++ (if negb (inh d =? 0) && inb then flat_map (win_keep w lru s) (in_w d s) else []), sn', tn) /\
      trep (files_of s) sg' /\ pm_array sg' = pm_array sg.
  Proof.
    intros lru inb d l c r n p sg pl sn tn Hn Hf Hrep.
    unfold pq_in_part. destruct (in_reg d l c r n Hn) as [-> ->].
    destruct (N.eqb_spec (inh d) 0) as [Ez|Enz]; cbn [negb andb].
    - exists sg, sn. rewrite app_nil_r. split; [reflexivity|]. split; [exact Hrep|reflexivity].
    - destruct inb.
      + rewrite (proj2 (Hiter p d Hf) Enz).
        assert (Hk : Forall (known_target s) (in_w d s)).
        { apply Forall_forall. intros x Hx. exact (Hknown (inh d) x Hx). }
        destruct (pq_in_fold_spec lru (in_w d s) sg pl sn Hrep Hk) as (sg' & sn' & E & Hrep' & Harr').
        rewrite E. exists sg', sn'. split; [reflexivity|]. split; [exact Hrep'|exact Harr'].
      + exists sg, sn. rewrite app_nil_r. split; [reflexivity|]. split; [exact Hrep|reflexivity].
  Qed.

  Lemma pq_item_spec : forall inb int outb it m sg pl sn tn,
    item_rep s it m -> trep (files_of s) sg ->
    exists sg' sn' tn',
      pq_item sgl w inb int outb (Some (sg, pl, sn, tn)) it
        = Some (sg', pl ++ (if page (snd m) then pagelinks_of w inb int outb s m else []), sn', tn') /\
      trep (files_of s) sg' /\ pm_array sg' = pm_array sg.
  Proof.
    intros inb int outb [n lru] [lru' d] sg pl sn tn Hit Hrep. pose proof (item_page s _ _ Hit) as Hpg.
    destruct Hit as (Elru & l & c & r & Hsub & Hn). cbn [fst snd] in *. subst lru'.
    cbn [pq_item]. rewrite Hpg.
    destruct (page d); cbn [negb].
    2:{ rewrite app_nil_r. exists sg, sn, tn. split; [reflexivity|]. split; [exact Hrep|reflexivity]. }
    destruct (subt_node_find d l c r (tr s) (proj1 (I_wf _ Hinv)) Hsub) as (p & Hf).
    rewrite pagelinks_of_eq. cbn [fst snd].
    destruct (out_reg d l c r n Hn) as [-> ->].
    destruct (negb (outh d =? 0) && (outb || int)) eqn:Eo.
    - apply andb_true_iff in Eo. destruct Eo as [Eo _]. apply negb_true_iff, N.eqb_neq in Eo.
      rewrite (proj1 (Hiter p d Hf) Eo).
      assert (Hk : Forall (known_target s) (out_w d s)).
      { apply Forall_forall. intros x Hx. exact (Hknown (outh d) x Hx). }
      destruct (pq_out_fold_spec lru outb int (out_w d s) sg pl tn Hrep Hk) as (sg2 & tn' & E2 & Hrep2 & Harr2).
      rewrite E2.
      destruct (pq_in_part_spec lru inb d l c r n p sg2 (pl ++ flat_map (wout_keep w lru outb int s) (out_w d s)) sn tn'
                  Hn Hf Hrep2) as (sg3 & sn' & E3 & Hrep3 & Harr3).
      rewrite E3. exists sg3, sn', tn'. rewrite <- app_assoc. split; [reflexivity|]. split; [exact Hrep3|congruence].
    - destruct (pq_in_part_spec lru inb d l c r n p sg pl sn tn Hn Hf Hrep) as (sg3 & sn' & E3 & Hrep3 & Harr3).
      rewrite E3. exists sg3, sn', tn. cbn [app]. split; [reflexivity|]. split; [exact Hrep3|exact Harr3].
  Qed.

  Lemma pq_items_spec : forall inb int outb items ms sg pl sn tn,
    Forall2 (item_rep s) items ms -> trep (files_of s) sg ->
    exists sg' sn' tn',
      fold_left (pq_item sgl w inb int outb) items (Some (sg, pl, sn, tn))
        = Some (sg', pl ++ flat_map (pagelinks_of w inb int outb s) (filter (fun x => page (snd x)) ms), sn', tn') /\
      trep (files_of s) sg' /\ pm_array sg' = pm_array sg.
  Proof.
    intros inb int outb items ms sg pl sn tn H. revert sg pl sn tn.
    induction H as [|it m items ms Hit _ IH]; intros sg pl sn tn Hrep.
    - cbn [fold_left filter flat_map]. rewrite app_nil_r. exists sg, sn, tn.
      split; [reflexivity|]. split; [exact Hrep|reflexivity].
    - destruct (pq_item_spec inb int outb it m sg pl sn tn Hit Hrep) as (sg1 & sn1 & tn1 & E1 & Hrep1 & Harr1).
      cbn [fold_left]. rewrite E1.
      destruct (IH sg1 (pl ++ (if page (snd m) then pagelinks_of w inb int outb s m else [])) sn1 tn1 Hrep1)
        as (sg' & sn' & tn' & E & Hrep' & Harr').
      exists sg', sn', tn'. rewrite E. cbn [filter].
      destruct (page (snd m)).
      + cbn [flat_map]. rewrite <- !app_assoc. split; [reflexivity|]. split; [exact Hrep'|congruence].
      + rewrite app_nil_r. split; [reflexivity|]. split; [exact Hrep'|congruence].
  Qed.

  Lemma pq_prefixes_spec : forall inb int outb ps sg pl sn tn,
    trep (files_of s) sg -> Forall wf_lru ps ->
    match over_prefixes pages_of ps (tr s) with
    | ROk l => exists sg' sn' tn',
        fold_left (pq_prefix sgl w inb int outb) ps (Some (sg, pl, sn, tn))
          = Some (sg', pl ++ flat_map (pagelinks_of w inb int outb s) l, sn', tn') /\
        trep (files_of s) sg' /\ pm_array sg' = pm_array sg
    | _ => fold_left (pq_prefix sgl w inb int outb) ps (Some (sg, pl, sn, tn)) = None
    end.
  Proof.
    intros inb int outb. induction ps as [|p ps IH]; intros sg pl sn tn Hrep Hwf.
    - cbn [over_prefixes fold_left flat_map]. rewrite app_nil_r. exists sg, sn, tn.
      split; [reflexivity|]. split; [exact Hrep|reflexivity].
    - inversion Hwf as [|? ? Hp Hps]; subst.
      cbn [over_prefixes fold_left].
      destruct (lru_node_full s Hinv Hroot sg p Hrep Hp) as (sg1 & Hrep1 & Harr1 & H1).
      destruct (find_sub (lru_iter p) (tr s)) as [sub|].
      2:{ cbn [pq_prefix]. rewrite H1. apply fold_pq_prefix_none. }
      destruct H1 as (n1 & E1 & Hn1 & Hsub1).
      destruct (py_trie_webentity_dfs_iter_spec s Hinv sg1 None sub n1 p Hrep1 Hsub1 Hn1)
        as (items & sg2 & E2 & Hrep2 & Harr2 & Hitems).
      destruct (pq_items_spec inb int outb items _ sg2 pl sn tn Hitems Hrep2) as (sg3 & sn3 & tn3 & E3 & Hrep3 & Harr3).
      cbn [pq_prefix]. rewrite E1, E2, E3.
      fold (pages_of p sub).
      specialize (IH sg3 (pl ++ flat_map (pagelinks_of w inb int outb s) (pages_of p sub)) sn3 tn3 Hrep3 Hps).
      destruct (over_prefixes pages_of ps (tr s)) as [| |l].
      + exact IH.
      + exact IH.
      + destruct IH as (sg' & sn' & tn' & E & Hrep' & Harr'). exists sg', sn', tn'.
        rewrite E, flat_map_app, <- app_assoc. split; [reflexivity|]. split; [exact Hrep'|congruence].
  Qed.

  Theorem pagelinks_on_state : forall sg ps inb int outb,
    trep (files_of s) sg -> Forall wf_lru ps ->
    match webentity_pagelinks w ps inb int outb s with
    | ROk l => exists sg', py_traph_get_webentity_pagelinks sg sgl w ps inb int outb = Some (sg', l) /\
                 trep (files_of s) sg' /\ pm_array sg' = pm_array sg
    | _ => py_traph_get_webentity_pagelinks sg sgl w ps inb int outb = None
    end.
  Proof.
    intros sg ps inb int outb Hrep Hwf. rewrite pagelinks_eq. unfold webentity_pagelinks.
    destruct (negb int && negb outb && negb inb); [reflexivity|].
    rewrite !node_init_none.
    pose proof (pq_prefixes_spec inb int outb ps sg [] (py_node_set_default_data py_node_new None)
                  (py_node_set_default_data py_node_new None) Hrep Hwf) as H.
    unfold we_page_nodes.
    change (fun p sub => filter (fun x => page (snd x)) (wdfs_at None (lru_dirname p) sub)) with pages_of.
    destruct (over_prefixes pages_of ps (tr s)) as [| |l].
    - rewrite H. reflexivity.
    - rewrite H. reflexivity.
    - destruct H as (sg' & sn' & tn' & E & Hrep' & Harr'). rewrite E. exists sg'.
      split; [reflexivity|]. split; assumption.
  Qed.
End Pagelinks.

Theorem py_traph_get_webentity_pagelinks_spec : forall d rs h, wf_rules rs -> Forall wf_op h ->
  let s := run d rs h in
  forall sg sgl w ps inb int outb,
    trep (files_of s) sg -> lrep (stubs s) sgl -> fits (nb s * bsz) -> fits (saddr (length (stubs s))) ->
    Forall wf_lru ps -> w <> 0 ->
    match webentity_pagelinks w ps inb int outb s with
    | ROk l => exists sg', py_traph_get_webentity_pagelinks sg sgl w ps inb int outb = Some (sg', l) /\
                 trep (files_of s) sg' /\ pm_array sg' = pm_array sg
    | _ => py_traph_get_webentity_pagelinks sg sgl w ps inb int outb = None
    end.
Proof.
  intros d rs h Hr Hh s sg sgl w ps inb int outb Hrep Hlrep Hft Hfl Hwf Hw.
  destruct (run_facts d rs h Hr Hh sgl Hlrep Hft Hfl) as (Hinv & Hroot & Hknown & Hheads).
  fold s in Hinv, Hroot, Hknown, Hheads.
  apply (pagelinks_on_state s Hinv Hroot w Hw sgl); [|exact Hknown|exact Hrep|exact Hwf].
  intros p nd Hf. destruct (Hheads p nd Hf) as [Ho Hi].
  split; intro Hnz; [exact (proj1 (Ho Hnz))|exact (proj1 (Hi Hnz))].
Qed.

Print Assumptions py_traph_get_webentity_pagelinks_spec.

(* ====================================================================================== *)
(* 4. non-vacuity: the translated requests run on the bytes of the two files of the state  *)
(*    reached by GenTraphLFacts.exh_l, for webentity 1 with its four prefixes              *)
(* ====================================================================================== *)
From Traph Require IdFacts PropsEx.
Import IdFacts PropsEx.

(* the prefixes of webentity 1 in that state *)
Definition ex_ps1 : list bytes :=
  Eval vm_compute in map fst (filter (fun x => snd x =? 1) (prefix_iter exs_l)).
Definition ex_ps1_absent : list bytes := ex_ps1 ++ [ex_px ++ [112; 58; 122; 124]].

Example ex_ps1_is : ex_ps1 = map fst (filter (fun x => snd x =? 1) (prefix_iter exs_l)) /\ length ex_ps1 = 4%nat.
Proof. vm_compute. split; reflexivity. Qed.

Lemma ex_ps1_wf : Forall wf_lru ex_ps1.
Proof. unfold ex_ps1. repeat constructor; wf_lru_tac. Qed.
Lemma ex_ps1_absent_wf : Forall wf_lru ex_ps1_absent.
Proof. unfold ex_ps1_absent, ex_ps1. cbn [app]. repeat constructor; wf_lru_tac. Qed.

Definition res_links_eqb (r : res (list (bytes * bytes * N))) (o : option (py_pm * list (bytes * bytes * N))) : bool :=
  match r, o with
  | ROk l, Some (_, l') => links_eqb l' l
  | RRefused, None => true
  | _, _ => false
  end.

(* the translated pagelinks request agrees with the model for every setting of the switches (all off: refused on both
   sides); five links with all three on *)
Example ex_pagelinks_all_switches :
  (forallb (fun '(inb, int, outb) =>
             res_links_eqb (webentity_pagelinks 1 ex_ps1 inb int outb exs_l)
                           (py_traph_get_webentity_pagelinks ex_sgt ex_sgl 1 ex_ps1 inb int outb)) all_switches = true) /\
  (map (fun '(inb, int, outb) =>
          match webentity_pagelinks 1 ex_ps1 inb int outb exs_l with ROk l => Some (length l) | _ => None end) all_switches
    = [Some 5; Some 4; Some 2; Some 1; Some 4; Some 3; Some 1; None]%nat).
Proof. vm_compute. split; reflexivity. Qed.

Example ex_pagelinks_values :
  option_map snd (py_traph_get_webentity_pagelinks ex_sgt ex_sgl 1 ex_ps1 true true true)
    = Some [(ex_pa, ex_pa, 1); (ex_pa, ex_pb, 2); (ex_pa, ex_pl, 1); (ex_pb, ex_pa, 1); (ex_pxy, ex_pa, 2)] /\
  webentity_pagelinks 1 ex_ps1 true true true exs_l
    = ROk [(ex_pa, ex_pa, 1); (ex_pa, ex_pb, 2); (ex_pa, ex_pl, 1); (ex_pb, ex_pa, 1); (ex_pxy, ex_pa, 2)] /\
  option_map snd (py_traph_get_webentity_pagelinks ex_sgt ex_sgl 1 ex_ps1 false false true) = Some [(ex_pa, ex_pb, 2)] /\
  option_map snd (py_traph_get_webentity_pagelinks ex_sgt ex_sgl 1 ex_ps1 true false false) = Some [(ex_pb, ex_pa, 1)] /\
  option_map snd (py_traph_get_webentity_pagelinks ex_sgt ex_sgl 1 ex_ps1 false true false)
    = Some [(ex_pa, ex_pa, 1); (ex_pa, ex_pl, 1); (ex_pxy, ex_pa, 2)] /\
  (* seen from webentity 2: one page, its link to webentity 1 and the link it receives from there *)
  option_map snd (py_traph_get_webentity_pagelinks ex_sgt ex_sgl 2
                    (map fst (filter (fun x => snd x =? 2) (prefix_iter exs_l))) true true true)
    = Some [(ex_pb, ex_pa, 1); (ex_pa, ex_pb, 2)].
Proof. vm_compute. repeat split; reflexivity. Qed.

(* refused calls: all switches off; a prefix that is not in the trie (TraphException / RRefused) *)
Example ex_pagelinks_refused :
  py_traph_get_webentity_pagelinks ex_sgt ex_sgl 1 ex_ps1 false false false = None /\
  webentity_pagelinks 1 ex_ps1 false false false exs_l = RRefused /\
  py_traph_get_webentity_pagelinks ex_sgt ex_sgl 1 ex_ps1_absent true true true = None /\
  webentity_pagelinks 1 ex_ps1_absent true true true exs_l = RRefused.
Proof. vm_compute. repeat split; reflexivity. Qed.

(* the webentities cited by / citing webentity 1: itself (internal links) and webentity 2 *)
Example ex_neighbours :
  option_map snd (py_traph_get_webentity_outlinks ex_sgt ex_sgl 1 ex_ps1) = Some [Some 1; Some 2] /\
  webentity_neighbours true ex_ps1 exs_l = ROk [1; 2] /\
  option_map snd (py_traph_get_webentity_inlinks ex_sgt ex_sgl 1 ex_ps1) = Some [Some 1; Some 2] /\
  webentity_neighbours false ex_ps1 exs_l = ROk [1; 2] /\
  py_traph_get_webentity_outlinks ex_sgt ex_sgl 1 ex_ps1_absent = None /\
  webentity_neighbours true ex_ps1_absent exs_l = RRefused /\
  py_traph_get_webentity_inlinks ex_sgt ex_sgl 1 ex_ps1_absent = None /\
  webentity_neighbours false ex_ps1_absent exs_l = RRefused.
Proof. vm_compute. repeat split; reflexivity. Qed.

(* windup_lru_for_webentity from the block of the page ex_pxy (two levels below the prefix of webentity 1) *)
Example ex_windup_we :
  (match py_trie_lru_node ex_sgt ex_pxy with
   | Some (sg, Some n) => option_map snd (py_trie_windup_lru_for_webentity sg n)
   | _ => None
   end) = Some (Some 1).
Proof. vm_compute. reflexivity. Qed.

(* the hypotheses of the theorems are met by that history and the two files, and the theorems then give the replies above *)
Example ex_pagelinks_by_theorem : exists sg',
  py_traph_get_webentity_pagelinks ex_sgt ex_sgl 1 ex_ps1 true true true
    = Some (sg', [(ex_pa, ex_pa, 1); (ex_pa, ex_pb, 2); (ex_pa, ex_pl, 1); (ex_pb, ex_pa, 1); (ex_pxy, ex_pa, 2)]) /\
  trep (files_of exs_l) sg' /\ pm_array sg' = pm_array ex_sgt.
Proof.
  assert (H1 : fits (nb exs_l * bsz)) by (vm_compute; reflexivity).
  assert (H2 : fits (saddr (length (stubs exs_l)))) by (vm_compute; reflexivity).
  assert (Hw : 1 <> 0) by discriminate.
  pose proof (py_traph_get_webentity_pagelinks_spec Domain [] exh_l ex_rules_wf exh_l_wf ex_sgt ex_sgl 1 ex_ps1 true true true
                ex_trep_l ex_lrep_l H1 H2 ex_ps1_wf Hw) as H.
  replace (webentity_pagelinks 1 ex_ps1 true true true (run Domain [] exh_l))
    with (ROk [(ex_pa, ex_pa, 1); (ex_pa, ex_pb, 2); (ex_pa, ex_pl, 1); (ex_pb, ex_pa, 1); (ex_pxy, ex_pa, 2)]) in H
    by (vm_compute; reflexivity).
  exact H.
Qed.

Example ex_pagelinks_absent_by_theorem :
  py_traph_get_webentity_pagelinks ex_sgt ex_sgl 1 ex_ps1_absent true true true = None.
Proof.
  assert (H1 : fits (nb exs_l * bsz)) by (vm_compute; reflexivity).
  assert (H2 : fits (saddr (length (stubs exs_l)))) by (vm_compute; reflexivity).
  assert (Hw : 1 <> 0) by discriminate.
  pose proof (py_traph_get_webentity_pagelinks_spec Domain [] exh_l ex_rules_wf exh_l_wf ex_sgt ex_sgl 1 ex_ps1_absent true true true
                ex_trep_l ex_lrep_l H1 H2 ex_ps1_absent_wf Hw) as H.
  replace (webentity_pagelinks 1 ex_ps1_absent true true true (run Domain [] exh_l)) with (@RRefused (list (bytes * bytes * N))) in H
    by (vm_compute; reflexivity).
  exact H.
Qed.

Example ex_neighbours_by_theorem :
  (exists sg', py_traph_get_webentity_outlinks ex_sgt ex_sgl 1 ex_ps1 = Some (sg', [Some 1; Some 2]) /\
     trep (files_of exs_l) sg' /\ pm_array sg' = pm_array ex_sgt) /\
  (exists sg', py_traph_get_webentity_inlinks ex_sgt ex_sgl 1 ex_ps1 = Some (sg', [Some 1; Some 2]) /\
     trep (files_of exs_l) sg' /\ pm_array sg' = pm_array ex_sgt).
Proof.
  assert (H1 : fits (nb exs_l * bsz)) by (vm_compute; reflexivity).
  assert (H2 : fits (saddr (length (stubs exs_l)))) by (vm_compute; reflexivity).
  pose proof (py_traph_get_webentity_neighbours_spec Domain [] exh_l ex_rules_wf exh_l_wf ex_sgt ex_sgl 1 ex_ps1
                ex_trep_l ex_lrep_l H1 H2 ex_ps1_wf) as H.
  replace (webentity_neighbours true ex_ps1 (run Domain [] exh_l)) with (ROk [1; 2]) in H by (vm_compute; reflexivity).
  replace (webentity_neighbours false ex_ps1 (run Domain [] exh_l)) with (ROk [1; 2]) in H by (vm_compute; reflexivity).
  exact H.
Qed.

Print Assumptions ex_pagelinks_all_switches.
Print Assumptions ex_pagelinks_by_theorem.
Print Assumptions ex_neighbours_by_theorem.
Print Assumptions py_trie_windup_lru_for_webentity_spec.
Print Assumptions py_traph_get_webentity_neighbours_spec.
Print Assumptions py_traph_get_webentity_pagelinks_spec.
