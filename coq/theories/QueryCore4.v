(* QueryCore4.v — under [Rcore s a]: the counts of Q01 and the figures of Q19.
   count_pages / count_crawled_pages scan the block file (flatten); the scan counts
   exactly the page nodes because tail blocks carry neither bit. *)
From Coq Require Import List NArith Bool Lia Arith Permutation.
Import ListNotations.
From Traph Require Import Bytes Consts Helpers Rules Tst TstDefs Traph Spec Ops RefDefs
     TstFacts QueryCore QueryCore2.
Open Scope N_scope.

(* ---- the flag byte ---------------------------------------------------------- *)
Lemma flags_page : forall d, N.testbit (flags_of d) flag_page = page d.
Proof.
  intro d. unfold flags_of.
  destruct (page d), (crawled d), (rule d), (has_tail_of (stem d)), (nochild d); reflexivity.
Qed.

Lemma flags_crawled : forall d, N.testbit (flags_of d) flag_crawled = crawled d.
Proof.
  intro d. unfold flags_of.
  destruct (page d), (crawled d), (rule d), (has_tail_of (stem d)), (nochild d); reflexivity.
Qed.

Lemma main_page : forall d la ra ca, blk_page (main_block d la ra ca) = page d.
Proof. intros. unfold blk_page, main_block. cbn [b_flags]. apply flags_page. Qed.

Lemma main_crawled : forall d la ra ca, blk_crawled (main_block d la ra ca) = crawled d.
Proof. intros. unfold blk_crawled, main_block. cbn [b_flags]. apply flags_crawled. Qed.

Definition tail_blk (ch : bytes) (b : bool) : tblock :=
  mkBlk ch (default_flags + bit true flag_is_tail + bit b flag_has_tail) 0 0 0 0 0 0 0.

Lemma tail_page : forall ch b, blk_page (tail_blk ch b) = false.
Proof. intros ch b. unfold blk_page, tail_blk. cbn [b_flags]. destruct b; reflexivity. Qed.

(* ---- counting over the block list -------------------------------------------- *)
Lemma filter_tail_blocks : forall (f : tblock -> bool),
  (forall ch b, f (tail_blk ch b) = false) ->
  forall chs a0, filter (fun p => f (snd p)) (number_from a0 (tail_blocks chs)) = [].
Proof.
  intros f Hf chs. induction chs as [|ch rest IH]; intro a0; [reflexivity|].
  cbn [tail_blocks number_from filter snd].
  change (mkBlk ch (default_flags + bit true flag_is_tail + bit (nonempty rest) flag_has_tail)
                0 0 0 0 0 0 0) with (tail_blk ch (nonempty rest)).
  rewrite Hf. apply IH.
Qed.

Lemma count_placed : forall (f : tblock -> bool) (g : nd -> bool),
  (forall d la ra ca, f (main_block d la ra ca) = g d) ->
  (forall ch b, f (tail_blk ch b) = false) ->
  forall t pre, length (filter (fun p => f (snd p)) (placed t))
                = length (filter (fun x => g (snd x)) (dfs pre t)).
Proof.
  intros f g Hmain Htail t. induction t as [|d l IHl c IHc r IHr]; intro pre; [reflexivity|].
  cbn [placed dfs node_blocks number_from].
  rewrite !filter_app. cbn [filter snd]. rewrite !filter_app.
  rewrite Hmain, (filter_tail_blocks f Htail).
  destruct (g d); cbn [length app]; rewrite !app_length;
    rewrite (IHc (pre ++ stem d)), (IHl pre), (IHr pre); reflexivity.
Qed.

Lemma filter_insert_len : forall (f : N * tblock -> bool) x l,
  length (filter f (insert_by_addr x l)) = length (filter f (x :: l)).
Proof.
  intros f x l. induction l as [|y l IH]; [reflexivity|].
  cbn [insert_by_addr]. destruct (fst x <=? fst y); [reflexivity|].
  cbn [filter] in *. destruct (f y); cbn [length]; rewrite IH; destruct (f x); reflexivity.
Qed.

Lemma filter_sort_len : forall (f : N * tblock -> bool) l,
  length (filter f (sort_by_addr l)) = length (filter f l).
Proof.
  intros f l. unfold sort_by_addr. induction l as [|x l IH]; [reflexivity|].
  cbn [fold_right]. rewrite filter_insert_len. cbn [filter].
  destruct (f x); cbn [length]; rewrite IH; reflexivity.
Qed.

Lemma scan_count : forall (f : tblock -> bool) (g : nd -> bool),
  (forall d la ra ca, f (main_block d la ra ca) = g d) ->
  (forall ch b, f (tail_blk ch b) = false) ->
  forall t, count_if (fun p => f (snd p)) (flatten t)
            = N.of_nat (length (filter (fun x => g (snd x)) (all_nodes t))).
Proof.
  intros f g Hmain Htail t. unfold count_if, flatten, all_nodes.
  rewrite filter_sort_len, (count_placed f g Hmain Htail t []). reflexivity.
Qed.

Lemma scan_pages_nodes : forall t,
  scan_count_pages t = N.of_nat (length (filter (fun x => page (snd x)) (all_nodes t))).
Proof.
  intro t. unfold scan_count_pages. apply (scan_count blk_page page).
  - apply main_page.
  - apply tail_page.
Qed.

Lemma scan_crawled_nodes : forall t,
  scan_count_crawled t
  = N.of_nat (length (filter (fun x => page (snd x) && crawled (snd x)) (all_nodes t))).
Proof.
  intro t. unfold scan_count_crawled.
  apply (scan_count (fun b => blk_page b && blk_crawled b) (fun d => page d && crawled d)).
  - intros. rewrite main_page, main_crawled. reflexivity.
  - intros. rewrite tail_page. reflexivity.
Qed.

Lemma crawled_count_map : forall l : list (bytes * nd),
  length (filter (fun z : bytes * bool => snd z)
                 (map (fun x => (fst x, crawled (snd x))) (filter (fun x => page (snd x)) l)))
  = length (filter (fun x => page (snd x) && crawled (snd x)) l).
Proof.
  induction l as [|x l IH]; [reflexivity|]. cbn [filter].
  destruct (page (snd x)); cbn [andb map filter snd]; [|exact IH].
  destruct (crawled (snd x)); cbn [length]; rewrite IH; reflexivity.
Qed.

Section Core.
  Variables (s : traph) (a : astate).
  Hypothesis HR : Rcore s a.

  Theorem count_pages_spec : count_pages s = N.of_nat (length (a_pages a)).
  Proof.
    unfold count_pages. rewrite scan_pages_nodes.
    rewrite <- (Permutation_length (pages_iter_perm s a HR)).
    unfold pages_iter. rewrite map_length. reflexivity.
  Qed.

  Theorem count_crawled_spec : count_crawled_pages s = count_if (fun x => snd x) (a_pages a).
  Proof.
    unfold count_crawled_pages, count_if. rewrite scan_crawled_nodes.
    rewrite <- (Permutation_length
                  (Permutation_filter' _ (fun x : bytes * bool => snd x) _ _ (pages_iter_perm s a HR))).
    unfold pages_iter. rewrite crawled_count_map. reflexivity.
  Qed.

  (* ---- Q19: accounting ---------------------------------------------------------- *)
  Theorem metrics_pages_spec : m_pages (metrics s) = N.of_nat (length (a_pages a)).
  Proof. rewrite <- count_pages_spec. reflexivity. Qed.

  Theorem metrics_crawled_spec : m_crawled (metrics s) = count_if (fun x => snd x) (a_pages a).
  Proof. rewrite <- count_crawled_spec. reflexivity. Qed.
End Core.
