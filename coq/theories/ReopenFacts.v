(* ReopenFacts.v — C11: closing and reopening an index preserves everything, clearing
   yields a fresh index.  The persistent part of the model state is (tr, nb, lastwe, stubs),
   exactly what [trie_file] and [link_file] hold; the RAM part (rules, dflt) is rebuilt on
   reopen from the rules the caller supplies, without writing. *)
From Coq Require Import List NArith Bool Lia Arith.
Import ListNotations.
From Traph Require Import Bytes Layout Consts Helpers Rules Tst TstDefs Traph Spec Ops Codec
     TstFacts CodecFacts IdFacts.
Open Scope N_scope.

(* ---------- association lists: aset / adel on the keys ---------- *)

Lemma beq_false_neq : forall a b : bytes, beq a b = false -> a <> b.
Proof.
  intros a b H Heq. apply beq_eq in Heq. rewrite Heq in H. discriminate H.
Qed.

Lemma aset_fresh : forall (A : Type) (k : bytes) (v : A) (l : list (bytes * A)),
  ~ In k (map fst l) -> aset k v l = l ++ [(k, v)].
Proof.
  intros A k v l. induction l as [|[k' v'] l IH]; intro Hn.
  - reflexivity.
  - cbn [aset app]. destruct (beq k k') eqn:E.
    + exfalso. apply Hn. left. apply beq_eq in E. cbn [fst]. symmetry. exact E.
    + rewrite IH; [reflexivity|]. intro Hin. apply Hn. right. exact Hin.
Qed.

Lemma In_aset_keys : forall (A : Type) (k : bytes) (v : A) (l : list (bytes * A)) x,
  In x (map fst (aset k v l)) -> x = k \/ In x (map fst l).
Proof.
  intros A k v l x. induction l as [|[k' v'] l IH]; intro Hin.
  - cbn in Hin. destruct Hin as [Heq|[]]. left. symmetry. exact Heq.
  - cbn [aset] in Hin. destruct (beq k k') eqn:E.
    + right. exact Hin.
    + cbn [map fst In] in Hin. destruct Hin as [Heq|Hin].
      * right. left. exact Heq.
      * apply IH in Hin. destruct Hin as [Heq|Hin]; [left; exact Heq | right; right; exact Hin].
Qed.

Lemma NoDup_aset_keys : forall (A : Type) (k : bytes) (v : A) (l : list (bytes * A)),
  NoDup (map fst l) -> NoDup (map fst (aset k v l)).
Proof.
  intros A k v l. induction l as [|[k' v'] l IH]; intro Hnd.
  - cbn. constructor; [intros [] | constructor].
  - cbn [aset]. destruct (beq k k') eqn:E.
    + exact Hnd.
    + cbn [map fst] in *. inversion Hnd as [|x xs Hnin Hnd']; subst. constructor.
      * intro Hin. apply In_aset_keys in Hin. destruct Hin as [Heq|Hin].
        -- apply beq_false_neq in E. apply E. symmetry. exact Heq.
        -- apply Hnin. exact Hin.
      * apply IH. exact Hnd'.
Qed.

Lemma In_adel_keys : forall (A : Type) (k : bytes) (l : list (bytes * A)) x,
  In x (map fst (adel k l)) -> In x (map fst l).
Proof.
  intros A k l x. induction l as [|[k' v'] l IH]; intro Hin.
  - exact Hin.
  - cbn [adel] in Hin. destruct (beq k k').
    + right. exact Hin.
    + cbn [map fst In] in *. destruct Hin as [Heq|Hin]; [left; exact Heq | right; apply IH; exact Hin].
Qed.

Lemma NoDup_adel_keys : forall (A : Type) (k : bytes) (l : list (bytes * A)),
  NoDup (map fst l) -> NoDup (map fst (adel k l)).
Proof.
  intros A k l. induction l as [|[k' v'] l IH]; intro Hnd.
  - exact Hnd.
  - cbn [adel]. cbn [map fst] in Hnd. inversion Hnd as [|x xs Hnin Hnd']; subst.
    destruct (beq k k').
    + exact Hnd'.
    + cbn [map fst]. constructor.
      * intro Hin. apply In_adel_keys in Hin. apply Hnin. exact Hin.
      * apply IH. exact Hnd'.
Qed.

Definition aset_all (rs acc : list (bytes * rulekind)) : list (bytes * rulekind) :=
  fold_left (fun l '(p, k) => aset p k l) rs acc.

Lemma aset_all_nodup : forall rs acc, NoDup (map fst acc) -> NoDup (map fst (aset_all rs acc)).
Proof.
  intros rs acc H. unfold aset_all.
  apply (fold_left_inv _ _ (fun l : list (bytes * rulekind) => NoDup (map fst l))); [exact H|].
  intros a [p k] Ha. apply NoDup_aset_keys. exact Ha.
Qed.

(* with distinct keys, all absent from the start, the fold appends the pairs in order *)
Lemma aset_all_fresh : forall rs acc,
  NoDup (map fst rs) -> (forall k, In k (map fst rs) -> ~ In k (map fst acc)) ->
  aset_all rs acc = acc ++ rs.
Proof.
  induction rs as [|[p k] rs IH]; intros acc Hnd Hdis.
  - cbn. symmetry. apply app_nil_r.
  - unfold aset_all. cbn [fold_left]. fold (aset_all rs (aset p k acc)).
    cbn [map fst] in Hnd. inversion Hnd as [|x xs Hnin Hnd']; subst.
    rewrite aset_fresh by (apply Hdis; left; reflexivity).
    rewrite IH.
    + rewrite <- app_assoc. reflexivity.
    + exact Hnd'.
    + intros k0 Hin Hin2. rewrite map_app, in_app_iff in Hin2. destruct Hin2 as [Hin2|Hin2].
      * apply (Hdis k0); [right; exact Hin | exact Hin2].
      * cbn in Hin2. destruct Hin2 as [Heq|[]]. subst k0. apply Hnin. exact Hin.
Qed.

(* ---------- reopen ---------- *)

Lemma install_rules_nowrite : forall rs s,
  install_rules rs false s =
  mkT (tr s) (nb s) (lastwe s) (stubs s) (aset_all rs (rules s)) (dflt s).
Proof.
  induction rs as [|[p k] rs IH]; intro s.
  - destruct s; reflexivity.
  - unfold install_rules. cbn [fold_left]. fold (install_rules rs false (fst (add_rule p k false s))).
    rewrite IH. unfold add_rule. cbn [negb fst tr nb lastwe stubs rules dflt]. reflexivity.
Qed.

Lemma reopen_eq : forall d rs s,
  reopen d rs s = mkT (tr s) (nb s) (lastwe s) (stubs s) (aset_all rs []) d.
Proof. intros d rs s. unfold reopen. rewrite install_rules_nowrite. reflexivity. Qed.

Theorem reopen_persistent : forall d rs s,
  tr (reopen d rs s) = tr s /\ nb (reopen d rs s) = nb s /\
  lastwe (reopen d rs s) = lastwe s /\ stubs (reopen d rs s) = stubs s.
Proof. intros d rs s. rewrite reopen_eq. repeat split; reflexivity. Qed.

Theorem reopen_files : forall d rs s,
  trie_file (reopen d rs s) = trie_file s /\ link_file (reopen d rs s) = link_file s.
Proof. intros d rs s. rewrite reopen_eq. split; reflexivity. Qed.

Theorem reopen_ram : forall d rs s, NoDup (map fst rs) ->
  rules (reopen d rs s) = rs /\ dflt (reopen d rs s) = d.
Proof.
  intros d rs s Hnd. rewrite reopen_eq. cbn [rules dflt]. split; [|reflexivity].
  rewrite aset_all_fresh; [reflexivity | exact Hnd | intros k _ []].
Qed.

(* whatever the supplied rules, the rebuilt dict has distinct keys *)
Lemma reopen_rules_nodup : forall d rs s, NoDup (map fst (rules (reopen d rs s))).
Proof. intros d rs s. rewrite reopen_eq. cbn [rules]. apply aset_all_nodup. constructor. Qed.

Theorem reopen_id : forall s, NoDup (map fst (rules s)) -> reopen (dflt s) (rules s) s = s.
Proof.
  intros s Hnd. rewrite reopen_eq.
  rewrite aset_all_fresh; [destruct s; reflexivity | exact Hnd | intros k _ []].
Qed.

(* ---------- frame lemmas: who touches [rules] ---------- *)

Lemma add_lru_rules : forall flag lru s s1 h,
  add_lru flag lru s = (s1, h) -> rules s1 = rules s.
Proof.
  intros flag lru s s1 h H. unfold add_lru in H.
  destruct (ins flag (lru_iter lru) [] 0 (nb s) hist0 (tr s)) as [[t' nb'] h'].
  inversion H; subst. reflexivity.
Qed.

Lemma trie_add_page_rules : forall lru cr s s1 h b,
  trie_add_page lru cr s = (s1, h, b) -> rules s1 = rules s.
Proof.
  intros lru cr s s1 h b H. unfold trie_add_page in H.
  destruct (add_lru false lru s) as [s0 h0] eqn:E. apply add_lru_rules in E.
  destruct (find (lru_iter lru) (tr s0)) as [d|].
  - destruct (page d).
    + destruct (cr && negb (crawled d)); inversion H; subst; cbn; exact E.
    + inversion H; subst; cbn; exact E.
  - inversion H; subst; exact E.
Qed.

Lemma walk_prefixes_rules : forall ps s ninv valid s1 ninv' valid',
  walk_prefixes ps s ninv valid = (s1, ninv', valid') -> rules s1 = rules s.
Proof.
  induction ps as [|p ps IH]; intros s ninv valid s1 ninv' valid' H; cbn [walk_prefixes] in H.
  - inversion H; subst; reflexivity.
  - destruct (add_lru true p s) as [s0 h0] eqn:E. apply add_lru_rules in E.
    destruct (find (lru_iter p) (tr s0)) as [d|].
    + destruct (we d =? 0); apply IH in H; rewrite H; exact E.
    + apply IH in H; rewrite H; exact E.
Qed.

Lemma store_links_rules : forall out path targets s,
  rules (store_links out path targets s) = rules s.
Proof.
  intros out path targets s. unfold store_links.
  destruct targets as [|t ts]; [reflexivity|].
  destruct (find path (tr s)) as [d|]; [|reflexivity].
  destruct (push_stubs (t :: ts) (if out then outh d else inh d) (stubs s)) as [st' h'].
  reflexivity.
Qed.

Lemma flush_links_rules : forall out mm s, rules (flush_links out mm s) = rules s.
Proof.
  intros out mm s. unfold flush_links.
  apply (fold_left_inv traph _ (fun s' => rules s' = rules s)); [reflexivity|].
  intros a [p others] Ha. rewrite store_links_rules. exact Ha.
Qed.

Lemma add_prefixes_rules : forall ps best s s' a,
  add_prefixes ps best s = (s', a) -> rules s' = rules s.
Proof.
  intros ps best s s' a H. unfold add_prefixes in H.
  destruct (walk_prefixes ps s 0%nat []) as [[s1 ninv] valid] eqn:W.
  apply walk_prefixes_rules in W.
  destruct (negb (Nat.eqb ninv 0) && negb best).
  - inversion H; subst. exact W.
  - destruct (Nat.eqb ninv (length ps)); inversion H; subst; cbn [rules]; exact W.
Qed.

Lemma create_from_rules : forall prefix s s' c,
  create_from prefix s = (s', c) -> rules s' = rules s.
Proof.
  intros prefix s s' c H. unfold create_from in H.
  destruct (add_prefixes (lru_variations prefix) true s) as [s1 a] eqn:E.
  apply add_prefixes_rules in E.
  destruct a as [| |w valid]; inversion H; subst; exact E.
Qed.

Lemma add_page_int_rules : forall lru cr s s' n c,
  add_page_int lru cr s = (s', n, c) -> rules s' = rules s.
Proof.
  intros lru cr s s' n c H. unfold add_page_int in H.
  destruct (trie_add_page lru cr s) as [[s1 h] created] eqn:E.
  apply trie_add_page_rules in E.
  destruct (decide s1 lru h) as [|p|].
  - inversion H; subst. exact E.
  - destruct (create_from p s1) as [s2 c2] eqn:C. inversion H; subst.
    apply create_from_rules in C. rewrite C. exact E.
  - inversion H; subst. exact E.
Qed.

Lemma pages_fold_rules : forall cr lrus s n c s1 n1 c1,
  fold_left (pages_fold cr) lrus (s, n, c) = (s1, n1, c1) -> rules s1 = rules s.
Proof.
  intros cr lrus s n c s1 n1 c1 E.
  assert (G : let '(s', _, _) := fold_left (pages_fold cr) lrus (s, n, c) in rules s' = rules s).
  { apply (fold_left_inv _ _ (fun acc : traph * N * list (N * list bytes) =>
                                 let '(s', _, _) := acc in rules s' = rules s)); [reflexivity|].
    intros [[sa na] ca] l Ha. unfold pages_fold.
    destruct (add_page_int l cr sa) as [[s' n'] c'] eqn:A.
    apply add_page_int_rules in A. rewrite A. exact Ha. }
  rewrite E in G. exact G.
Qed.

Lemma add_page_rules : forall lru cr s s' r, add_page lru cr s = (s', r) -> rules s' = rules s.
Proof.
  intros lru cr s s' r H. unfold add_page in H.
  destruct (add_page_int lru cr s) as [[s1 n] c] eqn:E. inversion H; subst.
  apply (add_page_int_rules lru cr s s' n c E).
Qed.

Lemma add_pages_rules : forall lrus cr s s' r, add_pages lrus cr s = (s', r) -> rules s' = rules s.
Proof.
  intros lrus cr s s' r H. unfold add_pages in H.
  change (fun '(s, n, c) l => let '(s', n', c') := add_page_int l cr s in (s', n + n', c ++ c'))
    with (pages_fold cr) in H.
  destruct (fold_left (pages_fold cr) lrus (s, 0, [])) as [[s1 n] c] eqn:E.
  inversion H; subst. apply (pages_fold_rules cr lrus s 0 [] s' n c E).
Qed.

Lemma add_links_rules : forall links s s' r, add_links links s = (s', r) -> rules s' = rules s.
Proof.
  intros links s s' r H. unfold add_links in H.
  match type of H with
  | context [fold_left ?f links ?a] =>
      set (F := f) in H;
      assert (G : let '(s1, _, _, _, _, _) := fold_left F links a in rules s1 = rules s)
  end.
  { apply (fold_left_inv _ _
             (fun acc : traph * N * list (N * list bytes) * list bytes
                        * list (bytes * list bytes) * list (bytes * list bytes) =>
                let '(s1, _, _, _, _, _) := acc in rules s1 = rules s)); [reflexivity|].
    intros [[[[[sa na] ca] seen] outs] ins] [a b] Ha. unfold F.
    destruct (mem_bytes a seen).
    - destruct (mem_bytes b seen).
      + exact Ha.
      + destruct (add_page_int b false sa) as [[s2 n2] c2] eqn:B.
        apply add_page_int_rules in B. rewrite B. exact Ha.
    - destruct (add_page_int a false sa) as [[s2 n2] c2] eqn:A.
      apply add_page_int_rules in A.
      destruct (mem_bytes b (a :: seen)).
      + rewrite A. exact Ha.
      + destruct (add_page_int b false s2) as [[s3 n3] c3] eqn:B.
        apply add_page_int_rules in B. rewrite B, A. exact Ha. }
  destruct (fold_left F links (s, 0, [], [], [], [])) as [[[[[s1 n] c] seen] outs] ins].
  inversion H; subst. rewrite !flush_links_rules. exact G.
Qed.

Lemma batch_crawl_rules : forall data s s' r, batch_crawl data s = (s', r) -> rules s' = rules s.
Proof.
  intros data s s' r H. unfold batch_crawl in H.
  match type of H with
  | context [fold_left ?f data ?a] =>
      set (F := f) in H;
      assert (G : let '(s1, _, _, _, _) := fold_left F data a in rules s1 = rules s)
  end.
  { apply (fold_left_inv _ _
             (fun acc : traph * N * list (N * list bytes) * list bytes
                        * list (bytes * list bytes) =>
                let '(s1, _, _, _, _) := acc in rules s1 = rules s)); [reflexivity|].
    intros [[[[sa na] ca] seen] ins] [src tgts] Ha. unfold F.
    assert (Hsrc : let '(s2, _, _, _) :=
                     (if mem_bytes src seen
                      then (set_tree (upd set_crawled (lru_iter src) (tr sa)) sa, na, ca, seen)
                      else let '(s', n', c') := add_page_int src true sa in
                           (s', na + n', ca ++ c', src :: seen))
                   in rules s2 = rules s).
    { destruct (mem_bytes src seen).
      - exact Ha.
      - destruct (add_page_int src true sa) as [[s2 n2] c2] eqn:A.
        apply add_page_int_rules in A. rewrite A. exact Ha. }
    destruct (if mem_bytes src seen
              then (set_tree (upd set_crawled (lru_iter src) (tr sa)) sa, na, ca, seen)
              else let '(s', n', c') := add_page_int src true sa in
                   (s', na + n', ca ++ c', src :: seen)) as [[[sb nb0] cb] seenb].
    match goal with
    | |- context [fold_left ?g tgts ?a0] =>
        set (Gf := g);
        assert (Hin : let '(s3, _, _, _, _) := fold_left Gf tgts a0 in rules s3 = rules s)
    end.
    { apply (fold_left_inv _ _
               (fun acc : traph * N * list (N * list bytes) * list bytes
                          * list (bytes * list bytes) =>
                  let '(s3, _, _, _, _) := acc in rules s3 = rules s)); [exact Hsrc|].
      intros [[[[sc nc] cc] seenc] insc] t Hc. unfold Gf.
      destruct (mem_bytes t seenc).
      - exact Hc.
      - destruct (add_page_int t false sc) as [[s4 n4] c4] eqn:A.
        apply add_page_int_rules in A. rewrite A. exact Hc. }
    destruct (fold_left Gf tgts (sb, nb0, cb, seenb, ins)) as [[[[sd nd0] cd] seend] insd].
    rewrite store_links_rules. exact Hin. }
  destruct (fold_left F data (s, 0, [], [], [])) as [[[[s1 n] c] seen] ins].
  inversion H; subst. rewrite flush_links_rules. exact G.
Qed.

Lemma create_webentity_rules : forall ps s s' r,
  create_webentity ps s = (s', r) -> rules s' = rules s.
Proof.
  intros ps s s' r H. unfold create_webentity in H.
  destruct (add_prefixes ps false s) as [s1 a] eqn:E. apply add_prefixes_rules in E.
  destruct a as [| |w valid]; inversion H; subst; exact E.
Qed.

Lemma delete_webentity_rules : forall w ps s s' r,
  delete_webentity w ps s = (s', r) -> rules s' = rules s.
Proof.
  intros w ps s s' r H. unfold delete_webentity in H.
  destruct (forallb _ ps); inversion H; subst; reflexivity.
Qed.

Lemma add_prefix_rules : forall p w s s' r, add_prefix p w s = (s', r) -> rules s' = rules s.
Proof.
  intros p w s s' r H. unfold add_prefix in H.
  destruct (add_lru true p s) as [s1 h1] eqn:E. apply add_lru_rules in E.
  destruct (find (lru_iter p) (tr s1)) as [d|].
  - destruct (we d =? 0); inversion H; subst; exact E.
  - inversion H; subst; exact E.
Qed.

Lemma remove_prefix_rules : forall p w s s' r, remove_prefix p w s = (s', r) -> rules s' = rules s.
Proof.
  intros p w s s' r H. unfold remove_prefix in H.
  destruct (add_lru false p s) as [s1 h1] eqn:E. apply add_lru_rules in E.
  destruct (find (lru_iter p) (tr s1)) as [d|].
  - destruct ((w =? 0) || (negb (we d =? 0) && (we d =? w))); inversion H; subst; exact E.
  - inversion H; subst; exact E.
Qed.

Lemma move_prefix_rules : forall p wt ws s s' r,
  move_prefix p wt ws s = (s', r) -> rules s' = rules s.
Proof.
  intros p wt ws s s' r H. unfold move_prefix in H.
  destruct (remove_prefix p ws s) as [s1 r1] eqn:E. apply remove_prefix_rules in E.
  destruct r1 as [| | |n c].
  - inversion H; subst. exact E.
  - inversion H; subst. exact E.
  - apply add_prefix_rules in H. rewrite H. exact E.
  - inversion H; subst. exact E.
Qed.

(* the two requests that edit the dict *)
Lemma add_rule_rules : forall p k write s s' r,
  add_rule p k write s = (s', r) -> rules s' = aset p k (rules s).
Proof.
  intros p k write s s' r H. unfold add_rule in H.
  destruct write; cbn [negb] in H.
  - set (s0 := mkT (tr s) (nb s) (lastwe s) (stubs s) (aset p k (rules s)) (dflt s)) in *.
    destruct (add_lru false p s0) as [s1 h1] eqn:E. apply add_lru_rules in E.
    set (s2 := set_tree (upd (set_rule true) (lru_iter p) (tr s1)) s1) in *.
    change (fun '(s, n, c) l => let '(s', n', c') := add_page_int l false s in (s', n + n', c ++ c'))
      with (pages_fold false) in H.
    destruct (fold_left (pages_fold false) (pages_under p s2) (s2, 0, [])) as [[s3 n] c] eqn:Fd.
    inversion H; subst.
    apply pages_fold_rules in Fd. rewrite Fd. unfold s2. cbn [set_tree set_tr rules]. exact E.
  - inversion H; subst. reflexivity.
Qed.

Lemma remove_rule_rules : forall p s s' r,
  remove_rule p s = (s', r) -> rules s' = rules s \/ rules s' = adel p (rules s).
Proof.
  intros p s s' r H. unfold remove_rule in H.
  destruct (aget p (rules s)).
  - cbn [tr] in H. destruct (find (lru_iter p) (tr s)); inversion H; subst; right; reflexivity.
  - inversion H; subst. left. reflexivity.
Qed.

Lemma install_rules_nodup : forall rs write s,
  NoDup (map fst (rules s)) -> NoDup (map fst (rules (install_rules rs write s))).
Proof.
  intros rs write s H. unfold install_rules.
  apply (fold_left_inv traph _ (fun s' => NoDup (map fst (rules s')))); [exact H|].
  intros a [p k] Ha. destruct (add_rule p k write a) as [s' r] eqn:E.
  apply add_rule_rules in E. cbn [fst]. rewrite E. apply NoDup_aset_keys. exact Ha.
Qed.

Theorem rules_nodup_init : forall d rs, NoDup (map fst (rules (init d rs))).
Proof. intros d rs. unfold init. apply install_rules_nodup. cbn. constructor. Qed.

(* the side condition the task statement attaches to a request *)
Definition reopen_ok (o : op) : Prop :=
  match o with
  | OReopen _ rs => NoDup (map fst rs)
  | OClear _ (Some rs) => True
  | _ => True
  end.

(* distinct keys are an invariant of every request; no side condition is needed, because
   reopen and clear rebuild the dict by [aset] from the empty one *)
Theorem rules_nodup_step_gen : forall s o,
  NoDup (map fst (rules s)) -> NoDup (map fst (rules (fst (step s o)))).
Proof.
  intros s o Hnd. destruct (step s o) as [s' r] eqn:E. cbn [fst].
  destruct o; cbn [step] in E.
  - apply add_page_rules in E. rewrite E. exact Hnd.
  - apply add_pages_rules in E. rewrite E. exact Hnd.
  - apply add_links_rules in E. rewrite E. exact Hnd.
  - apply batch_crawl_rules in E. rewrite E. exact Hnd.
  - apply create_webentity_rules in E. rewrite E. exact Hnd.
  - apply delete_webentity_rules in E. rewrite E. exact Hnd.
  - apply add_prefix_rules in E. rewrite E. exact Hnd.
  - apply remove_prefix_rules in E. rewrite E. exact Hnd.
  - apply move_prefix_rules in E. rewrite E. exact Hnd.
  - apply add_rule_rules in E. rewrite E. apply NoDup_aset_keys. exact Hnd.
  - apply remove_rule_rules in E. destruct E as [E|E]; rewrite E.
    + exact Hnd.
    + apply NoDup_adel_keys. exact Hnd.
  - inversion E; subst. apply reopen_rules_nodup.
  - inversion E; subst. unfold clear. destruct ors as [rs|].
    + apply install_rules_nodup. cbn. constructor.
    + cbn [rules]. exact Hnd.
Qed.

(* the statement as requested *)
Theorem rules_nodup_step : forall s o,
  NoDup (map fst (rules s)) ->
  (match o with OReopen _ rs => NoDup (map fst rs) | OClear _ (Some rs) => True | _ => True end) ->
  NoDup (map fst (rules (fst (step s o)))).
Proof. intros s o Hnd _. apply rules_nodup_step_gen. exact Hnd. Qed.

Lemma rules_nodup_mrun : forall h s,
  NoDup (map fst (rules s)) -> NoDup (map fst (rules (fst (mrun h s)))).
Proof.
  induction h as [|o h IH]; intros s Hnd.
  - exact Hnd.
  - cbn [mrun]. pose proof (rules_nodup_step_gen s o Hnd) as Hs.
    destruct (step s o) as [s1 r]. cbn [fst] in Hs. specialize (IH s1 Hs).
    destruct (mrun h s1) as [s2 rs]. exact IH.
Qed.

(* ---------- C11: a close/reopen is transparent anywhere in any history ---------- *)

Lemma step_reopen_id : forall s, NoDup (map fst (rules s)) ->
  step s (OReopen (dflt s) (rules s)) = (s, Ok).
Proof. intros s Hnd. cbn [step]. rewrite reopen_id by exact Hnd. reflexivity. Qed.

Theorem C11_reopen_transparent : forall h1 h2 s, NoDup (map fst (rules s)) ->
  let s1 := fst (mrun h1 s) in
  mrun (h1 ++ OReopen (dflt s1) (rules s1) :: h2) s =
  (fst (mrun (h1 ++ h2) s), snd (mrun h1 s) ++ Ok :: snd (mrun h2 s1)).
Proof.
  intros h1 h2 s Hnd s1.
  assert (Hnd1 : NoDup (map fst (rules s1))) by (apply rules_nodup_mrun; exact Hnd).
  rewrite !mrun_app. fold s1. cbn [fst snd].
  change (mrun (OReopen (dflt s1) (rules s1) :: h2) s1)
    with (let '(s1', r) := step s1 (OReopen (dflt s1) (rules s1)) in
          let '(s2, rs) := mrun h2 s1' in (s2, r :: rs)).
  rewrite (step_reopen_id s1 Hnd1). destruct (mrun h2 s1) as [s2 rs]. reflexivity.
Qed.

(* the same with the (unneeded) side condition on the reopens of the prefix *)
Corollary C11_reopen_transparent_wf : forall h1 h2 s, NoDup (map fst (rules s)) ->
  Forall reopen_ok h1 ->
  let s1 := fst (mrun h1 s) in
  mrun (h1 ++ OReopen (dflt s1) (rules s1) :: h2) s =
  (fst (mrun (h1 ++ h2) s), snd (mrun h1 s) ++ Ok :: snd (mrun h2 s1)).
Proof. intros h1 h2 s Hnd _. apply C11_reopen_transparent. exact Hnd. Qed.

(* from a fresh index no hypothesis is left *)
Corollary C11_reopen_transparent_init : forall d rs h1 h2,
  let s := init d rs in
  let s1 := fst (mrun h1 s) in
  mrun (h1 ++ OReopen (dflt s1) (rules s1) :: h2) s =
  (fst (mrun (h1 ++ h2) s), snd (mrun h1 s) ++ Ok :: snd (mrun h2 s1)).
Proof. intros d rs h1 h2 s. apply C11_reopen_transparent. apply rules_nodup_init. Qed.

(* ---------- C11: clear ---------- *)

Theorem C11_clear_is_init : forall d rs s, clear (Some d) (Some rs) s = init d rs.
Proof. reflexivity. Qed.

Theorem C11_clear_persistent_fresh : forall od s,
  let s' := clear od None s in
  tr s' = Lf /\ nb s' = 1 /\ lastwe s' = 0 /\ stubs s' = [] /\
  trie_file s' = trie_file (init (dflt s') []) /\ link_file s' = link_file (init (dflt s') []).
Proof. intros od s. cbv zeta. repeat split; reflexivity. Qed.

(* ---------- C11: both files are whole numbers of blocks ---------- *)

Lemma encode_trie_header_eq : forall n,
  encode_trie_header n = le_bytes 4 n ++ enc_pascal 12 version_bytes ++ zeros 112.
Proof.
  intro n. unfold encode_trie_header, pack.
  change (layout header_format) with [(FU32, 0); (FPas 12, 4); (FPad 112, 16)].
  change (place 2 [(hpos_last_we, VNum n); (hpos_version, VBytes version_bytes)])
    with [VNum n; VBytes version_bytes].
  change (layout_size header_format) with 128.
  rewrite enc_layout_cons; [|reflexivity|reflexivity].
  rewrite enc_layout_cons; [|reflexivity|cbn [app enc_item]; apply le_bytes_length].
  cbn [enc_layout enc_item app].
  assert (Hp : length (enc_pascal 12 version_bytes) = 12%nat) by reflexivity.
  rewrite (pad_to_exact (N.to_nat 16)) by (rewrite app_length, le_bytes_length, Hp; vm_compute; lia).
  change (N.to_nat 112) with 112%nat.
  rewrite <- app_assoc. apply pad_to_exact.
  rewrite !app_length, le_bytes_length, Hp, zeros_length. vm_compute. lia.
Qed.

Lemma encode_trie_header_length : forall n, length (encode_trie_header n) = 128%nat.
Proof.
  intro n. rewrite encode_trie_header_eq. rewrite !app_length, le_bytes_length, zeros_length.
  reflexivity.
Qed.

Lemma encode_link_header_length : length encode_link_header = 16%nat.
Proof. vm_compute. reflexivity. Qed.

Lemma flat_map_const_length : forall (A : Type) (f : A -> bytes) (k : nat) (l : list A),
  (forall x, length (f x) = k) -> length (flat_map f l) = (k * length l)%nat.
Proof.
  intros A f k l Hf. induction l as [|x l IH].
  - cbn. lia.
  - cbn [flat_map length]. rewrite app_length, Hf, IH. lia.
Qed.

Theorem C11_whole_blocks : forall s,
  length (trie_file s) = (128 * (1 + length (flatten (tr s))))%nat /\
  length (link_file s) = (16 * (1 + length (stubs s)))%nat.
Proof.
  intro s. unfold trie_file, link_file. rewrite !app_length.
  rewrite encode_trie_header_length, encode_link_header_length.
  rewrite (flat_map_const_length _ (fun p => encode_tblock (snd p)) 128)
    by (intro x; apply encode_tblock_length).
  rewrite (flat_map_const_length _ encode_stub 16) by (intro x; apply encode_stub_length).
  split; lia.
Qed.

(* ---------- non-vacuity ---------- *)

(* a rule is installed, a page indexed, the index closed and reopened with the rule
   re-supplied, links added: same final state and same replies as without the reopen *)
Definition c11_rule : bytes := s_http ++ ex_com.
Definition c11_h1 : list op := [OAddRule c11_rule (Path 1); OAddPage ex_pa true].
Definition c11_h2 : list op := [OAddLinks [(ex_pa, ex_pb); (ex_pb, ex_pa)]].

Example C11_nonvacuous :
  let s0 := init Domain [] in
  let with_reopen := c11_h1 ++ OReopen Domain [(c11_rule, Path 1)] :: c11_h2 in
  length with_reopen = 4%nat /\
  rules (fst (mrun c11_h1 s0)) = [(c11_rule, Path 1)] /\
  fst (mrun with_reopen s0) = fst (mrun (c11_h1 ++ c11_h2) s0) /\
  snd (mrun with_reopen s0) =
    snd (mrun c11_h1 s0) ++ Ok :: snd (mrun c11_h2 (fst (mrun c11_h1 s0))) /\
  tr (fst (mrun with_reopen s0)) <> Lf /\ stubs (fst (mrun with_reopen s0)) <> [].
Proof. vm_compute. repeat split; try reflexivity; discriminate. Qed.

(* reopening with other rules is visible in RAM only: the files do not move *)
Example C11_reopen_other_rules :
  let s1 := fst (mrun c11_h1 (init Domain [])) in
  let s2 := reopen Subdomain [] s1 in
  trie_file s2 = trie_file s1 /\ link_file s2 = link_file s1 /\ rules s2 = [] /\ rules s1 <> [].
Proof. vm_compute. repeat split; try reflexivity; discriminate. Qed.

Print Assumptions reopen_persistent.
Print Assumptions reopen_files.
Print Assumptions reopen_ram.
Print Assumptions reopen_id.
Print Assumptions rules_nodup_init.
Print Assumptions rules_nodup_step.
Print Assumptions rules_nodup_step_gen.
Print Assumptions C11_reopen_transparent.
Print Assumptions C11_reopen_transparent_wf.
Print Assumptions C11_reopen_transparent_init.
Print Assumptions C11_clear_is_init.
Print Assumptions C11_clear_persistent_fresh.
Print Assumptions C11_whole_blocks.
Print Assumptions C11_nonvacuous.
Print Assumptions C11_reopen_other_rules.
