(* GenTraphWInit.v — opening an index: the header object built from the file (GenTraphW.v: LRUTrieHeader.__init__, __ensure,
   read, translated from /repo/traph/lru_trie/header.py on every run).
   py_thdr_init_reopen : on a storage whose first 128 bytes are the header block of a state and whose rest holds its blocks
     (what the file of every state looks like: GenTraphWFacts.hrep_file), building the header object changes no byte and yields
     the RAM header of that state: hrep - so every theorem stated from hrep (creations, prefix requests, page insertions) applies
     to the reopened index, and the first id issued after a reopen is the stored counter + 1 (Props/C12b.v);
   py_thdr_init_fresh  : on an EMPTY storage (a new file) the header block is written with counter 0 and the version. *)
From Coq Require Import List NArith Bool Lia Arith.
Import ListNotations.
From Traph Require Import Bytes Consts Layout Helpers Rules Tst TstDefs Traph Traphw TraceDefs Codec CodecFacts
  TstFacts ReopenFacts Store StoreFacts GenStorage GenNode GenNodeFacts GenTrie GenTrieFacts GenTrieW GenTrieWAdd1 GenTrieWFrame GenTraphW GenTraphWDefs GenTraphWFacts1.
Open Scope N_scope.

Arguments N.add : simpl never.
Arguments N.ltb : simpl never.

Lemma header_len : forall n, length (encode_trie_header n) = 128%nat.
Proof. intro n. apply ReopenFacts.encode_trie_header_length. Qed.

(* unpacking the header block of a state gives the RAM data of its header object *)
Lemma unpack_header : forall n, n < 2 ^ 32 ->
  unpack header_format (encode_trie_header n) = [VNum n; VBytes version_bytes].
Proof.
  intros n Hn. unfold unpack.
  change (fields header_format) with [(FU32, 0); (FPas 12, 4)].
  cbn [map dec_item fsize]. unfold slice.
  rewrite ReopenFacts.encode_trie_header_eq.
  change (N.to_nat 4) with 4%nat. change (N.to_nat 0) with 0%nat. change (N.to_nat 12) with 12%nat.
  rewrite here_le, (le_roundtrip 4 n Hn).
  assert (E : skipn 4 (le_bytes 4 n ++ enc_pascal 12 version_bytes ++ zeros 112) = enc_pascal 12 version_bytes ++ zeros 112).
  { rewrite skipn_app, le_bytes_length. change (4 - 4)%nat with 0%nat.
    rewrite (skipn_all2 (le_bytes 4 n)) by (rewrite le_bytes_length; lia). reflexivity. }
  rewrite E. vm_compute. reflexivity.
Qed.

Lemma read_header : forall sg H, hk H sg -> length H = 128%nat ->
  py_pm_read sg (Some 0) = (mk_pm (pm_block_size sg) (pm_array sg) (0 + pm_block_size sg), Some H).
Proof.
  intros sg H (Hbs & Hf & Hl) HH. unfold py_pm_read. f_equal.
  rewrite Hbs. cbn [pm_block_size pm_array]. change (0 + py_node_block_size) with 128.
  unfold GenStorage.py_slice. change (N.to_nat (128 - 0)) with 128%nat. change (N.to_nat 0) with 0%nat. cbn [skipn].
  rewrite Hf. unfold py_or_none. destruct H as [|x H']; [discriminate HH|reflexivity].
Qed.

(* the loop of __ensure, named *)
Definition eloop (v_empty_data : bytes) := fix py_loop (fuel : nat) (st : (py_pm * N)) {struct fuel} : option (py_pm * N) :=
 match fuel with
 | O => Some st
 | S fuel' =>
 let '(sg, v_block) := st in
 if (N.ltb v_block trie_header_blocks)
 then (let '(sg, v_data) := py_pm_read sg (Some v_block) in
 (match v_data with
 | None => (let '(sg, v__) := py_pm_write sg v_empty_data (Some v_block) in
 (let v_block := (N.add v_block (pm_block_size sg)) in
 (py_loop fuel' (sg, v_block))))
 | Some v_data => (if (py_nonempty v_data) then (let v_block := (N.add v_block (pm_block_size sg)) in
 (py_loop fuel' (sg, v_block))) else (let '(sg, v__) := py_pm_write sg v_empty_data (Some v_block) in
 (let v_block := (N.add v_block (pm_block_size sg)) in
 (py_loop fuel' (sg, v_block))))) end))
 else Some st
 end.
Lemma ensure_eq : forall hd sg, py_thdr_ensure hd sg =
  match eloop (pack header_format (th_data hd)) (S (length (pm_array sg))) (sg, 0) with
  | None => None | Some (sg, _) => Some (hd, sg) end.
Proof. reflexivity. Qed.

(* block 0 already holds a header: one iteration, nothing written *)
Lemma eloop_present : forall e k sg H, hk H sg -> length H = 128%nat ->
  eloop e (S k) (sg, 0) = Some (mk_pm 128 (pm_array sg) 128, 128).
Proof.
  intros e k sg H Hk HH. pose proof Hk as (Hbs & _ & _).
  cbn [eloop]. change (N.ltb 0 trie_header_blocks) with true. cbn iota.
  rewrite (read_header sg H Hk HH).
  assert (Hne : py_nonempty H = true) by (destruct H; [discriminate HH|reflexivity]).
  rewrite Hne. cbn [pm_block_size]. rewrite Hbs. change py_node_block_size with 128. change (0 + 128) with 128.
  destruct k as [|k']; [reflexivity|].
  cbn [eloop]. change (N.ltb 128 trie_header_blocks) with false. reflexivity.
Qed.

Theorem py_thdr_init_reopen : forall s sg,
  trep (files_of s) sg -> firstn 128 (pm_array sg) = encode_trie_header (lastwe s) -> lastwe s < 2 ^ 32 ->
  exists hd sg', py_thdr_init sg = Some (hd, sg') /\ hrep s hd sg' /\ pm_array sg' = pm_array sg.
Proof.
  intros s sg Hrep Hh Hlt.
  assert (Hk : hk (encode_trie_header (lastwe s)) sg).
  { split; [apply Hrep|]. split; [exact Hh|]. rewrite (trep_len _ _ Hrep). lia. }
  unfold py_thdr_init, py_thdr_init_from. rewrite ensure_eq.
  rewrite (eloop_present _ _ sg _ Hk (header_len _)).
  set (sg1 := mk_pm 128 (pm_array sg) 128).
  assert (Hk1 : hk (encode_trie_header (lastwe s)) sg1) by (destruct Hk as (_ & Hf & Hl); split; [reflexivity|split; assumption]).
  unfold py_thdr_read. rewrite (read_header sg1 _ Hk1 (header_len _)). rewrite (unpack_header _ Hlt).
  eexists _, _. split; [reflexivity|]. split; [|reflexivity].
  split; [|split; [reflexivity|exact Hh]].
  destruct Hrep as (Hb & Ha & He). split; [reflexivity|]. split; assumption.
Qed.

(* a new file: the header block is written, counter 0 *)
Theorem py_thdr_init_fresh :
  exists hd sg', py_thdr_init (mk_pm 128 [] 0) = Some (hd, sg') /\
    pm_array sg' = encode_trie_header 0 /\ th_data hd = [VNum 0; VBytes version_bytes].
Proof. eexists _, _. split; [vm_compute; reflexivity|]. split; vm_compute; reflexivity. Qed.

Print Assumptions py_thdr_init_reopen.
Print Assumptions py_thdr_init_fresh.
