(* Store.v — read functions at the level of the stored blocks: they follow the
   pointer registers of lru_trie.dat (left / right / child / parent) and reassemble
   stems from tail blocks, exactly as node.read / lru_node / windup_lru do on the
   file, with fuel bounded by the number of blocks.  The tree model of Tst.v is an
   abstraction of this pointer structure; StoreFacts.v proves that on the files of
   every reachable state the two agree.  Definitions only. *)
From Coq Require Import List NArith Bool.
From Traph Require Import Bytes Consts Helpers Tst TstDefs Traph Traphw TraceDefs.
Import ListNotations.
Open Scope N_scope.

(* the data block stored at byte offset a *)
Definition blk_at (f : files) (a : N) : option tblock :=
  if (a mod bsz =? 0) && (bsz <=? a) then nth_error (ft f) (tidx a) else None.

(* tail chunks in the blocks following a has-tail block; stops at the end of the file *)
Fixpoint tails (fuel : nat) (f : files) (a : N) : bytes :=
  match fuel with
  | O => []
  | S k =>
      match blk_at f a with
      | None => []
      | Some b => b_stem b ++ (if blk_has_tail b then tails k f (a + bsz) else [])
      end
  end.

(* node.read(block): the main block and the full stem *)
Definition b_read (f : files) (a : N) : option (tblock * bytes) :=
  match blk_at f a with
  | None => None
  | Some b => Some (b, b_stem b ++ (if blk_has_tail b then tails (length (ft f)) f (a + bsz) else []))
  end.

(* lru_node: BST descent on stored pointers; returns the block offset of the node *)
Fixpoint b_find (fuel : nat) (f : files) (stems : list bytes) (a : N) : option N :=
  match fuel with
  | O => None
  | S k =>
      match stems with
      | [] => None
      | s :: rest =>
          match b_read f a with
          | None => None
          | Some (b, st) =>
              match lex s st with
              | Eq => match rest with
                      | [] => Some a
                      | _ => if b_child b =? 0 then None else b_find k f rest (b_child b)
                      end
              | Lt => if b_left b =? 0 then None else b_find k f stems (b_left b)
              | Gt => if b_right b =? 0 then None else b_find k f stems (b_right b)
              end
          end
      end
  end.
Definition b_lru_node (f : files) (lru : bytes) : option N :=
  b_find (S (length (ft f))) f (lru_iter lru) bsz.

(* windup_lru: stems concatenated while following the parent register *)
Fixpoint b_windup (fuel : nat) (f : files) (a : N) : option bytes :=
  match fuel with
  | O => None
  | S k =>
      match b_read f a with
      | None => None
      | Some (b, st) =>
          if b_parent b =? 0 then Some st
          else match b_windup k f (b_parent b) with
               | Some pre => Some (pre ++ st)
               | None => None
               end
      end
  end.
Definition b_windup_lru (f : files) (a : N) : option bytes := b_windup (S (length (ft f))) f a.

(* page / crawled bits and heads of the stored node *)
Definition b_is_page (f : files) (a : N) : bool :=
  match blk_at f a with Some b => blk_page b | None => false end.
