(* TraceFacts3.v — C18, part 3: the invariant gives files without dangling pointers;
   replay soundness and write safety of the primitives (add_lru, node rewrite,
   store_links, header) at the level of model states ([Tr]). *)
From Coq Require Import List NArith Bool Lia Arith Permutation Sorted.
Import ListNotations.
From Traph Require Import Bytes Consts Helpers Rules Tst TstDefs Traph Traphw Ops RefDefs
  TstFacts LinkFacts TraceDefs TraceFacts TraceFacts2.
Open Scope N_scope.

(* ====================================================================== *)
(* The blocks of a tree                                                    *)
(* ====================================================================== *)

Fixpoint nodes (t : tst) : list nd :=
  match t with Lf => [] | Nd d l c r => d :: nodes c ++ nodes l ++ nodes r end.

Lemma nodes_paths : forall t pre, nodes t = map snd (paths pre t).
Proof.
  induction t as [|d l IHl c IHc r IHr]; intro pre; [reflexivity|].
  cbn [nodes paths map snd]. rewrite !map_app.
  rewrite <- (IHc (pre ++ [stem d])), <- (IHl pre), <- (IHr pre). reflexivity.
Qed.

Lemma nodes_find : forall t d, wf_tst t -> (In d (nodes t) <-> exists p, find p t = Some d).
Proof.
  intros t d Hwf. rewrite (nodes_paths t []), in_map_iff. split.
  - intros ([p d'] & E & Hin). cbn in E. subst d'. exists p. apply paths_find; assumption.
  - intros (p & Hp). exists (p, d). split; [reflexivity|]. apply paths_find; assumption.
Qed.

Definition nptr (t : tst) (a : N) : Prop := a = 0 \/ exists d, In d (nodes t) /\ a = addr d.

Lemma root_nptr : forall t, nptr t (root_addr t).
Proof.
  intros [|d l c r]; [left; reflexivity|]. right. exists d. split; [left|]; reflexivity.
Qed.

Lemma nptr_incl : forall t1 t2 a, (forall d, In d (nodes t1) -> In d (nodes t2)) ->
  nptr t1 a -> nptr t2 a.
Proof. intros t1 t2 a Hinc [->|(d & Hd & ->)]; [left; reflexivity|right; eauto]. Qed.

Definition zero_ptrs (b : tblock) : Prop :=
  b_left b = 0 /\ b_right b = 0 /\ b_child b = 0 /\ b_parent b = 0 /\ b_out b = 0 /\ b_in b = 0.

Lemma tail_zero : forall chs b, In b (tail_blocks chs) -> zero_ptrs b.
Proof.
  induction chs as [|c chs IH]; intros b Hin; [destruct Hin|].
  cbn [tail_blocks] in Hin. destruct Hin as [<-|Hin]; [|auto].
  unfold zero_ptrs. cbn. repeat split; reflexivity.
Qed.

Lemma number_from_In : forall bs a x b, In (x, b) (number_from a bs) -> In b bs.
Proof.
  induction bs as [|b0 bs IH]; intros a x b Hin; [destruct Hin|].
  cbn [number_from] in Hin. destruct Hin as [E|Hin]; [injection E as _ <-; left; reflexivity|].
  right. eapply IH; eauto.
Qed.

Lemma incl_c : forall d l c r x, In x (nodes c) -> In x (nodes (Nd d l c r)).
Proof. intros. cbn [nodes]. right. rewrite !in_app_iff. auto. Qed.
Lemma incl_l : forall d l c r x, In x (nodes l) -> In x (nodes (Nd d l c r)).
Proof. intros. cbn [nodes]. right. rewrite !in_app_iff. auto. Qed.
Lemma incl_r : forall d l c r x, In x (nodes r) -> In x (nodes (Nd d l c r)).
Proof. intros. cbn [nodes]. right. rewrite !in_app_iff. auto. Qed.

Lemma placed_cases : forall t a b, In (a, b) (placed t) ->
  (exists d la ra ca, In d (nodes t) /\ a = addr d /\ b = main_block d la ra ca /\
                      nptr t la /\ nptr t ra /\ nptr t ca) \/ zero_ptrs b.
Proof.
  induction t as [|d l IHl c IHc r IHr]; intros a b Hin; [destruct Hin|].
  cbn [placed] in Hin. unfold node_blocks in Hin. cbn [number_from] in Hin.
  rewrite !in_app_iff in Hin. cbn [In] in Hin.
  destruct Hin as [[E|Htl]|[Hc|[Hl|Hr]]].
  - injection E as <- <-. left. exists d, (root_addr l), (root_addr r), (root_addr c).
    split; [left; reflexivity|]. split; [reflexivity|]. split; [reflexivity|].
    split; [|split].
    + eapply nptr_incl; [apply incl_l|apply root_nptr].
    + eapply nptr_incl; [apply incl_r|apply root_nptr].
    + eapply nptr_incl; [apply incl_c|apply root_nptr].
  - right. eapply tail_zero. eapply number_from_In. exact Htl.
  - destruct (IHc _ _ Hc) as [(d' & la & ra & ca & H1 & H2 & H3 & H4 & H5 & H6)|Hz]; [|right; exact Hz].
    left. exists d', la, ra, ca. split; [apply incl_c; exact H1|]. split; [exact H2|]. split; [exact H3|].
    split; [|split]; eapply nptr_incl; try apply incl_c; assumption.
  - destruct (IHl _ _ Hl) as [(d' & la & ra & ca & H1 & H2 & H3 & H4 & H5 & H6)|Hz]; [|right; exact Hz].
    left. exists d', la, ra, ca. split; [apply incl_l; exact H1|]. split; [exact H2|]. split; [exact H3|].
    split; [|split]; eapply nptr_incl; try apply incl_l; assumption.
  - destruct (IHr _ _ Hr) as [(d' & la & ra & ca & H1 & H2 & H3 & H4 & H5 & H6)|Hz]; [|right; exact Hz].
    left. exists d', la, ra, ca. split; [apply incl_r; exact H1|]. split; [exact H2|]. split; [exact H3|].
    split; [|split]; eapply nptr_incl; try apply incl_r; assumption.
Qed.

Lemma nodes_placed : forall t d, In d (nodes t) ->
  exists la ra ca, In (addr d, main_block d la ra ca) (placed t).
Proof.
  induction t as [|d0 l IHl c IHc r IHr]; intros d Hin; [destruct Hin|].
  cbn [nodes In] in Hin. rewrite !in_app_iff in Hin. cbn [placed]. unfold node_blocks. cbn [number_from].
  destruct Hin as [<-|[Hin|[Hin|Hin]]].
  - exists (root_addr l), (root_addr r), (root_addr c). left. reflexivity.
  - destruct (IHc _ Hin) as (la & ra & ca & H). exists la, ra, ca.
    right. rewrite !in_app_iff. auto.
  - destruct (IHl _ Hin) as (la & ra & ca & H). exists la, ra, ca.
    right. rewrite !in_app_iff. auto.
  - destruct (IHr _ Hin) as (la & ra & ca & H). exists la, ra, ca.
    right. rewrite !in_app_iff. auto.
Qed.

Lemma head_lptr : forall n h, head_ok n h -> lptr_ok n h.
Proof. intros n h H. exact H. Qed.

(* the invariant gives files without dangling pointers *)
Theorem Inv18_no_dangling : forall s, Inv18 s -> no_dangling (files_of s).
Proof.
  intros s H. destruct H as [Hwf Htl Hnb Haddr Hpars Hstubs Hheads Htg].
  pose proof (tiled_img _ _ Htl) as Himg.
  change (map snd (flatten (tr s))) with (ft (files_of s)) in Himg.
  assert (Hnode : forall d, In d (nodes (tr s)) ->
            exists i, (i < length (ft (files_of s)))%nat /\ addr d = N.of_nat (S i) * bsz).
  { intros d Hd. destruct (nodes_placed _ _ Hd) as (la & ra & ca & Hin).
    destruct (img_In _ _ _ _ _ Himg Hin) as (i & E & _ & Hi). eauto. }
  assert (Hnptr : forall a, nptr (tr s) a -> tptr_ok (length (ft (files_of s))) a).
  { intros a [->|(d & Hd & ->)]; [left; reflexivity|right; auto]. }
  split.
  - intros b Hin. apply In_nth_error in Hin. destruct Hin as (i & Ei).
    apply (proj2 (proj2 (proj2 Himg))) in Ei.
    destruct (placed_cases _ _ _ Ei) as [(d & la & ra & ca & Hd & _ & -> & Hl & Hr & Hc)|Hz].
    + apply (nodes_find _ _ Hwf) in Hd. destruct Hd as (p & Hp).
      destruct (Hheads p d Hp) as [Ho Hi].
      apply main_ok; auto using head_lptr.
      assert (Hne : p <> []) by (intros ->; rewrite find_nil in Hp; discriminate).
      destruct (exists_last Hne) as (p' & x & ->).
      pose proof (Hpars p' x d Hp) as Hq. destruct p' as [|y p'].
      * rewrite Hq. left. reflexivity.
      * destruct Hq as (dp & Hdp & ->). right. apply Hnode.
        apply (nodes_find _ _ Hwf). eauto.
    + destruct Hz as (Z1 & Z2 & Z3 & Z4 & Z5 & Z6). unfold block_ok.
      rewrite Z1, Z2, Z3, Z4, Z5, Z6. repeat split; auto using tptr_ok_0, lptr_ok_0.
  - intros j tg pv E. cbn [files_of fl] in E. split.
    + destruct (Htg j tg pv E) as (p & d & Hp & <-). apply Hnode.
      apply (nodes_find _ _ Hwf). eauto.
    + apply head_lptr. eapply Hstubs; eauto.
Qed.

(* ====================================================================== *)
(* Parent registers under ins                                              *)
(* ====================================================================== *)

Definition pars_at (pa : N) (t : tst) : Prop :=
  forall p s d, find (p ++ [s]) t = Some d ->
    match p with
    | [] => par d = pa
    | _ => exists dp, find p t = Some dp /\ par d = addr dp
    end.

Lemma find_Nd_Eq : forall s rest d l c r, lex s (stem d) = Eq -> rest <> [] ->
  find (s :: rest) (Nd d l c r) = find rest c.
Proof. intros s rest d l c r E Hne. rewrite find_Nd, E. destruct rest; [congruence|reflexivity]. Qed.

Lemma par_nochild_if : forall (b : bool) d, par (if b then set_nochild false d else d) = par d.
Proof. intros [|] d; reflexivity. Qed.

Lemma snoc_ne : forall (A : Type) (p : list A) s, p ++ [s] <> [].
Proof. intros A [|x p] s; discriminate. Qed.

Lemma ins_pars_new : forall flag ss pre pa nb h t p s d',
  find (p ++ [s]) t = None -> is_prefix (p ++ [s]) ss = true ->
  find (p ++ [s]) (ins_t flag ss pre pa nb h t) = Some d' ->
  match p with
  | [] => par d' = pa
  | _ => exists dp, find p (ins_t flag ss pre pa nb h t) = Some dp /\ par d' = addr dp
  end.
Proof.
  intros flag ss.
  induction ss as [|s0 rest IH]; intros pre pa nb h t p s d' Hnone Hpre Hf.
  { destruct p; discriminate Hpre. }
  destruct p as [|x p2].
  - (* the node at this level *)
    cbn [app] in *. rewrite is_prefix_cons in Hpre. apply andb_prop in Hpre.
    destruct Hpre as [Hx _]. apply beq_eq in Hx. subst s.
    induction t as [|d l IHl c _ r IHr].
    + rewrite ins_t_Lf, find_Nd in Hf. cbn [stem] in Hf. rewrite lex_refl in Hf.
      injection Hf as <-. reflexivity.
    + rewrite ins_t_Nd in Hf. rewrite find_Nd in Hnone.
      destruct (lex s0 (stem d)) eqn:E; [discriminate Hnone| |]; rewrite find_Nd, E in Hf; auto.
  - cbn [app] in *. rewrite is_prefix_cons in Hpre. apply andb_prop in Hpre.
    destruct Hpre as [Hx Hpre]. apply beq_eq in Hx. subst x.
    pose proof (snoc_ne _ p2 s) as Hne.
    induction t as [|d l IHl c _ r IHr].
    + rewrite ins_t_Lf in *. rewrite find_Nd_Eq in Hf by (cbn [stem]; auto using lex_refl).
      pose proof (IH (pre ++ s0) (nb * bsz) (nb + nblk s0) h Lf p2 s d' (find_Lf _) Hpre Hf) as Hq.
      destruct p2 as [|y p3].
      * eexists. split; [rewrite find_Nd; cbn [stem]; rewrite lex_refl; reflexivity|]. exact Hq.
      * destruct Hq as (dp & Hdp & Hpar). exists dp. split; [|exact Hpar].
        rewrite find_Nd_Eq by (cbn [stem]; auto using lex_refl; discriminate). exact Hdp.
    + rewrite ins_t_Nd in *. rewrite find_Nd in Hnone.
      destruct (lex s0 (stem d)) eqn:E.
      * assert (E' : lex s0 (stem (if flag && nonempty rest then set_nochild false d else d)) = Eq)
          by (rewrite stem_nochild_if; exact E).
        rewrite find_Nd_Eq in Hf by assumption.
        assert (Hnone' : find (p2 ++ [s]) c = None).
        { destruct (p2 ++ [s]); [congruence|exact Hnone]. }
        pose proof (IH (pre ++ s0) (addr d) nb (visit d (pre ++ s0) h) c p2 s d' Hnone' Hpre Hf) as Hq.
        destruct p2 as [|y p3].
        -- eexists. split; [rewrite find_Nd, E'; reflexivity|]. rewrite addr_nochild_if. exact Hq.
        -- destruct Hq as (dp & Hdp & Hpar). exists dp. split; [|exact Hpar].
           rewrite find_Nd_Eq by (auto; discriminate). exact Hdp.
      * rewrite find_Nd, E in Hf. rewrite find_Nd, E. apply IHl; assumption.
      * rewrite find_Nd, E in Hf. rewrite find_Nd, E. apply IHr; assumption.
Qed.

Lemma ins_pars_at : forall flag ss pre pa nb h t,
  pars_at pa t -> pars_at pa (ins_t flag ss pre pa nb h t).
Proof.
  intros flag ss pre pa nb h t Hp p s d' Hf.
  pose proof (snoc_ne _ p s) as Hne.
  destruct (find (p ++ [s]) t) as [d|] eqn:Eold.
  - assert (Epar : par d' = par d).
    { destruct (is_prefix (p ++ [s]) ss) eqn:Epre.
      - rewrite (find_ins_old flag ss pre pa nb h t _ d Hne Epre Eold) in Hf.
        injection Hf as <-. apply par_nochild_if.
      - rewrite find_ins_other in Hf by assumption. congruence. }
    pose proof (Hp p s d Eold) as Hq. destruct p as [|y p'].
    + congruence.
    + destruct Hq as (dp & Hdp & Hpar).
      destruct (find_ins_keeps flag ss pre pa nb h t _ dp Hdp) as (dp' & Hdp' & Hk).
      exists dp'. split; [exact Hdp'|]. destruct Hk as (Ea & _). congruence.
  - destruct (is_prefix (p ++ [s]) ss) eqn:Epre.
    + eapply ins_pars_new; eauto.
    + rewrite find_ins_other in Hf by assumption. congruence.
Qed.

(* ====================================================================== *)
(* Tr: a write list takes the files of one state to the files of another     *)
(* ====================================================================== *)

Definition Tr (ws : list wr) (s s' : traph) : Prop :=
  apply_all ws (files_of s) = files_of s' /\ Inv18 s' /\ safe_all ws (files_of s).

Lemma Tr_nil : forall s, Inv18 s -> Tr [] s s.
Proof. intros s H. split; [reflexivity|]. split; [exact H|exact I]. Qed.

Lemma Tr_app : forall w1 w2 s s1 s2, Tr w1 s s1 -> Tr w2 s1 s2 -> Tr (w1 ++ w2) s s2.
Proof.
  intros w1 w2 s s1 s2 (E1 & I1 & S1) (E2 & I2 & S2). split; [|split].
  - rewrite apply_all_app, E1. exact E2.
  - exact I2.
  - apply safe_all_app. rewrite E1. auto.
Qed.

Lemma Inv18_ram : forall s s', Inv18 s -> tr s' = tr s -> nb s' = nb s -> stubs s' = stubs s -> Inv18 s'.
Proof.
  intros s s' [H1 H2 H3 H4 H5 H6 H7 H8] Et En Es.
  constructor; rewrite ?Et, ?En, ?Es; assumption.
Qed.

Lemma Tr_ram : forall s s', Inv18 s -> tr s' = tr s -> nb s' = nb s -> lastwe s' = lastwe s ->
  stubs s' = stubs s -> Tr [] s s'.
Proof.
  intros s s' H Et En El Es. split; [|split].
  - unfold files_of. cbn. rewrite Et, El, Es. reflexivity.
  - eapply Inv18_ram; eauto.
  - exact I.
Qed.

(* from a replay on the address view back to states *)
Lemma Run_files : forall ws s s',
  Run ws (files_of s) (placed (tr s')) (nb s') -> lastwe s' = lastwe s -> stubs s' = stubs s ->
  apply_all ws (files_of s) = files_of s' /\ tiled (tr s') (nb s') /\ safe_all ws (files_of s).
Proof.
  intros ws s s' ((Hi & _) & Hs & (Eh & El)) Elw Est.
  destruct (img_tiled _ _ _ Hi) as [Ht Eft].
  split; [|split; assumption].
  destruct (apply_all ws (files_of s)) as [L hd st].
  unfold files_of in *. cbn [ft fhdr fl] in *. rewrite Elw, Est. congruence.
Qed.

Lemma Inv18_St : forall s, Inv18 s -> St (placed (tr s)) (nb s) (files_of s).
Proof.
  intros s H. split; [|apply Inv18_no_dangling; exact H].
  apply tiled_img. apply H.
Qed.

(* ---- A2: add_lru ---------------------------------------------------------------- *)
Theorem add_lru_Tr : forall flag l s, Inv18 s -> Tr (add_lru_w flag l s) s (fst (add_lru flag l s)).
Proof.
  intros flag l s H. pose proof H as [Hwf Htl Hnb Haddr Hpars Hstubs Hheads Htg].
  set (s' := fst (add_lru flag l s)).
  assert (HR : Run (add_lru_w flag l s) (files_of s) (placed (tr s')) (nb s')).
  { unfold s'. rewrite add_lru_tr, add_lru_nb. unfold add_lru_w.
    pose proof (insw_run flag (lru_iter l) [] 0 (nb s) hist0 CRoot (tr s) [] (files_of s) Hnb
                  (tptr_ok_0 _)) as HR.
    cbn [ctxblock app] in HR. apply HR. apply Inv18_St. exact H. }
  assert (El : lastwe s' = lastwe s).
  { unfold s', add_lru. destruct (ins flag (lru_iter l) [] 0 (nb s) hist0 (tr s)) as [[t' nb'] h']. reflexivity. }
  assert (Es : stubs s' = stubs s) by apply add_lru_stubs.
  destruct (Run_files _ _ _ HR El Es) as (E & Ht & Hs).
  split; [exact E|]. split; [|exact Hs].
  constructor.
  - apply add_lru_wf. exact Hwf.
  - exact Ht.
  - unfold s'. rewrite add_lru_nb. pose proof (ins_nb_mono flag (lru_iter l) [] 0 (nb s) hist0 (tr s)). lia.
  - apply add_lru_addr_ok; assumption.
  - unfold s'. rewrite add_lru_tr. apply (ins_pars_at flag (lru_iter l) [] 0 (nb s) hist0 (tr s)). exact Hpars.
  - rewrite Es. exact Hstubs.
  - intros p d' Hf. rewrite Es. destruct (add_lru_class _ _ _ _ _ Hf) as [(d & Hd & Hk)|(_ & _ & Ho & Hi)].
    + destruct Hk as (_ & _ & _ & _ & _ & _ & Ho & Hi). rewrite Ho, Hi. eapply Hheads; eauto.
    + rewrite Ho, Hi. split; apply head_ok_0.
  - intros i tg pv Ei. rewrite Es in Ei. destruct (Htg i tg pv Ei) as (p & d & Hp & Ha).
    destruct (add_lru_addr_stable flag l s p d Hp) as (d' & Hd' & Ha' & _).
    exists p, d'. split; [exact Hd'|congruence].
Qed.

(* ---- A3: in-place rewrite of one node ----------------------------------------------- *)
Definition nwp (p : list bytes) (t : tst) : list wr :=
  match find_sub p t with
  | Some (Nd d l c r) => [TSet (addr d) (main_block d (root_addr l) (root_addr r) (root_addr c))]
  | _ => []
  end.

Lemma node_write_nwp : forall l s, node_write l s = nwp (lru_iter l) (tr s).
Proof. reflexivity. Qed.

Lemma find_sub_nil : forall t, find_sub [] t = None.
Proof. reflexivity. Qed.
Lemma find_sub_Lf : forall p, find_sub p Lf = None.
Proof. destruct p; reflexivity. Qed.
Lemma find_sub_Nd : forall s rest d l c r,
  find_sub (s :: rest) (Nd d l c r) =
  match lex s (stem d) with
  | Eq => match rest with [] => Some (Nd d l c r) | _ :: _ => find_sub rest c end
  | Lt => find_sub (s :: rest) l
  | Gt => find_sub (s :: rest) r
  end.
Proof. intros. cbn [find_sub]. destruct (lex s (stem d)); try reflexivity; destruct rest; reflexivity. Qed.

Lemma find_of_sub : forall p t, find p t = match find_sub p t with Some x => node_of x | None => None end.
Proof. reflexivity. Qed.

Lemma find_sub_not_Lf : forall p t, find_sub p t <> Some Lf.
Proof.
  induction p as [|s rest IH]; intro t; [discriminate|].
  induction t as [|d l IHl c _ r IHr]; [rewrite find_sub_Lf; discriminate|].
  rewrite find_sub_Nd. destruct (lex s (stem d)); auto. destruct rest; [discriminate|apply IH].
Qed.

Lemma upd_none : forall f p t, find_sub p t = None -> upd f p t = t.
Proof.
  intros f. induction p as [|s rest IH]; intros t H; [reflexivity|].
  induction t as [|d l IHl c _ r IHr]; [apply upd_Lf|].
  rewrite find_sub_Nd in H. rewrite upd_Nd. destruct (lex s (stem d)).
  - destruct rest; [discriminate H|]. rewrite IH by exact H. reflexivity.
  - rewrite IHl by exact H. reflexivity.
  - rewrite IHr by exact H. reflexivity.
Qed.

Lemma placed_upd : forall f, (forall d, stem (f d) = stem d) -> (forall d, addr (f d) = addr d) ->
  forall p t d l c r, find_sub p t = Some (Nd d l c r) ->
  exists P1 P2,
    placed t = P1 ++ [(addr d, main_block d (root_addr l) (root_addr r) (root_addr c))] ++ P2 /\
    placed (upd f p t) = P1 ++ [(addr d, main_block (f d) (root_addr l) (root_addr r) (root_addr c))] ++ P2 /\
    find_sub p (upd f p t) = Some (Nd (f d) l c r) /\
    root_addr (upd f p t) = root_addr t.
Proof.
  intros f Hs Ha. induction p as [|s rest IH]; intros t d l c r H; [discriminate H|].
  induction t as [|d0 l0 IHl c0 _ r0 IHr]; [rewrite find_sub_Lf in H; discriminate H|].
  rewrite find_sub_Nd in H. rewrite upd_Nd. destruct (lex s (stem d0)) eqn:E.
  - destruct rest as [|s2 rest2].
    + injection H as -> -> -> ->.
      exists [], (number_from (addr d + bsz) (tail_blocks (stem_tail_chunks (stem d)))
                  ++ placed c ++ placed l ++ placed r).
      split; [reflexivity|]. split; [|split].
      * cbn [placed node_blocks number_from app]. rewrite Hs, Ha. reflexivity.
      * rewrite find_sub_Nd, Hs, E. reflexivity.
      * cbn [root_addr]. apply Ha.
    + destruct (IH c0 d l c r H) as (P1 & P2 & E1 & E2 & E3 & E4).
      exists (number_from (addr d0) (node_blocks d0 (root_addr l0) (root_addr r0) (root_addr c0)) ++ P1),
             (P2 ++ placed l0 ++ placed r0).
      split; [|split; [|split]].
      * cbn [placed]. rewrite E1. rewrite <- !app_assoc. reflexivity.
      * cbn [placed]. rewrite E2, E4. rewrite <- !app_assoc. reflexivity.
      * rewrite find_sub_Nd, E. exact E3.
      * reflexivity.
  - destruct (IHl H) as (P1 & P2 & E1 & E2 & E3 & E4).
    exists (number_from (addr d0) (node_blocks d0 (root_addr l0) (root_addr r0) (root_addr c0)) ++ placed c0 ++ P1),
           (P2 ++ placed r0).
    split; [|split; [|split]].
    + cbn [placed]. rewrite E1. rewrite <- !app_assoc. reflexivity.
    + cbn [placed]. rewrite E2, E4. rewrite <- !app_assoc. reflexivity.
    + rewrite find_sub_Nd, E. exact E3.
    + reflexivity.
  - destruct (IHr H) as (P1 & P2 & E1 & E2 & E3 & E4).
    exists (number_from (addr d0) (node_blocks d0 (root_addr l0) (root_addr r0) (root_addr c0)) ++ placed c0 ++ placed l0 ++ P1),
           P2.
    split; [|split; [|split]].
    + cbn [placed]. rewrite E1. rewrite <- !app_assoc. reflexivity.
    + cbn [placed]. rewrite E2, E4. rewrite <- !app_assoc. reflexivity.
    + rewrite find_sub_Nd, E. exact E3.
    + reflexivity.
Qed.

Definition keeps_place (f : nd -> nd) : Prop :=
  forall d, stem (f d) = stem d /\ addr (f d) = addr d /\ par (f d) = par d.

Definition mono_nd (n : nat) (d d' : nd) : Prop :=
  (page d = true -> page d' = true) /\ (crawled d = true -> crawled d' = true) /\
  outh d <= outh d' /\ inh d <= inh d' /\ head_ok n (outh d') /\ head_ok n (inh d').

Lemma upd_Inv18 : forall f p s, Inv18 s -> keeps_place f ->
  (forall d, find p (tr s) = Some d ->
     head_ok (length (stubs s)) (outh (f d)) /\ head_ok (length (stubs s)) (inh (f d))) ->
  tiled (upd f p (tr s)) (nb s) ->
  Inv18 (set_tree (upd f p (tr s)) s).
Proof.
  intros f p s [Hwf Htl Hnb Haddr Hpars Hstubs Hheads Htg] Hk Hhd Ht.
  assert (Hs : forall d, stem (f d) = stem d) by (intro d; apply Hk).
  assert (Ha : forall d, addr (f d) = addr d) by (intro d; apply Hk).
  assert (Hp : forall d, par (f d) = par d) by (intro d; apply Hk).
  constructor; cbn [set_tree set_tr tr nb stubs].
  - apply upd_wf; assumption.
  - exact Ht.
  - exact Hnb.
  - apply upd_addr_ok; [intro d; split; auto|assumption].
  - intros q x d' Hf.
    assert (Hold : exists d0, find (q ++ [x]) (tr s) = Some d0 /\ par d' = par d0).
    { destruct (find_upd_class f p (tr s) _ d' Hs Hf) as [(Eqp & d0 & Hd0 & ->)|(_ & Hd0)].
      - exists d0. split; [|apply Hp]. rewrite Eqp. exact Hd0.
      - exists d'. auto. }
    destruct Hold as (d0 & Hd0 & Epar).
    pose proof (Hpars q x d0 Hd0) as Hq. destruct q as [|y q'].
    + congruence.
    + destruct Hq as (dp & Hdp & Hpar).
      destruct (find_upd_keeps f p (tr s) _ dp Hs Hdp) as [H|(_ & H)].
      * exists dp. split; [exact H|congruence].
      * exists (f dp). split; [exact H|]. rewrite Ha. congruence.
  - exact Hstubs.
  - intros q d' Hf. destruct (find_upd_class f p (tr s) q d' Hs Hf) as [(-> & d0 & Hd0 & ->)|(_ & Hd0)].
    + apply Hhd. exact Hd0.
    + eapply Hheads; eauto.
  - intros i tg pv E. destruct (Htg i tg pv E) as (q & d & Hq & Hadr).
    destruct (find_upd_keeps f p (tr s) q d Hs Hq) as [H|(_ & H)].
    + exists q, d. auto.
    + exists q, (f d). split; [exact H|]. rewrite Ha. exact Hadr.
Qed.

Theorem upd_Tr : forall f p s, Inv18 s -> keeps_place f ->
  (forall d, find p (tr s) = Some d -> mono_nd (length (stubs s)) d (f d)) ->
  Tr (nwp p (upd f p (tr s))) s (set_tree (upd f p (tr s)) s).
Proof.
  intros f p s H Hk Hm.
  assert (Hs : forall d, stem (f d) = stem d) by (intro d; apply Hk).
  assert (Ha : forall d, addr (f d) = addr d) by (intro d; apply Hk).
  assert (Hp : forall d, par (f d) = par d) by (intro d; apply Hk).
  destruct (find_sub p (tr s)) as [[|d l c r]|] eqn:Ef.
  - exfalso. exact (find_sub_not_Lf _ _ Ef).
  - destruct (placed_upd f Hs Ha p (tr s) d l c r Ef) as (P1 & P2 & E1 & E2 & E3 & _).
    assert (Hfd : find p (tr s) = Some d) by (rewrite find_of_sub, Ef; reflexivity).
    destruct (Hm d Hfd) as (Mp & Mc & Mo & Mi & Mho & Mhi).
    pose proof (Inv18_St s H) as HSt. rewrite E1 in HSt.
    assert (Hold : block_ok (length (ft (files_of s))) (length (fl (files_of s)))
                     (main_block d (root_addr l) (root_addr r) (root_addr c))).
    { eapply (St_block _ _ _ (addr d)); [exact HSt|]. rewrite !in_app_iff. right. left. left. reflexivity. }
    apply main_ok_inv in Hold. destruct Hold as (Hl & Hr & Hc & Hpa & _ & _).
    assert (HR : Run (nwp p (upd f p (tr s))) (files_of s)
                   (placed (tr (set_tree (upd f p (tr s)) s))) (nb (set_tree (upd f p (tr s)) s))).
    { unfold nwp. rewrite E3, Ha. cbn [set_tree set_tr tr nb]. rewrite E2.
      eapply Run_set; [exact HSt| |].
      - apply main_below; auto using ptr_below_refl.
      - apply main_ok; auto using head_lptr. rewrite Hp. exact Hpa. }
    destruct (Run_files _ s _ HR eq_refl eq_refl) as (E & Ht & Hsafe).
    split; [exact E|]. split; [|exact Hsafe].
    apply upd_Inv18; try assumption.
    intros d0 Hd0. rewrite Hfd in Hd0. injection Hd0 as <-. auto.
  - rewrite upd_none by exact Ef. unfold nwp. rewrite Ef.
    apply Tr_ram; try reflexivity. exact H.
Qed.

(* the usual field setters *)
Lemma kp_set_page : keeps_place set_page.
Proof. intro d. repeat split. Qed.
Lemma kp_set_crawled : keeps_place set_crawled.
Proof. intro d. repeat split. Qed.
Lemma kp_set_we : forall w, keeps_place (set_we w).
Proof. intros w d. repeat split. Qed.
Lemma kp_set_rule : forall b, keeps_place (set_rule b).
Proof. intros b d. repeat split. Qed.
Lemma kp_set_outh : forall h, keeps_place (set_outh h).
Proof. intros h d. repeat split. Qed.
Lemma kp_set_inh : forall h, keeps_place (set_inh h).
Proof. intros h d. repeat split. Qed.

(* a rewrite that keeps the link heads and only adds page / crawled marks *)
Definition soft (f : nd -> nd) : Prop :=
  keeps_place f /\
  forall d, (page d = true -> page (f d) = true) /\ (crawled d = true -> crawled (f d) = true) /\
            outh (f d) = outh d /\ inh (f d) = inh d.

Lemma soft_set_page : soft set_page.
Proof. split; [apply kp_set_page|]. intro d. repeat split; auto. Qed.
Lemma soft_set_crawled : soft set_crawled.
Proof. split; [apply kp_set_crawled|]. intro d. repeat split; auto. Qed.
Lemma soft_set_we : forall w, soft (set_we w).
Proof. intro w. split; [apply kp_set_we|]. intro d. repeat split; auto. Qed.
Lemma soft_set_rule : forall b, soft (set_rule b).
Proof. intro b. split; [apply kp_set_rule|]. intro d. repeat split; auto. Qed.
Lemma soft_page_crawled : forall cr : bool, soft (fun d => if cr then set_crawled (set_page d) else set_page d).
Proof.
  intros [|]; split; try (intro d; repeat split; auto).
Qed.

Theorem soft_Tr : forall f p s, Inv18 s -> soft f ->
  Tr (nwp p (upd f p (tr s))) s (set_tree (upd f p (tr s)) s).
Proof.
  intros f p s H [Hk Hf]. apply upd_Tr; try assumption.
  intros d Hd. destruct (Hf d) as (H1 & H2 & H3 & H4). unfold mono_nd. rewrite H3, H4.
  destruct (I_heads s H p d Hd) as [Ho Hi]. repeat split; auto; lia.
Qed.

(* A3 as requested: node.write() of a rewritten node *)
Corollary node_write_trace : forall f l s, Inv18 s -> soft f ->
  let s' := set_tree (upd f (lru_iter l) (tr s)) s in
  apply_all (node_write l s') (files_of s) = files_of s' /\ Inv18 s'.
Proof.
  intros f l s H Hf s'. destruct (soft_Tr f (lru_iter l) s H Hf) as (E & I' & _). split; assumption.
Qed.

(* ---- A5: the header ----------------------------------------------------------------- *)
Theorem hdr_Tr : forall n s, Inv18 s ->
  Tr [THdr n] s (mkT (tr s) (nb s) n (stubs s) (rules s) (dflt s)).
Proof.
  intros n s H. split; [reflexivity|]. split; [|split; exact I].
  eapply Inv18_ram; eauto.
Qed.

(* ---- A4: store_links ------------------------------------------------------------------ *)
Lemma push_stubs_head : forall tgs h st, tgs <> [] ->
  snd (push_stubs tgs h st) = ssz * N.of_nat (length (fst (push_stubs tgs h st))).
Proof.
  induction tgs as [|tg r IH]; intros h st Hne; [congruence|].
  rewrite push_stubs_cons. destruct r as [|tg2 r2].
  - rewrite push_stubs_nil. cbn [fst snd]. unfold stub_addr. rewrite app_length. cbn [length].
    f_equal. f_equal. lia.
  - apply IH. discriminate.
Qed.

Lemma skipn_app_exact : forall (A : Type) (a b : list A), skipn (length a) (a ++ b) = b.
Proof. induction a as [|x a IH]; intro b; [reflexivity|]. cbn. apply IH. Qed.

Lemma apply_lapps : forall news f,
  apply_all (map LApp news) f = mkFiles (ft f) (fhdr f) (fl f ++ news).
Proof.
  induction news as [|x news IH]; intro f.
  - cbn. rewrite app_nil_r. destruct f; reflexivity.
  - cbn [map]. rewrite apply_all_cons, IH. cbn [apply ft fhdr fl]. rewrite <- app_assoc. reflexivity.
Qed.

Lemma safe_lapps : forall news f,
  (forall k tg pv, nth_error news k = Some (tg, pv) ->
     (exists i, (i < length (ft f))%nat /\ tg = N.of_nat (S i) * bsz) /\
     lptr_ok (length (fl f) + k) pv) ->
  safe_all (map LApp news) f.
Proof.
  induction news as [|[tg pv] news IH]; intros f H; [exact I|].
  cbn [map safe_all safe_write fst snd]. split.
  - destruct (H 0%nat tg pv eq_refl) as [H1 H2]. rewrite Nat.add_0_r in H2. auto.
  - apply IH. intros k tg' pv' E. cbn [apply ft fl]. rewrite app_length. cbn [length].
    destruct (H (S k) tg' pv' E) as [H1 H2]. split; [exact H1|].
    replace (length (fl f) + 1 + k)%nat with (length (fl f) + S k)%nat by lia. exact H2.
Qed.

Theorem store_links_Tr : forall out l tgs s, Inv18 s ->
  (forall tg, In tg tgs -> exists p d, find p (tr s) = Some d /\ addr d = tg) ->
  Tr (store_links_w out l tgs s) s (store_links out (lru_iter l) tgs s).
Proof.
  intros out l tgs s H Htgs.
  destruct tgs as [|tg0 tgs']; [apply Tr_nil; exact H|].
  set (tgs := tg0 :: tgs') in *.
  assert (Hne : tgs <> []) by discriminate.
  assert (Ew : store_links_w out l tgs s =
          match find (lru_iter l) (tr s) with
          | None => []
          | Some d => map LApp (skipn (length (stubs s)) (fst (push_stubs tgs (if out then outh d else inh d) (stubs s))))
                        ++ node_write l (store_links out (lru_iter l) tgs s)
          end) by reflexivity.
  assert (Efin : store_links out (lru_iter l) tgs s =
                 match find (lru_iter l) (tr s) with
                 | None => s
                 | Some d => let '(st', h') := push_stubs tgs (if out then outh d else inh d) (stubs s) in
                     mkT (upd (if out then set_outh h' else set_inh h') (lru_iter l) (tr s))
                         (nb s) (lastwe s) st' (rules s) (dflt s)
                 end) by reflexivity.
  rewrite Ew, Efin. clear Ew Efin.
  destruct (find (lru_iter l) (tr s)) as [d|] eqn:Ef; [|apply Tr_nil; exact H].
  pose proof H as [Hwf Htl Hnb Haddr Hpars Hstubs Hheads Htg].
  set (h0 := if out then outh d else inh d).
  assert (Hh0 : head_ok (length (stubs s)) h0).
  { destruct (Hheads _ _ Ef) as [Ho Hi]. unfold h0. destruct out; assumption. }
  pose proof (push_stubs_spec tgs h0 (stubs s) Hstubs Hh0 Hne) as Hspec.
  pose proof (push_stubs_head tgs h0 (stubs s) Hne) as Hhead.
  destruct (push_stubs tgs h0 (stubs s)) as [st' h'] eqn:Eps. cbn [fst snd] in *.
  destruct Hspec as ((news & -> & Hmap) & Hlen & Hok' & Hh' & Hnz & _).
  rewrite skipn_app_exact.
  set (s1 := mkT (tr s) (nb s) (lastwe s) (stubs s ++ news) (rules s) (dflt s)).
  assert (Hlen1 : (length (stubs s) <= length (stubs s ++ news))%nat) by (rewrite app_length; lia).
  assert (Hnode : forall tg, In tg tgs ->
            exists i, (i < length (ft (files_of s)))%nat /\ tg = N.of_nat (S i) * bsz).
  { intros tg Hin. destruct (Htgs tg Hin) as (p & d1 & Hp & <-).
    pose proof (Inv18_no_dangling s H) as _.
    assert (Hd1 : In d1 (nodes (tr s))) by (apply (nodes_find _ _ Hwf); eauto).
    destruct (nodes_placed _ _ Hd1) as (la & ra & ca & Hin').
    destruct (img_In _ _ _ _ _ (tiled_img _ _ Htl) Hin') as (i & E & _ & Hi). eauto. }
  assert (I1 : Inv18 s1).
  { constructor; cbn [s1 tr nb stubs]; try assumption.
    - intros p d1 Hp. destruct (Hheads p d1 Hp) as [Ho Hi].
      split; eapply head_ok_mono; eauto.
    - intros i tg pv E.
      destruct (Nat.lt_ge_cases i (length (stubs s))) as [Hi|Hi].
      + rewrite nth_error_app1 in E by exact Hi. eapply Htg; eauto.
      + rewrite nth_error_app2 in E by exact Hi. apply nth_error_In in E.
        apply Htgs. rewrite <- Hmap. apply in_map_iff. exists (tg, pv). auto. }
  assert (T1 : Tr (map LApp news) s s1).
  { split; [|split; [exact I1|]].
    - rewrite apply_lapps. reflexivity.
    - apply safe_lapps. intros k tg pv E. split.
      + apply Hnode. rewrite <- Hmap. apply in_map_iff. exists (tg, pv). split; [reflexivity|].
        eapply nth_error_In; eauto.
      + apply head_lptr. apply (Hok' (length (stubs s) + k)%nat tg pv).
        rewrite nth_error_app2 by lia. replace (length (stubs s) + k - length (stubs s))%nat with k by lia.
        exact E. }
  eapply Tr_app; [exact T1|].
  rewrite node_write_nwp. cbn [tr].
  change (mkT (upd (if out then set_outh h' else set_inh h') (lru_iter l) (tr s))
              (nb s) (lastwe s) (stubs s ++ news) (rules s) (dflt s))
    with (set_tree (upd (if out then set_outh h' else set_inh h') (lru_iter l) (tr s1)) s1).
  change (tr s) with (tr s1).
  apply upd_Tr; [exact I1|destruct out; [apply kp_set_outh|apply kp_set_inh]|].
  intros d0 Hd0. cbn [s1 tr] in Hd0. rewrite Ef in Hd0. injection Hd0 as <-.
  destruct (Hheads _ _ Ef) as [Ho Hi]. cbn [s1 stubs].
  assert (Hge : h0 <= h').
  { rewrite Hhead. destruct Hh0 as [->|(j & Hj & ->)]; [lia|]. unfold stub_addr, ssz, py_stub_block_size. lia. }
  unfold mono_nd, h0 in *. destruct out; cbn [set_outh set_inh page crawled outh inh];
    repeat split; auto; try lia; eapply head_ok_mono; eauto.
Qed.

(* A4 as requested *)
Corollary store_links_trace : forall out l tgs s, Inv18 s ->
  (forall tg, In tg tgs -> exists p d, find p (tr s) = Some d /\ addr d = tg) ->
  apply_all (store_links_w out l tgs s) (files_of s) = files_of (store_links out (lru_iter l) tgs s) /\
  Inv18 (store_links out (lru_iter l) tgs s).
Proof. intros out l tgs s H Ht. destruct (store_links_Tr out l tgs s H Ht) as (E & I' & _). auto. Qed.

(* A2 as requested *)
Corollary add_lru_trace : forall flag l s, Inv18 s ->
  apply_all (add_lru_w flag l s) (files_of s) = files_of (fst (add_lru flag l s)) /\
  Inv18 (fst (add_lru flag l s)).
Proof. intros flag l s H. destruct (add_lru_Tr flag l s H) as (E & I' & _). auto. Qed.
