(* TraceFacts4.v — C18, part 4: whole requests.  For every write request the write list
   of Traphw.v takes the files of the state before to the files of the state after,
   keeps the invariant, and every write is safe in the files reached so far. *)
From Coq Require Import List NArith Bool Lia Arith Permutation.
Import ListNotations.
From Traph Require Import Bytes Consts Helpers Rules Tst TstDefs Traph Traphw Ops RefDefs
  TstFacts LinkFacts TraceDefs TraceFacts TraceFacts2 TraceFacts3.
Open Scope N_scope.

(* ====================================================================== *)
(* Folds of (state, trace) pairs                                           *)
(* ====================================================================== *)
Section Folds.
  Context {A : Type} (step : traph -> A -> traph) (stw : traph -> A -> list wr).

  Fixpoint flat_w (xs : list A) (s : traph) : list wr :=
    match xs with [] => [] | x :: xs' => stw s x ++ flat_w xs' (step s x) end.

  Lemma fold_pair : forall xs s w,
    fold_left (fun '(s, w) x => (step s x, w ++ stw s x)) xs (s, w)
    = (fold_left step xs s, w ++ flat_w xs s).
  Proof.
    induction xs as [|x xs IH]; intros s w; cbn [fold_left flat_w].
    - rewrite app_nil_r. reflexivity.
    - rewrite IH, app_assoc. reflexivity.
  Qed.

  Lemma flat_Tr : forall xs s, Inv18 s ->
    (forall s x, In x xs -> Inv18 s -> Tr (stw s x) s (step s x)) ->
    Tr (flat_w xs s) s (fold_left step xs s).
  Proof.
    induction xs as [|x xs IH]; intros s H Hstep; cbn [fold_left flat_w].
    - apply Tr_nil. exact H.
    - pose proof (Hstep s x (or_introl eq_refl) H) as T1.
      eapply Tr_app; [exact T1|]. apply IH; [apply T1|].
      intros s0 y Hy. apply Hstep. right. exact Hy.
  Qed.
End Folds.

Lemma Tr_inv : forall ws s s', Tr ws s s' -> Inv18 s'.
Proof. intros ws s s' H. apply H. Qed.

(* ====================================================================== *)
(* add_page                                                               *)
(* ====================================================================== *)

Lemma node_write_upd_Tr : forall f l s, Inv18 s -> soft f ->
  Tr (node_write l (set_tree (upd f (lru_iter l) (tr s)) s)) s (set_tree (upd f (lru_iter l) (tr s)) s).
Proof. intros f l s H Hf. rewrite node_write_nwp. cbn [set_tree set_tr tr]. apply soft_Tr; assumption. Qed.

Definition tap_state (lru : bytes) (cr : bool) (s1 : traph) : traph :=
  match find (lru_iter lru) (tr s1) with
  | None => s1
  | Some d =>
      if page d then (if cr && negb (crawled d) then set_tree (upd set_crawled (lru_iter lru) (tr s1)) s1 else s1)
      else set_tree (upd (fun d => if cr then set_crawled (set_page d) else set_page d) (lru_iter lru) (tr s1)) s1
  end.

Lemma trie_add_page_state : forall lru cr s,
  fst (fst (trie_add_page lru cr s)) = tap_state lru cr (fst (add_lru false lru s)).
Proof.
  intros. unfold trie_add_page, tap_state. destruct (add_lru false lru s) as [s1 h]. cbn [fst].
  destruct (find (lru_iter lru) (tr s1)) as [d|]; [|reflexivity].
  destruct (page d); [destruct (cr && negb (crawled d))|]; reflexivity.
Qed.

Lemma trie_add_page_Tr : forall lru cr s, Inv18 s ->
  Tr (trie_add_page_w lru cr s) s (fst (fst (trie_add_page lru cr s))).
Proof.
  intros lru cr s H.
  assert (Ew : trie_add_page_w lru cr s =
    add_lru_w false lru s ++
    match find (lru_iter lru) (tr (fst (add_lru false lru s))) with
    | None => []
    | Some d =>
        if page d then (if cr && negb (crawled d) then node_write lru (fst (fst (trie_add_page lru cr s))) else [])
        else node_write lru (fst (fst (trie_add_page lru cr s)))
    end).
  { unfold trie_add_page_w. destruct (add_lru false lru s) as [s1 h]. reflexivity. }
  rewrite Ew, trie_add_page_state. clear Ew.
  pose proof (add_lru_Tr false lru s H) as T1.
  eapply Tr_app; [exact T1|]. apply Tr_inv in T1.
  set (s1 := fst (add_lru false lru s)) in *. unfold tap_state.
  destruct (find (lru_iter lru) (tr s1)) as [d|]; [|apply Tr_nil; exact T1].
  destruct (page d).
  - destruct (cr && negb (crawled d)); [|apply Tr_nil; exact T1].
    apply node_write_upd_Tr; [exact T1|apply soft_set_crawled].
  - apply node_write_upd_Tr; [exact T1|apply soft_page_crawled].
Qed.

(* ---- add_prefixes ------------------------------------------------------------------- *)
Definition walked (ps : list bytes) (s : traph) : traph :=
  fold_left (fun s p => fst (add_lru true p s)) ps s.

Lemma walk_state : forall ps s n v, fst (fst (walk_prefixes ps s n v)) = walked ps s.
Proof.
  induction ps as [|p ps IH]; intros s n v; [reflexivity|].
  cbn [walk_prefixes walked fold_left]. destruct (add_lru true p s) as [s1 h]. cbn [fst].
  destruct (find (lru_iter p) (tr s1)) as [d|]; [destruct (we d =? 0)|]; apply IH.
Qed.

Lemma walk_w_eq : forall ps s,
  walk_prefixes_w ps s = flat_w (fun s p => fst (add_lru true p s)) (fun s p => add_lru_w true p s) ps s.
Proof. induction ps as [|p ps IH]; intro s; [reflexivity|]. cbn [walk_prefixes_w flat_w]. rewrite IH. reflexivity. Qed.

Lemma walk_w_Tr : forall ps s, Inv18 s -> Tr (walk_prefixes_w ps s) s (walked ps s).
Proof.
  intros ps s H. rewrite walk_w_eq. apply flat_Tr; [exact H|].
  intros s0 p _ H0. apply add_lru_Tr. exact H0.
Qed.

Lemma set_we_w_Tr : forall w ps s0 s, Inv18 s -> tr s0 = tr s ->
  Tr (set_we_w w ps s0) s (set_tree (set_we_all w ps (tr s)) s).
Proof.
  intros w ps. induction ps as [|p ps IH]; intros s0 s H Et.
  - cbn [set_we_w set_we_all fold_left]. apply Tr_ram; try reflexivity. exact H.
  - cbn [set_we_w]. rewrite node_write_nwp. cbn [set_tree set_tr tr]. rewrite Et.
    pose proof (soft_Tr (set_we w) (lru_iter p) s H (soft_set_we w)) as T1.
    eapply Tr_app; [exact T1|].
    set (s' := set_tree (upd (set_we w) (lru_iter p) (tr s)) s) in *.
    change (set_tree (set_we_all w (p :: ps) (tr s)) s) with (set_tree (set_we_all w ps (tr s')) s').
    apply IH; [apply T1|reflexivity].
Qed.

Lemma add_prefixes_Tr : forall ps best s, Inv18 s ->
  Tr (add_prefixes_w ps best s) s (fst (add_prefixes ps best s)).
Proof.
  intros ps best s H. unfold add_prefixes_w, add_prefixes.
  pose proof (walk_state ps s 0%nat []) as Es. pose proof (walk_w_Tr ps s H) as T1.
  destruct (walk_prefixes ps s 0 []) as [[s1 ninv] valid]. cbn [fst] in Es. rewrite <- Es in T1.
  eapply Tr_app; [exact T1|]. apply Tr_inv in T1.
  destruct (negb (Nat.eqb ninv 0) && negb best); [apply Tr_nil; exact T1|].
  destruct (Nat.eqb ninv (length ps)); [apply Tr_nil; exact T1|]. cbn [fst].
  eapply (Tr_app [_]); [apply hdr_Tr; exact T1|].
  set (s1h := mkT (tr s1) (nb s1) (lastwe s1 + 1) (stubs s1) (rules s1) (dflt s1)).
  change (mkT (set_we_all (lastwe s1 + 1) valid (tr s1)) (nb s1) (lastwe s1 + 1) (stubs s1) (rules s1) (dflt s1))
    with (set_tree (set_we_all (lastwe s1 + 1) valid (tr s1h)) s1h).
  apply set_we_w_Tr; [|reflexivity]. eapply Inv18_ram; eauto.
Qed.

Lemma create_from_state : forall p s, fst (create_from p s) = fst (add_prefixes (lru_variations p) true s).
Proof. intros. unfold create_from. destruct (add_prefixes (lru_variations p) true s) as [s1 [| |w v]]; reflexivity. Qed.

Lemma add_page_int_Tr : forall l cr s, Inv18 s ->
  Tr (add_page_int_w l cr s) s (st_of (add_page_int l cr s)).
Proof.
  intros l cr s H. unfold add_page_int_w, add_page_int, st_of.
  pose proof (trie_add_page_Tr l cr s H) as T1.
  destruct (trie_add_page l cr s) as [[s1 h] created]. cbn [fst] in T1.
  eapply Tr_app; [exact T1|]. apply Tr_inv in T1.
  destruct (decide s1 l h) as [|p|]; try (apply Tr_nil; exact T1).
  pose proof (add_prefixes_Tr (lru_variations p) true s1 T1) as T2. rewrite <- create_from_state in T2.
  destruct (create_from p s1) as [s2 c]. exact T2.
Qed.

Lemma add_page_Tr : forall l cr s, Inv18 s -> Tr (add_page_int_w l cr s) s (fst (add_page l cr s)).
Proof.
  intros l cr s H. pose proof (add_page_int_Tr l cr s H) as T. unfold add_page, st_of in *.
  destruct (add_page_int l cr s) as [[s1 n] c]. exact T.
Qed.

(* ---- add_pages ------------------------------------------------------------------------ *)
Definition pages_state (cr : bool) (ls : list bytes) (s : traph) : traph :=
  fold_left (fun s l => st_of (add_page_int l cr s)) ls s.

Lemma add_pages_fold_state : forall cr ls s n c,
  fst (fst (fold_left (fun '(s, n, c) l => let '(s', n', c') := add_page_int l cr s in (s', n + n', c ++ c'))
                      ls (s, n, c))) = pages_state cr ls s.
Proof.
  intros cr. induction ls as [|l ls IH]; intros s n c; [reflexivity|].
  cbn [fold_left pages_state]. unfold st_of. destruct (add_page_int l cr s) as [[s' n'] c']. cbn [fst].
  apply IH.
Qed.

Lemma add_pages_w_Tr : forall ls cr s, Inv18 s -> Tr (add_pages_w ls cr s) s (pages_state cr ls s).
Proof.
  intros ls cr s H. unfold add_pages_w.
  rewrite (fold_pair (fun s l => st_of (add_page_int l cr s)) (fun s l => add_page_int_w l cr s)).
  cbn [snd app]. apply flat_Tr; [exact H|]. intros s0 l _ H0. apply add_page_int_Tr. exact H0.
Qed.

Lemma add_pages_Tr : forall ls cr s, Inv18 s -> Tr (add_pages_w ls cr s) s (fst (add_pages ls cr s)).
Proof.
  intros ls cr s H. pose proof (add_pages_w_Tr ls cr s H) as T.
  rewrite <- (add_pages_fold_state cr ls s 0 []) in T. unfold add_pages.
  destruct (fold_left _ ls (s, 0, [])) as [[s1 n] c]. exact T.
Qed.

(* ---- webentities ---------------------------------------------------------------------- *)
Lemma create_webentity_Tr : forall ps s, Inv18 s ->
  Tr (create_webentity_w ps s) s (fst (create_webentity ps s)).
Proof.
  intros ps s H. pose proof (add_prefixes_Tr ps false s H) as T.
  unfold create_webentity_w, create_webentity.
  destruct (add_prefixes ps false s) as [s1 [| |w v]]; exact T.
Qed.

Lemma delete_webentity_Tr : forall w ps s, Inv18 s ->
  Tr (delete_webentity_w w ps s) s (fst (delete_webentity w ps s)).
Proof.
  intros w ps s H. unfold delete_webentity_w, delete_webentity.
  destruct (forallb _ ps); [|apply Tr_nil; exact H]. cbn [fst].
  rewrite (fold_pair (fun s p => set_tree (upd (set_we 0) (lru_iter p) (tr s)) s)
                     (fun s p => node_write p (set_tree (upd (set_we 0) (lru_iter p) (tr s)) s))).
  cbn [snd app].
  assert (Est : forall qs s0, set_tree (fold_left (fun t p => upd (set_we 0) (lru_iter p) t) qs (tr s0)) s0
                = fold_left (fun s p => set_tree (upd (set_we 0) (lru_iter p) (tr s)) s) qs s0).
  { induction qs as [|q qs IH]; intro s0; [destruct s0; reflexivity|].
    cbn [fold_left]. rewrite <- IH. reflexivity. }
  rewrite Est. apply flat_Tr; [exact H|].
  intros s0 p _ H0. apply node_write_upd_Tr; [exact H0|apply soft_set_we].
Qed.

Lemma add_prefix_Tr : forall p w s, Inv18 s -> Tr (add_prefix_w p w s) s (fst (add_prefix p w s)).
Proof.
  intros p w s H. unfold add_prefix_w.
  pose proof (add_lru_Tr true p s H) as T1. eapply Tr_app; [exact T1|]. apply Tr_inv in T1.
  unfold add_prefix. destruct (add_lru true p s) as [s1 h]. cbn [fst] in T1.
  destruct (find (lru_iter p) (tr s1)) as [d|]; [|apply Tr_nil; exact T1].
  destruct (we d =? 0); [|apply Tr_nil; exact T1]. cbn [fst].
  apply node_write_upd_Tr; [exact T1|apply soft_set_we].
Qed.

Lemma remove_prefix_Tr : forall p w s, Inv18 s -> Tr (remove_prefix_w p w s) s (fst (remove_prefix p w s)).
Proof.
  intros p w s H. unfold remove_prefix_w.
  pose proof (add_lru_Tr false p s H) as T1. eapply Tr_app; [exact T1|]. apply Tr_inv in T1.
  unfold remove_prefix. destruct (add_lru false p s) as [s1 h]. cbn [fst] in T1.
  destruct (find (lru_iter p) (tr s1)) as [d|]; [|apply Tr_nil; exact T1].
  destruct ((w =? 0) || (negb (we d =? 0) && (we d =? w))); [|apply Tr_nil; exact T1]. cbn [fst].
  apply node_write_upd_Tr; [exact T1|apply soft_set_we].
Qed.

Lemma move_prefix_Tr : forall p wt ws s, Inv18 s -> Tr (move_prefix_w p wt ws s) s (fst (move_prefix p wt ws s)).
Proof.
  intros p wt ws s H. unfold move_prefix_w, move_prefix.
  pose proof (remove_prefix_Tr p ws s H) as T1. eapply Tr_app; [exact T1|]. apply Tr_inv in T1.
  destruct (remove_prefix p ws s) as [s1 [| | |n c]]; cbn [fst] in *; try (apply Tr_nil; exact T1).
  apply add_prefix_Tr. exact T1.
Qed.

(* ---- creation rules ------------------------------------------------------------------- *)
Lemma add_rule_Tr : forall p k s, Inv18 s -> Tr (add_rule_w p k s) s (fst (add_rule p k true s)).
Proof.
  intros p k s H. unfold add_rule_w, add_rule. cbn [negb].
  set (s0 := mkT (tr s) (nb s) (lastwe s) (stubs s) (aset p k (rules s)) (dflt s)).
  assert (T0 : Tr [] s s0) by (apply Tr_ram; try reflexivity; exact H).
  pose proof (add_lru_Tr false p s0 (Tr_inv _ _ _ T0)) as T1.
  destruct (add_lru false p s0) as [s1 h]. cbn [fst] in T1.
  set (s2 := set_tree (upd (set_rule true) (lru_iter p) (tr s1)) s1).
  pose proof (node_write_upd_Tr (set_rule true) p s1 (Tr_inv _ _ _ T1) (soft_set_rule true)) as T2.
  fold s2 in T2.
  pose proof (add_pages_w_Tr (pages_under p s2) false s2 (Tr_inv _ _ _ T2)) as T3.
  rewrite <- (add_pages_fold_state false (pages_under p s2) s2 0 []) in T3.
  destruct (fold_left _ (pages_under p s2) (s2, 0, [])) as [[s3 n] c]. cbn [fst] in *.
  change (add_lru_w false p s0 ++ node_write p s2 ++ add_pages_w (pages_under p s2) false s2)
    with ([] ++ add_lru_w false p s0 ++ node_write p s2 ++ add_pages_w (pages_under p s2) false s2).
  eapply Tr_app; [exact T0|]. eapply Tr_app; [exact T1|]. eapply Tr_app; [exact T2|exact T3].
Qed.

Lemma remove_rule_Tr : forall p s, Inv18 s -> Tr (remove_rule_w p s) s (fst (remove_rule p s)).
Proof.
  intros p s H. unfold remove_rule_w, remove_rule.
  destruct (aget p (rules s)); [|apply Tr_nil; exact H].
  set (s0 := mkT (tr s) (nb s) (lastwe s) (stubs s) (adel p (rules s)) (dflt s)).
  assert (T0 : Tr [] s s0) by (apply Tr_ram; try reflexivity; exact H).
  destruct (find (lru_iter p) (tr s0)); cbn [fst]; [|exact T0].
  eapply (Tr_app []); [exact T0|].
  apply node_write_upd_Tr; [apply T0|apply soft_set_rule].
Qed.
