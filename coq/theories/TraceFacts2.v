(* TraceFacts2.v — C18, part 2: the write list of add_lru ([insw]) replayed on the files:
   it produces the blocks of the tree after [ins], and every write is safe in the files
   reached so far (a new block is appended before the block pointing to it is rewritten). *)
From Coq Require Import List NArith Bool Lia Arith Permutation Sorted.
Import ListNotations.
From Traph Require Import Bytes Consts Helpers Rules Tst TstDefs Traph Traphw Ops RefDefs
  TstFacts LinkFacts TraceDefs TraceFacts.
Open Scope N_scope.

Ltac perm :=
  apply (Permutation_count_occ pb_eq_dec);
  let x := fresh "x" in
  intro x;
  repeat (rewrite ?count_occ_app;
          match goal with
          | |- context [@count_occ _ pb_eq_dec (?y :: ?l) x] =>
              lazymatch l with
              | nil => fail
              | _ => change (@count_occ _ pb_eq_dec (y :: l) x) with (@count_occ _ pb_eq_dec ([y] ++ l) x)
              end
          end);
  repeat rewrite count_occ_app;
  change (@count_occ _ pb_eq_dec [] x) with O;
  lia.

(* ====================================================================== *)
(* Blocks                                                                 *)
(* ====================================================================== *)

Lemma flags_page : forall d, N.testbit (flags_of d) flag_page = page d.
Proof.
  intro d. unfold flags_of.
  destruct (page d), (crawled d), (rule d), (has_tail_of (stem d)), (nochild d); reflexivity.
Qed.
Lemma flags_crawled : forall d, N.testbit (flags_of d) flag_crawled = crawled d.
Proof.
  intro d. unfold flags_of.
  destruct (page d), (crawled d), (rule d), (has_tail_of (stem d)), (nochild d); reflexivity.
Qed.
Lemma flags_has_tail : forall d, N.testbit (flags_of d) flag_has_tail = has_tail_of (stem d).
Proof.
  intro d. unfold flags_of.
  destruct (page d), (crawled d), (rule d), (has_tail_of (stem d)), (nochild d); reflexivity.
Qed.
Lemma flags_is_tail : forall d, N.testbit (flags_of d) flag_is_tail = false.
Proof.
  intro d. unfold flags_of.
  destruct (page d), (crawled d), (rule d), (has_tail_of (stem d)), (nochild d); reflexivity.
Qed.

Lemma main_below : forall d d' la ra ca la' ra' ca',
  stem d = stem d' -> (page d = true -> page d' = true) -> (crawled d = true -> crawled d' = true) ->
  ptr_below la la' -> ptr_below ra ra' -> ptr_below ca ca' ->
  par d = par d' -> outh d <= outh d' -> inh d <= inh d' ->
  block_below (main_block d la ra ca) (main_block d' la' ra' ca').
Proof.
  intros d d' la ra ca la' ra' ca' Es Hp Hc Hl Hr Hcc Epar Ho Hi.
  unfold block_below, main_block, bit_below, head_below.
  cbn [b_stem b_flags b_left b_right b_child b_parent b_out b_in].
  rewrite !flags_page, !flags_crawled, !flags_has_tail, !flags_is_tail, Es.
  repeat split; auto.
Qed.

Lemma main_ok : forall nt nl d la ra ca,
  tptr_ok nt la -> tptr_ok nt ra -> tptr_ok nt ca -> tptr_ok nt (par d) ->
  lptr_ok nl (outh d) -> lptr_ok nl (inh d) ->
  block_ok nt nl (main_block d la ra ca).
Proof. intros. unfold block_ok, main_block. cbn. repeat split; assumption. Qed.

Lemma main_ok_inv : forall nt nl d la ra ca, block_ok nt nl (main_block d la ra ca) ->
  tptr_ok nt la /\ tptr_ok nt ra /\ tptr_ok nt ca /\ tptr_ok nt (par d) /\
  lptr_ok nl (outh d) /\ lptr_ok nl (inh d).
Proof. intros nt nl d la ra ca H. exact H. Qed.

Lemma tptr_ok_0 : forall n, tptr_ok n 0.
Proof. intro. left. reflexivity. Qed.
Lemma lptr_ok_0 : forall n, lptr_ok n 0.
Proof. intro. left. reflexivity. Qed.

Lemma tail_blocks_length : forall chs, length (tail_blocks chs) = length chs.
Proof. induction chs as [|c chs IH]; cbn [tail_blocks length]; congruence. Qed.

Lemma tail_blocks_ok : forall nt nl chs, Forall (block_ok nt nl) (tail_blocks chs).
Proof.
  intros nt nl. induction chs as [|c chs IH]; cbn [tail_blocks]; constructor; [|exact IH].
  unfold block_ok. cbn. repeat split; auto using tptr_ok_0, lptr_ok_0.
Qed.

Lemma node_blocks_length : forall d la ra ca,
  N.of_nat (length (node_blocks d la ra ca)) = nblk (stem d).
Proof.
  intros. unfold node_blocks, nblk. cbn [length]. rewrite tail_blocks_length. lia.
Qed.

(* ====================================================================== *)
(* States of a replay: address view + no dangling pointer                   *)
(* ====================================================================== *)

Definition St (P : list (N * tblock)) (n : N) (f : files) : Prop :=
  img P n (ft f) /\ no_dangling f.

Definition same_rest (f f' : files) : Prop := fhdr f' = fhdr f /\ fl f' = fl f.

Definition Run (ws : list wr) (f : files) (P : list (N * tblock)) (n : N) : Prop :=
  St P n (apply_all ws f) /\ safe_all ws f /\ same_rest f (apply_all ws f).

Lemma St_perm : forall P Q n f, Permutation P Q -> St P n f -> St Q n f.
Proof. intros P Q n f Hp [Hi Hn]. split; [eapply img_perm; eauto|exact Hn]. Qed.

Lemma St_tptr : forall P n f a b, St P n f -> In (a, b) P -> tptr_ok (length (ft f)) a.
Proof.
  intros P n f a b [Hi _] Hin. destruct (img_In _ _ _ _ _ Hi Hin) as (i & -> & _ & Hlt).
  right. exists i. auto.
Qed.

Lemma St_block : forall P n f a b, St P n f -> In (a, b) P ->
  block_ok (length (ft f)) (length (fl f)) b.
Proof.
  intros P n f a b [Hi [Hb _]] Hin. destruct (img_In _ _ _ _ _ Hi Hin) as (i & _ & E & _).
  apply Hb. eapply nth_error_In; eauto.
Qed.

Lemma Run_nil : forall P n f, St P n f -> Run [] f P n.
Proof. intros P n f H. split; [exact H|]. split; [exact I|split; reflexivity]. Qed.

Lemma Run_perm : forall ws f P Q n, Permutation P Q -> Run ws f P n -> Run ws f Q n.
Proof. intros ws f P Q n Hp (H1 & H2 & H3). split; [eapply St_perm; eauto|auto]. Qed.

Lemma Run_app : forall ws1 ws2 f P1 n1 P2 n2,
  Run ws1 f P1 n1 -> Run ws2 (apply_all ws1 f) P2 n2 -> Run (ws1 ++ ws2) f P2 n2.
Proof.
  intros ws1 ws2 f P1 n1 P2 n2 (S1 & A1 & [R1 R1']) (S2 & A2 & [R2 R2']).
  rewrite <- apply_all_app in *. split; [exact S2|]. split.
  - apply safe_all_app. rewrite apply_all_app in *. auto.
  - split; congruence.
Qed.

Lemma Run_set : forall P1 P2 a old b n f,
  St (P1 ++ [(a, old)] ++ P2) n f -> block_below old b ->
  block_ok (length (ft f)) (length (fl f)) b ->
  Run [TSet a b] f (P1 ++ [(a, b)] ++ P2) n.
Proof.
  intros P1 P2 a old b n f [Hi Hn] Hbel Hok.
  destruct (img_In _ _ _ a old Hi) as (k & Ea & Ek & Hk).
  { apply in_app_iff. right. left. reflexivity. }
  assert (Hs : safe_write f (TSet a b)) by (exists k, old; auto).
  destruct (safe_write_step f _ Hn Hs) as [Hn' _].
  split; [|split].
  - split; [|exact Hn']. cbn [apply_all fold_left apply ft]. eapply img_set. exact Hi.
  - cbn. auto.
  - split; reflexivity.
Qed.

Lemma Run_set' : forall P Q1 Q2 R a old b n f,
  St P n f -> Permutation P (Q1 ++ [(a, old)] ++ Q2) -> block_below old b ->
  block_ok (length (ft f)) (length (fl f)) b ->
  Permutation (Q1 ++ [(a, b)] ++ Q2) R ->
  Run [TSet a b] f R n.
Proof.
  intros P Q1 Q2 R a old b n f HSt Hp1 Hbel Hok Hp2.
  eapply Run_perm; [exact Hp2|]. eapply Run_set; eauto. eapply St_perm; eauto.
Qed.

Lemma apply_apps : forall bs f,
  apply_all (map TApp bs) f = mkFiles (ft f ++ bs) (fhdr f) (fl f).
Proof.
  induction bs as [|b bs IH]; intro f.
  - cbn. rewrite app_nil_r. destruct f; reflexivity.
  - cbn [map]. rewrite apply_all_cons, IH. cbn [apply ft fhdr fl]. rewrite <- app_assoc. reflexivity.
Qed.

Lemma safe_apps : forall bs f, Forall (block_ok (length (ft f)) (length (fl f))) bs ->
  safe_all (map TApp bs) f.
Proof.
  induction bs as [|b bs IH]; intros f H; [exact I|].
  inversion H as [|b' bs' Hb Hbs]; subst. cbn [map safe_all]. split; [exact Hb|].
  apply IH. cbn [apply ft fl]. rewrite app_length.
  eapply Forall_impl; [|exact Hbs]. intros x Hx. eapply block_ok_mono; [| |exact Hx]; lia.
Qed.

Lemma Run_apps : forall bs P n f, St P n f -> 1 <= n ->
  Forall (block_ok (length (ft f)) (length (fl f))) bs ->
  Run (map TApp bs) f (P ++ number_from (n * bsz) bs) (n + N.of_nat (length bs)).
Proof.
  intros bs P n f [Hi Hn] Hn1 Hbs.
  pose proof (safe_apps bs f Hbs) as Hs.
  destruct (safe_all_end _ _ Hn Hs) as [Hn' _].
  split; [|split].
  - split; [|exact Hn']. rewrite apply_apps. cbn [ft]. apply img_app_list; assumption.
  - exact Hs.
  - rewrite apply_apps. split; reflexivity.
Qed.

Lemma new_blocks_eq : forall d, new_blocks d = map TApp (node_blocks d 0 0 0).
Proof. reflexivity. Qed.

Lemma Run_new : forall d P n f, St P n f -> 1 <= n ->
  tptr_ok (length (ft f)) (par d) -> outh d = 0 -> inh d = 0 ->
  Run (new_blocks d) f (P ++ number_from (n * bsz) (node_blocks d 0 0 0)) (n + nblk (stem d)).
Proof.
  intros d P n f HSt Hn Hpa Ho Hi. rewrite new_blocks_eq, <- (node_blocks_length d 0 0 0).
  apply Run_apps; try assumption.
  unfold node_blocks. constructor; [|apply tail_blocks_ok].
  apply main_ok; rewrite ?Ho, ?Hi; auto using tptr_ok_0, lptr_ok_0.
Qed.

(* ====================================================================== *)
(* insw                                                                    *)
(* ====================================================================== *)

Definition ctxblock (cx : ctx) (a : N) : list (N * tblock) :=
  match cx with
  | CRoot => []
  | CSib pd la ra ca isleft =>
      [(addr pd, main_block pd (if isleft then a else la) (if isleft then ra else a) ca)]
  | CChild pd la ra => [(addr pd, main_block pd la ra a)]
  end.

Definition dnew (flag : bool) (rest : list bytes) (s : bytes) (pa nb : N) : nd :=
  mkNd (nb * bsz) pa s false false false (negb (flag && nonempty rest)) 0 0 0.

Definition here_w (flag : bool) (rest : list bytes) (s : bytes) (pa nb : N) (cx : ctx) : list wr :=
  let a := nb * bsz in
  let clear := flag && nonempty rest in
  let dfinal := dnew flag rest s pa nb in
  match cx with
  | CChild pd la ra => new_blocks dfinal ++ [TSet (addr pd) (main_block pd la ra a)]
  | CSib pd la ra ca isleft =>
      new_blocks (set_nochild true dfinal)
        ++ [TSet (addr pd) (main_block pd (if isleft then a else la) (if isleft then ra else a) ca)]
        ++ (if clear then [TSet a (main_block dfinal 0 0 0)] else [])
  | CRoot =>
      new_blocks (set_nochild true dfinal)
        ++ (if clear then [TSet a (main_block dfinal 0 0 0)] else [])
  end.

Lemma insw_nil : forall flag pa nb cx t, insw flag [] pa nb cx t = [].
Proof. reflexivity. Qed.

Lemma insw_Lf : forall flag s rest pa nb cx,
  insw flag (s :: rest) pa nb cx Lf =
  here_w flag rest s pa nb cx
    ++ insw flag rest (nb * bsz) (nb + nblk s) (CChild (dnew flag rest s pa nb) 0 0) Lf.
Proof. intros. destruct cx; reflexivity. Qed.

Lemma insw_Nd : forall flag s rest pa nb cx d l c r,
  insw flag (s :: rest) pa nb cx (Nd d l c r) =
  match lex s (stem d) with
  | Eq =>
      let d' := if flag && nonempty rest then set_nochild false d else d in
      (if flag && nonempty rest && nochild d
       then [TSet (addr d) (main_block d' (root_addr l) (root_addr r) (root_addr c))] else [])
        ++ insw flag rest (addr d) nb (CChild d' (root_addr l) (root_addr r)) c
  | Lt => insw flag (s :: rest) pa nb (CSib d (root_addr l) (root_addr r) (root_addr c) true) l
  | Gt => insw flag (s :: rest) pa nb (CSib d (root_addr l) (root_addr r) (root_addr c) false) r
  end.
Proof. reflexivity. Qed.

Lemma set_nochild_same : forall d b, nochild d = b -> set_nochild b d = d.
Proof. intros [a p s pg cr ru nc w o i] b E. cbn in E. subst. reflexivity. Qed.

(* the writes creating one node: its blocks, the pointer of the block above, the bit *)
Lemma here_run : forall flag rest s pa nb cx O f,
  1 <= nb -> tptr_ok (length (ft f)) pa ->
  St (O ++ ctxblock cx 0) nb f ->
  Run (here_w flag rest s pa nb cx) f
      (O ++ ctxblock cx (nb * bsz) ++ number_from (nb * bsz) (node_blocks (dnew flag rest s pa nb) 0 0 0))
      (nb + nblk s).
Proof.
  intros flag rest s pa nb cx O f Hnb Hpa HSt.
  set (a := nb * bsz). set (dfin := dnew flag rest s pa nb).
  assert (Hclr : forall P f1,
    St (P ++ number_from a (node_blocks (set_nochild true dfin) 0 0 0)) (nb + nblk s) f1 ->
    Run (if flag && nonempty rest then [TSet a (main_block dfin 0 0 0)] else []) f1
        (P ++ number_from a (node_blocks dfin 0 0 0)) (nb + nblk s)).
  { intros P f1 H1. destruct (flag && nonempty rest) eqn:Ecl.
    - unfold node_blocks in *. cbn [number_from] in *.
      change (stem (set_nochild true dfin)) with (stem dfin) in H1.
      eapply (Run_set' _ P (number_from (a + bsz) (tail_blocks (stem_tail_chunks (stem dfin)))) _
                a (main_block (set_nochild true dfin) 0 0 0)); [exact H1| | | |].
      + perm.
      + apply main_below; try reflexivity; auto using ptr_below_refl; cbn; try lia; auto.
      + assert (Hin : In (a, main_block (set_nochild true dfin) 0 0 0)
                         (P ++ (a, main_block (set_nochild true dfin) 0 0 0)
                            :: number_from (a + bsz) (tail_blocks (stem_tail_chunks (stem dfin))))).
        { apply in_app_iff. right. left. reflexivity. }
        exact (St_block _ _ _ _ _ H1 Hin).
      + perm.
    - apply Run_nil. rewrite set_nochild_same in H1; [exact H1|].
      unfold dfin, dnew. cbn [nochild]. rewrite Ecl. reflexivity. }
  destruct cx as [|pd la ra ca isleft|pd la ra]; unfold here_w; cbn [ctxblock app] in *; fold a; fold dfin.
  - (* CRoot *)
    rewrite app_nil_r in HSt.
    assert (H1 : Run (new_blocks (set_nochild true dfin)) f
                   (O ++ number_from a (node_blocks (set_nochild true dfin) 0 0 0)) (nb + nblk s)).
    { apply (Run_new (set_nochild true dfin)); try assumption; reflexivity. }
    eapply Run_app; [exact H1|]. destruct H1 as (S1 & _ & _).
    apply Hclr. exact S1.
  - (* CSib *)
    assert (H1 : Run (new_blocks (set_nochild true dfin)) f
                   ((O ++ [(addr pd, main_block pd (if isleft then 0 else la) (if isleft then ra else 0) ca)])
                      ++ number_from a (node_blocks (set_nochild true dfin) 0 0 0)) (nb + nblk s)).
    { apply (Run_new (set_nochild true dfin)); try assumption; reflexivity. }
    eapply Run_app; [exact H1|]. destruct H1 as (S1 & _ & _).
    set (f1 := apply_all (new_blocks (set_nochild true dfin)) f) in *.
    set (NB := number_from a (node_blocks (set_nochild true dfin) 0 0 0)) in *.
    assert (Hold : block_ok (length (ft f1)) (length (fl f1))
                     (main_block pd (if isleft then 0 else la) (if isleft then ra else 0) ca)).
    { eapply (St_block _ _ _ (addr pd)); [exact S1|]. rewrite !in_app_iff. left. right. left. reflexivity. }
    assert (Ha : tptr_ok (length (ft f1)) a).
    { eapply (St_tptr _ _ _ a (main_block (set_nochild true dfin) 0 0 0)); [exact S1|].
      rewrite in_app_iff. right. left. reflexivity. }
    apply main_ok_inv in Hold. destruct Hold as (Hl & Hr & Hc & Hp & Ho & Hi).
    assert (H2 : Run [TSet (addr pd) (main_block pd (if isleft then a else la) (if isleft then ra else a) ca)] f1
                   (O ++ [(addr pd, main_block pd (if isleft then a else la) (if isleft then ra else a) ca)] ++ NB)
                   (nb + nblk s)).
    { eapply (Run_set' _ O NB _ (addr pd) (main_block pd (if isleft then 0 else la) (if isleft then ra else 0) ca));
        [exact S1| | | |].
      - perm.
      - apply main_below; auto using ptr_below_refl; try lia;
          destruct isleft; auto using ptr_below_refl; left; reflexivity.
      - apply main_ok; auto; destruct isleft; auto.
      - perm. }
    eapply (Run_app [_]); [exact H2|]. destruct H2 as (S2 & _ & _).
    eapply Run_perm; [|apply (Hclr (O ++ [(addr pd, main_block pd (if isleft then a else la) (if isleft then ra else a) ca)]))].
    + perm.
    + eapply St_perm; [|exact S2]. perm.
  - (* CChild *)
    assert (H1 : Run (new_blocks dfin) f
                   ((O ++ [(addr pd, main_block pd la ra 0)]) ++ number_from a (node_blocks dfin 0 0 0))
                   (nb + nblk s)).
    { apply (Run_new dfin); try assumption; reflexivity. }
    eapply Run_app; [exact H1|]. destruct H1 as (S1 & _ & _).
    set (f1 := apply_all (new_blocks dfin) f) in *.
    set (NB := number_from a (node_blocks dfin 0 0 0)) in *.
    assert (Hold : block_ok (length (ft f1)) (length (fl f1)) (main_block pd la ra 0)).
    { eapply (St_block _ _ _ (addr pd)); [exact S1|]. rewrite !in_app_iff. left. right. left. reflexivity. }
    assert (Ha : tptr_ok (length (ft f1)) a).
    { eapply (St_tptr _ _ _ a (main_block dfin 0 0 0)); [exact S1|].
      rewrite in_app_iff. right. left. reflexivity. }
    apply main_ok_inv in Hold. destruct Hold as (Hl & Hr & Hc & Hp & Ho & Hi).
    eapply (Run_set' _ O NB _ (addr pd) (main_block pd la ra 0)); [exact S1| | | |].
    + perm.
    + apply main_below; auto using ptr_below_refl; try lia. left. reflexivity.
    + apply main_ok; auto.
    + perm.
Qed.

Lemma addr_nochild_if : forall (b : bool) d, addr (if b then set_nochild false d else d) = addr d.
Proof. intros [|] d; reflexivity. Qed.

Lemma main_nochild_if : forall (b : bool) d la ra ca, b && nochild d = false ->
  main_block (if b then set_nochild false d else d) la ra ca = main_block d la ra ca.
Proof.
  intros [|] d la ra ca H; [|reflexivity]. cbn in H.
  rewrite set_nochild_same by exact H. reflexivity.
Qed.

(* A2, generalised over the position in the tree: [O] holds the blocks outside the
   subtree [t] and outside the block of the context node *)
Lemma insw_run : forall flag stems pre pa nb h cx t O f,
  1 <= nb -> tptr_ok (length (ft f)) pa ->
  St (O ++ ctxblock cx (root_addr t) ++ placed t) nb f ->
  Run (insw flag stems pa nb cx t) f
      (O ++ ctxblock cx (root_addr (ins_t flag stems pre pa nb h t))
         ++ placed (ins_t flag stems pre pa nb h t))
      (ins_nb flag stems pre pa nb h t).
Proof.
  intros flag stems.
  induction stems as [|s rest IH]; intros pre pa nb h cx t O f Hnb Hpa HSt.
  { rewrite insw_nil, ins_t_nil, ins_nb_nil. apply Run_nil. exact HSt. }
  revert cx O f Hpa HSt.
  induction t as [|d l IHl c _ r IHr]; intros cx O f Hpa HSt.
  - (* a new node *)
    rewrite insw_Lf, ins_t_Lf, ins_nb_Lf.
    cbn [placed root_addr] in HSt. rewrite app_nil_r in HSt.
    pose proof (here_run flag rest s pa nb cx O f Hnb Hpa HSt) as H1.
    eapply Run_app; [exact H1|]. destruct H1 as (S1 & _ & _).
    set (f1 := apply_all (here_w flag rest s pa nb cx) f) in *.
    fold (dnew flag rest s pa nb).
    set (dfin := dnew flag rest s pa nb) in *.
    set (a := nb * bsz) in *.
    set (TL := number_from (a + bsz) (tail_blocks (stem_tail_chunks s))).
    assert (Ha : tptr_ok (length (ft f1)) a).
    { eapply (St_tptr _ _ _ a (main_block dfin 0 0 0)); [exact S1|].
      rewrite !in_app_iff. right. right. left. reflexivity. }
    eapply Run_perm; [|apply (IH (pre ++ s) a (nb + nblk s) h (CChild dfin 0 0) Lf (O ++ ctxblock cx a ++ TL))].
    + cbn [placed root_addr addr dfin dnew ctxblock node_blocks number_from stem]. fold a. fold dfin.
      change (stem dfin) with s. fold TL. perm.
    + pose proof (nblk_pos s). lia.
    + exact Ha.
    + eapply St_perm; [|exact S1].
      cbn [placed root_addr addr dfin dnew ctxblock node_blocks number_from]. fold a. fold dfin.
      change (stem dfin) with s. fold TL. perm.
  - rewrite insw_Nd, ins_t_Nd, ins_nb_Nd.
    set (la := root_addr l) in *. set (ra := root_addr r) in *. set (ca := root_addr c) in *.
    set (TL := number_from (addr d + bsz) (tail_blocks (stem_tail_chunks (stem d)))).
    assert (HP : placed (Nd d l c r) = [(addr d, main_block d la ra ca)] ++ TL ++ placed c ++ placed l ++ placed r)
      by reflexivity.
    rewrite HP in HSt. cbn [root_addr] in HSt.
    destruct (lex s (stem d)) eqn:E.
    + (* the stem is there: clear the bit if needed, go down *)
      cbv zeta.
      set (d' := if flag && nonempty rest then set_nochild false d else d).
      assert (Ea : addr d' = addr d) by apply addr_nochild_if.
      assert (Es : stem d' = stem d) by apply stem_nochild_if.
      set (O' := O ++ ctxblock cx (addr d) ++ TL ++ placed l ++ placed r).
      assert (HSt0 : St (O' ++ [(addr d, main_block d la ra ca)] ++ placed c) nb f).
      { eapply St_perm; [|exact HSt]. unfold O'. perm. }
      assert (H1 : Run (if flag && nonempty rest && nochild d
                        then [TSet (addr d) (main_block d' la ra ca)] else []) f
                       (O' ++ [(addr d, main_block d' la ra ca)] ++ placed c) nb).
      { destruct (flag && nonempty rest && nochild d) eqn:Ecl.
        - assert (Hold : block_ok (length (ft f)) (length (fl f)) (main_block d la ra ca)).
          { eapply (St_block _ _ _ (addr d)); [exact HSt0|]. rewrite !in_app_iff. right. left. left. reflexivity. }
          eapply Run_set; [exact HSt0| |].
          + apply main_below; auto using ptr_below_refl; unfold d';
              destruct (flag && nonempty rest); cbn; auto; lia.
          + apply main_ok_inv in Hold. destruct Hold as (Hl & Hr & Hc & Hp & Ho & Hi).
            apply main_ok; auto; unfold d'; destruct (flag && nonempty rest); auto.
        - apply Run_nil. unfold d'. rewrite main_nochild_if by exact Ecl. exact HSt0. }
      eapply Run_app; [exact H1|]. destruct H1 as (S1 & _ & _).
      match type of S1 with St _ _ ?g => set (f1 := g) in * end.
      eapply Run_perm; [|apply (IH (pre ++ s) (addr d) nb (visit d (pre ++ s) h) (CChild d' la ra) c O')].
      * cbn [placed root_addr ctxblock node_blocks number_from]. rewrite Ea, Es.
        fold la. fold ra. fold TL. unfold O'. perm.
      * exact Hnb.
      * eapply (St_tptr _ _ _ (addr d)); [exact S1|]. rewrite !in_app_iff. right. left. left. reflexivity.
      * cbn [ctxblock]. rewrite Ea. exact S1.
    + (* left *)
      eapply Run_perm; [|apply (IHl (CSib d la ra ca true) (O ++ ctxblock cx (addr d) ++ TL ++ placed c ++ placed r))].
      * cbn [placed root_addr ctxblock node_blocks number_from]. fold ra. fold ca. fold TL. perm.
      * exact Hpa.
      * eapply St_perm; [|exact HSt]. cbn [ctxblock]. fold la. perm.
    + (* right *)
      eapply Run_perm; [|apply (IHr (CSib d la ra ca false) (O ++ ctxblock cx (addr d) ++ TL ++ placed c ++ placed l))].
      * cbn [placed root_addr ctxblock node_blocks number_from]. fold la. fold ca. fold TL. perm.
      * exact Hpa.
      * eapply St_perm; [|exact HSt]. cbn [ctxblock]. fold ra. perm.
Qed.
