(* CutFacts2.v — C18, part 8: the files of every reachable state are [ordered]
   (K2): a node's block lies after the block of the node pointing to it (left / right /
   child registers) and after its parent; tail blocks follow the block announcing them
   and no announced tail is missing ([closed]).  The ordering needs one more state
   invariant ([OQ]), preserved by every request.  Last part: on such files the block-level
   page scan lists exactly the pages of the tree. *)
From Coq Require Import List NArith Bool Lia Arith.
Import ListNotations.
From Traph Require Import Bytes Consts Helpers Rules Tst TstDefs Traph Traphw Ops RefDefs
  TstFacts LinkFacts TraceDefs TraceFacts TraceFacts2 TraceFacts3 TraceFacts6 Store StoreFacts CutFacts.
Open Scope N_scope.

(* ====================================================================== *)
(* The tree invariant: addresses increase along l / c / r and from parents   *)
(* ====================================================================== *)
Fixpoint ordt (lb n : N) (t : tst) : Prop :=
  match t with
  | Lf => True
  | Nd d l c r => lb < addr d /\ par d < addr d /\ addr d < n * bsz /\
                  ordt (addr d) n l /\ ordt (addr d) n c /\ ordt (addr d) n r
  end.
Definition ord_ok (t : tst) (n : N) : Prop := 1 <= n /\ ordt 0 n t.
Definition OQ (s : traph) : Prop := ord_ok (tr s) (nb s).

Lemma ord_ok_empty : ord_ok Lf 1.
Proof. split; [lia|exact I]. Qed.

Lemma ordt_mono : forall t lb n m, n <= m -> ordt lb n t -> ordt lb m t.
Proof.
  induction t as [|d l IHl c IHc r IHr]; intros lb n m Hnm H; [exact I|].
  cbn [ordt] in *. destruct H as (H1 & H2 & H3 & H4 & H5 & H6).
  repeat split; eauto. rewrite bsz_val in *. lia.
Qed.

Lemma nblk_pos : forall s, 1 <= nblk s.
Proof. intro s. unfold nblk. lia. Qed.

Lemma ordt_ins : forall flag ss pre pa n h t lb, ordt lb n t -> lb < n * bsz -> pa < n * bsz ->
  ordt lb (ins_nb flag ss pre pa n h t) (ins_t flag ss pre pa n h t).
Proof.
  intros flag ss. induction ss as [|s rest IHss]; intros pre pa n h t lb Ht Hlb Hpa.
  - rewrite ins_nb_nil, ins_t_nil. exact Ht.
  - revert lb Ht Hlb. induction t as [|d l IHl c _ r IHr]; intros lb Ht Hlb.
    + rewrite ins_t_Lf, ins_nb_Lf. cbn [ordt addr par].
      pose proof (ins_nb_mono flag rest (pre ++ s) (n * bsz) (n + nblk s) h Lf) as Hm.
      pose proof (nblk_pos s) as Hk.
      assert (Hlt : n * bsz < (n + nblk s) * bsz) by (rewrite bsz_val; lia).
      split; [exact Hlb|]. split; [exact Hpa|]. split; [rewrite bsz_val in *; lia|].
      split; [exact I|]. split; [|exact I].
      apply IHss; [exact I|exact Hlt|exact Hlt].
    + rewrite ins_t_Nd, ins_nb_Nd. cbn [ordt] in Ht. destruct Ht as (H1 & H2 & H3 & H4 & H5 & H6).
      destruct (lex s (stem d)).
      * pose proof (ins_nb_mono flag rest (pre ++ s) (addr d) n (visit d (pre ++ s) h) c) as Hm.
        cbn [ordt]. rewrite addr_nochild_if, par_nochild_if.
        split; [exact H1|]. split; [exact H2|]. split; [rewrite bsz_val in *; lia|].
        split; [eapply ordt_mono; eauto|]. split; [|eapply ordt_mono; eauto].
        apply IHss; assumption.
      * pose proof (ins_nb_mono flag (s :: rest) pre pa n h l) as Hm.
        cbn [ordt]. split; [exact H1|]. split; [exact H2|]. split; [rewrite bsz_val in *; lia|].
        split; [apply IHl; assumption|]. split; eapply ordt_mono; eauto.
      * pose proof (ins_nb_mono flag (s :: rest) pre pa n h r) as Hm.
        cbn [ordt]. split; [exact H1|]. split; [exact H2|]. split; [rewrite bsz_val in *; lia|].
        split; [eapply ordt_mono; eauto|]. split; [eapply ordt_mono; eauto|]. apply IHr; assumption.
Qed.

Lemma ord_ok_ins : forall flag ss pre n h t, ord_ok t n ->
  ord_ok (ins_t flag ss pre 0 n h t) (ins_nb flag ss pre 0 n h t).
Proof.
  intros flag ss pre n h t [Hn Ht]. pose proof (ins_nb_mono flag ss pre 0 n h t) as Hm.
  split; [lia|]. apply ordt_ins; [exact Ht| |]; rewrite bsz_val; lia.
Qed.

(* rewrites of a node that keep its place *)
Definition kp (f : nd -> nd) : Prop := forall d, addr (f d) = addr d /\ par (f d) = par d.
Ltac kpt := intro; split; reflexivity.

Lemma ordt_upd : forall f p t lb n, kp f -> ordt lb n t -> ordt lb n (upd f p t).
Proof.
  intros f p. induction p as [|s rest IHp]; intros t lb n Hf Ht; [exact Ht|].
  revert lb Ht. induction t as [|d l IHl c _ r IHr]; intros lb Ht; [rewrite upd_Lf; exact I|].
  rewrite upd_Nd. cbn [ordt] in Ht. destruct Ht as (H1 & H2 & H3 & H4 & H5 & H6).
  destruct (lex s (stem d)).
  - destruct rest as [|s2 rest2]; cbn [ordt].
    + destruct (Hf d) as [-> ->]. repeat split; assumption.
    + repeat split; try assumption. apply IHp; assumption.
  - cbn [ordt]. repeat split; try assumption. apply IHl; assumption.
  - cbn [ordt]. repeat split; try assumption. apply IHr; assumption.
Qed.

Lemma ord_ok_upd : forall f p t n, kp f -> ord_ok t n -> ord_ok (upd f p t) n.
Proof. intros f p t n Hf [Hn Ht]. split; [exact Hn|apply ordt_upd; assumption]. Qed.

(* ====================================================================== *)
(* The invariant along every request (same skeleton as StoreFacts2)         *)
(* ====================================================================== *)
Lemma OQ_ram : forall s s', tr s' = tr s -> nb s' = nb s -> OQ s -> OQ s'.
Proof. intros s s' E1 E2 H. unfold OQ in *. rewrite E1, E2. exact H. Qed.

Lemma add_lru_OQ : forall flag l s, OQ s -> OQ (fst (add_lru flag l s)).
Proof.
  intros flag l s H. unfold OQ, add_lru.
  pose proof (ord_ok_ins flag (lru_iter l) [] (nb s) hist0 (tr s) H) as H1.
  unfold ins_t, ins_nb in H1.
  destruct (ins flag (lru_iter l) [] 0 (nb s) hist0 (tr s)) as [[t' nb'] h']. exact H1.
Qed.

Lemma set_tree_upd_OQ : forall f p s, kp f -> OQ s ->
  OQ (set_tree (upd f p (tr s)) s).
Proof. intros f p s Hf H. unfold OQ. cbn [set_tree set_tr tr nb]. apply ord_ok_upd; assumption. Qed.

Lemma fold_pres_o : forall (A B : Type) (P : A -> Prop) (f : A -> B -> A) l a,
  (forall a b, P a -> P (f a b)) -> P a -> P (fold_left f l a).
Proof.
  intros A B P f l. induction l as [|b l IH]; intros a Hf Ha; [exact Ha|].
  cbn [fold_left]. apply IH; [exact Hf|apply Hf; exact Ha].
Qed.

Lemma store_links_OQ : forall out p tgs s, OQ s -> OQ (store_links out p tgs s).
Proof.
  intros out p tgs s H. unfold store_links. destruct tgs as [|t0 tgs]; [exact H|].
  destruct (find p (tr s)) as [d|]; [|exact H].
  destruct (push_stubs (t0 :: tgs) (if out then outh d else inh d) (stubs s)) as [st' h'].
  unfold OQ. cbn [tr nb]. apply ord_ok_upd; [|exact H]. intro d0. destruct out; split; reflexivity.
Qed.

Lemma trie_add_page_OQ : forall l cr s, OQ s -> OQ (fst (fst (trie_add_page l cr s))).
Proof.
  intros l cr s H. unfold trie_add_page.
  pose proof (add_lru_OQ false l s H) as H1.
  destruct (add_lru false l s) as [s1 h]. cbn [fst] in H1.
  destruct (find (lru_iter l) (tr s1)) as [d|]; [|exact H1].
  destruct (page d).
  - destruct (cr && negb (crawled d)); cbn [fst]; [|exact H1].
    apply set_tree_upd_OQ; [kpt|exact H1].
  - cbn [fst]. apply set_tree_upd_OQ; [|exact H1]. intro d0. destruct cr; split; reflexivity.
Qed.

Lemma walk_prefixes_OQ : forall ps s ninv valid, OQ s -> OQ (fst (fst (walk_prefixes ps s ninv valid))).
Proof.
  induction ps as [|p ps IH]; intros s ninv valid H; [exact H|].
  cbn [walk_prefixes].
  pose proof (add_lru_OQ true p s H) as H1.
  destruct (add_lru true p s) as [s1 h]. cbn [fst] in H1.
  destruct (find (lru_iter p) (tr s1)) as [d|].
  - destruct (we d =? 0); apply IH; exact H1.
  - apply IH; exact H1.
Qed.

Lemma set_we_all_ord : forall w ps t n, ord_ok t n -> ord_ok (set_we_all w ps t) n.
Proof.
  intros w ps t n H. unfold set_we_all.
  apply (fold_pres_o _ _ (fun t => ord_ok t n)); [|exact H].
  intros t0 p H0. apply ord_ok_upd; [kpt|exact H0].
Qed.

Lemma add_prefixes_OQ : forall ps best s, OQ s -> OQ (fst (add_prefixes ps best s)).
Proof.
  intros ps best s H. unfold add_prefixes.
  pose proof (walk_prefixes_OQ ps s 0%nat [] H) as H1.
  destruct (walk_prefixes ps s 0 []) as [[s1 ninv] valid]. cbn [fst] in H1.
  destruct (negb (Nat.eqb ninv 0) && negb best); [exact H1|].
  destruct (Nat.eqb ninv (length ps)); [exact H1|]. cbn [fst].
  unfold OQ. cbn [tr nb]. apply set_we_all_ord. exact H1.
Qed.

Lemma create_from_OQ : forall p s, OQ s -> OQ (fst (create_from p s)).
Proof.
  intros p s H. unfold create_from.
  pose proof (add_prefixes_OQ (lru_variations p) true s H) as H1.
  destruct (add_prefixes (lru_variations p) true s) as [s1 [| |w valid]]; exact H1.
Qed.

Lemma add_page_int_OQ : forall l cr s, OQ s -> OQ (fst (fst (add_page_int l cr s))).
Proof.
  intros l cr s H. unfold add_page_int.
  pose proof (trie_add_page_OQ l cr s H) as H1.
  destruct (trie_add_page l cr s) as [[s1 h] created]. cbn [fst] in H1.
  destruct (decide s1 l h) as [|p|]; try exact H1.
  pose proof (create_from_OQ p s1 H1) as H2.
  destruct (create_from p s1) as [s2 c]. exact H2.
Qed.

Lemma add_page_OQ : forall l cr s, OQ s -> OQ (fst (add_page l cr s)).
Proof.
  intros l cr s H. unfold add_page. pose proof (add_page_int_OQ l cr s H) as H1.
  destruct (add_page_int l cr s) as [[s1 n] c]. exact H1.
Qed.

Lemma pages_fold_OQ : forall cr ls (x : traph * N * list (N * list bytes)), OQ (fst (fst x)) ->
  OQ (fst (fst (fold_left (fun '(s, n, c) l => let '(s', n', c') := add_page_int l cr s in (s', n + n', c ++ c'))
                         ls x))).
Proof.
  intros cr ls x H.
  apply (fold_pres_o _ _ (fun x : traph * N * list (N * list bytes) => OQ (fst (fst x)))); [|exact H].
  intros [[s n] c] l Ha. cbn [fst] in Ha. pose proof (add_page_int_OQ l cr s Ha) as H1.
  destruct (add_page_int l cr s) as [[s' n'] c']. exact H1.
Qed.

Lemma add_pages_OQ : forall ls cr s, OQ s -> OQ (fst (add_pages ls cr s)).
Proof.
  intros ls cr s H. unfold add_pages.
  pose proof (pages_fold_OQ cr ls (s, 0, []) H) as H1.
  destruct (fold_left _ ls (s, 0, [])) as [[s1 n] c]. exact H1.
Qed.

Lemma flush_links_OQ : forall out mm s, OQ s -> OQ (flush_links out mm s).
Proof.
  intros out mm s H. unfold flush_links. apply (fold_pres_o _ _ OQ); [|exact H].
  intros s0 [p others] H0. apply store_links_OQ. exact H0.
Qed.

Lemma add_links_OQ : forall links s, OQ s -> OQ (fst (add_links links s)).
Proof.
  intros links s H. unfold add_links.
  match goal with |- context [fold_left ?f links ?x0] =>
    assert (H1 : OQ (fst (fst (fst (fst (fst (fold_left f links x0))))))) end.
  { apply (fold_pres_o _ _ (fun x : traph * N * list (N * list bytes) * list bytes
                                   * list (bytes * list bytes) * list (bytes * list bytes)
                          => OQ (fst (fst (fst (fst (fst x))))))); [|exact H].
    intros [[[[[s0 n0] c0] seen0] outs0] ins0] [a b] Ha. cbn [fst] in Ha.
    destruct (mem_bytes a seen0).
    - destruct (mem_bytes b seen0); [exact Ha|].
      pose proof (add_page_int_OQ b false s0 Ha) as H2.
      destruct (add_page_int b false s0) as [[s' n'] c']. exact H2.
    - pose proof (add_page_int_OQ a false s0 Ha) as H2.
      destruct (add_page_int a false s0) as [[s' n'] c']. cbn [fst] in H2.
      destruct (mem_bytes b (a :: seen0)); [exact H2|].
      pose proof (add_page_int_OQ b false s' H2) as H3.
      destruct (add_page_int b false s') as [[s'' n''] c'']. exact H3. }
  destruct (fold_left _ links _) as [[[[[s1 n] c] seen] outs] ins]. cbn [fst] in *.
  apply flush_links_OQ, flush_links_OQ. exact H1.
Qed.

Lemma batch_crawl_OQ : forall data s, OQ s -> OQ (fst (batch_crawl data s)).
Proof.
  intros data s H. unfold batch_crawl.
  match goal with |- context [fold_left ?f data ?x0] =>
    assert (H1 : OQ (fst (fst (fst (fst (fold_left f data x0)))))) end.
  { apply (fold_pres_o _ _ (fun x : traph * N * list (N * list bytes) * list bytes
                                   * list (bytes * list bytes)
                          => OQ (fst (fst (fst (fst x)))))); [|exact H].
    intros [[[[s0 n0] c0] seen0] ins0] [src tgts] Ha. cbn [fst] in Ha.
    match goal with |- context [if mem_bytes src seen0 then ?A else ?B] =>
      assert (H2 : OQ (fst (fst (fst (if mem_bytes src seen0 then A else B))))) end.
    { destruct (mem_bytes src seen0).
      - cbn [fst]. apply set_tree_upd_OQ; [kpt|exact Ha].
      - pose proof (add_page_int_OQ src true s0 Ha) as H2.
        destruct (add_page_int src true s0) as [[s' n'] c']. exact H2. }
    match goal with |- context [if mem_bytes src seen0 then ?A else ?B] =>
      destruct (if mem_bytes src seen0 then A else B) as [[[s2 n2] c2] seen2] end.
    cbn [fst] in H2.
    match goal with |- context [fold_left ?g tgts ?y0] =>
      assert (H3 : OQ (fst (fst (fst (fst (fold_left g tgts y0)))))) end.
    { apply (fold_pres_o _ _ (fun x : traph * N * list (N * list bytes) * list bytes
                                     * list (bytes * list bytes)
                            => OQ (fst (fst (fst (fst x)))))); [|exact H2].
      intros [[[[s3 n3] c3] seen3] ins3] t Hb. cbn [fst] in Hb.
      destruct (mem_bytes t seen3); [exact Hb|].
      pose proof (add_page_int_OQ t false s3 Hb) as H4.
      destruct (add_page_int t false s3) as [[s' n'] c']. exact H4. }
    destruct (fold_left _ tgts _) as [[[[s4 n4] c4] seen4] ins4]. cbn [fst] in *.
    apply store_links_OQ. exact H3. }
  destruct (fold_left _ data _) as [[[[s1 n] c] seen] ins]. cbn [fst] in *.
  apply flush_links_OQ. exact H1.
Qed.

Lemma create_webentity_OQ : forall ps s, OQ s -> OQ (fst (create_webentity ps s)).
Proof.
  intros ps s H. unfold create_webentity. pose proof (add_prefixes_OQ ps false s H) as H1.
  destruct (add_prefixes ps false s) as [s1 [| |w valid]]; exact H1.
Qed.

Lemma delete_webentity_OQ : forall w ps s, OQ s -> OQ (fst (delete_webentity w ps s)).
Proof.
  intros w ps s H. unfold delete_webentity.
  destruct (forallb _ ps); [|exact H]. cbn [fst]. unfold OQ. cbn [set_tree set_tr tr nb].
  apply (fold_pres_o _ _ (fun t => ord_ok t (nb s))); [|exact H].
  intros t0 p H0. apply ord_ok_upd; [kpt|exact H0].
Qed.

Lemma add_prefix_OQ : forall p w s, OQ s -> OQ (fst (add_prefix p w s)).
Proof.
  intros p w s H. unfold add_prefix. pose proof (add_lru_OQ true p s H) as H1.
  destruct (add_lru true p s) as [s1 h]. cbn [fst] in H1.
  destruct (find (lru_iter p) (tr s1)) as [d|]; [|exact H1].
  destruct (we d =? 0); [|exact H1]. cbn [fst]. apply set_tree_upd_OQ; [kpt|exact H1].
Qed.

Lemma remove_prefix_OQ : forall p w s, OQ s -> OQ (fst (remove_prefix p w s)).
Proof.
  intros p w s H. unfold remove_prefix. pose proof (add_lru_OQ false p s H) as H1.
  destruct (add_lru false p s) as [s1 h]. cbn [fst] in H1.
  destruct (find (lru_iter p) (tr s1)) as [d|]; [|exact H1].
  destruct ((w =? 0) || (negb (we d =? 0) && (we d =? w))); [|exact H1].
  cbn [fst]. apply set_tree_upd_OQ; [kpt|exact H1].
Qed.

Lemma move_prefix_OQ : forall p wt ws s, OQ s -> OQ (fst (move_prefix p wt ws s)).
Proof.
  intros p wt ws s H. unfold move_prefix. pose proof (remove_prefix_OQ p ws s H) as H1.
  destruct (remove_prefix p ws s) as [s1 r]. cbn [fst] in H1.
  destruct r; try exact H1. apply add_prefix_OQ. exact H1.
Qed.

Lemma add_rule_OQ : forall p k write s, OQ s -> OQ (fst (add_rule p k write s)).
Proof.
  intros p k write s H. unfold add_rule.
  set (s0 := mkT (tr s) (nb s) (lastwe s) (stubs s) (aset p k (rules s)) (dflt s)).
  assert (H0 : OQ s0) by exact H.
  destruct write; cbn [negb]; [|exact H0].
  pose proof (add_lru_OQ false p s0 H0) as H1.
  destruct (add_lru false p s0) as [s1 h]. cbn [fst] in H1.
  assert (H2 : OQ (set_tree (upd (set_rule true) (lru_iter p) (tr s1)) s1))
    by (apply set_tree_upd_OQ; [kpt|exact H1]).
  pose proof (pages_fold_OQ false
                (pages_under p (set_tree (upd (set_rule true) (lru_iter p) (tr s1)) s1))
                (set_tree (upd (set_rule true) (lru_iter p) (tr s1)) s1, 0, []) H2) as H3.
  destruct (fold_left _ _ _) as [[s3 n] c]. exact H3.
Qed.

Lemma remove_rule_OQ : forall p s, OQ s -> OQ (fst (remove_rule p s)).
Proof.
  intros p s H. unfold remove_rule. destruct (aget p (rules s)); [|exact H].
  cbn [tr]. destruct (find (lru_iter p) (tr s)); [|exact H].
  cbn [fst]. unfold OQ. cbn [set_tree set_tr tr nb]. apply ord_ok_upd; [kpt|exact H].
Qed.

Lemma install_rules_OQ : forall rs write s, OQ s -> OQ (install_rules rs write s).
Proof.
  intros rs write s H. unfold install_rules. apply (fold_pres_o _ _ OQ); [|exact H].
  intros s0 [p k] H0. apply add_rule_OQ. exact H0.
Qed.

Theorem init_OQ : forall d rs, OQ (init d rs).
Proof. intros d rs. unfold init. apply install_rules_OQ. apply ord_ok_empty. Qed.

Lemma reopen_OQ : forall d rs s, OQ s -> OQ (reopen d rs s).
Proof. intros d rs s H. unfold reopen. apply install_rules_OQ. exact H. Qed.

Lemma clear_OQ : forall od ors s, OQ (clear od ors s).
Proof.
  intros od ors s. unfold clear. destruct ors as [rs|]; [apply install_rules_OQ|]; apply ord_ok_empty.
Qed.

Theorem step_OQ : forall s o, OQ s -> OQ (fst (step s o)).
Proof.
  intros s o H. destruct o; cbn [step].
  - apply add_page_OQ; exact H.
  - apply add_pages_OQ; exact H.
  - apply add_links_OQ; exact H.
  - apply batch_crawl_OQ; exact H.
  - apply create_webentity_OQ; exact H.
  - apply delete_webentity_OQ; exact H.
  - apply add_prefix_OQ; exact H.
  - apply remove_prefix_OQ; exact H.
  - apply move_prefix_OQ; exact H.
  - apply add_rule_OQ; exact H.
  - apply remove_rule_OQ; exact H.
  - apply reopen_OQ; exact H.
  - apply clear_OQ.
Qed.

Theorem history_OQ : forall h s, OQ s -> OQ (mrun_state h s).
Proof.
  induction h as [|o h IH]; intros s H; [exact H|]. cbn [mrun_state]. apply IH, step_OQ, H.
Qed.


Lemma run_mrun_state_o : forall h s a, fst (fst (run2 h s a)) = mrun_state h s.
Proof.
  induction h as [|o h IH]; intros s a; [reflexivity|].
  cbn [run2 mrun_state]. destruct (step s o) as [s1 r]. destruct (sstep s a o) as [a1 r'].
  specialize (IH s1 a1). destruct (run2 h s1 a1) as [[s2 a2] rs]. exact IH.
Qed.

Theorem run_OQ : forall d rs h, OQ (run d rs h).
Proof. intros d rs h. unfold run. rewrite run_mrun_state_o. apply history_OQ, init_OQ. Qed.

(* ====================================================================== *)
(* From the tree to the block list: pointer ordering                        *)
(* ====================================================================== *)
Lemma root_pfw : forall t lb n, ordt lb n t -> pfw lb (root_addr t).
Proof. intros [|d l c r] lb n H; [left; reflexivity|right; exact (proj1 H)]. Qed.

Lemma number_from_ge : forall bs a x b, In (x, b) (number_from a bs) -> a <= x.
Proof.
  induction bs as [|b0 bs IH]; intros a x b Hin; [destruct Hin|].
  cbn [number_from] in Hin. destruct Hin as [E|Hin]; [injection E as <- _; lia|].
  apply IH in Hin. lia.
Qed.

Lemma placed_ord : forall t lb n, ordt lb n t -> forall a b, In (a, b) (placed t) ->
  lb < a /\ pfw a (b_left b) /\ pfw a (b_right b) /\ pfw a (b_child b) /\ b_parent b < a.
Proof.
  induction t as [|d l IHl c IHc r IHr]; intros lb n Ht a b Hin; [destruct Hin|].
  cbn [ordt] in Ht. destruct Ht as (H1 & H2 & H3 & H4 & H5 & H6).
  cbn [placed] in Hin. unfold node_blocks in Hin. cbn [number_from] in Hin.
  rewrite !in_app_iff in Hin. cbn [In] in Hin.
  destruct Hin as [[E|Htl]|[Hc|[Hl|Hr]]].
  - injection E as <- <-. cbn [main_block b_left b_right b_child b_parent].
    split; [exact H1|]. split; [exact (root_pfw _ _ _ H4)|]. split; [exact (root_pfw _ _ _ H6)|].
    split; [exact (root_pfw _ _ _ H5)|exact H2].
  - pose proof (number_from_ge _ _ _ _ Htl) as Hge.
    destruct (tail_zero _ _ (number_from_In _ _ _ _ Htl)) as (Z1 & Z2 & Z3 & Z4 & _).
    rewrite Z1, Z2, Z3, Z4. split; [lia|]. split; [left; reflexivity|].
    split; [left; reflexivity|]. split; [left; reflexivity|lia].
  - destruct (IHc _ _ H5 _ _ Hc) as (A & B). split; [lia|exact B].
  - destruct (IHl _ _ H4 _ _ Hl) as (A & B). split; [lia|exact B].
  - destruct (IHr _ _ H6 _ _ Hr) as (A & B). split; [lia|exact B].
Qed.

Lemma files_of_nth' : forall s i b, Inv18 s ->
  (nth_error (ft (files_of s)) i = Some b <-> In (off i, b) (placed (tr s))).
Proof. intros s i b H. apply (files_of_nth s (I_tiled _ H)). Qed.

Lemma placed_off : forall s a b, Inv18 s -> In (a, b) (placed (tr s)) -> exists i, a = off i.
Proof.
  intros s a b H Hin. destruct (tiled_img _ _ (I_tiled _ H)) as (_ & _ & Hrg & _).
  destruct (Hrg a b Hin) as (i & ->). exists i. reflexivity.
Qed.

Theorem ptr_ordered_files_of : forall s, Inv18 s -> OQ s -> ptr_ordered (files_of s).
Proof.
  intros s H [_ Ho] i b E. apply (files_of_nth' s i b H) in E.
  destruct (placed_ord _ _ _ Ho _ _ E) as (_ & A). exact A.
Qed.

(* ====================================================================== *)
(* From the tree to the block list: main blocks and tail blocks             *)
(* ====================================================================== *)
Lemma tb_is_tail : forall chs b, In b (tail_blocks chs) -> blk_is_tail b = true.
Proof.
  induction chs as [|ch rest IH]; intros b Hin; [destruct Hin|].
  cbn [tail_blocks] in Hin. destruct Hin as [<-|Hin]; [|auto].
  unfold blk_is_tail. cbn [b_flags]. destruct (nonempty rest); vm_compute; reflexivity.
Qed.

Lemma tail_blocks_cons : forall ch rest, tail_blocks (ch :: rest) =
  mkBlk ch (default_flags + bit true flag_is_tail + bit (nonempty rest) flag_has_tail) 0 0 0 0 0 0 0
    :: tail_blocks rest.
Proof. reflexivity. Qed.

Lemma nth_error_S : forall (A : Type) (x : A) l k, nth_error (x :: l) (S k) = nth_error l k.
Proof. reflexivity. Qed.

Lemma tb_next : forall chs k b, nth_error (tail_blocks chs) k = Some b -> blk_has_tail b = true ->
  exists c, nth_error (tail_blocks chs) (S k) = Some c.
Proof.
  induction chs as [|ch rest IH]; intros k b E Hh; [destruct k; discriminate E|].
  rewrite tail_blocks_cons in *. rewrite nth_error_S. destruct k as [|k].
  - change (Some (mkBlk ch (default_flags + bit true flag_is_tail + bit (nonempty rest) flag_has_tail) 0 0 0 0 0 0 0)
            = Some b) in E.
    assert (Eb : b = mkBlk ch (default_flags + bit true flag_is_tail + bit (nonempty rest) flag_has_tail) 0 0 0 0 0 0 0)
      by congruence.
    rewrite Eb, tail_has_tail in Hh.
    destruct rest as [|ch2 rest2]; [discriminate Hh|]. rewrite tail_blocks_cons. eexists. reflexivity.
  - rewrite nth_error_S in E. apply (IH k b E Hh).
Qed.

Lemma tb_prev : forall chs k b, nth_error (tail_blocks chs) (S k) = Some b ->
  exists pb, nth_error (tail_blocks chs) k = Some pb /\ blk_has_tail pb = true.
Proof.
  induction chs as [|ch rest IH]; intros k b E; [discriminate E|].
  rewrite tail_blocks_cons in *. rewrite nth_error_S in E. destruct k as [|k].
  - eexists. split; [reflexivity|]. rewrite tail_has_tail.
    destruct rest; [discriminate E|reflexivity].
  - rewrite nth_error_S. apply (IH k b E).
Qed.

Lemma chunks_has_tail : forall st, stem_tail_chunks st <> [] -> has_tail_of st = true.
Proof.
  intros st H. unfold has_tail_of. apply Nat.ltb_lt.
  destruct (Nat.lt_ge_cases stem_size_nat (length st)) as [Hlt|Hge]; [exact Hlt|].
  exfalso. apply H. unfold stem_tail_chunks. rewrite skipn_all2 by exact Hge. reflexivity.
Qed.

Lemma number_from_In_nth : forall bs a x b, In (x, b) (number_from a bs) ->
  exists k, x = a + N.of_nat k * bsz /\ nth_error bs k = Some b.
Proof.
  induction bs as [|b0 bs IH]; intros a x b Hin; [destruct Hin|].
  cbn [number_from] in Hin. destruct Hin as [E|Hin].
  - injection E as <- <-. exists 0%nat. split; [cbn; lia|reflexivity].
  - destruct (IH _ _ _ Hin) as (k & -> & Ek). exists (S k). split; [lia|exact Ek].
Qed.

(* the blocks of one node *)
Lemma node_blocks_chain : forall d la ra ca k b,
  nth_error (node_blocks d la ra ca) k = Some b ->
  (blk_is_tail b = false -> k = 0%nat) /\
  (blk_is_tail b = true -> exists k' pb, k = S k' /\ nth_error (node_blocks d la ra ca) k' = Some pb /\
                                         blk_has_tail pb = true) /\
  (blk_has_tail b = true -> exists c, nth_error (node_blocks d la ra ca) (S k) = Some c /\
                                      blk_is_tail c = true).
Proof.
  intros d la ra ca k b E. unfold node_blocks in *. destruct k as [|k]; cbn [nth_error] in E.
  - injection E as <-. split; [reflexivity|]. split.
    + rewrite main_is_tail. discriminate.
    + rewrite main_has_tail. intro Hh. pose proof (has_tail_chunks _ Hh) as Hne.
      cbn [nth_error]. destruct (tail_blocks (stem_tail_chunks (stem d))) as [|c tl] eqn:Et.
      * destruct (stem_tail_chunks (stem d)); [congruence|discriminate Et].
      * exists c. split; [reflexivity|]. apply (tb_is_tail (stem_tail_chunks (stem d))).
        rewrite Et. left. reflexivity.
  - pose proof (tb_is_tail _ _ (nth_error_In _ _ E)) as Hit. split; [congruence|]. split.
    + intros _. destruct k as [|k].
      * exists 0%nat, (main_block d la ra ca). split; [reflexivity|]. split; [reflexivity|].
        rewrite main_has_tail. apply chunks_has_tail. intro E0. rewrite E0 in E. discriminate E.
      * destruct (tb_prev _ _ _ E) as (pb & Epb & Hpb). exists (S k), pb. auto.
    + intro Hh. destruct (tb_next _ _ _ E Hh) as (c & Ec). exists c. cbn [nth_error].
      split; [exact Ec|]. apply (tb_is_tail _ _ (nth_error_In _ _ Ec)).
Qed.

Lemma placed_main_or_tail : forall t a b, In (a, b) (placed t) ->
  (blk_is_tail b = false ->
     exists d l c r, subt (Nd d l c r) t /\ a = addr d /\
                     b = main_block d (root_addr l) (root_addr r) (root_addr c)) /\
  (blk_is_tail b = true ->
     exists a' pb, a = a' + bsz /\ In (a', pb) (placed t) /\ blk_has_tail pb = true) /\
  (blk_has_tail b = true -> exists c, In (a + bsz, c) (placed t) /\ blk_is_tail c = true).
Proof.
  induction t as [|d l IHl c IHc r IHr]; intros a b Hin; [destruct Hin|].
  assert (Hsub : forall x, subt x l \/ subt x c \/ subt x r -> subt x (Nd d l c r)).
  { intros x [H|[H|H]]; [apply subt_l|apply subt_c|apply subt_r]; exact H. }
  assert (Hlift : forall t', (t' = l \/ t' = c \/ t' = r) -> In (a, b) (placed t') ->
    ((blk_is_tail b = false ->
       exists d0 l0 c0 r0, subt (Nd d0 l0 c0 r0) t' /\ a = addr d0 /\
                     b = main_block d0 (root_addr l0) (root_addr r0) (root_addr c0)) /\
     (blk_is_tail b = true ->
       exists a' pb, a = a' + bsz /\ In (a', pb) (placed t') /\ blk_has_tail pb = true) /\
     (blk_has_tail b = true -> exists c0, In (a + bsz, c0) (placed t') /\ blk_is_tail c0 = true)) ->
    (blk_is_tail b = false ->
       exists d0 l0 c0 r0, subt (Nd d0 l0 c0 r0) (Nd d l c r) /\ a = addr d0 /\
                     b = main_block d0 (root_addr l0) (root_addr r0) (root_addr c0)) /\
    (blk_is_tail b = true ->
       exists a' pb, a = a' + bsz /\ In (a', pb) (placed (Nd d l c r)) /\ blk_has_tail pb = true) /\
    (blk_has_tail b = true -> exists c0, In (a + bsz, c0) (placed (Nd d l c r)) /\ blk_is_tail c0 = true)).
  { intros t' Ht' _ (A & B & C).
    assert (Hinc : forall y, In y (placed t') -> In y (placed (Nd d l c r))).
    { intros y Hy. cbn [placed]. rewrite !in_app_iff. destruct Ht' as [->|[->| ->]]; auto. }
    split; [|split].
    - intro Hm. destruct (A Hm) as (d0 & l0 & c0 & r0 & S0 & E1 & E2). exists d0, l0, c0, r0.
      split; [|auto]. apply Hsub. destruct Ht' as [->|[->| ->]]; auto.
    - intro Hm. destruct (B Hm) as (a' & pb & E1 & I1 & H1). exists a', pb. auto.
    - intro Hm. destruct (C Hm) as (c0 & I1 & H1). exists c0. auto. }
  pose proof Hin as Hin0.
  cbn [placed] in Hin. rewrite !in_app_iff in Hin.
  destruct Hin as [Hn|[Hc|[Hl|Hr]]].
  - destruct (number_from_In_nth _ _ _ _ Hn) as (k & -> & Ek).
    destruct (node_blocks_chain _ _ _ _ _ _ Ek) as (A & B & C).
    assert (Hinc : forall y, In y (number_from (addr d) (node_blocks d (root_addr l) (root_addr r) (root_addr c)))
                     -> In y (placed (Nd d l c r))).
    { intros y Hy. cbn [placed]. rewrite !in_app_iff. auto. }
    split; [|split].
    + intro Hm. rewrite (A Hm) in *. exists d, l, c, r. split; [apply subt_here|].
      split; [cbn; lia|]. cbn [node_blocks nth_error] in Ek. injection Ek as <-. reflexivity.
    + intro Hm. destruct (B Hm) as (k' & pb & -> & Epb & Hpb).
      exists (addr d + N.of_nat k' * bsz), pb. split; [lia|]. split; [|exact Hpb].
      apply Hinc. apply number_from_nth. exact Epb.
    + intro Hm. destruct (C Hm) as (c0 & Ec0 & Hc0). exists c0. split; [|exact Hc0].
      apply Hinc. replace (addr d + N.of_nat k * bsz + bsz) with (addr d + N.of_nat (S k) * bsz) by lia.
      apply number_from_nth. exact Ec0.
  - apply (Hlift c); auto.
  - apply (Hlift l); auto.
  - apply (Hlift r); auto.
Qed.

Theorem tails_follow_files_of : forall s, Inv18 s -> tails_follow (files_of s) /\ closed (files_of s).
Proof.
  intros s H.
  assert (Hnext : forall i b, nth_error (ft (files_of s)) i = Some b -> blk_has_tail b = true ->
                    exists c, nth_error (ft (files_of s)) (S i) = Some c /\ blk_is_tail c = true).
  { intros i b E Hh. apply (files_of_nth' s i b H) in E.
    destruct (placed_main_or_tail _ _ _ E) as (_ & _ & C). destruct (C Hh) as (c & Ic & Hc).
    rewrite off_S in Ic. exists c. split; [|exact Hc]. apply (files_of_nth' s (S i) c H). exact Ic. }
  split.
  - intros i b E. split.
    + intro Hm. pose proof E as E'. apply (files_of_nth' s i b H) in E'.
      destruct (placed_main_or_tail _ _ _ E') as (_ & B & _).
      destruct (B Hm) as (a' & pb & Ea & Ipb & Hpb).
      destruct (placed_off s a' pb H Ipb) as (j & ->). rewrite off_S in Ea. apply off_inj in Ea.
      exists j, pb. split; [exact Ea|]. split; [|exact Hpb]. apply (files_of_nth' s j pb H). exact Ipb.
    + intros Hh c Ec. destruct (Hnext i b E Hh) as (c' & Ec' & Hc'). congruence.
  - intros i b E Hh. destruct (Hnext i b E Hh) as (c & Ec & _). apply nth_error_Some. congruence.
Qed.

Theorem ordered_files_of : forall s, Inv18 s -> OQ s -> ordered (files_of s).
Proof.
  intros s H Ho. split; [apply ptr_ordered_files_of; assumption|apply (tails_follow_files_of s H)].
Qed.

(* in closed files every chain ends inside the file *)
Lemma closed_complete : forall f, closed f -> forall i, (i < length (ft f))%nat ->
  complete (skipn i (ft f)) = true.
Proof.
  intros f Hc.
  assert (Hgen : forall n i, (length (ft f) - i = n)%nat -> (i < length (ft f))%nat ->
                   complete (skipn i (ft f)) = true).
  { induction n as [|n IH]; intros i En Hi; [lia|].
    destruct (nth_error (ft f) i) as [b|] eqn:Eb; [|apply nth_error_None in Eb; lia].
    rewrite (skipn_nth _ _ _ _ Eb). cbn [complete]. destruct (blk_has_tail b) eqn:Eh; [|reflexivity].
    pose proof (Hc i b Eb Eh). apply IH; lia. }
  intros i Hi. apply (Hgen _ i eq_refl Hi).
Qed.

(* ====================================================================== *)
(* The page scan of a state's files lists the pages of the tree             *)
(* ====================================================================== *)
Theorem scan_pages_tree : forall s, Inv18 s -> forall x cr,
  In (x, cr) (scan_pages (files_of s)) <->
  exists p d, find p (tr s) = Some d /\ page d = true /\ x = Some (concat p) /\ cr = crawled d.
Proof.
  intros s H x cr. rewrite scan_pages_In. split.
  - intros (i & b & E & Hm & Hp & -> & ->). apply (files_of_nth' s i b H) in E.
    destruct (placed_main_or_tail _ _ _ E) as (A & _). destruct (A Hm) as (d & l & c & r & Hs & Ea & ->).
    destruct (subt_node_find _ _ _ _ _ (proj1 (I_wf _ H)) Hs) as (p & Hf).
    exists p, d. rewrite main_page in Hp. rewrite main_crawled, Ea.
    split; [exact Hf|]. split; [exact Hp|]. split; [apply (b_windup_spec s H p d Hf)|reflexivity].
  - intros (p & d & Hf & Hp & -> & ->).
    destruct (blk_at_main_find s H p d Hf) as (l & c & r & _ & Eb).
    destruct (blk_at_inv _ _ _ Eb) as (i & Ea & Ei).
    exists i, (main_block d (root_addr l) (root_addr r) (root_addr c)).
    split; [exact Ei|]. split; [apply main_is_tail|]. split; [rewrite main_page; exact Hp|].
    split; [rewrite <- Ea; symmetry; apply (b_windup_spec s H p d Hf)|rewrite main_crawled; reflexivity].
Qed.

Print Assumptions step_OQ.
Print Assumptions ordered_files_of.
Print Assumptions tails_follow_files_of.
Print Assumptions scan_pages_tree.
