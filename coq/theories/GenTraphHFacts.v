(* GenTraphHFacts.v — the pagination of a webentity's page links translated from /repo/traph/traph.py (GenTraphH.v:
   Traph.paginate_webentity_pagelinks, over the translated LRUTrie.lru_node / webentity_inorder_iter / windup_lru /
   windup_lru_for_webentity, LRUTrieNode.read and LinkStore.weighted_link_nodes_iter) answers exactly what the model's
   Traph.paginate_pagelinks answers, for EVERY history: on any trie storage holding the trie file of the state reached
   and any link storage holding its link file.  Every raise (both switches off, an absent prefix, a malformed token, a
   pagination path that cannot be followed, the limit reached before any page was seen) is None on the code's side,
   RRefused / RCrash on the model's; the translated code leaves every byte of the trie storage as it was.
   The specification of the translated ordered traversal (webentity_inorder_iter) is a Section hypothesis; the closed
   corollary at the end instantiates it with GenTrieIFacts.py_trie_webentity_inorder_iter_spec. *)
From Coq Require Import List NArith Bool Lia Arith.
Import ListNotations.
From Traph Require Import Bytes Consts Layout Helpers Rules Tst TstDefs Traph Spec Ops RefDefs Traphw TraceDefs Codec CodecFacts
  TstFacts Store StoreFacts StoreFacts2 RefFull LinkFacts GenStorage GenNode GenNodeFacts GenLinks GenLinksFacts GenTrie
  GenTrieFacts GenTrieW GenTrieD GenTrieI GenTraphL GenTraphLFacts GenTraphQ GenTraphQFacts GenTraphG GenTraphH.
From Traph Require GenTrieWPage GenHelpers2 GenHelpers2Facts GenTraphPages.
Open Scope N_scope.

Arguments N.shiftr : simpl never.
Arguments N.shiftl : simpl never.
Arguments N.modulo : simpl never.
Arguments N.div : simpl never.
Arguments N.land : simpl never.
Arguments N.lor : simpl never.
Arguments N.mul : simpl never.
Arguments N.add : simpl never.
Arguments N.sub : simpl never.
Arguments N.ltb : simpl never.
Arguments N.leb : simpl never.
Arguments N.eqb : simpl never.

(* ====================================================================================== *)
(* 1. the generated definition re-stated in named pieces                                  *)
(* ====================================================================================== *)
Notation Links := (list (bytes * bytes * N)) (only parsing).
(* storage, last_path, last_path_i, n, pagelinks, pagination_path, target_node *)
Definition HSt : Type := (py_pm * option N * option N * N * Links * option N * py_node)%type.
Definition HAcc : Type := option ((py_pm * py_links_answer) + HSt).
Definition WSt : Type := option (py_pm * Links * py_node).

(* body of `for target, weight in weighted_link_nodes_iter(links_block)` *)
Definition wbody (v_weid : N) (v_lru : bytes) (v_include_internal v_include_outbound : bool)
    (st : WSt) (v__it : option N * N) : WSt :=
 match st with
 | None => None
 | Some (sg, v_newlinks, v_target_node) => (let '(v_target, v_weight) := v__it in
 (let '(v_target_node, sg) := py_node_read_o v_target_node sg v_target in
 (match py_trie_windup_lru_for_webentity sg v_target_node with
 | None => None
 | Some (sg, v_target_webentity) => (if ((v_include_outbound && (negb (oN_eqb v_target_webentity (Some v_weid)))) || (v_include_internal && (oN_eqb v_target_webentity (Some v_weid))))
 then (match (nd_block v_target_node) with
 | None => None
 | Some v__b => (match py_trie_windup_lru sg v__b with
 | None => None
 | Some (sg, v_target_lru) => (let v_newlinks := v_newlinks ++ [(v_lru, v_target_lru, v_weight)] in
 (Some (sg, v_newlinks, v_target_node))) end) end)
 else (Some (sg, v_newlinks, v_target_node))) end))) end.

(* body of `for node, lru, path in webentity_inorder_iter(...)` *)
Definition listep (sgl : py_pm) (v_weid : N) (v_include_internal v_include_outbound : bool) (v_source_page_count : option N)
    (v_i : N) (acc : HAcc) (v__it : py_node * bytes * N) : HAcc :=
 match acc with
 | None => None
 | Some (inl v__a) => Some (inl v__a)
 | Some (inr (sg, v_last_path, v_last_path_i, v_n, v_pagelinks, v_pagination_path, v_target_node)) => (let '(v_node, v_lru, v_path) := v__it in
 (if (negb (py_node_is_page v_node))
 then (Some (inr (sg, v_last_path, v_last_path_i, v_n, v_pagelinks, v_pagination_path, v_target_node)))
 else (if (negb (py_node_has_outlinks v_node))
 then (let v_last_path := (Some v_path) in
 (let v_last_path_i := (Some v_i) in
 (Some (inr (sg, v_last_path, v_last_path_i, v_n, v_pagelinks, v_pagination_path, v_target_node)))))
 else (let v_links_block := (py_node_outlinks v_node) in
 (let v_newlinks := (@nil (bytes * bytes * N)) in
 (match py_ls_weighted_link_nodes_iter sgl v_links_block with
 | None => None
 | Some v__stubs =>
 (match fold_left (wbody v_weid v_lru v_include_internal v_include_outbound)
 v__stubs (Some (sg, v_newlinks, v_target_node)) with
 | None => None
 | Some (sg, v_newlinks, v_target_node) => (if (match v_newlinks with [] => false | _ => true end)
 then (let v_n := (N.add v_n 1%N) in
 (if (match v_source_page_count with None => false | Some v_source_page_count => (N.ltb v_source_page_count v_n) end)
 then (match (match v_last_path_i, v_last_path with
 | Some v__i, Some v__p => Some (mk_la false (N.sub v_n 1%N) (N.of_nat (length v_pagelinks)) v_pagelinks (Some (GenHelpers2.py_build_pagination_token v__i v__p)))
 | _, _ => None end) with None => None | Some v__a => Some (inl (sg, v__a)) end)
 else (let v_pagelinks := (v_pagelinks ++ v_newlinks) in
 (let v_last_path := (Some v_path) in
 (let v_last_path_i := (Some v_i) in
 (Some (inr (sg, v_last_path, v_last_path_i, v_n, v_pagelinks, v_pagination_path, v_target_node))))))))
 else (let v_last_path := (Some v_path) in
 (let v_last_path_i := (Some v_i) in
 (Some (inr (sg, v_last_path, v_last_path_i, v_n, v_pagelinks, v_pagination_path, v_target_node)))))) end) end)))))) end.

(* body of `for i in range(start_i, len(prefixes))` *)
Definition lostep (sgl : py_pm) (v_weid : N) (v_prefixes : list bytes) (v_include_internal v_include_outbound : bool)
    (v_source_page_count : option N) (acc : HAcc) (v_i : N) : HAcc :=
 match acc with
 | None => None
 | Some (inl v__a) => Some (inl v__a)
 | Some (inr (sg, v_last_path, v_last_path_i, v_n, v_pagelinks, v_pagination_path, v_target_node)) =>
   let v_current_prefix := nth (N.to_nat v_i) v_prefixes (@nil N) in
   match py_trie_lru_node sg v_current_prefix with
   | None => None
   | Some (sg, v_starting_node) =>
     match v_starting_node with
     | None => None
     | Some v_starting_node =>
       match py_trie_webentity_inorder_iter sg v_starting_node v_current_prefix v_pagination_path with
       | None => None
       | Some (v_generator, sg) =>
         match fold_left (listep sgl v_weid v_include_internal v_include_outbound v_source_page_count v_i) v_generator
                 (Some (inr (sg, v_last_path, v_last_path_i, v_n, v_pagelinks, v_pagination_path, v_target_node))) with
         | None => None
         | Some (inl v__a) => Some (inl v__a)
         | Some (inr (sg, v_last_path, v_last_path_i, v_n, v_pagelinks, v_pagination_path, v_target_node)) =>
             Some (inr (sg, v_last_path, v_last_path_i, v_n, v_pagelinks, @None N, v_target_node))
         end
       end
     end
   end
 end.

Definition lfinish (acc : HAcc) : option (py_pm * py_links_answer) :=
  match acc with
  | None => None
  | Some (inl v__a) => Some v__a
  | Some (inr (sg, v_last_path, v_last_path_i, v_n, v_pagelinks, v_pagination_path, v_target_node)) =>
      Some (sg, mk_la true v_n (N.of_nat (length v_pagelinks)) v_pagelinks None)
  end.

Definition prologue (tok : option bytes) : option (N * option N) :=
  match tok with
  | None => Some (0, None)
  | Some t => if py_nonempty t
              then match py_parse_pagination_token t with None => None | Some (i, p) => Some (i, Some p) end
              else Some (0, None)
  end.

Lemma paginate_eq : forall sg sgl w ps int outb k tok,
  py_traph_paginate_webentity_pagelinks sg sgl w ps int outb k tok =
  if (match k with None => true | Some pc => N.ltb 0 pc end)
  then if negb int && negb outb then None
       else let '(tn, sg) := py_node_init sg None None None in
            match prologue tok with
            | None => None
            | Some (i, pp) =>
                lfinish (fold_left (lostep sgl w ps int outb k)
                           (py_range2 i (N.of_nat (length ps)))
                           (Some (inr (sg, None, None, 0, [], pp, tn))))
            end
  else None.
Proof. reflexivity. Qed.

(* ====================================================================================== *)
(* 2. helpers                                                                             *)
(* ====================================================================================== *)
Definition ans_of (r : link_result) : py_links_answer :=
  mk_la (lr_done r) (lr_sources r) (N.of_nat (length (lr_links r))) (lr_links r) (lr_token r).
Definition st_of (sg : py_pm) (last : option (N * N)) (n : N) (links : list (bytes * bytes * N)) (pp : option N)
    (tn : py_node) : HSt :=
  (sg, option_map snd last, option_map fst last, n, links, pp, tn).

Lemma fold_wbody_None : forall w lru int outb l, fold_left (wbody w lru int outb) l None = None.
Proof. intros w lru int outb. induction l as [|x l IH]; [reflexivity|exact IH]. Qed.
Lemma fold_listep_None : forall sgl w int outb k i items, fold_left (listep sgl w int outb k i) items None = None.
Proof. intros sgl w int outb k i. induction items as [|x items IH]; [reflexivity|exact IH]. Qed.
Lemma fold_listep_inl : forall sgl w int outb k i items a,
  fold_left (listep sgl w int outb k i) items (Some (inl a)) = Some (inl a).
Proof. intros sgl w int outb k i. induction items as [|x items IH]; intro a; [reflexivity|apply IH]. Qed.
Lemma fold_lostep_None : forall sgl w ps int outb k is, fold_left (lostep sgl w ps int outb k) is None = None.
Proof. intros sgl w ps int outb k. induction is as [|x is IH]; [reflexivity|exact IH]. Qed.
Lemma fold_lostep_inl : forall sgl w ps int outb k is a,
  fold_left (lostep sgl w ps int outb k) is (Some (inl a)) = Some (inl a).
Proof. intros sgl w ps int outb k. induction is as [|x is IH]; intro a; [reflexivity|apply IH]. Qed.

(* range(a, b) *)
Lemma range2_nil : forall a b, b <= a -> py_range2 a b = [].
Proof. intros a b H. unfold py_range2. replace (b - a) with 0 by lia. reflexivity. Qed.
Lemma range2_cons : forall a b, a < b -> py_range2 a b = a :: py_range2 (a + 1) b.
Proof.
  intros a b H. unfold py_range2.
  replace (N.to_nat (b - a)) with (S (N.to_nat (b - (a + 1)))) by lia.
  cbn [seq map]. f_equal; [lia|].
  rewrite <- seq_shift, map_map. apply map_ext. intro j. lia.
Qed.

Lemma skipn_cons_nth : forall (A : Type) (d : A) n (l : list A) x r, skipn n l = x :: r ->
  nth n l d = x /\ skipn (S n) l = r /\ (n < length l)%nat.
Proof.
  intros A d. induction n as [|n IH]; intros l x r H.
  - destruct l as [|y l]; [discriminate H|]. cbn [skipn] in H. injection H as -> ->.
    cbn [nth skipn length]. repeat split. lia.
  - destruct l as [|y l]; [discriminate H|]. cbn [skipn] in H. destruct (IH l x r H) as (H1 & H2 & H3).
    cbn [nth length]. split; [exact H1|]. split; [exact H2|lia].
Qed.
Lemma skipn_nil_len : forall (A : Type) n (l : list A), skipn n l = [] -> (length l <= n)%nat.
Proof.
  intros A. induction n as [|n IH]; intros l H.
  - cbn [skipn] in H. subst l. cbn [length]. lia.
  - destruct l as [|y l]; [cbn [length]; lia|]. cbn [skipn] in H. specialize (IH l H). cbn [length]. lia.
Qed.

(* the item of the ordered traversal: node object, LRU, path -- exactly the definition of the task *)
Definition item3_rep (s : traph) (it : py_node * bytes * N) (m : bytes * nd * N) : Prop :=
  snd (fst it) = fst (fst m) /\ snd it = snd m /\
  exists l c r, subt (Nd (snd (fst m)) l c r) (tr s) /\ GenTrieFacts.node_at (Nd (snd (fst m)) l c r) (fst (fst it)).

Lemma item3_page : forall s it m, item3_rep s it m -> py_node_is_page (fst (fst it)) = page (snd (fst m)).
Proof.
  intros s it m (_ & _ & l & c & r & _ & Hn). destruct Hn as (_ & _ & Hd & _).
  exact (GenTrieWPage.is_page_main _ _ _ _ _ Hd).
Qed.

(* the model's scan, one item *)
Lemma lpag_scan_LI : forall k i path hasl links its n acc last,
  lpag_scan k (LI i path hasl links :: its) n acc last =
  match links with
  | [] => lpag_scan k its n acc (Some (i, path))
  | _ => if match k with Some k0 => k0 <=? n | None => false end
         then match last with
              | Some (li, lp) => ROk (mkLR false n acc (Some (build_token li lp)))
              | None => RCrash
              end
         else lpag_scan k its (n + 1) (acc ++ links) (Some (i, path))
  end.
Proof. reflexivity. Qed.

Section WithInorder.
(* the specification of the translated ordered traversal (proved in GenTrieIFacts.v) *)
Hypothesis inorder_spec : forall s, Inv18 s -> forall sg t n lru pp,
      trep (files_of s) sg -> subt t (tr s) -> GenTrieFacts.node_at t n ->
      match pp with
      | None => exists items sg', py_trie_webentity_inorder_iter sg n lru None = Some (items, sg') /\ trep (files_of s) sg' /\ pm_array sg' = pm_array sg /\
                  Forall2 (item3_rep s) items (ino_at (lru_dirname lru) t)
      | Some path =>
          let cmp := if path =? 0 then [] else int_to_base4 path in
          match follow_path cmp (lru_dirname lru) t with
          | None => py_trie_webentity_inorder_iter sg n lru (Some path) = None
          | Some plru => exists items sg', py_trie_webentity_inorder_iter sg n lru (Some path) = Some (items, sg') /\ trep (files_of s) sg' /\ pm_array sg' = pm_array sg /\
                           Forall2 (item3_rep s) items (ino_from_at cmp plru (lru_dirname lru) t)
          end
      end.

(* ====================================================================================== *)
(* 3. on a state                                                                          *)
(* ====================================================================================== *)
Section OnState.
  Variable s : traph.
  Hypothesis Hinv : Inv18 s.
  Hypothesis Hroot : root_first s.
  Variable w : N.
  Hypothesis Hw : w <> 0.
  Variables int outb : bool.
  Hypothesis Hsw : negb int && negb outb = false.
  Variable sgl : py_pm.
  Hypothesis Hiter : forall p nd, find p (tr s) = Some nd ->
    outh nd <> 0 -> py_ls_weighted_link_nodes_iter sgl (outh nd) = Some (map lift (out_w nd s)).
  Hypothesis Hknown : forall h x, In x (weighted (targets_of (stubs s) h)) -> known_target s x.
  Variable k : option N.

  (* reading the block of a target into any node object and winding it up to its webentity *)
  Lemma read_we : forall x nd0 sg, known_target s x -> trep (files_of s) sg ->
    exists nd1 sg1 sg2,
      py_node_read_o nd0 sg (Some (fst x)) = (nd1, sg1) /\ nd_block nd1 = Some (fst x) /\
      py_trie_windup_lru_for_webentity sg1 nd1 = Some (sg2, lift_we (we_at (fst x) (tr s))) /\
      trep (files_of s) sg2 /\ pm_array sg2 = pm_array sg.
  Proof.
    intros x nd0 sg (p & d & Hf & Ha & Hl) Hrep.
    destruct (find_subt _ _ _ Hf) as (l & c & r & _ & Hsub).
    pose proof (read_subt s Hinv d l c r nd0 sg Hsub Hrep) as HR. cbv zeta in HR.
    pose proof (GenTraphPages.node_read_o_arr nd0 sg (Some (addr d))) as Harr.
    rewrite Ha in HR, Harr.
    destruct (py_node_read_o nd0 sg (Some (fst x))) as [nd1 sg1]. cbn [fst snd] in HR, Harr.
    destruct HR as [Hn1 Hrep1]. pose proof Hn1 as (_ & Hb & _).
    destruct (windup_we_on_state s Hinv p d l c r nd1 sg1 Hf Hsub Hn1 Hrep1) as (sg2 & Ew2 & Hrep2 & Harr2).
    rewrite Ha in Hb, Ew2.
    exists nd1, sg1, sg2. split; [reflexivity|]. split; [exact Hb|].
    split; [exact Ew2|]. split; [exact Hrep2|]. congruence.
  Qed.

  (* winding a target up to its LRU *)
  Lemma windup_known : forall x sg, known_target s x -> trep (files_of s) sg ->
    exists sg', py_trie_windup_lru sg (fst x) = Some (sg', lru_at (fst x) s) /\
      trep (files_of s) sg' /\ pm_array sg' = pm_array sg.
  Proof.
    intros x sg (p & d & Hf & Ha & Hl) Hrep.
    destruct (py_trie_windup_spec s Hinv sg p d Hrep Hf) as (sg' & Ew & Hrep').
    rewrite Ha in Ew. exists sg'. rewrite Hl. split; [exact Ew|]. split; [exact Hrep'|].
    exact (windup_arr _ _ _ _ Ew).
  Qed.

  (* the weighted targets of one page: `newlinks` *)
  Lemma wbody_fold_spec : forall lru items sg nl tn,
    trep (files_of s) sg -> Forall (known_target s) items ->
    exists sg' tn',
      fold_left (wbody w lru int outb) (map lift items) (Some (sg, nl, tn))
        = Some (sg', nl ++ flat_map (wout_keep w lru outb int s) items, tn') /\
      trep (files_of s) sg' /\ pm_array sg' = pm_array sg.
  Proof.
    intros lru. induction items as [|[tg wt] items IH]; intros sg nl tn Hrep Hk.
    - cbn [map fold_left flat_map]. rewrite app_nil_r. exists sg, tn.
      split; [reflexivity|]. split; [exact Hrep|reflexivity].
    - inversion Hk as [|? ? Hx Hrest]; subst.
      destruct (read_we (tg, wt) tn sg Hx Hrep) as (nd1 & sg1 & sg2 & Er & Hb & Ew2 & Hrep2 & Harr2).
      cbn [fst] in Er, Hb, Ew2.
      cbn [map fold_left flat_map]. change (lift (tg, wt)) with (Some tg, wt). cbn [wbody].
      rewrite Er, Ew2. cbn [wout_keep]. cbv zeta.
      rewrite (lift_we_some w Hw), lift_we_eqb.
      destruct ((outb && negb (we_at tg (tr s) =? w)) || (int && (we_at tg (tr s) =? w))).
      + rewrite Hb.
        destruct (windup_known (tg, wt) sg2 Hx Hrep2) as (sg3 & Ew3 & Hrep3 & Harr3). cbn [fst] in Ew3.
        rewrite Ew3.
        destruct (IH sg3 (nl ++ [(lru, lru_at tg s, wt)]) nd1 Hrep3 Hrest) as (sg' & tn' & E & Hrep' & Harr').
        exists sg', tn'. rewrite E, <- app_assoc. split; [reflexivity|]. split; [exact Hrep'|congruence].
      + destruct (IH sg2 nl nd1 Hrep2 Hrest) as (sg' & tn' & E & Hrep' & Harr').
        exists sg', tn'. rewrite E. split; [reflexivity|]. split; [exact Hrep'|congruence].
  Qed.

  (* the model's links of one page that has an out-list *)
  Lemma pagelinks_of_out : forall lru d, outh d <> 0 ->
    pagelinks_of w false int outb s (lru, d) = flat_map (wout_keep w lru outb int s) (out_w d s).
  Proof.
    intros lru d Hnz. rewrite pagelinks_of_eq. cbn [fst snd].
    apply N.eqb_neq in Hnz. rewrite Hnz. cbn [negb andb].
    assert (E : outb || int = true) by (destruct int, outb; try reflexivity; discriminate Hsw).
    rewrite E, andb_false_r, app_nil_r. reflexivity.
  Qed.

  (* what the model attaches to a page *)
  Definition lk_of (m : bytes * nd * N) : list (bytes * bytes * N) :=
    if outh (snd (fst m)) =? 0 then [] else pagelinks_of w false int outb s (fst m).
  Definition lis (i : N) (ms : list (bytes * nd * N)) : list litem :=
    map (fun x => LI i (snd x) (negb (outh (snd (fst x)) =? 0)) (lk_of x)) (filter (fun x => page (snd (fst x))) ms).

  Lemma k_test : forall n, match k with None => false | Some pc => pc <? n + 1 end =
                           match k with Some k0 => k0 <=? n | None => false end.
  Proof.
    intro n. destruct k as [k0|]; [|reflexivity].
    destruct (N.ltb_spec k0 (n + 1)), (N.leb_spec k0 n); try reflexivity; lia.
  Qed.

  (* one item of the traversal: not a page (skipped); a page without links (only the last position moves); a page with
     links: the limit is reached (the answer returns, or raises when no position was recorded), or one more source page *)
  Lemma listep_item : forall i it m sg last n links pp tn, item3_rep s it m -> trep (files_of s) sg ->
    exists sg' tn', trep (files_of s) sg' /\ pm_array sg' = pm_array sg /\
      listep sgl w int outb k i (Some (inr (st_of sg last n links pp tn))) it =
      if page (snd (fst m))
      then match lk_of m with
           | [] => Some (inr (st_of sg' (Some (i, snd m)) n links pp tn'))
           | _ => if match k with Some k0 => k0 <=? n | None => false end
                  then match last with
                       | Some (li, lp) => Some (inl (sg', mk_la false n (N.of_nat (length links)) links (Some (build_token li lp))))
                       | None => None
                       end
                  else Some (inr (st_of sg' (Some (i, snd m)) (n + 1) (links ++ lk_of m) pp tn'))
           end
      else Some (inr (st_of sg' last n links pp tn')).
  Proof.
    intros i [[node lru] path] [[lru' d] path'] sg last n links pp tn Hit Hrep.
    pose proof (item3_page s _ _ Hit) as Hp.
    destruct Hit as (El & Ep & l & c & r & Hsub & Hn). cbn [fst snd] in *. subst lru' path'.
    unfold listep, st_of at 1. rewrite Hp.
    destruct (page d); cbn [negb].
    2:{ exists sg, tn. split; [exact Hrep|]. split; reflexivity. }
    destruct (out_reg d l c r node Hn) as [-> ->]. unfold lk_of. cbn [fst snd].
    destruct (N.eqb_spec (outh d) 0) as [Ez|Enz]; cbn [negb].
    { exists sg, tn. split; [exact Hrep|]. split; reflexivity. }
    destruct (subt_node_find d l c r (tr s) (proj1 (I_wf _ Hinv)) Hsub) as (p & Hf).
    cbv zeta. rewrite (Hiter p d Hf Enz).
    assert (Hk : Forall (known_target s) (out_w d s)).
    { apply Forall_forall. intros x Hx. exact (Hknown (outh d) x Hx). }
    destruct (wbody_fold_spec lru (out_w d s) sg [] tn Hrep Hk) as (sg2 & tn' & E2 & Hrep2 & Harr2).
    rewrite E2. cbn [app]. rewrite (pagelinks_of_out lru d Enz).
    exists sg2, tn'. split; [exact Hrep2|]. split; [exact Harr2|].
    destruct (flat_map (wout_keep w lru outb int s) (out_w d s)) as [|x0 nl]; [reflexivity|].
    rewrite k_test. destruct (match k with Some k0 => k0 <=? n | None => false end); [|reflexivity].
    destruct last as [[li lp]|]; cbn [option_map fst snd]; [|reflexivity].
    replace (n + 1 - 1) with n by lia. rewrite GenHelpers2Facts.py_build_pagination_token_eq. reflexivity.
  Qed.

  (* the items of one prefix *)
  Lemma inner_fold : forall i items ms, Forall2 (item3_rep s) items ms ->
    forall sg last n links pp tn rest, trep (files_of s) sg ->
    match fold_left (listep sgl w int outb k i) items (Some (inr (st_of sg last n links pp tn))) with
    | None => lpag_scan k (lis i ms ++ rest) n links last = RCrash
    | Some (inl (sg', a)) => trep (files_of s) sg' /\ pm_array sg' = pm_array sg /\
                             exists r, lpag_scan k (lis i ms ++ rest) n links last = ROk r /\ a = ans_of r
    | Some (inr st') => exists sg' last' n' links' tn', st' = st_of sg' last' n' links' pp tn' /\
                          trep (files_of s) sg' /\ pm_array sg' = pm_array sg /\
                          lpag_scan k (lis i ms ++ rest) n links last = lpag_scan k rest n' links' last'
    end.
  Proof.
    intros i items ms H. induction H as [|it m items ms Hit _ IH]; intros sg last n links pp tn rest Hrep.
    - cbn [fold_left]. exists sg, last, n, links, tn. split; [reflexivity|]. split; [exact Hrep|]. split; reflexivity.
    - cbn [fold_left].
      destruct (listep_item i it m sg last n links pp tn Hit Hrep) as (sg1 & tn1 & Hrep1 & Harr1 & E1).
      rewrite E1. unfold lis. cbn [filter]. fold (lis i ms).
      destruct (page (snd (fst m))).
      2:{ specialize (IH sg1 last n links pp tn1 rest Hrep1).
          destruct (fold_left _ items _) as [[[sg' a]|st']|].
          - destruct IH as (Hr & Ha & r & E & ->). split; [exact Hr|]. split; [congruence|]. exists r. split; [exact E|reflexivity].
          - destruct IH as (sg' & last' & n' & links' & tn' & -> & Hr & Ha & E).
            exists sg', last', n', links', tn'. split; [reflexivity|]. split; [exact Hr|]. split; [congruence|exact E].
          - exact IH. }
      cbn [map app]. rewrite lpag_scan_LI.
      destruct (lk_of m) as [|x0 nl] eqn:Elk.
      + specialize (IH sg1 (Some (i, snd m)) n links pp tn1 rest Hrep1).
        destruct (fold_left _ items _) as [[[sg' a]|st']|].
        * destruct IH as (Hr & Ha & r & E & ->). split; [exact Hr|]. split; [congruence|]. exists r. split; [exact E|reflexivity].
        * destruct IH as (sg' & last' & n' & links' & tn' & -> & Hr & Ha & E).
          exists sg', last', n', links', tn'. split; [reflexivity|]. split; [exact Hr|]. split; [congruence|exact E].
        * exact IH.
      + destruct (match k with Some k0 => k0 <=? n | None => false end).
        * destruct last as [[li lp]|].
          -- rewrite fold_listep_inl. split; [exact Hrep1|]. split; [exact Harr1|]. eexists. split; reflexivity.
          -- rewrite fold_listep_None. reflexivity.
        * specialize (IH sg1 (Some (i, snd m)) (n + 1) (links ++ x0 :: nl) pp tn1 rest Hrep1).
          destruct (fold_left _ items _) as [[[sg' a]|st']|].
          -- destruct IH as (Hr & Ha & r & E & ->). split; [exact Hr|]. split; [congruence|]. exists r. split; [exact E|reflexivity].
          -- destruct IH as (sg' & last' & n' & links' & tn' & -> & Hr & Ha & E).
             exists sg', last', n', links', tn'. split; [reflexivity|]. split; [exact Hr|]. split; [congruence|exact E].
          -- exact IH.
  Qed.

  (* the traversal from one prefix found in the trie: it raises exactly when the model's path fails *)
  Lemma iter_spec : forall sg sub n p pp, trep (files_of s) sg -> subt sub (tr s) -> GenTrieFacts.node_at sub n ->
    find_sub (lru_iter p) (tr s) = Some sub ->
    if path_fails p pp (tr s) then py_trie_webentity_inorder_iter sg n p pp = None
    else exists items sg' ms, inorder_items p pp (tr s) = Some ms /\
           py_trie_webentity_inorder_iter sg n p pp = Some (items, sg') /\ trep (files_of s) sg' /\
           pm_array sg' = pm_array sg /\ Forall2 (item3_rep s) items ms.
  Proof.
    intros sg sub n p pp Hrep Hsub Hn Ef.
    pose proof (inorder_spec s Hinv sg sub n p pp Hrep Hsub Hn) as H.
    unfold path_fails, inorder_items. rewrite Ef. destruct pp as [path|].
    - cbv zeta in H. destruct (follow_path _ (lru_dirname p) sub) as [plru|]; [|exact H].
      destruct H as (items & sg' & E & Hrep' & Harr & Hf). exists items, sg'. eexists.
      split; [reflexivity|]. split; [exact E|]. split; [exact Hrep'|]. split; [exact Harr|exact Hf].
    - destruct H as (items & sg' & E & Hrep' & Harr & Hf). exists items, sg'. eexists.
      split; [reflexivity|]. split; [exact E|]. split; [exact Hrep'|]. split; [exact Harr|exact Hf].
  Qed.

  Lemma link_items_cons : forall i p ps' pp,
    link_items w int outb i (p :: ps') pp s =
    match inorder_items p pp (tr s) with
    | None => [LErr false]
    | Some its => if path_fails p pp (tr s) then [LErr true]
                  else lis i its ++ link_items w int outb (i + 1) ps' None s
    end.
  Proof. reflexivity. Qed.

  Variable ps : list bytes.
  Hypothesis Hwf : Forall wf_lru ps.

  Notation run_from i st :=
    (lfinish (fold_left (lostep sgl w ps int outb k) (py_range2 i (N.of_nat (length ps))) (Some (inr st)))).

  Lemma lostep_eq : forall i sg last n links pp tn,
    lostep sgl w ps int outb k (Some (inr (st_of sg last n links pp tn))) i =
    match py_trie_lru_node sg (nth (N.to_nat i) ps []) with
    | None => None
    | Some (_, None) => None
    | Some (sg, Some sn) =>
        match py_trie_webentity_inorder_iter sg sn (nth (N.to_nat i) ps []) pp with
        | None => None
        | Some (gen, sg) =>
            match fold_left (listep sgl w int outb k i) gen (Some (inr (st_of sg last n links pp tn))) with
            | None => None
            | Some (inl a) => Some (inl a)
            | Some (inr (sg, lp, lpi, n, pl, _, tn)) => Some (inr (sg, lp, lpi, n, pl, @None N, tn))
            end
        end
    end.
  Proof. reflexivity. Qed.

  (* the prefixes from index i on *)
  Lemma outer_fold : forall ps' i sg last n links pp tn,
    trep (files_of s) sg -> skipn (N.to_nat i) ps = ps' ->
    match lpag_scan k (link_items w int outb i ps' pp s) n links last with
    | ROk r => exists sg', run_from i (st_of sg last n links pp tn) = Some (sg', ans_of r) /\
                 trep (files_of s) sg' /\ pm_array sg' = pm_array sg
    | _ => run_from i (st_of sg last n links pp tn) = None
    end.
  Proof.
    induction ps' as [|p ps' IH]; intros i sg last n links pp tn Hrep Hsk.
    - apply skipn_nil_len in Hsk.
      assert (Hle : N.of_nat (length ps) <= i) by lia.
      rewrite (range2_nil _ _ Hle).
      cbn [link_items lpag_scan fold_left lfinish st_of]. exists sg. split; [reflexivity|]. split; [exact Hrep|reflexivity].
    - destruct (skipn_cons_nth bytes (@nil N) _ _ _ _ Hsk) as (Hnth & Hsk' & Hlt).
      assert (Hlt' : i < N.of_nat (length ps)) by lia.
      rewrite (range2_cons _ _ Hlt'). cbn [fold_left].
      assert (Hp : wf_lru p).
      { rewrite <- Hnth. rewrite Forall_forall in Hwf. apply Hwf, nth_In, Hlt. }
      destruct (GenTraphPages.lru_node_full s Hinv Hroot sg p Hrep Hp) as (sg1 & Hrep1 & Harr1 & H1).
      rewrite lostep_eq, Hnth.
      rewrite link_items_cons.
      destruct (find_sub (lru_iter p) (tr s)) as [sub|] eqn:Ef.
      2:{ assert (Ei : inorder_items p pp (tr s) = None) by (unfold inorder_items; rewrite Ef; reflexivity).
          rewrite Ei, H1. cbn [lpag_scan]. rewrite fold_lostep_None. reflexivity. }
      destruct H1 as (n1 & E1 & Hn1 & Hsub1). rewrite E1.
      pose proof (iter_spec sg1 sub n1 p pp Hrep1 Hsub1 Hn1 Ef) as H2.
      assert (Ei : inorder_items p pp (tr s) <> None).
      { unfold inorder_items. rewrite Ef. destruct pp; [cbv zeta; destruct (follow_path _ _ _)|]; discriminate. }
      destruct (path_fails p pp (tr s)).
      { destruct (inorder_items p pp (tr s)); [|contradiction]. rewrite H2. cbn [lpag_scan].
        rewrite fold_lostep_None. reflexivity. }
      destruct H2 as (items & sg2 & ms & Ems & E2 & Hrep2 & Harr2 & Hf). rewrite Ems, E2.
      pose proof (inner_fold i items ms Hf sg2 last n links pp tn (link_items w int outb (i + 1) ps' None s) Hrep2) as H3.
      destruct (fold_left (listep sgl w int outb k i) items _) as [[[sg3 a]|st3]|].
      + destruct H3 as (Hrep3 & Harr3 & r & -> & ->). rewrite fold_lostep_inl. cbn [lfinish]. exists sg3.
        split; [reflexivity|]. split; [exact Hrep3|congruence].
      + destruct H3 as (sg3 & last' & n' & links' & tn' & -> & Hrep3 & Harr3 & ->).
        unfold st_of at 1.
        specialize (IH (i + 1) sg3 last' n' links' None tn' Hrep3).
        replace (N.to_nat (i + 1)) with (S (N.to_nat i)) in IH by lia.
        specialize (IH Hsk'). unfold st_of at 1 2 in IH.
        destruct (lpag_scan k (link_items w int outb (i + 1) ps' None s) n' links' last') as [| |r].
        * exact IH.
        * exact IH.
        * destruct IH as (sg' & E & Hrep' & Harr'). exists sg'. split; [exact E|]. split; [exact Hrep'|congruence].
      + rewrite H3. rewrite fold_lostep_None. reflexivity.
  Qed.

  Hypothesis Hk : match k with Some k0 => 0 < k0 | None => True end.

  Theorem paginate_on_state : forall sg tok, trep (files_of s) sg -> tok <> Some [] ->
    match paginate_pagelinks w ps int outb k tok s with
    | ROk r => exists sg', py_traph_paginate_webentity_pagelinks sg sgl w ps int outb k tok = Some (sg', ans_of r) /\
                 trep (files_of s) sg' /\ pm_array sg' = pm_array sg
    | _ => py_traph_paginate_webentity_pagelinks sg sgl w ps int outb k tok = None
    end.
  Proof.
    intros sg tok Hrep Htok. rewrite paginate_eq. unfold paginate_pagelinks. rewrite Hsw.
    assert (Ek : match k with None => true | Some pc => 0 <? pc end = true).
    { destruct k as [k0|]; [|reflexivity]. apply N.ltb_lt. exact Hk. }
    rewrite Ek, node_init_none.
    destruct tok as [t|].
    - destruct t as [|b t]; [contradiction Htok; reflexivity|].
      cbn [prologue py_nonempty]. unfold py_parse_pagination_token.
      destruct (parse_token (b :: t)) as [[i path]|]; [|reflexivity].
      exact (outer_fold (skipn (N.to_nat i) ps) i sg None 0 [] (Some path) _ Hrep eq_refl).
    - cbn [prologue].
      exact (outer_fold ps 0 sg None 0 [] None _ Hrep eq_refl).
  Qed.
End OnState.

(* ====================================================================================== *)
(* 4. for every history                                                                   *)
(* ====================================================================================== *)
Theorem py_traph_paginate_pagelinks_spec : forall d rs h, wf_rules rs -> Forall wf_op h ->
  let s := run d rs h in
  forall sg sgl w ps int outb k tok,
    trep (files_of s) sg -> lrep (stubs s) sgl -> fits (nb s * bsz) -> fits (saddr (length (stubs s))) -> Forall wf_lru ps -> w <> 0 ->
    match k with Some k0 => 0 < k0 | None => True end -> tok <> Some [] ->
    match paginate_pagelinks w ps int outb k tok s with
    | ROk r => exists sg', py_traph_paginate_webentity_pagelinks sg sgl w ps int outb k tok =
                 Some (sg', mk_la (lr_done r) (lr_sources r) (N.of_nat (length (lr_links r))) (lr_links r) (lr_token r)) /\
               trep (files_of s) sg' /\ pm_array sg' = pm_array sg
    | _ => py_traph_paginate_webentity_pagelinks sg sgl w ps int outb k tok = None
    end.
Proof.
  intros d rs h Hr Hh s sg sgl w ps int outb k tok Hrep Hlrep Hft Hfl Hwf Hw Hk Htok.
  destruct (negb int && negb outb) eqn:Hsw.
  { rewrite paginate_eq. unfold paginate_pagelinks. rewrite Hsw.
    destruct (match k with None => true | Some pc => 0 <? pc end); reflexivity. }
  destruct (run_facts d rs h Hr Hh sgl Hlrep Hft Hfl) as (Hinv & Hroot & Hknown & Hheads).
  fold s in Hinv, Hroot, Hknown, Hheads.
  apply (paginate_on_state s Hinv Hroot w Hw int outb Hsw sgl); [|exact Hknown|exact Hwf|exact Hk|exact Hrep|exact Htok].
  intros p nd Hf Hnz. exact (proj1 (proj1 (Hheads p nd Hf) Hnz)).
Qed.
End WithInorder.

Print Assumptions py_traph_paginate_pagelinks_spec.

(* ====================================================================================== *)
(* 5. closed: with the proved specification of the translated ordered traversal           *)
(* ====================================================================================== *)
From Traph Require GenTrieIFacts.

Theorem py_traph_paginate_pagelinks_closed : forall d rs h, wf_rules rs -> Forall wf_op h ->
  let s := run d rs h in
  forall sg sgl w ps int outb k tok,
    trep (files_of s) sg -> lrep (stubs s) sgl -> fits (nb s * bsz) -> fits (saddr (length (stubs s))) -> Forall wf_lru ps -> w <> 0 ->
    match k with Some k0 => 0 < k0 | None => True end -> tok <> Some [] ->
    match paginate_pagelinks w ps int outb k tok s with
    | ROk r => exists sg', py_traph_paginate_webentity_pagelinks sg sgl w ps int outb k tok =
                 Some (sg', mk_la (lr_done r) (lr_sources r) (N.of_nat (length (lr_links r))) (lr_links r) (lr_token r)) /\
               trep (files_of s) sg' /\ pm_array sg' = pm_array sg
    | _ => py_traph_paginate_webentity_pagelinks sg sgl w ps int outb k tok = None
    end.
Proof. exact (py_traph_paginate_pagelinks_spec GenTrieIFacts.py_trie_webentity_inorder_iter_spec). Qed.

Print Assumptions py_traph_paginate_pagelinks_closed.

(* ====================================================================================== *)
(* 6. non-vacuity: the translated request runs on the bytes of the two files of the state *)
(*    reached by GenTraphLFacts.exh_l, for webentity 1 with its four prefixes             *)
(* ====================================================================================== *)
From Traph Require IdFacts PropsEx.
Import IdFacts PropsEx.

Definition la_res_eqb (o : option (py_pm * py_links_answer)) (r : res link_result) : bool :=
  match o, r with
  | Some (_, a), ROk b =>
      Bool.eqb (la_done a) (lr_done b) && (la_count_sourcepages a =? lr_sources b) &&
      links_eqb (la_pagelinks a) (lr_links b) && (la_count_pagelinks a =? N.of_nat (length (lr_links b))) &&
      match la_token a, lr_token b with Some x, Some y => beq x y | None, None => true | _, _ => false end
  | None, RRefused => true
  | None, RCrash => true
  | _, _ => false
  end.
Definition ex_same (ps : list bytes) (int outb : bool) (k : option N) (tok : option bytes) : bool :=
  la_res_eqb (py_traph_paginate_webentity_pagelinks ex_sgt ex_sgl 1 ps int outb k tok)
             (paginate_pagelinks 1 ps int outb k tok exs_l).

(* following the tokens with one source page per answer, from the start to the answer that is `done` *)
Fixpoint ex_chain (fuel : nat) (tok : option bytes) : list (bool * N * nat * option bytes) :=
  match fuel with
  | O => []
  | S f =>
      match paginate_pagelinks 1 ex_ps1 true true (Some 1) tok exs_l with
      | ROk r => (ex_same ex_ps1 true true (Some 1) tok, lr_sources r, length (lr_links r), lr_token r) ::
                 match lr_token r with Some t => ex_chain f (Some t) | None => [] end
      | _ => []
      end
  end.

(* page counts 1..3 and no limit, the three admissible settings of the switches (both off: refused on both sides) *)
Example ex_paginate_links_agree :
  map (fun k => ex_same ex_ps1 true true k None) [Some 1; Some 2; Some 3; None] = [true; true; true; true] /\
  map (fun '(int, outb) => ex_same ex_ps1 int outb (Some 1) None) [(true, false); (false, true); (false, false)]
    = [true; true; true] /\
  map (fun '(int, outb) => ex_same ex_ps1 int outb None None) [(true, false); (false, true); (false, false)]
    = [true; true; true] /\
  py_traph_paginate_webentity_pagelinks ex_sgt ex_sgl 1 ex_ps1 false false (Some 1) None = None /\
  paginate_pagelinks 1 ex_ps1 false false (Some 1) None exs_l = RRefused.
Proof. vm_compute. repeat split; reflexivity. Qed.

(* the first answer with one source page: the three links of ex_pa, not done, token "0#b" *)
Example ex_paginate_links_first :
  option_map snd (py_traph_paginate_webentity_pagelinks ex_sgt ex_sgl 1 ex_ps1 true true (Some 1) None)
    = Some (mk_la false 1 3 [(ex_pa, ex_pa, 1); (ex_pa, ex_pb, 2); (ex_pa, ex_pl, 1)] (Some [48; 35; 98])) /\
  paginate_pagelinks 1 ex_ps1 true true (Some 1) None exs_l
    = ROk (mkLR false 1 [(ex_pa, ex_pa, 1); (ex_pa, ex_pb, 2); (ex_pa, ex_pl, 1)] (Some [48; 35; 98])).
Proof. vm_compute. split; reflexivity. Qed.

(* along the token chain the two sides agree; the chain ends with a `done` answer *)
Example ex_paginate_links_chain :
  forallb (fun x => fst (fst (fst x))) (ex_chain 8 None) = true /\
  map (fun x => (snd (fst (fst x)), snd (fst x))) (ex_chain 8 None) = [(1, 3%nat); (1, 1%nat)] /\
  option_map snd (last (map Some (ex_chain 8 None)) None) = Some None.
Proof. vm_compute. repeat split; reflexivity. Qed.

(* raises: a malformed token, a token whose path cannot be followed (RCrash), an absent prefix (RRefused) -- None on the
   code's side; a token whose prefix index is beyond the list: the empty `done` answer on both sides *)
Example ex_paginate_links_raises :
  py_traph_paginate_webentity_pagelinks ex_sgt ex_sgl 1 ex_ps1 true true (Some 1) (Some [120]) = None /\
  paginate_pagelinks 1 ex_ps1 true true (Some 1) (Some [120]) exs_l = RCrash /\
  py_traph_paginate_webentity_pagelinks ex_sgt ex_sgl 1 ex_ps1 true true (Some 1) (Some [48; 35; 100; 100; 100; 100]) = None /\
  paginate_pagelinks 1 ex_ps1 true true (Some 1) (Some [48; 35; 100; 100; 100; 100]) exs_l = RCrash /\
  py_traph_paginate_webentity_pagelinks ex_sgt ex_sgl 1 ex_ps1_absent true true None None = None /\
  paginate_pagelinks 1 ex_ps1_absent true true None None exs_l = RRefused /\
  ex_same ex_ps1_absent true true (Some 1) None = true /\
  option_map snd (py_traph_paginate_webentity_pagelinks ex_sgt ex_sgl 1 ex_ps1 true true (Some 1) (Some [57; 35; 97]))
    = Some (mk_la true 0 0 [] None) /\
  paginate_pagelinks 1 ex_ps1 true true (Some 1) (Some [57; 35; 97]) exs_l = ROk (mkLR true 0 [] None).
Proof. vm_compute. repeat split; reflexivity. Qed.

(* the hypotheses of the theorem are met by that history and the two files, and the theorem then gives the reply above *)
Example ex_paginate_links_by_theorem : exists sg',
  py_traph_paginate_webentity_pagelinks ex_sgt ex_sgl 1 ex_ps1 true true (Some 1) None
    = Some (sg', mk_la false 1 3 [(ex_pa, ex_pa, 1); (ex_pa, ex_pb, 2); (ex_pa, ex_pl, 1)] (Some [48; 35; 98])) /\
  trep (files_of exs_l) sg' /\ pm_array sg' = pm_array ex_sgt.
Proof.
  assert (H1 : fits (nb exs_l * bsz)) by (vm_compute; reflexivity).
  assert (H2 : fits (saddr (length (stubs exs_l)))) by (vm_compute; reflexivity).
  assert (Hw : 1 <> 0) by discriminate.
  assert (Hk : 0 < 1) by reflexivity.
  assert (Ht : @None bytes <> Some []) by discriminate.
  pose proof (py_traph_paginate_pagelinks_closed Domain [] exh_l ex_rules_wf exh_l_wf ex_sgt ex_sgl 1 ex_ps1 true true
                (Some 1) None ex_trep_l ex_lrep_l H1 H2 ex_ps1_wf Hw Hk Ht) as H.
  replace (paginate_pagelinks 1 ex_ps1 true true (Some 1) None (run Domain [] exh_l))
    with (ROk (mkLR false 1 [(ex_pa, ex_pa, 1); (ex_pa, ex_pb, 2); (ex_pa, ex_pl, 1)] (Some [48; 35; 98]))) in H
    by (vm_compute; reflexivity).
  exact H.
Qed.

Print Assumptions ex_paginate_links_by_theorem.
