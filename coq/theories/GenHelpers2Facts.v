(* GenHelpers2Facts.v — the loop-carrying functions TRANSLATED from /repo/traph/helpers.py on this run
   (GenHelpers2.v: lru_iter, lru_dirname, int_to_base4, int_to_base64, base64_to_int,
   build_pagination_token) are equal, on ALL inputs, to the hand-written model (Helpers.v).
   A change to one of these Python functions changes GenHelpers2.v and these proofs no longer go through. *)
From Coq Require Import List NArith Bool Lia Arith.
Import ListNotations.
From Traph Require Import Bytes Consts Helpers TokenFacts GenHelpers2.
Open Scope N_scope.

Arguments N.shiftr : simpl never.
Arguments N.modulo : simpl never.
Arguments N.div : simpl never.
Arguments N.mul : simpl never.
Arguments N.add : simpl never.
Arguments N.sub : simpl never.
Arguments N.pow : simpl never.

(* ---- generic list facts ----------------------------------------------------------- *)
Lemma py_range_length : forall (A : Type) (l : list A),
  py_range (N.of_nat (length l)) = map N.of_nat (seq 0 (length l)).
Proof. intros A l. unfold py_range. rewrite Nat2N.id. reflexivity. Qed.

Lemma beq_single : forall x y, beq [x] [y] = (x =? y).
Proof.
  intros x y. unfold beq. cbn [lex]. rewrite N.eqb_compare.
  destruct (x ?= y); reflexivity.
Qed.

Lemma skipn_app_le : forall (A : Type) (n : nat) (a b : list A), (n <= length a)%nat ->
  skipn n (a ++ b) = skipn n a ++ b.
Proof.
  intros A n a b H. rewrite skipn_app.
  replace (n - length a)%nat with 0%nat by lia. reflexivity.
Qed.

Lemma py_slice_at : forall pre x rest,
  py_slice (N.of_nat (length pre)) (N.of_nat (length pre) + 1) (pre ++ x :: rest) = [x].
Proof.
  intros pre x rest. unfold py_slice.
  replace (N.of_nat (length pre) + 1 - N.of_nat (length pre)) with 1 by lia.
  rewrite Nat2N.id, skipn_app_le by lia. rewrite skipn_all. reflexivity.
Qed.

Lemma py_slice_upto : forall pre x rest last, (last <= length pre)%nat ->
  py_slice (N.of_nat last) (N.of_nat (length pre) + 1) (pre ++ x :: rest) = skipn last pre ++ [x].
Proof.
  intros pre x rest last H. unfold py_slice.
  rewrite Nat2N.id, skipn_app_le by lia.
  replace (N.to_nat (N.of_nat (length pre) + 1 - N.of_nat last))
    with (length (skipn last pre ++ [x]) + 0)%nat
    by (rewrite app_length, skipn_length; cbn [length]; lia).
  change (skipn last pre ++ x :: rest) with (skipn last pre ++ [x] ++ rest).
  rewrite app_assoc, firstn_app_2. cbn [firstn]. apply app_nil_r.
Qed.

(* ---- 1. lru_iter -------------------------------------------------------------------- *)
Definition lru_step (l : bytes) (st : list bytes * N) (i : N) : list bytes * N :=
  let '(out, last) := st in
  if beq (py_slice i (i + 1) l) [124]
  then (out ++ [py_slice last (i + 1) l], i + 1)
  else (out, last).

Lemma py_lru_iter_unfold : forall l,
  py_lru_iter l = fst (fold_left (lru_step l) (py_range (N.of_nat (length l))) ([], 0)).
Proof.
  intros l. unfold py_lru_iter. cbv zeta.
  match goal with |- (let '(a, b) := ?X in a) = fst ?Y => change X with Y; destruct Y; reflexivity end.
Qed.

Lemma lru_step_at : forall pre x rest out last, (last <= length pre)%nat ->
  lru_step (pre ++ x :: rest) (out, N.of_nat last) (N.of_nat (length pre)) =
  if x =? sep then (out ++ [skipn last pre ++ [x]], N.of_nat (S (length pre)))
  else (out, N.of_nat last).
Proof.
  intros pre x rest out last H. unfold lru_step.
  rewrite py_slice_at, beq_single, py_slice_upto by assumption.
  replace (N.of_nat (length pre) + 1) with (N.of_nat (S (length pre))) by lia.
  reflexivity.
Qed.

Lemma lru_fold : forall rest pre l out last, l = pre ++ rest -> (last <= length pre)%nat ->
  fst (fold_left (lru_step l) (map N.of_nat (seq (length pre) (length rest))) (out, N.of_nat last))
  = out ++ lru_iter_from (skipn last pre) rest.
Proof.
  induction rest as [|x rest IH]; intros pre l out last Hl Hlast.
  - cbn. symmetry. apply app_nil_r.
  - cbn [length seq map fold_left lru_iter_from]. subst l.
    rewrite lru_step_at by assumption.
    assert (Hl' : pre ++ x :: rest = (pre ++ [x]) ++ rest) by (rewrite <- app_assoc; reflexivity).
    assert (Hlen : S (length pre) = length (pre ++ [x])) by (rewrite app_length; cbn [length]; lia).
    destruct (N.eqb_spec x sep) as [Hx|Hx].
    + rewrite Hlen.
      rewrite (IH (pre ++ [x]) _ _ (length (pre ++ [x])) Hl' (le_n _)).
      rewrite skipn_all. subst x. rewrite <- app_assoc. reflexivity.
    + rewrite Hlen.
      rewrite (IH (pre ++ [x]) _ _ last Hl') by (rewrite <- Hlen; lia).
      rewrite skipn_app_le by assumption. reflexivity.
Qed.

Theorem py_lru_iter_eq : forall l, py_lru_iter l = lru_iter l.
Proof.
  intros l. rewrite py_lru_iter_unfold, py_range_length.
  exact (lru_fold l [] l [] 0%nat eq_refl (le_n _)).
Qed.

(* ---- 2. lru_dirname ----------------------------------------------------------------- *)
Theorem py_lru_dirname_eq : forall l, py_lru_dirname l = lru_dirname l.
Proof. intros l. unfold py_lru_dirname, lru_dirname. rewrite py_lru_iter_eq. reflexivity. Qed.

(* ---- 3/4. int_to_base64 / int_to_base4 ---------------------------------------------- *)
(* the `while x:` loop of both functions, with the base b and the shift s as parameters *)
Definition gloop (b s : N) :=
  fix py_loop (fuel : nat) (st : list bytes * N) {struct fuel} : list bytes * N :=
    match fuel with
    | O => st
    | S fuel' =>
        let '(v_digits, v_x) := st in
        if negb (N.eqb v_x 0)
        then py_loop fuel' (v_digits ++ [py_base64_at (N.modulo v_x b)], N.shiftr v_x s)
        else st
    end.

Lemma gloop_S : forall b s f d x,
  gloop b s (S f) (d, x) =
  if negb (x =? 0) then gloop b s f (d ++ [py_base64_at (x mod b)], N.shiftr x s) else (d, x).
Proof. reflexivity. Qed.

Lemma gloop_spec : forall b s, b = 2 ^ s -> 2 <= b ->
  forall fuel x d, x < 2 ^ N.of_nat fuel ->
  fst (gloop b s fuel (d, x)) = d ++ rev (map py_base64_at (to_digits b x)).
Proof.
  intros b s Hb H2. induction fuel as [|f IH]; intros x d Hx.
  - change (2 ^ N.of_nat 0) with 1 in Hx. assert (x = 0) as -> by lia.
    rewrite to_digits_0. cbn [map rev]. rewrite app_nil_r. reflexivity.
  - rewrite gloop_S. destruct (N.eqb_spec x 0) as [->|Hne]; cbn [negb].
    + rewrite to_digits_0. cbn [map rev fst]. rewrite app_nil_r. reflexivity.
    + rewrite N.shiftr_div_pow2, <- Hb.
      rewrite IH by (apply div_fuel; assumption).
      rewrite (to_digits_step b x) by assumption.
      rewrite map_app, rev_app_distr. cbn [map rev app].
      rewrite <- app_assoc. reflexivity.
Qed.

Lemma py_base64_at_lt : forall d, d < 64 -> py_base64_at d = [b64_char d].
Proof.
  intros d H. unfold py_base64_at, py_char_at, b64_char.
  rewrite (nth_error_nth' base64_alphabet 0); [reflexivity|].
  change (length base64_alphabet) with 64%nat. lia.
Qed.

Lemma concat_b64 : forall ds, (forall d, In d ds -> d < 64) ->
  concat (map py_base64_at ds) = map b64_char ds.
Proof.
  induction ds as [|d ds IH]; intros H; [reflexivity|].
  cbn [map concat]. rewrite py_base64_at_lt by (apply H; left; reflexivity).
  rewrite IH by (intros d' Hd'; apply H; right; assumption). reflexivity.
Qed.

Lemma gloop_digits : forall b s x, b = 2 ^ s -> 2 <= b -> b <= 64 ->
  (let '(ds, _) := gloop b s (S (N.size_nat x)) ([], x) in concat (rev ds))
  = map b64_char (to_digits b x).
Proof.
  intros b s x Hb H2 H64.
  assert (Hx : x < 2 ^ N.of_nat (S (N.size_nat x))).
  { pose proof (size_nat_gt x) as Hs. rewrite Nat2N.inj_succ, N.pow_succ_r'. lia. }
  pose proof (gloop_spec b s Hb H2 (S (N.size_nat x)) x [] Hx) as Hg.
  destruct (gloop b s (S (N.size_nat x)) ([], x)) as [ds x'].
  cbn [fst app] in Hg. subst ds. rewrite rev_involutive.
  apply concat_b64. intros d Hd. apply to_digits_bound in Hd; [lia|assumption].
Qed.

Lemma py_int_to_base64_unfold : forall x,
  py_int_to_base64 x =
  if x =? 0 then py_base64_at 0
  else (let '(ds, _) := gloop 64 6 (S (N.size_nat x)) ([], x) in concat (rev ds)).
Proof. reflexivity. Qed.

Lemma py_int_to_base4_unfold : forall x,
  py_int_to_base4 x =
  if x =? 0 then py_base64_at 0
  else (let '(ds, _) := gloop 4 2 (S (N.size_nat x)) ([], x) in concat (rev ds)).
Proof. reflexivity. Qed.

Theorem py_int_to_base64_eq : forall x, py_int_to_base64 x = int_to_base64 x.
Proof.
  intros x. rewrite py_int_to_base64_unfold. unfold int_to_base64.
  destruct (x =? 0); [reflexivity|].
  apply (gloop_digits 64 6 x eq_refl); lia.
Qed.

Theorem py_int_to_base4_eq : forall x, py_int_to_base4 x = map b64_char (int_to_base4 x).
Proof.
  intros x. rewrite py_int_to_base4_unfold. unfold int_to_base4.
  destruct (x =? 0); [reflexivity|].
  apply (gloop_digits 4 2 x eq_refl); lia.
Qed.

(* ---- 5. base64_to_int --------------------------------------------------------------- *)
Lemma py_index_of_eq : forall c l i, py_index_of c l i = index_of c l i.
Proof. intros c l. induction l as [|y l IH]; intros i; cbn; [reflexivity|]. rewrite IH. reflexivity. Qed.

(* one round of the Python loop, on the character itself *)
Definition b64_round (st : option (N * N)) (c : N) : option (N * N) :=
  match st with
  | None => None
  | Some (p, x) => match b64_index c with
                   | Some v => Some (p * 64, x + v * p)
                   | None => None
                   end
  end.

(* one round of the Python loop, on the index *)
Definition b64_round_at (s : bytes) (st : option (N * N)) (i : N) : option (N * N) :=
  match st with
  | None => None
  | Some (p, x) => match py_base64_index (py_char_at s i) with
                   | Some v => Some (p * 64, x + v * p)
                   | None => None
                   end
  end.

Lemma py_base64_to_int_unfold : forall s,
  py_base64_to_int s =
  match fold_left (b64_round_at s) (rev (py_range (N.of_nat (length s)))) (Some (1, 0)) with
  | None => None
  | Some (_, x) => Some x
  end.
Proof. reflexivity. Qed.

Lemma b64_round_at_nth : forall pre c rest st,
  b64_round_at (pre ++ c :: rest) st (N.of_nat (length pre)) = b64_round st c.
Proof.
  intros pre c rest st. unfold b64_round_at, b64_round.
  destruct st as [[p x]|]; [|reflexivity].
  unfold py_char_at. rewrite Nat2N.id, nth_error_app2 by lia.
  rewrite Nat.sub_diag. cbn [nth_error py_base64_index].
  rewrite py_index_of_eq. reflexivity.
Qed.

Lemma b64_fold_right : forall rest pre s st, s = pre ++ rest ->
  fold_right (fun i st => b64_round_at s st i) st (map N.of_nat (seq (length pre) (length rest)))
  = fold_right (fun c st => b64_round st c) st rest.
Proof.
  induction rest as [|c rest IH]; intros pre s st Hs; [reflexivity|].
  cbn [length seq map fold_right].
  assert (Hs' : s = (pre ++ [c]) ++ rest) by (rewrite <- app_assoc; exact Hs).
  assert (Hlen : S (length pre) = length (pre ++ [c])) by (rewrite app_length; cbn [length]; lia).
  rewrite Hlen, (IH (pre ++ [c]) s st Hs').
  rewrite Hs at 1. apply b64_round_at_nth.
Qed.

Lemma base64_to_int_acc_fold : forall s acc,
  base64_to_int_acc s acc =
  match fold_right (fun c st => b64_round st c) (Some (1, 0)) s with
  | Some (p, x) => Some (acc * p + x)
  | None => None
  end.
Proof.
  induction s as [|c s IH]; intros acc.
  - cbn [base64_to_int_acc fold_right]. f_equal. lia.
  - cbn [base64_to_int_acc fold_right]. unfold b64_round at 1.
    destruct (b64_index c) as [v|].
    + rewrite IH.
      destruct (fold_right (fun c st => b64_round st c) (Some (1, 0)) s) as [[p x]|]; [|reflexivity].
      f_equal. lia.
    + destruct (fold_right (fun c st => b64_round st c) (Some (1, 0)) s) as [[p x]|]; reflexivity.
Qed.

Theorem py_base64_to_int_eq : forall s, py_base64_to_int s = base64_to_int s.
Proof.
  intros s. rewrite py_base64_to_int_unfold, py_range_length.
  rewrite <- fold_left_rev_right, rev_involutive.
  pose proof (b64_fold_right s [] s (Some (1, 0)) eq_refl) as Hf.
  change (length (@nil N)) with 0%nat in Hf. rewrite Hf. clear Hf.
  unfold base64_to_int. rewrite base64_to_int_acc_fold.
  destruct (fold_right (fun c st => b64_round st c) (Some (1, 0)) s) as [[p x]|]; reflexivity.
Qed.

(* ---- 6. build_pagination_token ------------------------------------------------------ *)
Theorem py_build_pagination_token_eq : forall i p, py_build_pagination_token i p = build_token i p.
Proof.
  intros i p. unfold py_build_pagination_token, build_token, py_fmt_int, hash_char.
  rewrite py_int_to_base64_eq. reflexivity.
Qed.

Print Assumptions py_lru_iter_eq.
Print Assumptions py_lru_dirname_eq.
Print Assumptions py_int_to_base64_eq.
Print Assumptions py_int_to_base4_eq.
Print Assumptions py_base64_to_int_eq.
Print Assumptions py_build_pagination_token_eq.
