(* SchedFacts5.v — add_webentity_creation_rule_iter as a coroutine (rule_step of Sched.v):
   one turn keeps the run invariant SInv, creates no page and no link (the abstract
   page list and link list are unchanged), and keeps the coroutine's own invariant
   RInv: every (block, lru above) pair on its stack names a node of the tree together
   with the LRU of the level above it.  RInv survives the steps of the other
   coroutines because a path keeps its block address (tree_ext). *)
From Coq Require Import List NArith Bool Lia Arith Permutation.
Import ListNotations.
From Traph Require Import Bytes Consts Helpers Rules Tst TstDefs Traph Spec Ops RefDefs TstFacts
  ViewFacts ViewFacts2 RefCore RefCore3 LinkFacts LinkFacts2 LinkFacts3 RefFull
  Sched SchedFacts SchedFacts2 SchedFacts3 SchedFacts4.
Open Scope N_scope.

(* ====================================================================== *)
(* the invariant of a rule-installation coroutine                         *)
(* ====================================================================== *)

(* a stack entry: the block of a node at some path p; the second component is the LRU
   of the level above *)
Definition rentry_ok (t : tst) (e : N * bytes) : Prop :=
  exists p d, find p t = Some d /\ addr d = fst e /\ concat (removelast p) = snd e.

Definition RInv (r : rco) (s : traph) : Prop :=
  (forall p k, r_init r = Some (p, k) -> wf_lru p) /\
  (r_init r = None -> exists p0 d0, find p0 (tr s) = Some d0 /\ addr d0 = r_start r) /\
  Forall (rentry_ok (tr s)) (r_pend r ++ r_stack r).

Lemma rentry_ext : forall s s' e, tree_ext s s' -> rentry_ok (tr s) e -> rentry_ok (tr s') e.
Proof.
  intros s s' e Hx (p & d & H1 & H2 & H3). destruct (Hx _ _ H1) as (d' & H1' & E').
  exists p, d'. split; [exact H1'|]. split; [congruence|exact H3].
Qed.

(* the steps of the other coroutines keep it *)
Lemma RInv_ext : forall r s s', tree_ext s s' -> RInv r s -> RInv r s'.
Proof.
  intros r s s' Hx (H1 & H2 & H3). split; [exact H1|]. split.
  - intro E. destruct (H2 E) as (p0 & d0 & Hf & Ha). destruct (Hx _ _ Hf) as (d' & Hf' & E').
    exists p0, d'. split; [exact Hf'|congruence].
  - apply Forall_forall. intros e He. rewrite Forall_forall in H3. apply (rentry_ext s s' e Hx (H3 e He)).
Qed.

Lemma RInv_start : forall p k s, wf_lru p -> RInv (rule_start p k) s.
Proof.
  intros p k s Hp. split; [|split].
  - intros p' k' E. cbn [rule_start r_init] in E. injection E as <- _. exact Hp.
  - intro E. discriminate.
  - constructor.
Qed.

(* pushing the root of a subtree *)
Lemma sub_rentry : forall t pp sub pre, wf_tst t -> incl (paths pp sub) (paths [] t) ->
  concat pp = pre -> Forall (rentry_ok t) (nz (root_addr sub) pre).
Proof.
  intros t pp sub pre Hwf Hi Hc. unfold nz. destruct sub as [|ds ls cs rs]; cbn [root_addr].
  - constructor.
  - destruct (addr ds =? 0); constructor; [|constructor].
    exists (pp ++ [stem ds]), ds. cbn [fst snd]. split; [|split; [reflexivity|]].
    + apply (paths_find t Hwf). apply Hi. cbn [paths]. left. reflexivity.
    + rewrite removelast_last. exact Hc.
Qed.

(* ====================================================================== *)
(* the two halves of a turn                                               *)
(* ====================================================================== *)

(* RAM rule + add_lru + flag *)
Definition rule_setup (p : bytes) (k : rulekind) (s : traph) : traph :=
  let s0 := mkT (tr s) (nb s) (lastwe s) (stubs s) (aset p k (rules s)) (dflt s) in
  let s1 := fst (add_lru false p s0) in
  set_tree (upd (set_rule true) (lru_iter p) (tr s1)) s1.

Definition rule_pre (r : rco) (s : traph) : rco * traph :=
  match r_init r with
  | Some (p, k) =>
      let s2 := rule_setup p k s in
      (mkRC None (addr_of p s2) [(addr_of p s2, lru_dirname p)] [] 0 [] false, s2)
  | None => (r, s)
  end.

(* one node of the dfs *)
Definition rule_dfs (r0 : rco) (s0 : traph) : rco * traph :=
  match r_pend r0 ++ r_stack r0 with
  | [] => (mkRC None (r_start r0) [] [] (r_n r0) (r_c r0) true, s0)
  | (a, pre) :: rest =>
      match read_at a (tr s0) with
      | None => (mkRC None (r_start r0) rest [] (r_n r0) (r_c r0) false, s0)
      | Some x =>
          let cur := pre ++ stem (rn_d x) in
          let '(s1, n', c') := if page (rn_d x) then add_page_int cur false s0 else (s0, 0, []) in
          let pend := nz (rn_child x) cur
                        ++ (if a =? r_start r0 then [] else nz (rn_left x) pre ++ nz (rn_right x) pre) in
          (mkRC None (r_start r0) rest pend (r_n r0 + n') (r_c r0 ++ c') false, s1)
      end
  end.

Lemma rule_step_eq : forall r s, rule_step r s = rule_dfs (fst (rule_pre r s)) (snd (rule_pre r s)).
Proof.
  intros r s. unfold rule_step, rule_pre, rule_setup. destruct (r_init r) as [[p k]|]; [|reflexivity].
  destruct (add_lru false p _) as [s1 h1]. reflexivity.
Qed.

(* what a turn (or a half of it) guarantees *)
Definition rule_post (r : rco) (s : traph) (a : astate) (go gi : links) (r' : rco) (s' : traph) : Prop :=
  exists a', SInv s' a' go gi /\ RInv r' s' /\ a_pages a' = a_pages a /\ a_links a' = a_links a /\
             step_ok s s'.

Lemma pages_mono_eq : forall a a', a_pages a' = a_pages a -> pages_mono a a'.
Proof. intros a a' E x (c & Hc). exists c. rewrite E. exact Hc. Qed.

Lemma rule_setup_inv : forall p k s a go gi, SInv s a go gi -> wf_lru p ->
  exists a', SInv (rule_setup p k s) a' go gi /\ a_pages a' = a_pages a /\ a_links a' = a_links a /\
             step_ok s (rule_setup p k s) /\ nodeof (rule_setup p k s) p <> None.
Proof.
  intros p k s a go gi HS Hp. unfold rule_setup.
  pose proof (SI_core _ _ _ _ HS) as HC. pose proof (SI_good _ _ _ _ HS) as Hg.
  set (s0 := mkT (tr s) (nb s) (lastwe s) (stubs s) (aset p k (rules s)) (dflt s)).
  set (a0 := mkA (a_pages a) (a_known a) (a_pref a) (a_links a) (a_last a) (a_flags a)
                 (aset p k (rules s)) (a_dflt a)).
  assert (HR0 : Rcore s0 a0) by (apply Rcore_set_rules; exact HC).
  assert (St0 : step_ok s s0) by (apply frame_step; [exact Hg|reflexivity|reflexivity|reflexivity]).
  pose proof (add_lru_Rcore false p s0 a0 Hp HR0) as HR1.
  pose proof (add_lru_step false p s0 (step_good _ _ St0)) as St1.
  pose proof (add_lru_self false p s0 Hp) as Hself.
  set (s1 := fst (add_lru false p s0)) in *.
  destruct (nodeof s1 p) as [d|] eqn:Hd; [|congruence].
  pose proof (set_rule_Rcore s1 _ p d true HR1 Hp Hd) as HR2.
  pose proof (set_tree_upd_step (set_rule true) (lru_iter p) s1 (neutral_set_rule true) (step_good _ _ St1)) as St2.
  change (set_tree (upd (set_rule true) (lru_iter p) (tr s1)) s1) with (updl (set_rule true) p s1) in *.
  pose proof (step_trans _ _ _ St0 (step_trans _ _ _ St1 St2)) as St.
  eexists. split; [|split; [|split; [|split; [exact St|]]]].
  - apply (SInv_tree s a go gi _ _ HS St HR2). apply pages_mono_eq. reflexivity.
  - reflexivity.
  - reflexivity.
  - unfold nodeof, updl. cbn [tr set_tree set_tr]. unfold nodeof in Hd.
    rewrite find_upd_same by (intro; reflexivity). rewrite Hd. discriminate.
Qed.

Lemma rule_pre_inv : forall r s a go gi, SInv s a go gi -> RInv r s ->
  rule_post r s a go gi (fst (rule_pre r s)) (snd (rule_pre r s)) /\ r_init (fst (rule_pre r s)) = None.
Proof.
  intros r s a go gi HS HR. pose proof HR as (H1 & H2 & H3).
  unfold rule_pre. destruct (r_init r) as [[p k]|] eqn:Ei.
  - cbn [fst snd]. split; [|reflexivity].
    destruct (rule_setup_inv p k s a go gi HS (H1 p k eq_refl)) as (a' & HS' & Ep & El & St & Hn).
    exists a'. split; [exact HS'|]. split; [|auto].
    unfold nodeof in Hn. unfold addr_of.
    destruct (find (lru_iter p) (tr (rule_setup p k s))) as [d|] eqn:Ef; [|congruence].
    split; [intros p' k' E; discriminate|]. split.
    + intros _. exists (lru_iter p), d. cbn [r_start]. auto.
    + cbn [r_pend r_stack app]. constructor; [|constructor].
      exists (lru_iter p), d. cbn [fst snd]. split; [exact Ef|]. split; reflexivity.
  - cbn [fst snd]. split; [|exact Ei].
    exists a. split; [exact HS|]. split; [exact HR|].
    split; [reflexivity|]. split; [reflexivity|]. apply step_refl. apply (SI_good _ _ _ _ HS).
Qed.

(* re-submitting an existing page as uncrawled changes neither the pages nor the links *)
Lemma s_add_page_again : forall l c a, NoDup (map fst (a_pages a)) -> In (l, c) (a_pages a) ->
  a_pages (fst (fst (s_add_page l false a))) = a_pages a.
Proof.
  intros l c a Hnd Hin. rewrite s_add_page_pages. unfold pages_after.
  apply (ViewFacts.aget_In _ l c Hnd) in Hin. rewrite Hin, orb_false_r.
  apply aset_aget_same. exact Hin.
Qed.

Lemma rule_dfs_inv : forall r s a go gi, SInv s a go gi -> RInv r s -> r_init r = None ->
  rule_post r s a go gi (fst (rule_dfs r s)) (snd (rule_dfs r s)).
Proof.
  intros r s a go gi HS (H1 & H2 & H3) Ei. unfold rule_dfs.
  pose proof (SI_core _ _ _ _ HS) as HC. pose proof (SI_good _ _ _ _ HS) as Hg.
  pose proof (R_wf s a HC) as Hwf. pose proof (proj2 (proj2 Hg)) as Hok.
  destruct (H2 Ei) as (p0 & d0 & Hf0 & Ha0).
  assert (Hsame : forall r', r_init r' = None -> r_start r' = r_start r ->
            Forall (rentry_ok (tr s)) (r_pend r' ++ r_stack r') -> rule_post r s a go gi r' s).
  { intros r' E1 E2 E3. exists a. split; [exact HS|]. split.
    - split; [intros p k E; congruence|]. split; [|exact E3].
      intros _. exists p0, d0. split; [exact Hf0|congruence].
    - split; [reflexivity|]. split; [reflexivity|]. apply step_refl. exact Hg. }
  destruct (r_pend r ++ r_stack r) as [|[ad pre] rest] eqn:Est.
  - cbn [fst snd]. apply Hsame; [reflexivity|reflexivity|constructor].
  - inversion H3 as [|? ? He Hrest]; subst.
    destruct (read_at ad (tr s)) as [x|] eqn:Er.
    + destruct He as (p & d & Hfp & Hda & Hpre). cbn [fst snd] in Hda, Hpre.
      destruct (read_at_paths (tr s) [] ad x Er) as (pp & l & c & rr & Hxa & Hl & Hr & Hc & Hin & Il & Ir & Ic).
      apply (paths_find (tr s) Hwf) in Hin.
      assert (Ep : p = pp ++ [stem (rn_d x)]).
      { apply (proj2 Hok p _ d (rn_d x) Hfp Hin). congruence. }
      subst p. rewrite removelast_last in Hpre.
      assert (Ed : d = rn_d x) by congruence. subst d.
      assert (Ecur : pre ++ stem (rn_d x) = concat (pp ++ [stem (rn_d x)]))
        by (rewrite concat_snoc, Hpre; reflexivity).
      (* the pushes are entries of the tree as read *)
      match goal with |- context [mkRC None (r_start r) rest ?P _ _ false] => set (pend := P) end.
      assert (Hpend : Forall (rentry_ok (tr s)) pend).
      { unfold pend. apply Forall_app. split.
        - rewrite Hc. apply (sub_rentry (tr s) (pp ++ [stem (rn_d x)]) c _ Hwf Ic). symmetry. exact Ecur.
        - destruct (ad =? r_start r); [constructor|]. apply Forall_app. split.
          + rewrite Hl. apply (sub_rentry (tr s) pp l _ Hwf Il Hpre).
          + rewrite Hr. apply (sub_rentry (tr s) pp rr _ Hwf Ir Hpre). }
      clearbody pend.
      destruct (page (rn_d x)) eqn:Hpg.
      * (* a page: re-insert it *)
        destruct (find_nodeof s _ _ Hwf Hin) as (Hwl & Hn). rewrite <- Ecur in Hwl, Hn.
        set (cur := pre ++ stem (rn_d x)) in *.
        assert (Hpage : In (cur, crawled (rn_d x)) (a_pages a)).
        { apply (R_pages s a HC cur _ Hwl). exists (rn_d x). auto. }
        pose proof (add_page_int_Rcore cur false s a Hwl HC) as (HC' & _ & _).
        pose proof (add_page_int_step cur false s Hg) as St.
        pose proof (s_add_page_again cur _ a (R_pages_nodup s a HC) Hpage) as Epg.
        destruct (add_page_int cur false s) as [[s1 n'] c']. cbn [fst snd] in *.
        pose proof (step_ok_ext _ _ St) as Hx.
        exists (fst (fst (s_add_page cur false a))).
        split; [apply (SInv_tree s a go gi _ _ HS St HC'); apply pages_mono_eq; exact Epg|].
        split; [|split; [exact Epg|split; [apply s_add_page_links|exact St]]].
        split; [intros p' k' E; discriminate|]. split.
        -- intros _. destruct (Hx _ _ Hf0) as (d' & Hf' & E'). exists p0, d'. cbn [r_start]. split; [exact Hf'|congruence].
        -- cbn [r_pend r_stack]. apply Forall_forall. intros e He.
           apply (rentry_ext s s1 e Hx). apply in_app_or in He. rewrite Forall_forall in Hpend, Hrest.
           destruct He as [He|He]; auto.
      * cbn [fst snd]. apply Hsame; [reflexivity|reflexivity|]. cbn [r_pend r_stack]. apply Forall_app. auto.
    + cbn [fst snd]. apply Hsame; [reflexivity|reflexivity|exact Hrest].
Qed.

Lemma rule_post_trans : forall r s a go gi r1 s1 r2 s2,
  rule_post r s a go gi r1 s1 ->
  (forall a1, SInv s1 a1 go gi -> rule_post r1 s1 a1 go gi r2 s2) ->
  rule_post r s a go gi r2 s2.
Proof.
  intros r s a go gi r1 s1 r2 s2 (a1 & HS1 & HR1 & Ep1 & El1 & St1) H.
  destruct (H a1 HS1) as (a2 & HS2 & HR2 & Ep2 & El2 & St2).
  exists a2. split; [exact HS2|]. split; [exact HR2|]. split; [congruence|]. split; [congruence|].
  apply (step_trans _ _ _ St1 St2).
Qed.

(* ====================================================================== *)
(* E1, one turn                                                           *)
(* ====================================================================== *)

Theorem rule_step_inv : forall r s a go gi, SInv s a go gi -> RInv r s ->
  exists a', SInv (snd (rule_step r s)) a' go gi /\ RInv (fst (rule_step r s)) (snd (rule_step r s)) /\
             a_pages a' = a_pages a /\ a_links a' = a_links a /\ step_ok s (snd (rule_step r s)).
Proof.
  intros r s a go gi HS HR. rewrite rule_step_eq.
  destruct (rule_pre_inv r s a go gi HS HR) as (Hpost & Ei).
  apply (rule_post_trans r s a go gi _ _ _ _ Hpost).
  intros a1 HS1. destruct Hpost as (a1' & _ & HR1 & _).
  apply (rule_dfs_inv _ _ a1 go gi HS1 HR1 Ei).
Qed.

(* the form asked for: pages as a set *)
Corollary rule_step_inv_set : forall r s a go gi, SInv s a go gi -> RInv r s ->
  let '(r', s') := rule_step r s in
  exists a', SInv s' a' go gi /\ RInv r' s' /\
             (forall l c, In (l, c) (a_pages a') <-> In (l, c) (a_pages a)) /\ a_links a' = a_links a.
Proof.
  intros r s a go gi HS HR. destruct (rule_step_inv r s a go gi HS HR) as (a' & H1 & H2 & H3 & H4 & _).
  destruct (rule_step r s) as [r' s']. cbn [fst snd] in *.
  exists a'. split; [exact H1|]. split; [exact H2|]. split; [|exact H4]. intros l c. rewrite H3. reflexivity.
Qed.

Lemma rule_step_ext : forall r s a go gi, SInv s a go gi -> RInv r s -> tree_ext s (snd (rule_step r s)).
Proof.
  intros r s a go gi HS HR. destruct (rule_step_inv r s a go gi HS HR) as (a' & _ & _ & _ & _ & St).
  apply step_ok_ext. exact St.
Qed.

(* a turn: nothing for a finished coroutine *)
Definition rstep (r : rco) (s : traph) : rco * traph := if r_done r then (r, s) else rule_step r s.

Lemma co_step_rule : forall r s, co_step (CRule r) s = (CRule (fst (rstep r s)), snd (rstep r s)).
Proof.
  intros r s. unfold co_step, rstep. cbn [co_done]. destruct (r_done r); [reflexivity|].
  destruct (rule_step r s) as [r' s']. reflexivity.
Qed.

Corollary rstep_inv : forall r s a go gi, SInv s a go gi -> RInv r s ->
  exists a', SInv (snd (rstep r s)) a' go gi /\ RInv (fst (rstep r s)) (snd (rstep r s)) /\
             a_pages a' = a_pages a /\ a_links a' = a_links a /\ step_ok s (snd (rstep r s)).
Proof.
  intros r s a go gi HS HR. unfold rstep. destruct (r_done r).
  - exists a. cbn [fst snd]. split; [exact HS|]. split; [exact HR|]. split; [reflexivity|].
    split; [reflexivity|]. apply step_refl. apply (SI_good _ _ _ _ HS).
  - apply rule_step_inv; assumption.
Qed.
