(* GenTraphZFacts.v — Traph.add_webentity_creation_rule_iter translated from the source (GenTraphZ.v, generated on every run from
   /repo/traph/traph.py and lru_trie/lru_trie.py: the generator dfs_iter with the caller's loop body as a visitor that WRITES the
   trie while the generator is suspended), run on the RAM tables, the header object and the trie bytes of a state, equals the
   lazy model of the same request (Sched.rule_step, one call = the code between two yields) run to its end (RuleRun.rule_run).
   PLAN
     1. the generated loop re-stated (zloop; equality with the generated text by reflexivity), the visitor (zvisit)
     2. one iteration on a block that holds a node of the tree: the node object is read, the visitor is called, the pushes use
        the node object read BEFORE the visit (GenTrieDDfs.push_right / push_left / push_child)
     3. the Python stack (pops from the end) is the reversed model stack r_pend ++ r_stack
     4. the visitor on a page node = GenTraphPFacts.py_traph_add_page_int_spec; on another node nothing
     5. the model's run never shrinks the file nor the counter (the size hypotheses are about the FINAL state)
     6. the loop = rule_run from a state after the set-up, by induction on the model's fuel
     7. the request: set-up (GenTraphZFacts1.rule_setup_spec) + loop; on every reachable state; write_in_trie = False
     8. non-vacuity by vm_compute and the theorems instantiated.
   Size hypotheses: nb s' * 128 < 2 ^ 64 and lastwe s' + 1 < 2 ^ 32 on the FINAL state s' (nb and lastwe never decrease along
   rule_step: rule_run_mono); the `+ 1` is what py_traph_add_page_int_spec asks of every re-inserted page. *)
From Coq Require Import List NArith Bool Lia Arith.
Import ListNotations.
From Traph Require Import Bytes Consts Layout Helpers Rules Tst TstDefs Traph Spec Ops RefDefs Traphw TraceDefs Codec CodecFacts
  TstFacts Store StoreFacts StoreFacts2 GenStorage GenNode GenNodeFacts GenLinks GenTrie GenTrieFacts GenTrieW GenTrieWDefs
  GenTrieWFrame GenTrieWAdd GenTrieWPage GenTrieD GenTrieDDefs GenTrieDDfs.
From Traph Require Import TraceFacts3 TraceFacts4 TraceFacts5 ViewFacts ViewFacts2 LinkFacts2 LinkFacts3
  Sched SchedFacts4 SchedFacts5 RuleRun.
From Traph Require Import GenTraphW GenTraphWDefs GenTraphWFacts1 GenTraphWFacts2 GenTraphP GenTraphPDefs GenTraphPFacts1
  GenTraphPFacts AnchorsFacts GenTraphZ GenTraphZFacts1.
From Traph Require GenHelpers2 GenHelpers2Facts.
Open Scope N_scope.

Lemma pow64z : 2 ^ 64 = 18446744073709551616.
Proof. reflexivity. Qed.

Arguments N.shiftr : simpl never.
Arguments N.shiftl : simpl never.
Arguments N.modulo : simpl never.
Arguments N.div : simpl never.
Arguments N.land : simpl never.
Arguments N.lor : simpl never.
Arguments N.ldiff : simpl never.
Arguments N.mul : simpl never.
Arguments N.add : simpl never.
Arguments N.sub : simpl never.
Arguments N.ltb : simpl never.
Arguments N.eqb : simpl never.
Arguments N.leb : simpl never.
Arguments N.pow : simpl never.

(* ====================================================================================== *)
(* 1. the generated loop, re-stated                                                       *)
(* ====================================================================================== *)
Section Loop.
  Variable A : Type.
  Variable visit : A -> py_pm -> (py_node * bytes) -> option (A * py_pm).

  Definition ZSt : Type := (py_pm * py_node * list (option N * bytes) * A)%type.

  Definition zloop (v_starting_from_root : bool) (v_starting_block : option N) (v_skip_childless_paths : bool) :=
   fix py_loop (fuel : nat) (st : ZSt) {struct fuel} : option ZSt :=
   match fuel with
   | O => None
   | S fuel' =>
   let '(sg, v_node, v_stack, v__out) := st in
   if (negb (N.eqb (N.of_nat (length v_stack)) 0%N))
   then (match py_pop v_stack with
   | None => None
   | Some ((v_block, v_lru), v_stack) => (let '(v_node, sg) := py_node_read_o v_node sg v_block in
   (let v_current_lru := (v_lru ++ (py_node_stem v_node)) in
   (match visit v__out sg (v_node, v_current_lru) with
   | None => None
   | Some (v__out, sg) => (let v_stack := (if (v_starting_from_root || (negb (oN_eqb v_block v_starting_block)))
   then (let v_stack := (if (py_node_has_right v_node)
   then (let v_stack := v_stack ++ [((py_node_right v_node), v_lru)] in
   v_stack)
   else v_stack) in
   (let v_stack := (if (py_node_has_left v_node)
   then (let v_stack := v_stack ++ [((py_node_left v_node), v_lru)] in
   v_stack)
   else v_stack) in
   v_stack))
   else v_stack) in
   (if (v_skip_childless_paths && (negb (py_node_can_have_child_webentities v_node)))
   then (py_loop fuel' (sg, v_node, v_stack, v__out))
   else (let v_stack := (if (py_node_has_child v_node)
   then (let v_stack := v_stack ++ [((py_node_child v_node), v_current_lru)] in
   v_stack)
   else v_stack) in
   (py_loop fuel' (sg, v_node, v_stack, v__out))))) end))) end)
   else Some st
   end.

  Lemma dfs_iter_visit_eq : forall fuel out sg n lru skip,
    py_trie_dfs_iter_visit visit fuel out sg (Some n) lru skip =
    if negb (nd_exists n) then Some (out, sg)
    else let '(n2, sg) := py_node_init sg None None None in
         match zloop false (nd_block n) skip fuel (sg, n2, [(nd_block n, GenHelpers2.py_lru_dirname lru)], out) with
         | None => None
         | Some (sg, _, _, out) => Some (out, sg)
         end.
  Proof. intros. reflexivity. Qed.

  Lemma zloop_O : forall fr sb skip st, zloop fr sb skip O st = None.
  Proof. reflexivity. Qed.

  Lemma zloop_S : forall fr sb skip fuel sg n stk out,
    zloop fr sb skip (S fuel) (sg, n, stk, out) =
    if negb (N.of_nat (length stk) =? 0)
    then match py_pop stk with
         | None => None
         | Some ((blk, lru), stk) =>
             let '(n, sg) := py_node_read_o n sg blk in
             match visit out sg (n, lru ++ py_node_stem n) with
             | None => None
             | Some (out, sg) =>
               let stk1 := if fr || negb (oN_eqb blk sb)
                           then (let stk0 := if py_node_has_right n then stk ++ [(py_node_right n, lru)] else stk in
                                 if py_node_has_left n then stk0 ++ [(py_node_left n, lru)] else stk0)
                           else stk in
               if skip && negb (py_node_can_have_child_webentities n)
               then zloop fr sb skip fuel (sg, n, stk1, out)
               else zloop fr sb skip fuel
                      (sg, n, (if py_node_has_child n then stk1 ++ [(py_node_child n, lru ++ py_node_stem n)] else stk1), out)
             end
         end
    else Some (sg, n, stk, out).
  Proof. reflexivity. Qed.

  (* ====================================================================================== *)
  (* 2. one iteration on the block of a node of the tree                                    *)
  (* ====================================================================================== *)
  Lemma zloop_step : forall s, Inv18 s -> forall fr sb skip stk pre d l c r sg n out,
    subt (Nd d l c r) (tr s) -> trep (files_of s) sg ->
    exists n1 sg1, node_at (Nd d l c r) n1 /\ trep (files_of s) sg1 /\ same sg sg1 /\ forall fuel,
      zloop fr sb skip (S fuel) (sg, n, stk ++ [(Some (addr d), pre)], out) =
      match visit out sg1 (n1, pre ++ stem d) with
      | None => None
      | Some (out', sg') =>
          zloop fr sb skip fuel
            (sg', n1,
             stk ++ map enc ((if fr || negb (oN_eqb (Some (addr d)) sb) then ent pre r ++ ent pre l else [])
                             ++ (if skip && nochild d then [] else ent (pre ++ stem d) c)),
             out')
      end.
  Proof.
    intros s Hinv fr sb skip stk pre d l c r sg n out Hsub Hrep.
    pose proof (read_subt s Hinv d l c r n sg Hsub Hrep) as HR. cbv zeta in HR.
    pose proof (read_subt_arr s Hinv d l c r n sg Hsub Hrep) as HA.
    destruct (py_node_read_o n sg (Some (addr d))) as [n1 sg1] eqn:Er. cbn [fst snd] in HR, HA.
    destruct HR as [Hn1 Hrep1].
    exists n1, sg1. split; [exact Hn1|]. split; [exact Hrep1|].
    split; [split; [exact HA|rewrite (proj1 Hrep1), (proj1 Hrep); reflexivity]|].
    intro fuel. rewrite zloop_S.
    assert (Hlen : negb (N.of_nat (length (stk ++ [(Some (addr d), pre)])) =? 0) = true).
    { rewrite app_length. cbn [length]. apply negb_true_iff, N.eqb_neq. lia. }
    rewrite Hlen, py_pop_snoc, Er. cbv zeta.
    pose proof Hn1 as (_ & _ & _ & Hs1). rewrite Hs1.
    destruct (visit out sg1 (n1, pre ++ stem d)) as [[out' sg']|]; [|reflexivity].
    rewrite (node_at_can_child _ _ _ _ _ Hn1), negb_involutive.
    rewrite (push_right s Hinv d l c r n1 pre stk Hsub Hn1).
    rewrite (push_left s Hinv d l c r n1 pre _ Hsub Hn1).
    destruct (fr || negb (oN_eqb (Some (addr d)) sb)); destruct (skip && nochild d);
      rewrite ?(push_child s Hinv d l c r n1 (pre ++ stem d) _ Hsub Hn1);
      rewrite ?map_app; cbn [map app]; rewrite ?app_nil_r, <- ?app_assoc; reflexivity.
  Qed.
End Loop.

Arguments zloop {A} visit _ _ _ _ _.

(* ====================================================================================== *)
(* 3. the Python stack against the model's stack                                          *)
(* ====================================================================================== *)
Definition enc2 (e : N * bytes) : option N * bytes := (Some (fst e), snd e).
Definition pystack (st : list (N * bytes)) : list (option N * bytes) := rev (map enc2 st).

Lemma enc_ent : forall s, Inv18 s -> forall t pre, subt t (tr s) -> map enc (ent pre t) = map enc2 (nz (root_addr t) pre).
Proof.
  intros s Hinv [|d l c r] pre Hsub; [reflexivity|].
  destruct (reg_facts s Hinv (Nd d l c r) Hsub ltac:(discriminate)) as [Hz _].
  unfold nz. rewrite Hz. reflexivity.
Qed.

Lemma nz_rev : forall a x, rev (map enc2 (nz a x)) = map enc2 (nz a x).
Proof. intros a x. unfold nz. destruct (a =? 0); reflexivity. Qed.

(* the stack after the pushes of one iteration *)
Lemma pystack_push : forall s, Inv18 s -> forall x l c rr a start pre rest,
  subt (Nd (rn_d x) l c rr) (tr s) -> addr (rn_d x) = a ->
  rn_left x = root_addr l -> rn_right x = root_addr rr -> rn_child x = root_addr c ->
  pystack rest ++ map enc ((if false || negb (oN_eqb (Some (addr (rn_d x))) (Some start)) then ent pre rr ++ ent pre l else [])
                           ++ (if false && nochild (rn_d x) then [] else ent (pre ++ stem (rn_d x)) c))
  = pystack (pend_of x a start pre ++ rest).
Proof.
  intros s Hinv x l c rr a start pre rest Hsub Ha Hl Hr Hc.
  unfold pystack, pend_of. cbn [orb andb oN_eqb]. rewrite Ha.
  rewrite !map_app, !rev_app_distr, nz_rev. f_equal.
  rewrite Hc, <- (enc_ent s Hinv c _ (subt_child _ _ _ _ _ Hsub)).
  destruct (a =? start); cbn [negb].
  - cbn [app map rev]. reflexivity.
  - rewrite !map_app, rev_app_distr, !nz_rev. cbn [app].
    rewrite Hl, Hr, <- (enc_ent s Hinv l _ (subt_left _ _ _ _ _ Hsub)), <- (enc_ent s Hinv rr _ (subt_right _ _ _ _ _ Hsub)).
    reflexivity.
Qed.

(* ====================================================================================== *)
(* 4. the visitor: the body of the caller's for loop                                      *)
(* ====================================================================================== *)
Definition zvisit (rm : py_ram) (v__acc : (py_thdr * py_report)) (sg : py_pm) (v__it : (py_node * bytes))
  : option ((py_thdr * py_report) * py_pm) :=
  let '(hd, v_report) := v__acc in let '(v_node2, v_lru) := v__it in
  (if (py_node_is_page v_node2)
   then (match py_traph_add_page_int rm hd sg v_lru false with
   | None => None
   | Some (hd, sg, (v__, v_add_report)) => (let v_report := py_report_iadd v_report v_add_report in
   (Some ((hd, v_report), sg))) end)
   else (Some ((hd, v_report), sg))).

Lemma add_rule_code_eq : forall f rm hd sg p k,
  py_traph_add_webentity_creation_rule f rm hd sg p k true =
  let rm' := mk_ram (py_rules_set p k (ram_rules rm)) (ram_dflt rm) in
  match py_trie_add_lru sg p false with
  | None => None
  | Some (sg, (n, h)) =>
      let '(n, sg) := py_node_write (py_node_flag_as_webentity_creation_rule n) sg in
      match py_trie_dfs_iter_visit (zvisit rm') f (hd, py_report_new) sg (Some n) p false with
      | None => None
      | Some ((hd, rp), sg) => Some (rm', hd, sg, rp)
      end
  end.
Proof. intros. reflexivity. Qed.

Lemma zvisit_spec : forall s, Inv18 s -> root_first s -> anchors_known s -> forall rm hd sg x l c rr n1 cur rn rc,
  ramrep s rm -> hrep s hd sg -> node_at (Nd (rn_d x) l c rr) n1 -> wf_lru cur ->
  (forall w, In w (map fst rc) -> w <= lastwe s) ->
  let y := visit_m x cur s in
  let s1 := fst (fst y) in
  nb s1 * 128 < 2 ^ 64 -> lastwe s + 1 < 2 ^ 32 ->
  exists hd' sg', zvisit rm (hd, report_of rn rc) sg (n1, cur) =
                  Some ((hd', report_of (rn + snd (fst y)) (rc ++ snd y)), sg') /\
    hrep s1 hd' sg' /\ ramrep s1 rm.
Proof.
  intros s Hinv Hroot Hk rm hd sg x l c rr n1 cur rn rc Hram Hh Hn1 Hwl Hb y s1. unfold s1, y, visit_m, zvisit. clear s1 y.
  rewrite (node_at_is_page _ _ _ _ _ Hn1).
  destruct (page (rn_d x)).
  - intros Hsize Hlt.
    destruct (py_traph_add_page_int_spec s Hinv Hroot rm hd sg cur false Hram Hh Hwl
                (trie_add_page_walk_known cur false s Hwl Hk) Hsize Hlt)
      as (_ & _ & hd1 & sg1 & n' & E & Hh1 & Hram1).
    rewrite E. exists hd1, sg1. split; [|split; assumption].
    pose proof (add_page_int_counter cur false s) as Hc. cbv zeta in Hc.
    rewrite (iadd_fresh rn rc _ _ (lastwe s) Hb)
      by (destruct Hc as [[Hc _]|(valid & Hc & _)]; [left; exact Hc|right; exists valid; exact Hc]).
    reflexivity.
  - cbn [fst snd]. intros _ _. exists hd, sg. rewrite N.add_0_r, app_nil_r. split; [reflexivity|]. split; assumption.
Qed.

(* ====================================================================================== *)
(* 5. the model's run: nothing shrinks                                                    *)
(* ====================================================================================== *)
Lemma rule_step_dfs : forall r s, r_init r = None -> Sched.rule_step r s = rule_dfs r s.
Proof. intros r s E. rewrite rule_step_eq. unfold rule_pre. rewrite E. reflexivity. Qed.

Lemma rule_dfs_mono : forall r s,
  nb s <= nb (snd (rule_dfs r s)) /\ lastwe s <= lastwe (snd (rule_dfs r s)) /\
  r_init (fst (rule_dfs r s)) = None /\ r_start (fst (rule_dfs r s)) = r_start r.
Proof.
  intros r s. unfold rule_dfs. destruct (r_pend r ++ r_stack r) as [|[a pre] rest]; [cbn [fst snd]; repeat split; lia|].
  destruct (read_at a (tr s)) as [x|]; [|cbn [fst snd]; repeat split; lia].
  cbv zeta. destruct (page (rn_d x)); [|cbn [fst snd]; repeat split; lia].
  pose proof (add_page_int_nb_mono (pre ++ stem (rn_d x)) false s) as H1.
  pose proof (add_page_int_counter (pre ++ stem (rn_d x)) false s) as H2. cbv zeta in H2.
  destruct (add_page_int (pre ++ stem (rn_d x)) false s) as [[s1 n'] c']. cbn [fst snd] in *.
  split; [exact H1|]. split; [destruct H2 as [[_ H2]|(v & _ & H2)]; lia|]. split; reflexivity.
Qed.

Lemma rule_run_done : forall n r s, r_done r = true -> rule_run n r s = (r, s).
Proof. intros [|n] r s H; cbn [rule_run]; [reflexivity|]. rewrite H. reflexivity. Qed.

Lemma rule_run_S : forall n r s, r_done r = false ->
  rule_run (S n) r s = rule_run n (fst (Sched.rule_step r s)) (snd (Sched.rule_step r s)).
Proof. intros n r s H. cbn [rule_run]. rewrite H. destruct (Sched.rule_step r s) as [r1 s1]. reflexivity. Qed.

Lemma rule_run_mono : forall n r s, r_init r = None ->
  nb s <= nb (snd (rule_run n r s)) /\ lastwe s <= lastwe (snd (rule_run n r s)).
Proof.
  induction n as [|n IH]; intros r s Ei; [cbn [rule_run snd]; lia|].
  destruct (r_done r) eqn:Ed; [rewrite rule_run_done by exact Ed; cbn [snd]; lia|].
  rewrite rule_run_S by exact Ed. rewrite rule_step_dfs by exact Ei.
  destruct (rule_dfs_mono r s) as (H1 & H2 & H3 & _).
  destruct (IH _ (snd (rule_dfs r s)) H3) as [H4 H5]. lia.
Qed.

(* ====================================================================================== *)
(* 6. the loop = the model's run                                                          *)
(* ====================================================================================== *)
Lemma zloop_run : forall rm start n r s r' s',
  r_init r = None -> r_done r = false -> r_start r = start -> ZInv r s ->
  rule_run n r s = (r', s') -> r_done r' = true ->
  nb s' * 128 < 2 ^ 64 -> lastwe s' + 1 < 2 ^ 32 ->
  forall hd sg nd, ramrep s rm -> hrep s hd sg ->
  exists sg' nd' hd',
    (forall f, (n <= f)%nat ->
       zloop (zvisit rm) false (Some start) false f (sg, nd, pystack (r_pend r ++ r_stack r), (hd, report_of (r_n r) (r_c r)))
       = Some (sg', nd', [], (hd', report_of (r_n r') (r_c r')))) /\
    hrep s' hd' sg' /\ ramrep s' rm /\ Inv18 s' /\ root_first s' /\ anchors_known s'.
Proof.
  intros rm start. induction n as [|n IH]; intros r s r' s' Ei Ed Es HZ Erun Hdone Hsize Hlt hd sg nd Hram Hh.
  - cbn [rule_run] in Erun. injection Erun as <- <-. congruence.
  - rewrite rule_run_S in Erun by exact Ed. rewrite rule_step_dfs in Erun by exact Ei.
    pose proof HZ as (Hinv & Hroot & Hk & Hst & Hb).
    destruct (r_pend r ++ r_stack r) as [|[a pre] rest] eqn:E.
    + (* the stack is empty: both stop *)
      rewrite (rule_dfs_nil r s E) in Erun. cbn [fst snd] in Erun.
      rewrite rule_run_done in Erun by reflexivity. injection Erun as <- <-. cbn [r_n r_c].
      exists sg, nd, hd. split; [|split; [exact Hh|split; [exact Hram|split; [exact Hinv|split; [exact Hroot|exact Hk]]]]].
      intros f Hf. destruct f as [|f]; [lia|]. rewrite zloop_S. reflexivity.
    + inversion Hst as [|? ? He Hrest]; subst.
      destruct (top_entry s a pre Hinv He) as (x & l & c & rr & Er & Hsub & Ha & Hl & Hr & Hc & Hwl & _).
      destruct (rule_dfs_ZInv r s HZ) as (HZ1 & _).
      pose proof (rule_dfs_mono r s) as (_ & _ & Ei1 & Es1).
      rewrite (rule_dfs_cons r s a pre rest x E Er) in Erun, HZ1, Ei1, Es1. cbn [fst snd] in Erun, HZ1, Ei1, Es1.
      set (cur := pre ++ stem (rn_d x)) in *. set (y := visit_m x cur s) in *. set (s1 := fst (fst y)) in *.
      set (r1 := mkRC None (r_start r) rest (pend_of x a (r_start r) pre) (r_n r + snd (fst y)) (r_c r ++ snd y) false) in *.
      pose proof (rule_run_mono n r1 s1 Ei1) as [Hnb1 Hlw1]. rewrite Erun in Hnb1, Hlw1. cbn [snd] in Hnb1, Hlw1.
      destruct (visit_m_keeps x cur s Hinv Hroot Hk) as (_ & _ & _ & _ & _ & Hlw0 & _). fold y s1 in Hlw0.
      assert (Hsize1 : nb s1 * 128 < 2 ^ 64) by (rewrite pow64z in *; nia).
      assert (Hlt0 : lastwe s + 1 < 2 ^ 32) by lia.
      (* the translated iteration *)
      destruct (zloop_step _ (zvisit rm) s Hinv false (Some (r_start r)) false (pystack rest) pre (rn_d x) l c rr sg nd
                  (hd, report_of (r_n r) (r_c r)) Hsub (proj1 Hh))
        as (n1 & sg1 & Hn1 & Hrep1 & Hsame & Estep).
      pose proof (hrep_same s hd sg sg1 Hh Hsame) as Hh1.
      destruct (zvisit_spec s Hinv Hroot Hk rm hd sg1 x l c rr n1 cur (r_n r) (r_c r) Hram Hh1 Hn1 Hwl Hb Hsize1 Hlt0)
        as (hd2 & sg2 & Ev & Hh2 & Hram2).
      fold y s1 in Ev, Hh2, Hram2.
      destruct (IH r1 s1 r' s' Ei1 eq_refl Es1 HZ1 Erun Hdone Hsize Hlt hd2 sg2 n1 Hram2 Hh2)
        as (sg' & nd' & hd' & Hloop & Hrest').
      exists sg', nd', hd'. split; [|exact Hrest'].
      intros f Hf. destruct f as [|f]; [lia|]. assert (Hf' : (n <= f)%nat) by lia.
      unfold pystack at 1. cbn [map rev]. fold (pystack rest). unfold enc2 at 1. cbn [fst snd]. rewrite <- Ha.
      rewrite Estep. unfold cur in Ev.
      change (@pair py_node (list N) n1 (pre ++ stem (rn_d x))) with (@pair py_node bytes n1 (pre ++ stem (rn_d x))).
      rewrite Ev.
      rewrite (pystack_push s Hinv x l c rr a (r_start r) pre rest Hsub Ha Hl Hr Hc).
      exact (Hloop f Hf').
Qed.

(* ====================================================================================== *)
(* 7. the request                                                                         *)
(* ====================================================================================== *)
(* the first turn of the coroutine = the set-up, then a turn of the traversal *)
Definition r_after_setup (p : bytes) (k : rulekind) (s : traph) : rco :=
  let s2 := rule_setup p k s in mkRC None (addr_of p s2) [(addr_of p s2, lru_dirname p)] [] 0 [] false.

Lemma rule_run_start : forall n p k s,
  rule_run (S n) (rule_start p k) s = rule_run (S n) (r_after_setup p k s) (rule_setup p k s).
Proof.
  intros n p k s. rewrite !rule_run_S by reflexivity.
  rewrite (rule_step_dfs (r_after_setup p k s)) by reflexivity. rewrite rule_step_eq. reflexivity.
Qed.

(* Traph.add_webentity_creation_rule_iter(prefix, pattern, write_in_trie=True) on an arbitrary state *)
Theorem py_traph_add_rule_state : forall s, Inv18 s -> root_first s -> anchors_known s ->
  forall rm hd sg p k, ramrep s rm -> hrep s hd sg -> wf_lru p ->
  forall fuel r' s', rule_run fuel (rule_start p k) s = (r', s') -> r_done r' = true ->
  nb s' * 128 < 2 ^ 64 -> lastwe s' + 1 < 2 ^ 32 ->
  exists rm' hd' sg',
    (forall f, (fuel <= f)%nat ->
       py_traph_add_webentity_creation_rule f rm hd sg p k true = Some (rm', hd', sg', report_of (r_n r') (r_c r'))) /\
    hrep s' hd' sg' /\ ramrep s' rm' /\ Inv18 s' /\ root_first s' /\ anchors_known s'.
Proof.
  intros s Hinv Hroot Hk rm hd sg p k Hram Hh Hp fuel r' s' Erun Hdone Hsize Hlt.
  destruct fuel as [|n]; [cbn [rule_run] in Erun; injection Erun as <- <-; discriminate Hdone|].
  rewrite rule_run_start in Erun.
  set (s2 := rule_setup p k s) in *. set (r0 := r_after_setup p k s) in *.
  pose proof (rule_run_mono (S n) r0 s2 eq_refl) as [Hnb2 Hlw2]. rewrite Erun in Hnb2, Hlw2. cbn [snd] in Hnb2, Hlw2.
  assert (Hsize2 : nb s2 * 128 < 2 ^ 64) by (rewrite pow64z in *; nia).
  destruct (rule_setup_spec s Hinv Hroot Hk rm hd sg p k Hram Hh Hp Hsize2)
    as (sg1 & n0 & ph & sg2 & nn & d & l & c & rr & Eadd & Ew & Hh2 & Hram2 & Hinv2 & Hroot2 & Hk2 & Hfs & Hnn).
  fold s2 in Hh2, Hram2, Hinv2, Hroot2, Hk2, Hfs.
  set (rm' := mk_ram (py_rules_set p k (ram_rules rm)) (ram_dflt rm)) in *.
  assert (Hfd : find (lru_iter p) (tr s2) = Some d) by (rewrite find_of_sub, Hfs; reflexivity).
  assert (Ea : addr_of p s2 = addr d) by (unfold addr_of; rewrite Hfd; reflexivity).
  assert (HZ : ZInv r0 s2).
  { split; [exact Hinv2|]. split; [exact Hroot2|]. split; [exact Hk2|]. split; [|intros w []].
    unfold r0, r_after_setup. fold s2. cbn [r_pend r_stack app]. constructor; [|constructor].
    exists (lru_iter p), d. cbn [fst snd]. split; [exact Hfd|]. split; [symmetry; exact Ea|reflexivity]. }
  pose proof Hnn as (Hex & Hblk & _).
  destruct (init_none sg2) as (n2 & En2).
  destruct (zloop_run rm' (addr d) (S n) r0 s2 r' s' eq_refl eq_refl
              ltac:(unfold r0, r_after_setup; fold s2; exact Ea) HZ Erun Hdone Hsize Hlt hd sg2 n2 Hram2 Hh2)
    as (sg' & nd' & hd' & Hloop & Hh' & Hram' & Hfin).
  exists rm', hd', sg'. split; [|split; [exact Hh'|split; [exact Hram'|exact Hfin]]].
  intros f Hf. specialize (Hloop f Hf).
  rewrite add_rule_code_eq. cbv zeta. fold rm'. rewrite Eadd, Ew, dfs_iter_visit_eq, Hex, Hblk.
  cbn [negb]. rewrite En2, GenHelpers2Facts.py_lru_dirname_eq.
  change py_report_new with (report_of 0 []).
  unfold r0, r_after_setup in Hloop. fold s2 in Hloop. cbn [r_pend r_stack r_n r_c app] in Hloop.
  unfold pystack in Hloop. cbn [map rev app] in Hloop. unfold enc2 in Hloop. cbn [fst snd] in Hloop. rewrite Ea in Hloop.
  rewrite Hloop. reflexivity.
Qed.

(* the requested statement: on every state reached by a history, under the condition that every flagged anchor of the state has
   its rule in the RAM table (anchors_known; without it already __add_page differs: GenTraphPEx), the translated request run
   with enough fuel returns the report of the lazy model run to its end, and the RAM table, the header object and the bytes
   represent the model's final state.  Any fuel from the model's own fuel on will do. *)
Theorem py_traph_add_rule_run : forall d rs h, wf_rules rs -> Forall wf_op h ->
  let s := run d rs h in
  anchors_known s ->
  forall rm hd sg p k, ramrep s rm -> hrep s hd sg -> wf_lru p ->
  forall fuel r' s', rule_run fuel (rule_start p k) s = (r', s') -> r_done r' = true ->
  nb s' * 128 < 2 ^ 64 -> lastwe s' + 1 < 2 ^ 32 ->
  exists f0 rm' hd' sg',
    (forall f, (f0 <= f)%nat ->
       py_traph_add_webentity_creation_rule f rm hd sg p k true = Some (rm', hd', sg', report_of (r_n r') (r_c r'))) /\
    hrep s' hd' sg' /\ ramrep s' rm'.
Proof.
  intros d rs h _ Hh s Hk rm hd sg p k Hram Hhr Hp fuel r' s' Erun Hdone Hsize Hlt.
  destruct (py_traph_add_rule_state s (run_Inv18 d rs h Hh) (run_root_first d rs h) Hk rm hd sg p k Hram Hhr Hp
              fuel r' s' Erun Hdone Hsize Hlt) as (rm' & hd' & sg' & H1 & H2 & H3 & _).
  exists fuel, rm', hd', sg'. auto.
Qed.

(* on every history whose reopen requests re-supply the rules of the anchors flagged in the file (in particular: no reopen) *)
Corollary py_traph_add_rule_reach : forall d rs h, wf_rules rs -> Forall wf_op h -> resupplied (init d rs) h ->
  let s := run d rs h in
  forall rm hd sg p k, ramrep s rm -> hrep s hd sg -> wf_lru p ->
  forall fuel r' s', rule_run fuel (rule_start p k) s = (r', s') -> r_done r' = true ->
  nb s' * 128 < 2 ^ 64 -> lastwe s' + 1 < 2 ^ 32 ->
  exists f0 rm' hd' sg',
    (forall f, (f0 <= f)%nat ->
       py_traph_add_webentity_creation_rule f rm hd sg p k true = Some (rm', hd', sg', report_of (r_n r') (r_c r'))) /\
    hrep s' hd' sg' /\ ramrep s' rm'.
Proof.
  intros d rs h Hrs Hh Hre s. apply (py_traph_add_rule_run d rs h Hrs Hh).
  apply AnchorsFacts.run_anchors_known; assumption.
Qed.

(* write_in_trie = False: only the RAM table changes (whatever the fuel, the header object and the storage) *)
Theorem py_traph_add_rule_nowrite : forall s rm hd sg p k f, ramrep s rm ->
  exists rm', py_traph_add_webentity_creation_rule f rm hd sg p k false = Some (rm', hd, sg, report_of 0 []) /\
    ramrep (fst (add_rule p k false s)) rm'.
Proof.
  intros s rm hd sg p k f [Hrr Hrd]. eexists. split; [reflexivity|].
  unfold add_rule. cbn [negb fst]. split; cbn [ram_rules ram_dflt rules dflt]; [rewrite py_rules_set_eq, Hrr; reflexivity|exact Hrd].
Qed.

Print Assumptions py_traph_add_rule_state.
Print Assumptions py_traph_add_rule_run.
Print Assumptions py_traph_add_rule_reach.
Print Assumptions py_traph_add_rule_nowrite.

(* ====================================================================================== *)
(* 8. non-vacuity                                                                         *)
(* ====================================================================================== *)
From Traph Require PropsEx IdFacts GenTraphPEx.

(* s:http|h:com| : the anchor has four nodes below it, two of them pages *)
Definition ex_anchor : bytes := firstn 13 IdFacts.ex_pa.
Definition ex_rm : py_ram := GenTraphPEx.rm_of PropsEx.exs.
Definition ex_hd : py_thdr := GenTraphPEx.hd_of PropsEx.exs.
Definition ex_sgz : py_pm := GenTraphPEx.sg_of PropsEx.exs.

(* the translated request against the lazy model and against the sequential request Traph.add_rule: same bytes (which did
   change), same counter in the header object, same report, same RAM table; the model's run is finished *)
Definition ex_cmp (k : rulekind) (fuel : nat) : option (bool * bool * bool * bool * bool * bool * N) :=
  match py_traph_add_webentity_creation_rule fuel ex_rm ex_hd ex_sgz ex_anchor k true with
  | Some (rm', hd', sg', rp) =>
      let '(r', s') := rule_run fuel (rule_start ex_anchor k) PropsEx.exs in
      let s'' := fst (add_rule ex_anchor k true PropsEx.exs) in
      Some (r_done r',
            Bytes.beq (pm_array sg') (trie_file s'), Bytes.beq (pm_array sg') (trie_file s''),
            Bytes.beq (pm_array sg') (pm_array ex_sgz),
            (py_thdr_last_webentity_id hd' =? lastwe s') && (lastwe s' =? lastwe s''),
            match snd (add_rule ex_anchor k true PropsEx.exs) with
            | Report n c => (rp_nb_created_pages rp =? n) && (r_n r' =? n) &&
                            (N.of_nat (length (rp_created_webentities rp)) =? N.of_nat (length c)) &&
                            (N.of_nat (length (r_c r')) =? N.of_nat (length c))
            | _ => false
            end,
            N.of_nat (length (rp_created_webentities rp)))
  | None => None
  end.

Example ex_add_rule_path1 : ex_cmp (Path 1) 100 = Some (true, true, true, false, true, true, 1).
Proof. vm_compute. reflexivity. Qed.
Example ex_add_rule_path2 : ex_cmp (Path 2) 100 = Some (true, true, true, false, true, true, 1).
Proof. vm_compute. reflexivity. Qed.
Example ex_add_rule_subdomain : ex_cmp Subdomain 100 = Some (true, true, true, false, true, true, 0).
Proof. vm_compute. reflexivity. Qed.

(* the reports are equal as values, not only in size *)
Example ex_add_rule_report :
  option_map (fun x => snd x) (py_traph_add_webentity_creation_rule 100 ex_rm ex_hd ex_sgz ex_anchor (Path 1) true)
  = Some (let r' := fst (rule_run 100 (rule_start ex_anchor (Path 1)) PropsEx.exs) in report_of (r_n r') (r_c r')).
Proof. vm_compute. reflexivity. Qed.

(* the traversal takes 9 turns (8 nodes and the final empty pop): 8 units of fuel are not enough for either side, 9 are
   enough for both *)
Example ex_add_rule_fuel :
  r_done (fst (rule_run 8 (rule_start ex_anchor (Path 1)) PropsEx.exs)) = false /\
  r_done (fst (rule_run 9 (rule_start ex_anchor (Path 1)) PropsEx.exs)) = true /\
  py_traph_add_webentity_creation_rule 8 ex_rm ex_hd ex_sgz ex_anchor (Path 1) true = None /\
  (py_traph_add_webentity_creation_rule 9 ex_rm ex_hd ex_sgz ex_anchor (Path 1) true <> None).
Proof. vm_compute. repeat split; try reflexivity. discriminate. Qed.

(* write_in_trie = False on the same state *)
Example ex_add_rule_nowrite :
  option_map (fun x => ram_rules (fst (fst (fst x))))
             (py_traph_add_webentity_creation_rule 0 ex_rm ex_hd ex_sgz ex_anchor (Path 1) false)
  = Some (rules (fst (add_rule ex_anchor (Path 1) false PropsEx.exs))).
Proof. vm_compute. reflexivity. Qed.

(* ---- the theorem instantiated: all its hypotheses hold on the example ---- *)
Lemma exh_no_reopen : Forall no_reopen PropsEx.exh.
Proof. unfold PropsEx.exh. repeat constructor. Qed.

Example ex_theorem_applies_add_rule :
  let x := rule_run 100 (rule_start ex_anchor (Path 1)) PropsEx.exs in
  exists f0 rm' hd' sg',
    (forall f, (f0 <= f)%nat ->
       py_traph_add_webentity_creation_rule f ex_rm ex_hd ex_sgz ex_anchor (Path 1) true
       = Some (rm', hd', sg', report_of (r_n (fst x)) (r_c (fst x)))) /\
    hrep (snd x) hd' sg' /\ ramrep (snd x) rm'.
Proof.
  intro x.
  assert (Hdone : r_done (fst x) = true) by (vm_compute; reflexivity).
  assert (Hs : nb (snd x) * 128 < 2 ^ 64) by (vm_compute; reflexivity).
  assert (Hw : lastwe (snd x) + 1 < 2 ^ 32) by (vm_compute; reflexivity).
  assert (Ex : rule_run 100 (rule_start ex_anchor (Path 1)) PropsEx.exs = (fst x, snd x)) by apply surjective_pairing.
  clearbody x.
  assert (Hrun : run Domain [] PropsEx.exh = PropsEx.exs) by (unfold PropsEx.exs; reflexivity).
  assert (Hh : hrep PropsEx.exs ex_hd ex_sgz) by (apply GenTraphPEx.hrep_of; vm_compute; reflexivity).
  assert (Hp : wf_lru ex_anchor) by (apply akb_ok; vm_compute; reflexivity).
  pose proof (py_traph_add_rule_reach Domain [] PropsEx.exh PropsEx.ex_rules_wf PropsEx.exh_wf
                (no_reopen_resupplied _ _ exh_no_reopen)) as HA.
  cbv zeta in HA. rewrite Hrun in HA.
  exact (HA ex_rm ex_hd ex_sgz ex_anchor (Path 1) (GenTraphPEx.ramrep_of _) Hh Hp 100%nat (fst x) (snd x) Ex Hdone Hs Hw).
Qed.

Print Assumptions ex_theorem_applies_add_rule.
