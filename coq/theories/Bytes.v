(* Bytes.v — byte strings as lists of N, Python's `bytes` ordering, and the
   small string library (prefix, split, join, replace) the helpers need.
   Definitions only; proofs live in BytesFacts.v. *)
From Coq Require Export List NArith Bool.
Export ListNotations.
Open Scope N_scope.

Definition byte := N.
Definition bytes := list N.

Definition sep : N := 124.            (* '|' *)

(* Python: a < b on bytes = lexicographic on unsigned bytes, a proper prefix is smaller *)
Fixpoint lex (a b : bytes) : comparison :=
  match a, b with
  | [], [] => Eq
  | [], _ :: _ => Lt
  | _ :: _, [] => Gt
  | x :: a', y :: b' =>
      match N.compare x y with
      | Eq => lex a' b'
      | c => c
      end
  end.

Definition beq (a b : bytes) : bool := match lex a b with Eq => true | _ => false end.
Definition blt (a b : bytes) : bool := match lex a b with Lt => true | _ => false end.
Definition bgt (a b : bytes) : bool := match lex a b with Gt => true | _ => false end.

Fixpoint starts_with (p l : bytes) : bool :=
  match p, l with
  | [], _ => true
  | _ :: _, [] => false
  | x :: p', y :: l' => (x =? y) && starts_with p' l'
  end.

(* l.replace(old, new, 1) for non-empty old: first occurrence, left to right *)
Fixpoint replace_first (old new l : bytes) : bytes :=
  match l with
  | [] => []
  | x :: l' =>
      if starts_with old l then new ++ skipn (length old) l
      else x :: replace_first old new l'
  end.

Fixpoint is_infix (p l : bytes) : bool :=
  starts_with p l || match l with [] => false | _ :: l' => is_infix p l' end.

(* l.split(b"|"): pieces between separators, always at least one piece *)
Fixpoint split_on (s : N) (l : bytes) : list bytes :=
  match l with
  | [] => [[]]
  | x :: l' =>
      if x =? s then [] :: split_on s l'
      else match split_on s l' with
           | [] => [[x]]            (* unreachable *)
           | p :: ps => (x :: p) :: ps
           end
  end.

(* b"|".join(pieces) *)
Fixpoint join (s : N) (ps : list bytes) : bytes :=
  match ps with
  | [] => []
  | [p] => p
  | p :: ps' => p ++ s :: join s ps'
  end.

Fixpoint mem_bytes (x : bytes) (l : list bytes) : bool :=
  match l with [] => false | y :: l' => beq x y || mem_bytes x l' end.

(* ASCII helpers *)
Definition of_ascii_list (l : list N) : bytes := l.
Definition is_digit (c : N) : bool := (48 <=? c) && (c <=? 57).
Definition is_alpha (c : N) : bool := ((65 <=? c) && (c <=? 90)) || ((97 <=? c) && (c <=? 122)).
Definition lower (c : N) : N := if (65 <=? c) && (c <=? 90) then c + 32 else c.
Definition ieq (a b : N) : bool := lower a =? lower b.
