(* SchedFacts7.v — the tree only grows along the turns of the coroutines, in a
   structural sense (text): a node keeps its place in the ternary tree, its stem and
   its block address; pointers only get filled in (a Lf becomes a subtree); a page
   stays a page; a node that carries a webentity keeps carrying one.  Every write
   primitive used by the coroutines is such a growth step, unconditionally.
   Also: subtrees with their sibling-prefix (locs), reading a block address gives
   one of them (read_at_locs), and they are determined by the path of their root. *)
From Coq Require Import List NArith Bool Lia Arith Permutation.
Import ListNotations.
From Traph Require Import Bytes Consts Helpers Rules Tst TstDefs Traph Spec Ops RefDefs TstFacts
  ViewFacts ViewFacts2 RefCore RefCore3 LinkFacts LinkFacts2 LinkFacts3 RefFull
  Sched SchedFacts SchedFacts2 SchedFacts3 SchedFacts4 SchedFacts5 SchedFacts6.
Open Scope N_scope.

(* ====================================================================== *)
(* growth of a node, growth of a tree                                     *)
(* ====================================================================== *)

Definition ndx (d d' : nd) : Prop :=
  stem d' = stem d /\ addr d' = addr d /\ (page d = true -> page d' = true) /\ (we d <> 0 -> we d' <> 0).

Lemma ndx_refl : forall d, ndx d d.
Proof. intro d. repeat split; auto. Qed.

Lemma ndx_trans : forall a b c, ndx a b -> ndx b c -> ndx a c.
Proof.
  intros a b c (H1 & H2 & H3 & H4) (K1 & K2 & K3 & K4). repeat split; try congruence; auto.
Qed.

Inductive text : tst -> tst -> Prop :=
| TX_lf : forall t', text Lf t'
| TX_nd : forall d d' l l' c c' r r', ndx d d' -> text l l' -> text c c' -> text r r' ->
    text (Nd d l c r) (Nd d' l' c' r').

Lemma text_refl : forall t, text t t.
Proof. induction t; constructor; auto using ndx_refl. Qed.

Lemma text_trans : forall t1 t2 t3, text t1 t2 -> text t2 t3 -> text t1 t3.
Proof.
  intros t1 t2 t3 H. revert t3. induction H as [t'|d d' l l' c c' r r' Hd Hl IHl Hc IHc Hr IHr]; intros t3 H3.
  - constructor.
  - inversion H3 as [|? d'' ? l'' ? c'' ? r'' Hd' Hl' Hc' Hr']; subst.
    constructor; [apply (ndx_trans _ _ _ Hd Hd')|auto|auto|auto].
Qed.

Lemma text_find : forall p t t', text t t' -> forall d, find p t = Some d ->
  exists d', find p t' = Some d' /\ ndx d d'.
Proof.
  induction p as [|x rest IH]; intros t t' H d Hf; [rewrite find_nil in Hf; discriminate|].
  induction H as [t'|d0 d0' l l' c c' r r' Hd Hl IHl Hc IHc Hr IHr].
  - rewrite find_Lf in Hf. discriminate.
  - rewrite find_Nd in Hf. rewrite find_Nd. destruct Hd as (Es & Hd). rewrite Es.
    destruct (lex x (stem d0)).
    + destruct rest as [|y rest'].
      * injection Hf as <-. exists d0'. split; [reflexivity|split; [exact Es|exact Hd]].
      * apply (IH c c' Hc d Hf).
    + apply (IHl Hf).
    + apply (IHr Hf).
Qed.

Lemma text_root_addr : forall sub sub', text sub sub' -> sub <> Lf -> root_addr sub' = root_addr sub.
Proof.
  intros sub sub' H Hne. destruct H as [|d d' l l' c c' r r' (_ & Ha & _)]; [congruence|]. exact Ha.
Qed.

(* ---- the primitives of the tree --------------------------------------------------- *)

Lemma ins_text : forall flag ss pre pa nb h t, text t (ins_t flag ss pre pa nb h t).
Proof.
  intros flag. induction ss as [|s rest IH]; intros pre pa nb h t; [rewrite ins_t_nil; apply text_refl|].
  induction t as [|d l IHl c _ r IHr]; [constructor|].
  rewrite ins_t_Nd. destruct (lex s (stem d)).
  - constructor; [|apply text_refl|apply IH|apply text_refl].
    destruct (flag && nonempty rest); [|apply ndx_refl]. repeat split; auto.
  - constructor; [apply ndx_refl|exact IHl|apply text_refl|apply text_refl].
  - constructor; [apply ndx_refl|apply text_refl|apply text_refl|exact IHr].
Qed.

Lemma upd_text : forall f q t, (forall d, ndx d (f d)) -> text t (upd f q t).
Proof.
  intros f q. induction q as [|s rest IH]; intros t Hf; [rewrite upd_nil; apply text_refl|].
  induction t as [|d l IHl c _ r IHr]; [constructor|].
  rewrite upd_Nd. destruct (lex s (stem d)).
  - destruct rest as [|y rest'].
    + constructor; [apply Hf|apply text_refl|apply text_refl|apply text_refl].
    + constructor; [apply ndx_refl|apply text_refl|apply IH; exact Hf|apply text_refl].
  - constructor; [apply ndx_refl|exact IHl|apply text_refl|apply text_refl].
  - constructor; [apply ndx_refl|apply text_refl|apply text_refl|exact IHr].
Qed.

Lemma ndx_set_crawled : forall d, ndx d (set_crawled d).
Proof. intro d. repeat split; auto. Qed.
Lemma ndx_page_crawled : forall (cr : bool) d, ndx d (if cr then set_crawled (set_page d) else set_page d).
Proof. intros [|] d; repeat split; auto. Qed.
Lemma ndx_set_rule : forall b d, ndx d (set_rule b d).
Proof. intros b d. repeat split; auto. Qed.
Lemma ndx_set_we : forall w d, w <> 0 -> ndx d (set_we w d).
Proof. intros w d Hw. repeat split; auto. Qed.
Lemma ndx_set_head : forall (out : bool) h d, ndx d ((if out then set_outh h else set_inh h) d).
Proof. intros [|] h d; repeat split; auto. Qed.

(* ---- the primitives of the index -------------------------------------------------- *)

Definition sext (s s' : traph) : Prop := text (tr s) (tr s').

Lemma sext_refl : forall s, sext s s.
Proof. intro s. apply text_refl. Qed.
Lemma sext_trans : forall s1 s2 s3, sext s1 s2 -> sext s2 s3 -> sext s1 s3.
Proof. intros s1 s2 s3. apply text_trans. Qed.

Lemma add_lru_sext : forall flag l s, sext s (fst (add_lru flag l s)).
Proof. intros flag l s. unfold sext. rewrite LinkFacts.add_lru_tr. apply ins_text. Qed.

Lemma upd_sext : forall f q s, (forall d, ndx d (f d)) -> sext s (set_tree (upd f q (tr s)) s).
Proof. intros f q s Hf. unfold sext. cbn [tr set_tree set_tr]. apply upd_text. exact Hf. Qed.

Lemma trie_add_page_sext : forall l cr s, sext s (fst (fst (trie_add_page l cr s))).
Proof.
  intros l cr s. unfold trie_add_page.
  pose proof (add_lru_sext false l s) as H1.
  destruct (add_lru false l s) as [s1 h]. cbn [fst] in H1.
  destruct (find (lru_iter l) (tr s1)) as [d|]; [|exact H1].
  destruct (page d).
  - destruct (cr && negb (crawled d)); cbn [fst]; [|exact H1].
    apply (sext_trans _ _ _ H1). apply upd_sext. apply ndx_set_crawled.
  - cbn [fst]. apply (sext_trans _ _ _ H1). apply upd_sext. apply ndx_page_crawled.
Qed.

Lemma walk_prefixes_sext : forall ps s ninv valid, sext s (fst (fst (walk_prefixes ps s ninv valid))).
Proof.
  induction ps as [|p ps IH]; intros s ninv valid; [apply sext_refl|].
  cbn [walk_prefixes].
  pose proof (add_lru_sext true p s) as H1.
  destruct (add_lru true p s) as [s1 h]. cbn [fst] in H1.
  destruct (find (lru_iter p) (tr s1)) as [d|].
  - destruct (we d =? 0); apply (sext_trans _ _ _ H1); apply IH.
  - apply (sext_trans _ _ _ H1); apply IH.
Qed.

Lemma set_we_all_text : forall w ps t, w <> 0 -> text t (set_we_all w ps t).
Proof.
  intros w ps. induction ps as [|p ps IH]; intros t Hw; [apply text_refl|].
  unfold set_we_all. cbn [fold_left]. fold (set_we_all w ps).
  apply (text_trans _ (upd (set_we w) (lru_iter p) t)).
  - apply upd_text. intro d. apply ndx_set_we. exact Hw.
  - apply IH. exact Hw.
Qed.

Lemma add_prefixes_sext : forall ps best s, sext s (fst (add_prefixes ps best s)).
Proof.
  intros ps best s. unfold add_prefixes.
  pose proof (walk_prefixes_sext ps s 0%nat []) as H1.
  destruct (walk_prefixes ps s 0 []) as [[s1 ninv] valid]. cbn [fst] in H1.
  destruct (negb (Nat.eqb ninv 0) && negb best); [exact H1|].
  destruct (Nat.eqb ninv (length ps)); [exact H1|]. cbn [fst].
  apply (sext_trans _ _ _ H1). unfold sext. cbn [tr]. apply set_we_all_text. lia.
Qed.

Lemma create_from_sext : forall p s, sext s (fst (create_from p s)).
Proof.
  intros p s. unfold create_from.
  pose proof (add_prefixes_sext (lru_variations p) true s) as H1.
  destruct (add_prefixes (lru_variations p) true s) as [s1 [| |w valid]]; exact H1.
Qed.

Lemma add_page_int_sext : forall l cr s, sext s (fst (fst (add_page_int l cr s))).
Proof.
  intros l cr s. unfold add_page_int.
  pose proof (trie_add_page_sext l cr s) as H1.
  destruct (trie_add_page l cr s) as [[s1 h] created]. cbn [fst] in H1.
  destruct (decide s1 l h) as [|p|]; try exact H1.
  pose proof (create_from_sext p s1) as H2.
  destruct (create_from p s1) as [s2 c]. cbn [fst] in *. apply (sext_trans _ _ _ H1 H2).
Qed.

Lemma store_links_sext : forall out path tg s, sext s (store_links out path tg s).
Proof.
  intros out path tg s. unfold store_links. destruct tg as [|t tg]; [apply sext_refl|].
  destruct (find path (tr s)) as [d0|]; [|apply sext_refl].
  destruct (push_stubs (t :: tg) (if out then outh d0 else inh d0) (stubs s)) as [st' h'].
  unfold sext. cbn [tr]. apply upd_text. intro d. apply ndx_set_head.
Qed.

(* ---- the coroutines --------------------------------------------------------------- *)

Lemma mstep_sext : forall c c', mstep c c' -> sext (SchedFacts.cs c) (SchedFacts.cs c').
Proof.
  intros c c' H. destruct H; cbn [SchedFacts.cs]; try apply sext_refl; try apply store_links_sext.
  - apply upd_sext. apply ndx_set_crawled.
  - apply add_page_int_sext.
  - apply add_page_int_sext.
Qed.

Lemma msteps_sext : forall c c', msteps c c' -> sext (SchedFacts.cs c) (SchedFacts.cs c').
Proof.
  intros c c' H. induction H as [c|c c1 c2 H1 H2 IH]; [apply sext_refl|].
  apply (sext_trans _ _ _ (mstep_sext _ _ H1) IH).
Qed.

Lemma batch_step_sext : forall fuel b s, sext s (snd (batch_step fuel b s)).
Proof.
  intros fuel b s. pose (a := mkA [] [] [] [] 0 [] [] (dflt s)).
  pose proof (batch_step_giter fuel (mkC b s a [] [])) as E. cbn [cb SchedFacts.cs] in E. rewrite E. cbn [snd].
  apply (msteps_sext _ _ (giter_msteps fuel (mkC b s a [] []))).
Qed.

Lemma rule_step_sext : forall r s, sext s (snd (rule_step r s)).
Proof.
  intros r s. rewrite rule_step_eq.
  assert (H1 : sext s (snd (rule_pre r s))).
  { unfold rule_pre. destruct (r_init r) as [[p k]|]; [|apply sext_refl]. cbn [snd]. unfold rule_setup.
    set (s0 := mkT (tr s) (nb s) (lastwe s) (stubs s) (aset p k (rules s)) (dflt s)).
    apply (sext_trans _ (fst (add_lru false p s0))).
    - apply (add_lru_sext false p s0).
    - apply upd_sext. apply ndx_set_rule. }
  apply (sext_trans _ _ _ H1).
  generalize (fst (rule_pre r s)) (snd (rule_pre r s)). clear. intros r0 s0.
  unfold rule_dfs. destruct (r_pend r0 ++ r_stack r0) as [|[a pre] rest]; [apply sext_refl|].
  destruct (read_at a (tr s0)) as [x|]; [|apply sext_refl].
  destruct (page (rn_d x)); [|apply sext_refl].
  pose proof (add_page_int_sext (pre ++ stem (rn_d x)) false s0) as H.
  destruct (add_page_int (pre ++ stem (rn_d x)) false s0) as [[s1 n'] c']. exact H.
Qed.

Theorem co_step_sext : forall c s, sext s (snd (co_step c s)).
Proof.
  intros c s. unfold co_step. destruct (co_done c); [apply sext_refl|].
  destruct c as [b|r|q|n|lq]; cbn [snd]; try apply sext_refl.
  - pose proof (batch_step_sext (batch_fuel b) b s) as H.
    destruct (batch_step (batch_fuel b) b s) as [b' s']. exact H.
  - pose proof (rule_step_sext r s) as H. destruct (rule_step r s) as [r' s']. exact H.
Qed.

Theorem exec_sext : forall sched cs s, sext s (snd (exec_sched sched cs s)).
Proof.
  induction sched as [|i sched IH]; intros cs s; [apply sext_refl|].
  cbn [exec_sched]. destruct (nth_error cs i) as [c|]; [|apply IH].
  pose proof (co_step_sext c s) as H1. destruct (co_step c s) as [c' s']. cbn [snd] in H1.
  apply (sext_trans _ _ _ H1). apply IH.
Qed.

(* webentities are never removed by a coroutine: a node without one had none before *)
Corollary exec_we_mono : forall sched cs s p d d',
  find p (tr s) = Some d -> find p (tr (snd (exec_sched sched cs s))) = Some d' -> we d' = 0 -> we d = 0.
Proof.
  intros sched cs s p d d' Hf Hf' Hw. destruct (text_find p _ _ (exec_sext sched cs s) d Hf) as (d2 & Hf2 & _ & _ & _ & Hwe).
  rewrite Hf' in Hf2. injection Hf2 as <-.
  destruct (N.eq_dec (we d) 0) as [E|E]; [exact E|]. exfalso. apply (Hwe E). exact Hw.
Qed.

(* ====================================================================== *)
(* subtrees with their sibling-prefix                                     *)
(* ====================================================================== *)

Fixpoint locs (pre : list bytes) (t : tst) : list (list bytes * tst) :=
  match t with
  | Lf => []
  | Nd d l c r => (pre, t) :: locs (pre ++ [stem d]) c ++ locs pre l ++ locs pre r
  end.

Definition rstem (t : tst) : bytes := match t with Lf => [] | Nd d _ _ _ => stem d end.
Definition lkeyp (x : list bytes * tst) : list bytes := fst x ++ [rstem (snd x)].

Lemma locs_keys : forall t pre, map fst (paths pre t) = map lkeyp (locs pre t).
Proof.
  induction t as [|d l IHl c IHc r IHr]; intro pre; [reflexivity|].
  cbn [paths locs map fst]. rewrite !map_app, IHl, IHc, IHr. reflexivity.
Qed.

Lemma locs_in_paths : forall t pre pp d l c r, In (pp, Nd d l c r) (locs pre t) ->
  In (pp ++ [stem d], d) (paths pre t).
Proof.
  induction t as [|d0 l0 IHl c0 IHc r0 IHr]; intros pre pp d l c r H; [destruct H|].
  cbn [locs] in H. cbn [paths]. destruct H as [H|H].
  - injection H as <- <- <- <- <-. left. reflexivity.
  - right. apply in_app_or in H. destruct H as [H|H]; [apply in_or_app; left; apply (IHc _ _ _ _ _ _ H)|].
    apply in_or_app. right. apply in_app_or in H.
    destruct H as [H|H]; apply in_or_app; [left; apply (IHl _ _ _ _ _ _ H)|right; apply (IHr _ _ _ _ _ _ H)].
Qed.

Lemma locs_find_root : forall t pp d l c r, wf_tst t -> In (pp, Nd d l c r) (locs [] t) ->
  find (pp ++ [stem d]) t = Some d.
Proof. intros t pp d l c r Hwf H. apply (paths_find t Hwf). apply (locs_in_paths _ _ _ _ _ _ _ H). Qed.

(* the three subtrees of a located node are located *)
Lemma locs_children : forall t pre pp d l c r, In (pp, Nd d l c r) (locs pre t) ->
  incl (locs (pp ++ [stem d]) c) (locs pre t) /\ incl (locs pp l) (locs pre t) /\ incl (locs pp r) (locs pre t).
Proof.
  induction t as [|d0 l0 IHl c0 IHc r0 IHr]; intros pre pp d l c r H; [destruct H|].
  cbn [locs] in H. destruct H as [H|H].
  - injection H as <- <- <- <- <-. cbn [locs]. repeat split; intros y Hy; right.
    + apply in_or_app. left. exact Hy.
    + apply in_or_app. right. apply in_or_app. left. exact Hy.
    + apply in_or_app. right. apply in_or_app. right. exact Hy.
  - assert (Hsub : forall pre' sub, incl (locs pre' sub) (locs pre (Nd d0 l0 c0 r0)) ->
              In (pp, Nd d l c r) (locs pre' sub) ->
              (forall pre pp d l c r, In (pp, Nd d l c r) (locs pre sub) ->
                 incl (locs (pp ++ [stem d]) c) (locs pre sub) /\ incl (locs pp l) (locs pre sub) /\
                 incl (locs pp r) (locs pre sub)) ->
              incl (locs (pp ++ [stem d]) c) (locs pre (Nd d0 l0 c0 r0)) /\
              incl (locs pp l) (locs pre (Nd d0 l0 c0 r0)) /\ incl (locs pp r) (locs pre (Nd d0 l0 c0 r0))).
    { intros pre' sub Hi Hin IH. destruct (IH _ _ _ _ _ _ Hin) as (H1 & H2 & H3).
      repeat split; eapply incl_tran; eassumption. }
    apply in_app_or in H. destruct H as [H|H].
    + apply (Hsub (pre ++ [stem d0]) c0); [|exact H|exact IHc].
      intros y Hy. cbn [locs]. right. apply in_or_app. left. exact Hy.
    + apply in_app_or in H. destruct H as [H|H].
      * apply (Hsub pre l0); [|exact H|exact IHl].
        intros y Hy. cbn [locs]. right. apply in_or_app. right. apply in_or_app. left. exact Hy.
      * apply (Hsub pre r0); [|exact H|exact IHr].
        intros y Hy. cbn [locs]. right. apply in_or_app. right. apply in_or_app. right. exact Hy.
Qed.

Lemma locs_self : forall pre d l c r, In (pre, Nd d l c r) (locs pre (Nd d l c r)).
Proof. intros. cbn [locs]. left. reflexivity. Qed.

Lemma NoDup_map_inj : forall (A B : Type) (f : A -> B) l x y,
  NoDup (map f l) -> In x l -> In y l -> f x = f y -> x = y.
Proof.
  intros A B f l x y. induction l as [|z l IH]; intros Hnd Hx Hy E; [destruct Hx|].
  cbn [map] in Hnd. inversion Hnd as [|? ? Hz Hnd']; subst.
  destruct Hx as [->|Hx], Hy as [->|Hy].
  - reflexivity.
  - exfalso. apply Hz. rewrite E. apply in_map. exact Hy.
  - exfalso. apply Hz. rewrite <- E. apply in_map. exact Hx.
  - apply IH; assumption.
Qed.

(* a located subtree is determined by the path of its root *)
Lemma locs_unique : forall t pp d l c r pp' d' l' c' r', wf_tst t ->
  In (pp, Nd d l c r) (locs [] t) -> In (pp', Nd d' l' c' r') (locs [] t) ->
  pp ++ [stem d] = pp' ++ [stem d'] -> (pp, Nd d l c r) = (pp', Nd d' l' c' r').
Proof.
  intros t pp d l c r pp' d' l' c' r' Hwf H1 H2 E.
  apply (NoDup_map_inj _ _ lkeyp (locs [] t)); try assumption.
  rewrite <- locs_keys. apply paths_nodup. exact Hwf.
Qed.

(* reading a block address gives a located subtree *)
Lemma read_at_locs : forall t pre a x, read_at a t = Some x ->
  exists pp l c r,
    In (pp, Nd (rn_d x) l c r) (locs pre t) /\ addr (rn_d x) = a /\
    rn_left x = root_addr l /\ rn_right x = root_addr r /\ rn_child x = root_addr c.
Proof.
  induction t as [|d l IHl c IHc r IHr]; intros pre a x H; [discriminate|].
  cbn [read_at] in H. destruct (addr d =? a) eqn:E.
  - injection H as <-. apply N.eqb_eq in E. exists pre, l, c, r. cbn [rn_d rn_left rn_right rn_child].
    split; [apply locs_self|]. auto.
  - assert (Hsub : forall pre' sub, incl (locs pre' sub) (locs pre (Nd d l c r)) ->
              (exists pp l' c' r', In (pp, Nd (rn_d x) l' c' r') (locs pre' sub) /\ addr (rn_d x) = a /\
                 rn_left x = root_addr l' /\ rn_right x = root_addr r' /\ rn_child x = root_addr c') ->
              exists pp l' c' r', In (pp, Nd (rn_d x) l' c' r') (locs pre (Nd d l c r)) /\ addr (rn_d x) = a /\
                 rn_left x = root_addr l' /\ rn_right x = root_addr r' /\ rn_child x = root_addr c').
    { intros pre' sub Hi (pp & l' & c' & r' & H1 & H2). exists pp, l', c', r'. split; [apply Hi; exact H1|exact H2]. }
    destruct (read_at a c) as [xc|] eqn:Ec.
    + injection H as <-. apply (Hsub (pre ++ [stem d]) c); [|apply (IHc _ _ _ Ec)].
      intros y Hy. cbn [locs]. right. apply in_or_app. left. exact Hy.
    + destruct (read_at a l) as [xl|] eqn:El.
      * injection H as <-. apply (Hsub pre l); [|apply (IHl _ _ _ El)].
        intros y Hy. cbn [locs]. right. apply in_or_app. right. apply in_or_app. left. exact Hy.
      * apply (Hsub pre r); [|apply (IHr _ _ _ H)].
        intros y Hy. cbn [locs]. right. apply in_or_app. right. apply in_or_app. right. exact Hy.
Qed.

Lemma read_at_none : forall t pre a pp d l c r, read_at a t = None ->
  In (pp, Nd d l c r) (locs pre t) -> addr d <> a.
Proof.
  induction t as [|d0 l0 IHl c0 IHc r0 IHr]; intros pre a pp d l c r H Hin; [destruct Hin|].
  cbn [read_at] in H. destruct (addr d0 =? a) eqn:E; [discriminate|].
  destruct (read_at a c0) as [xc|] eqn:Ec; [discriminate|].
  destruct (read_at a l0) as [xl|] eqn:El; [discriminate|].
  cbn [locs] in Hin. destruct Hin as [Hin|Hin].
  - injection Hin as <- <- <- <- <-. apply N.eqb_neq. exact E.
  - apply in_app_or in Hin. destruct Hin as [Hin|Hin]; [apply (IHc _ _ _ _ _ _ _ Ec Hin)|].
    apply in_app_or in Hin. destruct Hin as [Hin|Hin]; [apply (IHl _ _ _ _ _ _ _ El Hin)|apply (IHr _ _ _ _ _ _ _ H Hin)].
Qed.

(* reading the address of a located node gives that node and the roots of its subtrees *)
Lemma read_at_located : forall t nbk a pp d l c r x, wf_tst t -> addr_ok t nbk ->
  In (pp, Nd d l c r) (locs [] t) -> addr d = a -> read_at a t = Some x ->
  rn_d x = d /\ rn_left x = root_addr l /\ rn_right x = root_addr r /\ rn_child x = root_addr c.
Proof.
  intros t nbk a pp d l c r x Hwf Hok Hin Ha Hr.
  destruct (read_at_locs t [] a x Hr) as (pp' & l' & c' & r' & Hin' & Ha' & Hl & Hrr & Hc).
  assert (E : pp ++ [stem d] = pp' ++ [stem (rn_d x)]).
  { apply (proj2 Hok _ _ d (rn_d x) (locs_find_root _ _ _ _ _ _ Hwf Hin) (locs_find_root _ _ _ _ _ _ Hwf Hin')).
    congruence. }
  pose proof (locs_unique t _ _ _ _ _ _ _ _ _ _ Hwf Hin Hin' E) as Eq.
  injection Eq as _ <- <- <- <-. auto.
Qed.

(* growth keeps located subtrees located, and grown *)
Lemma text_locs : forall t t', text t t' -> forall pre pp sub, In (pp, sub) (locs pre t) ->
  exists sub', In (pp, sub') (locs pre t') /\ text sub sub'.
Proof.
  intros t t' H. induction H as [t'|d d' l l' c c' r r' Hd Hl IHl Hc IHc Hr IHr]; intros pre pp sub Hin.
  - destruct Hin.
  - cbn [locs] in Hin. cbn [locs]. destruct Hin as [Hin|Hin].
    + injection Hin as <- <-. exists (Nd d' l' c' r'). split; [left; reflexivity|constructor; assumption].
    + destruct Hd as (Es & Hd'). rewrite Es.
      apply in_app_or in Hin. destruct Hin as [Hin|Hin].
      * destruct (IHc _ _ _ Hin) as (sub' & H1 & H2). exists sub'. split; [|exact H2].
        right. apply in_or_app. left. exact H1.
      * apply in_app_or in Hin. destruct Hin as [Hin|Hin].
        -- destruct (IHl _ _ _ Hin) as (sub' & H1 & H2). exists sub'. split; [|exact H2].
           right. apply in_or_app. right. apply in_or_app. left. exact H1.
        -- destruct (IHr _ _ _ Hin) as (sub' & H1 & H2). exists sub'. split; [|exact H2].
           right. apply in_or_app. right. apply in_or_app. right. exact H1.
Qed.

(* the node spelled by p ++ [x] is the root of a located subtree from which every
   search continuing below it can be run *)
Lemma find_locs : forall x p t pre d0, find (p ++ [x]) t = Some d0 ->
  exists l c r, In (pre ++ p, Nd d0 l c r) (locs pre t) /\
                forall rest, find (p ++ x :: rest) t = find (x :: rest) (Nd d0 l c r).
Proof.
  intros x. induction p as [|y p' IHp]; intros t pre d0 Hf.
  - cbn [app] in *. rewrite app_nil_r.
    induction t as [|d l IHl c _ r IHr]; [rewrite find_Lf in Hf; discriminate|].
    rewrite find_Nd in Hf. destruct (lex x (stem d)) eqn:E.
    + injection Hf as <-. exists l, c, r. split; [apply locs_self|reflexivity].
    + destruct (IHl Hf) as (l' & c' & r' & H1 & H2). exists l', c', r'. split.
      * cbn [locs]. right. apply in_or_app. right. apply in_or_app. left. exact H1.
      * intro rest. rewrite find_Nd, E. apply H2.
    + destruct (IHr Hf) as (l' & c' & r' & H1 & H2). exists l', c', r'. split.
      * cbn [locs]. right. apply in_or_app. right. apply in_or_app. right. exact H1.
      * intro rest. rewrite find_Nd, E. apply H2.
  - cbn [app] in *.
    induction t as [|d l IHl c _ r IHr]; [rewrite find_Lf in Hf; discriminate|].
    rewrite find_Nd in Hf. destruct (lex y (stem d)) eqn:E.
    + apply lex_eq in E. subst y.
      assert (Hf' : find (p' ++ [x]) c = Some d0).
      { destruct (p' ++ [x]) eqn:Ep; [destruct p'; discriminate|exact Hf]. }
      destruct (IHp c (pre ++ [stem d]) d0 Hf') as (l' & c' & r' & H1 & H2).
      exists l', c', r'. split.
      * cbn [locs]. right. apply in_or_app. left. rewrite <- app_assoc in H1. exact H1.
      * intro rest. rewrite find_Nd, lex_refl. rewrite <- H2.
        destruct (p' ++ x :: rest) eqn:Ep; [destruct p'; discriminate|reflexivity].
    + destruct (IHl Hf) as (l' & c' & r' & H1 & H2). exists l', c', r'. split.
      * cbn [locs]. right. apply in_or_app. right. apply in_or_app. left. exact H1.
      * intro rest. rewrite find_Nd, E. apply H2.
    + destruct (IHr Hf) as (l' & c' & r' & H1 & H2). exists l', c', r'. split.
      * cbn [locs]. right. apply in_or_app. right. apply in_or_app. right. exact H1.
      * intro rest. rewrite find_Nd, E. apply H2.
Qed.
