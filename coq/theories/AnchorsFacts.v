(* AnchorsFacts.v — the condition `anchors_known` of GenTraphPFacts1.v (every node of the trie carrying the creation-rule flag
   has its anchor in the RAM rule table) is an invariant of every request of the model, proved directly on the model
   (no abstract state, no Rcore): it holds on every state reached by a history whose reopen requests re-supply the rules
   of the anchors flagged in the file at that moment (`resupplied`), as the API requires.
   PLAN
     1. the definitions asked for: reopen_ok, resupplied
     2. association lists: aget after aset / adel; anchors_known is monotone in the RAM table
     3. anchors_known through every request (the pattern of StoreFacts2.step_Q)
     4. step_anchors_known, init_anchors_known, history_anchors_known, run_anchors_known
     5. non-vacuity: a history with add_rule, pages, a reopen re-supplying the rule and more pages is `resupplied`;
        a reopen without the rule violates reopen_ok (and the state it produces violates anchors_known). *)
From Coq Require Import List NArith Bool Lia Arith.
Import ListNotations.
From Traph Require Import Bytes Consts Helpers Rules Tst TstDefs Traph Spec Ops RefDefs TstFacts ViewFacts ViewFacts2 IdFacts
  TraceFacts6 StoreFacts StoreFacts2 GenTraphP GenTraphPDefs GenTraphPFacts1.
Open Scope N_scope.

Arguments N.mul : simpl never.
Arguments N.add : simpl never.

(* ====================================================================================== *)
(* 1. definitions                                                                         *)
(* ====================================================================================== *)
Definition reopen_ok (s : traph) (o : op) : Prop :=
  match o with
  | OReopen _ rs => forall l d, wf_lru l -> nodeof s l = Some d -> rule d = true -> aget l rs <> None
  | _ => True
  end.

Fixpoint resupplied (s : traph) (h : list op) : Prop :=
  match h with
  | [] => True
  | o :: h' => reopen_ok s o /\ resupplied (fst (Ops.step s o)) h'
  end.

(* ====================================================================================== *)
(* 2. association lists                                                                   *)
(* ====================================================================================== *)
Lemma ak_beq_sym_false : forall a b : bytes, beq a b = false -> beq b a = false.
Proof.
  intros a b H. destruct (beq b a) eqn:E; [|reflexivity]. apply beq_eq in E. subst b.
  rewrite ViewFacts.beq_refl in H. discriminate H.
Qed.

Lemma ak_aget_aset : forall (A : Type) x k (v : A) m, aget x (aset k v m) = if beq x k then Some v else aget x m.
Proof.
  intros A x k v m. induction m as [|[k' v'] m IH]; [reflexivity|].
  cbn [aset aget]. destruct (beq k k') eqn:Ekk.
  - apply beq_eq in Ekk. subst k'. cbn [aget]. destruct (beq x k); reflexivity.
  - cbn [aget]. destruct (beq x k') eqn:Exk'.
    + apply beq_eq in Exk'. subst k'. rewrite (ak_beq_sym_false _ _ Ekk). reflexivity.
    + exact IH.
Qed.

Lemma ak_aget_adel_other : forall (A : Type) x k (m : list (bytes * A)), x <> k -> aget x (adel k m) = aget x m.
Proof.
  intros A x k m Hne. induction m as [|[k' v'] m IH]; [reflexivity|].
  cbn [adel aget]. destruct (beq k k') eqn:Ekk.
  - apply beq_eq in Ekk. subst k'. destruct (beq x k) eqn:E; [apply beq_eq in E; contradiction|reflexivity].
  - cbn [aget]. rewrite IH. reflexivity.
Qed.

(* a RAM table that grows keeps the anchors known *)
Lemma aget_aset_mono : forall (A : Type) l p (k : A) m, aget l m <> None -> aget l (aset p k m) <> None.
Proof. intros A l p k m H. rewrite ak_aget_aset. destruct (beq l p); [discriminate|exact H]. Qed.

Lemma aget_aset_same : forall (A : Type) p (k : A) m, aget p (aset p k m) <> None.
Proof. intros A p k m. rewrite ak_aget_aset, ViewFacts.beq_refl. discriminate. Qed.

Theorem anchors_known_rules_mono : forall s s', tr s' = tr s ->
  (forall l, aget l (rules s) <> None -> aget l (rules s') <> None) ->
  anchors_known s -> anchors_known s'.
Proof.
  intros s s' Ht Hm H l d Hl Hd Hr. unfold nodeof in Hd. rewrite Ht in Hd. apply Hm. exact (H l d Hl Hd Hr).
Qed.

(* two well-formed LRUs spelling the same path are equal *)
Lemma lru_iter_inj : forall l p, wf_lru l -> wf_lru p -> lru_iter l = lru_iter p -> l = p.
Proof. intros l p Hl Hp E. rewrite <- (lru_iter_concat l Hl), <- (lru_iter_concat p Hp), E. reflexivity. Qed.

(* the empty trie *)
Lemma anchors_known_empty : forall n w st rs d, anchors_known (mkT Lf n w st rs d).
Proof. intros n w st rs d l d0 Hl Hd Hr. unfold nodeof in Hd. cbn [tr] in Hd. rewrite find_Lf in Hd. discriminate Hd. Qed.

(* ====================================================================================== *)
(* 3. request by request                                                                  *)
(* ====================================================================================== *)
Lemma add_page_AK : forall l cr s, anchors_known s -> anchors_known (fst (add_page l cr s)).
Proof.
  intros l cr s H. unfold add_page. pose proof (anchors_known_add_page_int l cr s H) as H1.
  destruct (add_page_int l cr s) as [[s1 n] c]. exact H1.
Qed.

Lemma pages_fold_AK : forall cr ls (x : traph * N * list (N * list bytes)), anchors_known (fst (fst x)) ->
  anchors_known (fst (fst (fold_left (fun '(s, n, c) l => let '(s', n', c') := add_page_int l cr s in (s', n + n', c ++ c'))
                         ls x))).
Proof.
  intros cr ls x H.
  apply (fold_pres _ _ (fun x : traph * N * list (N * list bytes) => anchors_known (fst (fst x)))); [|exact H].
  intros [[s n] c] l Ha. cbn [fst] in Ha. pose proof (anchors_known_add_page_int l cr s Ha) as H1.
  destruct (add_page_int l cr s) as [[s' n'] c']. exact H1.
Qed.

Lemma add_pages_AK : forall ls cr s, anchors_known s -> anchors_known (fst (add_pages ls cr s)).
Proof.
  intros ls cr s H. unfold add_pages.
  pose proof (pages_fold_AK cr ls (s, 0, []) H) as H1.
  destruct (fold_left _ ls (s, 0, [])) as [[s1 n] c]. exact H1.
Qed.

(* the link store: stubs and heads only *)
Lemma store_links_AK : forall out p tgs s, anchors_known s -> anchors_known (store_links out p tgs s).
Proof.
  intros out p tgs s H. unfold store_links. destruct tgs as [|t0 tgs]; [exact H|].
  destruct (find p (tr s)) as [d|]; [|exact H].
  destruct (push_stubs (t0 :: tgs) (if out then outh d else inh d) (stubs s)) as [st' h'].
  assert (H1 : anchors_known (set_tree (upd (if out then set_outh h' else set_inh h') p (tr s)) s)).
  { apply anchors_known_upd; [intro d0; destruct out; reflexivity|intro d0; destruct out; reflexivity|exact H]. }
  eapply anchors_known_ext; [| |exact H1]; reflexivity.
Qed.

Lemma flush_links_AK : forall out mm s, anchors_known s -> anchors_known (flush_links out mm s).
Proof.
  intros out mm s H. unfold flush_links. apply (fold_pres _ _ anchors_known); [|exact H].
  intros s0 [p others] H0. apply store_links_AK. exact H0.
Qed.

Lemma add_links_AK : forall links s, anchors_known s -> anchors_known (fst (add_links links s)).
Proof.
  intros links s H. unfold add_links.
  match goal with |- context [fold_left ?f links ?x0] =>
    assert (H1 : anchors_known (fst (fst (fst (fst (fst (fold_left f links x0))))))) end.
  { apply (fold_pres _ _ (fun x : traph * N * list (N * list bytes) * list bytes
                                   * list (bytes * list bytes) * list (bytes * list bytes)
                          => anchors_known (fst (fst (fst (fst (fst x))))))); [|exact H].
    intros [[[[[s0 n0] c0] seen0] outs0] ins0] [a b] Ha. cbn [fst] in Ha.
    destruct (mem_bytes a seen0).
    - destruct (mem_bytes b seen0); [exact Ha|].
      pose proof (anchors_known_add_page_int b false s0 Ha) as H2.
      destruct (add_page_int b false s0) as [[s' n'] c']. exact H2.
    - pose proof (anchors_known_add_page_int a false s0 Ha) as H2.
      destruct (add_page_int a false s0) as [[s' n'] c']. cbn [fst] in H2.
      destruct (mem_bytes b (a :: seen0)); [exact H2|].
      pose proof (anchors_known_add_page_int b false s' H2) as H3.
      destruct (add_page_int b false s') as [[s'' n''] c'']. exact H3. }
  destruct (fold_left _ links _) as [[[[[s1 n] c] seen] outs] ins]. cbn [fst] in *.
  apply flush_links_AK, flush_links_AK. exact H1.
Qed.

Lemma batch_crawl_AK : forall data s, anchors_known s -> anchors_known (fst (batch_crawl data s)).
Proof.
  intros data s H. unfold batch_crawl.
  match goal with |- context [fold_left ?f data ?x0] =>
    assert (H1 : anchors_known (fst (fst (fst (fst (fold_left f data x0)))))) end.
  { apply (fold_pres _ _ (fun x : traph * N * list (N * list bytes) * list bytes
                                   * list (bytes * list bytes)
                          => anchors_known (fst (fst (fst (fst x)))))); [|exact H].
    intros [[[[s0 n0] c0] seen0] ins0] [src tgts] Ha. cbn [fst] in Ha.
    match goal with |- context [if mem_bytes src seen0 then ?A else ?B] =>
      assert (H2 : anchors_known (fst (fst (fst (if mem_bytes src seen0 then A else B))))) end.
    { destruct (mem_bytes src seen0).
      - cbn [fst]. apply anchors_known_upd; [reflexivity|reflexivity|exact Ha].
      - pose proof (anchors_known_add_page_int src true s0 Ha) as H2.
        destruct (add_page_int src true s0) as [[s' n'] c']. exact H2. }
    match goal with |- context [if mem_bytes src seen0 then ?A else ?B] =>
      destruct (if mem_bytes src seen0 then A else B) as [[[s2 n2] c2] seen2] end.
    cbn [fst] in H2.
    match goal with |- context [fold_left ?g tgts ?y0] =>
      assert (H3 : anchors_known (fst (fst (fst (fst (fold_left g tgts y0)))))) end.
    { apply (fold_pres _ _ (fun x : traph * N * list (N * list bytes) * list bytes
                                     * list (bytes * list bytes)
                            => anchors_known (fst (fst (fst (fst x)))))); [|exact H2].
      intros [[[[s3 n3] c3] seen3] ins3] t Hb. cbn [fst] in Hb.
      destruct (mem_bytes t seen3); [exact Hb|].
      pose proof (anchors_known_add_page_int t false s3 Hb) as H4.
      destruct (add_page_int t false s3) as [[s' n'] c']. exact H4. }
    destruct (fold_left _ tgts _) as [[[[s4 n4] c4] seen4] ins4]. cbn [fst] in *.
    apply store_links_AK. exact H3. }
  destruct (fold_left _ data _) as [[[[s1 n] c] seen] ins]. cbn [fst] in *.
  apply flush_links_AK. exact H1.
Qed.

(* webentities: add_lru + upd (set_we _) *)
Lemma create_webentity_AK : forall ps s, anchors_known s -> anchors_known (fst (create_webentity ps s)).
Proof.
  intros ps s H. unfold create_webentity. pose proof (anchors_known_add_prefixes ps false s H) as H1.
  destruct (add_prefixes ps false s) as [s1 [| |w valid]]; exact H1.
Qed.

Lemma delete_webentity_AK : forall w ps s, anchors_known s -> anchors_known (fst (delete_webentity w ps s)).
Proof.
  intros w ps s H. unfold delete_webentity.
  destruct (forallb _ ps); [|exact H]. cbn [fst].
  exact (anchors_known_set_we_all 0 (dedup_bytes ps []) s H).
Qed.

Lemma add_prefix_AK : forall p w s, anchors_known s -> anchors_known (fst (add_prefix p w s)).
Proof.
  intros p w s H. unfold add_prefix. pose proof (anchors_known_add_lru true p s H) as H1.
  destruct (add_lru true p s) as [s1 h]. cbn [fst] in H1.
  destruct (find (lru_iter p) (tr s1)) as [d|]; [|exact H1].
  destruct (we d =? 0); [|exact H1]. cbn [fst]. apply anchors_known_upd; [reflexivity|reflexivity|exact H1].
Qed.

Lemma remove_prefix_AK : forall p w s, anchors_known s -> anchors_known (fst (remove_prefix p w s)).
Proof.
  intros p w s H. unfold remove_prefix. pose proof (anchors_known_add_lru false p s H) as H1.
  destruct (add_lru false p s) as [s1 h]. cbn [fst] in H1.
  destruct (find (lru_iter p) (tr s1)) as [d|]; [|exact H1].
  destruct ((w =? 0) || (negb (we d =? 0) && (we d =? w))); [|exact H1].
  cbn [fst]. apply anchors_known_upd; [reflexivity|reflexivity|exact H1].
Qed.

Lemma move_prefix_AK : forall p wt ws s, anchors_known s -> anchors_known (fst (move_prefix p wt ws s)).
Proof.
  intros p wt ws s H. unfold move_prefix. pose proof (remove_prefix_AK p ws s H) as H1.
  destruct (remove_prefix p ws s) as [s1 r]. cbn [fst] in H1.
  destruct r; try exact H1. apply add_prefix_AK. exact H1.
Qed.

(* rules: the RAM entry is written BEFORE the node is flagged *)
Theorem add_rule_AK : forall p k write s, wf_lru p -> anchors_known s -> anchors_known (fst (add_rule p k write s)).
Proof.
  intros p k write s Hp H. unfold add_rule.
  set (s0 := mkT (tr s) (nb s) (lastwe s) (stubs s) (aset p k (rules s)) (dflt s)).
  assert (H0 : anchors_known s0).
  { apply (anchors_known_rules_mono s s0); [reflexivity| |exact H].
    intros l Hl. apply aget_aset_mono. exact Hl. }
  destruct write; cbn [negb]; [|exact H0].
  pose proof (anchors_known_add_lru false p s0 H0) as H1.
  assert (Er : rules (fst (add_lru false p s0)) = aset p k (rules s)).
  { destruct (add_lru_fields false p s0) as (_ & _ & Er & _). exact Er. }
  destruct (add_lru false p s0) as [s1 h]. cbn [fst] in H1, Er.
  assert (H2 : anchors_known (set_tree (upd (set_rule true) (lru_iter p) (tr s1)) s1)).
  { intros l d' Hl Hd' Hr. unfold nodeof in Hd'. cbn [set_tree set_tr tr rules] in *.
    destruct (find_upd_cases (set_rule true) _ (lru_iter p) (tr s1) d' (fun _ => eq_refl) Hd')
      as (d & Hd & [[E _]|[_ ->]]).
    - assert (El : l = p) by (apply lru_iter_inj; assumption). subst l. rewrite Er. apply aget_aset_same.
    - exact (H1 l d Hl Hd Hr). }
  pose proof (pages_fold_AK false
                (pages_under p (set_tree (upd (set_rule true) (lru_iter p) (tr s1)) s1))
                (set_tree (upd (set_rule true) (lru_iter p) (tr s1)) s1, 0, []) H2) as H3.
  destruct (fold_left _ _ _) as [[s3 n] c]. exact H3.
Qed.

(* remove_rule drops the RAM entry and clears the flag of that same node; when the anchor is absent from the trie nothing is
   flagged there.  (No well-formedness of p is needed.) *)
Theorem remove_rule_AK : forall p s, anchors_known s -> anchors_known (fst (remove_rule p s)).
Proof.
  intros p s H. unfold remove_rule. destruct (aget p (rules s)); [|exact H].
  cbn [tr]. destruct (find (lru_iter p) (tr s)) as [dp|] eqn:Ef; cbn [fst].
  - intros l d' Hl Hd' Hr. unfold nodeof in Hd'. cbn [set_tree set_tr tr rules] in *.
    destruct (find_upd_cases (set_rule false) _ (lru_iter p) (tr s) d' (fun _ => eq_refl) Hd')
      as (d & Hd & [[_ ->]|[Hne ->]]).
    + discriminate Hr.
    + rewrite ak_aget_adel_other; [exact (H l d Hl Hd Hr)|]. intros ->. apply Hne. reflexivity.
  - intros l d Hl Hd Hr. unfold nodeof in Hd. cbn [tr rules] in *.
    rewrite ak_aget_adel_other; [exact (H l d Hl Hd Hr)|]. intros ->. rewrite Ef in Hd. discriminate Hd.
Qed.

Lemma install_rules_cons : forall p k rs write s,
  install_rules ((p, k) :: rs) write s = install_rules rs write (fst (add_rule p k write s)).
Proof. reflexivity. Qed.

(* install_rules rs true: flags exactly the anchors it puts in RAM *)
Theorem install_rules_AK : forall rs write s, Forall (fun x => wf_lru (fst x)) rs -> anchors_known s ->
  anchors_known (install_rules rs write s).
Proof.
  induction rs as [|[p k] rs IH]; intros write s Hrs H; [exact H|].
  inversion Hrs as [|x xs Hp Hrs']; subst. rewrite install_rules_cons. apply IH; [exact Hrs'|].
  apply add_rule_AK; [exact Hp|exact H].
Qed.

(* install_rules rs false: RAM only; every key of rs ends up in the table *)
Lemma install_nowrite : forall rs s,
  tr (install_rules rs false s) = tr s /\
  forall l, aget l (rules s) <> None \/ aget l rs <> None -> aget l (rules (install_rules rs false s)) <> None.
Proof.
  induction rs as [|[p k] rs IH]; intro s.
  - split; [reflexivity|]. intros l [Hl|Hl]; [exact Hl|]. exfalso. apply Hl. reflexivity.
  - rewrite install_rules_cons. destruct (IH (fst (add_rule p k false s))) as [It Ir].
    unfold add_rule in It, Ir |- *. cbn [negb fst tr rules] in It, Ir |- *.
    split; [exact It|]. intros l Hl. apply Ir. cbn [aget] in Hl.
    rewrite ak_aget_aset. destruct (beq l p).
    + left. discriminate.
    + exact Hl.
Qed.

Theorem reopen_AK : forall d rs s,
  (forall l d0, wf_lru l -> nodeof s l = Some d0 -> rule d0 = true -> aget l rs <> None) ->
  anchors_known (reopen d rs s).
Proof.
  intros d rs s Hre l d0 Hl Hd Hr. unfold reopen in *.
  destruct (install_nowrite rs (mkT (tr s) (nb s) (lastwe s) (stubs s) [] d)) as [It Ir].
  unfold nodeof in Hd. rewrite It in Hd. cbn [tr] in Hd.
  apply Ir. right. exact (Hre l d0 Hl Hd Hr).
Qed.

Theorem clear_AK : forall od ors s, match ors with Some rs => wf_rules rs | None => True end ->
  anchors_known (clear od ors s).
Proof.
  intros od ors s Hw. unfold clear. destruct ors as [rs|].
  - apply install_rules_AK; [exact (proj1 Hw)|apply anchors_known_empty].
  - apply anchors_known_empty.
Qed.

(* ====================================================================================== *)
(* 4. one request, the initial state, histories                                           *)
(* ====================================================================================== *)
Theorem step_anchors_known : forall s o, anchors_known s -> wf_op o -> reopen_ok s o -> anchors_known (fst (Ops.step s o)).
Proof.
  intros s o H Hwf Hre. destruct o; cbn [Ops.step wf_op reopen_ok] in *.
  - apply add_page_AK; exact H.
  - apply add_pages_AK; exact H.
  - apply add_links_AK; exact H.
  - apply batch_crawl_AK; exact H.
  - apply create_webentity_AK; exact H.
  - apply delete_webentity_AK; exact H.
  - apply add_prefix_AK; exact H.
  - apply remove_prefix_AK; exact H.
  - apply move_prefix_AK; exact H.
  - apply add_rule_AK; [exact Hwf|exact H].
  - apply remove_rule_AK; exact H.
  - cbn [fst]. apply reopen_AK. exact Hre.
  - cbn [fst]. apply clear_AK. exact Hwf.
Qed.

Theorem init_anchors_known : forall d rs, wf_rules rs -> anchors_known (init d rs).
Proof. intros d rs Hw. unfold init. apply install_rules_AK; [exact (proj1 Hw)|apply anchors_known_empty]. Qed.

Theorem history_anchors_known : forall h s, anchors_known s -> Forall wf_op h -> resupplied s h ->
  anchors_known (mrun_state h s).
Proof.
  induction h as [|o h IH]; intros s H Hh Hre; [exact H|].
  inversion Hh as [|o' h' Hw Hh']; subst. destruct Hre as [Hre1 Hre2]. cbn [mrun_state].
  apply IH; [|exact Hh'|exact Hre2]. apply step_anchors_known; assumption.
Qed.

Theorem run_anchors_known : forall d rs h, wf_rules rs -> Forall wf_op h -> resupplied (init d rs) h ->
  anchors_known (run d rs h).
Proof.
  intros d rs h Hrs Hh Hre. rewrite run_mrun_state.
  apply history_anchors_known; [apply init_anchors_known; exact Hrs|exact Hh|exact Hre].
Qed.

(* reopen_ok from the invariant: it is enough that the rules supplied cover the RAM table of the moment *)
Theorem reopen_ok_of_known : forall s d rs, anchors_known s ->
  (forall l, aget l (rules s) <> None -> aget l rs <> None) -> reopen_ok s (OReopen d rs).
Proof. intros s d rs H Hc l d0 Hl Hd Hr. apply Hc. exact (H l d0 Hl Hd Hr). Qed.

(* in particular, re-supplying the RAM table itself *)
Corollary reopen_ok_same : forall s d, anchors_known s -> reopen_ok s (OReopen d (rules s)).
Proof. intros s d H. apply reopen_ok_of_known; [exact H|]. intros l Hl. exact Hl. Qed.

(* histories without reopen *)
Definition no_reopen (o : op) : Prop := match o with OReopen _ _ => False | _ => True end.

Lemma no_reopen_resupplied : forall h s, Forall no_reopen h -> resupplied s h.
Proof.
  induction h as [|o h IH]; intros s Hh; [exact I|].
  inversion Hh as [|o' h' Ho Hh']; subst. split; [|apply IH; exact Hh'].
  destruct o; try exact I. destruct Ho.
Qed.

(* the condition is also necessary at a reopen: if the state after the reopen has its anchors known, the rules supplied
   covered every flagged node (the RAM table after the reopen only holds keys of rs) *)
Lemma install_nowrite_keys : forall rs s l,
  aget l (rules (install_rules rs false s)) <> None -> aget l (rules s) <> None \/ aget l rs <> None.
Proof.
  induction rs as [|[p k] rs IH]; intros s l H; [left; exact H|].
  rewrite install_rules_cons in H. apply IH in H.
  unfold add_rule in H. cbn [negb fst rules] in H. cbn [aget].
  destruct H as [H|H].
  - rewrite ak_aget_aset in H. destruct (beq l p); [right; discriminate|left; exact H].
  - destruct (beq l p); [right; discriminate|right; exact H].
Qed.

Theorem reopen_AK_iff : forall d rs s, anchors_known (reopen d rs s) <-> reopen_ok s (OReopen d rs).
Proof.
  intros d rs s. split; [|apply reopen_AK].
  intros H l d0 Hl Hd Hr. unfold reopen in H.
  destruct (install_nowrite rs (mkT (tr s) (nb s) (lastwe s) (stubs s) [] d)) as [It _].
  assert (Hd' : nodeof (install_rules rs false (mkT (tr s) (nb s) (lastwe s) (stubs s) [] d)) l = Some d0).
  { unfold nodeof. rewrite It. exact Hd. }
  destruct (install_nowrite_keys rs _ l (H l d0 Hl Hd' Hr)) as [H1|H1]; [|exact H1].
  exfalso. apply H1. reflexivity.
Qed.

(* ====================================================================================== *)
(* 5. non-vacuity                                                                         *)
(* ====================================================================================== *)
Definition akb (l : bytes) : bool := match l with [] => false | _ => last l 0 =? sep end.
Lemma akb_ok : forall l, akb l = true -> wf_lru l.
Proof.
  intros l H. destruct l as [|x l]; [discriminate H|]. split; [discriminate|].
  unfold akb in H. apply N.eqb_eq in H. exact H.
Qed.

Definition ex_px : bytes := ex_pa ++ [112; 58; 120; sep].               (* ...|p:x|     *)
Definition ex_pxy : bytes := ex_px ++ [112; 58; 121; sep].              (* ...|p:x|p:y| *)

(* a rule on an anchor, a page beneath it, a close/reopen that re-supplies the rule, more pages *)
Definition ex_good : list op :=
  [OAddRule ex_pa Domain; OAddPage ex_px true; OReopen Subdomain [(ex_pa, Domain)]; OAddPage ex_pxy false; OAddPage ex_pb true].
(* the same with a reopen that forgets the rule *)
Definition ex_bad : list op :=
  [OAddRule ex_pa Domain; OAddPage ex_px true; OReopen Subdomain []; OAddPage ex_pxy false].

Lemma ex_good_wf : Forall wf_op ex_good.
Proof.
  unfold ex_good. repeat constructor; cbn [wf_op fst snd]; try (apply akb_ok; vm_compute; reflexivity).
  intros [].
Qed.

Example ex_good_resupplied : resupplied (init Domain []) ex_good.
Proof.
  assert (Hw : wf_rules []) by (split; constructor).
  pose proof (init_anchors_known Domain [] Hw) as H0.
  pose proof ex_good_wf as Hwf. unfold ex_good in *.
  inversion Hwf as [|o1 h1 W1 Hwf1]; subst. inversion Hwf1 as [|o2 h2 W2 Hwf2]; subst.
  set (s0 := init Domain []) in *.
  cbn [resupplied]. split; [exact I|].
  pose proof (step_anchors_known s0 _ H0 W1 I) as H1. set (s1 := fst (Ops.step s0 (OAddRule ex_pa Domain))) in *.
  split; [exact I|].
  pose proof (step_anchors_known s1 _ H1 W2 I) as H2. set (s2 := fst (Ops.step s1 (OAddPage ex_px true))) in *.
  split.
  - apply reopen_ok_of_known; [exact H2|].
    assert (E : rules s2 = [(ex_pa, Domain)]) by (vm_compute; reflexivity).
    rewrite E. intros l Hl. exact Hl.
  - split; [exact I|]. split; [exact I|]. exact I.
Qed.

Example ex_good_known : anchors_known (run Domain [] ex_good).
Proof. apply run_anchors_known; [split; constructor|exact ex_good_wf|exact ex_good_resupplied]. Qed.

(* the state before the reopen really has a flagged node: the hypothesis is not vacuous there *)
Example ex_flagged :
  let s2 := mrun_state [OAddRule ex_pa Domain; OAddPage ex_px true] (init Domain []) in
  option_map rule (nodeof s2 ex_pa) = Some true /\ rules s2 = [(ex_pa, Domain)].
Proof. vm_compute. split; reflexivity. Qed.

(* a reopen WITHOUT the rule violates reopen_ok, the history is not `resupplied`, and the state reached violates anchors_known *)
Example ex_bad_reopen :
  ~ reopen_ok (mrun_state [OAddRule ex_pa Domain; OAddPage ex_px true] (init Domain [])) (OReopen Subdomain []).
Proof.
  intro H. cbn [reopen_ok] in H.
  assert (Hw : wf_lru ex_pa) by (apply akb_ok; vm_compute; reflexivity).
  destruct (nodeof (mrun_state [OAddRule ex_pa Domain; OAddPage ex_px true] (init Domain [])) ex_pa) as [d|] eqn:Ed;
    [|vm_compute in Ed; discriminate Ed].
  apply (H ex_pa d Hw Ed); [|reflexivity].
  vm_compute in Ed. injection Ed as <-. reflexivity.
Qed.

Example ex_bad_not_resupplied : ~ resupplied (init Domain []) ex_bad.
Proof.
  unfold ex_bad. cbn [resupplied]. intros (_ & _ & H & _). exact (ex_bad_reopen H).
Qed.

Example ex_bad_unknown : ~ anchors_known (run Domain [] ex_bad).
Proof.
  intro H. rewrite run_mrun_state in H.
  assert (Hw : wf_lru ex_pa) by (apply akb_ok; vm_compute; reflexivity).
  destruct (nodeof (mrun_state ex_bad (init Domain [])) ex_pa) as [d|] eqn:Ed; [|vm_compute in Ed; discriminate Ed].
  assert (Hr : rule d = true) by (vm_compute in Ed; injection Ed as <-; reflexivity).
  apply (H ex_pa d Hw Ed Hr). vm_compute. reflexivity.
Qed.

Print Assumptions step_anchors_known.
Print Assumptions init_anchors_known.
Print Assumptions run_anchors_known.
Print Assumptions history_anchors_known.
Print Assumptions reopen_AK_iff.
Print Assumptions ex_good_resupplied.
Print Assumptions ex_bad_reopen.
Print Assumptions ex_bad_unknown.
