(* GenTrieDCount.v — the translated linear scans of the trie file (GenTrieD.v, generated from
   /repo/traph/lru_trie/lru_trie.py: LRUTrie.nodes_iter, count_pages, count_crawled_pages) agree with the model:
     nodes_iter           yields exactly one node object per block of the file, in file order, tail blocks of
                          long stems included (read as if they were nodes), each carrying the fields of its block
     count_pages          = Traph.count_pages         (blocks with the page bit)
     count_crawled_pages  = Traph.count_crawled_pages (blocks with the page and crawled bits)
   on the trie file of every state (the hypothesis trep already says that the blocks fit their fields).
   The generated loop never runs out of fuel and never raises. *)
From Coq Require Import List NArith Bool Lia Arith.
Import ListNotations.
From Traph Require Import Bytes Consts Layout Helpers Rules Tst TstDefs Traph Traphw TraceDefs Codec CodecFacts
  TstFacts Store StoreFacts GenStorage GenNode GenNodeFacts GenTrie GenTrieFacts GenTrieW GenTrieWDefs GenTrieD GenTrieDDefs.
From Traph Require PropsEx.
Open Scope N_scope.

Arguments N.shiftr : simpl never.
Arguments N.shiftl : simpl never.
Arguments N.modulo : simpl never.
Arguments N.div : simpl never.
Arguments N.land : simpl never.
Arguments N.lor : simpl never.
Arguments N.mul : simpl never.
Arguments N.add : simpl never.
Arguments N.sub : simpl never.
Arguments N.ltb : simpl never.
Arguments N.eqb : simpl never.

(* ====================================================================================== *)
(* 1. the flag tests of a node object holding the values of a block                       *)
(* ====================================================================================== *)
Lemma py_test_flag : forall b pos,
  py_test (tblock_vals b) (N.of_nat pos_flags) pos = N.testbit (b_flags b) pos.
Proof.
  intros b pos. unfold py_test.
  change (py_get_num (N.to_nat (N.of_nat pos_flags)) (tblock_vals b)) with (b_flags b).
  apply py_test_testbit.
Qed.

Lemma is_page_vals : forall n b, nd_data n = tblock_vals b -> py_node_is_page n = blk_page b.
Proof. intros n b H. unfold py_node_is_page, blk_page. rewrite H. apply py_test_flag. Qed.

Lemma is_crawled_vals : forall n b, nd_data n = tblock_vals b -> py_node_is_crawled n = blk_crawled b.
Proof. intros n b H. unfold py_node_is_crawled, blk_crawled. rewrite H. apply py_test_flag. Qed.

Lemma is_page_crawled_vals : forall n b, nd_data n = tblock_vals b ->
  py_node_is_page n && py_node_is_crawled n = blk_page b && blk_crawled b.
Proof. intros n b H. rewrite (is_page_vals n b H), (is_crawled_vals n b H). reflexivity. Qed.

(* ====================================================================================== *)
(* 2. nodes_iter                                                                          *)
(* ====================================================================================== *)

(* the node object that the scan yields for block number i (0-based) of the file: it exists, its address is
   128 * (i + 1), its fields are those of the block *)
Definition blk_node (i : nat) (b : tblock) (n : py_node) : Prop :=
  nd_exists n = true /\ nd_block n = Some (blk_off i) /\ nd_data n = tblock_vals b.

(* a list of node objects stands for the blocks number i, i+1, ... one to one *)
Fixpoint nodes_rep (i : nat) (bs : list tblock) (items : list py_node) : Prop :=
  match bs, items with
  | [], [] => True
  | b :: bs', n :: items' => blk_node i b n /\ nodes_rep (S i) bs' items'
  | _, _ => False
  end.

Lemma nodes_rep_length : forall bs i items, nodes_rep i bs items -> length items = length bs.
Proof.
  induction bs as [|b bs IH]; intros i [|n items] H; try (destruct H; fail); [reflexivity|].
  destruct H as [_ H]. cbn [length]. f_equal. exact (IH _ _ H).
Qed.

Lemma nodes_rep_nth : forall bs i items j b n, nodes_rep i bs items ->
  nth_error bs j = Some b -> nth_error items j = Some n -> blk_node (i + j) b n.
Proof.
  induction bs as [|b0 bs IH]; intros i [|n0 items] j b n H Hb Hn; try (destruct H; fail).
  - destruct j; discriminate Hb.
  - destruct H as [H0 H]. destruct j as [|j].
    + cbn in Hb, Hn. injection Hb as <-. injection Hn as <-. rewrite Nat.add_0_r. exact H0.
    + cbn [nth_error] in Hb, Hn. replace (i + S j)%nat with (S i + j)%nat by lia. exact (IH _ _ _ _ _ H Hb Hn).
Qed.

(* the generated loop, copied from the text of py_trie_nodes_iter (see nodes_iter_eq) *)
Definition nloop :=
 fix py_loop (fuel : nat) (st : (py_pm * py_node * list (py_node))) {struct fuel} : option (py_pm * py_node * list (py_node)) :=
 match fuel with
 | O => Some st
 | S fuel' =>
 let '(sg, v_node, v__out) := st in
 if (nd_exists v_node)
 then (let v__out := v__out ++ [v_node] in
 (match (nd_block v_node) with
 | None => None
 | Some v__x => (let '(v_node, sg) := py_node_read_o v_node sg (Some (N.add v__x (pm_block_size sg))) in
 (py_loop fuel' (sg, v_node, v__out))) end))
 else Some st
 end.

Lemma nodes_iter_eq : forall sg,
  py_trie_nodes_iter sg =
  (let '(n, sg) := py_node_init sg None (Some py_first_data_block) None in
   match nloop (S (length (pm_array sg))) (sg, n, []) with
   | None => None
   | Some (sg, _, out) => Some (out, sg)
   end).
Proof. reflexivity. Qed.

Lemma trep_len : forall f sg, trep f sg -> length (pm_array sg) = (128 + 128 * length (ft f))%nat.
Proof. intros f sg (_ & (hdr & Harr & Hh) & _). rewrite Harr, app_length, flat_blocks_length, Hh. reflexivity. Qed.

(* node.read(128 * (i + 1)) on the file: the node object of block i, whatever kind of block it is; past the last block an
   object that does not exist.  The file is left as it was. *)
Lemma read_block : forall f nd0 sg i, trep f sg ->
  let r := py_node_read_o nd0 sg (Some (blk_off i)) in
  match nth_error (ft f) i with
  | Some b => blk_node i b (fst r)
  | None => nd_exists (fst r) = false
  end /\ trep f (snd r).
Proof.
  intros f nd0 sg i Hrep. pose proof Hrep as (Hbs & (hdr & Harr & Hh) & Henc). cbv zeta.
  rewrite py_node_read_o_some.
  destruct (nth_error (ft f) i) as [b|] eqn:En.
  - pose proof (py_node_read_spec nd0 sg hdr f i b Hbs Harr Hh Henc En) as HS. cbv zeta in HS.
    destruct HS as (H1 & H2 & H3 & _ & _ & H6 & H7).
    split; [split; [exact H1|split; [exact H2|exact H3]]|].
    split; [rewrite H7; exact Hbs|]. split; [|exact Henc]. exists hdr. rewrite H6. split; assumption.
  - apply nth_error_None in En.
    pose proof (py_node_read_absent nd0 sg (blk_off i)) as HA. cbv zeta in HA.
    destruct HA as (H1 & _ & _ & _ & H5 & H6).
    { rewrite (trep_len f sg Hrep), blk_off_eq. lia. }
    split; [exact H1|].
    split; [rewrite H6; exact Hbs|]. split; [|exact Henc]. exists hdr. rewrite H5. split; assumption.
Qed.

(* the state of the scan before block i: the current object is the node object of block i, or does not exist when the
   file has no block i *)
Definition cur_ok (f : files) (i : nat) (n : py_node) : Prop :=
  match nth_error (ft f) i with
  | Some b => blk_node i b n
  | None => nd_exists n = false
  end.

(* the loop from block i with k blocks left: k objects yielded, one per block; k + 1 units of fuel are enough *)
Lemma nloop_spec : forall f k i n sg out fuel,
  (i + k = length (ft f))%nat -> (k < fuel)%nat -> trep f sg -> cur_ok f i n ->
  exists sg' nl items, nloop fuel (sg, n, out) = Some (sg', nl, out ++ items) /\ trep f sg' /\
    nodes_rep i (skipn i (ft f)) items.
Proof.
  intros f k. induction k as [|k IH]; intros i n sg out fuel Hik Hfuel Hrep Hcur;
    (destruct fuel as [|fuel]; [lia|]); unfold cur_ok in Hcur.
  - assert (En : nth_error (ft f) i = None) by (apply nth_error_None; lia).
    rewrite En in Hcur. cbn [nloop]. rewrite Hcur.
    exists sg, n, []. rewrite app_nil_r. split; [reflexivity|]. split; [exact Hrep|].
    rewrite skipn_all2 by lia. exact I.
  - destruct (nth_error (ft f) i) as [b|] eqn:En; [|apply nth_error_None in En; lia].
    destruct Hcur as (He & Hb & Hd).
    cbn [nloop]. rewrite He, Hb.
    pose proof Hrep as (Hbs & _ & _). rewrite Hbs, blk_off_next.
    pose proof (read_block f n sg (S i) Hrep) as HR. cbv zeta in HR.
    destruct (py_node_read_o n sg (Some (blk_off (S i)))) as [n1 sg1]. cbn [fst snd] in HR.
    destruct HR as [Hn1 Hrep1].
    destruct (IH (S i) n1 sg1 (out ++ [n]) fuel ltac:(lia) ltac:(lia) Hrep1 Hn1) as (sg' & nl & items & E & Hrep' & Hitems).
    exists sg', nl, (n :: items). rewrite E, <- app_assoc. split; [reflexivity|]. split; [exact Hrep'|].
    assert (Esk : skipn i (ft f) = b :: skipn (S i) (ft f)).
    { rewrite (skipn_S_tl _ i (ft f)). rewrite (nth_error_skipn_hd _ i (ft f)) in En.
      destruct (skipn i (ft f)); [discriminate En|]. cbn in En. injection En as ->. reflexivity. }
    rewrite Esk. cbn [nodes_rep]. split; [|exact Hitems]. split; [exact He|split; [exact Hb|exact Hd]].
Qed.

(* LRUTrie.nodes_iter() on a trie file: one node object per block of the file, in file order; object number i has
   exists = true, block = 128 * (i + 1) and the fields of block i *)
Theorem py_trie_nodes_iter_files : forall f sg, trep f sg ->
  exists items sg', py_trie_nodes_iter sg = Some (items, sg') /\ trep f sg' /\ nodes_rep 0 (ft f) items.
Proof.
  intros f sg Hrep. rewrite nodes_iter_eq, init_read.
  change py_first_data_block with (blk_off 0).
  pose proof (read_block f (nd_set_tail [] (nd_set_exists false (nd_set_block None py_node_new))) sg 0%nat Hrep) as HR.
  cbv zeta in HR. destruct (py_node_read_o _ sg (Some (blk_off 0))) as [n0 sg0]. cbn [fst snd] in HR.
  destruct HR as [Hn0 Hrep0].
  destruct (nloop_spec f (length (ft f)) 0 n0 sg0 [] (S (length (pm_array sg0))) eq_refl) as (sg' & nl & items & E & Hrep' & Hitems);
    [rewrite (trep_len f sg0 Hrep0); lia|exact Hrep0|exact Hn0|].
  rewrite E. cbn [app skipn] in *. exists items, sg'. split; [reflexivity|]. split; [exact Hrep'|exact Hitems].
Qed.

(* the same on the trie file of a state, object by object *)
Theorem py_trie_nodes_iter_spec : forall s, Inv18 s -> forall sg, trep (files_of s) sg ->
  exists items sg', py_trie_nodes_iter sg = Some (items, sg') /\ trep (files_of s) sg' /\
    length items = length (flatten (tr s)) /\
    forall i a b, nth_error (flatten (tr s)) i = Some (a, b) ->
      exists n, nth_error items i = Some n /\
        nd_exists n = true /\ nd_block n = Some (128 * (1 + N.of_nat i)) /\ nd_data n = tblock_vals b.
Proof.
  intros s _ sg Hrep. destruct (py_trie_nodes_iter_files _ sg Hrep) as (items & sg' & E & Hrep' & Hitems).
  exists items, sg'. split; [exact E|]. split; [exact Hrep'|].
  pose proof (nodes_rep_length _ _ _ Hitems) as Hlen. cbn [files_of ft] in Hlen, Hitems. rewrite map_length in Hlen.
  split; [exact Hlen|]. intros i a b Hn.
  assert (Hi : (i < length items)%nat) by (rewrite Hlen; apply nth_error_Some; congruence).
  destruct (nth_error items i) as [n|] eqn:En; [|apply nth_error_None in En; lia].
  exists n. split; [reflexivity|].
  assert (Hb : nth_error (map snd (flatten (tr s))) i = Some b) by (rewrite nth_error_map, Hn; reflexivity).
  pose proof (nodes_rep_nth _ _ _ _ _ _ Hitems Hb En) as (H1 & H2 & H3).
  rewrite blk_off_eq in H2. split; [exact H1|]. split; [exact H2|exact H3].
Qed.

(* ====================================================================================== *)
(* 3. the counts                                                                          *)
(* ====================================================================================== *)
Lemma fold_count : forall (q : tblock -> bool) (p : py_node -> bool),
  (forall n b, nd_data n = tblock_vals b -> p n = q b) ->
  forall bs i items acc, nodes_rep i bs items ->
  fold_left (fun (nb : N) (n : py_node) => if p n then N.add nb 1 else nb) items acc =
  acc + N.of_nat (length (filter q bs)).
Proof.
  intros q p Hpq. induction bs as [|b bs IH]; intros i [|n items] acc H; try (destruct H; fail).
  - cbn [fold_left filter length]. lia.
  - destruct H as [(_ & _ & Hd) H]. cbn [fold_left filter]. rewrite (IH _ _ _ H), (Hpq n b Hd).
    destruct (q b); cbn [length]; lia.
Qed.

Lemma filter_map_length : forall (A B : Type) (g : A -> B) (q : B -> bool) (l : list A),
  length (filter q (map g l)) = length (filter (fun x => q (g x)) l).
Proof.
  intros A B g q. induction l as [|x l IH]; [reflexivity|].
  cbn [map filter]. destruct (q (g x)); cbn [length]; rewrite IH; reflexivity.
Qed.

Lemma count_pages_ft : forall s, count_pages s = N.of_nat (length (filter blk_page (ft (files_of s)))).
Proof.
  intro s. unfold count_pages, scan_count_pages, count_if. cbn [files_of ft]. rewrite filter_map_length. reflexivity.
Qed.

Lemma count_crawled_ft : forall s,
  count_crawled_pages s = N.of_nat (length (filter (fun b => blk_page b && blk_crawled b) (ft (files_of s)))).
Proof.
  intro s. unfold count_crawled_pages, scan_count_crawled, count_if. cbn [files_of ft]. rewrite filter_map_length. reflexivity.
Qed.

Lemma count_pages_eq : forall sg,
  py_trie_count_pages sg =
  match py_trie_nodes_iter sg with
  | None => None
  | Some (items, sg) => Some (sg, fold_left (fun (nb : N) (n : py_node) => if py_node_is_page n then N.add nb 1 else nb) items 0)
  end.
Proof. reflexivity. Qed.

Lemma count_crawled_eq : forall sg,
  py_trie_count_crawled_pages sg =
  match py_trie_nodes_iter sg with
  | None => None
  | Some (items, sg) =>
      Some (sg, fold_left (fun (nb : N) (n : py_node) => if py_node_is_page n && py_node_is_crawled n then N.add nb 1 else nb) items 0)
  end.
Proof. reflexivity. Qed.

(* LRUTrie.count_pages() / count_crawled_pages() on the trie file of a state return the model's counts and leave the file *)
Theorem py_trie_count_spec : forall s, Inv18 s -> forall sg,
  trep (files_of s) sg ->
  (exists sg', py_trie_count_pages sg = Some (sg', count_pages s) /\ trep (files_of s) sg') /\
  (exists sg', py_trie_count_crawled_pages sg = Some (sg', count_crawled_pages s) /\ trep (files_of s) sg').
Proof.
  intros s _ sg Hrep. destruct (py_trie_nodes_iter_files _ sg Hrep) as (items & sg' & E & Hrep' & Hitems).
  split; exists sg'; (split; [|exact Hrep']).
  - rewrite count_pages_eq, E, count_pages_ft.
    rewrite (fold_count blk_page py_node_is_page is_page_vals _ _ _ 0 Hitems). reflexivity.
  - rewrite count_crawled_eq, E, count_crawled_ft.
    rewrite (fold_count (fun b => blk_page b && blk_crawled b) (fun n => py_node_is_page n && py_node_is_crawled n)
               is_page_crawled_vals _ _ _ 0 Hitems).
    reflexivity.
Qed.

(* ====================================================================================== *)
(* 4. non-vacuity: the translated code run on the bytes of the trie file of PropsEx.exs   *)
(*    (16 blocks, one of them the tail block of a 103-byte stem, 4 pages, 1 crawled)      *)
(* ====================================================================================== *)
Example ex_count_pages :
  (option_map snd (py_trie_count_pages ex_sg), option_map snd (py_trie_count_crawled_pages ex_sg))
  = (Some (count_pages PropsEx.exs), Some (count_crawled_pages PropsEx.exs)).
Proof. vm_compute. reflexivity. Qed.

Example ex_count_values :
  (option_map snd (py_trie_count_pages ex_sg), option_map snd (py_trie_count_crawled_pages ex_sg)) = (Some 4, Some 1).
Proof. vm_compute. reflexivity. Qed.

Example ex_nodes_iter_blocks :
  option_map (fun r => map nd_block (fst r)) (py_trie_nodes_iter ex_sg)
  = Some (map (fun i => Some (128 * (1 + N.of_nat i))) (seq 0 (length (flatten (tr PropsEx.exs))))).
Proof. vm_compute. reflexivity. Qed.

(* a tail block is among the blocks visited *)
Example ex_has_tail_block : existsb blk_is_tail (ft (files_of PropsEx.exs)) = true.
Proof. vm_compute. reflexivity. Qed.

Print Assumptions py_trie_nodes_iter_files.
Print Assumptions py_trie_nodes_iter_spec.
Print Assumptions py_trie_count_spec.
