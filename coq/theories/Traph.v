(* Traph.v — model of traph/traph.py (+ link_store) on top of the tree of Tst.v.
   Every public write request and read request is a total function mirroring the
   Python control flow; node objects are always "fresh" (the refresh-before-write
   discipline of docs/notes.md is what makes the real code agree).  Definitions only. *)
From Coq Require Import List NArith Bool.
From Traph Require Import Bytes Consts Helpers Rules Tst.
Import ListNotations.
Open Scope N_scope.

Definition ssz : N := py_stub_block_size.          (* LINK_STORE_NODE_BLOCK_SIZE *)

Record traph := mkT {
  tr : tst;
  nb : N;                         (* blocks in lru_trie.dat, header included *)
  lastwe : N;                     (* header: last webentity id *)
  stubs : list (N * N);           (* link_store.dat data blocks: (target, previous) *)
  rules : list (bytes * rulekind);(* RAM: anchor -> compiled rule *)
  dflt : rulekind                 (* RAM: default rule *)
}.

Definition set_tr (t : tst) (n : N) (s : traph) := mkT t n (lastwe s) (stubs s) (rules s) (dflt s).
Definition set_tree (t : tst) (s : traph) := set_tr t (nb s) s.

Inductive reply :=
| Refused                                   (* TraphException *)
| Crash                                     (* any other exception *)
| Ok
| Report (npages : N) (created : list (N * list bytes)).

(* ---- association lists with Python dict semantics (insertion order) ------------ *)
Section Assoc.
  Context {A : Type}.
  Fixpoint aget (k : bytes) (l : list (bytes * A)) : option A :=
    match l with [] => None | (k', v) :: l' => if beq k k' then Some v else aget k l' end.
  Fixpoint aset (k : bytes) (v : A) (l : list (bytes * A)) : list (bytes * A) :=
    match l with
    | [] => [(k, v)]
    | (k', v') :: l' => if beq k k' then (k', v) :: l' else (k', v') :: aset k v l'
    end.
  Fixpoint adel (k : bytes) (l : list (bytes * A)) : list (bytes * A) :=
    match l with [] => [] | (k', v) :: l' => if beq k k' then l' else (k', v) :: adel k l' end.
  Definition amem (k : bytes) (l : list (bytes * A)) : bool :=
    match aget k l with Some _ => true | None => false end.
  (* multimap append: defaultdict(list)[k].append(v) *)
  Fixpoint mm_add (k : bytes) (v : A) (l : list (bytes * list A)) : list (bytes * list A) :=
    match l with
    | [] => [(k, [v])]
    | (k', vs) :: l' => if beq k k' then (k', vs ++ [v]) :: l' else (k', vs) :: mm_add k v l'
    end.
End Assoc.

(* ---- link store ---------------------------------------------------------------- *)
Fixpoint chain (fuel : nat) (st : list (N * N)) (h : N) : list N :=
  match fuel with
  | O => []
  | S f =>
      if h =? 0 then []
      else match nth_error st (N.to_nat (h / ssz - 1)) with
           | Some (tg, pv) => tg :: chain f st pv
           | None => []
           end
  end.
(* targets of the list hanging from head h, newest first, repetitions kept *)
Definition targets_of (st : list (N * N)) (h : N) : list N := chain (S (length st)) st h.

Fixpoint incr (x : N) (acc : list (N * N)) : list (N * N) :=
  match acc with
  | [] => [(x, 1)]
  | (y, n) :: acc' => if x =? y then (y, n + 1) :: acc' else (y, n) :: incr x acc'
  end.
(* Counter in first-occurrence order *)
Definition weighted (l : list N) : list (N * N) := fold_left (fun acc x => incr x acc) l [].
Definition memN (x : N) (l : list N) : bool := existsb (N.eqb x) l.
Definition deduped (l : list N) : list N :=
  fold_left (fun acc x => if memN x acc then acc else acc ++ [x]) l [].

Definition push_stubs (targets : list N) (head : N) (st : list (N * N)) : list (N * N) * N :=
  fold_left (fun '(st, prev) tg =>
               let st' := st ++ [(tg, prev)] in (st', ssz * N.of_nat (length st')))
            targets (st, head).

(* LinkStore.add_links(node, target_blocks, out) *)
Definition store_links (out : bool) (path : list bytes) (targets : list N) (s : traph) : traph :=
  match targets with
  | [] => s
  | _ =>
      match find path (tr s) with
      | None => s
      | Some d =>
          let '(st', h') := push_stubs targets (if out then outh d else inh d) (stubs s) in
          mkT (upd (if out then set_outh h' else set_inh h') path (tr s))
              (nb s) (lastwe s) st' (rules s) (dflt s)
      end
  end.

(* ---- trie writes --------------------------------------------------------------- *)
Definition add_lru (flag : bool) (lru : bytes) (s : traph) : traph * hist :=
  let '(t', nb', h) := ins flag (lru_iter lru) [] 0 (nb s) hist0 (tr s) in
  (set_tr t' nb' s, h).

(* LRUTrie.add_page: returns the history and page_was_created *)
Definition trie_add_page (lru : bytes) (cr : bool) (s : traph) : traph * hist * bool :=
  let '(s1, h) := add_lru false lru s in
  let p := lru_iter lru in
  match find p (tr s1) with
  | None => (s1, h, false)
  | Some d =>
      if page d then
        (if cr && negb (crawled d) then set_tree (upd set_crawled p (tr s1)) s1 else s1, h, false)
      else
        (set_tree (upd (fun d => if cr then set_crawled (set_page d) else set_page d) p (tr s1)) s1,
         h, true)
  end.

(* __add_prefixes: (walked state, invalid count, valid prefixes in dict order) *)
Fixpoint walk_prefixes (ps : list bytes) (s : traph) (ninv : nat) (valid : list bytes)
  : traph * nat * list bytes :=
  match ps with
  | [] => (s, ninv, valid)
  | p :: ps' =>
      let '(s1, _) := add_lru true p s in
      match find (lru_iter p) (tr s1) with
      | Some d =>
          if we d =? 0 then walk_prefixes ps' s1 ninv (if mem_bytes p valid then valid else valid ++ [p])
          else walk_prefixes ps' s1 (S ninv) valid
      | None => walk_prefixes ps' s1 ninv valid
      end
  end.

Definition set_we_all (w : N) (ps : list bytes) (t : tst) : tst :=
  fold_left (fun t p => upd (set_we w) (lru_iter p) t) ps t.

Inductive addres := ARefuse | ANothing | ACreated (w : N) (valid : list bytes).

Definition add_prefixes (ps : list bytes) (best : bool) (s : traph) : traph * addres :=
  let '(s1, ninv, valid) := walk_prefixes ps s 0%nat [] in
  if negb (Nat.eqb ninv 0) && negb best then (s1, ARefuse)
  else if Nat.eqb ninv (length ps) then (s1, ANothing)
  else
    let w := lastwe s1 + 1 in
    (mkT (set_we_all w valid (tr s1)) (nb s1) w (stubs s1) (rules s1) (dflt s1), ACreated w valid).

(* __create_webentity(prefix, expand=True) *)
Definition create_from (prefix : bytes) (s : traph) : traph * list (N * list bytes) :=
  match add_prefixes (lru_variations prefix) true s with
  | (s1, ACreated w valid) => (s1, [(w, valid)])
  | (s1, _) => (s1, [])
  end.

Definition bsub (l : bytes) (n : N) : bytes := firstn (N.to_nat n) l.

(* the decision ladder shared by __add_page and get_potential_prefix:
   None = keep the existing webentity; Some p = p is the prefix to create/propose;
   the default rule is consulted only when nothing else applies *)
Inductive ladder := LKeep | LCand (p : bytes) | LNone.
Definition longest_candidate (rs : list (bytes * rulekind)) (lru : bytes) (h : hist) : bytes :=
  fold_left (fun best pos =>
               match aget (bsub lru pos) rs with
               | Some k => match apply_rule k lru with
                           | Some c => if Nat.ltb (length best) (length c) then c else best
                           | None => best
                           end
               | None => best
               end)
            (rev (h_rules h)) [].
Definition decide (s : traph) (lru : bytes) (h : hist) : ladder :=
  let cand := longest_candidate (rules s) lru h in
  let keep := match h_pos h with None => false | Some p => blen cand <=? p end in
  if keep then LKeep
  else match cand with
       | _ :: _ => LCand cand
       | [] => match apply_rule (dflt s) lru with
               | Some (x :: d) => LCand (x :: d)
               | _ => LNone
               end
       end.

(* Traph.__add_page *)
Definition add_page_int (lru : bytes) (cr : bool) (s : traph) : traph * N * list (N * list bytes) :=
  let '(s1, h, created) := trie_add_page lru cr s in
  let n := if created then 1 else 0 in
  match decide s1 lru h with
  | LCand p => let '(s2, c) := create_from p s1 in (s2, n, c)
  | _ => (s1, n, [])
  end.

Definition add_page (lru : bytes) (cr : bool) (s : traph) : traph * reply :=
  let '(s1, n, c) := add_page_int lru cr s in (s1, Report n c).

Definition add_pages (lrus : list bytes) (cr : bool) (s : traph) : traph * reply :=
  let '(s1, n, c) :=
      fold_left (fun '(s, n, c) l => let '(s', n', c') := add_page_int l cr s in (s', n + n', c ++ c'))
                lrus (s, 0, []) in
  (s1, Report n c).

Definition addr_of (lru : bytes) (s : traph) : N :=
  match find (lru_iter lru) (tr s) with Some d => addr d | None => 0 end.

Definition flush_links (out : bool) (mm : list (bytes * list bytes)) (s : traph) : traph :=
  fold_left (fun s '(p, others) =>
               store_links out (lru_iter p) (map (fun o => addr_of o s) others) s)
            mm s.

(* Traph.add_links *)
Definition add_links (links : list (bytes * bytes)) (s : traph) : traph * reply :=
  let see (l : bytes) '(s, n, c, seen) :=
      if mem_bytes l seen then (s, n, c, seen)
      else let '(s', n', c') := add_page_int l false s in (s', n + n', c ++ c', l :: seen) in
  let '(s1, n, c, _, outs, ins) :=
      fold_left (fun '(s, n, c, seen, outs, ins) '(a, b) =>
                   let '(s, n, c, seen) := see a (s, n, c, seen) in
                   let '(s, n, c, seen) := see b (s, n, c, seen) in
                   (s, n, c, seen, mm_add a b outs, mm_add b a ins))
                links (s, 0, [], [], [], []) in
  (flush_links false ins (flush_links true outs s1), Report n c).

(* Traph.index_batch_crawl: data = ordered list of (source, targets) with distinct sources *)
Definition batch_crawl (data : list (bytes * list bytes)) (s : traph) : traph * reply :=
  let '(s1, n, c, _, ins) :=
      fold_left
        (fun '(s, n, c, seen, ins) '(src, tgts) =>
           let '(s, n, c, seen) :=
               if mem_bytes src seen
               then (set_tree (upd set_crawled (lru_iter src) (tr s)) s, n, c, seen)
               else let '(s', n', c') := add_page_int src true s in (s', n + n', c ++ c', src :: seen) in
           let '(s, n, c, seen, ins) :=
               fold_left (fun '(s, n, c, seen, ins) t =>
                            let '(s, n, c, seen) :=
                                if mem_bytes t seen then (s, n, c, seen)
                                else let '(s', n', c') := add_page_int t false s in
                                     (s', n + n', c ++ c', t :: seen) in
                            (s, n, c, seen, mm_add t src ins))
                         tgts (s, n, c, seen, ins) in
           (store_links true (lru_iter src) (map (fun o => addr_of o s) tgts) s, n, c, seen, ins))
        data (s, 0, [], [], []) in
  (flush_links false ins s1, Report n c).

(* Traph.create_webentity(prefixes) *)
Definition create_webentity (ps : list bytes) (s : traph) : traph * reply :=
  match add_prefixes ps false s with
  | (s1, ARefuse) => (s1, Refused)
  | (s1, ANothing) => (s1, Crash)          (* report keyed by None: outside the modelled API *)
  | (s1, ACreated w valid) => (s1, Report 0 [(w, valid)])
  end.

Fixpoint dedup_bytes (l : list bytes) (acc : list bytes) : list bytes :=
  match l with [] => acc | x :: l' => dedup_bytes l' (if mem_bytes x acc then acc else acc ++ [x]) end.

(* Traph.delete_webentity(weid, prefixes) *)
Definition delete_webentity (w : N) (ps : list bytes) (s : traph) : traph * reply :=
  if forallb (fun p => match find (lru_iter p) (tr s) with
                       | Some d => negb (we d =? 0) && (we d =? w)
                       | None => false
                       end) ps
  then (set_tree (fold_left (fun t p => upd (set_we 0) (lru_iter p) t) (dedup_bytes ps []) (tr s)) s, Ok)
  else (s, Refused).

Definition add_prefix (p : bytes) (w : N) (s : traph) : traph * reply :=
  let '(s1, _) := add_lru true p s in
  match find (lru_iter p) (tr s1) with
  | Some d => if we d =? 0 then (set_tree (upd (set_we w) (lru_iter p) (tr s1)) s1, Ok)
              else (s1, Refused)
  | None => (s1, Crash)
  end.

(* weid = 0 stands for the default `False` (no consistency check) *)
Definition remove_prefix (p : bytes) (w : N) (s : traph) : traph * reply :=
  let '(s1, _) := add_lru false p s in
  match find (lru_iter p) (tr s1) with
  | Some d => if (w =? 0) || (negb (we d =? 0) && (we d =? w))
              then (set_tree (upd (set_we 0) (lru_iter p) (tr s1)) s1, Ok)
              else (s1, Refused)
  | None => (s1, Crash)
  end.

Definition move_prefix (p : bytes) (wt ws : N) (s : traph) : traph * reply :=
  match remove_prefix p ws s with
  | (s1, Ok) => add_prefix p wt s1
  | r => r
  end.

(* pages under the anchor, in the order dfs_iter(node, prefix) meets them *)
Definition pages_under (p : bytes) (s : traph) : list bytes :=
  match find_sub (lru_iter p) (tr s) with
  | Some sub => map fst (filter (fun x => page (snd x)) (dfs_at false (lru_dirname p) sub))
  | None => []
  end.

(* add_webentity_creation_rule(prefix, pattern, write_in_trie) *)
Definition add_rule (p : bytes) (k : rulekind) (write : bool) (s : traph) : traph * reply :=
  let s0 := mkT (tr s) (nb s) (lastwe s) (stubs s) (aset p k (rules s)) (dflt s) in
  if negb write then (s0, Report 0 [])
  else
    let '(s1, _) := add_lru false p s0 in
    let s2 := set_tree (upd (set_rule true) (lru_iter p) (tr s1)) s1 in
    let '(s3, n, c) :=
        fold_left (fun '(s, n, c) l => let '(s', n', c') := add_page_int l false s in (s', n + n', c ++ c'))
                  (pages_under p s2) (s2, 0, []) in
    (s3, Report n c).

Definition remove_rule (p : bytes) (s : traph) : traph * reply :=
  match aget p (rules s) with
  | None => (s, Crash)                                             (* KeyError *)
  | Some _ =>
      let s0 := mkT (tr s) (nb s) (lastwe s) (stubs s) (adel p (rules s)) (dflt s) in
      match find (lru_iter p) (tr s0) with
      | Some _ => (set_tree (upd (set_rule false) (lru_iter p) (tr s0)) s0, Ok)
      | None => (s0, Refused)
      end
  end.

Definition install_rules (rs : list (bytes * rulekind)) (write : bool) (s : traph) : traph :=
  fold_left (fun s '(p, k) => fst (add_rule p k write s)) rs s.

(* Traph(folder, overwrite=True / fresh folder, default rule, rules) *)
Definition init (d : rulekind) (rs : list (bytes * rulekind)) : traph :=
  install_rules rs true (mkT Lf 1 0 [] [] d).

(* close + Traph(folder) on the existing files: RAM part rebuilt, nothing written *)
Definition reopen (d : rulekind) (rs : list (bytes * rulekind)) (s : traph) : traph :=
  install_rules rs false (mkT (tr s) (nb s) (lastwe s) (stubs s) [] d).

(* Traph.clear(default, rules): None keeps the RAM value *)
Definition clear (od : option rulekind) (ors : option (list (bytes * rulekind))) (s : traph) : traph :=
  let d := match od with Some d => d | None => dflt s end in
  match ors with
  | Some rs => install_rules rs true (mkT Lf 1 0 [] [] d)
  | None => mkT Lf 1 0 [] (rules s) d
  end.

(* ---- read requests ------------------------------------------------------------- *)
Definition q_follow (lru : bytes) (s : traph) : hist := fst (follow (lru_iter lru) [] hist0 (tr s)).

Definition retrieve_webentity (lru : bytes) (s : traph) : option N :=
  let h := q_follow lru s in if h_we h =? 0 then None else Some (h_we h).
Definition retrieve_prefix (lru : bytes) (s : traph) : option bytes :=
  match h_pref (q_follow lru s) with [] => None | p => Some p end.

(* get_potential_prefix: inl None = False; the webentity prefix may be "" *)
Definition potential_prefix (lru : bytes) (s : traph) : option bytes :=
  let h := q_follow lru s in
  match decide s lru h with
  | LKeep => Some (h_pref h)
  | LCand p => Some p
  | LNone => None
  end.

Inductive res (A : Type) := RRefused | RCrash | ROk (a : A).
Arguments RRefused {A}. Arguments RCrash {A}. Arguments ROk {A} a.

Definition webentity_by_prefix (p : bytes) (s : traph) : res N :=
  match find (lru_iter p) (tr s) with
  | Some d => if we d =? 0 then RRefused else ROk (we d)
  | None => RRefused
  end.

(* iterate a per-prefix list-valued function, refusing on a prefix that is not in the trie *)
Fixpoint over_prefixes {A} (f : bytes -> tst -> list A) (ps : list bytes) (t : tst) : res (list A) :=
  match ps with
  | [] => ROk []
  | p :: ps' =>
      match find_sub (lru_iter p) t with
      | None => RRefused
      | Some sub =>
          match over_prefixes f ps' t with
          | ROk r => ROk (f p sub ++ r)
          | e => e
          end
      end
  end.

Definition we_page_nodes (maxd : option N) (ps : list bytes) (s : traph) : res (list (bytes * nd)) :=
  over_prefixes (fun p sub => filter (fun x => page (snd x)) (wdfs_at maxd (lru_dirname p) sub))
                ps (tr s).

Definition webentity_pages (ps : list bytes) (s : traph) : res (list (bytes * bool)) :=
  match we_page_nodes None ps s with
  | ROk l => ROk (map (fun x => (fst x, crawled (snd x))) l)
  | RRefused => RRefused | RCrash => RCrash
  end.
Definition webentity_crawled_pages (ps : list bytes) (s : traph) : res (list (bytes * bool)) :=
  match we_page_nodes None ps s with
  | ROk l => ROk (map (fun x => (fst x, true)) (filter (fun x => crawled (snd x)) l))
  | RRefused => RRefused | RCrash => RCrash
  end.

(* --- pagination of pages --- *)
Inductive pitem := PI (i : N) (lru : bytes) (cr : bool) (path : N) | PErr (crash : bool).

Definition inorder_items (p : bytes) (opath : option N) (t : tst) : option (list (bytes * nd * N)) :=
  match find_sub (lru_iter p) t with
  | None => None
  | Some sub =>
      match opath with
      | None => Some (ino_at (lru_dirname p) sub)
      | Some path =>
          let cmp := if path =? 0 then [] else int_to_base4 path in
          match follow_path cmp (lru_dirname p) sub with
          | None => Some []          (* placeholder, see paginate: a failing follow_path is a crash *)
          | Some plru => Some (ino_from_at cmp plru (lru_dirname p) sub)
          end
      end
  end.
Definition path_fails (p : bytes) (opath : option N) (t : tst) : bool :=
  match find_sub (lru_iter p) t, opath with
  | Some sub, Some path =>
      match follow_path (if path =? 0 then [] else int_to_base4 path) (lru_dirname p) sub with
      | None => true | Some _ => false
      end
  | _, _ => false
  end.

(* all candidate items for prefixes i.., the pagination path applying to the first one only *)
Fixpoint page_items (crawled_only : bool) (i : N) (ps : list bytes) (opath : option N) (t : tst) : list pitem :=
  match ps with
  | [] => []
  | p :: ps' =>
      match inorder_items p opath t with
      | None => [PErr false]
      | Some its =>
          if path_fails p opath t then [PErr true]
          else
            map (fun x => PI i (fst (fst x)) (crawled (snd (fst x))) (snd x))
                (filter (fun x => page (snd (fst x)) && (negb crawled_only || crawled (snd (fst x)))) its)
              ++ page_items crawled_only (i + 1) ps' None t
      end
  end.

Record page_result := mkPR {
  pr_done : bool; pr_count : N; pr_count_crawled : N;
  pr_pages : list (bytes * bool); pr_token : option bytes }.

(* consume items: the answer holds the first [k] of them; a (k+1)-th one means "not done" *)
Fixpoint pag_scan (k : option N) (its : list pitem) (n c : N) (acc : list (bytes * bool))
         (last : option (N * N)) : res page_result :=
  match its with
  | [] => ROk (mkPR true n c acc None)
  | PErr crash :: _ => if crash then RCrash else RRefused
  | PI i lru cr path :: its' =>
      if match k with Some k => k <=? n | None => false end
      then match last with
           | Some (li, lp) => ROk (mkPR false n c acc (Some (build_token li lp)))
           | None => RCrash
           end
      else pag_scan k its' (n + 1) (if cr then c + 1 else c) (acc ++ [(lru, cr)]) (Some (i, path))
  end.

(* paginate_webentity_pages(weid, prefixes, page_count, token, crawled_only) *)
Definition paginate_pages (ps : list bytes) (k : option N) (tok : option bytes) (crawled_only : bool)
           (s : traph) : res page_result :=
  match tok with
  | None => pag_scan k (page_items crawled_only 0 ps None (tr s)) 0 0 [] None
  | Some tk =>
      match parse_token tk with
      | None => RCrash
      | Some (i, path) =>
          pag_scan k (page_items crawled_only i (skipn (N.to_nat i) ps) (Some path) (tr s)) 0 0 [] None
      end
  end.

(* --- link views --- *)
Definition lru_at (a : N) (s : traph) : bytes :=
  match node_at a (tr s) with Some (l, _) => l | None => [] end.

Definition out_w (d : nd) (s : traph) : list (N * N) := weighted (targets_of (stubs s) (outh d)).
Definition in_w (d : nd) (s : traph) : list (N * N) := weighted (targets_of (stubs s) (inh d)).

(* get_page_links(lru, include_inbound, include_internal, include_outbound) *)
Definition page_links (lru : bytes) (inb int outb : bool) (s : traph) : list (bytes * bytes * N) :=
  match find (lru_iter lru) (tr s) with
  | None => []
  | Some d =>
      if negb (page d) then []
      else
        (if negb (outh d =? 0) && (outb || int)
         then flat_map (fun '(tg, w) =>
                          let tl := lru_at tg s in
                          if (outb && negb (beq tl lru)) || (int && beq tl lru) then [(lru, tl, w)] else [])
                       (out_w d s)
         else [])
        ++ (if negb (inh d =? 0) && inb
            then flat_map (fun '(sr, w) =>
                             let sl := lru_at sr s in
                             if negb (beq sl lru) then [(sl, lru, w)] else [])
                          (in_w d s)
            else [])
  end.

(* links of one page of webentity [w] *)
Definition pagelinks_of (w : N) (inb int outb : bool) (s : traph) (x : bytes * nd) : list (bytes * bytes * N) :=
  let '(lru, d) := x in
  (if negb (outh d =? 0) && (outb || int)
   then flat_map (fun '(tg, wt) =>
                    let tw := we_at tg (tr s) in
                    if (outb && negb (tw =? w)) || (int && (tw =? w)) then [(lru, lru_at tg s, wt)] else [])
                 (out_w d s)
   else [])
  ++ (if negb (inh d =? 0) && inb
      then flat_map (fun '(sr, wt) =>
                       if negb (we_at sr (tr s) =? w) then [(lru_at sr s, lru, wt)] else [])
                    (in_w d s)
      else []).

(* get_webentity_pagelinks *)
Definition webentity_pagelinks (w : N) (ps : list bytes) (inb int outb : bool) (s : traph)
  : res (list (bytes * bytes * N)) :=
  if negb int && negb outb && negb inb then RRefused
  else match we_page_nodes None ps s with
       | ROk l => ROk (flat_map (pagelinks_of w inb int outb s) l)
       | RRefused => RRefused | RCrash => RCrash
       end.

(* --- pagination of pagelinks --- *)
Inductive litem := LI (i : N) (path : N) (haslinks : bool) (links : list (bytes * bytes * N)) | LErr (crash : bool).

Fixpoint link_items (w : N) (int outb : bool) (i : N) (ps : list bytes) (opath : option N) (s : traph) : list litem :=
  match ps with
  | [] => []
  | p :: ps' =>
      match inorder_items p opath (tr s) with
      | None => [LErr false]
      | Some its =>
          if path_fails p opath (tr s) then [LErr true]
          else
            map (fun x => let d := snd (fst x) in
                          LI i (snd x) (negb (outh d =? 0))
                             (if outh d =? 0 then [] else pagelinks_of w false int outb s (fst x)))
                (filter (fun x => page (snd (fst x))) its)
              ++ link_items w int outb (i + 1) ps' None s
      end
  end.

Record link_result := mkLR {
  lr_done : bool; lr_sources : N; lr_links : list (bytes * bytes * N); lr_token : option bytes }.

Fixpoint lpag_scan (k : option N) (its : list litem) (n : N) (acc : list (bytes * bytes * N))
         (last : option (N * N)) : res link_result :=
  match its with
  | [] => ROk (mkLR true n acc None)
  | LErr crash :: _ => if crash then RCrash else RRefused
  | LI i path hasl links :: its' =>
      match links with
      | [] => lpag_scan k its' n acc (Some (i, path))
      | _ =>
          if match k with Some k => k <=? n | None => false end
          then match last with
               | Some (li, lp) => ROk (mkLR false n acc (Some (build_token li lp)))
               | None => RCrash
               end
          else lpag_scan k its' (n + 1) (acc ++ links) (Some (i, path))
      end
  end.

Definition paginate_pagelinks (w : N) (ps : list bytes) (int outb : bool) (k : option N)
           (tok : option bytes) (s : traph) : res link_result :=
  if negb int && negb outb then RRefused
  else
    match tok with
    | None => lpag_scan k (link_items w int outb 0 ps None s) 0 [] None
    | Some tk =>
        match parse_token tk with
        | None => RCrash
        | Some (i, path) =>
            lpag_scan k (link_items w int outb i (skipn (N.to_nat i) ps) (Some path) s) 0 [] None
        end
    end.

(* get_webentity_outlinks / inlinks: set of webentities (0 = None) at the other ends *)
Definition webentity_neighbours (out : bool) (ps : list bytes) (s : traph) : res (list N) :=
  match we_page_nodes None ps s with
  | ROk l =>
      let blocks := deduped (flat_map (fun x => let d := snd x in
                                                deduped (targets_of (stubs s) (if out then outh d else inh d))) l) in
      ROk (deduped (map (fun a => we_at a (tr s)) blocks))
  | RRefused => RRefused | RCrash => RCrash
  end.

(* get_webentity_most_linked_pages: top-k by (indegree, arrival), descending *)
Fixpoint insert_desc (x : N * N * bytes) (l : list (N * N * bytes)) : list (N * N * bytes) :=
  match l with
  | [] => [x]
  | y :: l' =>
      let '(dx, cx, _) := x in
      let '(dy, cy, _) := y in
      if (dy <? dx) || ((dy =? dx) && (cy <? cx)) then x :: l else y :: insert_desc x l'
  end.
(* reported indegree: the head pointer is followed unguarded; head 0 reads the store header as one stub *)
Definition reported_indegree (d : nd) (s : traph) : N :=
  if inh d =? 0 then 1 else N.of_nat (length (deduped (targets_of (stubs s) (inh d)))).
Definition most_linked (ps : list bytes) (k : N) (maxd : option N) (s : traph) : res (list (bytes * N)) :=
  match we_page_nodes maxd ps s with
  | ROk l =>
      let '(heap, _) :=
          fold_left (fun '(heap, c) x =>
                       let c' := c + 1 in
                       (firstn (N.to_nat k) (insert_desc (reported_indegree (snd x) s, c', fst x) heap), c'))
                    l ([], 0) in
      ROk (map (fun '(dg, _, lru) => (lru, dg)) heap)
  | RRefused => RRefused | RCrash => RCrash
  end.

(* hierarchy *)
Fixpoint parents_of (w : N) (ps : list bytes) (t : tst) : res (list N) :=
  match ps with
  | [] => ROk []
  | p :: ps' =>
      match find_sub (lru_iter p) t with
      | None => RRefused
      | Some _ =>
          match parents_of w ps' t with
          | ROk r => ROk (filter (fun x => negb (x =? 0) && negb (x =? w))
                                 (map we (ancestors (lru_iter p) [] t)) ++ r)
          | e => e
          end
      end
  end.
Definition parent_webentities (w : N) (ps : list bytes) (s : traph) : res (list N) :=
  match parents_of w ps (tr s) with ROk l => ROk (deduped l) | e => e end.
Definition child_webentities (w : N) (ps : list bytes) (s : traph) : res (list N) :=
  match over_prefixes (fun p sub => filter (fun x => negb (x =? 0) && negb (x =? w))
                                           (map (fun y => we (snd y)) (dfs_at true (lru_dirname p) sub)))
                      ps (tr s) with
  | ROk l => ROk (deduped l)
  | e => e
  end.

(* get_webentities_links (fast): (source we, 0 target / 1 pages_crawled / 2 pages_uncrawled, key, value) *)
Fixpoint gincr (k : N * N * N) (v : N) (g : list (N * N * N * N)) : list (N * N * N * N) :=
  match g with
  | [] => [(k, v)]
  | (k', v') :: g' =>
      let '(a, b, c) := k in let '(a', b', c') := k' in
      if (a =? a') && (b =? b') && (c =? c') then (k', v' + v) :: g' else (k', v') :: gincr k v g'
  end.
Definition head_dir (out : bool) (d : nd) : N := if out then outh d else inh d.

Definition webentities_links (out auto : bool) (s : traph) : list (N * N * N * N) :=
  let pw := filter (fun x => page (fst x) && negb (snd x =? 0)) (dww 0 (tr s)) in
  let p2w (a : N) : N :=
      match List.find (fun x => addr (fst x) =? a) pw with Some (_, w) => w | None => 0 end in
  let g0 := fold_left (fun g '(d, w) => gincr (w, if crawled d then 1 else 2, 0) 1 g) pw [] in
  fold_left (fun g '(d, w) =>
               if head_dir out d =? 0 then g
               else fold_left (fun g '(tg, wt) =>
                                 let tw := p2w tg in
                                 if tw =? 0 then g
                                 else if negb auto && (w =? tw) then g
                                 else gincr (w, 0, tw) wt g)
                              (weighted (targets_of (stubs s) (head_dir out d))) g)
            pw g0.

Definition webentities_links_slow (out auto : bool) (s : traph) : list (N * N * N * N) :=
  fold_left (fun g '(d, w) =>
               if negb (page d) || (head_dir out d =? 0) || (w =? 0) then g
               else fold_left (fun g '(tg, wt) =>
                                 let tw := we_at tg (tr s) in
                                 if tw =? 0 then g
                                 else if negb auto && (w =? tw) then g
                                 else gincr (w, 0, tw) wt g)
                              (weighted (targets_of (stubs s) (head_dir out d))) g)
            (dww 0 (tr s)) [].

(* enumerations *)
Definition pages_iter (s : traph) : list (bytes * bool) :=
  map (fun x => (fst x, crawled (snd x))) (filter (fun x => page (snd x)) (all_nodes (tr s))).
Definition prefix_iter (s : traph) : list (bytes * N) :=
  map (fun x => (fst x, we (snd x))) (filter (fun x => negb (we (snd x) =? 0)) (all_nodes (tr s))).
Definition links_iter (out : bool) (s : traph) : list (bytes * bytes) :=
  flat_map (fun x => let d := snd x in
                     if negb (page d) || (head_dir out d =? 0) then []
                     else map (fun a => (fst x, lru_at a s)) (deduped (targets_of (stubs s) (head_dir out d))))
           (all_nodes (tr s)).

Definition count_pages (s : traph) : N := scan_count_pages (tr s).
Definition count_crawled_pages (s : traph) : N := scan_count_crawled (tr s).
(* count_links = (blocks - header blocks) / 2, a float in Python: reported as twice the value *)
Definition count_links_x2 (s : traph) : N := N.of_nat (length (stubs s)).

(* the integer figures of lru_trie.metrics() *)
Record trie_metrics := mkTM {
  m_nodes : N; m_pages : N; m_crawled : N; m_tail : N; m_fragmented : N; m_stems : N; m_max_tail : N }.
Definition max_run (bs : list (N * tblock)) : N :=
  fst (fold_left (fun '(mx, cur) p => if blk_is_tail (snd p) then (N.max mx (cur + 1), cur + 1) else (mx, 0))
                 bs (0, 0)).
Definition metrics (s : traph) : trie_metrics :=
  let bs := flatten (tr s) in
  mkTM (N.of_nat (length bs))
       (count_if (fun p => blk_page (snd p)) bs)
       (count_if (fun p => blk_page (snd p) && blk_crawled (snd p)) bs)
       (count_if (fun p => blk_is_tail (snd p)) bs)
       (count_if (fun p => blk_has_tail (snd p)) bs)
       (count_if (fun p => negb (blk_is_tail (snd p))) bs)
       (max_run bs).

(* Traph.links_metrics(): the longest deduplicated in- and out-list over all blocks in address order
   (the first maximum wins), with the LRU wound up from that block; ([], 0) when there is no link *)
Definition links_metrics (s : traph) : N * bytes * N * bytes :=
  fold_left (fun (acc : N * bytes * N * bytes) (p : N * tblock) =>
               let '(mi, li, mo, lo) := acc in
               let a := fst p in
               let b := snd p in
               let il := if b_in b =? 0 then 0 else blen (deduped (targets_of (stubs s) (b_in b))) in
               let ol := if b_out b =? 0 then 0 else blen (deduped (targets_of (stubs s) (b_out b))) in
               let mli := if mi <? il then (il, lru_at a s) else (mi, li) in
               let mlo := if mo <? ol then (ol, lru_at a s) else (mo, lo) in
               (fst mli, snd mli, fst mlo, snd mlo))
            (flatten (tr s)) (0, [], 0, []).

(* LRUTrie.bst_metrics(), integer figures: a block is the root of a sibling search tree when it has no
   parent register (every top-level node, every tail block) or is the first child of its parent; the tree
   is what its left/right registers reach.  (number of trees, max height, max size, sum of heights, sum of sizes) *)
Definition blk_at (a : N) (bs : list (N * tblock)) : option tblock :=
  match List.find (fun p => fst p =? a) bs with Some p => Some (snd p) | None => None end.
Fixpoint bst_levels (fuel : nat) (bs : list (N * tblock)) (a lv : N) : list N :=
  match fuel with
  | O => []
  | S f =>
      match blk_at a bs with
      | None => [lv]
      | Some b => lv :: (if b_right b =? 0 then [] else bst_levels f bs (b_right b) (lv + 1))
                     ++ (if b_left b =? 0 then [] else bst_levels f bs (b_left b) (lv + 1))
      end
  end.
Definition is_bst_root (bs : list (N * tblock)) (a : N) (b : tblock) : bool :=
  (b_parent b =? 0) || match blk_at (b_parent b) bs with Some pb => b_child pb =? a | None => false end.
Definition bst_metrics (s : traph) : N * N * N * N * N :=
  let bs := flatten (tr s) in
  fold_left (fun (acc : N * N * N * N * N) (p : N * tblock) =>
               let '(nb, mh, ms, sh, ss) := acc in
               if is_bst_root bs (fst p) (snd p) then
                 let lv := bst_levels (S (length bs)) bs (fst p) 0 in
                 let h := fold_left N.max lv 0 + 1 in
                 let sz := blen lv in
                 (nb + 1, N.max mh h, N.max ms sz, sh + h, ss + sz)
               else acc)
            bs (0, 0, 0, 0, 0).
