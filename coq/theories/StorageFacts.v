(* StorageFacts.v — C15: under the usage discipline, the file back-end and the
   bytearray back-end are observationally equivalent (same results, same bytes). *)
From Coq Require Import List NArith Bool Lia Arith.
From Traph Require Import Bytes Storage.
Import ListNotations.
Open Scope N_scope.

(* ---------- lengths ---------- *)

Lemma nlen_app : forall a b, nlen (a ++ b) = nlen a + nlen b.
Proof. intros a b. unfold nlen. rewrite app_length. lia. Qed.

Lemma nlen_nil : nlen [] = 0.
Proof. reflexivity. Qed.

Lemma length_bslice : forall off len b,
  length (bslice off len b) = Nat.min (N.to_nat len) (length b - N.to_nat off).
Proof. intros off len b. unfold bslice. rewrite firstn_length, skipn_length. reflexivity. Qed.

Lemma nlen_bslice : forall off len b,
  nlen (bslice off len b) = N.min len (nlen b - off).
Proof. intros off len b. unfold nlen. rewrite length_bslice. lia. Qed.

Lemma bslice_beyond : forall off len b, nlen b <= off -> bslice off len b = [].
Proof.
  intros off len b H. apply length_zero_iff_nil. rewrite length_bslice.
  unfold nlen in H. lia.
Qed.

(* ---------- overwrite / slice_assign ---------- *)

Lemma overwrite_inside : forall pos data content, pos <= nlen content ->
  overwrite pos data content =
  firstn (N.to_nat pos) content ++ data ++ skipn (N.to_nat pos + length data) content.
Proof.
  intros pos data content H. unfold overwrite, nlen in *.
  replace (N.to_nat pos - length content)%nat with 0%nat by lia.
  cbn [repeat]. rewrite app_nil_r. reflexivity.
Qed.

Lemma overwrite_slice_assign : forall bs b data content,
  nlen data = bs -> b <= nlen content ->
  overwrite b data content = slice_assign b bs data content.
Proof.
  intros bs b data content Hd Hb. rewrite overwrite_inside by exact Hb.
  unfold slice_assign. unfold nlen in Hd.
  replace (N.to_nat (b + bs)) with (N.to_nat b + length data)%nat by lia.
  reflexivity.
Qed.

Lemma overwrite_end : forall data content,
  overwrite (nlen content) data content = content ++ data.
Proof.
  intros data content. rewrite overwrite_inside by lia.
  unfold nlen. rewrite Nat2N.id.
  rewrite firstn_all. rewrite skipn_all2 by lia. rewrite app_nil_r. reflexivity.
Qed.

Lemma length_overwrite : forall pos data content,
  length (overwrite pos data content) =
  Nat.max (length content) (N.to_nat pos + length data).
Proof.
  intros pos data content. unfold overwrite.
  rewrite !app_length, firstn_length, skipn_length, app_length, repeat_length. lia.
Qed.

Lemma nlen_overwrite : forall pos data content,
  nlen (overwrite pos data content) = N.max (nlen content) (pos + nlen data).
Proof. intros. unfold nlen. rewrite length_overwrite. lia. Qed.

Lemma length_slice_assign : forall pos bs data content,
  length (slice_assign pos bs data content) =
  (Nat.min (N.to_nat pos) (length content) + length data
   + (length content - N.to_nat (pos + bs)))%nat.
Proof.
  intros. unfold slice_assign. rewrite !app_length, firstn_length, skipn_length. lia.
Qed.

Lemma nlen_slice_assign : forall pos bs data content,
  nlen data = bs -> pos <= nlen content ->
  nlen (slice_assign pos bs data content) = N.max (nlen content) (pos + bs).
Proof.
  intros pos bs data content Hd Hp.
  rewrite <- (overwrite_slice_assign bs pos data content Hd Hp).
  rewrite nlen_overwrite, Hd. reflexivity.
Qed.

(* ---------- the cursor invariant ---------- *)

(* after a read: either the two cursors are equal, or both are at/after the end of the data
   (a short or empty read moves the file cursor by the bytes read, the bytearray cursor by a
   whole block), so that the next cursor read returns None on both sides. *)
Definition cursors_agree (fs : fstate) (ms : mstate) : Prop :=
  f_pos fs = m_cur ms \/ (nlen (f_data fs) <= f_pos fs /\ nlen (m_data ms) <= m_cur ms).

Lemma read_cursors : forall bs b d,
  b + nlen (bslice b bs d) = b + bs \/
  (nlen d <= b + nlen (bslice b bs d) /\ nlen d <= b + bs).
Proof. intros bs b d. rewrite nlen_bslice. lia. Qed.

Theorem C15_bisim_gen : forall bs ops fs ms ar, 0 < bs -> f_data fs = m_data ms ->
  (ar = true -> cursors_agree fs ms) ->
  disciplined bs (nlen (f_data fs)) ar ops = true ->
  snd (file_run bs fs ops) = snd (mem_run bs ms ops) /\
  f_data (fst (file_run bs fs ops)) = m_data (fst (mem_run bs ms ops)).
Proof.
  intros bs ops. induction ops as [|o ops IH]; intros fs ms ar Hbs Hdata Hcur Hdisc.
  - cbn. split; [reflexivity | exact Hdata].
  - destruct fs as [fd fp]. destruct ms as [md mc]. cbn [f_data m_data f_pos m_cur] in *.
    subst md.
    assert (Hstep : forall fs1 ms1 r ar1,
               f_data fs1 = m_data ms1 ->
               (ar1 = true -> cursors_agree fs1 ms1) ->
               disciplined bs (nlen (f_data fs1)) ar1 ops = true ->
               snd (let '(st2, rs) := file_run bs fs1 ops in (st2, r :: rs)) =
               snd (let '(st2, rs) := mem_run bs ms1 ops in (st2, r :: rs)) /\
               f_data (fst (let '(st2, rs) := file_run bs fs1 ops in (st2, r :: rs))) =
               m_data (fst (let '(st2, rs) := mem_run bs ms1 ops in (st2, r :: rs)))).
    { intros fs1 ms1 r ar1 H1 H2 H3.
      destruct (IH fs1 ms1 ar1 Hbs H1 H2 H3) as [Ha Hb].
      destruct (file_run bs fs1 ops) as [f2 rs1]. destruct (mem_run bs ms1 ops) as [m2 rs2].
      cbn [fst snd] in *. subst rs2. split; [reflexivity | exact Hb]. }
    destruct o as [b | | data b | data | | ];
      cbn [file_run mem_run file_step mem_step f_data m_data f_pos m_cur disciplined] in *.
    + (* SRead *)
      apply (Hstep (mkF fd (b + nlen (bslice b bs fd))) (mkM fd (b + bs)) _ true);
        [reflexivity | | exact Hdisc].
      intros _. unfold cursors_agree. cbn [f_data m_data f_pos m_cur].
      destruct (read_cursors bs b fd) as [H | [H1 H2]]; [left; exact H | right; split; assumption].
    + (* SReadNext *)
      apply andb_true_iff in Hdisc. destruct Hdisc as [Har Hdisc]. subst ar.
      specialize (Hcur eq_refl). unfold cursors_agree in Hcur. cbn [f_data m_data f_pos m_cur] in Hcur.
      destruct Hcur as [Heq | [H1 H2]].
      * subst mc.
        apply (Hstep (mkF fd (fp + nlen (bslice fp bs fd))) (mkM fd (fp + bs)) _ true);
          [reflexivity | | exact Hdisc].
        intros _. unfold cursors_agree. cbn [f_data m_data f_pos m_cur].
        destruct (read_cursors bs fp fd) as [H | [H1 H2]]; [left; exact H | right; split; assumption].
      * rewrite (bslice_beyond fp bs fd H1), (bslice_beyond mc bs fd H2).
        apply (Hstep (mkF fd (fp + nlen [])) (mkM fd (mc + bs)) _ true);
          [reflexivity | | exact Hdisc].
        intros _. unfold cursors_agree. cbn [f_data m_data f_pos m_cur].
        right. rewrite nlen_nil. split; lia.
    + (* SWrite *)
      apply andb_true_iff in Hdisc. destruct Hdisc as [Hdisc Hrest].
      apply andb_true_iff in Hdisc. destruct Hdisc as [Hlen Hb].
      apply N.eqb_eq in Hlen. apply N.leb_le in Hb.
      rewrite (overwrite_slice_assign bs b data fd Hlen Hb).
      replace (b + nlen data - bs) with b by lia.
      apply (Hstep (mkF (slice_assign b bs data fd) (b + nlen data))
                   (mkM (slice_assign b bs data fd) (b + nlen data)) _ false);
        [reflexivity | intros H; discriminate H | ].
      cbn [f_data]. rewrite (nlen_slice_assign b bs data fd Hlen Hb). exact Hrest.
    + (* SAppend *)
      rewrite overwrite_end. rewrite nlen_app.
      apply (Hstep (mkF (fd ++ data) (nlen fd + nlen data))
                   (mkM (fd ++ data) (nlen fd + nlen data)) _ false);
        [reflexivity | intros H; discriminate H | ].
      cbn [f_data]. rewrite nlen_app. exact Hdisc.
    + (* SLen *)
      apply (Hstep (mkF fd (nlen fd)) (mkM fd mc) _ false);
        [reflexivity | intros H; discriminate H | exact Hdisc].
    + (* SCount *)
      apply (Hstep (mkF fd (nlen fd)) (mkM fd mc) _ false);
        [reflexivity | intros H; discriminate H | exact Hdisc].
Qed.

Theorem C15_bisim : forall bs ops, 0 < bs -> disciplined bs 0 false ops = true ->
  snd (file_run bs (mkF [] 0) ops) = snd (mem_run bs (mkM [] 0) ops) /\
  f_data (fst (file_run bs (mkF [] 0) ops)) = m_data (fst (mem_run bs (mkM [] 0) ops)).
Proof.
  intros bs ops Hbs Hd.
  apply (C15_bisim_gen bs ops (mkF [] 0) (mkM [] 0) false Hbs);
    [reflexivity | intros H; discriminate H | exact Hd].
Qed.

(* the read-only memory map answers exactly like a positioned read of the file *)
Lemma memmap_is_read : forall bs fs b,
  memmap_read bs (f_data fs) b =
  (match snd (file_step bs fs (SRead b)) with RData o => o | _ => None end).
Proof. intros bs fs b. reflexivity. Qed.

(* ---------- the discipline is not decorative ---------- *)

Definition blk (x : N) (n : nat) : bytes := repeat x n.

(* len() moves the file cursor to the end but leaves the bytearray cursor where it was:
   a cursor read after len() differs. *)
Example C15_needs_discipline :
  exists bs ops, 0 < bs /\ disciplined bs 0 false ops = false /\
    snd (file_run bs (mkF [] 0) ops) <> snd (mem_run bs (mkM [] 0) ops).
Proof.
  exists 4, [SAppend (blk 1 4); SAppend (blk 2 4); SRead 0; SLen; SReadNext].
  split; [reflexivity|]. split; [reflexivity|].
  vm_compute. intros H. discriminate H.
Qed.

(* a positioned write of a short block: the file keeps the bytes after the written ones,
   the bytearray drops the rest of the slice; block number and content both differ. *)
Example C15_needs_discipline_short_write :
  exists bs ops, 0 < bs /\ disciplined bs 0 false ops = false /\
    snd (file_run bs (mkF [] 0) ops) <> snd (mem_run bs (mkM [] 0) ops) /\
    f_data (fst (file_run bs (mkF [] 0) ops)) <> m_data (fst (mem_run bs (mkM [] 0) ops)).
Proof.
  exists 4, [SAppend (blk 1 4); SAppend (blk 2 4); SWrite [9; 9] 0; SRead 0].
  split; [reflexivity|]. split; [reflexivity|].
  split; vm_compute; intros H; discriminate H.
Qed.

(* a positioned write beyond the end: the file zero-fills the hole, the bytearray does not *)
Example C15_needs_discipline_hole :
  exists bs ops, 0 < bs /\ disciplined bs 0 false ops = false /\
    f_data (fst (file_run bs (mkF [] 0) ops)) <> m_data (fst (mem_run bs (mkM [] 0) ops)).
Proof.
  exists 4, [SAppend (blk 1 4); SWrite (blk 7 4) 8].
  split; [reflexivity|]. split; [reflexivity|].
  vm_compute; intros H; discriminate H.
Qed.

(* ---------- non-vacuity ---------- *)

Definition demo_ops : list sop :=
  [SAppend (blk 1 128); SAppend (blk 2 128); SAppend (blk 3 128);
   SWrite (blk 9 128) 128; SRead 128; SReadNext; SReadNext; SLen; SCount;
   SWrite (blk 8 128) 384; SLen].

Example C15_nonvacuous :
  disciplined 128 0 false demo_ops = true /\
  snd (file_run 128 (mkF [] 0) demo_ops) =
    [RBlock 0; RBlock 128; RBlock 256; RBlock 128;
     RData (Some (blk 9 128)); RData (Some (blk 3 128)); RData None;
     RLen 384; RLen 384; RBlock 384; RLen 512] /\
  snd (mem_run 128 (mkM [] 0) demo_ops) = snd (file_run 128 (mkF [] 0) demo_ops) /\
  f_data (fst (file_run 128 (mkF [] 0) demo_ops)) = blk 1 128 ++ blk 9 128 ++ blk 3 128 ++ blk 8 128 /\
  m_data (fst (mem_run 128 (mkM [] 0) demo_ops)) = f_data (fst (file_run 128 (mkF [] 0) demo_ops)).
Proof. vm_compute. repeat split; reflexivity. Qed.

Print Assumptions C15_bisim_gen.
Print Assumptions C15_bisim.
Print Assumptions memmap_is_read.
Print Assumptions C15_needs_discipline.
Print Assumptions C15_nonvacuous.
