(* RefDefs.v — the abstraction relation between the model (Traph.v) and the
   specification (Spec.v), split in a core part (tree contents) and a links part
   (addresses and stub chains).  Definitions only. *)
From Coq Require Import List NArith Bool.
From Traph Require Import Bytes Consts Helpers Rules Tst TstDefs Traph Spec Ops.
Import ListNotations.
Open Scope N_scope.

(* the node an LRU spells *)
Definition nodeof (s : traph) (l : bytes) : option nd := find (lru_iter l) (tr s).

Record Rcore (s : traph) (a : astate) : Prop := mkRcore {
  R_wf : wf_tst (tr s);
  (* findable LRUs *)
  R_known : forall l, wf_lru l -> (nodeof s l <> None <-> In l (a_known a));
  R_known_wf : Forall wf_lru (a_known a);
  R_known_nodup : NoDup (a_known a);
  (* pages and crawled marks *)
  R_pages : forall l c, wf_lru l ->
      (In (l, c) (a_pages a) <-> exists d, nodeof s l = Some d /\ page d = true /\ crawled d = c);
  R_pages_wf : Forall (fun x => wf_lru (fst x)) (a_pages a);
  R_pages_nodup : NoDup (map fst (a_pages a));
  R_crawled : forall p d, find p (tr s) = Some d -> crawled d = true -> page d = true;
  (* prefix -> webentity *)
  R_pref : forall l w, wf_lru l ->
      (In (l, w) (a_pref a) <-> exists d, nodeof s l = Some d /\ we d = w /\ w <> 0);
  R_pref_wf : Forall (fun x => wf_lru (fst x)) (a_pref a);
  R_pref_nodup : NoDup (map fst (a_pref a));
  R_last : lastwe s = a_last a;
  (* creation rules *)
  R_flags : forall l, wf_lru l -> (In l (a_flags a) <-> exists d, nodeof s l = Some d /\ rule d = true);
  R_flags_wf : Forall wf_lru (a_flags a);
  R_rules : rules s = a_rules a;
  R_dflt : dflt s = a_dflt a;
  (* the "no child webentities" shortcut never hides a webentity *)
  R_nochild : forall p q d d', find p (tr s) = Some d -> nochild d = true ->
      is_prefix p q = true -> p <> q -> find q (tr s) = Some d' -> we d' = 0;
  (* storage accounting *)
  R_nb : nb s = s_trie_blocks a
}.

(* addresses: block aligned, inside the file, one node per address *)
Definition addr_ok (t : tst) (nb : N) : Prop :=
  (forall p d, find p t = Some d -> exists k, addr d = k * bsz /\ 1 <= k /\ k + nblk (stem d) <= nb) /\
  (forall p q d d', find p t = Some d -> find q t = Some d' -> addr d = addr d' -> p = q).

(* stub i lives at ssz * (i + 1); previous pointers go strictly backwards *)
Definition stub_addr (i : nat) : N := ssz * N.of_nat (S i).
Definition head_ok (n : nat) (h : N) : Prop := h = 0 \/ exists j, (j < n)%nat /\ h = stub_addr j.
Definition stubs_ok (st : list (N * N)) : Prop :=
  forall i tg pv, nth_error st i = Some (tg, pv) -> head_ok i pv.

Record Rlinks (s : traph) (a : astate) : Prop := mkRlinks {
  L_addr : addr_ok (tr s) (nb s);
  L_stubs : stubs_ok (stubs s);
  L_heads : forall p d, find p (tr s) = Some d ->
      head_ok (length (stubs s)) (outh d) /\ head_ok (length (stubs s)) (inh d);
  (* every stub points at a page node *)
  L_targets : forall i tg pv, nth_error (stubs s) i = Some (tg, pv) ->
      exists p d, find p (tr s) = Some d /\ addr d = tg /\ page d = true;
  (* the chain of a node, oldest first, is the sequence of targets submitted from it *)
  L_out : forall l d, wf_lru l -> nodeof s l = Some d ->
      map (fun t => lru_at t s) (rev (targets_of (stubs s) (outh d)))
      = map snd (filter (fun p => beq (fst p) l) (a_links a));
  L_in : forall l d, wf_lru l -> nodeof s l = Some d ->
      map (fun t => lru_at t s) (rev (targets_of (stubs s) (inh d)))
      = map fst (filter (fun p => beq (snd p) l) (a_links a));
  (* link ends are pages *)
  L_ends : forall x y, In (x, y) (a_links a) ->
      (exists c, In (x, c) (a_pages a)) /\ (exists c, In (y, c) (a_pages a));
  L_nstubs : N.of_nat (length (stubs s)) = s_stubs a
}.

Definition R (s : traph) (a : astate) : Prop := Rcore s a /\ Rlinks s a.

(* the model and the specification give the same reply *)
Definition same_reply (r r' : reply) : Prop := r = r'.

(* set / multiset comparisons used in the query theorems *)
Definition set_eq {A} (l1 l2 : list A) : Prop := forall x, In x l1 <-> In x l2.
