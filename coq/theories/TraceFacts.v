(* TraceFacts.v — C18, part 1: the trie file as the image of an address-indexed list of
   blocks ([img]), the characterisation of [files_of] under [tiled], the effect of
   one append / one in-place rewrite on that view, one-write safety ([safe_write]) and
   the cut lemmas for a list of safe writes. *)
From Coq Require Import List NArith Bool Lia Arith Permutation Sorted.
Import ListNotations.
From Traph Require Import Bytes Consts Helpers Rules Tst TstDefs Traph Traphw Ops RefDefs
  TstFacts LinkFacts TraceDefs.
Open Scope N_scope.

(* ====================================================================== *)
(* Permutations of block lists through occurrence counts                   *)
(* ====================================================================== *)

Lemma tblock_eq_dec : forall x y : tblock, {x = y} + {x <> y}.
Proof. repeat decide equality. Defined.

Lemma pb_eq_dec : forall x y : N * tblock, {x = y} + {x <> y}.
Proof. intros. decide equality; [apply tblock_eq_dec|apply N.eq_dec]. Defined.

(* ====================================================================== *)
(* Insertion sort on addresses                                            *)
(* ====================================================================== *)

Definition le_addr (x y : N * tblock) : Prop := fst x <= fst y.

Lemma insert_perm : forall x l, Permutation (insert_by_addr x l) (x :: l).
Proof.
  intros x l. induction l as [|y l IH]; [apply Permutation_refl|].
  cbn [insert_by_addr]. destruct (fst x <=? fst y); [apply Permutation_refl|].
  eapply perm_trans; [apply perm_skip; exact IH|apply perm_swap].
Qed.

Lemma sort_perm : forall l, Permutation (sort_by_addr l) l.
Proof.
  induction l as [|x l IH]; [apply perm_nil|].
  unfold sort_by_addr in *. cbn [fold_right].
  eapply perm_trans; [apply insert_perm|apply perm_skip; exact IH].
Qed.

Lemma flatten_perm : forall t, Permutation (flatten t) (placed t).
Proof. intro t. apply sort_perm. Qed.

Lemma insert_sorted : forall x l, StronglySorted le_addr l -> StronglySorted le_addr (insert_by_addr x l).
Proof.
  intros x l. induction l as [|y l IH]; intro Hs.
  - cbn. constructor; constructor.
  - cbn [insert_by_addr]. inversion Hs as [|y' l' Hl Hy]; subst.
    destruct (N.leb_spec (fst x) (fst y)) as [Hle|Hgt].
    + constructor; [exact Hs|]. constructor; [exact Hle|].
      rewrite Forall_forall in *. intros z Hz. specialize (Hy z Hz). unfold le_addr in *. lia.
    + constructor; [apply IH; exact Hl|].
      rewrite Forall_forall in *. intros z Hz.
      apply (Permutation_in _ (insert_perm x l)) in Hz. destruct Hz as [<-|Hz].
      * unfold le_addr. lia.
      * apply Hy. exact Hz.
Qed.

Lemma sort_sorted : forall l, StronglySorted le_addr (sort_by_addr l).
Proof.
  induction l as [|x l IH]; [constructor|].
  unfold sort_by_addr in *. cbn [fold_right]. apply insert_sorted. exact IH.
Qed.

Lemma sorted_keys : forall l, StronglySorted le_addr l -> NoDup (map fst l) ->
  StronglySorted N.lt (map fst l).
Proof.
  induction l as [|x l IH]; intros Hs Hnd; [constructor|].
  inversion Hs as [|x' l' Hl Hx]; subst. cbn [map] in *.
  inversion Hnd as [|k ks Hnin Hnd']; subst.
  constructor; [apply IH; assumption|].
  rewrite Forall_forall in *. intros k Hk.
  apply in_map_iff in Hk. destruct Hk as (y & <- & Hy).
  specialize (Hx y Hy). unfold le_addr in Hx.
  assert (fst x <> fst y) by (intro E; apply Hnin; rewrite E; apply in_map; exact Hy). lia.
Qed.

Lemma sorted_unique : forall l l' : list N,
  StronglySorted N.lt l -> StronglySorted N.lt l' -> (forall x, In x l <-> In x l') -> l = l'.
Proof.
  induction l as [|a l IH]; intros [|b l'] Hs Hs' Heq.
  - reflexivity.
  - exfalso. apply (proj2 (Heq b)). left. reflexivity.
  - exfalso. apply (proj1 (Heq a)). left. reflexivity.
  - inversion Hs as [|a' l0 Hl Ha]; subst. inversion Hs' as [|b' l0' Hl' Hb]; subst.
    rewrite Forall_forall in Ha, Hb.
    assert (a = b).
    { destruct (proj1 (Heq a) (or_introl eq_refl)) as [E|Hin]; [auto|].
      destruct (proj2 (Heq b) (or_introl eq_refl)) as [E|Hin']; [auto|].
      specialize (Ha _ Hin'). specialize (Hb _ Hin). lia. }
    subst b. f_equal. apply IH; try assumption.
    intro x. split; intro Hx.
    + destruct (proj1 (Heq x) (or_intror Hx)) as [E|H']; [|exact H'].
      subst x. specialize (Ha _ Hx). lia.
    + destruct (proj2 (Heq x) (or_intror Hx)) as [E|H']; [|exact H'].
      subst x. specialize (Hb _ Hx). lia.
Qed.

(* ====================================================================== *)
(* The addresses of a tiled file                                          *)
(* ====================================================================== *)

Definition keys (n : N) : list N := map (fun i => N.of_nat i * bsz) (seq 1 (N.to_nat n - 1)).

Lemma bsz_val : bsz = 128.
Proof. reflexivity. Qed.

Lemma keys_in : forall n a, In a (keys n) <-> exists i, (i < N.to_nat n - 1)%nat /\ a = N.of_nat (S i) * bsz.
Proof.
  intros n a. unfold keys. rewrite in_map_iff. split.
  - intros (j & <- & Hj). apply in_seq in Hj. exists (j - 1)%nat. split; [lia|].
    f_equal. f_equal. lia.
  - intros (i & Hi & ->). exists (S i). split; [reflexivity|]. apply in_seq. lia.
Qed.

Lemma keys_length : forall n, length (keys n) = (N.to_nat n - 1)%nat.
Proof. intro n. unfold keys. rewrite map_length, seq_length. reflexivity. Qed.

Lemma keys_nth : forall n i, (i < N.to_nat n - 1)%nat -> nth_error (keys n) i = Some (N.of_nat (S i) * bsz).
Proof.
  intros n i Hi. unfold keys.
  apply (map_nth_error (fun i => N.of_nat i * bsz) i (seq 1 (N.to_nat n - 1))).
  rewrite (nth_error_nth' _ 0%nat) by (rewrite seq_length; exact Hi).
  rewrite seq_nth by exact Hi. reflexivity.
Qed.

Lemma seq_map_sorted : forall m a, StronglySorted N.lt (map (fun i => N.of_nat i * bsz) (seq a m)).
Proof.
  induction m as [|m IH]; intro a; [constructor|].
  cbn [seq map]. constructor; [apply IH|].
  rewrite Forall_forall. intros k Hk. apply in_map_iff in Hk. destruct Hk as (j & <- & Hj).
  apply in_seq in Hj. rewrite bsz_val. lia.
Qed.

Lemma keys_sorted : forall n, StronglySorted N.lt (keys n).
Proof. intro n. apply seq_map_sorted. Qed.

Lemma sorted_nodup : forall l : list N, StronglySorted N.lt l -> NoDup l.
Proof.
  induction l as [|a l IH]; intro Hs; [constructor|].
  inversion Hs as [|a' l' Hl Ha]; subst. constructor; [|apply IH; exact Hl].
  intro Hin. rewrite Forall_forall in Ha. specialize (Ha a Hin). lia.
Qed.

Lemma mul_bsz_S_inj : forall i j, N.of_nat (S i) * bsz = N.of_nat (S j) * bsz -> i = j.
Proof. intros i j. rewrite bsz_val. lia. Qed.

Lemma tidx_S : forall i, tidx (N.of_nat (S i) * bsz) = i.
Proof.
  intro i. unfold tidx. rewrite N.div_mul by (rewrite bsz_val; discriminate).
  rewrite Nat2N.id. lia.
Qed.

(* ====================================================================== *)
(* img: a block list is the image of an address-indexed list                *)
(* ====================================================================== *)

Definition img (P : list (N * tblock)) (n : N) (L : list tblock) : Prop :=
  NoDup (map fst P) /\
  length L = (N.to_nat n - 1)%nat /\
  (forall a b, In (a, b) P -> exists i, a = N.of_nat (S i) * bsz) /\
  (forall i b, nth_error L i = Some b <-> In (N.of_nat (S i) * bsz, b) P).

Lemma img_perm : forall P Q n L, Permutation P Q -> img P n L -> img Q n L.
Proof.
  intros P Q n L Hp (Hnd & Hlen & Hrg & Hiff). repeat split.
  - eapply Permutation_NoDup; [apply Permutation_map; exact Hp|exact Hnd].
  - exact Hlen.
  - intros a b Hin. apply (Hrg a b). eapply Permutation_in; [apply Permutation_sym; exact Hp|exact Hin].
  - intro H. eapply Permutation_in; [exact Hp|]. apply Hiff. exact H.
  - intro H. apply Hiff. eapply Permutation_in; [apply Permutation_sym; exact Hp|exact H].
Qed.

Lemma nth_error_ext' : forall (A : Type) (l l' : list A),
  (forall i, nth_error l i = nth_error l' i) -> l = l'.
Proof.
  induction l as [|x l IH]; intros [|y l'] H.
  - reflexivity.
  - specialize (H 0%nat). discriminate H.
  - specialize (H 0%nat). discriminate H.
  - pose proof (H 0%nat) as H0. cbn in H0. injection H0 as ->. f_equal.
    apply IH. intro i. exact (H (S i)).
Qed.

Lemma img_ext : forall P n L L',img P n L -> img P n L' -> L = L'.
Proof.
  intros P n L L' (_ & Hlen & _ & Hiff) (_ & Hlen' & _ & Hiff').
  apply nth_error_ext'. intro i.
  destruct (nth_error L i) as [b|] eqn:E.
  - symmetry. apply Hiff'. apply Hiff. exact E.
  - destruct (nth_error L' i) as [b'|] eqn:E'; [|reflexivity].
    apply Hiff', Hiff in E'. congruence.
Qed.

Lemma img_In : forall P n L a b, img P n L -> In (a, b) P ->
  exists i, a = N.of_nat (S i) * bsz /\ nth_error L i = Some b /\ (i < length L)%nat.
Proof.
  intros P n L a b (_ & _ & Hrg & Hiff) Hin.
  destruct (Hrg a b Hin) as (i & ->). exists i. split; [reflexivity|].
  assert (E : nth_error L i = Some b) by (apply Hiff; exact Hin).
  split; [exact E|]. apply nth_error_Some. congruence.
Qed.

(* a list whose addresses are the tiled ones is the image of itself *)
Lemma img_of_keys : forall F n, map fst F = keys n -> img F n (map snd F).
Proof.
  intros F n Hk.
  assert (Hlen : length F = (N.to_nat n - 1)%nat).
  { rewrite <- (map_length fst), Hk. apply keys_length. }
  assert (Hnth : forall i a b, nth_error F i = Some (a, b) -> a = N.of_nat (S i) * bsz).
  { intros i a b E. assert (Hi : (i < length F)%nat) by (apply nth_error_Some; congruence).
    pose proof (map_nth_error fst _ _ E) as E1. rewrite Hk, keys_nth in E1 by lia.
    cbn [fst] in E1. congruence. }
  repeat split.
  - rewrite Hk. apply sorted_nodup, keys_sorted.
  - rewrite map_length. exact Hlen.
  - intros a b Hin. assert (Ha : In a (keys n)).
    { rewrite <- Hk. apply in_map_iff. exists (a, b). auto. }
    apply keys_in in Ha. destruct Ha as (i & _ & ->). eauto.
  - intro E. destruct (nth_error F i) as [[a b']|] eqn:EF.
    + rewrite (map_nth_error snd _ _ EF) in E. cbn in E. injection E as ->.
      rewrite <- (Hnth i a b EF). eapply nth_error_In; eauto.
    + apply nth_error_None in EF.
      assert (nth_error (map snd F) i = None) by (apply nth_error_None; rewrite map_length; exact EF).
      congruence.
  - intro Hin. apply In_nth_error in Hin. destruct Hin as (j & Ej).
    pose proof (Hnth j _ _ Ej) as E. apply mul_bsz_S_inj in E. subst j.
    rewrite (map_nth_error snd _ _ Ej). reflexivity.
Qed.

Lemma tiled_img : forall t n, tiled t n -> img (placed t) n (map snd (flatten t)).
Proof.
  intros t n Ht. eapply img_perm; [apply flatten_perm|]. apply img_of_keys. exact Ht.
Qed.

Lemma img_tiled : forall t n L, img (placed t) n L -> tiled t n /\ L = map snd (flatten t).
Proof.
  intros t n L H.
  assert (Ht : tiled t n).
  { unfold tiled. change (map fst (flatten t) = keys n).
    destruct H as (Hnd & Hlen & Hrg & Hiff).
    apply sorted_unique.
    - apply sorted_keys; [apply sort_sorted|].
      eapply Permutation_NoDup; [apply Permutation_map, Permutation_sym, flatten_perm|exact Hnd].
    - apply keys_sorted.
    - intro a. rewrite keys_in. split.
      + intro Hin. apply in_map_iff in Hin. destruct Hin as ([a' b] & <- & Hin). cbn [fst].
        apply (Permutation_in _ (flatten_perm t)) in Hin.
        destruct (Hrg a' b Hin) as (i & ->). exists i. split; [|reflexivity].
        apply Hiff in Hin. rewrite <- Hlen. apply nth_error_Some. congruence.
      + intros (i & Hi & ->). rewrite <- Hlen in Hi.
        destruct (nth_error L i) as [b|] eqn:E; [|apply nth_error_None in E; lia].
        apply Hiff in E. apply in_map_iff. exists (N.of_nat (S i) * bsz, b). split; [reflexivity|].
        eapply Permutation_in; [apply Permutation_sym, flatten_perm|exact E]. }
  split; [exact Ht|]. eapply img_ext; [exact H|apply tiled_img; exact Ht].
Qed.

(* A1: the characterisation of files_of *)
Lemma files_of_nth : forall s, tiled (tr s) (nb s) -> forall i b,
  nth_error (ft (files_of s)) i = Some b <-> In (N.of_nat (S i) * bsz, b) (placed (tr s)).
Proof. intros s Ht. apply (tiled_img _ _ Ht). Qed.

Lemma files_of_length : forall s, tiled (tr s) (nb s) ->
  length (ft (files_of s)) = (N.to_nat (nb s) - 1)%nat.
Proof. intros s Ht. apply (tiled_img _ _ Ht). Qed.

(* ---- set_nth --------------------------------------------------------------------- *)
Lemma set_nth_length : forall (A : Type) k (x : A) l, length (set_nth k x l) = length l.
Proof.
  intros A k x l. revert k. induction l as [|y l IH]; intros [|k]; cbn; auto.
Qed.

Lemma set_nth_same : forall (A : Type) k (x : A) l, (k < length l)%nat ->
  nth_error (set_nth k x l) k = Some x.
Proof.
  intros A k x l. revert k. induction l as [|y l IH]; intros [|k] Hk; cbn in *; try lia; auto.
  apply IH. lia.
Qed.

Lemma set_nth_other : forall (A : Type) k (x : A) l i, i <> k ->
  nth_error (set_nth k x l) i = nth_error l i.
Proof.
  intros A k x l. revert k. induction l as [|y l IH]; intros [|k] [|i] Hne; cbn; auto; try congruence.
Qed.

Lemma set_nth_In : forall (A : Type) k (x : A) l y, In y (set_nth k x l) -> y = x \/ In y l.
Proof.
  intros A k x l. revert k. induction l as [|z l IH]; intros [|k] y Hin; cbn in *; auto.
  - destruct Hin; auto.
  - destruct Hin as [->|Hin]; auto. apply IH in Hin. destruct Hin; auto.
Qed.

(* ---- one append, one rewrite ------------------------------------------------------- *)
Lemma img_app : forall P n L b, img P n L -> 1 <= n ->
  img (P ++ [(n * bsz, b)]) (n + 1) (L ++ [b]).
Proof.
  intros P n L b H Hn. pose proof H as (Hnd & Hlen & Hrg & Hiff).
  assert (En : n = N.of_nat (S (length L))) by lia.
  assert (Hfresh : ~ In (n * bsz) (map fst P)).
  { intro Hin. apply in_map_iff in Hin. destruct Hin as ([a b'] & Ea & Hin). cbn in Ea. subst a.
    destruct (img_In _ _ _ _ _ H Hin) as (i & Ei & _ & Hi).
    rewrite En in Ei. apply mul_bsz_S_inj in Ei. lia. }
  repeat split.
  - rewrite map_app. cbn [map fst].
    eapply Permutation_NoDup; [apply Permutation_cons_append|]. constructor; assumption.
  - rewrite app_length. cbn [length]. lia.
  - intros a b' Hin. apply in_app_iff in Hin. destruct Hin as [Hin|[E|[]]]; [eauto|].
    injection E as <- <-. exists (length L). rewrite En at 1. reflexivity.
  - intro E. apply in_app_iff.
    destruct (Nat.lt_ge_cases i (length L)) as [Hi|Hi].
    + rewrite nth_error_app1 in E by exact Hi. left. apply Hiff. exact E.
    + rewrite nth_error_app2 in E by exact Hi.
      destruct (i - length L)%nat as [|k] eqn:Ek; [|destruct k; discriminate E].
      cbn in E. injection E as <-. right. left. f_equal. rewrite En at 1.
      f_equal. f_equal. lia.
  - intro Hin. apply in_app_iff in Hin. destruct Hin as [Hin|[E|[]]].
    + pose proof (proj2 (Hiff i b0) Hin) as E.
      rewrite nth_error_app1; [exact E|]. apply nth_error_Some. congruence.
    + injection E as E <-. rewrite En in E at 1. apply mul_bsz_S_inj in E. subst i.
      rewrite nth_error_app2, Nat.sub_diag by lia. reflexivity.
Qed.

Lemma img_app_list : forall bs P n L, img P n L -> 1 <= n ->
  img (P ++ number_from (n * bsz) bs) (n + N.of_nat (length bs)) (L ++ bs).
Proof.
  induction bs as [|b bs IH]; intros P n L H Hn.
  - cbn [number_from length]. rewrite !app_nil_r, N.add_0_r. exact H.
  - cbn [number_from length].
    replace (P ++ (n * bsz, b) :: number_from (n * bsz + bsz) bs)
      with ((P ++ [(n * bsz, b)]) ++ number_from ((n + 1) * bsz) bs).
    2:{ rewrite <- app_assoc. cbn [app]. do 3 f_equal. rewrite bsz_val. lia. }
    replace (L ++ b :: bs) with ((L ++ [b]) ++ bs) by (rewrite <- app_assoc; reflexivity).
    replace (n + N.of_nat (S (length bs))) with ((n + 1) + N.of_nat (length bs)) by lia.
    apply IH; [apply img_app; assumption|lia].
Qed.

Lemma img_set : forall P1 P2 a old b n L,
  img (P1 ++ [(a, old)] ++ P2) n L ->
  img (P1 ++ [(a, b)] ++ P2) n (set_nth (tidx a) b L).
Proof.
  intros P1 P2 a old b n L H. pose proof H as (Hnd & Hlen & Hrg & Hiff).
  destruct (img_In _ _ _ a old H) as (k & Ea & Ek & Hk).
  { apply in_app_iff. right. left. reflexivity. }
  assert (Hfresh : ~ In a (map fst (P1 ++ P2))).
  { rewrite map_app in Hnd. cbn [map fst app] in Hnd. apply NoDup_remove_2 in Hnd.
    rewrite map_app. exact Hnd. }
  rewrite Ea, tidx_S. rewrite <- Ea.
  repeat split.
  - rewrite map_app in *. exact Hnd.
  - rewrite set_nth_length. exact Hlen.
  - intros a' b' Hin. rewrite !in_app_iff in Hin. cbn [In] in Hin.
    destruct Hin as [Hin|[[E|[]]|Hin]].
    + apply (Hrg a' b'). rewrite !in_app_iff. auto.
    + injection E as <- <-. eauto.
    + apply (Hrg a' b'). rewrite !in_app_iff. auto.
  - intro E. destruct (Nat.eq_dec i k) as [->|Hne].
    + rewrite set_nth_same in E by exact Hk. injection E as <-.
      rewrite <- Ea, !in_app_iff. right. left. left. reflexivity.
    + rewrite set_nth_other in E by exact Hne. apply Hiff in E.
      rewrite !in_app_iff in *. cbn [In] in *.
      destruct E as [E|[[E|[]]|E]]; auto.
      injection E as E _. rewrite Ea in E. apply mul_bsz_S_inj in E. congruence.
  - intro Hin. destruct (Nat.eq_dec i k) as [->|Hne].
    + rewrite set_nth_same by exact Hk. rewrite <- Ea in Hin.
      rewrite !in_app_iff in Hin. cbn [In] in Hin.
      destruct Hin as [Hin|[[E|[]]|Hin]].
      * exfalso. apply Hfresh. rewrite map_app, in_app_iff. left.
        apply in_map_iff. exists (a, b0). auto.
      * congruence.
      * exfalso. apply Hfresh. rewrite map_app, in_app_iff. right.
        apply in_map_iff. exists (a, b0). auto.
    + rewrite set_nth_other by exact Hne. apply Hiff.
      rewrite !in_app_iff in *. cbn [In] in *.
      destruct Hin as [Hin|[[E|[]]|Hin]]; auto.
      injection E as E _. rewrite Ea in E. apply mul_bsz_S_inj in E. congruence.
Qed.

(* ====================================================================== *)
(* Part C — one-write safety and cuts of a list of safe writes              *)
(* ====================================================================== *)

Definition safe_write (f : files) (w : wr) : Prop :=
  match w with
  | TApp b => block_ok (length (ft f)) (length (fl f)) b
  | TSet a b => exists i old, a = N.of_nat (S i) * bsz /\ nth_error (ft f) i = Some old /\
                  block_below old b /\ block_ok (length (ft f)) (length (fl f)) b
  | LApp s => (exists i, (i < length (ft f))%nat /\ fst s = N.of_nat (S i) * bsz) /\
              lptr_ok (length (fl f)) (snd s)
  | THdr _ | LHdr => True
  end.

Fixpoint safe_all (ws : list wr) (f : files) : Prop :=
  match ws with
  | [] => True
  | w :: ws' => safe_write f w /\ safe_all ws' (apply w f)
  end.

Lemma apply_all_app : forall a b f, apply_all (a ++ b) f = apply_all b (apply_all a f).
Proof. intros. unfold apply_all. apply fold_left_app. Qed.

Lemma apply_all_cons : forall w ws f, apply_all (w :: ws) f = apply_all ws (apply w f).
Proof. reflexivity. Qed.

Lemma safe_all_app : forall a b f, safe_all (a ++ b) f <-> safe_all a f /\ safe_all b (apply_all a f).
Proof.
  induction a as [|w a IH]; intros b f; cbn [app safe_all].
  - cbn. tauto.
  - rewrite apply_all_cons, IH. tauto.
Qed.

Lemma tptr_ok_mono : forall n m a, (n <= m)%nat -> tptr_ok n a -> tptr_ok m a.
Proof. intros n m a Hnm [->|(i & Hi & ->)]; [left; reflexivity|right; exists i; split; [lia|reflexivity]]. Qed.

Lemma lptr_ok_mono : forall n m a, (n <= m)%nat -> lptr_ok n a -> lptr_ok m a.
Proof. intros n m a Hnm [->|(i & Hi & ->)]; [left; reflexivity|right; exists i; split; [lia|reflexivity]]. Qed.

Lemma block_ok_mono : forall nt nl mt ml b, (nt <= mt)%nat -> (nl <= ml)%nat ->
  block_ok nt nl b -> block_ok mt ml b.
Proof.
  intros nt nl mt ml b Ht Hl (H1 & H2 & H3 & H4 & H5 & H6).
  repeat split; eauto using tptr_ok_mono, lptr_ok_mono.
Qed.

Lemma ptr_below_refl : forall x, ptr_below x x.
Proof. intro. right. reflexivity. Qed.

Lemma ptr_below_trans : forall x y z, ptr_below x y -> ptr_below y z -> ptr_below x z.
Proof. unfold ptr_below. intros x y z [-> | ->] [-> | ->]; auto. Qed.

Lemma block_below_refl : forall b, block_below b b.
Proof.
  intro b. unfold block_below, bit_below, head_below.
  repeat split; auto using ptr_below_refl; lia.
Qed.

Lemma block_below_trans : forall a b c, block_below a b -> block_below b c -> block_below a c.
Proof.
  intros a b c (Ha1 & Ha2 & Ha3 & Ha4 & Ha5 & Ha6 & Ha7 & Ha8 & Ha9 & Ha10 & Ha11)
               (Hb1 & Hb2 & Hb3 & Hb4 & Hb5 & Hb6 & Hb7 & Hb8 & Hb9 & Hb10 & Hb11).
  unfold block_below, bit_below, head_below in *.
  repeat split; eauto using ptr_below_trans; try congruence; lia.
Qed.

Lemma files_below_refl : forall f, files_below f f.
Proof.
  intro f. split; [|split]; [lia| |exists []; rewrite app_nil_r; reflexivity].
  intros i b c E1 E2. rewrite E1 in E2. injection E2 as <-. apply block_below_refl.
Qed.

Lemma files_below_trans : forall f g h, files_below f g -> files_below g h -> files_below f h.
Proof.
  intros f g h (L1 & B1 & (m1 & M1)) (L2 & B2 & (m2 & M2)). split; [|split].
  - lia.
  - intros i b c Eb Ec.
    assert (Hi : (i < length (ft g))%nat).
    { assert (i < length (ft f))%nat by (apply nth_error_Some; congruence). lia. }
    destruct (nth_error (ft g) i) as [x|] eqn:Ex; [|apply nth_error_None in Ex; lia].
    eapply block_below_trans; eauto.
  - exists (m1 ++ m2). rewrite M2, M1, app_assoc. reflexivity.
Qed.

Lemma safe_write_step : forall f w, no_dangling f -> safe_write f w ->
  no_dangling (apply w f) /\ files_below f (apply w f).
Proof.
  intros f w [Hb Hs] Hw. destruct w as [b|a b|n|[tg pv]|]; cbn [apply safe_write] in *.
  - (* TApp *) split.
    + split; cbn [ft fl].
      * intros b' Hin. rewrite app_length. cbn [length].
        apply in_app_iff in Hin. destruct Hin as [Hin|[<-|[]]].
        -- eapply block_ok_mono; [| |apply Hb; exact Hin]; lia.
        -- eapply block_ok_mono; [| |exact Hw]; lia.
      * intros j tg pv E. destruct (Hs j tg pv E) as ((i & Hi & ->) & Hp). split; [|exact Hp].
        exists i. split; [rewrite app_length; lia|reflexivity].
    + split; [|split]; cbn [ft fl].
      * rewrite app_length. lia.
      * intros i x y E1 E2.
        rewrite nth_error_app1 in E2 by (apply nth_error_Some; congruence).
        rewrite E1 in E2. injection E2 as <-. apply block_below_refl.
      * exists []. rewrite app_nil_r. reflexivity.
  - (* TSet *) destruct Hw as (k & old & -> & Ek & Hbel & Hok). rewrite tidx_S.
    assert (Hk : (k < length (ft f))%nat) by (apply nth_error_Some; congruence).
    split.
    + split; cbn [ft fl]; rewrite set_nth_length.
      * intros b' Hin. apply set_nth_In in Hin. destruct Hin as [->|Hin]; auto.
      * exact Hs.
    + split; [|split]; cbn [ft fl].
      * rewrite set_nth_length. lia.
      * intros i x y E1 E2. destruct (Nat.eq_dec i k) as [->|Hne].
        -- rewrite set_nth_same in E2 by exact Hk. congruence.
        -- rewrite set_nth_other in E2 by exact Hne. rewrite E1 in E2. injection E2 as <-.
           apply block_below_refl.
      * exists []. rewrite app_nil_r. reflexivity.
  - (* THdr *) split; [split; assumption|]. split; [|split]; cbn [ft fl]; [lia| |exists []; rewrite app_nil_r; reflexivity].
    intros i x y E1 E2. rewrite E1 in E2. injection E2 as <-. apply block_below_refl.
  - (* LApp *) cbn [fst snd] in Hw. destruct Hw as [Htg Hpv]. split.
    + split; cbn [ft fl].
      * intros b' Hin. rewrite app_length. eapply block_ok_mono; [| |apply Hb; exact Hin]; lia.
      * intros j tg' pv' E.
        destruct (Nat.lt_ge_cases j (length (fl f))) as [Hj|Hj].
        -- rewrite nth_error_app1 in E by exact Hj. eapply Hs; eauto.
        -- rewrite nth_error_app2 in E by exact Hj.
           destruct (j - length (fl f))%nat as [|q] eqn:Eq; [|destruct q; discriminate E].
           cbn in E. injection E as <- <-. split; [exact Htg|].
           eapply lptr_ok_mono; [|exact Hpv]. lia.
    + split; [|split]; cbn [ft fl]; [lia| |eexists; reflexivity].
      intros i x y E1 E2. rewrite E1 in E2. injection E2 as <-. apply block_below_refl.
  - (* LHdr *) split; [split; assumption|apply files_below_refl].
Qed.

Lemma safe_all_end : forall ws f, no_dangling f -> safe_all ws f ->
  no_dangling (apply_all ws f) /\ files_below f (apply_all ws f).
Proof.
  induction ws as [|w ws IH]; intros f Hn Hs.
  - split; [exact Hn|apply files_below_refl].
  - destruct Hs as [Hw Hs]. destruct (safe_write_step f w Hn Hw) as [Hn1 Hb1].
    destruct (IH _ Hn1 Hs) as [Hn2 Hb2]. rewrite apply_all_cons.
    split; [exact Hn2|eapply files_below_trans; eauto].
Qed.

(* every cut of a list of safe writes is free of dangling pointers and below the end *)
Theorem safe_all_cuts : forall ws f, no_dangling f -> safe_all ws f -> forall k,
  no_dangling (apply_all (firstn k ws) f) /\
  files_below (apply_all (firstn k ws) f) (apply_all ws f).
Proof.
  induction ws as [|w ws IH]; intros f Hn Hs k.
  - rewrite firstn_nil. split; [exact Hn|apply files_below_refl].
  - destruct k as [|k].
    + cbn [firstn]. split; [exact Hn|]. apply (safe_all_end (w :: ws) f Hn Hs).
    + cbn [firstn]. rewrite !apply_all_cons. destruct Hs as [Hw Hs].
      destruct (safe_write_step f w Hn Hw) as [Hn1 _]. apply IH; assumption.
Qed.
