(* GenTraphPEx.v — non-vacuity of the theorems of GenTraphPFacts.v (the translated Traph.add_page / add_pages run by vm_compute on
   the bytes of the trie file of concrete states, compared with the model: default rule, existing webentity, repeated page,
   add_pages with a repetition, an anchored rule that fires), the theorems instantiated on these states, and the proof that the
   condition on the anchors cannot be dropped from the requested statement (a reopen that does not re-supply the rule). *)
From Coq Require Import List NArith Bool Lia Arith.
Import ListNotations.
From Traph Require Import Bytes Consts Layout Helpers Rules Tst TstDefs Traph Spec Ops RefDefs Traphw TraceDefs Codec CodecFacts
  TstFacts Store StoreFacts StoreFacts2 RefFull GenStorage GenNode GenNodeFacts GenTrie GenTrieFacts GenTrieW GenTrieWDefs
  GenTraphW GenTraphWDefs GenTraphP GenTraphPDefs.
From Traph Require Import ReopenFacts GenTraphWFacts1 GenTraphWFacts GenTraphPFacts1 GenTraphPFacts GenTraphPReach.
From Traph Require PropsEx IdFacts.
Open Scope N_scope.


(* the RAM header, the RAM rule table and the storage of a state: the hypotheses of the theorems are satisfiable *)
Definition hd_of (s : traph) : py_thdr := mk_th [VNum (lastwe s); VBytes version_bytes].
Definition rm_of (s : traph) : py_ram := mk_ram (rules s) (dflt s).
Definition sg_of (s : traph) : py_pm := mk_pm 128 (trie_file s) 0.

Lemma ramrep_of : forall s, ramrep s (rm_of s).
Proof. intro s. split; reflexivity. Qed.

Lemma hrep_of : forall s, forallb blk_encodableb (ft (files_of s)) = true -> hrep s (hd_of s) (sg_of s).
Proof.
  intros s Hall. split; [|split; [reflexivity|]].
  - apply (trep_of_file s 0). apply Forall_forall. intros b Hb. apply blk_encodableb_ok.
    rewrite forallb_forall in Hall. apply Hall. exact Hb.
  - unfold sg_of, trie_file. cbn [pm_array].
    rewrite firstn_app, encode_trie_header_length, Nat.sub_diag, firstn_O, app_nil_r. apply firstn_all2.
    rewrite encode_trie_header_length. lia.
Qed.

Definition l1 : bytes := [115;58;104;116;116;112;124;104;58;111;114;103;124;104;58;122;124;112;58;113;124].  (* s:http|h:org|h:z|p:q| *)
Definition l2 : bytes := PropsEx.ex_px ++ [112;58;113;124].

(* run the translated add_page on the file of a state; compare with the model: the report, the bytes, the counter in RAM and
   in the header block *)
Definition run_page (s : traph) (lru : bytes) (cr : bool) : option (py_report * bool * bool * N * N) :=
  match py_traph_add_page (rm_of s) (hd_of s) (sg_of s) lru cr with
  | Some (hd', sg', rp) =>
      let r := add_page_int lru cr s in
      Some (rp, Bytes.beq (pm_array sg') (trie_file (fst (fst r))),
            Bytes.beq (pm_array sg') (pm_array (sg_of s)),
            py_thdr_last_webentity_id hd', decode_trie_header (firstn 128 (pm_array sg')))
  | None => None
  end.
Definition run_pages (s : traph) (lrus : list bytes) (cr : bool) : option (py_report * bool * N * N) :=
  match py_traph_add_pages (rm_of s) (hd_of s) (sg_of s) lrus cr with
  | Some (hd', sg', rp) =>
      Some (rp, Bytes.beq (pm_array sg') (trie_file (fst (add_pages lrus cr s))),
            py_thdr_last_webentity_id hd', decode_trie_header (firstn 128 (pm_array sg')))
  | None => None
  end.

Definition org_z : bytes := [115;58;104;116;116;112;124;104;58;111;114;103;124;104;58;122;124].              (* s:http|h:org|h:z| *)
Definition org_z_s : bytes := [115;58;104;116;116;112;115;124;104;58;111;114;103;124;104;58;122;124].        (* s:https|... *)
Definition www : bytes := [104;58;119;119;119;124].                                                           (* h:www| *)

(* a page on a new domain: the default rule creates webentity 4 = counter + 1 with the four variations of the domain, one
   page created; the file is the model's, and it did change *)
Example ex_page_new_domain :
  run_page PropsEx.exs l1 false =
    Some (mk_rp [(4, [org_z; org_z_s; org_z ++ www; org_z_s ++ www])] 1, true, false, 4, 4) /\
  (snd (fst (add_page_int l1 false PropsEx.exs)), snd (add_page_int l1 false PropsEx.exs)) =
    (1, [(4, [org_z; org_z_s; org_z ++ www; org_z_s ++ www])]) /\
  lastwe PropsEx.exs = 3.
Proof. vm_compute. repeat split; reflexivity. Qed.

(* a page under an existing webentity: nothing created but the page *)
Example ex_page_known_entity :
  run_page PropsEx.exs l2 true = Some (mk_rp [] 1, true, false, 3, 3) /\
  (snd (fst (add_page_int l2 true PropsEx.exs)), snd (add_page_int l2 true PropsEx.exs)) = (1, []).
Proof. vm_compute. split; reflexivity. Qed.

(* the same page again: no page, no webentity, not a byte changes *)
Example ex_page_again :
  run_page PropsEx.exs PropsEx.ex_pxy false = Some (mk_rp [] 0, true, true, 3, 3).
Proof. vm_compute. reflexivity. Qed.

(* add_pages with a repetition: two pages, one webentity; the merged report is the model's *)
Example ex_pages :
  run_pages PropsEx.exs [l2; l1; l2] true =
    Some (mk_rp [(4, [org_z; org_z_s; org_z ++ www; org_z_s ++ www])] 2, true, 4, 4) /\
  snd (add_pages [l2; l1; l2] true PropsEx.exs) = Report 2 [(4, [org_z; org_z_s; org_z ++ www; org_z_s ++ www])].
Proof. vm_compute. split; reflexivity. Qed.

(* ---- an anchored rule fires ---- *)
Definition exh3 : list op := PropsEx.exh ++ [OAddRule IdFacts.ex_pa (Path 1)].
Definition exs3 : traph := run Domain [] exh3.
Definition l3 : bytes := IdFacts.ex_pa ++ [112;58;119;124;112;58;118;124].                                   (* s:http|h:com|h:a|p:w|p:v| *)
Definition pa_w : bytes := IdFacts.ex_pa ++ [112;58;119;124].
Definition pa_w_s : bytes := [115;58;104;116;116;112;115;124;104;58;99;111;109;124;104;58;97;124;112;58;119;124].
Definition pa_www_w : bytes := IdFacts.ex_pa ++ www ++ [112;58;119;124].
Definition pa_www_w_s : bytes := [115;58;104;116;116;112;115;124;104;58;99;111;109;124;104;58;97;124] ++ www ++ [112;58;119;124].

(* the walk meets the anchor s:http|h:com|h:a| (position 17) below the webentity declared at the same position; the rule
   "first path stem" gives a longer candidate: webentity 5 is created from it *)
Example ex_page_anchored_rule :
  run_page exs3 l3 false = Some (mk_rp [(5, [pa_w; pa_w_s; pa_www_w; pa_www_w_s])] 1, true, false, 5, 5) /\
  (snd (fst (add_page_int l3 false exs3)), snd (add_page_int l3 false exs3)) = (1, [(5, [pa_w; pa_w_s; pa_www_w; pa_www_w_s])]) /\
  h_rules (snd (fst (trie_add_page l3 false exs3))) = [17] /\ h_pos (snd (fst (trie_add_page l3 false exs3))) = Some 17 /\
  rules exs3 = [(IdFacts.ex_pa, Path 1)] /\ lastwe exs3 = 4.
Proof. vm_compute. repeat split; reflexivity. Qed.

(* ---- the theorems instantiated: all their hypotheses hold on the examples ---- *)
Lemma exh3_wf : Forall wf_op exh3.
Proof. apply Forall_app. split; [exact PropsEx.exh_wf|]. repeat constructor. cbn [wf_op]. PropsEx.wf_lru_tac. Qed.

(* instantiating a theorem about `run d rs h` on a named state without letting the unifier evaluate the history *)
Lemma exs_run : run Domain [] PropsEx.exh = PropsEx.exs.
Proof. unfold PropsEx.exs. reflexivity. Qed.
Lemma exs3_run : run Domain [] exh3 = exs3.
Proof. unfold exs3. reflexivity. Qed.

Example ex_theorem_applies_default :
  exists hd' sg', py_traph_add_page (rm_of PropsEx.exs) (hd_of PropsEx.exs) (sg_of PropsEx.exs) l1 false =
    Some (hd', sg', mk_rp [(4, [org_z; org_z_s; org_z ++ www; org_z_s ++ www])] 1) /\
    hrep (fst (fst (add_page_int l1 false PropsEx.exs))) hd' sg'.
Proof.
  assert (Hwk : walk_known (rules PropsEx.exs) l1 (snd (fst (trie_add_page l1 false PropsEx.exs)))).
  { assert (E : h_rules (snd (fst (trie_add_page l1 false PropsEx.exs))) = []) by (vm_compute; reflexivity).
    intros pos Hp. rewrite E in Hp. destruct Hp. }
  assert (Hh : hrep PropsEx.exs (hd_of PropsEx.exs) (sg_of PropsEx.exs)) by (apply hrep_of; vm_compute; reflexivity).
  assert (Hl : wf_lru l1) by PropsEx.wf_lru_tac.
  assert (Hs : nb (fst (fst (add_page_int l1 false PropsEx.exs))) * 128 < 2 ^ 64) by (vm_compute; reflexivity).
  assert (Hw : lastwe PropsEx.exs + 1 < 2 ^ 32) by (vm_compute; reflexivity).
  pose proof (py_traph_add_page_spec Domain [] PropsEx.exh PropsEx.ex_rules_wf PropsEx.exh_wf) as HA.
  cbv zeta in HA. rewrite exs_run in HA.
  destruct (HA (rm_of PropsEx.exs) (hd_of PropsEx.exs) (sg_of PropsEx.exs) l1 false (ramrep_of _) Hh Hl Hwk Hs Hw)
    as (hd' & sg' & E & Hh' & _).
  exists hd', sg'. split; [|exact Hh'].
  assert (Er : report_of (snd (fst (add_page_int l1 false PropsEx.exs))) (snd (add_page_int l1 false PropsEx.exs)) =
               mk_rp [(4, [org_z; org_z_s; org_z ++ www; org_z_s ++ www])] 1) by (vm_compute; reflexivity).
  rewrite <- Er. exact E.
Qed.

Example ex_theorem_applies_anchored :
  exists hd' sg', py_traph_add_page (rm_of exs3) (hd_of exs3) (sg_of exs3) l3 false =
    Some (hd', sg', mk_rp [(5, [pa_w; pa_w_s; pa_www_w; pa_www_w_s])] 1) /\
    hrep (fst (fst (add_page_int l3 false exs3))) hd' sg'.
Proof.
  assert (Hwk : walk_known (rules exs3) l3 (snd (fst (trie_add_page l3 false exs3)))).
  { assert (E : h_rules (snd (fst (trie_add_page l3 false exs3))) = [17]) by (vm_compute; reflexivity).
    intros pos Hp. rewrite E in Hp. destruct Hp as [<-|[]]. vm_compute. discriminate. }
  assert (Hh : hrep exs3 (hd_of exs3) (sg_of exs3)) by (apply hrep_of; vm_compute; reflexivity).
  assert (Hl : wf_lru l3) by PropsEx.wf_lru_tac.
  assert (Hs : nb (fst (fst (add_page_int l3 false exs3))) * 128 < 2 ^ 64) by (vm_compute; reflexivity).
  assert (Hw : lastwe exs3 + 1 < 2 ^ 32) by (vm_compute; reflexivity).
  pose proof (py_traph_add_page_spec Domain [] exh3 PropsEx.ex_rules_wf exh3_wf) as HA.
  cbv zeta in HA. rewrite exs3_run in HA.
  destruct (HA (rm_of exs3) (hd_of exs3) (sg_of exs3) l3 false (ramrep_of _) Hh Hl Hwk Hs Hw) as (hd' & sg' & E & Hh' & _).
  exists hd', sg'. split; [|exact Hh'].
  assert (Er : report_of (snd (fst (add_page_int l3 false exs3))) (snd (add_page_int l3 false exs3)) =
               mk_rp [(5, [pa_w; pa_w_s; pa_www_w; pa_www_w_s])] 1) by (vm_compute; reflexivity).
  rewrite <- Er. exact E.
Qed.

(* ---- add_pages on the state with the anchored rule: its history has no reopen, so every flagged anchor is known in RAM
   (GenTraphPReach.run_anchors_known) and the theorem for add_pages applies with no extra hypothesis: two webentities
   (5 by the anchored rule, 6 by the default rule), three pages ---- *)
Lemma exh3_no_reopen : Forall not_reopen exh3.
Proof. repeat constructor. Qed.

Example ex_anchors_known : anchors_known exs3.
Proof.
  rewrite <- exs3_run. apply run_anchors_known; [exact PropsEx.ex_rules_wf|exact exh3_wf|].
  apply no_reopen_resupply. exact exh3_no_reopen.
Qed.

Example ex_pages_anchored :
  run_pages exs3 [l3; l1; l3; l2] false =
    Some (mk_rp [(5, [pa_w; pa_w_s; pa_www_w; pa_www_w_s]); (6, [org_z; org_z_s; org_z ++ www; org_z_s ++ www])] 3, true, 6, 6) /\
  snd (add_pages [l3; l1; l3; l2] false exs3) =
    Report 3 [(5, [pa_w; pa_w_s; pa_www_w; pa_www_w_s]); (6, [org_z; org_z_s; org_z ++ www; org_z_s ++ www])].
Proof. vm_compute. split; reflexivity. Qed.

Example ex_theorem_applies_pages :
  exists hd' sg', py_traph_add_pages (rm_of exs3) (hd_of exs3) (sg_of exs3) [l3; l1; l3; l2] false =
    Some (hd', sg', mk_rp [(5, [pa_w; pa_w_s; pa_www_w; pa_www_w_s]); (6, [org_z; org_z_s; org_z ++ www; org_z_s ++ www])] 3) /\
    hrep (fst (add_pages [l3; l1; l3; l2] false exs3)) hd' sg'.
Proof.
  assert (Hh : hrep exs3 (hd_of exs3) (sg_of exs3)) by (apply hrep_of; vm_compute; reflexivity).
  assert (Hl : Forall wf_lru [l3; l1; l3; l2]) by (repeat constructor; PropsEx.wf_lru_tac).
  assert (Hs : nb (fst (add_pages [l3; l1; l3; l2] false exs3)) * 128 < 2 ^ 64) by (vm_compute; reflexivity).
  assert (Hw : lastwe exs3 + N.of_nat (length [l3; l1; l3; l2]) < 2 ^ 32) by (vm_compute; reflexivity).
  pose proof (py_traph_add_pages_reach Domain [] exh3 PropsEx.ex_rules_wf exh3_wf
                (no_reopen_resupply _ _ exh3_no_reopen)) as HA.
  cbv zeta in HA. rewrite exs3_run in HA.
  destruct (HA (rm_of exs3) (hd_of exs3) (sg_of exs3) [l3; l1; l3; l2] false (ramrep_of _) Hh Hl Hs Hw)
    as (n & c & Er & hd' & sg' & E & Hh' & _).
  exists hd', sg'. split; [|exact Hh'].
  assert (Er2 : snd (add_pages [l3; l1; l3; l2] false exs3) =
                Report 3 [(5, [pa_w; pa_w_s; pa_www_w; pa_www_w_s]); (6, [org_z; org_z_s; org_z ++ www; org_z_s ++ www])])
    by (vm_compute; reflexivity).
  rewrite Er2 in Er. injection Er as <- <-. exact E.
Qed.

(* ---- the condition cannot be dropped: after a reopen that does not re-supply the rule, the flag is still in the file, the RAM
   table is empty: the source raises KeyError on `self.webentity_creation_rules[rule_prefix]`, the model skips the anchor ---- *)
Definition exh4 : list op := exh3 ++ [OReopen Domain []].
Definition exs4 : traph := run Domain [] exh4.
Lemma exs4_run : run Domain [] exh4 = exs4.
Proof. unfold exs4. reflexivity. Qed.

Lemma exh4_wf : Forall wf_op exh4.
Proof. apply Forall_app. split; [exact exh3_wf|]. repeat constructor. Qed.

Example ex_reopen_without_rules :
  py_traph_add_page (rm_of exs4) (hd_of exs4) (sg_of exs4) l3 false = None /\
  (snd (fst (add_page_int l3 false exs4)), snd (add_page_int l3 false exs4)) = (1, []) /\
  h_rules (snd (fst (trie_add_page l3 false exs4))) = [17] /\ rules exs4 = [].
Proof. vm_compute. repeat split; reflexivity. Qed.

(* the statement as requested (no condition on the anchors) is false *)
Theorem requested_statement_without_anchor_condition_is_false :
  ~ (forall d rs h, wf_rules rs -> Forall wf_op h ->
     let s := run d rs h in
     forall rm hd sg lru cr, ramrep s rm -> hrep s hd sg -> wf_lru lru ->
     let r := add_page_int lru cr s in
     let s' := fst (fst r) in
     nb s' * 128 < 2 ^ 64 -> lastwe s + 1 < 2 ^ 32 ->
     exists hd' sg', py_traph_add_page rm hd sg lru cr = Some (hd', sg', report_of (snd (fst r)) (snd r)) /\
       hrep s' hd' sg' /\ ramrep s' rm).
Proof.
  intro H. specialize (H Domain [] exh4 PropsEx.ex_rules_wf exh4_wf). cbv zeta in H. rewrite exs4_run in H.
  assert (Hh : hrep exs4 (hd_of exs4) (sg_of exs4)) by (apply hrep_of; vm_compute; reflexivity).
  assert (Hl : wf_lru l3) by PropsEx.wf_lru_tac.
  assert (Hs : nb (fst (fst (add_page_int l3 false exs4))) * 128 < 2 ^ 64) by (vm_compute; reflexivity).
  assert (Hw : lastwe exs4 + 1 < 2 ^ 32) by (vm_compute; reflexivity).
  destruct (H (rm_of exs4) (hd_of exs4) (sg_of exs4) l3 false (ramrep_of _) Hh Hl Hs Hw) as (hd' & sg' & E & _).
  destruct ex_reopen_without_rules as [En _]. rewrite En in E. discriminate E.
Qed.

Print Assumptions ex_theorem_applies_default.
Print Assumptions ex_theorem_applies_anchored.
Print Assumptions ex_theorem_applies_pages.
Print Assumptions requested_statement_without_anchor_condition_is_false.
