(* Spec.v — the abstract specification: what the index is supposed to be, as a
   function of the request history, with no tree, no blocks and no pointers in
   sight.  State = the pages ever submitted (with "some submission marked it
   crawled"), the stem-prefix closure of every LRU named in a write, the net
   prefix -> webentity map, the list of submitted links, the id counter, the
   flagged rule anchors and the RAM rules.  Definitions only. *)
From Coq Require Import List NArith Bool.
From Traph Require Import Bytes Consts Helpers Rules Tst Traph.
Import ListNotations.
Open Scope N_scope.

Record astate := mkA {
  a_pages : list (bytes * bool);       (* lru -> crawled, first-submission order *)
  a_known : list bytes;                (* findable LRUs: prefix closed *)
  a_pref : list (bytes * N);           (* prefix -> webentity id *)
  a_links : list (bytes * bytes);      (* submitted (source, target), in order *)
  a_last : N;                          (* last id issued *)
  a_flags : list bytes;                (* anchors flagged in the index *)
  a_rules : list (bytes * rulekind);   (* RAM *)
  a_dflt : rulekind
}.

Definition a0 (d : rulekind) : astate := mkA [] [] [] [] 0 [] [] d.

(* non-empty stem-prefixes of an LRU, shortest first *)
Fixpoint prefixes_from (pre : bytes) (stems : list bytes) : list bytes :=
  match stems with [] => [] | s :: r => (pre ++ s) :: prefixes_from (pre ++ s) r end.
Definition stem_prefixes (l : bytes) : list bytes := prefixes_from [] (lru_iter l).

Definition add_set (x : bytes) (l : list bytes) : list bytes := if mem_bytes x l then l else l ++ [x].
Definition know (l : bytes) (k : list bytes) : list bytes := fold_left (fun k p => add_set p k) (stem_prefixes l) k.

Definition upd_known (f : list bytes -> list bytes) (a : astate) : astate :=
  mkA (a_pages a) (f (a_known a)) (a_pref a) (a_links a) (a_last a) (a_flags a) (a_rules a) (a_dflt a).
Definition upd_pref (f : list (bytes * N) -> list (bytes * N)) (a : astate) : astate :=
  mkA (a_pages a) (a_known a) (f (a_pref a)) (a_links a) (a_last a) (a_flags a) (a_rules a) (a_dflt a).

(* longest stem-prefix carrying a webentity *)
Definition resolve (pref : list (bytes * N)) (l : bytes) : option (bytes * N) :=
  fold_left (fun best p => match aget p pref with Some w => Some (p, w) | None => best end)
            (stem_prefixes l) None.

(* the walk history, computed from the abstract state *)
Definition ahist (a : astate) (l : bytes) : hist :=
  let anchors := map blen (filter (fun p => mem_bytes p (a_flags a)) (stem_prefixes l)) in
  match resolve (a_pref a) l with
  | Some (p, w) => mkHist w p (Some (blen p)) anchors
  | None => mkHist 0 [] None anchors
  end.
Definition adecide (a : astate) (l : bytes) : ladder :=
  decide (mkT Lf 1 0 [] (a_rules a) (a_dflt a)) l (ahist a l).

(* attach the variations of X that carry nothing; one fresh id for all of them *)
Definition acreate (x : bytes) (a : astate) : astate * list (N * list bytes) :=
  let vs := lru_variations x in
  let a1 := upd_known (fun k => fold_left (fun k v => know v k) vs k) a in
  let valid := dedup_bytes (filter (fun v => negb (amem v (a_pref a1))) vs) [] in
  match valid with
  | [] => (a1, [])
  | _ =>
      let w := a_last a1 + 1 in
      (mkA (a_pages a1) (a_known a1)
           (fold_left (fun m v => aset v w m) valid (a_pref a1))
           (a_links a1) w (a_flags a1) (a_rules a1) (a_dflt a1),
       [(w, valid)])
  end.

Definition s_add_page (l : bytes) (cr : bool) (a : astate) : astate * N * list (N * list bytes) :=
  let isnew := negb (amem l (a_pages a)) in
  let pages' := match aget l (a_pages a) with
                | Some c => aset l (c || cr) (a_pages a)
                | None => a_pages a ++ [(l, cr)]
                end in
  let a1 := mkA pages' (know l (a_known a)) (a_pref a) (a_links a) (a_last a)
                (a_flags a) (a_rules a) (a_dflt a) in
  match adecide a1 l with
  | LCand x => let '(a2, c) := acreate x a1 in (a2, if isnew then 1 else 0, c)
  | _ => (a1, if isnew then 1 else 0, [])
  end.

Definition s_add_pages (ls : list bytes) (cr : bool) (a : astate) : astate * N * list (N * list bytes) :=
  fold_left (fun '(a, n, c) l => let '(a', n', c') := s_add_page l cr a in (a', n + n', c ++ c'))
            ls (a, 0, []).

Definition add_link (p : bytes * bytes) (a : astate) : astate :=
  mkA (a_pages a) (a_known a) (a_pref a) (a_links a ++ [p]) (a_last a) (a_flags a) (a_rules a) (a_dflt a).
Definition mark_crawled (l : bytes) (a : astate) : astate :=
  mkA (aset l true (a_pages a)) (a_known a) (a_pref a) (a_links a) (a_last a) (a_flags a) (a_rules a) (a_dflt a).

Definition s_add_links (links : list (bytes * bytes)) (a : astate) : astate * reply :=
  let see (l : bytes) '(a, n, c, seen) :=
      if mem_bytes l seen then (a, n, c, seen)
      else let '(a', n', c') := s_add_page l false a in (a', n + n', c ++ c', l :: seen) in
  let '(a1, n, c, _) :=
      fold_left (fun st '(x, y) => see y (see x st)) links (a, 0, [], []) in
  (fold_left (fun a p => add_link p a) links a1, Report n c).

Definition s_batch (data : list (bytes * list bytes)) (a : astate) : astate * reply :=
  let '(a1, n, c, _) :=
      fold_left
        (fun '(a, n, c, seen) '(src, tgts) =>
           let '(a, n, c, seen) :=
               if mem_bytes src seen then (mark_crawled src a, n, c, seen)
               else let '(a', n', c') := s_add_page src true a in (a', n + n', c ++ c', src :: seen) in
           fold_left (fun '(a, n, c, seen) t =>
                        let '(a, n, c, seen) :=
                            if mem_bytes t seen then (a, n, c, seen)
                            else let '(a', n', c') := s_add_page t false a in
                                 (a', n + n', c ++ c', t :: seen) in
                        (add_link (src, t) a, n, c, seen))
                     tgts (a, n, c, seen))
        data (a, 0, [], []) in
  (a1, Report n c).

Definition s_create (ps : list bytes) (a : astate) : astate * reply :=
  let a1 := upd_known (fun k => fold_left (fun k p => know p k) ps k) a in
  if existsb (fun p => amem p (a_pref a)) ps then (a1, Refused)
  else match ps with
       | [] => (a1, Crash)
       | _ =>
           let w := a_last a1 + 1 in
           let valid := dedup_bytes ps [] in
           (mkA (a_pages a1) (a_known a1) (fold_left (fun m v => aset v w m) valid (a_pref a1))
                (a_links a1) w (a_flags a1) (a_rules a1) (a_dflt a1),
            Report 0 [(w, valid)])
       end.

Definition s_delete (w : N) (ps : list bytes) (a : astate) : astate * reply :=
  if forallb (fun p => mem_bytes p (a_known a) &&
                       match aget p (a_pref a) with Some w' => w' =? w | None => false end) ps
  then (upd_pref (fun m => fold_left (fun m p => adel p m) ps m) a, Ok)
  else (a, Refused).

Definition s_add_prefix (p : bytes) (w : N) (a : astate) : astate * reply :=
  let a1 := upd_known (know p) a in
  if amem p (a_pref a) then (a1, Refused) else (upd_pref (aset p w) a1, Ok).

Definition s_remove_prefix (p : bytes) (w : N) (a : astate) : astate * reply :=
  let a1 := upd_known (know p) a in
  if (w =? 0) || match aget p (a_pref a) with Some w' => w' =? w | None => false end
  then (upd_pref (adel p) a1, Ok) else (a1, Refused).

Definition s_move_prefix (p : bytes) (wt ws : N) (a : astate) : astate * reply :=
  match s_remove_prefix p ws a with
  | (a1, Ok) => s_add_prefix p wt a1
  | r => r
  end.

(* is p a stem-prefix of l ? *)
Definition is_stem_prefix (p l : bytes) : bool := mem_bytes p (stem_prefixes l).

(* installing a rule re-inserts the pages beneath the anchor; the order in which the
   index meets them is not part of the specification, it is a parameter *)
Definition s_add_rule (p : bytes) (k : rulekind) (write : bool) (order : list bytes) (a : astate)
  : astate * reply :=
  let a0 := mkA (a_pages a) (a_known a) (a_pref a) (a_links a) (a_last a) (a_flags a)
                (aset p k (a_rules a)) (a_dflt a) in
  if negb write then (a0, Report 0 [])
  else
    let a1 := mkA (a_pages a0) (know p (a_known a0)) (a_pref a0) (a_links a0) (a_last a0)
                  (add_set p (a_flags a0)) (a_rules a0) (a_dflt a0) in
    let '(a2, n, c) := s_add_pages order false a1 in
    (a2, Report n c).
Definition pages_beneath (p : bytes) (a : astate) : list bytes :=
  map fst (filter (fun x => is_stem_prefix p (fst x)) (a_pages a)).

Definition s_remove_rule (p : bytes) (a : astate) : astate * reply :=
  match aget p (a_rules a) with
  | None => (a, Crash)
  | Some _ =>
      let a0 := mkA (a_pages a) (a_known a) (a_pref a) (a_links a) (a_last a) (a_flags a)
                    (adel p (a_rules a)) (a_dflt a) in
      if mem_bytes p (a_known a)
      then (mkA (a_pages a0) (a_known a0) (a_pref a0) (a_links a0) (a_last a0)
                (filter (fun q => negb (beq p q)) (a_flags a0)) (a_rules a0) (a_dflt a0), Ok)
      else (a0, Refused)
  end.

Definition s_install (rs : list (bytes * rulekind)) (write : bool) (a : astate) : astate :=
  fold_left (fun a '(p, k) => fst (s_add_rule p k write [] a)) rs a.
Definition s_init (d : rulekind) (rs : list (bytes * rulekind)) : astate := s_install rs true (a0 d).
Definition s_reopen (d : rulekind) (rs : list (bytes * rulekind)) (a : astate) : astate :=
  s_install rs false (mkA (a_pages a) (a_known a) (a_pref a) (a_links a) (a_last a) (a_flags a) [] d).
Definition s_clear (od : option rulekind) (ors : option (list (bytes * rulekind))) (a : astate) : astate :=
  let d := match od with Some d => d | None => a_dflt a end in
  match ors with
  | Some rs => s_install rs true (a0 d)
  | None => mkA [] [] [] [] 0 [] (a_rules a) d
  end.

(* ---- what the read requests must answer ---------------------------------------- *)
Definition s_resolve_we (l : bytes) (a : astate) : option N :=
  match resolve (a_pref a) l with Some (_, w) => Some w | None => None end.
Definition s_resolve_prefix (l : bytes) (a : astate) : option bytes :=
  match resolve (a_pref a) l with Some (p, _) => Some p | None => None end.
Definition s_potential (l : bytes) (a : astate) : option bytes :=
  match adecide a l with
  | LKeep => Some (h_pref (ahist a l))
  | LCand p => Some p
  | LNone => None
  end.

(* l lies in the realm of prefix p: p is a stem-prefix of l and no longer prefix q <= l carries a webentity *)
Definition in_realm (pref : list (bytes * N)) (p l : bytes) : bool :=
  is_stem_prefix p l &&
  forallb (fun q => negb (amem q pref) || (Nat.leb (length q) (length p)))
          (stem_prefixes l).

Definition nstems (l : bytes) : N := N.of_nat (length (lru_iter l)).
Definition within_depth (maxd : option N) (p l : bytes) : bool :=
  match maxd with None => true | Some m => nstems l - nstems p <=? m end.

(* pages of the realms of the given prefixes (one block per prefix, in the given order) *)
Fixpoint s_we_pages (maxd : option N) (ps : list bytes) (a : astate) : res (list (bytes * bool)) :=
  match ps with
  | [] => ROk []
  | p :: ps' =>
      if negb (mem_bytes p (a_known a)) then RRefused
      else match s_we_pages maxd ps' a with
           | ROk r => ROk (filter (fun x => in_realm (a_pref a) p (fst x) && within_depth maxd p (fst x))
                                  (a_pages a) ++ r)
           | e => e
           end
  end.

Definition count_link (x y : bytes) (links : list (bytes * bytes)) : N :=
  count_if (fun p => beq (fst p) x && beq (snd p) y) links.
Definition dedup_pairs (links : list (bytes * bytes)) : list (bytes * bytes) :=
  fold_left (fun acc p => if existsb (fun q => beq (fst p) (fst q) && beq (snd p) (snd q)) acc
                          then acc else acc ++ [p]) links [].
(* the submitted multigraph as weighted distinct pairs *)
Definition s_wlinks (a : astate) : list (bytes * bytes * N) :=
  map (fun p => (fst p, snd p, count_link (fst p) (snd p) (a_links a))) (dedup_pairs (a_links a)).

Definition s_page_links (l : bytes) (inb int outb : bool) (a : astate) : list (bytes * bytes * N) :=
  filter (fun '(x, y, _) =>
            (outb && beq x l && negb (beq y l)) || (int && beq x l && beq y l)
            || (inb && beq y l && negb (beq x l)))
         (s_wlinks a).

Definition owner (a : astate) (l : bytes) : N :=
  match s_resolve_we l a with Some w => w | None => 0 end.

(* links whose source (internal/outbound) or target (inbound) page lies in one of the realms *)
Definition in_realms (a : astate) (ps : list bytes) (l : bytes) : bool :=
  existsb (fun p => in_realm (a_pref a) p l) ps.
Definition s_pagelinks (w : N) (ps : list bytes) (inb int outb : bool) (a : astate)
  : res (list (bytes * bytes * N)) :=
  if negb int && negb outb && negb inb then RRefused
  else if negb (forallb (fun p => mem_bytes p (a_known a)) ps) then RRefused
  else ROk (filter (fun '(x, y, _) =>
                      (in_realms a ps x && ((outb && negb (owner a y =? w)) || (int && (owner a y =? w))))
                      || (inb && in_realms a ps y && negb (owner a x =? w)))
                   (s_wlinks a)).

Definition s_neighbours (out : bool) (ps : list bytes) (a : astate) : res (list N) :=
  if negb (forallb (fun p => mem_bytes p (a_known a)) ps) then RRefused
  else ROk (deduped (flat_map (fun '(x, y) =>
                                 if out then (if in_realms a ps x then [owner a y] else [])
                                 else (if in_realms a ps y then [owner a x] else []))
                              (a_links a))).

(* the webentity network: (A, B, weight) *)
Definition s_network (auto : bool) (a : astate) : list (N * N * N) :=
  fold_left (fun g '(x, y) =>
               let wa := owner a x in let wb := owner a y in
               if (wa =? 0) || (wb =? 0) || (negb auto && (wa =? wb)) then g
               else (fix inc (g : list (N * N * N)) :=
                       match g with
                       | [] => [(wa, wb, 1)]
                       | (p, q, n) :: g' => if (p =? wa) && (q =? wb) then (p, q, n + 1) :: g'
                                            else (p, q, n) :: inc g'
                       end) g)
            (a_links a) [].
(* tallies: (webentity, crawled pages, uncrawled pages) *)
Definition s_tally (w : N) (a : astate) : N * N :=
  (count_if (fun x => (owner a (fst x) =? w) && snd x) (a_pages a),
   count_if (fun x => (owner a (fst x) =? w) && negb (snd x)) (a_pages a)).

(* hierarchy *)
Definition proper_stem_prefix (q p : bytes) : bool := is_stem_prefix q p && negb (beq q p).
Definition s_parents (w : N) (ps : list bytes) (a : astate) : res (list N) :=
  if negb (forallb (fun p => mem_bytes p (a_known a)) ps) then RRefused
  else ROk (deduped (map snd (filter (fun x => existsb (fun p => proper_stem_prefix (fst x) p) ps
                                              && negb (snd x =? w)) (a_pref a)))).
Definition s_children (w : N) (ps : list bytes) (a : astate) : res (list N) :=
  if negb (forallb (fun p => mem_bytes p (a_known a)) ps) then RRefused
  else ROk (deduped (map snd (filter (fun x => existsb (fun p => is_stem_prefix p (fst x)) ps
                                              && negb (snd x =? w)) (a_pref a)))).

(* true indegree: distinct pages linking to l (l itself included if it links to itself) *)
Definition s_indegree (l : bytes) (a : astate) : N :=
  blen (dedup_bytes (map fst (filter (fun p => beq (snd p) l) (a_links a))) []).

(* ascending LRU order (Python bytes order) *)
Fixpoint insert_lex (x : bytes * bool) (l : list (bytes * bool)) : list (bytes * bool) :=
  match l with
  | [] => [x]
  | y :: l' => if blt (fst x) (fst y) then x :: l else y :: insert_lex x l'
  end.
Definition sort_lex (l : list (bytes * bool)) : list (bytes * bool) := fold_right insert_lex [] l.
(* the full sequence pagination must deliver: prefix by prefix, ascending inside a prefix *)
Fixpoint s_paged (crawled_only : bool) (ps : list bytes) (a : astate) : res (list (bytes * bool)) :=
  match ps with
  | [] => ROk []
  | p :: ps' =>
      if negb (mem_bytes p (a_known a)) then RRefused
      else match s_paged crawled_only ps' a with
           | ROk r => ROk (sort_lex (filter (fun x => in_realm (a_pref a) p (fst x)
                                                      && (negb crawled_only || snd x)) (a_pages a)) ++ r)
           | e => e
           end
  end.

(* storage accounting *)
Definition s_trie_blocks (a : astate) : N :=
  1 + fold_left (fun n p => n + nblk (last (lru_iter p) [])) (a_known a) 0.
Definition s_stubs (a : astate) : N := 2 * blen (a_links a).
