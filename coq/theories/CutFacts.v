(* CutFacts.v — C18, part 7: what the block-level READ functions of Store.v do on files
   that are free of dangling pointers and pointwise below completed files.  Generic
   lemmas about a pair of files (f, g); the instantiation to the cuts of a request is in
   CutFacts2.v / CutFacts3.v.
   K1: every stored pointer leads to a stored block / stub.
   K2: the ordering predicate [ordered] and its transfer to files below.
   K3: b_windup and b_find never meet a missing block and never run out of fuel.
   K4: windup / page bits of a cut agree with the completed files; page scan subset.
   K5: the stub chain read from a head stored in the cut is the chain the completed
       files give from the same head. *)
From Coq Require Import List NArith Bool Lia Arith.
Import ListNotations.
From Traph Require Import Bytes Consts Helpers Rules Tst TstDefs Traph Traphw Ops RefDefs
  TstFacts TraceDefs TraceFacts Store.
Open Scope N_scope.

(* ====================================================================== *)
(* Offsets                                                                  *)
(* ====================================================================== *)
(* byte offset of the data block of index i *)
Definition off (i : nat) : N := N.of_nat (S i) * bsz.

Lemma off_inj : forall i j, off i = off j -> i = j.
Proof. intros i j. apply mul_bsz_S_inj. Qed.

Lemma off_lt : forall i j, off i < off j <-> (i < j)%nat.
Proof. intros i j. unfold off. rewrite bsz_val. lia. Qed.

Lemma off_S : forall i, off i + bsz = off (S i).
Proof. intro i. unfold off. rewrite bsz_val. lia. Qed.

Lemma off_nz : forall i, off i <> 0.
Proof. intro i. unfold off. rewrite bsz_val. lia. Qed.

Lemma blk_at_off : forall f i, blk_at f (off i) = nth_error (ft f) i.
Proof.
  intros f i. unfold blk_at, off. rewrite tidx_S.
  rewrite N.mod_mul by (rewrite bsz_val; discriminate). rewrite N.eqb_refl.
  assert (Hle : (bsz <=? N.of_nat (S i) * bsz) = true) by (apply N.leb_le; rewrite bsz_val; lia).
  rewrite Hle. reflexivity.
Qed.

Lemma blk_at_inv : forall f a b, blk_at f a = Some b ->
  exists i, a = off i /\ nth_error (ft f) i = Some b.
Proof.
  intros f a b H. unfold blk_at in H.
  destruct (a mod bsz =? 0) eqn:Em; [|discriminate H].
  destruct (bsz <=? a) eqn:El; [|discriminate H]. cbn [andb] in H.
  apply N.eqb_eq in Em. apply N.leb_le in El.
  assert (Ea : a = bsz * (a / bsz)) by (apply N.div_exact; [rewrite bsz_val; discriminate|exact Em]).
  exists (tidx a). split; [|exact H].
  unfold off, tidx. set (q := a / bsz) in *. rewrite bsz_val in *. lia.
Qed.

Lemma tptr_blk : forall n a, tptr_ok n a -> a <> 0 -> exists j, (j < n)%nat /\ a = off j.
Proof. intros n a [->|(j & Hj & ->)] Hnz; [congruence|]. exists j. split; [exact Hj|reflexivity]. Qed.

(* ====================================================================== *)
(* K1 — no read falls off the file                                          *)
(* ====================================================================== *)
Lemma tptr_present : forall f a, tptr_ok (length (ft f)) a -> a <> 0 -> blk_at f a <> None.
Proof.
  intros f a H Hnz. destruct (tptr_blk _ _ H Hnz) as (j & Hj & ->).
  rewrite blk_at_off. apply nth_error_Some. exact Hj.
Qed.

Theorem K1_tree_pointers : forall f b, no_dangling f -> In b (ft f) ->
  (b_left b <> 0 -> blk_at f (b_left b) <> None) /\
  (b_right b <> 0 -> blk_at f (b_right b) <> None) /\
  (b_child b <> 0 -> blk_at f (b_child b) <> None) /\
  (b_parent b <> 0 -> blk_at f (b_parent b) <> None).
Proof.
  intros f b [Hb _] Hin. destruct (Hb b Hin) as (Hl & Hr & Hc & Hp & _).
  repeat split; apply tptr_present; assumption.
Qed.

(* the two list heads of a block lead to stored stubs *)
Theorem K1_heads : forall f b, no_dangling f -> In b (ft f) ->
  (b_out b <> 0 -> exists j, (j < length (fl f))%nat /\ b_out b = ssz * N.of_nat (S j)) /\
  (b_in b <> 0 -> exists j, (j < length (fl f))%nat /\ b_in b = ssz * N.of_nat (S j)).
Proof.
  intros f b [Hb _] Hin. destruct (Hb b Hin) as (_ & _ & _ & _ & Ho & Hi).
  split; intro Hnz.
  - destruct Ho as [E|H]; [congruence|exact H].
  - destruct Hi as [E|H]; [congruence|exact H].
Qed.

Theorem K1_stubs : forall f j tg pv, no_dangling f -> nth_error (fl f) j = Some (tg, pv) ->
  blk_at f tg <> None /\
  (pv <> 0 -> exists j', (j' < j)%nat /\ pv = ssz * N.of_nat (S j')).
Proof.
  intros f j tg pv [_ Hs] E. destruct (Hs j tg pv E) as ((i & Hi & ->) & Hp). split.
  - change (N.of_nat (S i) * bsz) with (off i). rewrite blk_at_off. apply nth_error_Some. exact Hi.
  - intro Hnz. destruct Hp as [E0|H]; [congruence|exact H].
Qed.

(* ====================================================================== *)
(* K2 — the ordering predicate                                              *)
(* ====================================================================== *)
(* a forward pointer stored at offset a: null, or beyond a *)
Definition pfw (a x : N) : Prop := x = 0 \/ a < x.

Definition ptr_ordered (f : files) : Prop :=
  forall i b, nth_error (ft f) i = Some b ->
    pfw (off i) (b_left b) /\ pfw (off i) (b_right b) /\ pfw (off i) (b_child b) /\
    b_parent b < off i.

(* a tail block directly follows a block announcing it; the block after a block
   announcing a tail, when present, is a tail block *)
Definition tails_follow (f : files) : Prop :=
  forall i b, nth_error (ft f) i = Some b ->
    (blk_is_tail b = true ->
       exists j pb, i = S j /\ nth_error (ft f) j = Some pb /\ blk_has_tail pb = true) /\
    (blk_has_tail b = true -> forall c, nth_error (ft f) (S i) = Some c -> blk_is_tail c = true).

Definition ordered (f : files) : Prop := ptr_ordered f /\ tails_follow f.

(* no block of the file announces a tail beyond the end of the file *)
Definition closed (f : files) : Prop :=
  forall i b, nth_error (ft f) i = Some b -> blk_has_tail b = true -> (S i < length (ft f))%nat.

Lemma below_nth : forall f g i b, files_below f g -> nth_error (ft f) i = Some b ->
  exists c, nth_error (ft g) i = Some c /\ block_below b c.
Proof.
  intros f g i b (Hlen & Hb & _) E.
  assert (Hi : (i < length (ft f))%nat) by (apply nth_error_Some; congruence).
  destruct (nth_error (ft g) i) as [c|] eqn:Ec; [|apply nth_error_None in Ec; lia].
  exists c. split; [reflexivity|]. apply (Hb i b c E Ec).
Qed.

Lemma pfw_below : forall a x y, ptr_below x y -> pfw a y -> pfw a x.
Proof. intros a x y [->| ->] H; [left; reflexivity|exact H]. Qed.

(* a cut's pointers are a subset of the completed ones at the same indices *)
Theorem ordered_below : forall f g, files_below f g -> ordered g -> ordered f.
Proof.
  intros f g Hfg [Hp Ht]. split.
  - intros i b E. destruct (below_nth _ _ _ _ Hfg E) as (c & Ec & Hbc).
    destruct Hbc as (_ & _ & _ & _ & _ & Hl & Hr & Hc & Hpar & _).
    destruct (Hp i c Ec) as (Pl & Pr & Pc & Pp).
    repeat split; eauto using pfw_below. rewrite Hpar. exact Pp.
  - intros i b E. destruct (below_nth _ _ _ _ Hfg E) as (c & Ec & Hbc).
    destruct Hbc as (_ & _ & _ & Eht & Eit & _).
    destruct (Ht i c Ec) as [T1 T2]. split.
    + intro Hb. unfold blk_is_tail in *. rewrite Eit in Hb.
      destruct (T1 Hb) as (j & pc & -> & Epc & Hpc).
      assert (Hj : (j < length (ft f))%nat).
      { assert (S j < length (ft f))%nat by (apply nth_error_Some; congruence). lia. }
      destruct (nth_error (ft f) j) as [pb|] eqn:Epb; [|apply nth_error_None in Epb; lia].
      exists j, pb. split; [reflexivity|]. split; [exact Epb|].
      destruct (below_nth _ _ _ _ Hfg Epb) as (pc' & Epc' & Hb').
      rewrite Epc in Epc'. injection Epc' as <-.
      destruct Hb' as (_ & _ & _ & Eht' & _). unfold blk_has_tail in *. rewrite Eht'. exact Hpc.
    + intros Hb c' Ec'. unfold blk_has_tail in *. rewrite Eht in Hb.
      destruct (below_nth _ _ _ _ Hfg Ec') as (c2 & Ec2 & Hb2).
      destruct Hb2 as (_ & _ & _ & _ & Eit2 & _). unfold blk_is_tail in *. rewrite Eit2.
      apply (T2 Hb c2 Ec2).
Qed.

(* ====================================================================== *)
(* node.read as a function of the block list                                *)
(* ====================================================================== *)
(* the stem spelled from the head of a block list: chunks while has_tail is set *)
Fixpoint tl_from (l : list tblock) : bytes :=
  match l with
  | [] => []
  | b :: l' => b_stem b ++ (if blk_has_tail b then tl_from l' else [])
  end.
(* the chain starting at the head of the list ends inside the list *)
Fixpoint complete (l : list tblock) : bool :=
  match l with
  | [] => false
  | b :: l' => if blk_has_tail b then complete l' else true
  end.

Lemma skipn_nth : forall (A : Type) (l : list A) i b, nth_error l i = Some b ->
  skipn i l = b :: skipn (S i) l.
Proof.
  intros A l. induction l as [|x l IH]; intros [|i] b E; try discriminate E.
  - injection E as ->. reflexivity.
  - cbn [nth_error] in E. apply IH in E. exact E.
Qed.

Lemma skipn_none : forall (A : Type) (l : list A) i, nth_error l i = None -> skipn i l = [].
Proof. intros A l i E. apply skipn_all2. apply nth_error_None. exact E. Qed.

Lemma nth_skipn : forall (A : Type) (l : list A) i k, nth_error (skipn i l) k = nth_error l (i + k).
Proof.
  intros A l. induction l as [|x l IH]; intros [|i] k; cbn [skipn plus]; try reflexivity.
  - destruct k; reflexivity.
  - cbn [nth_error]. apply IH.
Qed.

Lemma tails_tl : forall fuel f j, (length (ft f) - j <= fuel)%nat ->
  tails fuel f (off j) = tl_from (skipn j (ft f)).
Proof.
  induction fuel as [|k IH]; intros f j Hlen.
  - rewrite skipn_all2 by lia. reflexivity.
  - cbn [tails]. rewrite blk_at_off. destruct (nth_error (ft f) j) as [b|] eqn:E.
    + rewrite (skipn_nth _ _ _ _ E). cbn [tl_from]. rewrite off_S.
      assert (Hj : (j < length (ft f))%nat) by (apply nth_error_Some; congruence).
      rewrite IH by lia. reflexivity.
    + rewrite (skipn_none _ _ _ E). reflexivity.
Qed.

Theorem b_read_off : forall f i,
  b_read f (off i) =
  match nth_error (ft f) i with Some b => Some (b, tl_from (skipn i (ft f))) | None => None end.
Proof.
  intros f i. unfold b_read. rewrite blk_at_off.
  destruct (nth_error (ft f) i) as [b|] eqn:E; [|reflexivity].
  rewrite (skipn_nth _ _ _ _ E). cbn [tl_from]. rewrite off_S, tails_tl by lia. reflexivity.
Qed.

(* ====================================================================== *)
(* K3 — traversals are total                                                *)
(* ====================================================================== *)
Theorem b_windup_total : forall f, no_dangling f -> ptr_ordered f ->
  forall fuel i, (i < fuel)%nat -> (i < length (ft f))%nat -> b_windup fuel f (off i) <> None.
Proof.
  intros f Hnd Hord. induction fuel as [|k IH]; intros i Hf Hi; [lia|].
  cbn [b_windup]. rewrite b_read_off.
  destruct (nth_error (ft f) i) as [b|] eqn:E; [|apply nth_error_None in E; lia].
  destruct (b_parent b =? 0) eqn:Ep; [discriminate|]. apply N.eqb_neq in Ep.
  destruct (proj1 Hnd b (nth_error_In _ _ E)) as (_ & _ & _ & Hp & _).
  destruct (tptr_blk _ _ Hp Ep) as (j & Hj & Ej).
  destruct (Hord i b E) as (_ & _ & _ & Hlt). rewrite Ej in *. apply off_lt in Hlt.
  specialize (IH j ltac:(lia) Hj).
  destruct (b_windup k f (off j)); [discriminate|congruence].
Qed.

Corollary b_windup_lru_total : forall f i, no_dangling f -> ptr_ordered f ->
  (i < length (ft f))%nat -> b_windup_lru f (off i) <> None.
Proof. intros f i Hnd Ho Hi. unfold b_windup_lru. apply b_windup_total; auto; lia. Qed.

(* lru_node with the reasons for a negative answer made explicit *)
Inductive fres := FFound (a : N) | FAbsent | FErr | FFuel.

Fixpoint b_find' (fuel : nat) (f : files) (stems : list bytes) (a : N) : fres :=
  match fuel with
  | O => FFuel
  | S k =>
      match stems with
      | [] => FAbsent
      | s :: rest =>
          match b_read f a with
          | None => FErr
          | Some (b, st) =>
              match lex s st with
              | Eq => match rest with
                      | [] => FFound a
                      | _ => if b_child b =? 0 then FAbsent else b_find' k f rest (b_child b)
                      end
              | Lt => if b_left b =? 0 then FAbsent else b_find' k f stems (b_left b)
              | Gt => if b_right b =? 0 then FAbsent else b_find' k f stems (b_right b)
              end
          end
      end
  end.

Definition fres_opt (r : fres) : option N := match r with FFound a => Some a | _ => None end.

(* b_find is b_find' with the three negative answers merged *)
Theorem b_find_find' : forall fuel f stems a, b_find fuel f stems a = fres_opt (b_find' fuel f stems a).
Proof.
  induction fuel as [|k IH]; intros f stems a; [reflexivity|].
  cbn [b_find b_find']. destruct stems as [|s rest]; [reflexivity|].
  destruct (b_read f a) as [[b st]|]; [|reflexivity].
  destruct (lex s st).
  - destruct rest as [|s2 rest2]; [reflexivity|].
    destruct (b_child b =? 0); [reflexivity|apply IH].
  - destruct (b_left b =? 0); [reflexivity|apply IH].
  - destruct (b_right b =? 0); [reflexivity|apply IH].
Qed.

Definition answered (r : fres) : Prop := match r with FFound _ | FAbsent => True | _ => False end.

Theorem b_find'_total : forall f, no_dangling f -> ptr_ordered f ->
  forall fuel stems i, (i < length (ft f))%nat -> (length (ft f) - i <= fuel)%nat ->
  answered (b_find' fuel f stems (off i)).
Proof.
  intros f Hnd Hord. induction fuel as [|k IH]; intros stems i Hi Hf; [lia|].
  cbn [b_find']. destruct stems as [|s rest]; [exact I|].
  rewrite b_read_off.
  destruct (nth_error (ft f) i) as [b|] eqn:E; [|apply nth_error_None in E; lia].
  destruct (proj1 Hnd b (nth_error_In _ _ E)) as (Hl & Hr & Hc & _).
  destruct (Hord i b E) as (Ol & Or & Oc & _).
  assert (Hstep : forall x, tptr_ok (length (ft f)) x -> pfw (off i) x -> forall st, (x =? 0) = false ->
                    answered (b_find' k f st x)).
  { intros x Hx Ox st Enz. apply N.eqb_neq in Enz.
    destruct (tptr_blk _ _ Hx Enz) as (j & Hj & ->).
    destruct Ox as [E0|Hlt]; [exfalso; exact (off_nz _ E0)|]. apply off_lt in Hlt.
    apply IH; [exact Hj|lia]. }
  destruct (lex s (tl_from (skipn i (ft f)))).
  - destruct rest as [|s2 rest2]; [exact I|].
    destruct (b_child b =? 0) eqn:Ez; [exact I|]. apply Hstep; assumption.
  - destruct (b_left b =? 0) eqn:Ez; [exact I|]. apply Hstep; assumption.
  - destruct (b_right b =? 0) eqn:Ez; [exact I|]. apply Hstep; assumption.
Qed.

(* the lookup from the first data block *)
Corollary b_lru_node_total : forall f lru, no_dangling f -> ptr_ordered f -> ft f <> [] ->
  answered (b_find' (S (length (ft f))) f (lru_iter lru) bsz).
Proof.
  intros f lru Hnd Ho Hne.
  assert (E : bsz = off 0) by (unfold off; rewrite bsz_val; reflexivity).
  rewrite E. apply b_find'_total; auto; [|lia].
  destruct (ft f); [congruence|cbn [length]; lia].
Qed.

(* ====================================================================== *)
(* K4 — a cut reports only pages of the completed files                     *)
(* ====================================================================== *)
Lemma tl_from_below : forall l1 l2,
  (forall i b, nth_error l1 i = Some b ->
     exists c, nth_error l2 i = Some c /\ b_stem b = b_stem c /\ blk_has_tail b = blk_has_tail c) ->
  complete l1 = true -> tl_from l1 = tl_from l2.
Proof.
  induction l1 as [|b l1 IH]; intros l2 H Hc; [discriminate Hc|].
  destruct (H 0%nat b eq_refl) as (c & Ec & Es & Eh).
  destruct l2 as [|c' l2]; [discriminate Ec|]. cbn [nth_error] in Ec. injection Ec as ->.
  cbn [tl_from complete] in *. rewrite <- Es, <- Eh.
  destruct (blk_has_tail b); [|reflexivity]. f_equal.
  apply IH; [|exact Hc]. intros i x Ex. exact (H (S i) x Ex).
Qed.

Lemma complete_before_main : forall f i bi, tails_follow f ->
  nth_error (ft f) i = Some bi -> blk_is_tail bi = false ->
  forall j, (j < i)%nat -> complete (skipn j (ft f)) = true.
Proof.
  intros f i bi Ht Ei Hm.
  assert (Hgen : forall n j, (i - j = n)%nat -> (j < i)%nat -> complete (skipn j (ft f)) = true).
  { induction n as [|n IH]; intros j En Hj; [lia|].
    assert (Hi : (i < length (ft f))%nat) by (apply nth_error_Some; congruence).
    destruct (nth_error (ft f) j) as [b|] eqn:Eb; [|apply nth_error_None in Eb; lia].
    rewrite (skipn_nth _ _ _ _ Eb). cbn [complete].
    destruct (blk_has_tail b) eqn:Eh; [|reflexivity].
    destruct (Nat.eq_dec (S j) i) as [E|Hne].
    - subst i. pose proof (proj2 (Ht j b Eb) Eh bi Ei). congruence.
    - apply IH; lia. }
  intros j Hj. apply (Hgen (i - j)%nat j eq_refl Hj).
Qed.

Section Cut.
  Variables f g : files.
  Hypothesis Hfg : files_below f g.
  Hypothesis Hndf : no_dangling f.
  Hypothesis Hog : ordered g.

  Let Hof : ordered f := ordered_below f g Hfg Hog.

  Lemma stem_cut_eq : forall j, complete (skipn j (ft f)) = true ->
    tl_from (skipn j (ft f)) = tl_from (skipn j (ft g)).
  Proof.
    intros j Hc. apply tl_from_below; [|exact Hc].
    intros k b Eb. rewrite nth_skipn in Eb.
    destruct (below_nth _ _ _ _ Hfg Eb) as (c & Ec & Hbc).
    exists c. rewrite nth_skipn. split; [exact Ec|].
    destruct Hbc as (Es & _ & _ & Eh & _). split; [exact Es|exact Eh].
  Qed.

  (* windup from any block at or before a main block whose own chain is complete *)
  Lemma windup_cut_eq : forall i0 b0, nth_error (ft f) i0 = Some b0 -> blk_is_tail b0 = false ->
    complete (skipn i0 (ft f)) = true ->
    forall fuel fuel' j, (j <= i0)%nat -> (j < fuel)%nat -> (j < fuel')%nat ->
      b_windup fuel f (off j) = b_windup fuel' g (off j).
  Proof.
    intros i0 b0 E0 Hm Hc0.
    assert (Hi0 : (i0 < length (ft f))%nat) by (apply nth_error_Some; congruence).
    induction fuel as [|k IH]; intros fuel' j Hj Hf Hf'; [lia|].
    destruct fuel' as [|k']; [lia|].
    cbn [b_windup]. rewrite !b_read_off.
    destruct (nth_error (ft f) j) as [b|] eqn:Eb; [|apply nth_error_None in Eb; lia].
    destruct (below_nth _ _ _ _ Hfg Eb) as (c & Ec & Hbc). rewrite Ec.
    assert (Hcj : complete (skipn j (ft f)) = true).
    { destruct (Nat.eq_dec j i0) as [->|Hne]; [exact Hc0|].
      apply (complete_before_main f i0 b0 (proj2 Hof) E0 Hm). lia. }
    rewrite <- (stem_cut_eq j Hcj).
    destruct Hbc as (_ & _ & _ & _ & _ & _ & _ & _ & Epar & _). rewrite <- Epar.
    destruct (b_parent b =? 0) eqn:Ep; [reflexivity|]. apply N.eqb_neq in Ep.
    destruct (proj1 Hndf b (nth_error_In _ _ Eb)) as (_ & _ & _ & Hp & _).
    destruct (tptr_blk _ _ Hp Ep) as (j2 & Hj2 & Ej2).
    destruct (proj1 Hof j b Eb) as (_ & _ & _ & Hlt). rewrite Ej2 in *. apply off_lt in Hlt.
    rewrite (IH k' j2) by lia. reflexivity.
  Qed.

  Theorem windup_lru_cut_eq : forall i b, nth_error (ft f) i = Some b -> blk_is_tail b = false ->
    complete (skipn i (ft f)) = true ->
    b_windup_lru f (off i) = b_windup_lru g (off i) /\ b_windup_lru f (off i) <> None.
  Proof.
    intros i b E Hm Hc.
    assert (Hi : (i < length (ft f))%nat) by (apply nth_error_Some; congruence).
    pose proof (proj1 Hfg) as Hlen. split.
    - unfold b_windup_lru. apply (windup_cut_eq i b E Hm Hc); lia.
    - apply b_windup_lru_total; [exact Hndf|exact (proj1 Hof)|exact Hi].
  Qed.

  (* page / crawled bits are only ever missing in the cut *)
  Theorem is_page_cut : forall i, b_is_page f (off i) = true -> b_is_page g (off i) = true.
  Proof.
    intros i. unfold b_is_page. rewrite !blk_at_off.
    destruct (nth_error (ft f) i) as [b|] eqn:Eb; [|discriminate].
    destruct (below_nth _ _ _ _ Hfg Eb) as (c & Ec & Hbc). rewrite Ec.
    destruct Hbc as (_ & Hp & _). exact Hp.
  Qed.
End Cut.

(* ---- the page scan -------------------------------------------------------------- *)
(* main blocks carrying the page bit: (windup_lru of the block, crawled bit) *)
Definition is_page_block (p : nat * tblock) : bool := negb (blk_is_tail (snd p)) && blk_page (snd p).
Definition indexed (f : files) : list (nat * tblock) := combine (seq 0 (length (ft f))) (ft f).
Definition scan_pages (f : files) : list (option bytes * bool) :=
  map (fun p => (b_windup_lru f (off (fst p)), blk_crawled (snd p))) (filter is_page_block (indexed f)).

Lemma combine_seq_In : forall (A : Type) (l : list A) a i (b : A),
  In (i, b) (combine (seq a (length l)) l) <-> (a <= i)%nat /\ nth_error l (i - a) = Some b.
Proof.
  intros A l. induction l as [|x l IH]; intros a i b; cbn [length seq combine].
  - split; [intros []|]. intros [_ E]. destruct (i - a)%nat; discriminate E.
  - cbn [In]. rewrite IH. split.
    + intros [E|[Hle E]].
      * injection E as <- <-. split; [lia|]. rewrite Nat.sub_diag. reflexivity.
      * split; [lia|]. replace (i - a)%nat with (S (i - S a)) by lia. exact E.
    + intros [Hle E]. destruct (Nat.eq_dec i a) as [->|Hne].
      * rewrite Nat.sub_diag in E. injection E as ->. left. reflexivity.
      * right. split; [lia|]. replace (i - a)%nat with (S (i - S a)) in E by lia. exact E.
Qed.

Lemma indexed_In : forall f i b, In (i, b) (indexed f) <-> nth_error (ft f) i = Some b.
Proof.
  intros f i b. unfold indexed. rewrite combine_seq_In, Nat.sub_0_r. split; [tauto|]. split; [lia|assumption].
Qed.

Theorem scan_pages_In : forall f x cr,
  In (x, cr) (scan_pages f) <->
  exists i b, nth_error (ft f) i = Some b /\ blk_is_tail b = false /\ blk_page b = true /\
              x = b_windup_lru f (off i) /\ cr = blk_crawled b.
Proof.
  intros f x cr. unfold scan_pages. rewrite in_map_iff. split.
  - intros ([i b] & E & Hin). cbn [fst snd] in E. injection E as <- <-.
    apply filter_In in Hin. destruct Hin as [Hin Hp]. apply indexed_In in Hin.
    unfold is_page_block in Hp. cbn [snd] in Hp. apply andb_true_iff in Hp. destruct Hp as [Hm Hp].
    apply negb_true_iff in Hm. exists i, b. repeat split; assumption.
  - intros (i & b & E & Hm & Hp & -> & ->). exists (i, b). split; [reflexivity|].
    apply filter_In. split; [apply indexed_In; exact E|].
    unfold is_page_block. cbn [snd]. rewrite Hm, Hp. reflexivity.
Qed.

(* every main block carrying the page bit has all its tail blocks in the file *)
Definition pclosed (f : files) : Prop :=
  forall i b, nth_error (ft f) i = Some b -> blk_is_tail b = false -> blk_page b = true ->
    complete (skipn i (ft f)) = true.

Theorem scan_pages_subset : forall f g, files_below f g -> no_dangling f -> ordered g -> pclosed f ->
  forall x cr, In (x, cr) (scan_pages f) ->
    x <> None /\ exists cr', In (x, cr') (scan_pages g) /\ (cr = true -> cr' = true).
Proof.
  intros f g Hfg Hnd Hog Hpc x cr Hin.
  apply scan_pages_In in Hin. destruct Hin as (i & b & Eb & Hm & Hp & -> & ->).
  destruct (windup_lru_cut_eq f g Hfg Hnd Hog i b Eb Hm (Hpc i b Eb Hm Hp)) as [Ew Hsome].
  split; [exact Hsome|].
  destruct (below_nth _ _ _ _ Hfg Eb) as (c & Ec & Hbc).
  destruct Hbc as (_ & Bp & Bc & _ & Eit & _).
  exists (blk_crawled c). split; [|exact Bc].
  apply scan_pages_In. exists i, c. split; [exact Ec|].
  split; [unfold blk_is_tail in *; rewrite <- Eit; exact Hm|].
  split; [exact (Bp Hp)|]. split; [exact Ew|reflexivity].
Qed.

(* ====================================================================== *)
(* K5 — links                                                               *)
(* ====================================================================== *)
Definition sa (j : nat) : N := ssz * N.of_nat (S j).

Lemma sa_idx : forall j, N.to_nat (sa j / ssz - 1) = j.
Proof.
  intro j. unfold sa. rewrite N.mul_comm, N.div_mul by discriminate. lia.
Qed.

Lemma sa_nz : forall j, (sa j =? 0) = false.
Proof. intro j. apply N.eqb_neq. unfold sa. change ssz with 16. lia. Qed.

(* the chain read from a stub of st is the same in every extension of st, for any
   sufficient fuel *)
Lemma chain_cut : forall st more,
  (forall j tg pv, nth_error st j = Some (tg, pv) -> lptr_ok j pv) ->
  forall fuel fuel' j, (j < length st)%nat -> (j < fuel)%nat -> (j < fuel')%nat ->
    chain fuel st (sa j) = chain fuel' (st ++ more) (sa j).
Proof.
  intros st more Hst. induction fuel as [|k IH]; intros fuel' j Hj Hf Hf'; [lia|].
  destruct fuel' as [|k']; [lia|]. cbn [chain]. rewrite sa_nz, sa_idx.
  rewrite nth_error_app1 by exact Hj.
  destruct (nth_error st j) as [[tg pv]|] eqn:E; [|reflexivity]. f_equal.
  destruct (Hst j tg pv E) as [->|(j2 & Hj2 & ->)].
  - destruct k, k'; reflexivity.
  - apply (IH k' j2); lia.
Qed.

Lemma chain_In : forall fuel st h t, In t (chain fuel st h) -> exists j pv, nth_error st j = Some (t, pv).
Proof.
  induction fuel as [|k IH]; intros st h t Hin; [destruct Hin|].
  cbn [chain] in Hin. destruct (h =? 0); [destruct Hin|].
  destruct (nth_error st (N.to_nat (h / ssz - 1))) as [[tg pv]|] eqn:E; [|destruct Hin].
  destruct Hin as [<-|Hin]; [eauto|]. apply (IH _ _ _ Hin).
Qed.

Section CutLinks.
  Variables f g : files.
  Hypothesis Hfg : files_below f g.
  Hypothesis Hndf : no_dangling f.

  (* from a head that is valid in the cut, the cut and the completed files give the same list *)
  Theorem targets_cut_eq : forall h, lptr_ok (length (fl f)) h ->
    targets_of (fl f) h = targets_of (fl g) h.
  Proof.
    intros h Hh. destruct Hfg as (_ & _ & (more & Eg)). rewrite Eg. unfold targets_of.
    destruct Hh as [->|(j & Hj & ->)]; [reflexivity|].
    apply (chain_cut (fl f) more); [|exact Hj|lia|rewrite app_length; lia].
    intros j0 tg pv E. exact (proj2 (proj2 Hndf j0 tg pv E)).
  Qed.

  (* the heads stored in the blocks of the cut are such heads *)
  Corollary block_links_cut : forall b, In b (ft f) ->
    targets_of (fl f) (b_out b) = targets_of (fl g) (b_out b) /\
    targets_of (fl f) (b_in b) = targets_of (fl g) (b_in b).
  Proof.
    intros b Hin. destruct (proj1 Hndf b Hin) as (_ & _ & _ & _ & Ho & Hi).
    split; apply targets_cut_eq; assumption.
  Qed.

  (* every target read in the cut is the target of a stub of the completed files, at
     the same position and with the same content, and is a stored block of the cut *)
  Theorem targets_cut_subset : forall h t, In t (targets_of (fl f) h) ->
    blk_at f t <> None /\
    exists j pv, nth_error (fl f) j = Some (t, pv) /\ nth_error (fl g) j = Some (t, pv).
  Proof.
    intros h t Hin. destruct (chain_In _ _ _ _ Hin) as (j & pv & E). split.
    - apply (K1_stubs f j t pv Hndf E).
    - exists j, pv. split; [exact E|]. destruct Hfg as (_ & _ & (more & ->)).
      rewrite nth_error_app1; [exact E|]. apply nth_error_Some. congruence.
  Qed.
End CutLinks.

Print Assumptions K1_tree_pointers.
Print Assumptions K1_stubs.
Print Assumptions ordered_below.
Print Assumptions b_windup_total.
Print Assumptions b_find'_total.
Print Assumptions scan_pages_subset.
Print Assumptions targets_cut_eq.
Print Assumptions targets_cut_subset.
