(* QueryAlone1.v — the PAGE query coroutine of Sched.v (pagesq_step: get_webentity_pages_iter, every node read
   LAZILY by block address with an explicit traversal stack) advanced alone until it is done is the sequential
   request Traph.webentity_pages (over_prefixes / wdfs_at, structural walk): same refusal, same pages IN THE SAME ORDER.

   The state never changes when the query runs alone, so the invariant is read in one fixed tree T = tr s:
   every stack entry names, by block address, a sibling tree of T together with the LRU of the level above
   (evalid); what the traversal still has to yield (W: the lists wp of the entries, in stack order) loses its head
   when a page is yielded and is unchanged otherwise; [expected] = pages yielded so far ++ W ++ pages of the prefixes
   not started yet (or the refusal, if one of those is absent) is constant along the run.
   Termination: lexicographic (prefixes left, nodes under the stack entries).  The fuel of co_step may run out
   between two yields: the turn then stops in an intermediate state and the next turn goes on (step_spec covers it). *)
From Coq Require Import List NArith Bool Lia Arith.
Import ListNotations.
From Traph Require Import Bytes Consts Helpers Rules Tst TstDefs Traph Spec Ops RefDefs TstFacts
  ViewFacts LinkFacts2 LinkFacts3 RefFull Sched RuleRunFacts1 RuleRunFacts.
Open Scope N_scope.

Notation ent := (N * bytes * N)%type.
Notation pgl := (list (bytes * bool)).

(* ====================================================================== *)
(* what a traversal started at a sibling tree will yield                  *)
(* ====================================================================== *)

Definition pagesof (l : list (bytes * nd)) : pgl :=
  map (fun x => (fst x, crawled (snd x))) (filter (fun x => page (snd x)) l).

Lemma pagesof_app : forall a b, pagesof (a ++ b) = pagesof a ++ pagesof b.
Proof. intros. unfold pagesof. rewrite filter_app, map_app. reflexivity. Qed.

Lemma pagesof_cons : forall c d l, pagesof ((c, d) :: l) = (if page d then [(c, crawled d)] else []) ++ pagesof l.
Proof. intros. unfold pagesof. cbn [filter snd]. destruct (page d); reflexivity. Qed.

(* as the coroutine does it: the node whose block is [start] is relevant whatever its webentity and its siblings
   are not followed; below a node of another webentity nothing is followed *)
Fixpoint wp (start : N) (pre : bytes) (t : tst) : pgl :=
  match t with
  | Lf => []
  | Nd d l c r =>
      let cur := pre ++ stem d in
      let rel := (addr d =? start) || (we d =? 0) in
      (if rel && page d then [(cur, crawled d)] else [])
        ++ (if rel then wp start cur c else [])
        ++ (if addr d =? start then [] else wp start pre l ++ wp start pre r)
  end.

Lemma wp_wdfs : forall start t pre lv, ~ In start (addrs t) -> wp start pre t = pagesof (wdfs None lv pre t).
Proof.
  intros start t. induction t as [|d l IHl c IHc r IHr]; intros pre lv Hn; [reflexivity|].
  cbn [addrs] in Hn.
  assert (E : addr d =? start = false) by (apply N.eqb_neq; intro E; apply Hn; left; exact E).
  assert (Nc : ~ In start (addrs c)) by (intro H; apply Hn; right; apply in_or_app; left; exact H).
  assert (Nl : ~ In start (addrs l))
    by (intro H; apply Hn; right; apply in_or_app; right; apply in_or_app; left; exact H).
  assert (Nr : ~ In start (addrs r))
    by (intro H; apply Hn; right; apply in_or_app; right; apply in_or_app; right; exact H).
  cbn [wp wdfs depth_ok]. rewrite E. cbn [orb].
  rewrite !pagesof_app, <- (IHl pre lv Nl), <- (IHr pre lv Nr).
  destruct (we d =? 0); cbn [andb].
  - rewrite pagesof_cons, <- (IHc (pre ++ stem d) (lv + 1) Nc), <- !app_assoc. reflexivity.
  - reflexivity.
Qed.

(* the starting node: wdfs_at *)
Lemma wp_anchor : forall d l c r pre, NoDup (addrs (Nd d l c r)) ->
  wp (addr d) pre (Nd d l c r) = pagesof (wdfs_at None pre (Nd d l c r)).
Proof.
  intros d l c r pre Hnd. cbn [wp wdfs_at depth_ok]. rewrite N.eqb_refl. cbn [orb andb].
  cbn [addrs] in Hnd. inversion Hnd as [|? ? Hn Hnd']; subst.
  rewrite pagesof_cons, app_nil_r.
  rewrite (wp_wdfs (addr d) c (pre ++ stem d) 1) by (intro H; apply Hn; apply in_or_app; left; exact H).
  reflexivity.
Qed.

(* ====================================================================== *)
(* stack entries read in the tree                                         *)
(* ====================================================================== *)

Definition e_a (e : ent) : N := fst (fst e).
Definition e_pre (e : ent) : bytes := snd (fst e).

Definition evalid (T : tst) (e : ent) : Prop :=
  exists q t, sub_at [] (e_a e) T = Some (q, t) /\ concat q = e_pre e.
Definition contrib (T : tst) (start : N) (e : ent) : pgl :=
  match sub_at [] (e_a e) T with Some (_, t) => wp start (e_pre e) t | None => [] end.
Definition esize (T : tst) (e : ent) : nat :=
  match sub_at [] (e_a e) T with Some (_, t) => size t | None => O end.
Definition W (T : tst) (start : N) (st : list ent) : pgl := flat_map (contrib T start) st.
Definition SZ (T : tst) (st : list ent) : nat := list_sum (map (esize T) st).

Lemma W_app : forall T start a b, W T start (a ++ b) = W T start a ++ W T start b.
Proof. intros. unfold W. apply flat_map_app. Qed.
Lemma SZ_app : forall T a b, SZ T (a ++ b) = (SZ T a + SZ T b)%nat.
Proof. intros. unfold SZ. rewrite map_app. apply list_sum_app. Qed.

Lemma kid_entry : forall T start x q pre lv, (forall a, In a (addrs T) -> a <> 0) ->
  (x = Lf \/ sub_at [] (root_addr x) T = Some (q, x)) -> concat q = pre ->
  Forall (evalid T) (nz3 (root_addr x) pre lv) /\ W T start (nz3 (root_addr x) pre lv) = wp start pre x /\
  SZ T (nz3 (root_addr x) pre lv) = size x.
Proof.
  intros T start x q pre lv Hnz [->|H] Hq.
  - cbn. split; [constructor|]. split; reflexivity.
  - destruct (sub_at_root _ _ _ _ _ H) as (d & l & c & r & Ex & Ea & Hin).
    unfold nz3. destruct (root_addr x =? 0) eqn:E; [apply N.eqb_eq in E; exfalso; apply (Hnz _ Hin); congruence|].
    split; [|split].
    + constructor; [|constructor]. exists q, x. cbn [e_a e_pre fst snd]. auto.
    + unfold W, contrib. cbn [flat_map e_a e_pre fst snd]. rewrite H, app_nil_r. reflexivity.
    + unfold SZ, esize. cbn [map list_sum e_a fst]. rewrite H. cbn [list_sum fold_right]. lia.
Qed.

(* one node popped: what it yields and what it pushes *)
Lemma node_entry : forall s, good s -> forall start a (pre : bytes) lv (rest : list ent) qq d l c r,
  sub_at [] a (tr s) = Some (qq, Nd d l c r) -> concat qq = pre ->
  let cur := pre ++ stem d in
  let rel := (a =? start) || (we d =? 0) in
  let pushes := (if rel then nz3 (root_addr c) cur (lv + 1) else [])
                  ++ (if a =? start then [] else nz3 (root_addr l) pre lv ++ nz3 (root_addr r) pre lv) in
  Forall (evalid (tr s)) pushes /\
  W (tr s) start ((a, pre, lv) :: rest) =
    (if rel && page d then [(cur, crawled d)] else []) ++ W (tr s) start (pushes ++ rest) /\
  (SZ (tr s) (pushes ++ rest) < SZ (tr s) ((a, pre, lv) :: rest))%nat.
Proof.
  intros s Hg start a pre lv rest qq d l c r Hs Hq cur rel pushes.
  pose proof (good_nodup s Hg) as Hnd.
  assert (Hnz : forall b, In b (addrs (tr s)) -> b <> 0) by (intros b Hb; apply (good_nz s b Hg Hb)).
  destruct (sub_at_root _ _ _ _ _ Hs) as (d' & l' & c' & r' & Ex & Ea & Hin). injection Ex as <- <- <- <-.
  destruct (sub_at_kids _ _ _ _ _ _ _ _ Hnd Hs) as (Kc & Kl & Kr).
  assert (Ecur : concat (qq ++ [stem d]) = cur) by (rewrite concat_snoc, Hq; reflexivity).
  destruct (kid_entry (tr s) start c _ cur (lv + 1) Hnz Kc Ecur) as (Vc & Wc & Sc).
  destruct (kid_entry (tr s) start l _ pre lv Hnz Kl Hq) as (Vl & Wl & Sl).
  destruct (kid_entry (tr s) start r _ pre lv Hnz Kr Hq) as (Vr & Wr & Sr).
  assert (Vp : Forall (evalid (tr s)) pushes).
  { unfold pushes. apply Forall_app. split; [destruct rel; [exact Vc|constructor]|].
    destruct (a =? start); [constructor|]. apply Forall_app. split; assumption. }
  assert (Wp : W (tr s) start pushes =
               (if rel then wp start cur c else []) ++ (if a =? start then [] else wp start pre l ++ wp start pre r)).
  { unfold pushes. rewrite W_app. f_equal.
    - destruct rel; [exact Wc|reflexivity].
    - destruct (a =? start); [reflexivity|]. rewrite W_app, Wl, Wr. reflexivity. }
  assert (Sp : (SZ (tr s) pushes <= size c + size l + size r)%nat).
  { unfold pushes. rewrite SZ_app.
    assert (X1 : (SZ (tr s) (if rel then nz3 (root_addr c) cur (lv + 1) else []) <= size c)%nat)
      by (destruct rel; [rewrite Sc; lia|cbn; lia]).
    assert (X2 : (SZ (tr s) (if (a =? start)%N then [] else nz3 (root_addr l) pre lv ++ nz3 (root_addr r) pre lv)
                  <= size l + size r)%nat)
      by (destruct (a =? start); [cbn; lia|rewrite SZ_app, Sl, Sr; lia]).
    lia. }
  split; [exact Vp|]. split.
  - rewrite W_app, Wp. unfold W at 1. cbn [flat_map]. unfold contrib at 1. cbn [e_a e_pre fst snd]. rewrite Hs.
    cbn [wp]. rewrite Ea. fold cur. fold rel. fold (W (tr s) start rest). rewrite <- !app_assoc. reflexivity.
  - rewrite SZ_app. unfold SZ at 3. cbn [map list_sum]. unfold esize at 1. cbn [e_a fst]. rewrite Hs.
    cbn [size list_sum fold_right]. change (fold_right Nat.add 0%nat (map (esize (tr s)) rest)) with (SZ (tr s) rest). lia.
Qed.

(* ====================================================================== *)
(* the sequential request, prefix by prefix                               *)
(* ====================================================================== *)

Definition rest_of (ps : list bytes) (T : tst) : res pgl :=
  over_prefixes (fun p sub => pagesof (wdfs_at None (lru_dirname p) sub)) ps T.

Lemma webentity_pages_rest : forall ps s, webentity_pages ps s = rest_of ps (tr s).
Proof.
  intros ps s. unfold webentity_pages, we_page_nodes, rest_of.
  induction ps as [|p ps IH]; [reflexivity|].
  cbn [over_prefixes]. destruct (find_sub (lru_iter p) (tr s)) as [sub|]; [|reflexivity].
  rewrite <- IH.
  destruct (over_prefixes _ ps (tr s)) as [| |r]; [reflexivity|reflexivity|].
  rewrite map_app. reflexivity.
Qed.

Lemma rest_of_nocrash : forall ps T, rest_of ps T <> RCrash.
Proof.
  intros ps T. unfold rest_of. induction ps as [|p ps IH]; [discriminate|].
  cbn [over_prefixes]. destruct (find_sub (lru_iter p) T); [|discriminate].
  destruct (over_prefixes _ ps T); [discriminate|exact IH|discriminate].
Qed.

Lemma occ_not_Lf : forall pp T q x, occ pp T q x -> x <> Lf.
Proof. intros pp T q x H. induction H; [discriminate|assumption|assumption|assumption]. Qed.

(* ====================================================================== *)
(* one turn of the coroutine                                              *)
(* ====================================================================== *)

Definition stk (q : qco) : list ent := q_pend q ++ q_stack q.

Definition expected (T : tst) (q : qco) : res pgl :=
  match rest_of (q_prefixes q) T with
  | ROk r => ROk (q_acc q ++ W T (q_start q) (stk q) ++ r)
  | e => e
  end.

Lemma expected_mk : forall T ps st stack pend acc dn rf,
  expected T (mkQ ps st stack pend acc dn rf) =
  match rest_of ps T with ROk r => ROk (acc ++ W T st (pend ++ stack) ++ r) | e => e end.
Proof. reflexivity. Qed.

Definition fin (q : qco) (r : res pgl) : Prop :=
  q_done q = true /\
  match r with
  | ROk l => q_refused q = false /\ q_acc q = l
  | RRefused => q_refused q = true
  | RCrash => False
  end.

Definition mlt (T : tst) (q' q : qco) : Prop :=
  (length (q_prefixes q') < length (q_prefixes q))%nat \/
  (length (q_prefixes q') = length (q_prefixes q) /\ (SZ T (stk q') < SZ T (stk q))%nat).

Definition prog (T : tst) (q q' : qco) : Prop :=
  q_done q' = false /\ Forall (evalid T) (stk q') /\ expected T q' = expected T q /\ mlt T q' q.

Lemma chain : forall T q q1 q', prog T q q1 ->
  q' = q1 \/ fin q' (expected T q1) \/ prog T q1 q' ->
  fin q' (expected T q) \/ prog T q q'.
Proof.
  intros T q q1 q' (Hd & Hv & He & Hm) [->|[Hf|(Hd' & Hv' & He' & Hm')]].
  - right. repeat split; assumption.
  - left. rewrite <- He. exact Hf.
  - right. split; [exact Hd'|]. split; [exact Hv'|]. split; [congruence|].
    unfold mlt in *. lia.
Qed.

Lemma step_spec : forall s, good s -> forall fuel q, Forall (evalid (tr s)) (stk q) ->
  (fuel = 0%nat /\ pagesq_step fuel q s = q) \/
  fin (pagesq_step fuel q s) (expected (tr s) q) \/ prog (tr s) q (pagesq_step fuel q s).
Proof.
  intros s Hg. pose proof (good_nodup s Hg) as Hnd.
  induction fuel as [|f IH]; intros q Hall; [left; split; reflexivity|].
  right. cbn [pagesq_step]. change (q_pend q ++ q_stack q) with (stk q).
  assert (IH' : forall q1, Forall (evalid (tr s)) (stk q1) ->
            pagesq_step f q1 s = q1 \/ fin (pagesq_step f q1 s) (expected (tr s) q1) \/ prog (tr s) q1 (pagesq_step f q1 s)).
  { intros q1 H1. destruct (IH q1 H1) as [(_ & E)|[H|H]]; auto. }
  destruct (stk q) as [|[[a pre] lv] rest] eqn:Est.
  - destruct (q_prefixes q) as [|p ps] eqn:Eps.
    + left. split; [reflexivity|]. unfold expected. rewrite Eps, Est. cbn [rest_of over_prefixes q_refused q_acc W flat_map].
      rewrite !app_nil_r. split; reflexivity.
    + unfold find. destruct (find_sub (lru_iter p) (tr s)) as [sub|] eqn:Efs.
      * pose proof (find_sub_occ _ _ [] _ Efs) as Hocc. cbn [app] in Hocc.
        destruct sub as [|d0 l0 c0 r0]; [exfalso; apply (occ_not_Lf _ _ _ _ Hocc); reflexivity|].
        cbn [node_of].
        pose proof (occ_sub_at _ _ _ _ Hocc Hnd) as Hsub. cbn [root_addr] in Hsub.
        set (q1 := mkQ ps (addr d0) [(addr d0, lru_dirname p, 0)] [] (q_acc q) false false).
        apply (chain (tr s) q q1); [|apply IH'].
        -- split; [reflexivity|]. split; [|split].
           ++ unfold stk, q1. cbn [q_pend q_stack app]. constructor; [|constructor].
              exists (removelast (lru_iter p)), (Nd d0 l0 c0 r0). cbn [e_a e_pre fst snd]. split; [exact Hsub|reflexivity].
           ++ unfold q1. rewrite expected_mk. unfold expected. rewrite Eps, Est. cbn [app].
              unfold rest_of. cbn [over_prefixes]. rewrite Efs. fold (rest_of ps (tr s)).
              destruct (rest_of ps (tr s)) as [| |r]; [reflexivity|reflexivity|].
              unfold W. cbn [flat_map]. unfold contrib. cbn [e_a e_pre fst snd]. rewrite Hsub.
              rewrite (wp_anchor d0 l0 c0 r0 _ (occ_nodup _ _ _ _ Hocc Hnd)). rewrite app_nil_r. reflexivity.
           ++ left. rewrite Eps. unfold q1. cbn [q_prefixes length]. lia.
        -- unfold stk, q1. cbn [q_pend q_stack app]. constructor; [|constructor].
           exists (removelast (lru_iter p)), (Nd d0 l0 c0 r0). cbn [e_a e_pre fst snd]. split; [exact Hsub|reflexivity].
      * left. split; [reflexivity|]. unfold expected. rewrite Eps. unfold rest_of. cbn [over_prefixes]. rewrite Efs.
        reflexivity.
  - inversion Hall as [|? ? He Hrest]; subst.
    destruct He as (qq & t & Hs & Hq). cbn [e_a e_pre fst snd] in Hs, Hq.
    destruct (sub_at_root _ _ _ _ _ Hs) as (d & l & c & r & -> & Ea & Hin).
    rewrite (read_at_sub (tr s) [] a), Hs. cbn [rn_of rn_d rn_left rn_right rn_child].
    destruct (node_entry s Hg (q_start q) a pre lv rest qq d l c r Hs Hq) as (Vp & EW & HS).
    set (cur := pre ++ stem d) in *.
    set (rel := (a =? q_start q) || (we d =? 0)) in *.
    set (pushes := (if rel then nz3 (root_addr c) cur (lv + 1) else [])
                     ++ (if a =? q_start q then [] else nz3 (root_addr l) pre lv ++ nz3 (root_addr r) pre lv)) in *.
    assert (Vall : Forall (evalid (tr s)) (pushes ++ rest)) by (apply Forall_app; split; assumption).
    destruct (rel && page d) eqn:Ey.
    + right. split; [reflexivity|]. split; [exact Vall|]. split.
      * rewrite expected_mk. unfold expected. rewrite Est.
        destruct (rest_of (q_prefixes q) (tr s)) as [| |r0]; [reflexivity|reflexivity|].
        rewrite EW, <- !app_assoc. reflexivity.
      * right. split; [reflexivity|]. rewrite Est. exact HS.
    + set (q1 := mkQ (q_prefixes q) (q_start q) (pushes ++ rest) [] (q_acc q) false false).
      apply (chain (tr s) q q1); [|apply IH'; exact Vall].
      split; [reflexivity|]. split; [exact Vall|]. split.
      * unfold q1. rewrite expected_mk. unfold expected. rewrite Est. cbn [app].
        destruct (rest_of (q_prefixes q) (tr s)) as [| |r0]; [reflexivity|reflexivity|].
        rewrite EW. reflexivity.
      * right. split; [reflexivity|]. rewrite Est. exact HS.
Qed.

(* ====================================================================== *)
(* the run                                                                *)
(* ====================================================================== *)

Lemma co_step_pages : forall q s, q_done q = false ->
  exists fu, co_step (CPages q) s = (CPages (pagesq_step (S fu) q s), s).
Proof. intros q s H. unfold co_step. cbn [co_done]. rewrite H. eexists. reflexivity. Qed.

Lemma run_lex : forall s, good s -> forall n m q, q_done q = false ->
  Forall (evalid (tr s)) (stk q) -> length (q_prefixes q) = n -> SZ (tr s) (stk q) = m ->
  exists fuel q', run_alone fuel (CPages q) s = (CPages q', s) /\ fin q' (expected (tr s) q).
Proof.
  intros s Hg. induction n as [n IHn] using lt_wf_ind. induction m as [m IHm] using lt_wf_ind.
  intros q Hd Hall En Em.
  destruct (co_step_pages q s Hd) as (fu & Ecs).
  destruct (step_spec s Hg (S fu) q Hall) as [(E0 & _)|[Hf|(Hd' & Hv' & He' & [Hlt|(Heq & Hlt)])]]; [discriminate| | |].
  - exists 1%nat, (pagesq_step (S fu) q s). split; [|exact Hf].
    cbn [run_alone co_done]. rewrite Hd, Ecs. reflexivity.
  - destruct (IHn (length (q_prefixes (pagesq_step (S fu) q s))) ltac:(lia) _ _ Hd' Hv' eq_refl eq_refl)
      as (fuel & q' & Hr & Hfin).
    exists (S fuel), q'. split; [|rewrite <- He'; exact Hfin].
    cbn [run_alone co_done]. rewrite Hd, Ecs. exact Hr.
  - destruct (IHm (SZ (tr s) (stk (pagesq_step (S fu) q s))) ltac:(lia) _ Hd' Hv' ltac:(lia) eq_refl)
      as (fuel & q' & Hr & Hfin).
    exists (S fuel), q'. split; [|rewrite <- He'; exact Hfin].
    cbn [run_alone co_done]. rewrite Hd, Ecs. exact Hr.
Qed.

(* ====================================================================== *)
(* main theorems                                                          *)
(* ====================================================================== *)

(* state-level: any index whose tree is well formed with distinct, in-range block addresses *)
Theorem pages_query_alone_state : forall s ps, good s ->
  exists fuel q, run_alone fuel (CPages (pagesq_start ps)) s = (CPages q, s) /\ q_done q = true /\
    match webentity_pages ps s with
    | ROk l => q_refused q = false /\ q_acc q = l
    | RRefused => q_refused q = true
    | RCrash => False
    end.
Proof.
  intros s ps Hg.
  destruct (run_lex s Hg _ _ (pagesq_start ps) eq_refl (Forall_nil _) eq_refl eq_refl) as (fuel & q & Hr & Hd & Hf).
  exists fuel, q. split; [exact Hr|]. split; [exact Hd|].
  rewrite webentity_pages_rest. unfold expected in Hf. cbn [pagesq_start q_prefixes q_acc q_start] in Hf.
  destruct (rest_of ps (tr s)) as [| |r]; [exact Hf|exact Hf|].
  change (stk (pagesq_start ps)) with (@nil ent) in Hf. cbn [W flat_map app] in Hf. exact Hf.
Qed.

(* the coroutine run alone from any reachable state is the sequential request *)
Theorem pages_query_alone : forall d rs h, wf_rules rs -> Forall wf_op h ->
  let s := run d rs h in
  forall ps, Forall wf_lru ps ->
  exists fuel q, run_alone fuel (CPages (pagesq_start ps)) s = (CPages q, s) /\ q_done q = true /\
    match webentity_pages ps s with
    | ROk l => q_refused q = false /\ q_acc q = l
    | RRefused => q_refused q = true
    | RCrash => False
    end.
Proof.
  intros d rs h H1 H2 s ps _. apply pages_query_alone_state. apply run_good; assumption.
Qed.

Print Assumptions pages_query_alone_state.
Print Assumptions pages_query_alone.
