(* GenTrieWAdd2.v — LRUTrie.add_lru translated from the source, part 2 (plan at the top of GenTrieWAdd1.v):
     5. py_trie_add_lru re-stated in named pieces (equality by reflexivity)
     6. the second loop (creation of the missing chain of children) on abstract files: loop2c_spec
     7. the rest of an iteration of the first loop once a fresh node has been written: fresh_spec *)
From Coq Require Import List NArith Bool Lia Arith.
Import ListNotations.
From Traph Require Import Bytes Consts Layout Helpers Rules Tst TstDefs Traph Traphw TraceDefs Codec CodecFacts
  TstFacts Store StoreFacts GenStorage GenNode GenNodeFacts GenTrie GenTrieFacts GenTrieW GenTrieWDefs.
From Traph Require Import QueryCore2 TraceFacts TraceFacts2 TraceFacts3 LinkFacts GenTrieWAdd1.
From Traph Require GenHelpers2.
Open Scope N_scope.

Arguments N.shiftr : simpl never.
Arguments N.shiftl : simpl never.
Arguments N.modulo : simpl never.
Arguments N.div : simpl never.
Arguments N.land : simpl never.
Arguments N.lor : simpl never.
Arguments N.ldiff : simpl never.
Arguments N.mul : simpl never.
Arguments N.add : simpl never.
Arguments N.sub : simpl never.
Arguments N.ltb : simpl never.
Arguments N.eqb : simpl never.
Arguments N.pow : simpl never.

(* ====================================================================================== *)
(* 5. the generated definition in named pieces                                            *)
(* ====================================================================================== *)
Definition St1 : Type := (py_pm * py_hist * N * bytes * py_node)%type.
Definition R1 : Type := option (py_pm * (py_node * py_hist)).

(* i += 1; read the child if stems remain and there is one, else leave the loop *)
Definition after_clear (v_l : N) (k : St1 -> R1 + St1) (sg : py_pm) (v_node : py_node) (v_history : py_hist)
  (v_i : N) (v_lru : bytes) : R1 + St1 :=
 (let v_i := (N.add v_i 1%N) in
 (if ((N.ltb v_i v_l) && (py_node_has_child v_node))
 then (match py_node_read_child v_node sg with
 | None => (inl None)
 | Some (v_node, sg) => (k (sg, v_history, v_i, v_lru, v_node)) end)
 else (inr (sg, v_history, v_i, v_lru, v_node)))).

(* clear NO_CHILD_WEBENTITIES on a proper ancestor *)
Definition after_hist (v_l : N) (flag : bool) (k : St1 -> R1 + St1) (sg : py_pm) (v_node : py_node)
  (v_history : py_hist) (v_i : N) (v_lru : bytes) : R1 + St1 :=
 (let '(sg, v_node) := (if ((N.ltb v_i (N.sub v_l 1%N)) && flag && (negb (py_node_can_have_child_webentities v_node)))
 then (let v_node := py_node_flag_can_have_child_webentities v_node in
 (let '(v_node, sg) := py_node_write v_node sg in
 (sg, v_node)))
 else (sg, v_node)) in
 after_clear v_l k sg v_node v_history v_i v_lru).

(* the walk history *)
Definition after_ensure (v_l : N) (flag : bool) (k : St1 -> R1 + St1) (sg : py_pm) (v_node : py_node)
  (v_history : py_hist) (v_i : N) (v_lru : bytes) : R1 + St1 :=
 (let '(sg, v_history) := (if (py_node_has_webentity v_node)
 then (let v_history := py_hist_update_webentity v_history (py_node_webentity v_node) v_lru (N.of_nat (length v_lru)) in
 (sg, v_history))
 else (sg, v_history)) in
 (let '(sg, v_history) := (if (py_node_has_webentity_creation_rule v_node)
 then (let v_history := py_hist_add_webentity_creation_rule v_history (N.of_nat (length v_lru)) in
 (sg, v_history))
 else (sg, v_history)) in
 after_hist v_l flag k sg v_node v_history v_i v_lru)).

Definition loop1 (v_stems : list bytes) (v_l : N) (flag : bool) :=
 fix py_loop (fuel : nat) (st : St1) {struct fuel} : R1 + St1 :=
 match fuel with
 | O => inr st
 | S fuel' =>
 let '(sg, v_history, v_i, v_lru, v_node) := st in
 (if (N.ltb v_i v_l)
 then (let v_stem := (nth (N.to_nat v_i) v_stems (@nil N)) in
 (let v_lru := (v_lru ++ v_stem) in
 (match py_trie_ensure_stem_from_siblings sg v_node v_stem with
 | None => (inl None)
 | Some (sg, v_node) => after_ensure v_l flag (py_loop fuel') sg v_node v_history v_i v_lru end)))
 else inr st)
 end.

Definition loop2c (v_stems : list bytes) (v_l : N) (v_flag_can_have_child_webentities : bool) :=
 fix py_loop (fuel : nat) (st : (py_pm * N * py_node)) {struct fuel} : option (py_pm * N * py_node) :=
 match fuel with
 | O => Some st
 | S fuel' =>
 let '(sg, v_i, v_node) := st in
 if (N.ltb v_i v_l)
 then (let v_stem := (nth (N.to_nat v_i) v_stems (@nil N)) in
 (let '(v__n, sg) := py_node_init sg (Some v_stem) None None in
 let v_child := v__n in
 (match (nd_block v_node) with
 | None => None
 | Some v__x => (let v_child := py_node_set_parent v_child v__x in
 (let '(sg, v_child) := (if ((N.ltb v_i (N.sub v_l 1%N)) && v_flag_can_have_child_webentities)
 then (let v_child := py_node_flag_can_have_child_webentities v_child in
 (sg, v_child))
 else (sg, v_child)) in
 (let '(v_child, sg) := py_node_write v_child sg in
 (match (nd_block v_child) with
 | None => None
 | Some v__x => (match py_node_set_child v_node v__x with
 | None => None
 | Some v_node => (let '(v_node, sg) := py_node_write v_node sg in
 (let v_node := v_child in
 (let v_i := (N.add v_i 1%N) in
 (py_loop fuel' (sg, v_i, v_node))))) end) end)))) end)))
 else Some st
 end.

Definition finish (v_stems : list bytes) (v_l : N) (flag : bool) (r : R1 + St1) : R1 :=
 match r with
 | inl v__r => v__r
 | inr (sg, v_history, v_i, v_lru, v_node) =>
     (match loop2c v_stems v_l flag (S (N.to_nat (N.sub v_l v_i))) (sg, v_i, v_node) with
      | None => None
      | Some (sg, v_i, v_node) => (Some (sg, (v_node, v_history))) end) end.

Lemma add_lru_eq : forall sg lru flag,
  py_trie_add_lru sg lru flag =
  (let stems := GenHelpers2.py_lru_iter lru in
   let l := N.of_nat (length stems) in
   let '(n, sg) := py_node_init sg None (Some py_first_data_block) None in
   finish stems l flag (loop1 stems l flag (S (N.to_nat (l - 0))) (sg, py_hist_init lru, 0, [], n))).
Proof. reflexivity. Qed.

(* ---- the walk history ---- *)
Definition py_visit (h : py_hist) (n : py_node) (lru : bytes) : py_hist :=
  let h1 := if py_node_has_webentity n
            then py_hist_update_webentity h (py_node_webentity n) lru (N.of_nat (length lru)) else h in
  if py_node_has_webentity_creation_rule n
  then py_hist_add_webentity_creation_rule h1 (N.of_nat (length lru)) else h1.

Lemma after_ensure_eq : forall l flag k sg n h i lru,
  after_ensure l flag k sg n h i lru = after_hist l flag k sg n (py_visit h n lru) i lru.
Proof.
  intros. unfold after_ensure, py_visit.
  destruct (py_node_has_webentity n), (py_node_has_webentity_creation_rule n); reflexivity.
Qed.

Lemma visit_rep : forall L h ph d la ra ca n lru,
  hist_rep L h false ph -> nd_data n = tblock_vals (main_block d la ra ca) ->
  hist_rep L (visit d lru h) false (py_visit ph n lru).
Proof.
  intros L h ph d la ra ca n lru (H1 & H2 & H3 & H4 & H5 & H6) Hd.
  destruct (node_has_we d la ra ca n Hd) as (E1 & E2 & E3 & _).
  unfold py_visit, visit. rewrite E1, E2, E3.
  destruct (we d =? 0) eqn:Ew; cbn [negb]; destruct (rule d);
    unfold hist_rep, py_hist_update_webentity, py_hist_add_webentity_creation_rule, blen;
    cbn [hs_set_webentity hs_set_webentity_prefix hs_set_webentity_position hs_set_webentity_creation_rules
         hs_lru hs_webentity hs_webentity_prefix hs_webentity_position hs_webentity_creation_rules
         hs_page_was_created h_we h_pref h_pos h_rules];
    rewrite ?Ew, ?H5; repeat split; assumption.
Qed.

(* ---- small facts on the position in the stem list ---- *)
Lemma skipn_cons_nth : forall (A : Type) i (l : list A) x r (dflt : A), skipn i l = x :: r ->
  nth i l dflt = x /\ skipn (S i) l = r /\ (S i + length r = length l)%nat.
Proof.
  intros A i l x r dflt E.
  assert (Hl : (length (skipn i l) = length l - i)%nat) by apply skipn_length.
  rewrite E in Hl. cbn [length] in Hl.
  split; [|split].
  - rewrite <- (firstn_skipn i l) at 1. rewrite app_nth2; rewrite firstn_length_le by lia; [|lia].
    rewrite Nat.sub_diag, E. reflexivity.
  - rewrite skipn_S_tl, E. reflexivity.
  - lia.
Qed.

Lemma not_last_nonempty : forall (A : Type) (i n : nat) (r : list A), (S i + length r = n)%nat ->
  (N.of_nat i <? N.of_nat n - 1) = nonempty r.
Proof.
  intros A i n r H. destruct r as [|y r]; cbn [nonempty length] in *.
  - apply N.ltb_ge. lia.
  - apply N.ltb_lt. lia.
Qed.

Lemma more_nonempty : forall (A : Type) (i n : nat) (r : list A), (S i + length r = n)%nat ->
  (N.of_nat i + 1 <? N.of_nat n) = nonempty r.
Proof.
  intros A i n r H. destruct r as [|y r]; cbn [nonempty length] in *.
  - apply N.ltb_ge. lia.
  - apply N.ltb_lt. lia.
Qed.

Lemma pow64 : 2 ^ 64 = 18446744073709551616.
Proof. reflexivity. Qed.
Lemma pow32 : 2 ^ 32 = 4294967296.
Proof. reflexivity. Qed.

Lemma new_main_encodable : forall a pa x (nc : bool), pa < 2 ^ 64 ->
  blk_encodable (main_block (mkNd a pa x false false false nc 0 0 0) 0 0 0).
Proof.
  intros a pa x nc Hpa. apply main_block_encodable; cbn [we par outh inh]; try exact Hpa;
    rewrite ?pow64, ?pow32; lia.
Qed.

Lemma apply_all_ft_length_sets : forall a b f, length (ft (apply (TSet a b) f)) = length (ft f).
Proof. intros a b f. cbn [apply ft]. apply set_nth_length. Qed.

(* a fresh in-memory node object for the stem x whose parent register has been set *)
Lemma fresh_child : forall x pa a,
  let c0 := py_node_set_default_data py_node_new (Some x) in
  let c1 := py_node_set_parent c0 pa in
  nd_data c1 = tblock_vals (main_block (mkNd a pa x false false false true 0 0 0) 0 0 0) /\
  nd_tail c1 = skipn stem_size_nat x /\ nd_block c1 = None /\ nd_exists c1 = false.
Proof.
  intros x pa a c0 c1.
  destruct (py_node_new_node_spec x a) as (Hdata0 & Htail0 & Hblk0 & Hex0 & _).
  fold c0 in Hdata0, Htail0, Hblk0, Hex0.
  split; [|split; [exact Htail0|split; [exact Hblk0|exact Hex0]]].
  unfold c1, py_node_set_parent. cbn [nd_set_data nd_data]. rewrite Hdata0, set_parent_vals. reflexivity.
Qed.

(* ====================================================================================== *)
(* 6. the second loop: the chain of new children                                          *)
(* ====================================================================================== *)
Lemma loop2c_spec : forall stems flag rest i pre h pd la ra n sg f fuel,
  skipn i stems = rest -> (i <= length stems)%nat ->
  trep f sg ->
  nd_exists n = true -> nd_block n = Some (addr pd) -> nd_data n = tblock_vals (main_block pd la ra 0) ->
  (exists j, addr pd = blk_off j /\ (j < length (ft f))%nat) ->
  blk_encodable (main_block pd la ra 0) ->
  ins_nb flag rest pre (addr pd) (N.of_nat (S (length (ft f)))) h Lf * 128 < 2 ^ 64 ->
  (length rest < fuel)%nat ->
  exists sg' n',
    loop2c stems (N.of_nat (length stems)) flag fuel (sg, N.of_nat i, n) = Some (sg', N.of_nat (length stems), n') /\
    trep (apply_all (insw flag rest (addr pd) (N.of_nat (S (length (ft f)))) (CChild pd la ra) Lf) f) sg' /\
    match rest with
    | [] => n' = n
    | _ :: _ => exists tf, find_sub rest (ins_t flag rest pre (addr pd) (N.of_nat (S (length (ft f)))) h Lf) = Some tf /\
                           node_at tf n'
    end.
Proof.
  intros stems flag rest. induction rest as [|x rest' IH];
    intros i pre h pd la ra n sg f fuel Hsk Hi Hrep Hex Hblk Hdata (j & Hj & Hjlt) Hencp Hsize Hfuel.
  - (* nothing left *)
    assert (i = length stems).
    { assert (Hl : (length (skipn i stems) = length stems - i)%nat) by apply skipn_length.
      rewrite Hsk in Hl. cbn [length] in Hl. lia. }
    subst i. destruct fuel as [|k]; [cbn [length] in Hfuel; lia|].
    cbn [loop2c]. rewrite N.ltb_irrefl. exists sg, n. split; [reflexivity|]. split; [|reflexivity].
    rewrite insw_nil. exact Hrep.
  - destruct (skipn_cons_nth _ i stems x rest' (@nil N) Hsk) as (Hnth & Hsk' & Hlen).
    destruct fuel as [|k]; [lia|]. cbn [length] in Hfuel.
    set (nb := N.of_nat (S (length (ft f)))) in *.
    pose proof Hrep as (Hbs & _ & _).
    pose proof (trep_len f sg Hrep) as Hlenarr.
    set (a := N.of_nat (length (pm_array sg))).
    assert (Ha : a = nb * bsz).
    { unfold a, nb. rewrite Hlenarr. unfold bsz. change py_node_block_size with 128. lia. }
    rewrite ins_nb_Lf in Hsize.
    pose proof (ins_nb_mono flag rest' (pre ++ x) (nb * bsz) (nb + nblk x) h Lf) as Hmono.
    pose proof (nblk_pos x) as Hnblk.
    assert (Ha64 : a < 2 ^ 64).
    { rewrite Ha. unfold bsz. change py_node_block_size with 128. rewrite pow64 in *. nia. }
    assert (Hpd64 : addr pd < 2 ^ 64).
    { rewrite Hj. pose proof (blk_off_nat j). rewrite pow64 in *. unfold a in Ha64. lia. }
    set (dfin := dnew flag rest' x (addr pd) nb).
    assert (Hencd : blk_encodable (main_block dfin 0 0 0)).
    { unfold dfin, dnew. apply new_main_encodable. exact Hpd64. }
    cbn [loop2c].
    assert (Hlt : (N.of_nat i <? N.of_nat (length stems)) = true) by (apply N.ltb_lt; lia).
    rewrite Hlt, Nat2N.id, Hnth.
    assert (Hinit : py_node_init sg (Some x) None None = (py_node_set_default_data py_node_new (Some x), sg))
      by reflexivity.
    rewrite Hinit, Hblk.
    destruct (fresh_child x (addr pd) a) as (Hd1 & Ht1 & Hb1 & He1). cbv zeta in Hd1, Ht1, Hb1, He1.
    set (c1 := py_node_set_parent (py_node_set_default_data py_node_new (Some x)) (addr pd)) in *.
    rewrite (not_last_nonempty _ i (length stems) rest' Hlen).
    (* the child object about to be written *)
    set (c2 := if nonempty rest' && flag then py_node_flag_can_have_child_webentities c1 else c1).
    assert (Ec2 : (if nonempty rest' && flag
                   then (sg, py_node_flag_can_have_child_webentities c1)
                   else (sg, c1)) = (sg, c2)).
    { unfold c2. destruct (nonempty rest' && flag); reflexivity. }
    rewrite Ec2.
    assert (Hd2 : nd_data c2 = tblock_vals (main_block dfin 0 0 0)).
    { unfold c2, dfin, dnew. rewrite (andb_comm flag). destruct (nonempty rest' && flag); cbn [negb].
      - unfold py_node_flag_can_have_child_webentities. cbn [nd_set_data nd_data].
        rewrite Hd1, unflag_nochild_vals, Ha. reflexivity.
      - rewrite Hd1, Ha. reflexivity. }
    assert (Ht2 : nd_tail c2 = skipn stem_size_nat x).
    { unfold c2. destruct (nonempty rest' && flag); exact Ht1. }
    assert (Hb2 : nd_block c2 = None).
    { unfold c2. destruct (nonempty rest' && flag); exact Hb1. }
    assert (He2 : nd_exists c2 = false).
    { unfold c2. destruct (nonempty rest' && flag); exact He1. }
    destruct (py_node_write_new c2 sg (main_block dfin 0 0 0) x Hb2 He2 Hd2 Ht2 Hbs)
      as (Harr3 & Hbs3 & _ & Hb3 & He3 & Ht3 & Hd3).
    destruct (py_node_write c2 sg) as [c3 sg1]. cbn [fst snd] in Harr3, Hbs3, Hb3, He3, Ht3, Hd3.
    fold a in Hb3. rewrite Hb3.
    assert (Hage : (a <? py_first_data_block) = false).
    { apply N.ltb_ge. unfold a. change py_first_data_block with 128. lia. }
    unfold py_node_set_child. rewrite Hage.
    (* the files after the append *)
    set (f1 := apply_all (new_blocks dfin) f).
    assert (Hrep1 : trep f1 sg1).
    { unfold f1. rewrite new_blocks_eq.
      apply (trep_app_bytes f sg sg1 (node_blocks dfin 0 0 0) Hrep); [rewrite Hbs3; exact Hbs| |].
      - rewrite Harr3. unfold node_blocks. cbn [flat_map]. reflexivity.
      - apply node_blocks_encodable. exact Hencd. }
    assert (Hlen1 : length (ft f1) = (length (ft f) + length (node_blocks dfin 0 0 0))%nat).
    { unfold f1. rewrite new_blocks_eq, apply_apps. cbn [ft]. apply app_length. }
    pose proof (node_blocks_length dfin 0 0 0) as Hnbl. change (stem dfin) with x in Hnbl.
    (* the parent rewritten in place *)
    set (n2 := nd_set_data (py_set_nth pos_child (VNum a) (nd_data n)) n).
    assert (Hd4 : nd_data n2 = tblock_vals (main_block pd la ra a)).
    { unfold n2. cbn [nd_set_data nd_data]. rewrite Hdata, set_child_vals. reflexivity. }
    assert (Hencp' : blk_encodable (main_block pd la ra a)).
    { destruct (main_block_encodable_inv _ _ _ _ Hencp) as (I1 & I2 & I3 & I4 & I5 & I6 & _).
      apply main_block_encodable; assumption. }
    assert (Hb4 : nd_block n2 = Some (blk_off j)) by (unfold n2; cbn [nd_set_data nd_block]; rewrite Hblk, Hj; reflexivity).
    destruct (trep_write_existing f1 sg1 n2 j (main_block pd la ra a) Hrep1 ltac:(lia) Hex Hb4 Hd4 Hencp')
      as [_ Hrep2].
    destruct (py_node_write n2 sg1) as [n3 sg2]. cbn [snd] in Hrep2. rewrite <- Hj in Hrep2.
    set (f2 := apply (TSet (addr pd) (main_block pd la ra a)) f1) in *.
    assert (Hlen2 : length (ft f2) = length (ft f1)) by apply apply_all_ft_length_sets.
    assert (Enb2 : N.of_nat (S (length (ft f2))) = nb + nblk x) by (unfold nb; lia).
    (* the remaining stems *)
    replace (N.of_nat i + 1) with (N.of_nat (S i)) by lia.
    destruct (IH (S i) (pre ++ x) h dfin 0 0 c3 sg2 f2 k Hsk' ltac:(lia) Hrep2 He3)
      as (sg' & n' & Eloop & Hrep' & Hnode).
    + rewrite Hb3. unfold dfin, dnew. cbn [addr]. rewrite Ha. reflexivity.
    + rewrite Hd3. exact Hd2.
    + exists (length (ft f)). split; [|lia].
      unfold dfin, dnew. cbn [addr]. unfold blk_off, nb. lia.
    + exact Hencd.
    + rewrite Enb2. unfold dfin, dnew. cbn [addr]. exact Hsize.
    + lia.
    + exists sg', n'. split; [exact Eloop|]. rewrite Enb2 in Hrep', Hnode.
      change (addr dfin) with (nb * bsz) in Hrep', Hnode.
      split.
      * rewrite insw_Lf, apply_all_app. unfold here_w. rewrite apply_all_app.
        fold dfin. fold f1. rewrite <- Ha. rewrite <- Ha in Hrep'. exact Hrep'.
      * rewrite ins_t_Lf. fold (dnew flag rest' x (addr pd) nb). fold dfin.
        rewrite QueryCore2.find_sub_Nd. change (stem dfin) with x. rewrite lex_refl.
        destruct rest' as [|y rest''].
        -- subst n'. rewrite ins_t_nil. eexists. split; [reflexivity|].
           cbn [node_at root_addr]. split; [exact He3|]. split; [rewrite Hb3, Ha; reflexivity|].
           split; [rewrite Hd3; exact Hd2|].
           unfold py_node_stem. rewrite Hd3, Ht3, Hd2, Ht2. cbn [main_block].
           rewrite py_get_stem. cbn [b_stem]. change (stem dfin) with x. apply firstn_skipn.
        -- exact Hnode.
Qed.

(* ====================================================================================== *)
(* 7. the rest of an iteration of the first loop once a fresh node has been written        *)
(* ====================================================================================== *)
(* the node object n is the fresh node for the stem x, written at block j of the files f (which hold its blocks at
   their end) with the default flags; nb0 is the number of blocks before it was written *)
Lemma fresh_spec : forall stems flag L x rest' i pre h ph pa n sg f fuel j,
  skipn i stems = x :: rest' ->
  trep f sg -> (j < length (ft f))%nat ->
  let nb0 := N.of_nat (S j) in
  N.of_nat (S (length (ft f))) = nb0 + nblk x ->
  let dfin := dnew flag rest' x pa nb0 in
  nd_exists n = true -> nd_block n = Some (blk_off j) ->
  nd_data n = tblock_vals (main_block (set_nochild true dfin) 0 0 0) -> py_node_stem n = x ->
  pa < 2 ^ 64 ->
  hist_rep L h false ph ->
  ins_nb flag rest' (pre ++ x) (nb0 * bsz) (nb0 + nblk x) h Lf * 128 < 2 ^ 64 ->
  (length rest' < fuel)%nat ->
  exists sg' n',
    finish stems (N.of_nat (length stems)) flag
      (after_ensure (N.of_nat (length stems)) flag (loop1 stems (N.of_nat (length stems)) flag fuel)
         sg n ph (N.of_nat i) (pre ++ x)) = Some (sg', (n', ph)) /\
    trep (apply_all ((if flag && nonempty rest' then [TSet (nb0 * bsz) (main_block dfin 0 0 0)] else [])
                       ++ insw flag rest' (nb0 * bsz) (nb0 + nblk x) (CChild dfin 0 0) Lf) f) sg' /\
    exists tf, find_sub (x :: rest') (Nd dfin Lf (ins_t flag rest' (pre ++ x) (nb0 * bsz) (nb0 + nblk x) h Lf) Lf)
               = Some tf /\ node_at tf n'.
Proof.
  intros stems flag L x rest' i pre h ph pa n sg f fuel j Hsk Hrep Hj nb0 Hnb dfin Hex Hblk Hdata Hstem Hpa
    Hh Hsize Hfuel.
  destruct (skipn_cons_nth _ i stems x rest' (@nil N) Hsk) as (_ & Hsk' & Hlen).
  assert (Eoff : blk_off j = nb0 * bsz) by (unfold blk_off, nb0; lia).
  destruct (node_has_we _ _ _ _ _ Hdata) as (E1 & E2 & E3 & E4).
  cbn [set_nochild we rule nochild dfin dnew] in E1, E2, E3, E4. change (0 =? 0) with true in E1.
  cbn [negb] in E1, E4.
  rewrite after_ensure_eq.
  assert (Ev : py_visit ph n (pre ++ x) = ph) by (unfold py_visit; rewrite E1, E3; reflexivity).
  rewrite Ev. unfold after_hist. rewrite E4. cbn [negb]. rewrite andb_true_r.
  rewrite (not_last_nonempty _ i (length stems) rest' Hlen).
  (* the flag cleared in place, or nothing *)
  assert (Hclr : exists sg2 n2,
    (if nonempty rest' && flag
     then (let '(v_node, sg0) := py_node_write (py_node_flag_can_have_child_webentities n) sg in (sg0, v_node))
     else (sg, n)) = (sg2, n2) /\
    trep (apply_all (if flag && nonempty rest' then [TSet (nb0 * bsz) (main_block dfin 0 0 0)] else []) f) sg2 /\
    nd_exists n2 = true /\ nd_block n2 = Some (blk_off j) /\ nd_data n2 = tblock_vals (main_block dfin 0 0 0) /\
    py_node_stem n2 = x).
  { rewrite (andb_comm flag). destruct (nonempty rest' && flag) eqn:Ec.
    - set (n1 := py_node_flag_can_have_child_webentities n).
      assert (Hd1 : nd_data n1 = tblock_vals (main_block dfin 0 0 0)).
      { unfold n1, py_node_flag_can_have_child_webentities. cbn [nd_set_data nd_data].
        rewrite Hdata, unflag_nochild_vals. unfold dfin, dnew. cbn [set_nochild addr par stem page crawled rule we outh inh].
        rewrite (andb_comm flag), Ec. reflexivity. }
      assert (Hencd : blk_encodable (main_block dfin 0 0 0)) by (unfold dfin, dnew; apply new_main_encodable; exact Hpa).
      destruct (trep_write_existing f sg n1 j (main_block dfin 0 0 0) Hrep Hj Hex Hblk Hd1 Hencd) as [W1 W2].
      cbv zeta. destruct (py_node_write n1 sg) as [n2 sg2]. cbn [fst snd] in W1, W2. subst n2.
      exists sg2, n1. split; [reflexivity|]. split; [cbn [apply_all fold_left]; rewrite <- Eoff; exact W2|].
      split; [exact Hex|]. split; [exact Hblk|]. split; [exact Hd1|].
      rewrite <- Hstem. unfold py_node_stem. change (nd_tail n1) with (nd_tail n).
      rewrite Hd1, Hdata, !py_get_stem. reflexivity.
    - exists sg, n. split; [reflexivity|]. split; [exact Hrep|]. split; [exact Hex|]. split; [exact Hblk|].
      split; [|exact Hstem]. rewrite Hdata. unfold dfin, dnew. rewrite (andb_comm flag), Ec. reflexivity. }
  destruct Hclr as (sg2 & n2 & Eclr & Hrep2 & Hex2 & Hblk2 & Hdata2 & Hstem2).
  rewrite Eclr. clear Eclr.
  set (clr := if flag && nonempty rest' then [TSet (nb0 * bsz) (main_block dfin 0 0 0)] else []) in *.
  set (f2 := apply_all clr f) in *.
  assert (Hlen2 : length (ft f2) = length (ft f)).
  { unfold f2, clr. destruct (flag && nonempty rest'); [apply apply_all_ft_length_sets|reflexivity]. }
  (* no child: the loop is left *)
  unfold after_clear.
  assert (Hnc : py_node_has_child n2 = false).
  { unfold py_node_has_child. rewrite Hdata2, get_child. reflexivity. }
  rewrite Hnc, andb_false_r. cbn [finish].
  destruct (loop2c_spec stems flag rest' (S i) (pre ++ x) h dfin 0 0 n2 sg2 f2
              (S (N.to_nat (N.of_nat (length stems) - N.of_nat (S i)))) Hsk' ltac:(lia) Hrep2 Hex2)
    as (sg' & n' & Eloop & Hrep' & Hnode).
  - rewrite Hblk2, Eoff. reflexivity.
  - exact Hdata2.
  - exists j. split; [unfold dfin, dnew; cbn [addr]; symmetry; exact Eoff|lia].
  - unfold dfin, dnew. apply new_main_encodable. exact Hpa.
  - rewrite Hlen2, Hnb. exact Hsize.
  - lia.
  - replace (N.of_nat i + 1) with (N.of_nat (S i)) by lia. rewrite Eloop.
    exists sg', n'. split; [reflexivity|].
    rewrite Hlen2, Hnb in Hrep', Hnode. change (addr dfin) with (nb0 * bsz) in Hrep', Hnode.
    split; [rewrite apply_all_app; exact Hrep'|].
    rewrite QueryCore2.find_sub_Nd. change (stem dfin) with x. rewrite lex_refl.
    destruct rest' as [|y rest''].
    + subst n'. rewrite ins_t_nil. eexists. split; [reflexivity|].
      cbn [node_at root_addr]. split; [exact Hex2|]. split; [rewrite Hblk2, Eoff; reflexivity|].
      split; [exact Hdata2|exact Hstem2].
    + exact Hnode.
Qed.
