(* GenTrieIFacts.v — the ordered traversal behind pagination, LRUTrie.webentity_inorder_iter with its nested follow_path,
   can_follow_path and the recursive generator inorder_traversal (GenTrieI.v, generated from
   /repo/traph/lru_trie/lru_trie.py), yields exactly the model's Tst.ino_at / Tst.ino_from_at on the trie file of every
   state that satisfies the block invariant Inv18:
     py_inorder_follow_path_spec          follow_path = Tst.follow_path (the code reads the characters '0'..'3' of the base-4
                                          string, the model the digit values: ops are related by map b64_char)
     py_inorder_can_follow_path_spec      can_follow_path = Tst.can_follow
     py_trie_webentity_inorder_iter_spec  the items, in order; a path leading nowhere raises on both sides
   The recursion of the generator is on fuel: a fuel of at least the size of the subtree suffices. *)
From Coq Require Import List NArith Bool Lia Arith.
Import ListNotations.
From Traph Require Import Bytes Consts Layout Helpers Rules Tst TstDefs Traph Traphw TraceDefs Codec CodecFacts
  TstFacts Store StoreFacts GenStorage GenNode GenNodeFacts GenLinks GenTrie GenTrieFacts GenTrieW GenTrieDDefs GenTrieI.
From Traph Require GenHelpers GenHelpers2 GenHelpersFacts GenHelpers2Facts TraceFacts TokenFacts GenTrieDWdfs GenTraphPages.
Open Scope N_scope.

Arguments N.shiftr : simpl never.
Arguments N.shiftl : simpl never.
Arguments N.modulo : simpl never.
Arguments N.div : simpl never.
Arguments N.land : simpl never.
Arguments N.lor : simpl never.
Arguments N.mul : simpl never.
Arguments N.add : simpl never.
Arguments N.sub : simpl never.
Arguments N.ltb : simpl never.
Arguments N.leb : simpl never.
Arguments N.eqb : simpl never.

Notation Item := (py_node * bytes * N)%type (only parsing).
Definition Rec : Type := py_pm -> py_node -> bytes -> N -> option (list Item * py_pm).

Definition call_sub (has : bool) (sub : option (py_node * py_pm)) (rec : Rec) (out : list Item) (sg : py_pm)
                    (lru : bytes) (path : N) : option (list Item * py_pm) :=
  if has
  then match sub with
       | None => None
       | Some (v__sub, sg) =>
           match rec sg v__sub lru path with
           | None => None
           | Some (v__items, sg) => Some (out ++ v__items, sg)
           end
       end
  else Some (out, sg).

Definition oid (x : option (list Item * py_pm)) : option (list Item * py_pm) :=
  match x with None => None | Some (o, sg) => Some (o, sg) end.

Definition ibody (sn : py_node) (pp : option N) (pl : option bytes) (rec : Rec)
                 (sg : py_pm) (v_node : py_node) (v_lru : bytes) (v_path : N) : option (list Item * py_pm) :=
  match (if negb (oN_eqb (nd_block v_node) (nd_block sn))
         then oid (call_sub (py_node_has_left v_node) (py_node_left_node v_node sg) rec [] sg v_lru
                            (GenHelpers.py_base4_append v_path 1))
         else Some ([], sg)) with
  | None => None
  | Some (v__out, sg) =>
     let cur := v_lru ++ py_node_stem v_node in
     let rel := oN_eqb (nd_block v_node) (nd_block sn) || negb (py_node_has_webentity v_node) in
     match (if rel
            then match (match pp with
                        | None => Some (v__out ++ [(v_node, cur, v_path)], sg)
                        | Some _ => match pl with
                                    | None => None
                                    | Some v__pl => if blt v__pl cur then Some (v__out ++ [(v_node, cur, v_path)], sg)
                                                    else Some (v__out, sg)
                                    end
                        end) with
                 | None => None
                 | Some (v__out, sg) =>
                     oid (call_sub (py_node_has_child v_node) (py_node_child_node v_node sg) rec v__out sg cur
                                   (GenHelpers.py_base4_append v_path 2))
                 end
            else Some (v__out, sg)) with
     | None => None
     | Some (v__out, sg) =>
        oid (if negb (oN_eqb (nd_block v_node) (nd_block sn))
             then oid (call_sub (py_node_has_right v_node) (py_node_right_node v_node sg) rec v__out sg v_lru
                                (GenHelpers.py_base4_append v_path 3))
             else Some (v__out, sg))
     end
  end.

Definition irec (sn : py_node) (pp : option N) (cmp pl : option bytes) :=
  fix py_rec (fuel : nat) (sg : py_pm) (v_node : py_node) (v_lru : bytes) (v_path : N) {struct fuel}
    : option (list Item * py_pm) :=
  match fuel with
  | O => None
  | S fuel' =>
     match pp with
     | None => ibody sn pp pl (py_rec fuel') sg v_node v_lru v_path
     | Some _ => match py_inorder_can_follow_path cmp v_path with
                 | None => None
                 | Some c => if negb c then Some ([], sg)
                             else ibody sn pp pl (py_rec fuel') sg v_node v_lru v_path
                 end
     end
  end.

Lemma inorder_eq : forall sg sn lru pp,
  py_trie_webentity_inorder_iter sg sn lru pp =
  (let lru := GenHelpers2.py_lru_dirname lru in
   match (match pp with
          | None => Some (sg, @None bytes, @None bytes)
          | Some p => let cmp := if negb (p =? 0) then GenHelpers2.py_int_to_base4 p else [] in
                      match py_inorder_follow_path sg sn lru cmp with
                      | None => None
                      | Some (sg, l) => Some (sg, Some cmp, Some l)
                      end
          end) with
   | None => None
   | Some (sg, cmp, pl) => irec sn pp cmp pl (S (length (pm_array sg))) sg sn lru 0
   end).
Proof. reflexivity. Qed.

Definition fstep (st : option (py_pm * bytes * py_node)) (v_op : N) : option (py_pm * bytes * py_node) :=
 match st with
 | None => None
 | Some (sg, v_lru, v_n) => (if (N.eqb v_op 49%N)
 then (match py_node_read_left v_n sg with
 | None => None
 | Some (v_n, sg) => (Some (sg, v_lru, v_n)) end)
 else (if (N.eqb v_op 50%N)
 then (let v_lru := (v_lru ++ (py_node_stem v_n)) in
 (match py_node_read_child v_n sg with
 | None => None
 | Some (v_n, sg) => (Some (sg, v_lru, v_n)) end))
 else (match py_node_read_right v_n sg with
 | None => None
 | Some (v_n, sg) => (Some (sg, v_lru, v_n)) end))) end.

Lemma follow_path_eq : forall sg sn lru p,
  py_inorder_follow_path sg sn lru p =
  (let '(n, sg) := py_node_init sg None (nd_block sn) None in
   match fold_left fstep p (Some (sg, lru, n)) with
   | None => None
   | Some (sg, lru, n) => Some (sg, lru ++ py_node_stem n)
   end).
Proof. reflexivity. Qed.

Lemma fold_fstep_None : forall p, fold_left fstep p None = None.
Proof. induction p as [|o p IH]; [reflexivity|exact IH]. Qed.

(* ---- the characters of a base-4 path ---- *)
Lemma b64_char_nat : forall k : nat,
  (nth k base64_alphabet 0 =? 49) = (N.of_nat k =? 1) /\ (nth k base64_alphabet 0 =? 50) = (N.of_nat k =? 2).
Proof.
  intro k. do 64 (destruct k as [|k]; [split; reflexivity|]).
  match goal with |- (?x =? 49) = _ /\ _ => replace x with 0 by (destruct k; reflexivity) end.
  split; symmetry; apply N.eqb_neq; lia.
Qed.

Lemma b64_char_49 : forall o, (b64_char o =? 49) = (o =? 1).
Proof. intro o. unfold b64_char. rewrite (proj1 (b64_char_nat (N.to_nat o))), N2Nat.id. reflexivity. Qed.
Lemma b64_char_50 : forall o, (b64_char o =? 50) = (o =? 2).
Proof. intro o. unfold b64_char. rewrite (proj2 (b64_char_nat (N.to_nat o))), N2Nat.id. reflexivity. Qed.

Lemma b64_small : forall d, d < 4 -> b64_char d = 48 + d.
Proof.
  intros d H. assert (E : d = 0 \/ d = 1 \/ d = 2 \/ d = 3) by lia.
  destruct E as [->|[->|[->| ->]]]; reflexivity.
Qed.

Lemma b64_compare : forall x y, x < 4 -> y < 4 -> N.compare (b64_char x) (b64_char y) = N.compare x y.
Proof.
  intros x y Hx Hy.
  assert (Ex : x = 0 \/ x = 1 \/ x = 2 \/ x = 3) by lia. assert (Ey : y = 0 \/ y = 1 \/ y = 2 \/ y = 3) by lia.
  destruct Ex as [->|[->|[->| ->]]]; destruct Ey as [->|[->|[->| ->]]]; reflexivity.
Qed.

Definition digits4 (l : list N) : Prop := Forall (fun d => d < 4) l.

Lemma lex_map_b64 : forall a b, digits4 a -> digits4 b -> lex (map b64_char a) (map b64_char b) = lex a b.
Proof.
  induction a as [|x a IH]; intros [|y b] Ha Hb; try reflexivity.
  inversion Ha as [|? ? Hx Ha']; subst. inversion Hb as [|? ? Hy Hb']; subst.
  cbn [map lex]. rewrite (b64_compare x y Hx Hy), (IH b Ha' Hb'). reflexivity.
Qed.

Lemma digits4_firstn : forall n l, digits4 l -> digits4 (firstn n l).
Proof.
  induction n as [|n IH]; intros l H; [constructor|]. destruct l as [|x l]; [constructor|].
  inversion H; subst. cbn [firstn]. constructor; [assumption|apply IH; assumption].
Qed.

Lemma digits4_base4 : forall x, digits4 (int_to_base4 x).
Proof.
  intro x. unfold int_to_base4. destruct (x =? 0).
  - constructor; [reflexivity|constructor].
  - apply Forall_forall. intros d Hd. apply (TokenFacts.to_digits_bound 4 x d); [lia|exact Hd].
Qed.

(* (2) can_follow_path *)
Theorem py_inorder_can_follow_path_spec : forall cmp path, digits4 cmp ->
  py_inorder_can_follow_path (Some (map b64_char cmp)) path = Some (can_follow cmp path).
Proof.
  intros cmp path Hc. unfold py_inorder_can_follow_path, can_follow.
  destruct (path =? 0); [reflexivity|]. cbv zeta.
  rewrite GenHelpers2Facts.py_int_to_base4_eq, map_length, Nat2N.id, firstn_map. unfold blt.
  rewrite lex_map_b64; [|apply digits4_base4|apply digits4_firstn; exact Hc].
  destruct (lex _ _); reflexivity.
Qed.

(* an item (node object, lru, path) the translated traversal yields represents the model's (lru, node, path) *)
Definition item3_rep (s : traph) (it : py_node * bytes * N) (m : bytes * nd * N) : Prop :=
  snd (fst it) = fst (fst m) /\ snd it = snd m /\
  exists l c r, subt (Nd (snd (fst m)) l c r) (tr s) /\ node_at (Nd (snd (fst m)) l c r) (fst (fst it)).

(* ---- the model with or without a pagination path ---- *)
Definition mode : Type := option (list N * bytes).
Definition mino (m : mode) (path : N) (pre : bytes) (t : tst) : list (bytes * nd * N) :=
  match m with None => ino path pre t | Some (cmp, plru) => ino_from cmp plru path pre t end.
Definition mprune (m : mode) (path : N) : bool :=
  match m with None => false | Some (cmp, _) => negb (can_follow cmp path) end.
Definition mkeep (m : mode) (cur : bytes) : bool :=
  match m with None => true | Some (_, plru) => bgt cur plru end.
Definition mode_ok (m : mode) : Prop := match m with None => True | Some (cmp, _) => digits4 cmp end.
Definition cpp (m : mode) (p : N) : option N := match m with None => None | Some _ => Some p end.
Definition ccmp (m : mode) : option bytes := match m with None => None | Some (cmp, _) => Some (map b64_char cmp) end.
Definition cpl (m : mode) : option bytes := match m with None => None | Some (_, plru) => Some plru end.

Lemma mino_Lf : forall m path pre, mino m path pre Lf = [].
Proof. intros [[cmp plru]|] path pre; reflexivity. Qed.

Lemma mino_Nd : forall m path pre d l c r,
  mino m path pre (Nd d l c r) =
  if mprune m path then []
  else mino m (base4_append path 1) pre l
       ++ (if we d =? 0
           then (if mkeep m (pre ++ stem d) then [(pre ++ stem d, d, path)] else [])
                ++ mino m (base4_append path 2) (pre ++ stem d) c
           else [])
       ++ mino m (base4_append path 3) pre r.
Proof. intros [[cmp plru]|] path pre d l c r; reflexivity. Qed.

Lemma irec_S : forall sn m p k sg n lru path, mode_ok m ->
  irec sn (cpp m p) (ccmp m) (cpl m) (S k) sg n lru path =
  if mprune m path then Some ([], sg)
  else ibody sn (cpp m p) (cpl m) (irec sn (cpp m p) (ccmp m) (cpl m) k) sg n lru path.
Proof.
  intros sn [[cmp plru]|] p k sg n lru path Hm; [|reflexivity].
  cbn [irec cpp ccmp cpl mprune]. rewrite (py_inorder_can_follow_path_spec cmp path Hm). reflexivity.
Qed.

Lemma emit_eq : forall m p (out : list Item) (it : Item) (sg : py_pm) cur,
  match cpp m p with
  | None => Some (out ++ [it], sg)
  | Some _ => match cpl m with
              | None => None
              | Some v__pl => if blt v__pl cur then Some (out ++ [it], sg) else Some (out, sg)
              end
  end = Some (out ++ (if mkeep m cur then [it] else []), sg).
Proof.
  intros [[cmp plru]|] p out it sg cur; cbn [cpp cpl mkeep]; [|reflexivity].
  unfold blt, bgt. rewrite (lex_antisym plru cur). destruct (lex plru cur); cbn [CompOpp]; rewrite ?app_nil_r; reflexivity.
Qed.

Lemma follow_path_Lf : forall ops pre, follow_path ops pre Lf = None.
Proof. intros [|o ops] pre; reflexivity. Qed.

Section OnState.
  Variable s : traph.
  Hypothesis Hinv : Inv18 s.

  Local Notation trp := (trep (files_of s)).

  Lemma reg_nd : forall d l c r, subt (Nd d l c r) (tr s) ->
    (addr d =? 0) = false /\ (addr d <? py_first_data_block) = false.
  Proof.
    intros d l c r Hsub. pose proof (root_addr_ge s Hinv d l c r Hsub) as Hge.
    split; [apply N.eqb_neq; change py_first_data_block with 128 in Hge; lia|apply N.ltb_ge; exact Hge].
  Qed.

  (* the registers of the node object of a node *)
  Lemma node_regs : forall d l c r n, node_at (Nd d l c r) n ->
    py_get_num pos_left (nd_data n) = root_addr l /\ py_get_num pos_right (nd_data n) = root_addr r /\
    py_get_num pos_child (nd_data n) = root_addr c.
  Proof.
    intros d l c r n (_ & _ & Hd & _). rewrite Hd, get_left, get_right, get_child. repeat split; reflexivity.
  Qed.

  (* reading the node a register names *)
  Definition read_reg (a : N) (n : py_node) (sg : py_pm) : option (py_node * py_pm) :=
    if negb (negb (a =? 0)) then None
    else (let '(nd, sg) := py_node_read_o n sg (if a <? py_first_data_block then None else Some a) in Some (nd, sg)).

  Lemma read_reg_spec : forall t n sg, subt t (tr s) \/ t = Lf -> trp sg ->
    match t with
    | Lf => read_reg (root_addr t) n sg = None
    | Nd _ _ _ _ => exists n' sg', read_reg (root_addr t) n sg = Some (n', sg') /\ node_at t n' /\ trp sg' /\
                                   pm_array sg' = pm_array sg
    end.
  Proof.
    intros t n sg Ht Hrep. destruct t as [|d l c r]; [reflexivity|].
    destruct Ht as [Hsub|Ht]; [|discriminate Ht].
    destruct (reg_nd d l c r Hsub) as [Hz Hlt]. unfold read_reg. cbn [root_addr]. rewrite Hz, Hlt. cbn [negb].
    destruct (GenTrieDWdfs.read_arr s Hinv d l c r n sg Hsub Hrep) as (H1 & H2 & H3).
    destruct (py_node_read_o n sg (Some (addr d))) as [n1 sg1]. cbn [fst snd] in *.
    exists n1, sg1. split; [reflexivity|]. split; [exact H1|]. split; [exact H2|exact H3].
  Qed.

  Lemma fstep_Some : forall sg lru n o,
    fstep (Some (sg, lru, n)) (b64_char o) =
    if o =? 1 then match read_reg (py_get_num pos_left (nd_data n)) n sg with
                   | None => None | Some (n', sg') => Some (sg', lru, n') end
    else if o =? 2 then match read_reg (py_get_num pos_child (nd_data n)) n sg with
                        | None => None | Some (n', sg') => Some (sg', lru ++ py_node_stem n, n') end
    else match read_reg (py_get_num pos_right (nd_data n)) n sg with
         | None => None | Some (n', sg') => Some (sg', lru, n') end.
  Proof.
    intros sg lru n o. cbn [fstep]. rewrite b64_char_49, b64_char_50.
    unfold py_node_read_left, py_node_read_right, py_node_read_child, read_reg,
      py_node_has_left, py_node_has_right, py_node_has_child, py_node_left, py_node_right, py_node_child.
    cbv zeta.
    destruct (o =? 1).
    { destruct (negb (negb (py_get_num pos_left (nd_data n) =? 0))); [reflexivity|].
      destruct (py_node_read_o n sg _); reflexivity. }
    destruct (o =? 2).
    { destruct (negb (negb (py_get_num pos_child (nd_data n) =? 0))); [reflexivity|].
      destruct (py_node_read_o n sg _); reflexivity. }
    destruct (negb (negb (py_get_num pos_right (nd_data n) =? 0))); [reflexivity|].
    destruct (py_node_read_o n sg _); reflexivity.
  Qed.

  Lemma fp_fold : forall ops t n sg pre, subt t (tr s) -> node_at t n -> trp sg ->
    match follow_path ops pre t with
    | Some plru => exists sg' n' lru', fold_left fstep (map b64_char ops) (Some (sg, pre, n)) = Some (sg', lru', n') /\
                     lru' ++ py_node_stem n' = plru /\ trp sg' /\ pm_array sg' = pm_array sg
    | None => fold_left fstep (map b64_char ops) (Some (sg, pre, n)) = None
    end.
  Proof.
    induction ops as [|o ops IH]; intros t n sg pre Hsub Hn Hrep; destruct t as [|d l c r]; try (destruct Hn; fail).
    - cbn [follow_path map fold_left]. exists sg, n, pre. pose proof Hn as (_ & _ & _ & Hs). rewrite Hs.
      split; [reflexivity|]. split; [reflexivity|]. split; [exact Hrep|reflexivity].
    - cbn [follow_path map fold_left]. rewrite fstep_Some.
      destruct (node_regs d l c r n Hn) as (Rl & Rr & Rc). rewrite Rl, Rr, Rc.
      pose proof Hn as (_ & _ & _ & Hs). rewrite Hs.
      assert (K : forall t' pre', subt t' (tr s) \/ t' = Lf ->
                match follow_path ops pre' t' with
                | Some plru => exists sg' n' lru',
                    fold_left fstep (map b64_char ops)
                      (match read_reg (root_addr t') n sg with None => None | Some (n', sg') => Some (sg', pre', n') end)
                    = Some (sg', lru', n') /\ lru' ++ py_node_stem n' = plru /\ trp sg' /\ pm_array sg' = pm_array sg
                | None => fold_left fstep (map b64_char ops)
                      (match read_reg (root_addr t') n sg with None => None | Some (n', sg') => Some (sg', pre', n') end) = None
                end).
      { intros t' pre' Ht'. pose proof (read_reg_spec t' n sg Ht' Hrep) as HR.
        destruct t' as [|d' l' c' r'].
        - rewrite HR, follow_path_Lf. apply fold_fstep_None.
        - destruct HR as (n1 & sg1 & E & Hn1 & Hrep1 & Harr1). rewrite E.
          destruct Ht' as [Hs'|Hs']; [|discriminate Hs'].
          pose proof (IH (Nd d' l' c' r') n1 sg1 pre' Hs' Hn1 Hrep1) as HI.
          destruct (follow_path ops pre' (Nd d' l' c' r')); [|exact HI].
          destruct HI as (sg' & n' & lru' & E' & H1 & H2 & H3). exists sg', n', lru'.
          split; [exact E'|]. split; [exact H1|]. split; [exact H2|congruence]. }
      destruct (o =? 1); [apply K; left; apply (subt_left _ _ _ _ _ Hsub)|].
      destruct (o =? 2); [apply K; left; apply (subt_child _ _ _ _ _ Hsub)|].
      apply K; left; apply (subt_right _ _ _ _ _ Hsub).
  Qed.

  (* (1) follow_path *)
  Theorem py_inorder_follow_path_spec : forall t n sg pre ops, subt t (tr s) -> node_at t n -> trp sg ->
    match follow_path ops pre t with
    | Some plru => exists sg', py_inorder_follow_path sg n pre (map b64_char ops) = Some (sg', plru) /\
                               trp sg' /\ pm_array sg' = pm_array sg
    | None => py_inorder_follow_path sg n pre (map b64_char ops) = None
    end.
  Proof.
    intros t n sg pre ops Hsub Hn Hrep. rewrite follow_path_eq.
    destruct t as [|d l c r]; [destruct Hn|]. pose proof Hn as (_ & Hb & _ & _). rewrite Hb, init_read.
    destruct (GenTrieDWdfs.read_arr s Hinv d l c r (nd_set_tail [] (nd_set_exists false (nd_set_block None py_node_new))) sg Hsub Hrep)
      as (Hn1 & Hrep1 & Harr1).
    destruct (py_node_read_o _ sg (Some (addr d))) as [n1 sg1]. cbn [fst snd] in *.
    pose proof (fp_fold ops (Nd d l c r) n1 sg1 pre Hsub Hn1 Hrep1) as HF.
    destruct (follow_path ops pre (Nd d l c r)) as [plru|].
    - destruct HF as (sg' & n' & lru' & E & H1 & H2 & H3). rewrite E. exists sg'. rewrite H1.
      split; [reflexivity|]. split; [exact H2|congruence].
    - rewrite HF. reflexivity.
  Qed.

  (* ---- the recursive generator ---- *)
  Definition init_reg (a : N) (sg : py_pm) : option (py_node * py_pm) :=
    if negb (negb (a =? 0)) then None
    else Some (py_node_init sg None (if a <? py_first_data_block then None else Some a) None).

  Lemma left_node_eq : forall n sg, py_node_left_node n sg = init_reg (py_get_num pos_left (nd_data n)) sg.
  Proof. reflexivity. Qed.
  Lemma right_node_eq : forall n sg, py_node_right_node n sg = init_reg (py_get_num pos_right (nd_data n)) sg.
  Proof. reflexivity. Qed.
  Lemma child_node_eq : forall n sg, py_node_child_node n sg = init_reg (py_get_num pos_child (nd_data n)) sg.
  Proof. reflexivity. Qed.

  Definition res_ok (sg : py_pm) (m : mode) (path : N) (lru : bytes) (t : tst) (items : list Item) (sg' : py_pm) : Prop :=
    trp sg' /\ pm_array sg' = pm_array sg /\ Forall2 (item3_rep s) items (mino m path lru t).

  Definition rec_ok (rec : Rec) (m : mode) (t : tst) : Prop :=
    forall n sg lru path, node_at t n -> trp sg ->
      exists items sg', rec sg n lru path = Some (items, sg') /\ res_ok sg m path lru t items sg'.

  Lemma call_reg : forall t rec m out sg lru path, subt t (tr s) \/ t = Lf -> trp sg -> (t <> Lf -> rec_ok rec m t) ->
    exists items sg', call_sub (negb (root_addr t =? 0)) (init_reg (root_addr t) sg) rec out sg lru path
                      = Some (out ++ items, sg') /\ res_ok sg m path lru t items sg'.
  Proof.
    intros t rec m out sg lru path Ht Hrep Hrec. destruct t as [|d l c r].
    - exists [], sg. rewrite app_nil_r. split; [reflexivity|]. split; [exact Hrep|]. split; [reflexivity|].
      rewrite mino_Lf. constructor.
    - destruct Ht as [Hsub|Ht]; [|discriminate Ht].
      destruct (reg_nd d l c r Hsub) as [Hz Hlt]. unfold init_reg. cbn [root_addr]. rewrite Hz, Hlt. cbn [negb call_sub].
      rewrite init_read.
      destruct (GenTrieDWdfs.read_arr s Hinv d l c r (nd_set_tail [] (nd_set_exists false (nd_set_block None py_node_new))) sg Hsub Hrep)
        as (Hn1 & Hrep1 & Harr1).
      destruct (py_node_read_o _ sg (Some (addr d))) as [n1 sg1]. cbn [fst snd] in *.
      destruct (Hrec ltac:(discriminate) n1 sg1 lru path Hn1 Hrep1) as (items & sg' & E & H1 & H2 & H3).
      rewrite E. exists items, sg'. split; [reflexivity|]. split; [exact H1|]. split; [congruence|exact H3].
  Qed.

  Lemma Forall2_app3 : forall (A B : Type) (R : A -> B -> Prop) l1 l1' l2 l2',
    Forall2 R l1 l1' -> Forall2 R l2 l2' -> Forall2 R (l1 ++ l2) (l1' ++ l2').
  Proof. intros A B R l1 l1' l2 l2' H1 H2. apply Forall2_app; assumption. Qed.

  Lemma irec_spec : forall a0 sn m p, nd_block sn = Some a0 -> mode_ok m ->
    forall t, subt t (tr s) -> GenTrieDWdfs.noaddr a0 t -> forall fuel, (size t <= fuel)%nat ->
    rec_ok (irec sn (cpp m p) (ccmp m) (cpl m) fuel) m t.
  Proof.
    intros a0 sn m p Hsn Hm t. induction t as [|d l IHl c IHc r IHr]; intros Hsub Hna fuel Hf n sg lru path Hn Hrep;
      [destruct Hn|].
    destruct fuel as [|k]; [cbn [size] in Hf; lia|]. cbn [size] in Hf.
    unfold res_ok. rewrite (irec_S sn m p k sg n lru path Hm), mino_Nd.
    destruct (mprune m path).
    { exists [], sg. split; [reflexivity|]. split; [exact Hrep|]. split; [reflexivity|constructor]. }
    pose proof Hn as (_ & Hb & _ & Hs).
    destruct (node_regs d l c r n Hn) as (Rl & Rr & Rc).
    assert (E0 : (addr d =? a0) = false) by (apply N.eqb_neq; apply (Hna d l c r); apply subt_here).
    assert (Hl : l <> Lf -> rec_ok (irec sn (cpp m p) (ccmp m) (cpl m) k) m l).
    { intros _. apply IHl; [apply (subt_left _ _ _ _ _ Hsub)|apply (GenTrieDWdfs.noaddr_sub _ _ _ Hna); apply subt_l, subt_here|lia]. }
    assert (Hc : c <> Lf -> rec_ok (irec sn (cpp m p) (ccmp m) (cpl m) k) m c).
    { intros _. apply IHc; [apply (subt_child _ _ _ _ _ Hsub)|apply (GenTrieDWdfs.noaddr_sub _ _ _ Hna); apply subt_c, subt_here|lia]. }
    assert (Hr : r <> Lf -> rec_ok (irec sn (cpp m p) (ccmp m) (cpl m) k) m r).
    { intros _. apply IHr; [apply (subt_right _ _ _ _ _ Hsub)|apply (GenTrieDWdfs.noaddr_sub _ _ _ Hna); apply subt_r, subt_here|lia]. }
    set (rec := irec sn (cpp m p) (ccmp m) (cpl m) k) in *.
    unfold ibody. rewrite Hb, Hsn. cbn [oN_eqb]. rewrite E0. cbn [negb orb].
    rewrite (GenTrieDWdfs.has_we d l c r n Hn), Hs.
    unfold py_node_has_left, py_node_has_right, py_node_has_child.
    rewrite (GenHelpersFacts.py_base4_append_eq path 1), (GenHelpersFacts.py_base4_append_eq path 2),
      (GenHelpersFacts.py_base4_append_eq path 3).
    rewrite left_node_eq, Rl.
    destruct (call_reg l rec m [] sg lru (base4_append path 1) (or_introl (subt_left _ _ _ _ _ Hsub)) Hrep Hl)
      as (items1 & sg1 & E1 & Hrep1 & Harr1 & F1).
    rewrite E1. cbn [oid app].
    destruct (we d =? 0).
    - rewrite emit_eq, child_node_eq, Rc.
      match goal with |- context [call_sub _ (init_reg (root_addr c) sg1) rec ?o sg1 ?lr ?pa] =>
        destruct (call_reg c rec m o sg1 lr pa (or_introl (subt_child _ _ _ _ _ Hsub)) Hrep1 Hc)
          as (items2 & sg2 & E2 & Hrep2 & Harr2 & F2) end.
      rewrite E2. cbn [oid]. rewrite right_node_eq, Rr.
      match goal with |- context [call_sub _ (init_reg (root_addr r) sg2) rec ?o sg2 ?lr ?pa] =>
        destruct (call_reg r rec m o sg2 lr pa (or_introl (subt_right _ _ _ _ _ Hsub)) Hrep2 Hr)
          as (items3 & sg3 & E3 & Hrep3 & Harr3 & F3) end.
      rewrite E3. cbn [oid].
      eexists. exists sg3. split; [reflexivity|]. split; [exact Hrep3|]. split; [congruence|].
      rewrite <- !app_assoc. apply Forall2_app3; [exact F1|]. rewrite !app_assoc. apply Forall2_app3; [|exact F3].
      apply Forall2_app3; [|exact F2].
      destruct (mkeep m (lru ++ stem d)); [|constructor]. constructor; [|constructor].
      split; [reflexivity|]. split; [reflexivity|]. exists l, c, r. split; [exact Hsub|exact Hn].
    - rewrite right_node_eq, Rr.
      destruct (call_reg r rec m items1 sg1 lru (base4_append path 3) (or_introl (subt_right _ _ _ _ _ Hsub)) Hrep1 Hr)
        as (items3 & sg3 & E3 & Hrep3 & Harr3 & F3).
      rewrite E3. cbn [oid].
      eexists. exists sg3. split; [reflexivity|]. split; [exact Hrep3|]. split; [congruence|].
      apply Forall2_app3; [exact F1|]. exact F3.
  Qed.

  Lemma mprune_0 : forall m, mprune m 0 = false.
  Proof. intros [[cmp plru]|]; reflexivity. Qed.

  (* the call on the starting node: its siblings are not visited, it is relevant whatever its webentity *)
  Lemma iroot_spec : forall m p d l c r n sg lru k, mode_ok m ->
    subt (Nd d l c r) (tr s) -> node_at (Nd d l c r) n -> trp sg -> (size c <= k)%nat ->
    exists items sg', irec n (cpp m p) (ccmp m) (cpl m) (S k) sg n lru 0 = Some (items, sg') /\
      trp sg' /\ pm_array sg' = pm_array sg /\
      Forall2 (item3_rep s) items
        ((if mkeep m (lru ++ stem d) then [(lru ++ stem d, d, 0)] else []) ++ mino m 2 (lru ++ stem d) c).
  Proof.
    intros m p d l c r n sg lru k Hm Hsub Hn Hrep Hk.
    rewrite (irec_S n m p k sg n lru 0 Hm), mprune_0.
    pose proof Hn as (_ & Hb & _ & Hs).
    destruct (node_regs d l c r n Hn) as (Rl & Rr & Rc).
    assert (Hc : c <> Lf -> rec_ok (irec n (cpp m p) (ccmp m) (cpl m) k) m c).
    { intros _. apply (irec_spec (addr d) n m p Hb Hm c (subt_child _ _ _ _ _ Hsub)
                          (GenTrieDWdfs.noaddr_child s Hinv d l c r Hsub) k Hk). }
    set (rec := irec n (cpp m p) (ccmp m) (cpl m) k) in *.
    unfold ibody. rewrite Hb. cbn [oN_eqb]. rewrite N.eqb_refl. cbn [negb orb]. rewrite Hs.
    unfold py_node_has_child. rewrite (GenHelpersFacts.py_base4_append_eq 0 2).
    rewrite emit_eq, child_node_eq, Rc.
    match goal with |- context [call_sub _ (init_reg (root_addr c) sg) rec ?o sg ?lr ?pa] =>
      destruct (call_reg c rec m o sg lr pa (or_introl (subt_child _ _ _ _ _ Hsub)) Hrep Hc)
        as (items2 & sg2 & E2 & Hrep2 & Harr2 & F2) end.
    rewrite E2. cbn [oid app].
    eexists. exists sg2. split; [reflexivity|]. split; [exact Hrep2|]. split; [exact Harr2|].
    apply Forall2_app3; [|exact F2].
    destruct (mkeep m (lru ++ stem d)); [|constructor]. constructor; [|constructor].
    split; [reflexivity|]. split; [reflexivity|]. exists l, c, r. split; [exact Hsub|exact Hn].
  Qed.

  Theorem inorder_iter_spec : forall sg t n lru pp,
    trp sg -> subt t (tr s) -> node_at t n ->
    match pp with
    | None => exists items sg', py_trie_webentity_inorder_iter sg n lru None = Some (items, sg') /\
                trp sg' /\ pm_array sg' = pm_array sg /\
                Forall2 (item3_rep s) items (ino_at (lru_dirname lru) t)
    | Some path =>
        let cmp := if path =? 0 then [] else int_to_base4 path in
        match follow_path cmp (lru_dirname lru) t with
        | None => py_trie_webentity_inorder_iter sg n lru (Some path) = None
        | Some plru => exists items sg', py_trie_webentity_inorder_iter sg n lru (Some path) = Some (items, sg') /\
                         trp sg' /\ pm_array sg' = pm_array sg /\
                         Forall2 (item3_rep s) items (ino_from_at cmp plru (lru_dirname lru) t)
        end
    end.
  Proof.
    intros sg t n lru pp Hrep Hsub Hn.
    destruct t as [|d l c r]; [destruct Hn|].
    destruct pp as [path|]; rewrite ?inorder_eq, GenHelpers2Facts.py_lru_dirname_eq; cbv zeta.
    - set (cmp := if path =? 0 then [] else int_to_base4 path).
      assert (Ecmp : (if negb (path =? 0) then GenHelpers2.py_int_to_base4 path else []) = map b64_char cmp).
      { unfold cmp. rewrite GenHelpers2Facts.py_int_to_base4_eq. destruct (path =? 0); reflexivity. }
      assert (Hd4 : digits4 cmp).
      { unfold cmp. destruct (path =? 0); [constructor|apply digits4_base4]. }
      rewrite Ecmp.
      pose proof (py_inorder_follow_path_spec (Nd d l c r) n sg (lru_dirname lru) cmp Hsub Hn Hrep) as HF.
      destruct (follow_path cmp (lru_dirname lru) (Nd d l c r)) as [plru|]; [|rewrite HF; reflexivity].
      destruct HF as (sg1 & E1 & Hrep1 & Harr1). rewrite E1.
      pose proof (fuel_enough s (Nd d l c r) sg1 Hsub Hrep1) as Hfe. cbn [size] in Hfe.
      destruct (iroot_spec (Some (cmp, plru)) path d l c r n sg1 (lru_dirname lru) (length (pm_array sg1)) Hd4 Hsub Hn Hrep1
                  ltac:(lia)) as (items & sg' & E & Hrep' & Harr' & F).
      exists items, sg'. split; [exact E|]. split; [exact Hrep'|]. split; [congruence|exact F].
    - pose proof (fuel_enough s (Nd d l c r) sg Hsub Hrep) as Hfe. cbn [size] in Hfe.
      destruct (iroot_spec None 0 d l c r n sg (lru_dirname lru) (length (pm_array sg)) I Hsub Hn Hrep
                  ltac:(lia)) as (items & sg' & E & Hrep' & Harr' & F).
      exists items, sg'. split; [exact E|]. split; [exact Hrep'|]. split; [exact Harr'|exact F].
  Qed.
End OnState.

(* LRUTrie.webentity_inorder_iter(starting_node, starting_lru, pagination_path) on the trie file of the state, from the node
   object of the root of a subtree: without a path the items of the model's ino_at, with a path either the exception of
   follow_path (None on both sides) or the items of ino_from_at, in the same order, each yielded node object being what
   reading the node's block gives; the file is left untouched *)
Theorem py_trie_webentity_inorder_iter_spec : forall s, Inv18 s -> forall sg t n lru pp,
  trep (files_of s) sg -> subt t (tr s) -> node_at t n ->
  match pp with
  | None => exists items sg', py_trie_webentity_inorder_iter sg n lru None = Some (items, sg') /\
              trep (files_of s) sg' /\ pm_array sg' = pm_array sg /\
              Forall2 (item3_rep s) items (ino_at (lru_dirname lru) t)
  | Some path =>
      let cmp := if path =? 0 then [] else int_to_base4 path in
      match follow_path cmp (lru_dirname lru) t with
      | None => py_trie_webentity_inorder_iter sg n lru (Some path) = None
      | Some plru => exists items sg', py_trie_webentity_inorder_iter sg n lru (Some path) = Some (items, sg') /\
                       trep (files_of s) sg' /\ pm_array sg' = pm_array sg /\
                       Forall2 (item3_rep s) items (ino_from_at cmp plru (lru_dirname lru) t)
      end
  end.
Proof. intros s Hinv. exact (inorder_iter_spec s Hinv). Qed.

Print Assumptions py_inorder_follow_path_spec.
Print Assumptions py_inorder_can_follow_path_spec.
Print Assumptions py_trie_webentity_inorder_iter_spec.

(* ---- non-vacuity: the translated traversal run on the bytes of the trie file of a concrete state (the history
   GenTraphLFacts.exh_l), from the node of the page IdFacts.ex_pa and from the node of its host ---- *)
From Traph Require Ops GenTraphLFacts IdFacts.
Definition ex_s : traph := Ops.run Domain [] GenTraphLFacts.exh_l.
Definition ex_proj (l : list (py_node * bytes * N)) := map (fun '(n, lru, p) => (lru, nd_block n, p)) l.
Definition ex_projm (l : list (bytes * nd * N)) := map (fun '(lru, d, p) => (lru, Some (addr d), p)) l.
Definition ex_run (pre : bytes) (pp : option N) :=
  match py_trie_lru_node GenTraphLFacts.ex_sgt pre with
  | Some (sg1, Some n) => option_map (fun r => ex_proj (fst r)) (py_trie_webentity_inorder_iter sg1 n pre pp)
  | _ => None end.
Definition ex_model (pre : bytes) (pp : option N) :=
  match find_sub (lru_iter pre) (tr ex_s) with
  | Some sub => match pp with
                | None => Some (ex_projm (ino_at (lru_dirname pre) sub))
                | Some path => let cmp := if path =? 0 then [] else int_to_base4 path in
                    match follow_path cmp (lru_dirname pre) sub with
                    | Some plru => Some (ex_projm (ino_from_at cmp plru (lru_dirname pre) sub))
                    | None => None end
                end
  | None => None end.
(* no path: four items, at the paths 0, 11, 47, 190 *)
Example ex_inorder_all : ex_run IdFacts.ex_pa None = ex_model IdFacts.ex_pa None /\
  option_map (map snd) (ex_run IdFacts.ex_pa None) = Some [0; 11; 47; 190].
Proof. vm_compute. split; reflexivity. Qed.
(* resuming: from the paths 0 and 2 the three later items, from 11 two, from 47 one, from 190 none *)
Example ex_inorder_resume : forall p, In p [0; 2; 11; 47; 190] ->
  ex_run IdFacts.ex_pa (Some p) = ex_model IdFacts.ex_pa (Some p).
Proof. intros p Hp. repeat (destruct Hp as [<-|Hp]; [vm_compute; reflexivity|]). destruct Hp. Qed.
Example ex_inorder_resume_items :
  map (fun p => option_map (map snd) (ex_run IdFacts.ex_pa (Some p))) [0; 2; 11; 47; 190]
  = [Some [11; 47; 190]; Some [11; 47; 190]; Some [47; 190]; Some [190]; Some []].
Proof. vm_compute. reflexivity. Qed.
(* a path that leads nowhere raises on both sides *)
Example ex_inorder_fail : forall p, In p [9; 10; 38; 39; 40; 41; 42; 43; 46; 174] ->
  ex_run IdFacts.ex_pa (Some p) = None /\ ex_model IdFacts.ex_pa (Some p) = None.
Proof. intros p Hp. repeat (destruct Hp as [<-|Hp]; [vm_compute; split; reflexivity|]). destruct Hp. Qed.
(* from the host of the page: one item *)
Example ex_inorder_host : let host := firstn 13 IdFacts.ex_pa in
  ex_run host None = ex_model host None /\ option_map (map snd) (ex_run host None) = Some [0] /\
  forall p, In p [0; 2; 9; 10; 11; 38; 43; 46; 174] -> ex_run host (Some p) = ex_model host (Some p).
Proof.
  cbv zeta. split; [vm_compute; reflexivity|]. split; [vm_compute; reflexivity|].
  intros p Hp. repeat (destruct Hp as [<-|Hp]; [vm_compute; reflexivity|]). destruct Hp.
Qed.
