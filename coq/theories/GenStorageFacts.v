(* GenStorageFacts.v — the storage methods translated from traph/storage/memory.py and
   traph/storage/file.py (GenStorage.v, regenerated on every run) are the storage
   machines of Storage.v, about which C15 (StorageFacts.C15_bisim) and the write traces
   of C18 are proved.
   State correspondence: a MemoryStorage object (block_size, array, cursor) is
   (bs, m_data, m_cur); a FileStorage object over the primitive file (content, position)
   is (bs, f_data, f_pos).
   Every equation is unconditional except the append into a MemoryStorage: Python sets
   the cursor to (len(array) - block_size) + len(data), the machine to len(array); they
   agree when a whole block is appended (what LRUTrieNode.write / LinkStoreNode.write do),
   and the array and the returned block agree whenever the store holds at least a block. *)
From Coq Require Import List NArith Bool Lia Arith.
Import ListNotations.
From Traph Require Import Bytes Storage GenStorage.
Open Scope N_scope.

Definition PM (bs : N) (m : mstate) : py_pm := mk_pm bs (m_data m) (m_cur m).
Definition PF (bs : N) (f : fstate) : py_pfs := mk_pfs bs (mkPF (f_data f) (f_pos f)).

Lemma py_or_none_eq : forall b, py_or_none b = or_none b.
Proof. destruct b; reflexivity. Qed.

Lemma py_slice_bslice : forall a n l, py_slice a (a + n) l = bslice a n l.
Proof. intros a n l. unfold py_slice, bslice. replace (a + n - a) with n by lia. reflexivity. Qed.

(* ---- MemoryStorage ---- *)
Theorem py_mem_read_at : forall bs m b,
  py_pm_read (PM bs m) (Some b) =
  (PM bs (fst (mem_step bs m (SRead b))), match snd (mem_step bs m (SRead b)) with RData o => o | _ => None end).
Proof.
  intros bs m b. unfold py_pm_read, PM. cbn [mem_step fst snd pm_block_size pm_array pm_cursor m_data m_cur].
  rewrite py_slice_bslice, py_or_none_eq. reflexivity.
Qed.

Theorem py_mem_read_next : forall bs m,
  py_pm_read (PM bs m) None =
  (PM bs (fst (mem_step bs m SReadNext)), match snd (mem_step bs m SReadNext) with RData o => o | _ => None end).
Proof.
  intros bs m. unfold py_pm_read, PM. cbn [mem_step fst snd pm_block_size pm_array pm_cursor m_data m_cur].
  rewrite py_slice_bslice, py_or_none_eq. reflexivity.
Qed.

Theorem py_mem_write_at : forall bs m data b,
  py_pm_write (PM bs m) data (Some b) =
  (PM bs (fst (mem_step bs m (SWrite data b))), match snd (mem_step bs m (SWrite data b)) with RBlock x => x | _ => 0 end).
Proof.
  intros bs m data b. unfold py_pm_write, PM. cbn [mem_step fst snd pm_block_size pm_array pm_cursor m_data m_cur].
  unfold py_slice_assign, slice_assign, nlen. replace (N.max b (b + bs)) with (b + bs) by lia. reflexivity.
Qed.

Theorem py_mem_append_block : forall bs m data, nlen data = bs ->
  py_pm_write (PM bs m) data None =
  (PM bs (fst (mem_step bs m (SAppend data))), match snd (mem_step bs m (SAppend data)) with RBlock x => x | _ => 0 end).
Proof.
  intros bs m data H. unfold py_pm_write, PM. cbn [mem_step fst snd pm_block_size pm_array pm_cursor m_data m_cur].
  unfold nlen in *. f_equal. f_equal. rewrite app_length in *. lia.
Qed.

(* whatever is appended: same array, same returned block *)
Theorem py_mem_append_any : forall bs m data,
  pm_array (fst (py_pm_write (PM bs m) data None)) = m_data (fst (mem_step bs m (SAppend data))) /\
  snd (py_pm_write (PM bs m) data None) = match snd (mem_step bs m (SAppend data)) with RBlock x => x | _ => 0 end.
Proof. intros bs m data. split; reflexivity. Qed.

Theorem py_mem_len : forall bs m,
  py_pm_len (PM bs m) = (PM bs (fst (mem_step bs m SLen)), match snd (mem_step bs m SLen) with RLen n => n | _ => 0 end).
Proof. intros bs m. reflexivity. Qed.

Theorem py_mem_init : forall bs, py_pm_init bs = PM bs (mkM [] 0).
Proof. reflexivity. Qed.

(* ---- FileStorage over the primitive file ---- *)
Theorem py_file_read_at : forall bs f b,
  py_pfs_read (PF bs f) (Some b) =
  (PF bs (fst (file_step bs f (SRead b))), match snd (file_step bs f (SRead b)) with RData o => o | _ => None end).
Proof.
  intros bs f b. unfold py_pfs_read, PF, pf_read, pf_seek.
  cbn [file_step fst snd pfs_block_size pfs_file pf_content pf_pos f_data f_pos].
  rewrite py_or_none_eq. unfold bslice, nlen. reflexivity.
Qed.

Theorem py_file_read_next : forall bs f,
  py_pfs_read (PF bs f) None =
  (PF bs (fst (file_step bs f SReadNext)), match snd (file_step bs f SReadNext) with RData o => o | _ => None end).
Proof.
  intros bs f. unfold py_pfs_read, PF, pf_read.
  cbn [file_step fst snd pfs_block_size pfs_file pf_content pf_pos f_data f_pos].
  rewrite py_or_none_eq. unfold bslice, nlen. reflexivity.
Qed.

Theorem py_file_write_at : forall bs f data b,
  py_pfs_write (PF bs f) data (Some b) =
  (PF bs (fst (file_step bs f (SWrite data b))), match snd (file_step bs f (SWrite data b)) with RBlock x => x | _ => 0 end).
Proof.
  intros bs f data b. unfold py_pfs_write, PF, pf_write, pf_seek.
  cbn [file_step fst snd pfs_block_size pfs_file pf_content pf_pos f_data f_pos].
  unfold overwrite, nlen. reflexivity.
Qed.

Theorem py_file_append : forall bs f data,
  py_pfs_write (PF bs f) data None =
  (PF bs (fst (file_step bs f (SAppend data))), match snd (file_step bs f (SAppend data)) with RBlock x => x | _ => 0 end).
Proof.
  intros bs f data. unfold py_pfs_write, PF, pf_write, pf_seek_end.
  cbn [file_step fst snd pfs_block_size pfs_file pf_content pf_pos f_data f_pos].
  unfold overwrite, nlen. reflexivity.
Qed.

Theorem py_file_len : forall bs f,
  py_pfs_len (PF bs f) = (PF bs (fst (file_step bs f SLen)), match snd (file_step bs f SLen) with RLen n => n | _ => 0 end).
Proof. intros bs f. reflexivity. Qed.

(* check_for_corruption: a length that is not a whole number of blocks *)
Theorem py_file_corrupt : forall bs f,
  snd (py_pfs_check_for_corruption (PF bs f)) = negb (nlen (f_data f) mod bs =? 0).
Proof. intros bs f. unfold py_pfs_check_for_corruption, py_pfs_len, PF, pf_seek_end, nlen. cbn. destruct (_ =? 0); reflexivity. Qed.

Print Assumptions py_mem_read_at.
Print Assumptions py_mem_read_next.
Print Assumptions py_mem_write_at.
Print Assumptions py_mem_append_block.
Print Assumptions py_mem_append_any.
Print Assumptions py_mem_len.
Print Assumptions py_file_read_at.
Print Assumptions py_file_read_next.
Print Assumptions py_file_write_at.
Print Assumptions py_file_append.
Print Assumptions py_file_len.
Print Assumptions py_file_corrupt.
