(* Sched.v — long-running requests as coroutines advanced in turns at their yield
   points (model of the *_iter generators of traph.py with every `should_yield`
   answering yes): index_batch_crawl_iter, add_webentity_creation_rule_iter and
   get_webentity_pages_iter.  One [*_step] = the code between two consecutive
   yields.  Local variables of a generator (the `pages` cache, the pending inlinks
   multimap, traversal stacks with block addresses, node data read before a yield)
   live in the coroutine state; the index is the shared [traph].  Definitions only. *)
From Coq Require Import List NArith Bool.
From Traph Require Import Bytes Consts Helpers Rules Tst TstDefs Traph.
Import ListNotations.
Open Scope N_scope.

(* ---- reading a node by block address (node.read(block)) ------------------------- *)
Record rnode := mkRN { rn_d : nd; rn_left : N; rn_right : N; rn_child : N }.
Fixpoint read_at (a : N) (t : tst) : option rnode :=
  match t with
  | Lf => None
  | Nd d l c r =>
      if addr d =? a then Some (mkRN d (root_addr l) (root_addr r) (root_addr c))
      else match read_at a c with
           | Some x => Some x
           | None => match read_at a l with Some x => Some x | None => read_at a r end
           end
  end.

(* ---- index_batch_crawl_iter ----------------------------------------------------- *)
Record bco := mkB {
  b_todo : list (bytes * list bytes);                    (* sources not started yet *)
  b_cur : option (bytes * list bytes * list bytes);      (* source, targets to do, targets done (in order) *)
  b_seen : list bytes;                                   (* keys of the `pages` cache *)
  b_ins : list (bytes * list bytes);                     (* inlinks multimap *)
  b_flush : option (list (bytes * list bytes));          (* second loop: entries left; None = first loop *)
  b_n : N;
  b_c : list (N * list bytes);
  b_done : bool
}.
Definition batch_start (data : list (bytes * list bytes)) : bco :=
  mkB data None [] [] None 0 [] false.

Definition b_see (l : bytes) (cr : bool) (b : bco) (s : traph) : bco * traph :=
  let '(s', n', c') := add_page_int l cr s in
  (mkB (b_todo b) (b_cur b) (l :: b_seen b) (b_ins b) (b_flush b) (b_n b + n') (b_c b ++ c') false, s').

(* runs to the next yield; fuel bounds the number of loop iterations without a yield *)
Fixpoint batch_step (fuel : nat) (b : bco) (s : traph) : bco * traph :=
  match fuel with
  | O => (b, s)
  | S f =>
    match b_flush b with
    | Some [] => (mkB [] None (b_seen b) (b_ins b) (Some []) (b_n b) (b_c b) true, s)      (* finalize *)
    | Some ((t, srcs) :: rest) =>
        (mkB [] None (b_seen b) (b_ins b) (Some rest) (b_n b) (b_c b) false,
         store_links false (lru_iter t) (map (fun o => addr_of o s) srcs) s)               (* add_inlinks; yield *)
    | None =>
      match b_cur b with
      | None =>
          match b_todo b with
          | [] => batch_step f (mkB [] None (b_seen b) (b_ins b) (Some (b_ins b)) (b_n b) (b_c b) false) s
          | (src, tgts) :: todo =>
              let b0 := mkB todo (Some (src, tgts, [])) (b_seen b) (b_ins b) None (b_n b) (b_c b) false in
              if mem_bytes src (b_seen b)
              then batch_step f b0 (set_tree (upd set_crawled (lru_iter src) (tr s)) s)
              else let '(b1, s1) := b_see src true b0 s in batch_step f b1 s1
          end
      | Some (src, [], done) =>
          batch_step f (mkB (b_todo b) None (b_seen b) (b_ins b) None (b_n b) (b_c b) false)
                     (store_links true (lru_iter src) (map (fun o => addr_of o s) done) s)
      | Some (src, t :: rest, done) =>
          let b0 := mkB (b_todo b) (Some (src, rest, done ++ [t])) (b_seen b) (mm_add t src (b_ins b)) None
                        (b_n b) (b_c b) false in
          if mem_bytes t (b_seen b) then batch_step f b0 s
          else b_see t false b0 s                                                           (* new page; yield *)
      end
    end
  end.
Definition batch_fuel (b : bco) : nat :=
  S (S (length (b_todo b) + fold_right (fun x acc => (S (length (snd x)) + acc)%nat) 0%nat (b_todo b)
        + match b_cur b with Some (_, r, _) => S (length r) | None => 0%nat end)).

(* ---- add_webentity_creation_rule_iter --------------------------------------------- *)
Record rco := mkRC {
  r_init : option (bytes * rulekind);         (* Some: the set-up has not run yet *)
  r_start : N;                                (* block of the anchor node *)
  r_stack : list (N * bytes);                 (* dfs stack: (block, lru of the level above) *)
  r_pend : list (N * bytes);                  (* pushes owed by the node yielded last (read before the yield) *)
  r_n : N; r_c : list (N * list bytes);
  r_done : bool
}.
Definition rule_start (p : bytes) (k : rulekind) : rco := mkRC (Some (p, k)) 0 [] [] 0 [] false.

Definition nz (a : N) (x : bytes) : list (N * bytes) := if a =? 0 then [] else [(a, x)].

Definition rule_step (r : rco) (s : traph) : rco * traph :=
  let '(r0, s0) :=
      match r_init r with
      | Some (p, k) =>
          let s0 := mkT (tr s) (nb s) (lastwe s) (stubs s) (aset p k (rules s)) (dflt s) in
          let '(s1, _) := add_lru false p s0 in
          let s2 := set_tree (upd (set_rule true) (lru_iter p) (tr s1)) s1 in
          let a := addr_of p s2 in
          (mkRC None a [(a, lru_dirname p)] [] 0 [] false, s2)
      | None => (r, s)
      end in
  (* pushes owed by the previous node go on top of the stack: right, left, child - popped in reverse *)
  match r_pend r0 ++ r_stack r0 with
  | [] => (mkRC None (r_start r0) [] [] (r_n r0) (r_c r0) true, s0)
  | (a, pre) :: rest =>
      match read_at a (tr s0) with
      | None => (mkRC None (r_start r0) rest [] (r_n r0) (r_c r0) false, s0)
      | Some x =>
          let cur := pre ++ stem (rn_d x) in
          let '(s1, n', c') := if page (rn_d x) then add_page_int cur false s0 else (s0, 0, []) in
          (* stack order: child on top, then left, then right *)
          let pend := nz (rn_child x) cur
                        ++ (if a =? r_start r0 then [] else nz (rn_left x) pre ++ nz (rn_right x) pre) in
          (mkRC None (r_start r0) rest pend (r_n r0 + n') (r_c r0 ++ c') false, s1)
      end
  end.

(* ---- get_webentity_pages_iter ------------------------------------------------------ *)
Record qco := mkQ {
  q_prefixes : list bytes;                    (* prefixes not started yet *)
  q_start : N;
  q_stack : list (N * bytes * N);             (* (block, lru above, level) *)
  q_pend : list (N * bytes * N);
  q_acc : list (bytes * bool);
  q_done : bool;
  q_refused : bool
}.
Definition pagesq_start (ps : list bytes) : qco := mkQ ps 0 [] [] [] false false.
Definition nz3 (a : N) (x : bytes) (lv : N) : list (N * bytes * N) := if a =? 0 then [] else [(a, x, lv)].

(* runs the traversal until the next page node (yield) or the end *)
Fixpoint pagesq_step (fuel : nat) (q : qco) (s : traph) : qco :=
  match fuel with
  | O => q
  | S f =>
    match q_pend q ++ q_stack q with
    | [] =>
        match q_prefixes q with
        | [] => mkQ [] 0 [] [] (q_acc q) true false
        | p :: ps =>
            match find (lru_iter p) (tr s) with
            | None => mkQ [] 0 [] [] (q_acc q) true true                    (* TraphException *)
            | Some d => pagesq_step f (mkQ ps (addr d) [(addr d, lru_dirname p, 0)] [] (q_acc q) false false) s
            end
        end
    | (a, pre, lv) :: rest =>
        match read_at a (tr s) with
        | None => pagesq_step f (mkQ (q_prefixes q) (q_start q) rest [] (q_acc q) false false) s
        | Some x =>
            let d := rn_d x in
            let cur := pre ++ stem d in
            let rel := (a =? q_start q) || (we d =? 0) in
            let pushes :=
                (if rel then nz3 (rn_child x) cur (lv + 1) else [])
                  ++ (if a =? q_start q then [] else nz3 (rn_left x) pre lv ++ nz3 (rn_right x) pre lv) in
            if rel && page d
            then mkQ (q_prefixes q) (q_start q) rest pushes (q_acc q ++ [(cur, crawled d)]) false false   (* yield *)
            else pagesq_step f (mkQ (q_prefixes q) (q_start q) (pushes ++ rest) [] (q_acc q) false false) s
        end
    end
  end.

(* ---- get_webentities_links_iter (the fast network query) --------------------------- *)
Record nco := mkNC {
  n_out : bool; n_auto : bool;
  n_started : bool;
  n_stack : list (N * N);                      (* phase 1: (block, inherited webentity) *)
  n_pend : list (N * N);
  n_p2w : list (N * N);                        (* page block -> webentity *)
  n_ptrs : list (N * N);                       (* (source webentity, head of its link list) *)
  n_items : list (N * N * N);                  (* phase 2: (source we, target block, weight) still to process *)
  n_phase2 : bool;
  n_graph : list (N * N * N * N);
  n_done : bool
}.
Definition netq_start (out auto : bool) : nco := mkNC out auto false [] [] [] [] [] false [] false.
Definition nz2 (a w : N) : list (N * N) := if a =? 0 then [] else [(a, w)].
Definition p2w_get (a : N) (m : list (N * N)) : N :=
  match List.find (fun x => fst x =? a) m with Some (_, w) => w | None => 0 end.

Fixpoint netq_step (fuel : nat) (q : nco) (s : traph) : nco :=
  match fuel with
  | O => q
  | S f =>
    if n_phase2 q then
      match n_items q with
      | (sw, tg, wt) :: rest =>
          let q' g := mkNC (n_out q) (n_auto q) true [] [] (n_p2w q) (n_ptrs q) rest true g false in
          let tw := p2w_get tg (n_p2w q) in
          if tw =? 0 then netq_step f (q' (n_graph q)) s
          else if negb (n_auto q) && (sw =? tw) then netq_step f (q' (n_graph q)) s
          else q' (gincr (sw, 0, tw) wt (n_graph q))                                      (* yield *)
      | [] =>
          match n_ptrs q with
          | [] => mkNC (n_out q) (n_auto q) true [] [] (n_p2w q) [] [] true (n_graph q) true   (* finalize *)
          | (sw, h) :: ptrs =>
              netq_step f (mkNC (n_out q) (n_auto q) true [] [] (n_p2w q) ptrs
                                (map (fun x => (sw, fst x, snd x)) (weighted (targets_of (stubs s) h)))
                                true (n_graph q) false) s
          end
      end
    else
      let q0 := if n_started q then q
                else mkNC (n_out q) (n_auto q) true (nz2 (root_addr (tr s)) 0) [] [] [] [] false [] false in
      match n_pend q0 ++ n_stack q0 with
      | [] => netq_step f (mkNC (n_out q0) (n_auto q0) true [] [] (n_p2w q0) (n_ptrs q0) [] true (n_graph q0) false) s
      | (a, w) :: rest =>
          match read_at a (tr s) with
          | None => netq_step f (mkNC (n_out q0) (n_auto q0) true rest [] (n_p2w q0) (n_ptrs q0) [] false (n_graph q0) false) s
          | Some x =>
              let d := rn_d x in
              let cur := if we d =? 0 then w else we d in
              (* stack order: child on top, then left, then right *)
              let pushes := nz2 (rn_child x) cur ++ nz2 (rn_left x) w ++ nz2 (rn_right x) w in
              if page d && negb (cur =? 0) then
                let h := if n_out q0 then outh d else inh d in
                mkNC (n_out q0) (n_auto q0) true rest pushes ((a, cur) :: n_p2w q0)
                     (n_ptrs q0 ++ (if h =? 0 then [] else [(cur, h)])) [] false
                     (gincr (cur, if crawled d then 1 else 2, 0) 1 (n_graph q0)) false          (* yield *)
              else netq_step f (mkNC (n_out q0) (n_auto q0) true (pushes ++ rest) [] (n_p2w q0) (n_ptrs q0) [] false
                                     (n_graph q0) false) s
          end
      end
  end.

(* ---- get_webentity_pagelinks_iter (page-link query) --------------------------------- *)
Record lco := mkL {
  l_we : N; l_inb : bool; l_int : bool; l_outb : bool;
  l_prefixes : list bytes;                    (* prefixes not started yet *)
  l_start : N;
  l_stack : list (N * bytes * N);             (* (block, lru above, level) *)
  l_items : list (bool * bytes * N * N);      (* (is an outlink, lru of the page, other end's block, weight) still to process *)
  l_inpend : option (bytes * N);              (* (lru of the page, head of its inlinks): expanded after its outlinks *)
  l_acc : list (bytes * bytes * N);
  l_done : bool;
  l_refused : bool
}.
Definition plinksq_start (w : N) (ps : list bytes) (inb int outb : bool) : lco :=
  mkL w inb int outb ps 0 [] [] None [] false false.

(* runs until one link item has been processed (yield) or the end *)
Fixpoint plinksq_step (fuel : nat) (q : lco) (s : traph) : lco :=
  match fuel with
  | O => q
  | S f =>
    let mk ps st stk its ip acc dn rf := mkL (l_we q) (l_inb q) (l_int q) (l_outb q) ps st stk its ip acc dn rf in
    if negb (l_int q) && negb (l_outb q) && negb (l_inb q) then mk [] 0 [] [] None [] true true
    else
    match l_items q with
    | (isout, lru, other, wt) :: rest =>
        let ow := we_at other (tr s) in
        let ol := lru_at other s in
        let add :=
            if isout then
              if (l_outb q && negb (ow =? l_we q)) || (l_int q && (ow =? l_we q)) then [(lru, ol, wt)] else []
            else if negb (ow =? l_we q) then [(ol, lru, wt)] else [] in
        mk (l_prefixes q) (l_start q) (l_stack q) rest (l_inpend q) (l_acc q ++ add) false false     (* yield *)
    | [] =>
        match l_inpend q with
        | Some (lru, h) =>
            plinksq_step f (mk (l_prefixes q) (l_start q) (l_stack q)
                               (map (fun x => (false, lru, fst x, snd x)) (weighted (targets_of (stubs s) h)))
                               None (l_acc q) false false) s
        | None =>
            match l_stack q with
            | [] =>
                match l_prefixes q with
                | [] => mk [] 0 [] [] None (l_acc q) true false
                | p :: ps =>
                    match find (lru_iter p) (tr s) with
                    | None => mk [] 0 [] [] None (l_acc q) true true                   (* TraphException *)
                    | Some d => plinksq_step f (mk ps (addr d) [(addr d, lru_dirname p, 0)] [] None (l_acc q) false false) s
                    end
                end
            | (a, pre, lv) :: rest =>
                match read_at a (tr s) with
                | None => plinksq_step f (mk (l_prefixes q) (l_start q) rest [] None (l_acc q) false false) s
                | Some x =>
                    let d := rn_d x in
                    let cur := pre ++ stem d in
                    let rel := (a =? l_start q) || (we d =? 0) in
                    let pushes :=
                        (if rel then nz3 (rn_child x) cur (lv + 1) else [])
                          ++ (if a =? l_start q then [] else nz3 (rn_left x) pre lv ++ nz3 (rn_right x) pre lv) in
                    let outs := if rel && page d && negb (outh d =? 0) && (l_outb q || l_int q)
                                then map (fun y => (true, cur, fst y, snd y)) (weighted (targets_of (stubs s) (outh d)))
                                else [] in
                    let ins := if rel && page d && negb (inh d =? 0) && l_inb q then Some (cur, inh d) else None in
                    plinksq_step f (mk (l_prefixes q) (l_start q) (pushes ++ rest) outs ins (l_acc q) false false) s
                end
            end
        end
    end
  end.

(* ---- scheduler --------------------------------------------------------------------- *)
Inductive coro :=
| CBatch (b : bco)
| CRule (r : rco)
| CPages (q : qco)
| CNet (q : nco)
| CLinks (q : lco).

Definition co_done (c : coro) : bool :=
  match c with CBatch b => b_done b | CRule r => r_done r | CPages q => q_done q | CNet q => n_done q | CLinks q => l_done q end.

Definition tree_size (t : tst) : nat := length (all_nodes t).

Definition co_step (c : coro) (s : traph) : coro * traph :=
  if co_done c then (c, s)
  else match c with
       | CBatch b => let '(b', s') := batch_step (batch_fuel b) b s in (CBatch b', s')
       | CRule r => let '(r', s') := rule_step r s in (CRule r', s')
       | CPages q => (CPages (pagesq_step (S (S (length (q_prefixes q) + length (q_prefixes q) * tree_size (tr s)
                                                 + tree_size (tr s) + length (q_stack q) + length (q_pend q)))) q s), s)
       | CNet q => (CNet (netq_step (S (S (S (tree_size (tr s) + length (stubs s) + length (n_items q) + length (n_ptrs q)
                                               + length (n_stack q) + length (n_pend q))))) q s), s)
       | CLinks q => (CLinks (plinksq_step (4 + length (l_prefixes q) + length (l_stack q)
                                             + 2 * (S (length (l_prefixes q))) * S (tree_size (tr s))) q s), s)
       end.

Fixpoint set_nth_co (n : nat) (c : coro) (l : list coro) : list coro :=
  match l, n with
  | [], _ => []
  | _ :: l', O => c :: l'
  | x :: l', S n' => x :: set_nth_co n' c l'
  end.

(* advance, in this order, the coroutines named by the schedule *)
Fixpoint exec_sched (sched : list nat) (cs : list coro) (s : traph) : list coro * traph :=
  match sched with
  | [] => (cs, s)
  | i :: sched' =>
      match nth_error cs i with
      | None => exec_sched sched' cs s
      | Some c => let '(c', s') := co_step c s in exec_sched sched' (set_nth_co i c' cs) s'
      end
  end.

(* run one coroutine alone to completion *)
Fixpoint run_alone (fuel : nat) (c : coro) (s : traph) : coro * traph :=
  match fuel with
  | O => (c, s)
  | S f => if co_done c then (c, s) else let '(c', s') := co_step c s in run_alone f c' s'
  end.
