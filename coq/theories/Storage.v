(* Storage.v — the two storage back-ends as state machines over bytes
   (traph/storage/file.py on a binary file opened rb+/wb+, traph/storage/memory.py on a
   bytearray), plus the read-only memory map.  Definitions only. *)
From Coq Require Import List NArith Bool.
From Traph Require Import Bytes.
Import ListNotations.
Open Scope N_scope.

Definition nlen (b : bytes) : N := N.of_nat (length b).
Definition bslice (off len : N) (b : bytes) : bytes := firstn (N.to_nat len) (skipn (N.to_nat off) b).
(* file.write at position pos: a hole beyond the end is zero filled, bytes under the data are replaced *)
Definition overwrite (pos : N) (data content : bytes) : bytes :=
  let padded := content ++ repeat 0 (N.to_nat pos - length content) in
  firstn (N.to_nat pos) padded ++ data ++ skipn (N.to_nat pos + length data) padded.
(* bytearray slice assignment a[pos:pos+bs] = data : the slice is clipped to the array, then replaced *)
Definition slice_assign (pos bs : N) (data content : bytes) : bytes :=
  firstn (N.to_nat pos) content ++ data ++ skipn (N.to_nat (pos + bs)) content.

Inductive sop :=
| SRead (b : N)                   (* storage.read(b) *)
| SReadNext                       (* storage.read()  : continue at the cursor *)
| SWrite (data : bytes) (b : N)   (* storage.write(data, b) *)
| SAppend (data : bytes)          (* storage.write(data) *)
| SLen                            (* len(storage) *)
| SCount.                         (* storage.count_blocks() numerator: same as len *)

Inductive sres := RData (o : option bytes) | RBlock (b : N) | RLen (n : N).

Definition or_none (b : bytes) : option bytes := match b with [] => None | _ => Some b end.

Record fstate := mkF { f_data : bytes; f_pos : N }.
Record mstate := mkM { m_data : bytes; m_cur : N }.

Definition file_step (bs : N) (st : fstate) (o : sop) : fstate * sres :=
  match o with
  | SRead b =>
      let d := bslice b bs (f_data st) in (mkF (f_data st) (b + nlen d), RData (or_none d))
  | SReadNext =>
      let d := bslice (f_pos st) bs (f_data st) in (mkF (f_data st) (f_pos st + nlen d), RData (or_none d))
  | SWrite data b =>
      let c := overwrite b data (f_data st) in (mkF c (b + nlen data), RBlock (b + nlen data - bs))
  | SAppend data =>
      let e := nlen (f_data st) in
      let c := overwrite e data (f_data st) in (mkF c (e + nlen data), RBlock (e + nlen data - bs))
  | SLen | SCount => (mkF (f_data st) (nlen (f_data st)), RLen (nlen (f_data st)))
  end.

Definition mem_step (bs : N) (st : mstate) (o : sop) : mstate * sres :=
  match o with
  | SRead b => (mkM (m_data st) (b + bs), RData (or_none (bslice b bs (m_data st))))
  | SReadNext => (mkM (m_data st) (m_cur st + bs), RData (or_none (bslice (m_cur st) bs (m_data st))))
  | SWrite data b =>
      (mkM (slice_assign b bs data (m_data st)) (b + nlen data), RBlock b)
  | SAppend data =>
      let c := m_data st ++ data in (mkM c (nlen c), RBlock (nlen c - bs))
  | SLen | SCount => (st, RLen (nlen (m_data st)))
  end.

Fixpoint file_run (bs : N) (st : fstate) (ops : list sop) : fstate * list sres :=
  match ops with
  | [] => (st, [])
  | o :: ops' => let '(st1, r) := file_step bs st o in
                 let '(st2, rs) := file_run bs st1 ops' in (st2, r :: rs)
  end.
Fixpoint mem_run (bs : N) (st : mstate) (ops : list sop) : mstate * list sres :=
  match ops with
  | [] => (st, [])
  | o :: ops' => let '(st1, r) := mem_step bs st o in
                 let '(st2, rs) := mem_run bs st1 ops' in (st2, r :: rs)
  end.

(* MemMapStorage.read(block) on the flushed file content *)
Definition memmap_read (bs : N) (content : bytes) (b : N) : option bytes := or_none (bslice b bs content).

(* the discipline under which the trie and the link store use a storage:
   a cursor read only directly after another read; positioned writes of exactly one
   block at an offset not beyond the end of the store.
   [n] = current length, [after_read] = the previous operation was a read *)
Fixpoint disciplined (bs n : N) (after_read : bool) (ops : list sop) : bool :=
  match ops with
  | [] => true
  | SRead _ :: r => disciplined bs n true r
  | SReadNext :: r => after_read && disciplined bs n true r
  | SWrite data b :: r => (nlen data =? bs) && (b <=? n) && disciplined bs (N.max n (b + bs)) false r
  | SAppend data :: r => disciplined bs (n + nlen data) false r
  | SLen :: r | SCount :: r => disciplined bs n false r
  end.
