(* GenTrieWPage.v — the translated LRUTrie.add_page (GenTrieW.py_trie_add_page, generated from
   /repo/traph/lru_trie/lru_trie.py) agrees with the model Traph.trie_add_page, given the specification of the translated
   add_lru (proved separately):
     after add_lru, the page bit (and the crawled bit) is set in the node object and its 128-byte block is rewritten in place;
     the storage then holds the files of the model's state after trie_add_page, the history object corresponds to the model's
     history with page_was_created, and the returned node object is the one of the node at the LRU. *)
From Coq Require Import List NArith Bool Lia Arith.
Import ListNotations.
From Traph Require Import Bytes Consts Layout Helpers Rules Tst TstDefs Traph Traphw TraceDefs Codec CodecFacts
  TstFacts Store StoreFacts GenStorage GenNode GenNodeFacts GenTrie GenTrieFacts GenTrieW GenTrieWDefs.
From Traph Require Import TraceFacts2 TraceFacts3 TraceFacts4.
Open Scope N_scope.

Arguments N.shiftr : simpl never.
Arguments N.shiftl : simpl never.
Arguments N.modulo : simpl never.
Arguments N.div : simpl never.
Arguments N.land : simpl never.
Arguments N.lor : simpl never.
Arguments N.mul : simpl never.
Arguments N.add : simpl never.
Arguments N.sub : simpl never.
Arguments N.ltb : simpl never.
Arguments N.eqb : simpl never.

(* ====================================================================================== *)
(* 1. the flag accessors on the registers of a block                                      *)
(* ====================================================================================== *)
Lemma py_test_flags : forall b pos,
  py_test (tblock_vals b) (N.of_nat pos_flags) pos = N.testbit (b_flags b) pos.
Proof.
  intros b pos. unfold py_test.
  change (py_get_num (N.to_nat (N.of_nat pos_flags)) (tblock_vals b)) with (b_flags b).
  apply py_test_testbit.
Qed.

Definition blk_with_flags (fl : N) (b : tblock) : tblock :=
  mkBlk (b_stem b) fl (b_we b) (b_left b) (b_right b) (b_child b) (b_parent b) (b_out b) (b_in b).

Lemma py_flag_flags : forall b pos,
  py_flag (tblock_vals b) (N.of_nat pos_flags) pos =
  tblock_vals (blk_with_flags (N.lor (b_flags b) (N.shiftl 1 pos)) b).
Proof. intros [st fl w l r c pa o i] pos. reflexivity. Qed.

Lemma flags_set_page : forall d, N.lor (flags_of d) (N.shiftl 1 flag_page) = flags_of (set_page d).
Proof.
  intro d. unfold flags_of, set_page. cbn [page crawled rule stem nochild].
  destruct (page d), (crawled d), (rule d), (has_tail_of (stem d)), (nochild d); reflexivity.
Qed.
Lemma flags_set_crawled : forall d, N.lor (flags_of d) (N.shiftl 1 flag_crawled) = flags_of (set_crawled d).
Proof.
  intro d. unfold flags_of, set_crawled. cbn [page crawled rule stem nochild].
  destruct (page d), (crawled d), (rule d), (has_tail_of (stem d)), (nochild d); reflexivity.
Qed.
Lemma flags_of_lt : forall d, flags_of d < 256.
Proof.
  intro d. unfold flags_of.
  destruct (page d), (crawled d), (rule d), (has_tail_of (stem d)), (nochild d); reflexivity.
Qed.

Lemma main_block_set_page : forall d la ra ca,
  blk_with_flags (N.lor (b_flags (main_block d la ra ca)) (N.shiftl 1 flag_page)) (main_block d la ra ca)
  = main_block (set_page d) la ra ca.
Proof. intros d la ra ca. unfold main_block, blk_with_flags. cbn [b_flags]. rewrite flags_set_page. reflexivity. Qed.
Lemma main_block_set_crawled : forall d la ra ca,
  blk_with_flags (N.lor (b_flags (main_block d la ra ca)) (N.shiftl 1 flag_crawled)) (main_block d la ra ca)
  = main_block (set_crawled d) la ra ca.
Proof. intros d la ra ca. unfold main_block, blk_with_flags. cbn [b_flags]. rewrite flags_set_crawled. reflexivity. Qed.

(* the accessors of a node object holding the registers of the main block of d *)
Lemma is_page_main : forall n d la ra ca, nd_data n = tblock_vals (main_block d la ra ca) ->
  py_node_is_page n = page d.
Proof. intros n d la ra ca H. unfold py_node_is_page. rewrite H, py_test_flags. apply flags_page. Qed.
Lemma is_crawled_main : forall n d la ra ca, nd_data n = tblock_vals (main_block d la ra ca) ->
  py_node_is_crawled n = crawled d.
Proof. intros n d la ra ca H. unfold py_node_is_crawled. rewrite H, py_test_flags. apply flags_crawled. Qed.
Lemma flag_as_page_main : forall n d la ra ca, nd_data n = tblock_vals (main_block d la ra ca) ->
  nd_data (py_node_flag_as_page n) = tblock_vals (main_block (set_page d) la ra ca).
Proof.
  intros n d la ra ca H. unfold py_node_flag_as_page. cbn [nd_set_data nd_data].
  rewrite H, py_flag_flags, main_block_set_page. reflexivity.
Qed.
Lemma flag_as_crawled_main : forall n d la ra ca, nd_data n = tblock_vals (main_block d la ra ca) ->
  nd_data (py_node_flag_as_crawled n) = tblock_vals (main_block (set_crawled d) la ra ca).
Proof.
  intros n d la ra ca H. unfold py_node_flag_as_crawled. cbn [nd_set_data nd_data].
  rewrite H, py_flag_flags, main_block_set_crawled. reflexivity.
Qed.

(* ====================================================================================== *)
(* 2. rewriting one block in place, on trep                                               *)
(* ====================================================================================== *)
Lemma set_nth_split : forall (A : Type) (bs : list A) j b0 b', nth_error bs j = Some b0 ->
  exists bs1 bs2, bs = bs1 ++ b0 :: bs2 /\ length bs1 = j /\ set_nth j b' bs = bs1 ++ b' :: bs2.
Proof.
  intros A bs. induction bs as [|x bs IH]; intros j b0 b' H; [destruct j; discriminate H|].
  destruct j as [|j].
  - injection H as ->. exists [], bs. repeat split.
  - cbn [nth_error] in H. destruct (IH j b0 b' H) as (bs1 & bs2 & E & Hl & Es).
    exists (x :: bs1), bs2. cbn [app length set_nth]. rewrite <- E, Es, Hl. repeat split.
Qed.

Lemma tidx_blk_off : forall j, tidx (blk_off j) = j.
Proof.
  intro j. unfold tidx, blk_off, bsz. change py_node_block_size with 128.
  rewrite N.mul_comm, N.div_mul by discriminate. lia.
Qed.

(* a storage holding the files f, after the 128 bytes at the offset of data block j are replaced by the bytes of b',
   holds the files after the write TSet (offset of j) b' *)
Lemma trep_set : forall f sg j b0 b' c,
  trep f sg -> nth_error (ft f) j = Some b0 -> blk_encodable b' ->
  let a := blk_off j in
  trep (apply (TSet a b') f)
       (mk_pm py_node_block_size
          (firstn (N.to_nat a) (pm_array sg) ++ encode_tblock b' ++ skipn (N.to_nat a + 128) (pm_array sg)) c).
Proof.
  intros f sg j b0 b' c (Hbs & (hdr & Harr & Hh) & Henc) Hn Hb' a.
  destruct (set_nth_split _ (ft f) j b0 b' Hn) as (bs1 & bs2 & E & Hl & Es).
  assert (Ha : N.to_nat a = (length hdr + length (flat_map encode_tblock bs1))%nat).
  { unfold a. rewrite blk_off_eq, flat_blocks_length, Hh, Hl. lia. }
  split; [reflexivity|]. split.
  - exists hdr. split; [|exact Hh]. cbn [pm_array apply ft]. unfold a at 3. rewrite tidx_blk_off, Es.
    rewrite Harr, E. rewrite !flat_map_app. cbn [flat_map].
    set (P := hdr ++ flat_map encode_tblock bs1).
    assert (HP : N.to_nat a = length P) by (unfold P; rewrite app_length; exact Ha).
    replace (hdr ++ flat_map encode_tblock bs1 ++ encode_tblock b0 ++ flat_map encode_tblock bs2)
      with (P ++ encode_tblock b0 ++ flat_map encode_tblock bs2) by (unfold P; rewrite <- app_assoc; reflexivity).
    replace (hdr ++ flat_map encode_tblock bs1 ++ encode_tblock b' ++ flat_map encode_tblock bs2)
      with (P ++ encode_tblock b' ++ flat_map encode_tblock bs2) by (unfold P; rewrite <- app_assoc; reflexivity).
    rewrite HP.
    rewrite firstn_app, firstn_all, Nat.sub_diag, firstn_O, app_nil_r.
    rewrite skipn_app. rewrite skipn_all2 by lia.
    replace (length P + 128 - length P)%nat with (length (encode_tblock b0)) by (rewrite encode_tblock_length; lia).
    rewrite skipn_app, skipn_all, Nat.sub_diag, skipn_O. reflexivity.
  - cbn [apply ft]. unfold a. rewrite tidx_blk_off, Es. rewrite E in Henc.
    apply Forall_app in Henc. destruct Henc as [H1 H2]. inversion H2 as [|? ? _ H3]; subst.
    apply Forall_app. split; [exact H1|]. constructor; assumption.
Qed.

(* ====================================================================================== *)
(* 3. node.write() of an existing node whose flags were changed                           *)
(* ====================================================================================== *)
Lemma main_block_encodable_flags : forall d d' la ra ca,
  stem d' = stem d -> we d' = we d -> par d' = par d -> outh d' = outh d -> inh d' = inh d ->
  blk_encodable (main_block d la ra ca) -> blk_encodable (main_block d' la ra ca).
Proof.
  intros d d' la ra ca Hs Hw Hp Ho Hi (H1 & H2 & H3 & H4 & H5 & H6 & H7 & H8 & H9).
  unfold main_block in *.
  cbn [b_stem b_flags b_we b_left b_right b_child b_parent b_out b_in] in *.
  rewrite Hs, Hw, Hp, Ho, Hi. repeat split; try assumption. apply flags_of_lt.
Qed.

Section Rewrite.
  Variable s : traph.
  Hypothesis Hinv : Inv18 s.

  (* the node at path p carries d; its node object, with the registers of (f d) for a rewrite f that keeps the place, the
     webentity and the link heads and only adds page / crawled marks, is written: the storage then holds the files of the state
     whose tree is upd f p, and the node object is the one of the updated node *)
  Lemma rewrite_in_place : forall (f : nd -> nd) p d l c r n sg,
    soft f -> (forall d, we (f d) = we d) ->
    find_sub p (tr s) = Some (Nd d l c r) ->
    trep (files_of s) sg ->
    nd_exists n = true -> nd_block n = Some (addr d) ->
    nd_data n = tblock_vals (main_block (f d) (root_addr l) (root_addr r) (root_addr c)) ->
    py_node_stem n = stem d ->
    let s' := set_tree (upd f p (tr s)) s in
    exists sg', py_node_write n sg = (n, sg') /\ trep (files_of s') sg' /\ Inv18 s' /\
      find_sub p (tr s') = Some (Nd (f d) l c r) /\ node_at (Nd (f d) l c r) n.
  Proof.
    intros f p d l c r n sg Hsoft Hwe Hfs Hrep Hex Hblk Hdata Hstem s'.
    pose proof (find_sub_subt _ _ _ Hfs) as Hsub.
    pose proof Hrep as (Hbs & _ & Henc).
    pose proof (blk_at_main_subt s Hinv d l c r Hsub) as Hb.
    destruct (blk_at_off _ _ _ Hb) as [Ha Hn].
    destruct Hsoft as [Hk Hf].
    assert (Hs : forall d, stem (f d) = stem d) by (intro d0; apply Hk).
    assert (Had : forall d, addr (f d) = addr d) by (intro d0; apply Hk).
    assert (Hp : forall d, par (f d) = par d) by (intro d0; apply Hk).
    destruct (placed_upd f Hs Had p (tr s) d l c r Hfs) as (_ & _ & _ & _ & E3 & _).
    destruct (soft_Tr f p s Hinv (conj Hk Hf)) as (Eap & Hinv' & _).
    unfold nwp in Eap. rewrite E3, Had in Eap. cbn [apply_all fold_left] in Eap.
    set (b' := main_block (f d) (root_addr l) (root_addr r) (root_addr c)) in *.
    assert (Hb' : blk_encodable b').
    { unfold b'. apply (main_block_encodable_flags d); try (apply Hf); auto.
      apply (proj1 (Forall_forall _ _) Henc). eapply nth_error_In. exact Hn. }
    rewrite (py_node_write_existing_gen n sg (addr d) Hex Hblk Hbs).
    eexists. split; [reflexivity|]. split; [|split; [exact Hinv'|split; [exact E3|]]].
    - fold s' in Eap. rewrite <- Eap. rewrite Hdata. fold (encode_tblock b').
      rewrite Ha. exact (trep_set (files_of s) sg (tidx (addr d)) _ b' _ Hrep Hn Hb').
    - cbn [node_at]. rewrite Had, Hs. repeat split; assumption.
  Qed.
End Rewrite.

(* ====================================================================================== *)
(* 4. add_page                                                                            *)
(* ====================================================================================== *)
Lemma trie_add_page_parts : forall lru cr s,
  snd (fst (trie_add_page lru cr s)) = snd (add_lru false lru s) /\
  snd (trie_add_page lru cr s) =
    match find (lru_iter lru) (tr (fst (add_lru false lru s))) with None => false | Some d => negb (page d) end.
Proof.
  intros lru cr s. unfold trie_add_page. destruct (add_lru false lru s) as [s1 h]. cbn [fst snd].
  destruct (find (lru_iter lru) (tr s1)) as [d|]; [|split; reflexivity].
  destruct (page d); split; reflexivity.
Qed.

Lemma tap_state_nb : forall lru cr s1, nb (tap_state lru cr s1) = nb s1.
Proof.
  intros lru cr s1. unfold tap_state. destruct (find (lru_iter lru) (tr s1)) as [d|]; [|reflexivity].
  destruct (page d); [destruct (cr && negb (crawled d))|]; reflexivity.
Qed.

Lemma hist_rep_created : forall lru h ph,
  hist_rep lru h false ph -> hist_rep lru h true (hs_set_page_was_created true ph).
Proof. intros lru h ph (H1 & H2 & H3 & H4 & H5 & _). repeat split; assumption. Qed.

Section WithAddLru.
  Hypothesis add_lru_spec : forall s, Inv18 s -> forall sg lru flag,
    root_first s -> trep (files_of s) sg -> wf_lru lru ->
    let s' := fst (add_lru flag lru s) in
    nb s' * 128 < 2 ^ 64 ->
    exists sg' n ph, py_trie_add_lru sg lru flag = Some (sg', (n, ph)) /\
      trep (files_of s') sg' /\
      hist_rep lru (snd (add_lru flag lru s)) false ph /\
      exists t', find_sub (lru_iter lru) (tr s') = Some t' /\ node_at t' n.

  (* LRUTrie.add_page(lru, crawled) on the trie file of the state: the storage afterwards holds the trie file of the model's
     state after trie_add_page, the history object is the model's history, page_was_created is the model's flag, and the node
     object returned is the one of the node at the LRU *)
  Theorem py_trie_add_page_spec : forall s, Inv18 s -> forall sg lru cr,
    root_first s -> trep (files_of s) sg -> wf_lru lru ->
    let r := trie_add_page lru cr s in
    let s' := fst (fst r) in
    nb s' * 128 < 2 ^ 64 ->
    exists sg' n ph, py_trie_add_page sg lru cr = Some (sg', (n, ph)) /\
      trep (files_of s') sg' /\
      hist_rep lru (snd (fst r)) (snd r) ph /\
      exists t', find_sub (lru_iter lru) (tr s') = Some t' /\ node_at t' n.
  Proof.
    intros s Hinv sg lru cr Hroot Hrep Hwf r s' Hnb.
    pose proof (add_lru_Tr false lru s Hinv) as T1. apply Tr_inv in T1.
    destruct (trie_add_page_parts lru cr s) as [Eh Ecr]. fold r in Eh, Ecr.
    assert (Es' : s' = tap_state lru cr (fst (add_lru false lru s))) by apply trie_add_page_state.
    set (s1 := fst (add_lru false lru s)) in *.
    pose proof (add_lru_spec s Hinv sg lru false Hroot Hrep Hwf) as HA. cbv zeta in HA. fold s1 in HA.
    destruct HA as (sg1 & n & ph & Eadd & Hrep1 & Hh & t' & Ht' & Hn).
    { rewrite <- (tap_state_nb lru cr s1), <- Es'. exact Hnb. }
    rewrite Eh, Ecr. clear Eh Ecr.
    unfold py_trie_add_page. rewrite Eadd.
    destruct t' as [|d l c r0]; [destruct Hn|].
    pose proof Hn as (Hex & Hblk & Hdata & Hstem).
    assert (Hfd : find (lru_iter lru) (tr s1) = Some d) by (rewrite find_of_sub, Ht'; reflexivity).
    rewrite Hfd. rewrite Es'. unfold tap_state. rewrite Hfd.
    rewrite (is_page_main n d _ _ _ Hdata), (is_crawled_main n d _ _ _ Hdata).
    destruct (page d) eqn:Epg; cbn [negb].
    - (* already a page *)
      destruct (cr && negb (crawled d)) eqn:Ecc.
      + destruct (rewrite_in_place s1 T1 set_crawled (lru_iter lru) d l c r0 (py_node_flag_as_crawled n) sg1
                    soft_set_crawled (fun _ => eq_refl) Ht' Hrep1 Hex Hblk (flag_as_crawled_main n d _ _ _ Hdata))
          as (sg2 & Ew & Hrep2 & _ & Hfs2 & Hn2).
        { unfold py_node_stem, py_node_flag_as_crawled. cbn [nd_set_data nd_data nd_tail].
          rewrite Hdata, py_flag_flags. rewrite !py_get_stem. cbn [blk_with_flags b_stem].
          rewrite <- Hstem. unfold py_node_stem. rewrite Hdata, py_get_stem. reflexivity. }
        rewrite Ew. exists sg2, (py_node_flag_as_crawled n), ph.
        split; [reflexivity|]. split; [exact Hrep2|]. split; [exact Hh|].
        eexists. split; [exact Hfs2|exact Hn2].
      + exists sg1, n, ph. split; [reflexivity|]. split; [exact Hrep1|]. split; [exact Hh|].
        eexists. split; [exact Ht'|exact Hn].
    - (* not yet a page *)
      set (f := fun d0 : nd => if cr then set_crawled (set_page d0) else set_page d0).
      set (n2 := if cr then py_node_flag_as_crawled (py_node_flag_as_page n) else py_node_flag_as_page n).
      assert (Hcode : (let '(sg, v_node) := (if cr
                         then (let v_node := py_node_flag_as_crawled (py_node_flag_as_page n) in (sg1, v_node))
                         else (sg1, py_node_flag_as_page n)) in
                       let '(v_node, sg) := py_node_write v_node sg in
                       let v_history := hs_set_page_was_created true ph in
                       Some (sg, (v_node, v_history)))
                      = (let '(v_node, sg) := py_node_write n2 sg1 in
                         Some (sg, (v_node, hs_set_page_was_created true ph)))).
      { unfold n2. destruct cr; reflexivity. }
      cbv zeta in Hcode. cbv zeta. rewrite Hcode. clear Hcode.
      assert (Hd2 : nd_data n2 = tblock_vals (main_block (f d) (root_addr l) (root_addr r0) (root_addr c))).
      { unfold n2, f. destruct cr.
        - apply flag_as_crawled_main. apply flag_as_page_main. exact Hdata.
        - apply flag_as_page_main. exact Hdata. }
      assert (Hst2 : py_node_stem n2 = stem d).
      { unfold py_node_stem. rewrite Hd2, py_get_stem.
        replace (nd_tail n2) with (nd_tail n) by (unfold n2; destruct cr; reflexivity).
        rewrite <- Hstem. unfold py_node_stem. rewrite Hdata, !py_get_stem.
        unfold main_block, f. cbn [b_stem]. destruct cr; reflexivity. }
      destruct (rewrite_in_place s1 T1 f (lru_iter lru) d l c r0 n2 sg1
                  (soft_page_crawled cr) (fun d0 => ltac:(unfold f; destruct cr; reflexivity)) Ht' Hrep1
                  ltac:(unfold n2; destruct cr; exact Hex) ltac:(unfold n2; destruct cr; exact Hblk) Hd2 Hst2)
        as (sg2 & Ew & Hrep2 & _ & Hfs2 & Hn2).
      rewrite Ew. exists sg2, n2, (hs_set_page_was_created true ph).
      split; [reflexivity|]. split; [exact Hrep2|]. split; [apply hist_rep_created; exact Hh|].
      eexists. split; [exact Hfs2|exact Hn2].
  Qed.
End WithAddLru.

Print Assumptions py_trie_add_page_spec.

(* ---- non-vacuity: the translated add_page run on the bytes of the trie file of a concrete state (PropsEx.exs) leaves exactly
   the bytes of the trie file of the model's next state, returns the node at the address the model gives it, and reports
   page_was_created as the model does: a new LRU (nodes appended, then the page and crawled bits written in place), a known
   page not yet crawled (one block rewritten), a known node that is not a page, and a known page with crawled = False
   (nothing written) ---- *)
From Traph Require PropsEx.
Definition ex_run (lru : bytes) (cr : bool) : option (bool * bool * bool) :=
  let r := trie_add_page lru cr PropsEx.exs in
  match py_trie_add_page ex_sg lru cr with
  | Some (sg', (n, ph)) =>
      Some (Bytes.beq (pm_array sg') (trie_file (fst (fst r))),
            match nd_block n, find (lru_iter lru) (tr (fst (fst r))) with
            | Some a, Some d => a =? addr d
            | _, _ => false
            end,
            Bool.eqb (hs_page_was_created ph) (snd r))
  | None => None
  end.
Example ex_add_page_new : ex_run (PropsEx.ex_px ++ [112; 58; 122; 124; 112; 58; 119; 124]) true = Some (true, true, true)
  /\ snd (trie_add_page (PropsEx.ex_px ++ [112; 58; 122; 124; 112; 58; 119; 124]) true PropsEx.exs) = true.
Proof. vm_compute. split; reflexivity. Qed.
Example ex_add_page_crawl : ex_run PropsEx.ex_pxy true = Some (true, true, true)
  /\ Bytes.beq (trie_file (fst (fst (trie_add_page PropsEx.ex_pxy true PropsEx.exs)))) (trie_file PropsEx.exs) = false.
Proof. vm_compute. split; reflexivity. Qed.
Example ex_add_page_known_node : ex_run PropsEx.ex_px false = Some (true, true, true)
  /\ snd (trie_add_page PropsEx.ex_px false PropsEx.exs) = true.
Proof. vm_compute. split; reflexivity. Qed.
Example ex_add_page_nothing : ex_run PropsEx.ex_pxy false = Some (true, true, true)
  /\ Bytes.beq (trie_file (fst (fst (trie_add_page PropsEx.ex_pxy false PropsEx.exs)))) (trie_file PropsEx.exs) = true.
Proof. vm_compute. split; reflexivity. Qed.
