(* GenTrieFacts.v — the translated read side of the trie (GenTrie.v, generated from
   /repo/traph/lru_trie/lru_trie.py: lru_node, node_parents_iter, windup_lru, and the constructor and
   navigation methods of LRUTrieNode) agrees with the tree model on the files of every state that satisfies
   the block invariant Inv18 (every reachable state does):
     LRUTrie.lru_node   finds exactly the node Tst.find finds, and nothing when it finds nothing
     LRUTrie.windup_lru spells the path of the node
   The generated loops never run out of fuel and never raise. *)
From Coq Require Import List NArith Bool Lia Arith.
Import ListNotations.
From Traph Require Import Bytes Consts Layout Helpers Rules Tst TstDefs Traph Traphw TraceDefs Codec CodecFacts
  TstFacts Store StoreFacts GenStorage GenNode GenNodeFacts GenTrie.
From Traph Require GenHelpers2 GenHelpers2Facts.
Open Scope N_scope.

Arguments N.shiftr : simpl never.
Arguments N.shiftl : simpl never.
Arguments N.modulo : simpl never.
Arguments N.div : simpl never.
Arguments N.land : simpl never.
Arguments N.lor : simpl never.
Arguments N.mul : simpl never.
Arguments N.add : simpl never.
Arguments N.sub : simpl never.
Arguments N.ltb : simpl never.
Arguments N.eqb : simpl never.

(* the trie file as the storage object holds it *)
Definition trep (f : files) (sg : py_pm) : Prop :=
  pm_block_size sg = py_node_block_size /\
  (exists hdr, pm_array sg = hdr ++ flat_map encode_tblock (ft f) /\ length hdr = 128%nat) /\
  Forall blk_encodable (ft f).

Lemma py_node_read_o_some : forall nd sg a, py_node_read_o nd sg (Some a) = py_node_read nd sg a.
Proof. reflexivity. Qed.

(* the node object that read(addr) yields for the node at the root of the subtree t *)
Definition node_at (t : tst) (n : py_node) : Prop :=
  match t with
  | Lf => False
  | Nd d l c r =>
      nd_exists n = true /\ nd_block n = Some (addr d) /\
      nd_data n = tblock_vals (main_block d (root_addr l) (root_addr r) (root_addr c)) /\
      py_node_stem n = stem d
  end.

Lemma blk_at_off : forall f a b, blk_at f a = Some b -> a = blk_off (tidx a) /\ nth_error (ft f) (tidx a) = Some b.
Proof.
  intros f a b H. unfold blk_at in H.
  destruct ((a mod bsz =? 0) && (bsz <=? a)) eqn:E; [|discriminate H].
  apply andb_true_iff in E. destruct E as [Em Ege].
  apply N.eqb_eq in Em. apply N.leb_le in Ege. split; [|exact H].
  unfold blk_off, tidx. unfold bsz in *. change py_node_block_size with 128 in *.
  pose proof (N.div_mod a 128 ltac:(discriminate)) as Hd. rewrite Em in Hd.
  assert (1 <= a / 128) by (apply N.div_le_lower_bound; [discriminate|lia]).
  replace (N.of_nat (S (N.to_nat (a / 128) - 1))) with (a / 128) by lia. lia.
Qed.

Section OnState.
  Variable s : traph.
  Hypothesis Hinv : Inv18 s.

  Lemma read_subt : forall d l c r nd0 sg, subt (Nd d l c r) (tr s) -> trep (files_of s) sg ->
    let res := py_node_read_o nd0 sg (Some (addr d)) in
    node_at (Nd d l c r) (fst res) /\ trep (files_of s) (snd res).
  Proof.
    intros d l c r nd0 sg Hsub (Hbs & (hdr & Harr & Hh) & Henc). cbv zeta.
    rewrite py_node_read_o_some.
    pose proof (b_read_subt s Hinv d l c r Hsub) as Hb.
    pose proof (blk_at_main_subt s Hinv d l c r Hsub) as Hblk.
    destruct (blk_at_off _ _ _ Hblk) as [Ha Hn].
    pose proof (py_node_read_spec nd0 sg hdr (files_of s) (tidx (addr d)) _ Hbs Harr Hh Henc Hn) as HS.
    cbv zeta in HS. rewrite <- Ha in HS.
    destruct HS as (H1 & H2 & H3 & _ & H5 & H6 & H7).
    split.
    - cbn [node_at]. split; [exact H1|]. split; [exact H2|]. split; [exact H3|].
      rewrite Hb in H5. injection H5 as H5. symmetry. exact H5.
    - split; [rewrite H7; exact Hbs|]. split; [|exact Henc].
      exists hdr. rewrite H6. split; assumption.
  Qed.

  (* ---- registers of a node object read from the file ---- *)
  Lemma get_left : forall b, py_get_num pos_left (tblock_vals b) = b_left b.
  Proof. intros [st fl w l r c p o i]. reflexivity. Qed.
  Lemma get_right : forall b, py_get_num pos_right (tblock_vals b) = b_right b.
  Proof. intros [st fl w l r c p o i]. reflexivity. Qed.
  Lemma get_child : forall b, py_get_num pos_child (tblock_vals b) = b_child b.
  Proof. intros [st fl w l r c p o i]. reflexivity. Qed.
  Lemma get_parent : forall b, py_get_num pos_parent (tblock_vals b) = b_parent b.
  Proof. intros [st fl w l r c p o i]. reflexivity. Qed.

  Lemma root_addr_ge : forall d l c r, subt (Nd d l c r) (tr s) -> py_first_data_block <= addr d.
  Proof.
    intros d l c r Hsub. destruct (node_addr_ok s Hinv d l c r Hsub) as (k & Hk & Hk1 & _).
    rewrite Hk. unfold bsz. change py_node_block_size with 128. change py_first_data_block with 128. nia.
  Qed.

  (* following a register that names the root of a subtree (or 0 for an empty one) *)
  Lemma follow_reg : forall (t : tst) nd0 sg a, subt t (tr s) \/ t = Lf -> a = root_addr t -> trep (files_of s) sg ->
    match t with
    | Lf => (a =? 0) = true
    | Nd _ _ _ _ =>
        (a =? 0) = false /\ (a <? py_first_data_block) = false /\
        node_at t (fst (py_node_read_o nd0 sg (Some a))) /\ trep (files_of s) (snd (py_node_read_o nd0 sg (Some a)))
    end.
  Proof.
    intros t nd0 sg a Ht -> Hrep. destruct t as [|d l c r]; [reflexivity|].
    destruct Ht as [Hsub|Hd]; [|discriminate Hd]. cbn [root_addr].
    pose proof (root_addr_ge d l c r Hsub) as Hge.
    split; [apply N.eqb_neq; change py_first_data_block with 128 in Hge; lia|].
    split; [apply N.ltb_ge; exact Hge|].
    exact (read_subt d l c r nd0 sg Hsub Hrep).
  Qed.

  Lemma beq_lex : forall a b, beq a b = match lex b a with Eq => true | _ => false end.
  Proof. intros a b. unfold beq. rewrite (lex_antisym b a). destruct (lex b a); reflexivity. Qed.

  (* ---- the BST walk among siblings ---- *)
  Definition R : Type := option (py_pm * option py_node).
  Definition St : Type := (py_pm * py_node)%type.

  Definition inner (v_stem : bytes) :=
   fix py_loop (fuel : nat) (st : St) {struct fuel} : (R + St) :=
   match fuel with
   | O => inr st
   | S fuel' =>
   let '(sg, v_node) := st in
   (let v_current_stem := (py_node_stem v_node) in
   (if (beq v_current_stem v_stem)
   then (inr (sg, v_node))
   else (if (blt v_stem v_current_stem)
   then (if (py_node_has_left v_node)
   then (match py_node_read_left v_node sg with
   | None => (inl None)
   | Some (v_node, sg) => (py_loop fuel' (sg, v_node)) end)
   else (inl (Some (sg, None))))
   else (if (py_node_has_right v_node)
   then (match py_node_read_right v_node sg with
   | None => (inl None)
   | Some (v_node, sg) => (py_loop fuel' (sg, v_node)) end)
   else (inl (Some (sg, None)))))))
   end.

  Fixpoint sib (x : bytes) (t : tst) : option tst :=
    match t with
    | Lf => None
    | Nd d l c r => match lex x (stem d) with Eq => Some t | Lt => sib x l | Gt => sib x r end
    end.

  Lemma inner_spec : forall x sub, subt sub (tr s) -> forall fuel n sg,
    (size sub <= fuel)%nat -> node_at sub n -> trep (files_of s) sg ->
    exists sg', trep (files_of s) sg' /\
      match sib x sub with
      | Some sub' => exists n', inner x fuel (sg, n) = inr (sg', n') /\ node_at sub' n' /\ subt sub' (tr s)
      | None => inner x fuel (sg, n) = inl (Some (sg', None))
      end.
  Proof.
    intros x sub. induction sub as [|d l IHl c _ r IHr]; intros Hsub fuel n sg Hf Hn Hrep; [destruct Hn|].
    destruct fuel as [|k]; [cbn [size] in Hf; lia|]. cbn [size] in Hf.
    pose proof Hn as (He & Hb & Hd & Hs).
    cbn [inner sib]. rewrite Hs, beq_lex. unfold blt.
    destruct (lex x (stem d)) eqn:E.
    - exists sg. split; [exact Hrep|]. exists n. repeat split; assumption.
    - unfold py_node_has_left, py_node_read_left, py_node_has_left, py_node_left.
      rewrite Hd, get_left. cbn [main_block b_left].
      pose proof (follow_reg l n sg (root_addr l)) as HF.
      destruct l as [|dl ll cl rl].
      + cbn [root_addr]. change (0 =? 0) with true. cbn [negb]. exists sg. split; [exact Hrep|reflexivity].
      + pose proof (subt_left _ _ _ _ _ Hsub) as Hl.
        destruct (HF (or_introl Hl) eq_refl Hrep) as (Hz & Hlt & Hna & Hr').
        rewrite Hz. cbn [negb]. rewrite Hlt.
        destruct (py_node_read_o n sg (Some (root_addr (Nd dl ll cl rl)))) as [n1 sg1] eqn:Er.
        cbn [fst snd] in Hna, Hr'.
        apply (IHl Hl k n1 sg1); [lia|exact Hna|exact Hr'].
    - unfold py_node_has_right, py_node_read_right, py_node_has_right, py_node_right.
      rewrite Hd, get_right. cbn [main_block b_right].
      pose proof (follow_reg r n sg (root_addr r)) as HF.
      destruct r as [|dr lr cr rr].
      + cbn [root_addr]. change (0 =? 0) with true. cbn [negb]. exists sg. split; [exact Hrep|reflexivity].
      + pose proof (subt_right _ _ _ _ _ Hsub) as Hr.
        destruct (HF (or_introl Hr) eq_refl Hrep) as (Hz & Hlt & Hna & Hr').
        rewrite Hz. cbn [negb]. rewrite Hlt.
        destruct (py_node_read_o n sg (Some (root_addr (Nd dr lr cr rr)))) as [n1 sg1] eqn:Er.
        cbn [fst snd] in Hna, Hr'.
        apply (IHr Hr k n1 sg1); [lia|exact Hna|exact Hr'].
  Qed.

  (* ---- the descent over the stems ---- *)
  Definition step (v_stems : list bytes) (v_l : N) (acc : R + St) (v_i : N) : R + St :=
   match acc with
   | inl v__r => inl v__r
   | inr (sg, v_node) => (let v_stem := (nth (N.to_nat v_i) v_stems (@nil N)) in
   (match inner v_stem (S (length (pm_array sg))) (sg, v_node) with
   | inl v__r => (inl v__r)
   | inr (sg, v_node) => (if (N.ltb v_i (N.sub v_l 1%N))
   then (if (negb (py_node_has_child v_node))
   then (inl (Some (sg, None)))
   else (match py_node_read_child v_node sg with
   | None => (inl None)
   | Some (v_node, sg) => (inr (sg, v_node)) end))
   else (inr (sg, v_node))) end)) end.

  Lemma lru_node_eq : forall sg lru,
    py_trie_lru_node sg lru =
    (let '(n, sg) := py_node_init sg None (Some py_first_data_block) None in
     let stems := GenHelpers2.py_lru_iter lru in
     let l := N.of_nat (length stems) in
     match fold_left (step stems l) (py_range l) (inr (sg, n)) with
     | inl r => r
     | inr (sg, n) => Some (sg, Some n)
     end).
  Proof. reflexivity. Qed.

  Lemma fold_step_inl : forall stems l is r, fold_left (step stems l) is (inl r) = inl r.
  Proof. induction is as [|i is IH]; intro r; [reflexivity|apply IH]. Qed.

  Lemma find_sub_sib : forall x rest t,
    find_sub (x :: rest) t =
    match sib x t with
    | Some (Nd d l c r) => match rest with [] => Some (Nd d l c r) | _ :: _ => find_sub rest c end
    | _ => None
    end.
  Proof.
    intros x rest. induction t as [|d l IHl c _ r IHr]; [reflexivity|].
    change (find_sub (x :: rest) (Nd d l c r)) with
      (match lex x (stem d) with
       | Eq => match rest with [] => Some (Nd d l c r) | _ :: _ => find_sub rest c end
       | Lt => find_sub (x :: rest) l
       | Gt => find_sub (x :: rest) r
       end).
    cbn [sib]. destruct (lex x (stem d)); [reflexivity|exact IHl|exact IHr].
  Qed.

  Lemma sib_subt : forall x t t', sib x t = Some t' -> subt t' t /\ t' <> Lf.
  Proof.
    intros x. induction t as [|d l IHl c _ r IHr]; intros t' H; [discriminate|].
    cbn [sib] in H. destruct (lex x (stem d)).
    - injection H as <-. split; [apply subt_here|discriminate].
    - destruct (IHl _ H) as [Hs Hn]. split; [apply subt_l; exact Hs|exact Hn].
    - destruct (IHr _ H) as [Hs Hn]. split; [apply subt_r; exact Hs|exact Hn].
  Qed.

  Lemma subt_size : forall x t, subt x t -> (size x <= size t)%nat.
  Proof. intros x t H. induction H; cbn [size]; lia. Qed.

  Lemma fuel_enough : forall sub sg, subt sub (tr s) -> trep (files_of s) sg -> (size sub <= S (length (pm_array sg)))%nat.
  Proof.
    intros sub sg Hsub (_ & (hdr & Harr & Hh) & _).
    pose proof (subt_size _ _ Hsub). pose proof (size_ft s).
    rewrite Harr, app_length.
    assert (length (ft (files_of s)) <= length (flat_map encode_tblock (ft (files_of s))))%nat.
    { generalize (ft (files_of s)). induction l as [|b l IH]; [apply le_n|].
      cbn [flat_map length]. rewrite app_length, encode_tblock_length. lia. }
    lia.
  Qed.

  Lemma descent_spec : forall stems m k sub n sg,
    (k + m = length stems)%nat -> (1 <= m)%nat ->
    subt sub (tr s) -> node_at sub n -> trep (files_of s) sg ->
    exists sg', trep (files_of s) sg' /\
      match find_sub (skipn k stems) sub with
      | Some t' => exists n', fold_left (step stems (N.of_nat (length stems))) (map N.of_nat (seq k m)) (inr (sg, n))
                             = inr (sg', n') /\ node_at t' n' /\ subt t' (tr s)
      | None => fold_left (step stems (N.of_nat (length stems))) (map N.of_nat (seq k m)) (inr (sg, n))
                = inl (Some (sg', None))
      end.
  Proof.
    intros stems m. induction m as [|m IH]; intros k sub n sg Hkm Hm Hsub Hn Hrep; [lia|].
    assert (Hk : (k < length stems)%nat) by lia.
    destruct (skipn k stems) as [|x rest] eqn:Esk.
    { exfalso. assert (length (skipn k stems) = length stems - k)%nat by apply skipn_length. rewrite Esk in H. cbn in H. lia. }
    assert (Hx : nth k stems [] = x).
    { rewrite <- (firstn_skipn k stems) at 1. rewrite app_nth2; rewrite firstn_length_le by lia; [|lia].
      rewrite Nat.sub_diag, Esk. reflexivity. }
    assert (Hrest : skipn (S k) stems = rest).
    { rewrite skipn_S_tl, Esk. reflexivity. }
    cbn [seq map fold_left]. cbn [step]. rewrite Nat2N.id, Hx.
    destruct (inner_spec x sub Hsub (S (length (pm_array sg))) n sg (fuel_enough sub sg Hsub Hrep) Hn Hrep)
      as (sg1 & Hrep1 & Hin).
    rewrite find_sub_sib.
    destruct (sib x sub) as [t1|] eqn:Es.
    2:{ rewrite Hin, fold_step_inl. exists sg1. split; [exact Hrep1|reflexivity]. }
    destruct Hin as (n1 & Ein & Hn1 & Hsub1). rewrite Ein.
    destruct t1 as [|d1 l1 c1 r1]; [destruct Hn1|].
    destruct (N.ltb_spec (N.of_nat k) (N.of_nat (length stems) - 1)) as [Hlt|Hge].
    - (* not the last stem *)
      assert (Hm1 : (1 <= m)%nat) by lia.
      destruct rest as [|y rest'].
      { exfalso. assert (length (skipn (S k) stems) = length stems - S k)%nat by apply skipn_length.
        rewrite Hrest in H. cbn in H. lia. }
      pose proof Hn1 as (_ & _ & Hd1 & _).
      unfold py_node_has_child, py_node_read_child, py_node_has_child, py_node_child.
      rewrite Hd1, get_child. cbn [main_block b_child].
      pose proof (follow_reg c1 n1 sg1 (root_addr c1)) as HF.
      destruct c1 as [|dc lc cc rc].
      + cbn [root_addr]. change (0 =? 0) with true. cbn [negb]. rewrite fold_step_inl.
        exists sg1. split; [exact Hrep1|]. destruct (y :: rest'); reflexivity.
      + pose proof (subt_child _ _ _ _ _ Hsub1) as Hc.
        destruct (HF (or_introl Hc) eq_refl Hrep1) as (Hz & Hlt' & Hna & Hr').
        rewrite Hz. cbn [negb]. rewrite Hlt'.
        destruct (py_node_read_o n1 sg1 (Some (root_addr (Nd dc lc cc rc)))) as [n2 sg2] eqn:Er.
        cbn [fst snd] in Hna, Hr'.
        destruct (IH (S k) (Nd dc lc cc rc) n2 sg2 ltac:(lia) Hm1 Hc Hna Hr') as (sg3 & Hrep3 & H3).
        rewrite Hrest in H3. exists sg3. split; [exact Hrep3|exact H3].
    - (* the last stem *)
      assert (m = 0)%nat by lia. subst m. cbn [seq map fold_left].
      destruct rest as [|y rest'].
      + exists sg1. split; [exact Hrep1|]. exists n1. split; [reflexivity|]. split; [exact Hn1|exact Hsub1].
      + exfalso. assert (length (skipn (S k) stems) = length stems - S k)%nat by apply skipn_length.
        rewrite Hrest in H. cbn in H. lia.
  Qed.

  Lemma py_range_seq : forall n, py_range (N.of_nat n) = map N.of_nat (seq 0 n).
  Proof. intro n. unfold py_range. rewrite Nat2N.id. reflexivity. Qed.

  Lemma init_read : forall sg a, py_node_init sg None (Some a) None =
    py_node_read_o (nd_set_tail [] (nd_set_exists false (nd_set_block None py_node_new))) sg (Some a).
  Proof. intros sg a. unfold py_node_init. destruct (py_node_read_o _ sg (Some a)). reflexivity. Qed.

  (* LRUTrie.lru_node(lru) on the trie file of the state: the node object of the node Tst.find_sub finds (its block is that
     node's address, its registers and stem are the stored ones), or None when the tree has no such node *)
  Theorem py_trie_lru_node_spec : forall sg lru,
    root_first s -> trep (files_of s) sg -> wf_lru lru ->
    exists sg', trep (files_of s) sg' /\
      match find_sub (lru_iter lru) (tr s) with
      | Some t' => exists n', py_trie_lru_node sg lru = Some (sg', Some n') /\ node_at t' n'
      | None => py_trie_lru_node sg lru = Some (sg', None)
      end.
  Proof.
    intros sg lru Hroot Hrep Hwf. rewrite lru_node_eq, init_read. cbv zeta.
    rewrite GenHelpers2Facts.py_lru_iter_eq.
    pose proof (lru_iter_nonempty lru Hwf) as Hne.
    set (stems := lru_iter lru) in *.
    assert (Hlen : (1 <= length stems)%nat) by (destruct stems; [congruence|cbn; lia]).
    rewrite py_range_seq.
    destruct Hroot as [Hr|Hr].
    - (* a non-empty trie: its root is the first data block *)
      destruct (tr s) as [|d l c r] eqn:Et; [cbn in Hr; discriminate Hr|].
      cbn [root_addr] in Hr.
      assert (Hsub : subt (Nd d l c r) (tr s)) by (rewrite Et; apply subt_here).
      pose proof (read_subt d l c r (nd_set_tail [] (nd_set_exists false (nd_set_block None py_node_new))) sg Hsub Hrep) as HR.
      cbv zeta in HR. rewrite Hr in HR. change py_first_data_block with bsz.
      destruct (py_node_read_o _ sg (Some bsz)) as [n0 sg0]. cbn [fst snd] in HR. destruct HR as [Hn0 Hrep0].
      destruct (descent_spec stems (length stems) 0 (Nd d l c r) n0 sg0 eq_refl Hlen Hsub Hn0 Hrep0) as (sg' & Hrep' & H).
      cbn [skipn] in H. rewrite <- Et. exists sg'. split; [exact Hrep'|]. rewrite Et.
      destruct (find_sub stems (Nd d l c r)) as [t'|].
      + destruct H as (n' & E & Hn' & _). exists n'. rewrite E. split; [reflexivity|exact Hn'].
      + rewrite H. reflexivity.
    - (* an empty trie: the root block does not exist, the node object holds the default data *)
      rewrite Hr. rewrite (QueryCore2.find_sub_Lf stems).
      destruct Hrep as (Hbs & (hdr & Harr & Hh) & Henc).
      assert (Eft : ft (files_of s) = []).
      { apply length_zero_iff_nil. rewrite ft_length, Hr. reflexivity. }
      rewrite Eft in Harr. cbn [flat_map] in Harr. rewrite app_nil_r in Harr.
      rewrite py_node_read_o_some.
      pose proof (py_node_read_absent (nd_set_tail [] (nd_set_exists false (nd_set_block None py_node_new))) sg py_first_data_block) as HA.
      cbv zeta in HA. destruct HA as (Hex & _ & Hdat & Htl & Harr' & Hbs').
      { rewrite Harr, Hh. change py_first_data_block with 128. lia. }
      destruct (py_node_read _ sg py_first_data_block) as [n0 sg0]. cbn [fst snd] in *.
      exists sg0. split.
      { split; [rewrite Hbs'; exact Hbs|]. split; [|exact Henc]. exists hdr. rewrite Harr', Eft, Harr.
        cbn [flat_map]. rewrite app_nil_r. split; [reflexivity|exact Hh]. }
      destruct stems as [|x rest] eqn:Es; [congruence|].
      cbn [length seq map fold_left]. cbn [step]. cbn [N.to_nat nth].
      assert (Hx : x <> []).
      { pose proof (lru_iter_wf lru) as Hw. fold stems in Hw. rewrite Es in Hw. inversion Hw as [|? ? Hwx _]; subst.
        destruct Hwx as (body & -> & _). destruct body; discriminate. }
      cbn [inner]. unfold py_node_stem. rewrite Hdat, Htl. cbn [default_data py_get_bytes nth vbytes app].
      assert (Eb : beq [] x = false) by (destruct x; [congruence|reflexivity]).
      assert (El : blt x [] = false) by (destruct x; reflexivity).
      change (N.to_nat (N.of_nat 0)) with 0%nat. cbv iota.
      change (py_get_bytes pos_stem (VBytes [] :: VNum default_flags :: repeat (VNum 0) node_registers) ++ []) with (@nil N).
      rewrite Eb, El. unfold py_node_has_right. rewrite Hdat. cbn [default_data py_get_num nth vnum].
      change (py_get_num pos_right default_data) with 0. change (0 =? 0) with true. cbn [negb].
      rewrite fold_step_inl. reflexivity.
  Qed.

  (* ---- windup_lru: the parent registers ---- *)
  Definition ploop :=
   fix py_loop (fuel : nat) (st : (py_pm * py_node * list (py_node))) {struct fuel} : option (py_pm * py_node * list (py_node)) :=
   match fuel with
   | O => Some st
   | S fuel' =>
   let '(sg, v_parent, v__out) := st in
   if (py_node_has_parent v_parent)
   then (match py_node_read_parent v_parent sg with
   | None => None
   | Some (v_parent, sg) => (let v__out := v__out ++ [v_parent] in
   (py_loop fuel' (sg, v_parent, v__out))) end)
   else Some st
   end.

  Lemma parents_iter_eq : forall sg n,
    py_trie_node_parents_iter sg n =
    (if negb (py_node_has_parent n) then Some ([], sg)
     else let '(p, sg) := py_node_parent_node n sg in
          match ploop (S (length (pm_array sg))) (sg, p, [p]) with
          | None => None
          | Some (sg, _, out) => Some (out, sg)
          end).
  Proof. reflexivity. Qed.

  Definition wstep (lru : bytes) (p : py_node) : bytes := py_node_stem p ++ lru.

  Lemma windup_eq : forall sg a,
    py_trie_windup_lru sg a =
    (let '(n, sg) := py_node_init sg None (Some a) None in
     match py_trie_node_parents_iter sg n with
     | None => None
     | Some (items, sg) => Some (sg, fold_left wstep items (py_node_stem n))
     end).
  Proof. reflexivity. Qed.

  (* the parent register of the node at path q ++ [x] *)
  Lemma parent_reg : forall q x d l c r n, find (q ++ [x]) (tr s) = Some d -> node_at (Nd d l c r) n ->
    py_get_num pos_parent (nd_data n) = par d /\ py_node_stem n = x.
  Proof.
    intros q x d l c r n Hf (_ & _ & Hd & Hs). split.
    - rewrite Hd, get_parent. reflexivity.
    - rewrite Hs. rewrite (find_last_stem _ _ _ Hf). apply last_last.
  Qed.

  (* the loop over the ancestors of the node at path p, from a node object of that node *)
  Lemma ploop_spec : forall p d l c r n sg fuel out acc,
    find p (tr s) = Some d -> subt (Nd d l c r) (tr s) -> node_at (Nd d l c r) n -> trep (files_of s) sg ->
    (length p <= fuel)%nat ->
    exists sg' nl items, ploop fuel (sg, n, out) = Some (sg', nl, out ++ items) /\ trep (files_of s) sg' /\
      fold_left wstep items acc = concat (removelast p) ++ acc.
  Proof.
    intros p. remember (length p) as len eqn:Hlen. revert p Hlen.
    induction len as [|len IH]; intros p Hlen d l c r n sg fuel out acc Hf Hsub Hn Hrep Hfuel.
    - destruct p; [rewrite find_nil in Hf; discriminate|discriminate Hlen].
    - destruct (exists_last (l := p)) as (q & x & ->); [intro E; subst p; discriminate Hlen|].
      rewrite app_length in Hlen. cbn [length] in Hlen.
      destruct fuel as [|k]; [lia|].
      destruct (parent_reg q x d l c r n Hf Hn) as [Hp _].
      cbn [ploop]. unfold py_node_has_parent. rewrite Hp.
      pose proof (I_pars _ Hinv q x d Hf) as HP.
      rewrite removelast_last.
      destruct q as [|y q'].
      + rewrite HP. change (0 =? 0) with true. cbn [negb].
        exists sg, n, []. rewrite app_nil_r. split; [reflexivity|]. split; [exact Hrep|reflexivity].
      + destruct HP as (dp & Hdp & Epar).
        destruct (find_subt _ _ _ Hdp) as (l' & c' & r' & _ & Hsub').
        pose proof (root_addr_ge dp l' c' r' Hsub') as Hge.
        assert (Hnz : (par d =? 0) = false).
        { apply N.eqb_neq. rewrite Epar. change py_first_data_block with 128 in Hge. lia. }
        rewrite Hnz. cbn [negb]. unfold py_node_read_parent, py_node_parent. rewrite Hp, Epar.
        destruct (N.ltb_spec (addr dp) py_first_data_block) as [Hlt|_]; [lia|].
        pose proof (read_subt dp l' c' r' n sg Hsub' Hrep) as HR. cbv zeta in HR.
        destruct (py_node_read_o n sg (Some (addr dp))) as [n1 sg1]. cbn [fst snd] in HR. destruct HR as [Hn1 Hrep1].
        destruct (IH (y :: q') ltac:(lia) dp l' c' r' n1 sg1 k (out ++ [n1]) (wstep acc n1) Hdp Hsub' Hn1 Hrep1)
          as (sg' & nl & items & E & Hrep' & Hfold).
        { cbn [length] in *. lia. }
        exists sg', nl, (n1 :: items). rewrite E, <- app_assoc. split; [reflexivity|]. split; [exact Hrep'|].
        cbn [fold_left]. rewrite Hfold. unfold wstep.
        destruct (exists_last (l := y :: q')) as (q2 & z & Eq2); [discriminate|].
        rewrite Eq2 in *. rewrite removelast_last.
        pose proof Hn1 as (_ & _ & _ & Hs1). rewrite Hs1, (find_last_stem _ _ _ Hdp), last_last.
        rewrite concat_snoc, <- app_assoc. reflexivity.
  Qed.

  (* LRUTrie.windup_lru(block) from the block of the node at path p: the concatenation of the stems of p *)
  Theorem py_trie_windup_spec : forall sg p d,
    trep (files_of s) sg -> find p (tr s) = Some d ->
    exists sg', py_trie_windup_lru sg (addr d) = Some (sg', concat p) /\ trep (files_of s) sg'.
  Proof.
    intros sg p d Hrep Hf. rewrite windup_eq, init_read.
    destruct (find_subt _ _ _ Hf) as (l & c & r & _ & Hsub).
    pose proof (read_subt d l c r (nd_set_tail [] (nd_set_exists false (nd_set_block None py_node_new))) sg Hsub Hrep) as HR.
    cbv zeta in HR. destruct (py_node_read_o _ sg (Some (addr d))) as [n sg0]. cbn [fst snd] in HR.
    destruct HR as [Hn Hrep0].
    destruct (exists_last (l := p)) as (q & x & ->); [intro E; subst p; rewrite find_nil in Hf; discriminate|].
    destruct (parent_reg q x d l c r n Hf Hn) as [Hp Hs].
    rewrite parents_iter_eq. unfold py_node_has_parent. rewrite Hp.
    pose proof (I_pars _ Hinv q x d Hf) as HP.
    destruct q as [|y q'].
    - rewrite HP. change (0 =? 0) with true. cbn [negb fold_left app concat]. rewrite Hs, app_nil_r.
      exists sg0. split; [reflexivity|exact Hrep0].
    - destruct HP as (dp & Hdp & Epar).
      destruct (find_subt _ _ _ Hdp) as (l' & c' & r' & _ & Hsub').
      pose proof (root_addr_ge dp l' c' r' Hsub') as Hge.
      assert (Hnz : (par d =? 0) = false).
      { apply N.eqb_neq. rewrite Epar. change py_first_data_block with 128 in Hge. lia. }
      rewrite Hnz. cbn [negb]. unfold py_node_parent_node, py_node_parent. rewrite Hp, Epar, init_read.
      pose proof (read_subt dp l' c' r' (nd_set_tail [] (nd_set_exists false (nd_set_block None py_node_new))) sg0 Hsub' Hrep0) as HR.
      cbv zeta in HR. destruct (py_node_read_o _ sg0 (Some (addr dp))) as [n1 sg1]. cbn [fst snd] in HR.
      destruct HR as [Hn1 Hrep1].
      destruct (ploop_spec (y :: q') dp l' c' r' n1 sg1 (S (length (pm_array sg1))) [n1] (wstep (py_node_stem n) n1)
                           Hdp Hsub' Hn1 Hrep1) as (sg' & nl & items & E & Hrep' & Hfold).
      { pose proof (find_length_size _ _ _ Hdp). pose proof (fuel_enough (tr s) sg1 (subt_here _) Hrep1). lia. }
      rewrite E. exists sg'. split; [|exact Hrep'].
      cbn [app fold_left]. rewrite Hfold. unfold wstep. rewrite Hs.
      destruct (exists_last (l := y :: q')) as (q2 & z & Eq2); [discriminate|].
      rewrite Eq2 in *. rewrite removelast_last.
      pose proof Hn1 as (_ & _ & _ & Hs1). rewrite Hs1, (find_last_stem _ _ _ Hdp), last_last.
      change (y :: q' ++ [x]) with ((y :: q') ++ [x]). rewrite Eq2, !concat_snoc, <- !app_assoc. reflexivity.
  Qed.

  (* ====================================================================================== *)
  (* the write side: __ensure_stem_from_siblings                                            *)
  (* ====================================================================================== *)
  Definition R2 : Type := option (py_pm * py_node).

  Definition loop2 (v_stem : bytes) :=
   fix py_loop (fuel : nat) (st : (py_pm * py_node)) {struct fuel} : (R2 + (py_pm * py_node)) :=
   match fuel with
   | O => inr st
   | S fuel' =>
   let '(sg, v_node) := st in
   (let v_current_stem := (py_node_stem v_node) in
   (if (beq v_current_stem v_stem)
   then (inl (Some (sg, v_node)))
   else (if (blt v_stem v_current_stem)
   then (if (py_node_has_left v_node)
   then (match py_node_read_left v_node sg with
   | None => (inl None)
   | Some (v_node, sg) => (py_loop fuel' (sg, v_node)) end)
   else (inr (sg, v_node)))
   else (if (py_node_has_right v_node)
   then (match py_node_read_right v_node sg with
   | None => (inl None)
   | Some (v_node, sg) => (py_loop fuel' (sg, v_node)) end)
   else (inr (sg, v_node))))))
   end.

  Definition hang (v_stem : bytes) (sg : py_pm) (v_node : py_node) : option (py_pm * py_node) :=
   (let '(v__n, sg) := py_node_init sg (Some v_stem) None None in
   let v_sibling := v__n in
   (let v_sibling := py_node_set_parent v_sibling (py_node_parent v_node) in
   (let '(v_sibling, sg) := py_node_write v_sibling sg in
   (if (blt v_stem (py_node_stem v_node))
   then (match (nd_block v_sibling) with
   | None => None
   | Some v__x => (match py_node_set_left v_node v__x with
   | None => None
   | Some v_node => (let '(v_node, sg) := py_node_write v_node sg in
   (Some (sg, v_sibling))) end) end)
   else (match (nd_block v_sibling) with
   | None => None
   | Some v__x => (match py_node_set_right v_node v__x with
   | None => None
   | Some v_node => (let '(v_node, sg) := py_node_write v_node sg in
   (Some (sg, v_sibling))) end) end))))).

  Lemma ensure_eq : forall sg n x,
    py_trie_ensure_stem_from_siblings sg n x =
    (if negb (nd_exists n)
     then (let n := py_node_set_stem n x in let '(n, sg) := py_node_write n sg in Some (sg, n))
     else match loop2 x (S (length (pm_array sg))) (sg, n) with
          | inl r => r
          | inr (sg, n) => hang x sg n
          end).
  Proof. reflexivity. Qed.

  (* where the walk among the siblings ends: at the node carrying the stem, or at the node under which a new sibling hangs
     (true: as its left sibling) *)
  Fixpoint sib_end (x : bytes) (t : tst) : option (tst * option bool) :=
    match t with
    | Lf => None
    | Nd d l c r =>
        match lex x (stem d) with
        | Eq => Some (t, None)
        | Lt => match l with Lf => Some (t, Some true) | _ => sib_end x l end
        | Gt => match r with Lf => Some (t, Some false) | _ => sib_end x r end
        end
    end.

  Lemma loop2_spec : forall x sub, subt sub (tr s) -> forall fuel n sg,
    (size sub <= fuel)%nat -> node_at sub n -> trep (files_of s) sg ->
    exists sg' t n', trep (files_of s) sg' /\ pm_array sg' = pm_array sg /\ node_at t n' /\ subt t (tr s) /\
      ((sib_end x sub = Some (t, None) /\ loop2 x fuel (sg, n) = inl (Some (sg', n'))) \/
       (exists side, sib_end x sub = Some (t, Some side) /\ loop2 x fuel (sg, n) = inr (sg', n') /\
          match t with
          | Lf => False
          | Nd dt lt ct rt => lex x (stem dt) = (if side then Lt else Gt) /\ (if side then lt else rt) = Lf
          end)).
  Proof.
    intros x sub. induction sub as [|d l IHl c _ r IHr]; intros Hsub fuel n sg Hf Hn Hrep; [destruct Hn|].
    destruct fuel as [|k]; [cbn [size] in Hf; lia|]. cbn [size] in Hf.
    pose proof Hn as (He & Hb & Hd & Hs).
    cbn [loop2 sib_end]. rewrite Hs, beq_lex. unfold blt.
    destruct (lex x (stem d)) eqn:E.
    - exists sg, (Nd d l c r), n. split; [exact Hrep|]. split; [reflexivity|]. split; [exact Hn|]. split; [exact Hsub|].
      left. split; reflexivity.
    - unfold py_node_has_left, py_node_read_left, py_node_has_left, py_node_left.
      rewrite Hd, get_left. cbn [main_block b_left].
      pose proof (follow_reg l n sg (root_addr l)) as HF.
      destruct l as [|dl ll cl rl].
      + cbn [root_addr]. change (0 =? 0) with true. cbn [negb].
        exists sg, (Nd d Lf c r), n. split; [exact Hrep|]. split; [reflexivity|]. split; [exact Hn|]. split; [exact Hsub|].
        right. exists true. split; [reflexivity|]. split; [reflexivity|]. split; [exact E|reflexivity].
      + pose proof (subt_left _ _ _ _ _ Hsub) as Hl.
        destruct (HF (or_introl Hl) eq_refl Hrep) as (Hz & Hlt & Hna & Hr').
        rewrite Hz. cbn [negb]. rewrite Hlt.
        assert (Ha : pm_array (snd (py_node_read_o n sg (Some (root_addr (Nd dl ll cl rl))))) = pm_array sg).
        { rewrite py_node_read_o_some. destruct Hrep as (Hbs & (hdr & Harr & Hh) & Henc).
          pose proof (blk_at_main_subt s Hinv dl ll cl rl Hl) as Hblk. destruct (blk_at_off _ _ _ Hblk) as [Hao Hn0].
          pose proof (py_node_read_spec n sg hdr (files_of s) (tidx (addr dl)) _ Hbs Harr Hh Henc Hn0) as HS.
          cbv zeta in HS. rewrite <- Hao in HS. cbn [root_addr]. apply HS. }
        destruct (py_node_read_o n sg (Some (root_addr (Nd dl ll cl rl)))) as [n1 sg1] eqn:Er.
        cbn [fst snd] in Hna, Hr', Ha.
        destruct (IHl Hl k n1 sg1 ltac:(lia) Hna Hr') as (sg' & t & n' & H1 & H2 & H3 & H4 & H5).
        exists sg', t, n'. rewrite H2, Ha. split; [exact H1|]. split; [reflexivity|]. split; [exact H3|]. split; [exact H4|exact H5].
    - unfold py_node_has_right, py_node_read_right, py_node_has_right, py_node_right.
      rewrite Hd, get_right. cbn [main_block b_right].
      pose proof (follow_reg r n sg (root_addr r)) as HF.
      destruct r as [|dr lr cr rr].
      + cbn [root_addr]. change (0 =? 0) with true. cbn [negb].
        exists sg, (Nd d l c Lf), n. split; [exact Hrep|]. split; [reflexivity|]. split; [exact Hn|]. split; [exact Hsub|].
        right. exists false. split; [reflexivity|]. split; [reflexivity|]. split; [exact E|reflexivity].
      + pose proof (subt_right _ _ _ _ _ Hsub) as Hr.
        destruct (HF (or_introl Hr) eq_refl Hrep) as (Hz & Hlt & Hna & Hr').
        rewrite Hz. cbn [negb]. rewrite Hlt.
        assert (Ha : pm_array (snd (py_node_read_o n sg (Some (root_addr (Nd dr lr cr rr))))) = pm_array sg).
        { rewrite py_node_read_o_some. destruct Hrep as (Hbs & (hdr & Harr & Hh) & Henc).
          pose proof (blk_at_main_subt s Hinv dr lr cr rr Hr) as Hblk. destruct (blk_at_off _ _ _ Hblk) as [Hao Hn0].
          pose proof (py_node_read_spec n sg hdr (files_of s) (tidx (addr dr)) _ Hbs Harr Hh Henc Hn0) as HS.
          cbv zeta in HS. rewrite <- Hao in HS. cbn [root_addr]. apply HS. }
        destruct (py_node_read_o n sg (Some (root_addr (Nd dr lr cr rr)))) as [n1 sg1] eqn:Er.
        cbn [fst snd] in Hna, Hr', Ha.
        destruct (IHr Hr k n1 sg1 ltac:(lia) Hna Hr') as (sg' & t & n' & H1 & H2 & H3 & H4 & H5).
        exists sg', t, n'. rewrite H2, Ha. split; [exact H1|]. split; [reflexivity|]. split; [exact H3|]. split; [exact H4|exact H5].
  Qed.

  Definition blk_with_parent (p : N) (b : tblock) : tblock :=
    mkBlk (b_stem b) (b_flags b) (b_we b) (b_left b) (b_right b) (b_child b) p (b_out b) (b_in b).
  Lemma set_parent_vals : forall b p, py_set_nth pos_parent (VNum p) (tblock_vals b) = tblock_vals (blk_with_parent p b).
  Proof. intros [st fl w l r c pa o i] p. reflexivity. Qed.
  Lemma set_left_vals : forall b a, py_set_nth pos_left (VNum a) (tblock_vals b) =
    tblock_vals (mkBlk (b_stem b) (b_flags b) (b_we b) a (b_right b) (b_child b) (b_parent b) (b_out b) (b_in b)).
  Proof. intros [st fl w l r c pa o i] a. reflexivity. Qed.
  Lemma set_right_vals : forall b a, py_set_nth pos_right (VNum a) (tblock_vals b) =
    tblock_vals (mkBlk (b_stem b) (b_flags b) (b_we b) (b_left b) a (b_child b) (b_parent b) (b_out b) (b_in b)).
  Proof. intros [st fl w l r c pa o i] a. reflexivity. Qed.

  Lemma trep_length : forall sg, trep (files_of s) sg ->
    length (pm_array sg) = (128 + 128 * length (ft (files_of s)))%nat.
  Proof. intros sg (_ & (hdr & Harr & Hh) & _). rewrite Harr, app_length, flat_blocks_length, Hh. reflexivity. Qed.

  Lemma node_in_file : forall d l c r sg, subt (Nd d l c r) (tr s) -> trep (files_of s) sg ->
    addr d + 128 <= N.of_nat (length (pm_array sg)) /\ 128 <= addr d.
  Proof.
    intros d l c r sg Hsub Hrep. pose proof (blk_at_main_subt s Hinv d l c r Hsub) as Hblk.
    destruct (blk_at_off _ _ _ Hblk) as [Ha Hn].
    assert (tidx (addr d) < length (ft (files_of s)))%nat by (apply nth_error_Some; congruence).
    rewrite (trep_length sg Hrep), Ha. unfold blk_off, bsz. change py_node_block_size with 128. lia.
  Qed.

  (* hanging a new sibling under the node the walk ended at: the new node's blocks are appended, one register of the node's
     block is rewritten in place, every other byte of the file is unchanged *)
  Lemma hang_spec : forall x sg n dt lt ct rt (side : bool),
    node_at (Nd dt lt ct rt) n -> subt (Nd dt lt ct rt) (tr s) -> trep (files_of s) sg ->
    lex x (stem dt) = (if side then Lt else Gt) ->
    let a := N.of_nat (length (pm_array sg)) in
    let d1 := mkNd a (par dt) x false false false true 0 0 0 in
    let b' := if side then main_block dt a (root_addr rt) (root_addr ct)
              else main_block dt (root_addr lt) a (root_addr ct) in
    exists sg' sib, hang x sg n = Some (sg', sib) /\
      nd_block sib = Some a /\ nd_exists sib = true /\ py_node_stem sib = x /\
      nd_data sib = tblock_vals (main_block d1 0 0 0) /\
      pm_block_size sg' = py_node_block_size /\
      firstn (N.to_nat (addr dt)) (pm_array sg') = firstn (N.to_nat (addr dt)) (pm_array sg) /\
      GenStorage.py_slice (addr dt) (addr dt + 128) (pm_array sg') = encode_tblock b' /\
      skipn (N.to_nat (addr dt) + 128) (pm_array sg') =
        skipn (N.to_nat (addr dt) + 128) (pm_array sg) ++ flat_map encode_tblock (node_blocks d1 0 0 0).
  Proof.
    intros x sg n dt lt ct rt side Hn Hsub Hrep Hlex a d1 b'.
    pose proof Hn as (He & Hb & Hd & Hs).
    pose proof Hrep as (Hbs & _ & _).
    destruct (node_in_file dt lt ct rt sg Hsub Hrep) as [Hin Hge].
    unfold hang.
    assert (Hinit : py_node_init sg (Some x) None None = (py_node_set_default_data py_node_new (Some x), sg)) by reflexivity.
    rewrite Hinit.
    destruct (py_node_new_node_spec x a) as (Hdata0 & Htail0 & Hblk0 & Hex0 & Hstem0).
    set (sib0 := py_node_set_default_data py_node_new (Some x)) in *.
    assert (Hpar : py_node_parent n = par dt).
    { unfold py_node_parent. rewrite Hd, get_parent. reflexivity. }
    rewrite Hpar.
    set (sib1 := py_node_set_parent sib0 (par dt)).
    assert (Hdata1 : nd_data sib1 = tblock_vals (main_block d1 0 0 0)).
    { unfold sib1, py_node_set_parent. cbn [nd_set_data nd_data]. rewrite Hdata0, set_parent_vals. reflexivity. }
    assert (Htail1 : nd_tail sib1 = skipn stem_size_nat x) by exact Htail0.
    assert (Hblk1 : nd_block sib1 = None) by exact Hblk0.
    assert (Hex1 : nd_exists sib1 = false) by exact Hex0.
    destruct (py_node_write_new sib1 sg (main_block d1 0 0 0) x Hblk1 Hex1 Hdata1 Htail1 Hbs)
      as (Harr2 & Hbs2 & _ & Hb2 & He2 & Ht2 & Hd2).
    destruct (py_node_write sib1 sg) as [sib2 sg2]. cbn [fst snd] in *.
    fold a in Hb2.
    assert (Hstem2 : py_node_stem sib2 = x).
    { unfold py_node_stem. rewrite Hd2, Ht2, Hdata1, Htail1. cbn [main_block].
      rewrite py_get_stem. cbn [b_stem stem d1]. apply firstn_skipn. }
    rewrite Hs. unfold blt. rewrite Hlex, Hb2.
    assert (Hage : (a <? py_first_data_block) = false).
    { apply N.ltb_ge. unfold a. change py_first_data_block with 128. lia. }
    assert (Hnew : pm_array sg2 = pm_array sg ++ flat_map encode_tblock (node_blocks d1 0 0 0)).
    { rewrite Harr2. unfold node_blocks. cbn [flat_map stem d1]. reflexivity. }
    assert (Hlen2 : addr dt + 128 <= N.of_nat (length (pm_array sg2))).
    { rewrite Hnew, app_length. lia. }
    destruct side.
    - unfold py_node_set_left. rewrite Hage.
      set (n2 := nd_set_data (py_set_nth pos_left (VNum a) (nd_data n)) n).
      assert (Hd3 : nd_data n2 = tblock_vals b').
      { unfold n2, b'. cbn [nd_set_data nd_data]. rewrite Hd, set_left_vals. reflexivity. }
      destruct (py_node_write_existing n2 sg2 (addr dt) b' He Hb Hd3 (eq_trans Hbs2 Hbs) Hlen2)
        as (_ & W2 & W3 & W4 & W5 & W6 & _).
      destruct (py_node_write n2 sg2) as [n3 sg3]. cbn [fst snd] in *.
      exists sg3, sib2. split; [reflexivity|]. split; [exact Hb2|]. split; [exact He2|]. split; [exact Hstem2|].
      split; [rewrite Hd2; exact Hdata1|]. split; [rewrite W6, Hbs2; exact Hbs|].
      split; [rewrite W3, Hnew, firstn_app; replace (N.to_nat (addr dt) - length (pm_array sg))%nat with 0%nat by lia;
              cbn [firstn]; apply app_nil_r|].
      split; [exact W4|].
      rewrite W5, Hnew, skipn_app. replace (N.to_nat (addr dt) + 128 - length (pm_array sg))%nat with 0%nat by lia.
      reflexivity.
    - unfold py_node_set_right. rewrite Hage.
      set (n2 := nd_set_data (py_set_nth pos_right (VNum a) (nd_data n)) n).
      assert (Hd3 : nd_data n2 = tblock_vals b').
      { unfold n2, b'. cbn [nd_set_data nd_data]. rewrite Hd, set_right_vals. reflexivity. }
      destruct (py_node_write_existing n2 sg2 (addr dt) b' He Hb Hd3 (eq_trans Hbs2 Hbs) Hlen2)
        as (_ & W2 & W3 & W4 & W5 & W6 & _).
      destruct (py_node_write n2 sg2) as [n3 sg3]. cbn [fst snd] in *.
      exists sg3, sib2. split; [reflexivity|]. split; [exact Hb2|]. split; [exact He2|]. split; [exact Hstem2|].
      split; [rewrite Hd2; exact Hdata1|]. split; [rewrite W6, Hbs2; exact Hbs|].
      split; [rewrite W3, Hnew, firstn_app; replace (N.to_nat (addr dt) - length (pm_array sg))%nat with 0%nat by lia;
              cbn [firstn]; apply app_nil_r|].
      split; [exact W4|].
      rewrite W5, Hnew, skipn_app. replace (N.to_nat (addr dt) + 128 - length (pm_array sg))%nat with 0%nat by lia.
      reflexivity.
  Qed.

  (* __ensure_stem_from_siblings(node, stem) from the node object of the root of a sibling tree: either the sibling carrying the
     stem exists and is returned with the file untouched, or a new node is appended and hung under the node where the walk ended *)
  Theorem py_trie_ensure_spec : forall x sub n sg,
    subt sub (tr s) -> node_at sub n -> trep (files_of s) sg ->
    match sib_end x sub with
    | Some (t, None) =>
        exists sg' n', py_trie_ensure_stem_from_siblings sg n x = Some (sg', n') /\ node_at t n' /\
                       pm_array sg' = pm_array sg /\ trep (files_of s) sg'
    | Some (Nd dt lt ct rt, Some side) =>
        let a := N.of_nat (length (pm_array sg)) in
        let d1 := mkNd a (par dt) x false false false true 0 0 0 in
        let b' := if side then main_block dt a (root_addr rt) (root_addr ct)
                  else main_block dt (root_addr lt) a (root_addr ct) in
        subt (Nd dt lt ct rt) (tr s) /\ (if side then lt else rt) = Lf /\
        exists sg' sib, py_trie_ensure_stem_from_siblings sg n x = Some (sg', sib) /\
          nd_block sib = Some a /\ nd_exists sib = true /\ py_node_stem sib = x /\
          nd_data sib = tblock_vals (main_block d1 0 0 0) /\
          pm_block_size sg' = py_node_block_size /\
          firstn (N.to_nat (addr dt)) (pm_array sg') = firstn (N.to_nat (addr dt)) (pm_array sg) /\
          GenStorage.py_slice (addr dt) (addr dt + 128) (pm_array sg') = encode_tblock b' /\
          skipn (N.to_nat (addr dt) + 128) (pm_array sg') =
            skipn (N.to_nat (addr dt) + 128) (pm_array sg) ++ flat_map encode_tblock (node_blocks d1 0 0 0)
    | _ => False
    end.
  Proof.
    intros x sub n sg Hsub Hn Hrep. rewrite ensure_eq.
    assert (Hex : nd_exists n = true) by (destruct sub; [destruct Hn|apply Hn]).
    rewrite Hex. cbn [negb].
    destruct (loop2_spec x sub Hsub (S (length (pm_array sg))) n sg (fuel_enough sub sg Hsub Hrep) Hn Hrep)
      as (sg1 & t & n1 & Hrep1 & Harr1 & Hn1 & Hsub1 & [[Es El]|(side & Es & El & Ht)]).
    - rewrite Es, El. cbv beta iota. destruct t; (exists sg1, n1; split; [reflexivity|]; split; [exact Hn1|]; split; [exact Harr1|exact Hrep1]).
    - rewrite Es, El. destruct t as [|dt lt ct rt]; [destruct Ht|]. destruct Ht as [Hlex Hlf].
      cbv beta iota zeta. split; [exact Hsub1|]. split; [exact Hlf|].
      destruct (hang_spec x sg1 n1 dt lt ct rt side Hn1 Hsub1 Hrep1 Hlex) as (sg' & sib & E & H1 & H2 & H3 & H4 & H5 & H6 & H7 & H8).
      rewrite Harr1 in *. exists sg', sib.
      split; [exact E|]. split; [exact H1|]. split; [exact H2|]. split; [exact H3|]. split; [exact H4|].
      split; [exact H5|]. split; [exact H6|]. split; [exact H7|exact H8].
  Qed.
(*WRITE-SIDE*)
End OnState.

Print Assumptions py_trie_lru_node_spec.
Print Assumptions py_trie_windup_spec.
Print Assumptions py_trie_ensure_spec.

(* ---- the hypothesis trep is met by the trie file of any state whose blocks fit their fields ---- *)
From Traph Require ReopenFacts PropsEx.
Lemma trep_of_file : forall s c, Forall blk_encodable (ft (files_of s)) ->
  trep (files_of s) (mk_pm py_node_block_size (trie_file s) c).
Proof.
  intros s c Henc. split; [reflexivity|]. split; [|exact Henc].
  exists (encode_trie_header (lastwe s)). split; [|apply ReopenFacts.encode_trie_header_length].
  unfold trie_file, files_of. cbn [pm_array ft]. f_equal.
  induction (flatten (tr s)) as [|p l IH]; [reflexivity|]. cbn [flat_map map]. rewrite IH. reflexivity.
Qed.

(* non-vacuity: the translated code run on the bytes of the trie file of a concrete state (PropsEx.exs: a history with a
   103-byte stem) finds the node of a known LRU at the address the model gives it, finds nothing for an unknown one, winds the
   found block up to the LRU, and an insertion of a new sibling appends exactly one block *)
Definition ex_sg : py_pm := mk_pm 128 (trie_file PropsEx.exs) 0.
Example ex_lookup_known :
  option_map (fun r => option_map nd_block (snd r)) (py_trie_lru_node ex_sg PropsEx.ex_pxy)
  = Some (option_map (fun d => Some (addr d)) (find (lru_iter PropsEx.ex_pxy) (tr PropsEx.exs))).
Proof. vm_compute. reflexivity. Qed.
Example ex_lookup_unknown :
  option_map (fun r => option_map nd_block (snd r)) (py_trie_lru_node ex_sg (PropsEx.ex_px ++ [112; 58; 122; 124]))
  = Some None.
Proof. vm_compute. reflexivity. Qed.
Example ex_windup :
  match py_trie_lru_node ex_sg PropsEx.ex_pl with
  | Some (sg, Some n) => match nd_block n with
                         | Some a => option_map (fun r => beq (snd r) PropsEx.ex_pl) (py_trie_windup_lru sg a)
                         | None => None
                         end
  | _ => None
  end = Some true.
Proof. vm_compute. reflexivity. Qed.
Example ex_insert_sibling :
  match py_trie_lru_node ex_sg PropsEx.ex_px with
  | Some (sg, Some n) =>
      option_map (fun r => (nd_block (snd r), N.of_nat (length (pm_array (fst r))) - N.of_nat (length (pm_array sg))))
                 (py_trie_ensure_stem_from_siblings sg n [112; 58; 122; 124])
  | _ => None
  end = Some (Some (N.of_nat (length (trie_file PropsEx.exs))), 128).
Proof. vm_compute. reflexivity. Qed.
