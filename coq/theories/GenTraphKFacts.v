(* GenTraphKFacts.v — the submission of links translated from the source (GenTraphK.v, generated on every run from
   /repo/traph/traph.py: Traph.add_links) does on the bytes of BOTH files, on the RAM header and in its report exactly what the
   model's Traph.add_links does, for every history.
   PLAN
     1. __add_page returns the node object of the page (its block = the page's address): py_traph_add_page_int_node
     2. the generated add_links re-stated in named pieces (see_py, k_step, flush_step; equality by reflexivity)
     3. dictionaries: py_dict_get / py_dict_mem / py_dict_update, py_mm_add = mm_add, py_blocks_of = map addr_of
     4. the first loop = the model's fold with `see` (first_loop_spec)
     5. one flush = store_links (flush_step_spec), a flush loop = flush_links (flush_loop_spec)
     6. py_traph_add_links_state_spec / py_traph_add_links_spec; example *)
From Coq Require Import List NArith Bool Lia Arith.
Import ListNotations.
From Traph Require Import Bytes Consts Layout Helpers Rules Tst TstDefs Traph Spec Ops RefDefs Traphw TraceDefs Codec CodecFacts
  TstFacts Store StoreFacts StoreFacts2 RefFull LinkFacts GenStorage GenNode GenNodeFacts GenLinks GenLinksFacts GenTrie
  GenTrieFacts GenTrieW GenTrieWDefs GenTraphW GenTraphWDefs GenTraphP GenTraphPDefs GenTraphPFacts GenTraphK.
From Traph Require Import TraceFacts TraceFacts2 TraceFacts3 TraceFacts4 TraceFacts5 LinkFacts2 LinkFacts3 GenTrieWAdd1 GenTrieWAdd2
  GenTrieWAdd GenTrieWPage GenTrieWAll ReopenFacts GenTrieWFrame GenTraphWFacts1 GenTraphWFacts ViewFacts ViewFacts2 RefCore
  IdFacts GenHelpersFacts GenTraphPFacts1.
Open Scope N_scope.

Arguments N.shiftr : simpl never.
Arguments N.shiftl : simpl never.
Arguments N.modulo : simpl never.
Arguments N.div : simpl never.
Arguments N.land : simpl never.
Arguments N.lor : simpl never.
Arguments N.ldiff : simpl never.
Arguments N.mul : simpl never.
Arguments N.add : simpl never.
Arguments N.sub : simpl never.
Arguments N.ltb : simpl never.
Arguments N.eqb : simpl never.
Arguments N.leb : simpl never.
Arguments N.pow : simpl never.

(* ====================================================================================== *)
(* 1. the node object returned by __add_page                                              *)
(* ====================================================================================== *)
Lemma finish_inv : forall hd sg n rp hd' sg' n' rp',
  finish hd sg n rp = Some (hd', sg', (n', rp')) -> py_node_refresh n sg = (n', sg').
Proof.
  intros hd sg n rp hd' sg' n' rp'. unfold finish. destruct (py_node_refresh n sg) as [n1 sg1].
  intro E. injection E as _ <- <- _. reflexivity.
Qed.

Lemma create_then_finish_inv : forall hd sg n rp p hd' sg' n' rp',
  create_then_finish hd sg n rp p = Some (hd', sg', (n', rp')) -> exists sg2, py_node_refresh n sg2 = (n', sg').
Proof.
  intros hd sg n rp p hd' sg' n' rp'. unfold create_then_finish.
  destruct (py_traph_create_webentity_from hd sg p true true) as [[[hd1 sg1] r1]|]; [|discriminate].
  intro E. exists sg1. exact (finish_inv _ _ _ _ _ _ _ _ E).
Qed.

(* whatever the branch taken, the node returned is the node object of LRUTrie.add_page, refreshed *)
Lemma add_page_int_shape : forall rm hd sg lru cr hd' sg' n' rp,
  py_traph_add_page_int rm hd sg lru cr = Some (hd', sg', (n', rp)) ->
  exists sg1 n ph sg2, py_trie_add_page sg lru cr = Some (sg1, (n, ph)) /\ py_node_refresh n sg2 = (n', sg').
Proof.
  intros rm hd sg lru cr hd' sg' n' rp. rewrite add_page_int_eq.
  destruct (py_trie_add_page sg lru cr) as [[sg1 [n ph]]|]; [|discriminate]. cbv zeta.
  destruct (fold_left (rule_step rm lru) (py_hist_rules_to_apply ph) (Some [])) as [longest|]; [|discriminate].
  unfold after_rules. intro E. exists sg1, n, ph.
  destruct (match hs_webentity_position ph with Some p => N.of_nat (length longest) <=? p | None => false end).
  - exists sg1. split; [reflexivity|]. exact (finish_inv _ _ _ _ _ _ _ _ E).
  - destruct (py_nonempty longest).
    + destruct (create_then_finish_inv _ _ _ _ _ _ _ _ _ E) as [sg2 E2]. exists sg2. auto.
    + destruct (py_traph_apply_webentity_default_creation_rule rm lru) as [[p|]|]; [| |discriminate].
      * destruct (py_nonempty p).
        -- destruct (create_then_finish_inv _ _ _ _ _ _ _ _ _ E) as [sg2 E2]. exists sg2. auto.
        -- exists sg1. split; [reflexivity|]. exact (finish_inv _ _ _ _ _ _ _ _ E).
      * exists sg1. split; [reflexivity|]. exact (finish_inv _ _ _ _ _ _ _ _ E).
Qed.

Lemma same_sym_trep : forall f sg sg', trep f sg' -> same sg sg' -> trep f sg.
Proof. intros f sg sg' (H1 & H2 & H3) [Ha Hb]. unfold trep. rewrite <- Ha, <- Hb. repeat split; assumption. Qed.

(* Traph.__add_page as in GenTraphPFacts, and the node object returned is the one of the page: its block is the page's address *)
Theorem py_traph_add_page_int_node : forall s, Inv18 s -> root_first s -> forall rm hd sg lru cr,
  ramrep s rm -> hrep s hd sg -> wf_lru lru ->
  walk_known (rules s) lru (snd (fst (trie_add_page lru cr s))) ->
  let r := add_page_int lru cr s in
  let s' := fst (fst r) in
  nb s' * 128 < 2 ^ 64 -> lastwe s + 1 < 2 ^ 32 ->
  Inv18 s' /\ root_first s' /\
  exists hd' sg' n', py_traph_add_page_int rm hd sg lru cr = Some (hd', sg', (n', report_of (snd (fst r)) (snd r))) /\
    hrep s' hd' sg' /\ ramrep s' rm /\
    exists d, find (lru_iter lru) (tr s') = Some d /\ nd_block n' = Some (addr d).
Proof.
  intros s Hinv Hroot rm hd sg lru cr Hram Hh Hl Hwk r s' Hsize Hlt.
  destruct (py_traph_add_page_int_spec s Hinv Hroot rm hd sg lru cr Hram Hh Hl Hwk Hsize Hlt)
    as (Hinv' & Hroot' & hd' & sg' & n' & E & Hh' & Hram').
  fold r s' in Hinv', Hroot', E, Hh', Hram'.
  split; [exact Hinv'|]. split; [exact Hroot'|]. exists hd', sg', n'. split; [exact E|]. split; [exact Hh'|].
  split; [exact Hram'|].
  destruct (add_page_int_shape _ _ _ _ _ _ _ _ _ E) as (sg1 & n & ph & sg2 & Ep & Er).
  set (r1 := trie_add_page lru cr s) in *. set (s1 := fst (fst r1)).
  assert (Hsize1 : nb s1 * 128 < 2 ^ 64).
  { pose proof (add_page_int_nb_trie lru cr s) as Hm. fold r1 s1 r s' in Hm. rewrite pow64 in *. nia. }
  destruct (py_trie_add_page_full s Hinv sg lru cr Hroot (proj1 Hh) Hl Hsize1) as (sg1' & n0 & ph0 & Ep' & _ & _ & t' & Ht' & Hn).
  fold r1 s1 in Ht'. rewrite Ep in Ep'. injection Ep' as _ <- _.
  destruct t' as [|d1 l1 c1 r1']; [destruct Hn|]. destruct Hn as (_ & Hblk & _).
  assert (Hf1 : find (lru_iter lru) (tr s1) = Some d1) by (rewrite find_of_sub, Ht'; reflexivity).
  (* from the state after LRUTrie.add_page to the final state: addresses are kept *)
  assert (Hg1 : good s1) by (apply (step_good s), trie_add_page_step, Inv18_good, Hinv).
  assert (Hstep : step_ok s1 s').
  { unfold s', r. rewrite add_page_int_parts. cbv zeta. fold r1 s1.
    destruct (decide s1 lru (snd (fst r1))) as [|p|]; cbn [fst]; try (apply step_refl; exact Hg1).
    apply create_from_step. exact Hg1. }
  destruct Hstep as (_ & _ & Hold & _). destruct (Hold _ _ Hf1) as (d' & Hf' & Ha' & _).
  exists d'. split; [exact Hf'|].
  (* the refresh reads the block of the node *)
  destruct (find_sub (lru_iter lru) (tr s')) as [[|d2 l2 c2 r2]|] eqn:Efs; rewrite find_of_sub, Efs in Hf'; try discriminate Hf'.
  injection Hf' as ->.
  pose proof (refresh_same n sg2) as HS. rewrite Er in HS. cbn [snd] in HS.
  assert (Hrep2 : trep (files_of s') sg2) by exact (same_sym_trep _ _ _ (proj1 Hh') HS).
  pose proof (read_subt s' Hinv' d' l2 c2 r2 n sg2 (find_sub_subt _ _ _ Efs) Hrep2) as [Hna _]. cbv zeta in Hna.
  unfold py_node_refresh in Er. rewrite Hblk, <- Ha' in Er.
  destruct (py_node_read_o n sg2 (Some (addr d'))) as [n3 sg3]. injection Er as <- <-. cbn [fst] in Hna.
  destruct Hna as (_ & Hb & _). exact Hb.
Qed.

(* ====================================================================================== *)
(* 2. the generated definition in named pieces                                            *)
(* ====================================================================================== *)
(* `if page not in pages: node, page_report = self.__add_page(page); report += page_report; pages[page] = node` *)
Definition see_py (rm : py_ram) (l : bytes) (x : py_thdr * py_pm * py_report * list (bytes * py_node))
  : option (py_thdr * py_pm * py_report * list (bytes * py_node)) :=
  let '(hd, sg, rp, pages) := x in
  if negb (py_dict_mem l pages)
  then match py_traph_add_page_int rm hd sg l false with
       | None => None
       | Some (hd, sg, (nd, prp)) => Some (hd, sg, py_report_iadd rp prp, py_dict_update l nd pages)
       end
  else Some x.

Definition kst : Type :=
  (py_thdr * py_pm * py_pm * py_report * list (bytes * py_node) * list (bytes * list bytes) * list (bytes * list bytes))%type.

(* one turn of `for source_page, target_page in links` (the generated text) *)
Definition k_step (rm : py_ram) (st : option kst) (v__it : (bytes * bytes)) : option kst :=
 match st with
 | None => None
 | Some (hd, sg, sgl, v_report, v_pages, v_outlinks, v_inlinks) => (let '(v_source_page, v_target_page) := v__it in
 (if (negb (py_dict_mem v_source_page v_pages))
 then (match py_traph_add_page_int rm hd sg v_source_page false with
 | None => None
 | Some (hd, sg, (v_node, v_page_report)) => (let v_report := py_report_iadd v_report v_page_report in
 (let v_pages := py_dict_update v_source_page v_node v_pages in
 (if (negb (py_dict_mem v_target_page v_pages))
 then (match py_traph_add_page_int rm hd sg v_target_page false with
 | None => None
 | Some (hd, sg, (v_node, v_page_report)) => (let v_report := py_report_iadd v_report v_page_report in
 (let v_pages := py_dict_update v_target_page v_node v_pages in
 (let v_outlinks := py_mm_add v_source_page v_target_page v_outlinks in
 (let v_inlinks := py_mm_add v_target_page v_source_page v_inlinks in
 (Some (hd, sg, sgl, v_report, v_pages, v_outlinks, v_inlinks)))))) end)
 else (let v_outlinks := py_mm_add v_source_page v_target_page v_outlinks in
 (let v_inlinks := py_mm_add v_target_page v_source_page v_inlinks in
 (Some (hd, sg, sgl, v_report, v_pages, v_outlinks, v_inlinks))))))) end)
 else (if (negb (py_dict_mem v_target_page v_pages))
 then (match py_traph_add_page_int rm hd sg v_target_page false with
 | None => None
 | Some (hd, sg, (v_node, v_page_report)) => (let v_report := py_report_iadd v_report v_page_report in
 (let v_pages := py_dict_update v_target_page v_node v_pages in
 (let v_outlinks := py_mm_add v_source_page v_target_page v_outlinks in
 (let v_inlinks := py_mm_add v_target_page v_source_page v_inlinks in
 (Some (hd, sg, sgl, v_report, v_pages, v_outlinks, v_inlinks)))))) end)
 else (let v_outlinks := py_mm_add v_source_page v_target_page v_outlinks in
 (let v_inlinks := py_mm_add v_target_page v_source_page v_inlinks in
 (Some (hd, sg, sgl, v_report, v_pages, v_outlinks, v_inlinks))))))) end.

(* one turn of `for source_page, target_pages in outlinks.items()` / `for target_page, source_pages in inlinks.items()` *)
Definition flush_step (out : bool) (v_pages : list (bytes * py_node)) (st : option (py_pm * py_pm)) (v__it : (bytes * list bytes))
  : option (py_pm * py_pm) :=
 match st with
 | None => None
 | Some (sg, sgl) => (let '(v_source_page, v_target_pages) := v__it in
 (match py_dict_get v_source_page v_pages with
 | None => None
 | Some v_source_node => (let '(v_source_node, sg) := py_node_refresh v_source_node sg in
 (match py_blocks_of v_pages v_target_pages with
 | None => None
 | Some v_target_blocks => (match py_ls_add_links v_source_node sg sgl v_target_blocks out with
 | None => None
 | Some (v_source_node, sg, sgl) => (Some (sg, sgl)) end) end)) end)) end.

Lemma add_links_code_eq : forall rm hd sg sgl links,
  py_traph_add_links rm hd sg sgl links =
  match fold_left (k_step rm) links (Some (hd, sg, sgl, py_report_new, [], [], [])) with
  | None => None
  | Some (hd, sg, sgl, rp, pages, outs, ins) =>
      match fold_left (flush_step true pages) outs (Some (sg, sgl)) with
      | None => None
      | Some (sg, sgl) =>
          match fold_left (flush_step false pages) ins (Some (sg, sgl)) with
          | None => None
          | Some (sg, sgl) => Some (hd, sg, sgl, rp)
          end
      end
  end.
Proof. reflexivity. Qed.

(* the turn of the first loop is `see` on the source, `see` on the target, then the two multimaps *)
Lemma k_step_eq : forall rm hd sg sgl rp pages outs ins a b,
  k_step rm (Some (hd, sg, sgl, rp, pages, outs, ins)) (a, b) =
  match see_py rm a (hd, sg, rp, pages) with
  | None => None
  | Some (hd1, sg1, rp1, pages1) =>
      match see_py rm b (hd1, sg1, rp1, pages1) with
      | None => None
      | Some (hd2, sg2, rp2, pages2) => Some (hd2, sg2, sgl, rp2, pages2, py_mm_add a b outs, py_mm_add b a ins)
      end
  end.
Proof.
  intros. unfold k_step, see_py.
  destruct (negb (py_dict_mem a pages)).
  - destruct (py_traph_add_page_int rm hd sg a false) as [[[hd1 sg1] [n1 r1]]|]; [|reflexivity]. cbv zeta.
    destruct (negb (py_dict_mem b (py_dict_update a n1 pages))); [|reflexivity].
    destruct (py_traph_add_page_int rm hd1 sg1 b false) as [[[hd2 sg2] [n2 r2]]|]; reflexivity.
  - destruct (negb (py_dict_mem b pages)); [|reflexivity].
    destruct (py_traph_add_page_int rm hd sg b false) as [[[hd2 sg2] [n2 r2]]|]; reflexivity.
Qed.

Lemma k_fold_none : forall rm links, fold_left (k_step rm) links None = None.
Proof. intros rm links. induction links as [|x links IH]; [reflexivity|exact IH]. Qed.
Lemma flush_fold_none : forall out pages mm, fold_left (flush_step out pages) mm None = None.
Proof. intros out pages mm. induction mm as [|x mm IH]; [reflexivity|exact IH]. Qed.

(* ====================================================================================== *)
(* 3. dictionaries                                                                        *)
(* ====================================================================================== *)
Lemma beq_true : forall a b : bytes, beq a b = true <-> a = b.
Proof. exact beq_eq. Qed.

Lemma beq_refl' : forall a : bytes, beq a a = true.
Proof. intro a. apply beq_true. reflexivity. Qed.

Lemma dict_get_update : forall (V : Type) x k (v : V) d,
  py_dict_get x (py_dict_update k v d) = if beq x k then Some v else py_dict_get x d.
Proof.
  intros V x k v d. induction d as [|[k' v'] d IH]; cbn [py_dict_update py_dict_get]; [reflexivity|].
  destruct (beq k k') eqn:Ek.
  - apply beq_true in Ek. subst k'. cbn [py_dict_get]. destruct (beq x k); reflexivity.
  - cbn [py_dict_get]. rewrite IH. destruct (beq x k') eqn:Ex; [|reflexivity].
    destruct (beq x k) eqn:Ex2; [|reflexivity].
    apply beq_true in Ex, Ex2. subst. rewrite beq_refl' in Ek. discriminate Ek.
Qed.

Lemma dict_mem_update : forall (V : Type) x k (v : V) d,
  py_dict_mem x (py_dict_update k v d) = beq x k || py_dict_mem x d.
Proof. intros. unfold py_dict_mem. rewrite dict_get_update. destruct (beq x k); reflexivity. Qed.

Lemma dict_mem_get : forall (V : Type) x (d : list (bytes * V)), py_dict_mem x d = true -> exists v, py_dict_get x d = Some v.
Proof. intros V x d. unfold py_dict_mem. destruct (py_dict_get x d) as [v|]; [eauto|discriminate]. Qed.

Lemma py_mm_add_eq : forall k v d, py_mm_add k v d = mm_add k v d.
Proof. intros k v d. induction d as [|[k' vs] d IH]; cbn [py_mm_add mm_add]; [reflexivity|]. rewrite IH. reflexivity. Qed.

(* a recorded node object has the block of its page *)
Definition pages_ok (s : traph) (pages : list (bytes * py_node)) : Prop :=
  forall l nd, py_dict_get l pages = Some nd ->
    exists d, find (lru_iter l) (tr s) = Some d /\ nd_block nd = Some (addr d).

(* the nodes of s are nodes of s', at the same addresses *)
Definition keeps (s s' : traph) : Prop :=
  forall p d, find p (tr s) = Some d -> exists d', find p (tr s') = Some d' /\ addr d' = addr d.

Lemma keeps_refl : forall s, keeps s s.
Proof. intros s p d H. eauto. Qed.

Lemma step_keeps : forall s s', step_ok s s' -> keeps s s'.
Proof.
  intros s s' (_ & _ & Hold & _) p d H. destruct (Hold p d H) as (d' & H1 & H2 & _). eauto.
Qed.

Lemma pages_ok_keeps : forall s s' pages, keeps s s' -> pages_ok s pages -> pages_ok s' pages.
Proof.
  intros s s' pages Hk Hp l nd Hg. destruct (Hp l nd Hg) as (d & Hf & Hb).
  destruct (Hk _ _ Hf) as (d' & Hf' & Ha). exists d'. split; [exact Hf'|congruence].
Qed.

Lemma blocks_of_spec : forall s pages ts, pages_ok s pages ->
  (forall t, In t ts -> py_dict_mem t pages = true) ->
  py_blocks_of pages ts = Some (map (fun o => addr_of o s) ts).
Proof.
  intros s pages ts Hp. induction ts as [|t ts IH]; intro Hin; [reflexivity|].
  cbn [py_blocks_of map].
  destruct (dict_mem_get _ t pages (Hin t (or_introl eq_refl))) as [nd Hg]. rewrite Hg.
  destruct (Hp t nd Hg) as (d & Hf & Hb). rewrite Hb, IH by (intros t' Ht'; apply Hin; right; exact Ht').
  unfold addr_of. rewrite Hf. reflexivity.
Qed.

(* ====================================================================================== *)
(* 4. the first loop                                                                      *)
(* ====================================================================================== *)
Lemma seeM_eq : forall cr l s n c seen,
  seeM cr l (s, n, c, seen) =
  if mem_bytes l seen then (s, n, c, seen)
  else (fst (fst (add_page_int l cr s)), n + snd (fst (add_page_int l cr s)), c ++ snd (add_page_int l cr s), l :: seen).
Proof.
  intros. unfold seeM. destruct (mem_bytes l seen); [reflexivity|].
  destruct (add_page_int l cr s) as [[s1 n1] c1]. reflexivity.
Qed.

(* what `see` keeps, whatever the sizes *)
Lemma seeM_model : forall cr l s n c seen, Inv18 s ->
  let x := seeM cr l (s, n, c, seen) in
  let s' := fst (fst (fst x)) in
  nb s <= nb s' /\ lastwe s <= lastwe s' /\ lastwe s' <= lastwe s + 1 /\ stubs s' = stubs s /\ keeps s s'.
Proof.
  intros cr l s n c seen Hinv. cbv zeta. rewrite seeM_eq. destruct (mem_bytes l seen); cbn [fst snd].
  - split; [lia|]. split; [lia|]. split; [lia|]. split; [reflexivity|apply keeps_refl].
  - pose proof (add_page_int_nb_mono l cr s) as H1.
    pose proof (add_page_int_counter l cr s) as H2. cbv zeta in H2.
    pose proof (add_page_int_step l cr s (Inv18_good s Hinv)) as H3.
    split; [exact H1|]. split; [destruct H2 as [[_ H2]|(v & _ & H2)]; lia|].
    split; [destruct H2 as [[_ H2]|(v & _ & H2)]; lia|].
    split; [exact (step_stubs _ _ H3)|exact (step_keeps _ _ H3)].
Qed.

(* the invariant of `see`: the model's (state, created ids, seen list) against the code's (header, storage, dict) *)
Definition SInv (rm : py_ram) (s : traph) (c : list (N * list bytes)) (seen : list bytes)
  (hd : py_thdr) (sg : py_pm) (pages : list (bytes * py_node)) : Prop :=
  Inv18 s /\ root_first s /\ anchors_known s /\ ramrep s rm /\ hrep s hd sg /\
  (forall w, In w (map fst c) -> w <= lastwe s) /\
  pages_ok s pages /\ (forall y, py_dict_mem y pages = mem_bytes y seen).

Lemma see_spec : forall rm l s n c seen hd sg pages,
  SInv rm s c seen hd sg pages -> wf_lru l ->
  let x := seeM false l (s, n, c, seen) in
  let s' := fst (fst (fst x)) in
  nb s' * 128 < 2 ^ 64 -> lastwe s + 1 < 2 ^ 32 ->
  exists hd' sg' pages',
    see_py rm l (hd, sg, report_of n c, pages) = Some (hd', sg', report_of (snd (fst (fst x))) (snd (fst x)), pages') /\
    SInv rm s' (snd (fst x)) (snd x) hd' sg' pages' /\
    py_dict_mem l pages' = true /\ (forall y, py_dict_mem y pages = true -> py_dict_mem y pages' = true).
Proof.
  intros rm l s n c seen hd sg pages (Hinv & Hroot & Hk & Hram & Hh & Hb & Hp & Hm) Hl. cbv zeta.
  rewrite seeM_eq. unfold see_py. rewrite (Hm l).
  destruct (mem_bytes l seen) eqn:Em; cbn [fst snd negb]; intros Hsize Hlt.
  - exists hd, sg, pages. split; [reflexivity|]. split; [exact (conj Hinv (conj Hroot (conj Hk (conj Hram (conj Hh (conj Hb (conj Hp Hm)))))))|].
    split; [rewrite Hm; exact Em|auto].
  - set (r := add_page_int l false s) in *. set (s1 := fst (fst r)) in *.
    destruct (py_traph_add_page_int_node s Hinv Hroot rm hd sg l false Hram Hh Hl
                (trie_add_page_walk_known l false s Hl Hk) Hsize Hlt)
      as (Hinv1 & Hroot1 & hd1 & sg1 & n1 & E & Hh1 & Hram1 & d1 & Hf1 & Hb1).
    fold r s1 in Hinv1, Hroot1, E, Hh1, Hram1, Hf1.
    pose proof (anchors_known_add_page_int l false s Hk) as Hk1. fold r s1 in Hk1.
    pose proof (add_page_int_counter l false s) as Hc. cbv zeta in Hc. fold r s1 in Hc.
    pose proof (add_page_int_step l false s (Inv18_good s Hinv)) as Hstep. fold r s1 in Hstep.
    rewrite E.
    rewrite (iadd_fresh n c (snd (fst r)) (snd r) (lastwe s) Hb)
      by (destruct Hc as [[Hc _]|(valid & Hc & _)]; [left; exact Hc|right; exists valid; exact Hc]).
    exists hd1, sg1, (py_dict_update l n1 pages). split; [reflexivity|]. split.
    + split; [exact Hinv1|]. split; [exact Hroot1|]. split; [exact Hk1|]. split; [exact Hram1|]. split; [exact Hh1|].
      split; [|split].
      * intros w Hin. rewrite map_app in Hin. apply in_app_or in Hin.
        destruct Hc as [[Hc El]|(valid & Hc & El)]; rewrite Hc in Hin; cbn [map fst In] in Hin; rewrite El.
        -- destruct Hin as [Hin|[]]. exact (Hb w Hin).
        -- destruct Hin as [Hin|[<-|[]]]; [specialize (Hb w Hin)|]; lia.
      * intros y nd Hg. rewrite dict_get_update in Hg. destruct (beq y l) eqn:Ey.
        -- apply beq_true in Ey. subst y. injection Hg as <-. exists d1. split; assumption.
        -- exact (pages_ok_keeps s s1 pages (step_keeps _ _ Hstep) Hp y nd Hg).
      * intro y. rewrite dict_mem_update, Hm. reflexivity.
    + split; [rewrite dict_mem_update, beq_refl'; reflexivity|].
      intros y Hy. rewrite dict_mem_update, Hy. apply orb_true_r.
Qed.

(* every key and every value of a multimap is a key of the dict *)
Definition mm_in (pages : list (bytes * py_node)) (mm : list (bytes * list bytes)) : Prop :=
  forall k vs, In (k, vs) mm -> py_dict_mem k pages = true /\ forall v, In v vs -> py_dict_mem v pages = true.

Lemma mm_in_add : forall pages k v mm, mm_in pages mm -> py_dict_mem k pages = true -> py_dict_mem v pages = true ->
  mm_in pages (mm_add k v mm).
Proof.
  intros pages k v mm. induction mm as [|[k0 vs0] mm IH]; intros Hm Hk Hv k' vs' Hin; cbn [mm_add] in Hin.
  - destruct Hin as [E|[]]. injection E as <- <-. split; [exact Hk|]. intros v' [<-|[]]. exact Hv.
  - destruct (beq k k0).
    + destruct Hin as [E|Hin].
      * injection E as <- <-. destruct (Hm k0 vs0 (or_introl eq_refl)) as [H1 H2]. split; [exact H1|].
        intros v' Hv'. apply in_app_or in Hv'. destruct Hv' as [Hv'|[<-|[]]]; auto.
      * apply Hm. right. exact Hin.
    + destruct Hin as [E|Hin].
      * injection E as <- <-. apply Hm. left. reflexivity.
      * apply IH; auto. intros k1 vs1 H1. apply Hm. right. exact H1.
Qed.

Lemma mm_in_mono : forall pages pages' mm, (forall y, py_dict_mem y pages = true -> py_dict_mem y pages' = true) ->
  mm_in pages mm -> mm_in pages' mm.
Proof. intros pages pages' mm Hmono Hm k vs Hin. destruct (Hm k vs Hin) as [H1 H2]. split; auto. Qed.

(* the model's turn *)
Definition FM : traph * N * list (N * list bytes) * list bytes * list (bytes * list bytes) * list (bytes * list bytes) ->
  bytes * bytes -> traph * N * list (N * list bytes) * list bytes * list (bytes * list bytes) * list (bytes * list bytes) :=
  fun '(s, n, c, seen, outs, ins) '(a, b) =>
    let '(s, n, c, seen) := seeM false a (s, n, c, seen) in
    let '(s, n, c, seen) := seeM false b (s, n, c, seen) in
    (s, n, c, seen, mm_add a b outs, mm_add b a ins).

Lemma add_links_FM : forall links s,
  add_links links s =
  let '(s1, n, c, _, outs, ins) := fold_left FM links (s, 0, [], [], [], []) in
  (flush_links false ins (flush_links true outs s1), Report n c).
Proof. reflexivity. Qed.

Lemma seeM_Inv18 : forall cr l s n c seen, Inv18 s -> Inv18 (fst (fst (fst (seeM cr l (s, n, c, seen))))).
Proof.
  intros cr l s n c seen Hinv. rewrite seeM_eq. destruct (mem_bytes l seen); cbn [fst]; [exact Hinv|].
  exact (Tr_inv _ _ _ (add_page_int_Tr l cr s Hinv)).
Qed.

Lemma FM_model : forall ls s n c seen outs ins, Inv18 s ->
  forall s1 n1 c1 seen1 outs1 ins1, fold_left FM ls (s, n, c, seen, outs, ins) = (s1, n1, c1, seen1, outs1, ins1) ->
  nb s <= nb s1 /\ stubs s1 = stubs s /\ Inv18 s1.
Proof.
  induction ls as [|[a b] ls IH]; intros s n c seen outs ins Hinv s1 n1 c1 seen1 outs1 ins1 E.
  - cbn in E. injection E as <- _ _ _ _ _. split; [lia|]. split; [reflexivity|exact Hinv].
  - cbn [fold_left] in E. unfold FM at 2 in E.
    pose proof (seeM_model false a s n c seen Hinv) as M1. cbv zeta in M1.
    pose proof (seeM_Inv18 false a s n c seen Hinv) as Hinv2.
    destruct (seeM false a (s, n, c, seen)) as [[[s2 n2] c2] seen2]. cbn [fst snd] in M1, Hinv2.
    pose proof (seeM_model false b s2 n2 c2 seen2 Hinv2) as M2. cbv zeta in M2.
    pose proof (seeM_Inv18 false b s2 n2 c2 seen2 Hinv2) as Hinv3.
    destruct (seeM false b (s2, n2, c2, seen2)) as [[[s3 n3] c3] seen3]. cbn [fst snd] in M2, Hinv3.
    destruct (IH s3 n3 c3 seen3 (mm_add a b outs) (mm_add b a ins) Hinv3 _ _ _ _ _ _ E) as (H1 & H2 & H3).
    destruct M1 as (? & _ & _ & ? & _). destruct M2 as (? & _ & _ & ? & _).
    split; [lia|]. split; [congruence|exact H3].
Qed.

Lemma first_loop_spec : forall rm sgl links s n c seen outs ins hd sg pages,
  SInv rm s c seen hd sg pages -> mm_in pages outs -> mm_in pages ins ->
  Forall (fun l => wf_lru (fst l) /\ wf_lru (snd l)) links ->
  exists s1 n1 c1 seen1 outs1 ins1,
    fold_left FM links (s, n, c, seen, outs, ins) = (s1, n1, c1, seen1, outs1, ins1) /\
    nb s <= nb s1 /\ stubs s1 = stubs s /\
    (nb s1 * 128 < 2 ^ 64 -> lastwe s + N.of_nat (2 * length links) < 2 ^ 32 ->
     exists hd1 sg1 pages1,
       fold_left (k_step rm) links (Some (hd, sg, sgl, report_of n c, pages, outs, ins)) =
         Some (hd1, sg1, sgl, report_of n1 c1, pages1, outs1, ins1) /\
       SInv rm s1 c1 seen1 hd1 sg1 pages1 /\ mm_in pages1 outs1 /\ mm_in pages1 ins1).
Proof.
  intros rm sgl links. induction links as [|[a b] links IH]; intros s n c seen outs ins hd sg pages HI Ho Hi Hwf.
  - exists s, n, c, seen, outs, ins. split; [reflexivity|]. split; [lia|]. split; [reflexivity|].
    intros _ _. exists hd, sg, pages. split; [reflexivity|]. auto.
  - inversion Hwf as [|x xs [Ha Hb] Hwf']; subst. cbn [fst snd] in Ha, Hb.
    cbn [fold_left]. unfold FM at 2.
    pose proof (seeM_model false a s n c seen (proj1 HI)) as M1. cbv zeta in M1.
    pose proof (see_spec rm a s n c seen hd sg pages HI Ha) as S1. cbv zeta in S1.
    destruct (seeM false a (s, n, c, seen)) as [[[s2 n2] c2] seen2] eqn:E1. cbn [fst snd] in M1, S1.
    destruct M1 as (Mnb1 & Mlo1 & Mhi1 & Mst1 & _).
    (* the second `see` can only be stated once the first is known to succeed: its model facts need Inv18 s2 *)
    assert (Hinv2 : Inv18 s2).
    { pose proof (seeM_eq false a s n c seen) as Eq. rewrite E1 in Eq. destruct (mem_bytes a seen).
      - injection Eq as -> _ _ _. exact (proj1 HI).
      - injection Eq as -> _ _ _. exact (Tr_inv _ _ _ (add_page_int_Tr a false s (proj1 HI))). }
    pose proof (seeM_model false b s2 n2 c2 seen2 Hinv2) as M2. cbv zeta in M2.
    destruct (seeM false b (s2, n2, c2, seen2)) as [[[s3 n3] c3] seen3] eqn:E2. cbn [fst snd] in M2.
    destruct M2 as (Mnb2 & Mlo2 & Mhi2 & Mst2 & _).
    (* the rest of the loop, on the model side, is independent of the code: use the IH in two stages *)
    assert (HM : exists s1 n1 c1 seen1 outs1 ins1,
               fold_left FM links (s3, n3, c3, seen3, mm_add a b outs, mm_add b a ins) = (s1, n1, c1, seen1, outs1, ins1)).
    { destruct (fold_left FM links (s3, n3, c3, seen3, mm_add a b outs, mm_add b a ins)) as [[[[[s1 n1] c1] seen1] outs1] ins1].
      exists s1, n1, c1, seen1, outs1, ins1. reflexivity. }
    destruct HM as (s1 & n1 & c1 & seen1 & outs1 & ins1 & EM).
    exists s1, n1, c1, seen1, outs1, ins1. split; [exact EM|].
    assert (Hinv3 : Inv18 s3).
    { pose proof (seeM_eq false b s2 n2 c2 seen2) as Eq. rewrite E2 in Eq. destruct (mem_bytes b seen2).
      - injection Eq as -> _ _ _. exact Hinv2.
      - injection Eq as -> _ _ _. exact (Tr_inv _ _ _ (add_page_int_Tr b false s2 Hinv2)). }
    destruct (FM_model links s3 n3 c3 seen3 (mm_add a b outs) (mm_add b a ins) Hinv3 _ _ _ _ _ _ EM) as (Hnb3 & Hst3 & _).
    split; [lia|]. split; [congruence|].
    intros Hsize Hlt.
    assert (Hlen : N.of_nat (2 * length ((a, b) :: links)) = 2 + N.of_nat (2 * length links)) by (cbn [length]; lia).
    rewrite Hlen in Hlt. clear Hlen.
    destruct S1 as (hd2 & sg2 & pages2 & Es1 & HI2 & Hma & Hmono1); [rewrite pow64 in *; nia|lia|].
    pose proof (see_spec rm b s2 n2 c2 seen2 hd2 sg2 pages2 HI2 Hb) as S2. cbv zeta in S2. rewrite E2 in S2. cbn [fst snd] in S2.
    destruct S2 as (hd3 & sg3 & pages3 & Es2 & HI3 & Hmb & Hmono2); [rewrite pow64 in *; nia|lia|].
    rewrite k_step_eq, Es1, Es2.
    destruct (IH s3 n3 c3 seen3 (mm_add a b outs) (mm_add b a ins) hd3 sg3 pages3 HI3) as
      (s1' & n1' & c1' & seen1' & outs1' & ins1' & EM' & _ & _ & HC); [| |exact Hwf'|].
    + apply mm_in_add; [|apply Hmono2, Hma|exact Hmb]. apply (mm_in_mono pages); [|exact Ho]. auto.
    + apply mm_in_add; [|exact Hmb|apply Hmono2, Hma]. apply (mm_in_mono pages); [|exact Hi]. auto.
    + rewrite EM in EM'. injection EM' as <- <- <- <- <- <-.
      rewrite !py_mm_add_eq. apply HC; [exact Hsize|lia].
Qed.
