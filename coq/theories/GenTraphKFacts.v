(* GenTraphKFacts.v — the submission of links translated from the source (GenTraphK.v, generated on every run from
   /repo/traph/traph.py: Traph.add_links) does on the bytes of BOTH files, on the RAM header and in its report exactly what the
   model's Traph.add_links does, for every history.
   PLAN
     1. __add_page returns the node object of the page (its block = the page's address): py_traph_add_page_int_node
     2. the generated add_links re-stated in named pieces (see_py, k_step, flush_step; equality by reflexivity)
     3. dictionaries: py_dict_get / py_dict_mem / py_dict_update, py_mm_add = mm_add, py_blocks_of = map addr_of
     4. the first loop = the model's fold with `see` (first_loop_spec)
     5. one flush = store_links (flush_step_spec), a flush loop = flush_links (flush_loop_spec)
     6. py_traph_add_links_state_spec / py_traph_add_links_spec; example *)
From Coq Require Import List NArith Bool Lia Arith.
Import ListNotations.
From Traph Require Import Bytes Consts Layout Helpers Rules Tst TstDefs Traph Spec Ops RefDefs Traphw TraceDefs Codec CodecFacts
  TstFacts Store StoreFacts StoreFacts2 RefFull LinkFacts GenStorage GenNode GenNodeFacts GenLinks GenLinksFacts GenTrie
  GenTrieFacts GenTrieW GenTrieWDefs GenTraphW GenTraphWDefs GenTraphP GenTraphPDefs GenTraphPFacts GenTraphK.
From Traph Require Import TraceFacts TraceFacts2 TraceFacts3 TraceFacts4 TraceFacts5 LinkFacts2 LinkFacts3 GenTrieWAdd1 GenTrieWAdd2
  GenTrieWAdd GenTrieWPage GenTrieWAll ReopenFacts GenTrieWFrame GenTraphWFacts1 GenTraphWFacts ViewFacts ViewFacts2 RefCore
  IdFacts GenHelpersFacts GenTraphPFacts1.
Open Scope N_scope.

Arguments N.shiftr : simpl never.
Arguments N.shiftl : simpl never.
Arguments N.modulo : simpl never.
Arguments N.div : simpl never.
Arguments N.land : simpl never.
Arguments N.lor : simpl never.
Arguments N.ldiff : simpl never.
Arguments N.mul : simpl never.
Arguments N.add : simpl never.
Arguments N.sub : simpl never.
Arguments N.ltb : simpl never.
Arguments N.eqb : simpl never.
Arguments N.leb : simpl never.
Arguments N.pow : simpl never.

(* ====================================================================================== *)
(* 1. the node object returned by __add_page                                              *)
(* ====================================================================================== *)
Lemma finish_inv : forall hd sg n rp hd' sg' n' rp',
  finish hd sg n rp = Some (hd', sg', (n', rp')) -> py_node_refresh n sg = (n', sg').
Proof.
  intros hd sg n rp hd' sg' n' rp'. unfold finish. destruct (py_node_refresh n sg) as [n1 sg1].
  intro E. injection E as _ <- <- _. reflexivity.
Qed.

Lemma create_then_finish_inv : forall hd sg n rp p hd' sg' n' rp',
  create_then_finish hd sg n rp p = Some (hd', sg', (n', rp')) -> exists sg2, py_node_refresh n sg2 = (n', sg').
Proof.
  intros hd sg n rp p hd' sg' n' rp'. unfold create_then_finish.
  destruct (py_traph_create_webentity_from hd sg p true true) as [[[hd1 sg1] r1]|]; [|discriminate].
  intro E. exists sg1. exact (finish_inv _ _ _ _ _ _ _ _ E).
Qed.

(* whatever the branch taken, the node returned is the node object of LRUTrie.add_page, refreshed *)
Lemma add_page_int_shape : forall rm hd sg lru cr hd' sg' n' rp,
  py_traph_add_page_int rm hd sg lru cr = Some (hd', sg', (n', rp)) ->
  exists sg1 n ph sg2, py_trie_add_page sg lru cr = Some (sg1, (n, ph)) /\ py_node_refresh n sg2 = (n', sg').
Proof.
  intros rm hd sg lru cr hd' sg' n' rp. rewrite add_page_int_eq.
  destruct (py_trie_add_page sg lru cr) as [[sg1 [n ph]]|]; [|discriminate]. cbv zeta.
  destruct (fold_left (rule_step rm lru) (py_hist_rules_to_apply ph) (Some [])) as [longest|]; [|discriminate].
  unfold after_rules. intro E. exists sg1, n, ph.
  destruct (match hs_webentity_position ph with Some p => N.of_nat (length longest) <=? p | None => false end).
  - exists sg1. split; [reflexivity|]. exact (finish_inv _ _ _ _ _ _ _ _ E).
  - destruct (py_nonempty longest).
    + destruct (create_then_finish_inv _ _ _ _ _ _ _ _ _ E) as [sg2 E2]. exists sg2. auto.
    + destruct (py_traph_apply_webentity_default_creation_rule rm lru) as [[p|]|]; [| |discriminate].
      * destruct (py_nonempty p).
        -- destruct (create_then_finish_inv _ _ _ _ _ _ _ _ _ E) as [sg2 E2]. exists sg2. auto.
        -- exists sg1. split; [reflexivity|]. exact (finish_inv _ _ _ _ _ _ _ _ E).
      * exists sg1. split; [reflexivity|]. exact (finish_inv _ _ _ _ _ _ _ _ E).
Qed.

Lemma same_sym_trep : forall f sg sg', trep f sg' -> same sg sg' -> trep f sg.
Proof. intros f sg sg' (H1 & H2 & H3) [Ha Hb]. unfold trep. rewrite <- Ha, <- Hb. repeat split; assumption. Qed.

(* Traph.__add_page as in GenTraphPFacts, and the node object returned is the one of the page: its block is the page's address *)
Theorem py_traph_add_page_int_node : forall s, Inv18 s -> root_first s -> forall rm hd sg lru cr,
  ramrep s rm -> hrep s hd sg -> wf_lru lru ->
  walk_known (rules s) lru (snd (fst (trie_add_page lru cr s))) ->
  let r := add_page_int lru cr s in
  let s' := fst (fst r) in
  nb s' * 128 < 2 ^ 64 -> lastwe s + 1 < 2 ^ 32 ->
  Inv18 s' /\ root_first s' /\
  exists hd' sg' n', py_traph_add_page_int rm hd sg lru cr = Some (hd', sg', (n', report_of (snd (fst r)) (snd r))) /\
    hrep s' hd' sg' /\ ramrep s' rm /\
    exists d, find (lru_iter lru) (tr s') = Some d /\ nd_block n' = Some (addr d).
Proof.
  intros s Hinv Hroot rm hd sg lru cr Hram Hh Hl Hwk r s' Hsize Hlt.
  destruct (py_traph_add_page_int_spec s Hinv Hroot rm hd sg lru cr Hram Hh Hl Hwk Hsize Hlt)
    as (Hinv' & Hroot' & hd' & sg' & n' & E & Hh' & Hram').
  fold r s' in Hinv', Hroot', E, Hh', Hram'.
  split; [exact Hinv'|]. split; [exact Hroot'|]. exists hd', sg', n'. split; [exact E|]. split; [exact Hh'|].
  split; [exact Hram'|].
  destruct (add_page_int_shape _ _ _ _ _ _ _ _ _ E) as (sg1 & n & ph & sg2 & Ep & Er).
  set (r1 := trie_add_page lru cr s) in *. set (s1 := fst (fst r1)).
  assert (Hsize1 : nb s1 * 128 < 2 ^ 64).
  { pose proof (add_page_int_nb_trie lru cr s) as Hm. fold r1 s1 r s' in Hm. rewrite pow64 in *. nia. }
  destruct (py_trie_add_page_full s Hinv sg lru cr Hroot (proj1 Hh) Hl Hsize1) as (sg1' & n0 & ph0 & Ep' & _ & _ & t' & Ht' & Hn).
  fold r1 s1 in Ht'. rewrite Ep in Ep'. injection Ep' as _ <- _.
  destruct t' as [|d1 l1 c1 r1']; [destruct Hn|]. destruct Hn as (_ & Hblk & _).
  assert (Hf1 : find (lru_iter lru) (tr s1) = Some d1) by (rewrite find_of_sub, Ht'; reflexivity).
  (* from the state after LRUTrie.add_page to the final state: addresses are kept *)
  assert (Hg1 : good s1) by (apply (step_good s), trie_add_page_step, Inv18_good, Hinv).
  assert (Hstep : step_ok s1 s').
  { unfold s', r. rewrite add_page_int_parts. cbv zeta. fold r1 s1.
    destruct (decide s1 lru (snd (fst r1))) as [|p|]; cbn [fst]; try (apply step_refl; exact Hg1).
    apply create_from_step. exact Hg1. }
  destruct Hstep as (_ & _ & Hold & _). destruct (Hold _ _ Hf1) as (d' & Hf' & Ha' & _).
  exists d'. split; [exact Hf'|].
  (* the refresh reads the block of the node *)
  destruct (find_sub (lru_iter lru) (tr s')) as [[|d2 l2 c2 r2]|] eqn:Efs; rewrite find_of_sub, Efs in Hf'; try discriminate Hf'.
  injection Hf' as ->.
  pose proof (refresh_same n sg2) as HS. rewrite Er in HS. cbn [snd] in HS.
  assert (Hrep2 : trep (files_of s') sg2) by exact (same_sym_trep _ _ _ (proj1 Hh') HS).
  pose proof (read_subt s' Hinv' d' l2 c2 r2 n sg2 (find_sub_subt _ _ _ Efs) Hrep2) as [Hna _]. cbv zeta in Hna.
  unfold py_node_refresh in Er. rewrite Hblk, <- Ha' in Er.
  destruct (py_node_read_o n sg2 (Some (addr d'))) as [n3 sg3]. injection Er as <- <-. cbn [fst] in Hna.
  destruct Hna as (_ & Hb & _). exact Hb.
Qed.

(* ====================================================================================== *)
(* 2. the generated definition in named pieces                                            *)
(* ====================================================================================== *)
(* `if page not in pages: node, page_report = self.__add_page(page); report += page_report; pages[page] = node` *)
Definition see_py (rm : py_ram) (l : bytes) (x : py_thdr * py_pm * py_report * list (bytes * py_node))
  : option (py_thdr * py_pm * py_report * list (bytes * py_node)) :=
  let '(hd, sg, rp, pages) := x in
  if negb (py_dict_mem l pages)
  then match py_traph_add_page_int rm hd sg l false with
       | None => None
       | Some (hd, sg, (nd, prp)) => Some (hd, sg, py_report_iadd rp prp, py_dict_update l nd pages)
       end
  else Some x.

Definition kst : Type :=
  (py_thdr * py_pm * py_pm * py_report * list (bytes * py_node) * list (bytes * list bytes) * list (bytes * list bytes))%type.

(* one turn of `for source_page, target_page in links` (the generated text) *)
Definition k_step (rm : py_ram) (st : option kst) (v__it : (bytes * bytes)) : option kst :=
 match st with
 | None => None
 | Some (hd, sg, sgl, v_report, v_pages, v_outlinks, v_inlinks) => (let '(v_source_page, v_target_page) := v__it in
 (if (negb (py_dict_mem v_source_page v_pages))
 then (match py_traph_add_page_int rm hd sg v_source_page false with
 | None => None
 | Some (hd, sg, (v_node, v_page_report)) => (let v_report := py_report_iadd v_report v_page_report in
 (let v_pages := py_dict_update v_source_page v_node v_pages in
 (if (negb (py_dict_mem v_target_page v_pages))
 then (match py_traph_add_page_int rm hd sg v_target_page false with
 | None => None
 | Some (hd, sg, (v_node, v_page_report)) => (let v_report := py_report_iadd v_report v_page_report in
 (let v_pages := py_dict_update v_target_page v_node v_pages in
 (let v_outlinks := py_mm_add v_source_page v_target_page v_outlinks in
 (let v_inlinks := py_mm_add v_target_page v_source_page v_inlinks in
 (Some (hd, sg, sgl, v_report, v_pages, v_outlinks, v_inlinks)))))) end)
 else (let v_outlinks := py_mm_add v_source_page v_target_page v_outlinks in
 (let v_inlinks := py_mm_add v_target_page v_source_page v_inlinks in
 (Some (hd, sg, sgl, v_report, v_pages, v_outlinks, v_inlinks))))))) end)
 else (if (negb (py_dict_mem v_target_page v_pages))
 then (match py_traph_add_page_int rm hd sg v_target_page false with
 | None => None
 | Some (hd, sg, (v_node, v_page_report)) => (let v_report := py_report_iadd v_report v_page_report in
 (let v_pages := py_dict_update v_target_page v_node v_pages in
 (let v_outlinks := py_mm_add v_source_page v_target_page v_outlinks in
 (let v_inlinks := py_mm_add v_target_page v_source_page v_inlinks in
 (Some (hd, sg, sgl, v_report, v_pages, v_outlinks, v_inlinks)))))) end)
 else (let v_outlinks := py_mm_add v_source_page v_target_page v_outlinks in
 (let v_inlinks := py_mm_add v_target_page v_source_page v_inlinks in
 (Some (hd, sg, sgl, v_report, v_pages, v_outlinks, v_inlinks))))))) end.

(* one turn of `for source_page, target_pages in outlinks.items()` / `for target_page, source_pages in inlinks.items()` *)
Definition flush_step (out : bool) (v_pages : list (bytes * py_node)) (st : option (py_pm * py_pm)) (v__it : (bytes * list bytes))
  : option (py_pm * py_pm) :=
 match st with
 | None => None
 | Some (sg, sgl) => (let '(v_source_page, v_target_pages) := v__it in
 (match py_dict_get v_source_page v_pages with
 | None => None
 | Some v_source_node => (let '(v_source_node, sg) := py_node_refresh v_source_node sg in
 (match py_blocks_of v_pages v_target_pages with
 | None => None
 | Some v_target_blocks => (match py_ls_add_links v_source_node sg sgl v_target_blocks out with
 | None => None
 | Some (v_source_node, sg, sgl) => (Some (sg, sgl)) end) end)) end)) end.

Lemma add_links_code_eq : forall rm hd sg sgl links,
  py_traph_add_links rm hd sg sgl links =
  match fold_left (k_step rm) links (Some (hd, sg, sgl, py_report_new, [], [], [])) with
  | None => None
  | Some (hd, sg, sgl, rp, pages, outs, ins) =>
      match fold_left (flush_step true pages) outs (Some (sg, sgl)) with
      | None => None
      | Some (sg, sgl) =>
          match fold_left (flush_step false pages) ins (Some (sg, sgl)) with
          | None => None
          | Some (sg, sgl) => Some (hd, sg, sgl, rp)
          end
      end
  end.
Proof. reflexivity. Qed.

(* the turn of the first loop is `see` on the source, `see` on the target, then the two multimaps *)
Lemma k_step_eq : forall rm hd sg sgl rp pages outs ins a b,
  k_step rm (Some (hd, sg, sgl, rp, pages, outs, ins)) (a, b) =
  match see_py rm a (hd, sg, rp, pages) with
  | None => None
  | Some (hd1, sg1, rp1, pages1) =>
      match see_py rm b (hd1, sg1, rp1, pages1) with
      | None => None
      | Some (hd2, sg2, rp2, pages2) => Some (hd2, sg2, sgl, rp2, pages2, py_mm_add a b outs, py_mm_add b a ins)
      end
  end.
Proof.
  intros. unfold k_step, see_py.
  destruct (negb (py_dict_mem a pages)).
  - destruct (py_traph_add_page_int rm hd sg a false) as [[[hd1 sg1] [n1 r1]]|]; [|reflexivity]. cbv zeta.
    destruct (negb (py_dict_mem b (py_dict_update a n1 pages))); [|reflexivity].
    destruct (py_traph_add_page_int rm hd1 sg1 b false) as [[[hd2 sg2] [n2 r2]]|]; reflexivity.
  - destruct (negb (py_dict_mem b pages)); [|reflexivity].
    destruct (py_traph_add_page_int rm hd sg b false) as [[[hd2 sg2] [n2 r2]]|]; reflexivity.
Qed.

Lemma k_fold_none : forall rm links, fold_left (k_step rm) links None = None.
Proof. intros rm links. induction links as [|x links IH]; [reflexivity|exact IH]. Qed.
Lemma flush_fold_none : forall out pages mm, fold_left (flush_step out pages) mm None = None.
Proof. intros out pages mm. induction mm as [|x mm IH]; [reflexivity|exact IH]. Qed.

(* ====================================================================================== *)
(* 3. dictionaries                                                                        *)
(* ====================================================================================== *)
Lemma beq_true : forall a b : bytes, beq a b = true <-> a = b.
Proof. exact beq_eq. Qed.

Lemma beq_refl' : forall a : bytes, beq a a = true.
Proof. intro a. apply beq_true. reflexivity. Qed.

Lemma dict_get_update : forall (V : Type) x k (v : V) d,
  py_dict_get x (py_dict_update k v d) = if beq x k then Some v else py_dict_get x d.
Proof.
  intros V x k v d. induction d as [|[k' v'] d IH]; cbn [py_dict_update py_dict_get]; [reflexivity|].
  destruct (beq k k') eqn:Ek.
  - apply beq_true in Ek. subst k'. cbn [py_dict_get]. destruct (beq x k); reflexivity.
  - cbn [py_dict_get]. rewrite IH. destruct (beq x k') eqn:Ex; [|reflexivity].
    destruct (beq x k) eqn:Ex2; [|reflexivity].
    apply beq_true in Ex, Ex2. subst. rewrite beq_refl' in Ek. discriminate Ek.
Qed.

Lemma dict_mem_update : forall (V : Type) x k (v : V) d,
  py_dict_mem x (py_dict_update k v d) = beq x k || py_dict_mem x d.
Proof. intros. unfold py_dict_mem. rewrite dict_get_update. destruct (beq x k); reflexivity. Qed.

Lemma dict_mem_get : forall (V : Type) x (d : list (bytes * V)), py_dict_mem x d = true -> exists v, py_dict_get x d = Some v.
Proof. intros V x d. unfold py_dict_mem. destruct (py_dict_get x d) as [v|]; [eauto|discriminate]. Qed.

Lemma py_mm_add_eq : forall k v d, py_mm_add k v d = mm_add k v d.
Proof. intros k v d. induction d as [|[k' vs] d IH]; cbn [py_mm_add mm_add]; [reflexivity|]. rewrite IH. reflexivity. Qed.

(* a recorded node object has the block of its page *)
Definition pages_ok (s : traph) (pages : list (bytes * py_node)) : Prop :=
  forall l nd, py_dict_get l pages = Some nd ->
    exists d, find (lru_iter l) (tr s) = Some d /\ nd_block nd = Some (addr d).

(* the nodes of s are nodes of s', at the same addresses *)
Definition keeps (s s' : traph) : Prop :=
  forall p d, find p (tr s) = Some d -> exists d', find p (tr s') = Some d' /\ addr d' = addr d.

Lemma keeps_refl : forall s, keeps s s.
Proof. intros s p d H. eauto. Qed.

Lemma step_keeps : forall s s', step_ok s s' -> keeps s s'.
Proof.
  intros s s' (_ & _ & Hold & _) p d H. destruct (Hold p d H) as (d' & H1 & H2 & _). eauto.
Qed.

Lemma pages_ok_keeps : forall s s' pages, keeps s s' -> pages_ok s pages -> pages_ok s' pages.
Proof.
  intros s s' pages Hk Hp l nd Hg. destruct (Hp l nd Hg) as (d & Hf & Hb).
  destruct (Hk _ _ Hf) as (d' & Hf' & Ha). exists d'. split; [exact Hf'|congruence].
Qed.

Lemma blocks_of_spec : forall s pages ts, pages_ok s pages ->
  (forall t, In t ts -> py_dict_mem t pages = true) ->
  py_blocks_of pages ts = Some (map (fun o => addr_of o s) ts).
Proof.
  intros s pages ts Hp. induction ts as [|t ts IH]; intro Hin; [reflexivity|].
  cbn [py_blocks_of map].
  destruct (dict_mem_get _ t pages (Hin t (or_introl eq_refl))) as [nd Hg]. rewrite Hg.
  destruct (Hp t nd Hg) as (d & Hf & Hb). rewrite Hb, IH by (intros t' Ht'; apply Hin; right; exact Ht').
  unfold addr_of. rewrite Hf. reflexivity.
Qed.

(* ====================================================================================== *)
(* 4. the first loop                                                                      *)
(* ====================================================================================== *)
Lemma seeM_eq : forall cr l s n c seen,
  seeM cr l (s, n, c, seen) =
  if mem_bytes l seen then (s, n, c, seen)
  else (fst (fst (add_page_int l cr s)), n + snd (fst (add_page_int l cr s)), c ++ snd (add_page_int l cr s), l :: seen).
Proof.
  intros. unfold seeM. destruct (mem_bytes l seen); [reflexivity|].
  destruct (add_page_int l cr s) as [[s1 n1] c1]. reflexivity.
Qed.

(* what `see` keeps, whatever the sizes *)
Lemma seeM_model : forall cr l s n c seen, Inv18 s ->
  let x := seeM cr l (s, n, c, seen) in
  let s' := fst (fst (fst x)) in
  nb s <= nb s' /\ lastwe s <= lastwe s' /\ lastwe s' <= lastwe s + 1 /\ stubs s' = stubs s /\ keeps s s'.
Proof.
  intros cr l s n c seen Hinv. cbv zeta. rewrite seeM_eq. destruct (mem_bytes l seen); cbn [fst snd].
  - split; [lia|]. split; [lia|]. split; [lia|]. split; [reflexivity|apply keeps_refl].
  - pose proof (add_page_int_nb_mono l cr s) as H1.
    pose proof (add_page_int_counter l cr s) as H2. cbv zeta in H2.
    pose proof (add_page_int_step l cr s (Inv18_good s Hinv)) as H3.
    split; [exact H1|]. split; [destruct H2 as [[_ H2]|(v & _ & H2)]; lia|].
    split; [destruct H2 as [[_ H2]|(v & _ & H2)]; lia|].
    split; [exact (step_stubs _ _ H3)|exact (step_keeps _ _ H3)].
Qed.

(* the invariant of `see`: the model's (state, created ids, seen list) against the code's (header, storage, dict) *)
Definition SInv (rm : py_ram) (s : traph) (c : list (N * list bytes)) (seen : list bytes)
  (hd : py_thdr) (sg : py_pm) (pages : list (bytes * py_node)) : Prop :=
  Inv18 s /\ root_first s /\ anchors_known s /\ ramrep s rm /\ hrep s hd sg /\
  (forall w, In w (map fst c) -> w <= lastwe s) /\
  pages_ok s pages /\ (forall y, py_dict_mem y pages = mem_bytes y seen).

Lemma see_spec : forall rm l s n c seen hd sg pages,
  SInv rm s c seen hd sg pages -> wf_lru l ->
  let x := seeM false l (s, n, c, seen) in
  let s' := fst (fst (fst x)) in
  nb s' * 128 < 2 ^ 64 -> lastwe s + 1 < 2 ^ 32 ->
  exists hd' sg' pages',
    see_py rm l (hd, sg, report_of n c, pages) = Some (hd', sg', report_of (snd (fst (fst x))) (snd (fst x)), pages') /\
    SInv rm s' (snd (fst x)) (snd x) hd' sg' pages' /\
    py_dict_mem l pages' = true /\ (forall y, py_dict_mem y pages = true -> py_dict_mem y pages' = true).
Proof.
  intros rm l s n c seen hd sg pages (Hinv & Hroot & Hk & Hram & Hh & Hb & Hp & Hm) Hl. cbv zeta.
  rewrite seeM_eq. unfold see_py. rewrite (Hm l).
  destruct (mem_bytes l seen) eqn:Em; cbn [fst snd negb]; intros Hsize Hlt.
  - exists hd, sg, pages. split; [reflexivity|]. split; [exact (conj Hinv (conj Hroot (conj Hk (conj Hram (conj Hh (conj Hb (conj Hp Hm)))))))|].
    split; [rewrite Hm; exact Em|auto].
  - set (r := add_page_int l false s) in *. set (s1 := fst (fst r)) in *.
    destruct (py_traph_add_page_int_node s Hinv Hroot rm hd sg l false Hram Hh Hl
                (trie_add_page_walk_known l false s Hl Hk) Hsize Hlt)
      as (Hinv1 & Hroot1 & hd1 & sg1 & n1 & E & Hh1 & Hram1 & d1 & Hf1 & Hb1).
    fold r s1 in Hinv1, Hroot1, E, Hh1, Hram1, Hf1.
    pose proof (anchors_known_add_page_int l false s Hk) as Hk1. fold r s1 in Hk1.
    pose proof (add_page_int_counter l false s) as Hc. cbv zeta in Hc. fold r s1 in Hc.
    pose proof (add_page_int_step l false s (Inv18_good s Hinv)) as Hstep. fold r s1 in Hstep.
    rewrite E.
    rewrite (iadd_fresh n c (snd (fst r)) (snd r) (lastwe s) Hb)
      by (destruct Hc as [[Hc _]|(valid & Hc & _)]; [left; exact Hc|right; exists valid; exact Hc]).
    exists hd1, sg1, (py_dict_update l n1 pages). split; [reflexivity|]. split.
    + split; [exact Hinv1|]. split; [exact Hroot1|]. split; [exact Hk1|]. split; [exact Hram1|]. split; [exact Hh1|].
      split; [|split].
      * intros w Hin. rewrite map_app in Hin. apply in_app_or in Hin.
        destruct Hc as [[Hc El]|(valid & Hc & El)]; rewrite Hc in Hin; cbn [map fst In] in Hin; rewrite El.
        -- destruct Hin as [Hin|[]]. exact (Hb w Hin).
        -- destruct Hin as [Hin|[<-|[]]]; [specialize (Hb w Hin)|]; lia.
      * intros y nd Hg. rewrite dict_get_update in Hg. destruct (beq y l) eqn:Ey.
        -- apply beq_true in Ey. subst y. injection Hg as <-. exists d1. split; assumption.
        -- exact (pages_ok_keeps s s1 pages (step_keeps _ _ Hstep) Hp y nd Hg).
      * intro y. rewrite dict_mem_update, Hm. reflexivity.
    + split; [rewrite dict_mem_update, beq_refl'; reflexivity|].
      intros y Hy. rewrite dict_mem_update, Hy. apply orb_true_r.
Qed.

(* every key and every value of a multimap is a key of the dict *)
Definition mm_in (pages : list (bytes * py_node)) (mm : list (bytes * list bytes)) : Prop :=
  forall k vs, In (k, vs) mm -> py_dict_mem k pages = true /\ forall v, In v vs -> py_dict_mem v pages = true.

Lemma mm_in_add : forall pages k v mm, mm_in pages mm -> py_dict_mem k pages = true -> py_dict_mem v pages = true ->
  mm_in pages (mm_add k v mm).
Proof.
  intros pages k v mm. induction mm as [|[k0 vs0] mm IH]; intros Hm Hk Hv k' vs' Hin; cbn [mm_add] in Hin.
  - destruct Hin as [E|[]]. injection E as <- <-. split; [exact Hk|]. intros v' [<-|[]]. exact Hv.
  - destruct (beq k k0).
    + destruct Hin as [E|Hin].
      * injection E as <- <-. destruct (Hm k0 vs0 (or_introl eq_refl)) as [H1 H2]. split; [exact H1|].
        intros v' Hv'. apply in_app_or in Hv'. destruct Hv' as [Hv'|[<-|[]]]; auto.
      * apply Hm. right. exact Hin.
    + destruct Hin as [E|Hin].
      * injection E as <- <-. apply Hm. left. reflexivity.
      * apply IH; auto. intros k1 vs1 H1. apply Hm. right. exact H1.
Qed.

Lemma mm_in_mono : forall pages pages' mm, (forall y, py_dict_mem y pages = true -> py_dict_mem y pages' = true) ->
  mm_in pages mm -> mm_in pages' mm.
Proof. intros pages pages' mm Hmono Hm k vs Hin. destruct (Hm k vs Hin) as [H1 H2]. split; auto. Qed.

(* the model's turn *)
Definition FM : traph * N * list (N * list bytes) * list bytes * list (bytes * list bytes) * list (bytes * list bytes) ->
  bytes * bytes -> traph * N * list (N * list bytes) * list bytes * list (bytes * list bytes) * list (bytes * list bytes) :=
  fun '(s, n, c, seen, outs, ins) '(a, b) =>
    let '(s, n, c, seen) := seeM false a (s, n, c, seen) in
    let '(s, n, c, seen) := seeM false b (s, n, c, seen) in
    (s, n, c, seen, mm_add a b outs, mm_add b a ins).

Lemma add_links_FM : forall links s,
  add_links links s =
  let '(s1, n, c, _, outs, ins) := fold_left FM links (s, 0, [], [], [], []) in
  (flush_links false ins (flush_links true outs s1), Report n c).
Proof. reflexivity. Qed.

Lemma seeM_Inv18 : forall cr l s n c seen, Inv18 s -> Inv18 (fst (fst (fst (seeM cr l (s, n, c, seen))))).
Proof.
  intros cr l s n c seen Hinv. rewrite seeM_eq. destruct (mem_bytes l seen); cbn [fst]; [exact Hinv|].
  exact (Tr_inv _ _ _ (add_page_int_Tr l cr s Hinv)).
Qed.

Lemma FM_model : forall ls s n c seen outs ins, Inv18 s ->
  forall s1 n1 c1 seen1 outs1 ins1, fold_left FM ls (s, n, c, seen, outs, ins) = (s1, n1, c1, seen1, outs1, ins1) ->
  nb s <= nb s1 /\ stubs s1 = stubs s /\ Inv18 s1.
Proof.
  induction ls as [|[a b] ls IH]; intros s n c seen outs ins Hinv s1 n1 c1 seen1 outs1 ins1 E.
  - cbn in E. injection E as <- _ _ _ _ _. split; [lia|]. split; [reflexivity|exact Hinv].
  - cbn [fold_left] in E. unfold FM at 2 in E.
    pose proof (seeM_model false a s n c seen Hinv) as M1. cbv zeta in M1.
    pose proof (seeM_Inv18 false a s n c seen Hinv) as Hinv2.
    destruct (seeM false a (s, n, c, seen)) as [[[s2 n2] c2] seen2]. cbn [fst snd] in M1, Hinv2.
    pose proof (seeM_model false b s2 n2 c2 seen2 Hinv2) as M2. cbv zeta in M2.
    pose proof (seeM_Inv18 false b s2 n2 c2 seen2 Hinv2) as Hinv3.
    destruct (seeM false b (s2, n2, c2, seen2)) as [[[s3 n3] c3] seen3]. cbn [fst snd] in M2, Hinv3.
    destruct (IH s3 n3 c3 seen3 (mm_add a b outs) (mm_add b a ins) Hinv3 _ _ _ _ _ _ E) as (H1 & H2 & H3).
    destruct M1 as (? & _ & _ & ? & _). destruct M2 as (? & _ & _ & ? & _).
    split; [lia|]. split; [congruence|exact H3].
Qed.

Lemma first_loop_spec : forall rm sgl links s n c seen outs ins hd sg pages,
  SInv rm s c seen hd sg pages -> mm_in pages outs -> mm_in pages ins ->
  Forall (fun l => wf_lru (fst l) /\ wf_lru (snd l)) links ->
  exists s1 n1 c1 seen1 outs1 ins1,
    fold_left FM links (s, n, c, seen, outs, ins) = (s1, n1, c1, seen1, outs1, ins1) /\
    nb s <= nb s1 /\ stubs s1 = stubs s /\
    (nb s1 * 128 < 2 ^ 64 -> lastwe s + N.of_nat (2 * length links) < 2 ^ 32 ->
     exists hd1 sg1 pages1,
       fold_left (k_step rm) links (Some (hd, sg, sgl, report_of n c, pages, outs, ins)) =
         Some (hd1, sg1, sgl, report_of n1 c1, pages1, outs1, ins1) /\
       SInv rm s1 c1 seen1 hd1 sg1 pages1 /\ mm_in pages1 outs1 /\ mm_in pages1 ins1).
Proof.
  intros rm sgl links. induction links as [|[a b] links IH]; intros s n c seen outs ins hd sg pages HI Ho Hi Hwf.
  - exists s, n, c, seen, outs, ins. split; [reflexivity|]. split; [lia|]. split; [reflexivity|].
    intros _ _. exists hd, sg, pages. split; [reflexivity|]. auto.
  - inversion Hwf as [|x xs [Ha Hb] Hwf']; subst. cbn [fst snd] in Ha, Hb.
    cbn [fold_left]. unfold FM at 2.
    pose proof (seeM_model false a s n c seen (proj1 HI)) as M1. cbv zeta in M1.
    pose proof (see_spec rm a s n c seen hd sg pages HI Ha) as S1. cbv zeta in S1.
    destruct (seeM false a (s, n, c, seen)) as [[[s2 n2] c2] seen2] eqn:E1. cbn [fst snd] in M1, S1.
    destruct M1 as (Mnb1 & Mlo1 & Mhi1 & Mst1 & _).
    (* the second `see` can only be stated once the first is known to succeed: its model facts need Inv18 s2 *)
    assert (Hinv2 : Inv18 s2).
    { pose proof (seeM_eq false a s n c seen) as Eq. rewrite E1 in Eq. destruct (mem_bytes a seen).
      - injection Eq as -> _ _ _. exact (proj1 HI).
      - injection Eq as -> _ _ _. exact (Tr_inv _ _ _ (add_page_int_Tr a false s (proj1 HI))). }
    pose proof (seeM_model false b s2 n2 c2 seen2 Hinv2) as M2. cbv zeta in M2.
    destruct (seeM false b (s2, n2, c2, seen2)) as [[[s3 n3] c3] seen3] eqn:E2. cbn [fst snd] in M2.
    destruct M2 as (Mnb2 & Mlo2 & Mhi2 & Mst2 & _).
    (* the rest of the loop, on the model side, is independent of the code: use the IH in two stages *)
    assert (HM : exists s1 n1 c1 seen1 outs1 ins1,
               fold_left FM links (s3, n3, c3, seen3, mm_add a b outs, mm_add b a ins) = (s1, n1, c1, seen1, outs1, ins1)).
    { destruct (fold_left FM links (s3, n3, c3, seen3, mm_add a b outs, mm_add b a ins)) as [[[[[s1 n1] c1] seen1] outs1] ins1].
      exists s1, n1, c1, seen1, outs1, ins1. reflexivity. }
    destruct HM as (s1 & n1 & c1 & seen1 & outs1 & ins1 & EM).
    exists s1, n1, c1, seen1, outs1, ins1. split; [exact EM|].
    assert (Hinv3 : Inv18 s3).
    { pose proof (seeM_eq false b s2 n2 c2 seen2) as Eq. rewrite E2 in Eq. destruct (mem_bytes b seen2).
      - injection Eq as -> _ _ _. exact Hinv2.
      - injection Eq as -> _ _ _. exact (Tr_inv _ _ _ (add_page_int_Tr b false s2 Hinv2)). }
    destruct (FM_model links s3 n3 c3 seen3 (mm_add a b outs) (mm_add b a ins) Hinv3 _ _ _ _ _ _ EM) as (Hnb3 & Hst3 & _).
    split; [lia|]. split; [congruence|].
    intros Hsize Hlt.
    assert (Hlen : N.of_nat (2 * length ((a, b) :: links)) = 2 + N.of_nat (2 * length links)) by (cbn [length]; lia).
    rewrite Hlen in Hlt. clear Hlen.
    destruct S1 as (hd2 & sg2 & pages2 & Es1 & HI2 & Hma & Hmono1); [rewrite pow64 in *; nia|lia|].
    pose proof (see_spec rm b s2 n2 c2 seen2 hd2 sg2 pages2 HI2 Hb) as S2. cbv zeta in S2. rewrite E2 in S2. cbn [fst snd] in S2.
    destruct S2 as (hd3 & sg3 & pages3 & Es2 & HI3 & Hmb & Hmono2); [rewrite pow64 in *; nia|lia|].
    rewrite k_step_eq, Es1, Es2.
    destruct (IH s3 n3 c3 seen3 (mm_add a b outs) (mm_add b a ins) hd3 sg3 pages3 HI3) as
      (s1' & n1' & c1' & seen1' & outs1' & ins1' & EM' & _ & _ & HC); [| |exact Hwf'|].
    + apply mm_in_add; [|apply Hmono2, Hma|exact Hmb]. apply (mm_in_mono pages); [|exact Ho]. auto.
    + apply mm_in_add; [|exact Hmb|apply Hmono2, Hma]. apply (mm_in_mono pages); [|exact Hi]. auto.
    + rewrite EM in EM'. injection EM' as <- <- <- <- <- <-.
      rewrite !py_mm_add_eq. apply HC; [exact Hsize|lia].
Qed.

(* ====================================================================================== *)
(* 5. the two flush loops                                                                 *)
(* ====================================================================================== *)
Definition dir_set (out : bool) (h : N) : nd -> nd := if out then set_outh h else set_inh h.
Definition dir_head (out : bool) (d : nd) : N := if out then outh d else inh d.

Lemma store_links_some : forall out p tgs s d, tgs <> [] -> find p (tr s) = Some d ->
  store_links out p tgs s =
  mkT (upd (dir_set out (snd (push_stubs tgs (dir_head out d) (stubs s)))) p (tr s)) (nb s) (lastwe s)
      (fst (push_stubs tgs (dir_head out d) (stubs s))) (rules s) (dflt s).
Proof.
  intros out p tgs s d Hne Hf. unfold store_links, dir_set, dir_head. destruct tgs as [|t ts]; [congruence|].
  rewrite Hf. destruct (push_stubs (t :: ts) (if out then outh d else inh d) (stubs s)) as [st' h']. reflexivity.
Qed.

(* the trie file after store_links: the block of the page rewritten with the new head *)
Lemma store_links_ft : forall out l tgs s d lt ct rt, Inv18 s -> tgs <> [] ->
  (forall tg, In tg tgs -> exists p d, find p (tr s) = Some d /\ addr d = tg) ->
  find_sub (lru_iter l) (tr s) = Some (Nd d lt ct rt) ->
  let s' := store_links out (lru_iter l) tgs s in
  let h' := snd (push_stubs tgs (dir_head out d) (stubs s)) in
  Inv18 s' /\
  ft (files_of s') =
  ft (apply (TSet (addr d) (main_block (dir_set out h' d) (root_addr lt) (root_addr rt) (root_addr ct))) (files_of s)).
Proof.
  intros out l tgs s d lt ct rt Hinv Hne Htgs Hfs s' h'.
  destruct (store_links_Tr out l tgs s Hinv Htgs) as (Eap & Hinv' & _). fold s' in Eap, Hinv'.
  split; [exact Hinv'|]. rewrite <- Eap.
  assert (Hf : find (lru_iter l) (tr s) = Some d) by (rewrite find_of_sub, Hfs; reflexivity).
  assert (Ew : store_links_w out l tgs s =
               map LApp (skipn (length (stubs s)) (fst (push_stubs tgs (dir_head out d) (stubs s)))) ++ node_write l s').
  { unfold store_links_w. destruct tgs as [|t ts]; [congruence|]. rewrite Hf. reflexivity. }
  rewrite Ew, apply_all_app, apply_lapps, node_write_nwp.
  assert (Etr : tr s' = upd (dir_set out h') (lru_iter l) (tr s)).
  { unfold s'. rewrite (store_links_some out _ tgs s d Hne Hf). reflexivity. }
  rewrite Etr.
  assert (Hs : forall d0, stem (dir_set out h' d0) = stem d0) by (intro d0; unfold dir_set; destruct out; reflexivity).
  assert (Ha : forall d0, addr (dir_set out h' d0) = addr d0) by (intro d0; unfold dir_set; destruct out; reflexivity).
  destruct (placed_upd (dir_set out h') Hs Ha (lru_iter l) (tr s) d lt ct rt Hfs) as (_ & _ & _ & _ & E3 & _).
  unfold nwp. rewrite E3, Ha. reflexivity.
Qed.

Lemma trep_ft : forall f f' sg, ft f' = ft f -> trep f sg -> trep f' sg.
Proof. intros f f' sg E (H1 & H2 & H3). unfold trep. rewrite E. repeat split; assumption. Qed.

Lemma head_ok_wf_head : forall st h, head_ok (length st) h -> wf_head st h.
Proof. intros st h [->|(j & Hj & ->)]; [left; reflexivity|right; exists j; split; [exact Hj|reflexivity]]. Qed.

Lemma blk_head_main : forall out d la ra ca, blk_head out (main_block d la ra ca) = dir_head out d.
Proof. intros [|] d la ra ca; reflexivity. Qed.

Lemma blk_set_head_main : forall out h d la ra ca,
  blk_set_head out h (main_block d la ra ca) = main_block (dir_set out h d) la ra ca.
Proof. intros [|] h d la ra ca; reflexivity. Qed.

Lemma main_block_encodable_head : forall out h d la ra ca, h < 2 ^ 64 ->
  blk_encodable (main_block d la ra ca) -> blk_encodable (main_block (dir_set out h d) la ra ca).
Proof.
  intros out h d la ra ca Hh (H1 & H2 & H3 & H4 & H5 & H6 & H7 & H8 & H9).
  unfold main_block, dir_set in *. destruct out;
  cbn [b_stem b_flags b_we b_left b_right b_child b_parent b_out b_in set_outh set_inh stem we par outh inh] in *;
  repeat split; try assumption; apply flags_of_lt.
Qed.

(* the invariant of the flush loops *)
Definition FInv (s : traph) (sg sgl : py_pm) (pages : list (bytes * py_node)) : Prop :=
  Inv18 s /\ trep (files_of s) sg /\ hk (encode_trie_header (lastwe s)) sg /\ lrep (stubs s) sgl /\ pages_ok s pages.

Lemma store_links_fields : forall out p tgs s, let s' := store_links out p tgs s in
  nb s' = nb s /\ lastwe s' = lastwe s /\ rules s' = rules s /\ dflt s' = dflt s /\
  (length (stubs s) <= length (stubs s'))%nat /\ keeps s s'.
Proof.
  intros out p tgs s. cbv zeta. destruct tgs as [|t ts]; [rewrite store_links_nil; repeat split; auto; apply keeps_refl|].
  destruct (find p (tr s)) as [d|] eqn:Hf.
  - rewrite (store_links_some out p (t :: ts) s d ltac:(discriminate) Hf). cbn [nb lastwe rules dflt stubs tr].
    repeat split; auto.
    + clear. generalize (dir_head out d) (stubs s). induction (t :: ts) as [|x xs IH]; intros h st; [cbn; lia|].
      rewrite LinkFacts.push_stubs_cons. specialize (IH (stub_addr (length st)) (st ++ [(x, h)])).
      rewrite app_length in IH. cbn [length] in IH. lia.
    + intros q d0 Hq. cbn [tr].
      assert (Hs : forall d1, stem (dir_set out (snd (push_stubs (t :: ts) (dir_head out d) (stubs s))) d1) = stem d1)
        by (intro d1; unfold dir_set; destruct out; reflexivity).
      destruct (find_upd_keeps _ p (tr s) q d0 Hs Hq) as [E|(_ & E)]; rewrite E; eexists; split; try reflexivity.
      unfold dir_set; destruct out; reflexivity.
  - unfold store_links. rewrite Hf. repeat split; auto. apply keeps_refl.
Qed.

Lemma find_to_sub : forall p t d, find p t = Some d -> exists l c r, find_sub p t = Some (Nd d l c r).
Proof.
  intros p t d H. rewrite find_of_sub in H. destruct (find_sub p t) as [[|d0 l c r]|]; try discriminate H.
  injection H as ->. eauto.
Qed.

(* one turn of a flush loop = the model's store_links *)
Lemma flush_step_spec : forall out s sg sgl pages p others,
  FInv s sg sgl pages -> py_dict_mem p pages = true -> (forall o, In o others -> py_dict_mem o pages = true) ->
  let s' := fl_step out s (p, others) in
  fits (saddr (length (stubs s'))) ->
  exists sg' sgl', flush_step out pages (Some (sg, sgl)) (p, others) = Some (sg', sgl') /\ FInv s' sg' sgl' pages.
Proof.
  intros out s sg sgl pages p others (Hinv & Hrep & Hhk & Hlrep & Hp) Hmp Hmo s' Hfit.
  destruct (dict_mem_get _ p pages Hmp) as [nd Hg].
  destruct (Hp p nd Hg) as (d & Hf & Hb).
  destruct (find_to_sub _ _ _ Hf) as (lt & ct & rt & Hfs).
  pose proof (find_sub_subt _ _ _ Hfs) as Hsub.
  unfold flush_step. rewrite Hg. unfold py_node_refresh. rewrite Hb.
  pose proof (read_subt s Hinv d lt ct rt nd sg Hsub Hrep) as [Hna Hrep1]. cbv zeta in Hna, Hrep1.
  pose proof (py_node_read_o_same nd sg (Some (addr d))) as [HS _].
  destruct (py_node_read_o nd sg (Some (addr d))) as [nd1 sg1]. cbn [fst snd] in Hna, Hrep1, HS.
  pose proof (hk_same _ _ _ Hhk HS) as Hhk1.
  rewrite (blocks_of_spec s pages others Hp Hmo).
  unfold s', fl_step. cbn [fst snd]. unfold s', fl_step in Hfit. cbn [fst snd] in Hfit.
  set (tgs := map (fun o => addr_of o s) others) in *.
  destruct Hna as (Hex & Hblk & Hdata & Hstem).
  set (b := main_block d (root_addr lt) (root_addr rt) (root_addr ct)) in *.
  assert (Htree : forall tg, In tg tgs -> exists q dq, find q (tr s) = Some dq /\ addr dq = tg).
  { intros tg Hin. apply in_map_iff in Hin. destruct Hin as (o & <- & Ho).
    destruct (dict_mem_get _ o pages (Hmo o Ho)) as [ndo Hgo]. destruct (Hp o ndo Hgo) as (dq & Hfo & _).
    exists (lru_iter o), dq. split; [exact Hfo|]. unfold addr_of. rewrite Hfo. reflexivity. }
  assert (Htok : Forall target_ok tgs).
  { apply Forall_forall. intros tg Hin. destruct (Htree tg Hin) as (q & dq & Hq & <-).
    destruct (find_to_sub _ _ _ Hq) as (l1 & c1 & r1 & Hq').
    exact (root_addr_ge s Hinv dq l1 c1 r1 (find_sub_subt _ _ _ Hq')). }
  pose proof (py_node_links_blk nd1 b out Hdata) as HL. unfold b in HL. rewrite blk_head_main in HL. fold b in HL.
  assert (Hhead : wf_head (stubs s) (py_node_links nd1 out)).
  { rewrite HL. apply head_ok_wf_head. destruct (I_heads s Hinv _ _ Hf) as [Ho Hi]. unfold dir_head. destruct out; assumption. }
  destruct (py_ls_add_links_spec nd1 sg1 sgl (stubs s) tgs out Hlrep Htok Hhead) as (sgl' & Hlrep' & E).
  rewrite E. clear E. rewrite HL in Hlrep' |- *.
  destruct (store_links_fields out (lru_iter p) tgs s) as (_ & Elw & _ & _ & _ & Hkeep).
  destruct tgs as [|t ts] eqn:Etgs.
  - (* no target: nothing is written *)
    exists sg1, sgl'. split; [reflexivity|]. rewrite store_links_nil.
    split; [exact Hinv|]. split; [exact Hrep1|]. split; [exact Hhk1|]. split; [exact Hlrep'|exact Hp].
  - cbv beta iota. rewrite <- Etgs in *. assert (Hne : tgs <> []) by (rewrite Etgs; discriminate).
    set (h' := snd (push_stubs tgs (dir_head out d) (stubs s))) in *.
    set (st' := fst (push_stubs tgs (dir_head out d) (stubs s))) in *.
    pose proof (store_links_some out (lru_iter p) tgs s d Hne Hf) as Es'. fold h' st' in Es'.
    set (s2 := store_links out (lru_iter p) tgs s) in *.
    assert (Est : stubs s2 = st') by (rewrite Es'; reflexivity).
    destruct (store_links_ft out p tgs s d lt ct rt Hinv Hne Htree Hfs) as [Hinv' Eft]. fold s2 h' in Hinv', Eft.
    rewrite (py_node_set_links_blk nd1 b out h' Hdata). unfold b at 1. rewrite blk_set_head_main.
    set (b' := main_block (dir_set out h' d) (root_addr lt) (root_addr rt) (root_addr ct)) in *.
    set (n2 := nd_set_data (tblock_vals b') nd1).
    pose proof Hrep1 as (Hbs & _ & _).
    assert (Hex2 : nd_exists n2 = true) by exact Hex.
    assert (Hblk2 : nd_block n2 = Some (addr d)) by exact Hblk.
    pose proof (blk_at_main_subt s Hinv d lt ct rt Hsub) as Hba. fold b in Hba.
    destruct (blk_at_off _ _ _ Hba) as [Ha Hn].
    assert (Hb' : blk_encodable b').
    { apply main_block_encodable_head; [|exact (trep_nth_enc _ _ _ _ Hrep1 Hn)].
      unfold h'. rewrite (push_stubs_head tgs _ _ Hne). fold st'. rewrite <- Est.
      unfold fits, saddr in Hfit. unfold ssz in *. lia. }
    pose proof (py_node_write_existing_gen n2 sg1 (addr d) Hex2 Hblk2 Hbs) as Ew.
    assert (Hok2 : okN n2).
    { intros a Ea. rewrite Hblk2 in Ea. injection Ea as <-.
      pose proof (root_addr_ge s Hinv d lt ct rt Hsub) as Hge. change py_first_data_block with 128 in Hge. exact Hge. }
    destruct (py_node_write_frame' n2 sg1 _ _ _ Hhk1 Hok2 Ew) as [Hhk3 _].
    rewrite Ew. cbn [snd].
    eexists _, sgl'. split; [reflexivity|].
    split; [exact Hinv'|]. split; [|split; [rewrite Elw; exact Hhk3|split; [rewrite Est; exact Hlrep'|]]].
    + apply (trep_ft _ _ _ Eft).
      change (nd_data n2) with (tblock_vals b'). fold (encode_tblock b').
      rewrite Ha. exact (trep_set (files_of s) sg1 (tidx (addr d)) b b' _ Hrep1 Hn Hb').
    + exact (pages_ok_keeps s s2 pages Hkeep Hp).
Qed.

Lemma flush_fields : forall out mm s, let s' := fold_left (fl_step out) mm s in
  nb s' = nb s /\ lastwe s' = lastwe s /\ rules s' = rules s /\ dflt s' = dflt s /\
  (length (stubs s) <= length (stubs s'))%nat.
Proof.
  intros out mm. induction mm as [|[p others] mm IH]; intro s; [cbn; repeat split; auto|].
  cbn [fold_left]. specialize (IH (fl_step out s (p, others))). cbv zeta in IH.
  destruct IH as (H1 & H2 & H3 & H4 & H5).
  destruct (store_links_fields out (lru_iter p) (map (fun o => addr_of o s) others) s) as (G1 & G2 & G3 & G4 & G5 & _).
  unfold fl_step in *. cbn [fst snd] in *. rewrite H1, H2, H3, H4. repeat split; auto. lia.
Qed.

(* a flush loop = the model's flush_links *)
Lemma flush_loop_spec : forall out pages mm s sg sgl,
  FInv s sg sgl pages -> mm_in pages mm ->
  let s' := flush_links out mm s in
  fits (saddr (length (stubs s'))) ->
  exists sg' sgl', fold_left (flush_step out pages) mm (Some (sg, sgl)) = Some (sg', sgl') /\ FInv s' sg' sgl' pages.
Proof.
  intros out pages mm. induction mm as [|[p others] mm IH]; intros s sg sgl HF Hm s' Hfit.
  - exists sg, sgl. split; [reflexivity|exact HF].
  - unfold s' in *. clear s'. rewrite flush_links_eq in *. cbn [fold_left] in *.
    destruct (Hm p others (or_introl eq_refl)) as [Hmp Hmo].
    destruct (flush_fields out mm (fl_step out s (p, others))) as (_ & _ & _ & _ & Hlen).
    destruct (flush_step_spec out s sg sgl pages p others HF Hmp Hmo) as (sg1 & sgl1 & E & HF1).
    { exact (fits_addr_le _ _ Hlen Hfit). }
    rewrite E.
    specialize (IH (fl_step out s (p, others)) sg1 sgl1 HF1). cbv zeta in IH. rewrite flush_links_eq in IH.
    apply IH; [|exact Hfit]. intros k vs Hin. apply Hm. right. exact Hin.
Qed.

(* ====================================================================================== *)
(* 6. Traph.add_links                                                                     *)
(* ====================================================================================== *)
(* on every state satisfying the invariant, whose flagged anchors all have their rule in RAM *)
Theorem py_traph_add_links_state_spec : forall s, Inv18 s -> root_first s -> anchors_known s ->
  forall rm hd sg sgl links, ramrep s rm -> hrep s hd sg -> lrep (stubs s) sgl ->
  Forall (fun l => wf_lru (fst l) /\ wf_lru (snd l)) links ->
  let r := Traph.add_links links s in
  let s' := fst r in
  nb s' * 128 < 2 ^ 64 -> lastwe s + N.of_nat (2 * length links) < 2 ^ 32 -> fits (saddr (length (stubs s'))) ->
  exists hd' sg' sgl' n c, snd r = Report n c /\
    py_traph_add_links rm hd sg sgl links = Some (hd', sg', sgl', report_of n c) /\
    hrep s' hd' sg' /\ lrep (stubs s') sgl' /\ ramrep s' rm /\ Inv18 s'.
Proof.
  intros s Hinv Hroot Hk rm hd sg sgl links Hram Hh Hl Hwf r s'. unfold s', r. clear s' r.
  rewrite add_links_FM.
  assert (HI0 : SInv rm s [] [] hd sg []).
  { split; [exact Hinv|]. split; [exact Hroot|]. split; [exact Hk|]. split; [exact Hram|]. split; [exact Hh|].
    split; [intros w []|]. split; [intros l nd Hg; discriminate Hg|reflexivity]. }
  destruct (first_loop_spec rm sgl links s 0 [] [] [] [] hd sg [] HI0 ltac:(intros k vs []) ltac:(intros k vs []) Hwf)
    as (s1 & n1 & c1 & seen1 & outs1 & ins1 & EM & _ & Hst & HC).
  rewrite EM. cbn [fst snd]. rewrite !flush_links_eq.
  set (s2 := fold_left (fl_step true) outs1 s1). set (s3 := fold_left (fl_step false) ins1 s2).
  destruct (flush_fields true outs1 s1) as (Enb2 & Elw2 & Erl2 & Edf2 & _). fold s2 in Enb2, Elw2, Erl2, Edf2.
  destruct (flush_fields false ins1 s2) as (Enb3 & Elw3 & Erl3 & Edf3 & Hlen3). fold s3 in Enb3, Elw3, Erl3, Edf3, Hlen3.
  intros Hsize Hlt Hfit.
  destruct HC as (hd1 & sg1 & pages1 & E1 & HI1 & Hmo & Hmi); [rewrite <- Enb2, <- Enb3; exact Hsize|exact Hlt|].
  destruct HI1 as (Hinv1 & _ & _ & Hram1 & Hh1 & _ & Hp1 & _).
  assert (HF1 : FInv s1 sg1 sgl pages1).
  { split; [exact Hinv1|]. split; [exact (proj1 Hh1)|]. split; [exact (hrep_hk _ _ _ Hh1)|].
    split; [rewrite Hst; exact Hl|exact Hp1]. }
  destruct (flush_loop_spec true pages1 outs1 s1 sg1 sgl HF1 Hmo) as (sg2 & sgl2 & E2 & HF2).
  { rewrite flush_links_eq. fold s2. exact (fits_addr_le _ _ Hlen3 Hfit). }
  rewrite flush_links_eq in HF2. fold s2 in HF2.
  destruct (flush_loop_spec false pages1 ins1 s2 sg2 sgl2 HF2 Hmi) as (sg3 & sgl3 & E3 & HF3).
  { rewrite flush_links_eq. fold s3. exact Hfit. }
  rewrite flush_links_eq in HF3. fold s3 in HF3.
  exists hd1, sg3, sgl3, n1, c1. split; [reflexivity|]. split.
  - rewrite add_links_code_eq. change py_report_new with (report_of 0 []). rewrite E1, E2, E3. reflexivity.
  - destruct HF3 as (Hinv3 & Hrep3 & Hhk3 & Hlrep3 & _). split; [|split; [exact Hlrep3|split; [|exact Hinv3]]].
    + apply hrep_intro; [exact Hrep3| |exact Hhk3]. rewrite Elw3, Elw2. exact (proj1 (proj2 Hh1)).
    + destruct Hram1 as [G1 G2]. split; congruence.
Qed.

(* the requested statement, with the hypothesis that every flagged anchor of the state has its rule in the RAM table (without it
   the statement is false: GenTraphPEx) *)
Theorem py_traph_add_links_spec : forall d rs h, wf_rules rs -> Forall wf_op h ->
  let s := run d rs h in
  anchors_known s ->
  forall rm hd sg sgl links, ramrep s rm -> hrep s hd sg -> lrep (stubs s) sgl ->
  Forall (fun l => wf_lru (fst l) /\ wf_lru (snd l)) links ->
  let r := Traph.add_links links s in
  let s' := fst r in
  nb s' * 128 < 2 ^ 64 -> lastwe s + N.of_nat (2 * length links) < 2 ^ 32 -> fits (saddr (length (stubs s'))) ->
  exists hd' sg' sgl' n c, snd r = Report n c /\
    py_traph_add_links rm hd sg sgl links = Some (hd', sg', sgl', report_of n c) /\
    hrep s' hd' sg' /\ lrep (stubs s') sgl' /\ ramrep s' rm.
Proof.
  intros d rs h _ Hh s Hk rm hd sg sgl links Hram Hhr Hl Hwf r s' Hsize Hlt Hfit.
  destruct (py_traph_add_links_state_spec s (run_Inv18 d rs h Hh) (run_root_first d rs h) Hk rm hd sg sgl links Hram Hhr Hl Hwf
              Hsize Hlt Hfit) as (hd' & sg' & sgl' & n & c & Er & E & H1 & H2 & H3 & _).
  exists hd', sg', sgl', n, c. auto.
Qed.


(* on every history whose reopens re-supply the rules of the flagged anchors (in particular: no reopen), the condition holds *)
From Traph Require GenTraphPReach.
Corollary py_traph_add_links_reach : forall d rs h, wf_rules rs -> Forall wf_op h ->
  GenTraphPReach.reopens_resupply h (init d rs) ->
  let s := run d rs h in
  forall rm hd sg sgl links, ramrep s rm -> hrep s hd sg -> lrep (stubs s) sgl ->
  Forall (fun l => wf_lru (fst l) /\ wf_lru (snd l)) links ->
  let r := Traph.add_links links s in
  let s' := fst r in
  nb s' * 128 < 2 ^ 64 -> lastwe s + N.of_nat (2 * length links) < 2 ^ 32 -> fits (saddr (length (stubs s'))) ->
  exists hd' sg' sgl' n c, snd r = Report n c /\
    py_traph_add_links rm hd sg sgl links = Some (hd', sg', sgl', report_of n c) /\
    hrep s' hd' sg' /\ lrep (stubs s') sgl' /\ ramrep s' rm.
Proof.
  intros d rs h Hrs Hh Hre s. apply (py_traph_add_links_spec d rs h Hrs Hh).
  apply GenTraphPReach.run_anchors_known; assumption.
Qed.

Print Assumptions py_traph_add_page_int_node.
Print Assumptions py_traph_add_links_state_spec.
Print Assumptions py_traph_add_links_spec.
Print Assumptions py_traph_add_links_reach.


(* ====================================================================================== *)
(* 7. non-vacuity                                                                         *)
(* ====================================================================================== *)
From Traph Require PropsEx.
Definition hd0 : py_thdr := mk_th [VNum (lastwe PropsEx.exs); VBytes version_bytes].
Definition rm0 : py_ram := mk_ram (rules PropsEx.exs) (dflt PropsEx.exs).
Definition sgl0 : py_pm := mk_pm 16 (link_file PropsEx.exs) 0.
Definition k_l1 : bytes := [115;58;104;116;116;112;124;104;58;111;114;103;124;104;58;122;124;112;58;113;124].  (* s:http|h:org|h:z|p:q| *)
Definition k_l2 : bytes := PropsEx.ex_px ++ [112;58;113;124].
(* a repeated link, a self link, a new domain (one webentity created by the default rule), a known page *)
Definition ex_links : list (bytes * bytes) := [(k_l2, k_l1); (PropsEx.ex_pxy, k_l2); (k_l2, k_l1); (k_l2, k_l2)].

(* the translated add_links run on the bytes of both files of a concrete state: the report is the model's, and so are the bytes
   of the trie file and of the link file (8 stubs appended), the counter in RAM and in the header block *)
Example ex_add_links :
  let r := Traph.add_links ex_links PropsEx.exs in
  match py_traph_add_links rm0 hd0 GenTrieFacts.ex_sg sgl0 ex_links with
  | Some (hd', sg', sgl', rp) =>
      snd r = Report (rp_nb_created_pages rp) (rp_created_webentities rp) /\
      Bytes.beq (pm_array sg') (trie_file (fst r)) = true /\
      Bytes.beq (pm_array sgl') (link_file (fst r)) = true /\
      py_thdr_last_webentity_id hd' = lastwe (fst r) /\
      rp_nb_created_pages rp = 2 /\ map fst (rp_created_webentities rp) = [4] /\
      length (stubs PropsEx.exs) = 8%nat /\ length (stubs (fst r)) = 16%nat /\
      Bytes.beq (pm_array sg') (pm_array GenTrieFacts.ex_sg) = false
  | None => False
  end.
Proof. vm_compute. repeat split; reflexivity. Qed.

(* the hypotheses of the theorem are met by this state, and the theorem then gives the same run *)
Lemma ex_no_reopen : Forall GenTraphPReach.not_reopen PropsEx.exh.
Proof. unfold PropsEx.exh. repeat constructor. Qed.

Example ex_theorem_applies :
  exists hd' sg' sgl' n c,
    snd (Traph.add_links ex_links PropsEx.exs) = Report n c /\
    py_traph_add_links rm0 hd0 GenTrieFacts.ex_sg sgl0 ex_links = Some (hd', sg', sgl', report_of n c) /\
    hrep (fst (Traph.add_links ex_links PropsEx.exs)) hd' sg' /\
    lrep (stubs (fst (Traph.add_links ex_links PropsEx.exs))) sgl'.
Proof.
  assert (Hrun : run Domain [] PropsEx.exh = PropsEx.exs) by (unfold PropsEx.exs; reflexivity).
  assert (Hh : hrep PropsEx.exs hd0 GenTrieFacts.ex_sg).
  { split; [|split; [reflexivity|]].
    - apply (trep_of_file PropsEx.exs 0). apply Forall_forall. intros b Hb. apply blk_encodableb_ok.
      assert (Hall : forallb blk_encodableb (ft (files_of PropsEx.exs)) = true) by (vm_compute; reflexivity).
      rewrite forallb_forall in Hall. apply Hall. exact Hb.
    - vm_compute. reflexivity. }
  assert (Hl : lrep (stubs PropsEx.exs) sgl0) by (split; reflexivity).
  assert (Hwf : Forall (fun l => wf_lru (fst l) /\ wf_lru (snd l)) ex_links).
  { unfold ex_links. repeat constructor; cbn [fst snd]; PropsEx.wf_lru_tac. }
  pose proof (GenTraphPReach.no_reopen_resupply PropsEx.exh (init Domain []) ex_no_reopen) as Hre.
 
  pose proof (py_traph_add_links_reach Domain [] PropsEx.exh PropsEx.ex_rules_wf PropsEx.exh_wf Hre) as HA.
 
  cbv zeta in HA. rewrite Hrun in HA.
  assert (Hram : ramrep PropsEx.exs rm0) by (split; reflexivity).
  assert (H1 : nb (fst (Traph.add_links ex_links PropsEx.exs)) * 128 < 2 ^ 64) by (vm_compute; reflexivity).
  assert (H2 : lastwe PropsEx.exs + N.of_nat (2 * length ex_links) < 2 ^ 32) by (vm_compute; reflexivity).
  assert (H3 : fits (saddr (length (stubs (fst (Traph.add_links ex_links PropsEx.exs)))))) by (vm_compute; reflexivity).
  destruct (HA rm0 hd0 GenTrieFacts.ex_sg sgl0 ex_links Hram Hh Hl Hwf H1 H2 H3)
    as (hd' & sg' & sgl' & n & c & Er & E & Hh' & Hl' & _).
  exists hd', sg', sgl', n, c. auto.
Qed.
Print Assumptions ex_add_links.
Print Assumptions ex_theorem_applies.
