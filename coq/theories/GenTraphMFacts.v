(* GenTraphMFacts.v — the most-linked-pages request of the public API translated from /repo/traph/traph.py on every run
   (GenTraphM.v: Traph.get_webentity_most_linked_pages, over the translated LRUTrie.lru_node / webentity_dfs_iter,
   LinkStore.weighted_link_nodes_iter and heapq as an ascending list) answers exactly what the model's
   Traph.most_linked answers, for EVERY history: on any trie storage holding the trie file of the state reached and
   any link storage holding its link file.  The known defect F7 (a page nobody links to is reported with indegree 1:
   its null in-head is followed unguarded and the 16-byte header of the link file is read as one stub) is DERIVED
   from the translated code (weighted_at_zero, count_spec, F7_from_source). *)
From Coq Require Import List NArith Bool Lia Arith Sorted.
Import ListNotations.
From Traph Require Import Bytes Consts Layout Helpers Rules Tst TstDefs Traph Spec Ops RefDefs Traphw TraceDefs Codec
  CodecFacts TstFacts TopkFacts Store StoreFacts StoreFacts2 RefFull LinkFacts GenStorage GenNode GenNodeFacts GenLinks
  GenLinksFacts GenTrie GenTrieFacts GenTrieW GenTrieD GenTrieDDefs GenTraphL GenTraphM.
From Traph Require Import GenTrieDWdfs GenTraphPages GenTraphLFacts.
From Traph Require GenTrieWPage.
Open Scope N_scope.

Arguments N.shiftr : simpl never.
Arguments N.shiftl : simpl never.
Arguments N.modulo : simpl never.
Arguments N.div : simpl never.
Arguments N.land : simpl never.
Arguments N.lor : simpl never.
Arguments N.mul : simpl never.
Arguments N.add : simpl never.
Arguments N.sub : simpl never.
Arguments N.ltb : simpl never.
Arguments N.leb : simpl never.
Arguments N.eqb : simpl never.

(* ====================================================================================== *)
(* 1. the header of the link file read as a stub                                          *)
(* ====================================================================================== *)

Lemma slice_header : forall rest,
  GenStorage.py_slice 0 (0 + py_stub_block_size) (encode_link_header ++ rest) = encode_link_header.
Proof.
  intro rest. unfold GenStorage.py_slice. change (N.to_nat (0 + py_stub_block_size - 0)) with 16%nat.
  change (N.to_nat 0) with 0%nat. cbn [skipn].
  rewrite firstn_app, link_header_length. change (16 - 16)%nat with 0%nat. rewrite firstn_O, app_nil_r.
  apply firstn_all2. rewrite link_header_length. apply le_n.
Qed.

(* block 0 of the link file: the magic bytes; as a stub, its `previous` field is 0 *)
Definition header_stub : option N * N := (Some 52974934962949, 1).

Lemma weighted_at_zero_eq : forall st sgl, lrep st sgl ->
  py_ls_weighted_link_nodes_iter sgl 0 = Some [header_stub].
Proof.
  intros st sgl [Hbs Harr]. rewrite weighted_iter_eq.
  unfold py_lnode_init. unfold py_lnode_read, py_pm_read. cbn [pm_block_size pm_array pm_cursor].
  rewrite Hbs, Harr, slice_header.
  reflexivity.
Qed.

Lemma weighted_at_zero : forall st sgl, lrep st sgl ->
  exists x, py_ls_weighted_link_nodes_iter sgl 0 = Some [x].
Proof. intros st sgl H. exists header_stub. exact (weighted_at_zero_eq st sgl H). Qed.

(* ====================================================================================== *)
(* 2. the counting loop                                                                   *)
(* ====================================================================================== *)

Lemma count_fold : forall (A : Type) (l : list A) n,
  fold_left (fun (v__n : N) (_ : A) => N.add v__n 1%N) l n = n + N.of_nat (length l).
Proof.
  intros A. induction l as [|x l IH]; intro n.
  - cbn [fold_left length]. lia.
  - cbn [fold_left length]. rewrite IH. lia.
Qed.

Lemma weighted_length : forall l, length (weighted l) = length (deduped l).
Proof. intro l. rewrite <- (weighted_fst l). symmetry. apply map_length. Qed.

(* the translated count over the translated weighted traversal from the in-head of a node: the model's
   reported_indegree - by the header read as one stub when the head is null (F7) *)
Theorem count_spec : forall d rs h, wf_rules rs -> Forall wf_op h ->
  let s := run d rs h in
  forall sgl, lrep (stubs s) sgl -> fits (nb s * bsz) -> fits (saddr (length (stubs s))) ->
  forall p nd, find p (tr s) = Some nd ->
    exists stubs, py_ls_weighted_link_nodes_iter sgl (inh nd) = Some stubs /\
      fold_left (fun (v__n : N) (_ : (option N * N)) => N.add v__n 1%N) stubs 0 = reported_indegree nd s.
Proof.
  intros d rs h Hr Hh s sgl Hrep Hft Hfl p nd Hf.
  pose proof (run_Rl d rs h Hr Hh) as HR. fold s in HR.
  pose proof (reachable_wf_stubs s _ HR Hft Hfl) as Hwf.
  unfold reported_indegree.
  destruct (N.eqb_spec (inh nd) 0) as [Ez|Enz].
  - rewrite Ez. exists [header_stub]. split; [exact (weighted_at_zero_eq _ _ Hrep)|reflexivity].
  - destruct (L_heads s _ HR p nd Hf) as [_ Hi].
    destruct Hi as [E|(j & Hj & E)]; [contradiction|].
    destruct (nth_error (stubs s) j) as [x|] eqn:En; [|apply nth_error_None in En; lia].
    exists (map lift (weighted (targets_of (stubs s) (inh nd)))). split.
    + rewrite E. exact (py_ls_weighted_spec (stubs s) sgl j x Hwf Hrep En).
    + rewrite count_fold, map_length, weighted_length. reflexivity.
Qed.

(* ====================================================================================== *)
(* 3. the bounded heap: ascending list on the code's side, descending on the model's      *)
(* ====================================================================================== *)

Lemma heap_lt_gtb : forall x y, py_heap_lt x y = gtb y x.
Proof. intros [[a b] l] [[c d] l']. reflexivity. Qed.

Lemma heappush_cons : forall x y h,
  py_heappush x (y :: h) = if gtb y x then x :: y :: h else y :: py_heappush x h.
Proof. intros x y h. cbn [py_heappush]. rewrite heap_lt_gtb. reflexivity. Qed.

Lemma heappush_in : forall x h z, In z (py_heappush x h) <-> z = x \/ In z h.
Proof.
  intros x h z. induction h as [|y h IH].
  - cbn. intuition congruence.
  - rewrite heappush_cons. destruct (gtb y x).
    + cbn [In]. intuition congruence.
    + cbn [In]. rewrite IH. intuition congruence.
Qed.

Lemma heappush_length : forall x h, length (py_heappush x h) = S (length h).
Proof.
  intros x h. induction h as [|y h IH]; [reflexivity|].
  rewrite heappush_cons. destruct (gtb y x); [reflexivity|]. cbn [length]. rewrite IH. reflexivity.
Qed.

(* ascending: every later entry is strictly above every earlier one *)
Definition asc (h : list key) : Prop := StronglySorted (fun x y => gt y x) h.

Lemma gtb_false_of_gt : forall x y, gt y x -> gtb x y = false.
Proof.
  intros x y H. destruct (gtb x y) eqn:E; [|reflexivity].
  apply gtb_spec in E. exfalso. exact (gt_irrefl x (gt_trans _ _ _ E H)).
Qed.

Lemma heappush_asc : forall x h, asc h -> (forall y, In y h -> arr_of y <> arr_of x) -> asc (py_heappush x h).
Proof.
  intros x h. induction h as [|y h IH]; intros Hs Hd.
  - cbn. constructor; constructor.
  - rewrite heappush_cons. inversion Hs as [|y' h' Hs' Hall]; subst.
    destruct (gtb y x) eqn:E.
    + apply gtb_spec in E. constructor; [exact Hs|].
      constructor; [exact E|]. rewrite Forall_forall in *. intros z Hz.
      exact (gt_trans _ _ _ (Hall z Hz) E).
    + constructor.
      * apply IH; [exact Hs'|]. intros z Hz. apply Hd. right. exact Hz.
      * rewrite Forall_forall in *. intros z Hz. apply heappush_in in Hz.
        destruct Hz as [->|Hz]; [|exact (Hall z Hz)].
        apply not_gt_flip.
        -- intro Heq. apply (Hd y); [left; reflexivity|]. unfold arr_of. congruence.
        -- intro Hg. apply gtb_spec in Hg. congruence.
Qed.

Lemma insert_desc_skip : forall x l1 l2, (forall z, In z l1 -> gtb x z = false) ->
  insert_desc x (l1 ++ l2) = l1 ++ insert_desc x l2.
Proof.
  intros x. induction l1 as [|y l1 IH]; intros l2 H; [reflexivity|].
  cbn [app]. rewrite insert_desc_cons, (H y (or_introl eq_refl)).
  rewrite IH; [reflexivity|]. intros z Hz. apply H. right. exact Hz.
Qed.

Lemma insert_desc_snoc : forall x l y, gtb x y = true -> insert_desc x (l ++ [y]) = insert_desc x l ++ [y].
Proof.
  intros x l y H. induction l as [|z l IH].
  - cbn [app]. rewrite insert_desc_cons, H. reflexivity.
  - cbn [app]. rewrite !insert_desc_cons. destruct (gtb x z); [reflexivity|].
    rewrite IH. reflexivity.
Qed.

(* one push on the ascending list is one insert_desc on its mirror image *)
Theorem heappush_mirror : forall x h, asc h -> (forall y, In y h -> arr_of y <> arr_of x) ->
  rev (py_heappush x h) = insert_desc x (rev h).
Proof.
  intros x h. induction h as [|y h IH]; intros Hs Hd; [reflexivity|].
  rewrite heappush_cons. inversion Hs as [|y' h' Hs' Hall]; subst.
  destruct (gtb y x) eqn:E.
  - apply gtb_spec in E. cbn [rev].
    rewrite insert_desc_skip.
    + rewrite insert_desc_cons, (gtb_false_of_gt x y E), insert_desc_nil, <- app_assoc. reflexivity.
    + intros z Hz. apply in_rev in Hz. rewrite Forall_forall in Hall.
      apply gtb_false_of_gt. exact (gt_trans _ _ _ (Hall z Hz) E).
  - cbn [rev]. rewrite IH; [|exact Hs'|intros z Hz; apply Hd; right; exact Hz].
    rewrite insert_desc_snoc; [reflexivity|].
    apply gtb_spec. apply not_gt_flip.
    + intro Heq. apply (Hd y); [left; reflexivity|]. unfold arr_of. congruence.
    + intro Hg. apply gtb_spec in Hg. congruence.
Qed.

(* dropping the least entry when the bound is exceeded *)
Definition py_trunc (k : N) (h : list key) : option (list key) :=
  if (N.ltb k (N.of_nat (length h)))
  then (match py_heappop h with None => None | Some (_, v__h) => Some v__h end)
  else Some h.

Definition ctrunc (k : N) (h : list key) : list key := if k <? N.of_nat (length h) then tl h else h.

Lemma py_trunc_eq : forall k h, py_trunc k h = Some (ctrunc k h).
Proof.
  intros k h. unfold py_trunc, ctrunc. destruct (N.ltb_spec k (N.of_nat (length h))) as [Hlt|]; [|reflexivity].
  destruct h as [|x h]; [cbn [length] in Hlt; lia|reflexivity].
Qed.

Lemma ctrunc_mirror : forall k h, (length h <= S (N.to_nat k))%nat ->
  rev (ctrunc k h) = firstn (N.to_nat k) (rev h) /\ (length (ctrunc k h) <= N.to_nat k)%nat.
Proof.
  intros k h Hlen. unfold ctrunc. destruct (N.ltb_spec k (N.of_nat (length h))) as [Hlt|Hge].
  - destruct h as [|x h]; [cbn [length] in Hlt; lia|]. cbn [length] in *. cbn [tl rev].
    assert (Hl : length (rev h) = N.to_nat k) by (rewrite rev_length; lia).
    split; [|lia].
    rewrite firstn_app, Hl, Nat.sub_diag, firstn_O, app_nil_r. symmetry. apply firstn_all2. lia.
  - split; [|lia]. symmetry. apply firstn_all2. rewrite rev_length. lia.
Qed.

Lemma asc_tl : forall h, asc h -> asc (tl h).
Proof. intros [|x h] H; [exact H|]. inversion H; assumption. Qed.

Lemma ctrunc_in : forall k h z, In z (ctrunc k h) -> In z h.
Proof.
  intros k h z. unfold ctrunc. destruct (k <? _); [|exact (fun H => H)].
  destruct h as [|x h]; [exact (fun H => H)|]. intro H. right. exact H.
Qed.

Lemma ctrunc_asc : forall k h, asc h -> asc (ctrunc k h).
Proof. intros k h H. unfold ctrunc. destruct (k <? _); [apply asc_tl|]; exact H. Qed.

(* the two pure steps *)
Definition cstep (s : traph) (k : N) (hc : list key * N) (x : bytes * nd) : list key * N :=
  let '(h, c) := hc in
  let c' := c + 1 in (ctrunc k (py_heappush (reported_indegree (snd x) s, c', fst x) h), c').

Definition mstep (s : traph) (k : N) : list key * N -> bytes * nd -> list key * N :=
  fun '(heap, c) x =>
    let c' := c + 1 in
    (firstn (N.to_nat k) (insert_desc (reported_indegree (snd x) s, c', fst x) heap), c').

(* the invariant of the code's heap *)
Definition heap_inv (k c : N) (h : list key) : Prop :=
  asc h /\ (forall y, In y h -> arr_of y <= c) /\ (length h <= N.to_nat k)%nat.

Lemma step_mirror : forall s k c h x, heap_inv k c h ->
  heap_inv k (snd (cstep s k (h, c) x)) (fst (cstep s k (h, c) x)) /\
  mstep s k (rev h, c) x = (rev (fst (cstep s k (h, c) x)), snd (cstep s k (h, c) x)).
Proof.
  intros s k c h x (Hs & Hc & Hl). cbn [cstep mstep fst snd]. cbv zeta.
  set (e := (reported_indegree (snd x) s, c + 1, fst x)).
  assert (Hd : forall y, In y h -> arr_of y <> arr_of e).
  { intros y Hy. specialize (Hc y Hy). unfold e, arr_of in *. cbn [fst snd]. lia. }
  pose proof (heappush_asc e h Hs Hd) as Hs1.
  pose proof (heappush_length e h) as Hl1.
  assert (Hl1' : (length (py_heappush e h) <= S (N.to_nat k))%nat)
    by (rewrite Hl1; apply le_n_S; exact Hl).
  destruct (ctrunc_mirror k (py_heappush e h) Hl1') as [Hm Hl2].
  split.
  - split; [apply ctrunc_asc; exact Hs1|]. split; [|exact Hl2].
    intros y Hy. apply ctrunc_in, heappush_in in Hy. destruct Hy as [->|Hy].
    + unfold e, arr_of. cbn [fst snd]. lia.
    + specialize (Hc y Hy). lia.
  - apply f_equal2; [|reflexivity]. rewrite Hm. apply f_equal. symmetry. exact (heappush_mirror e h Hs Hd).
Qed.

(* mirror images at every step *)
Theorem fold_mirror : forall s k l h c, heap_inv k c h ->
  fold_left (mstep s k) l (rev h, c) =
  (rev (fst (fold_left (cstep s k) l (h, c))), snd (fold_left (cstep s k) l (h, c))).
Proof.
  intros s k. induction l as [|x l IH]; intros h c Hinv; [reflexivity|].
  cbn [fold_left]. destruct (step_mirror s k c h x Hinv) as [Hinv1 E]. rewrite E.
  destruct (cstep s k (h, c) x) as [h1 c1]. cbn [fst snd] in *. exact (IH h1 c1 Hinv1).
Qed.

Lemma heap_inv_init : forall k, heap_inv k 0 [].
Proof. intro k. split; [constructor|]. split; [intros y []|apply Nat.le_0_l]. Qed.

(* ====================================================================================== *)
(* 4. the generated request, re-stated in named pieces                                    *)
(* ====================================================================================== *)

Definition HSt : Type := option (py_pm * N * list (N * N * bytes)).

(* body of `for node, lru in self.lru_trie.webentity_dfs_iter(starting_node, prefix, max_depth)` *)
Definition ibody (sgl : py_pm) (v_pages_count : N) (st : HSt) (v__it : py_node * bytes) : HSt :=
 match st with
 | None => None
 | Some (sg, v_c, v_pages) => (let '(v_node, v_lru) := v__it in
 (if (py_node_is_page v_node)
 then (let v_indegree := 0%N in
 (match py_ls_weighted_link_nodes_iter sgl (py_node_inlinks v_node) with
 | None => None
 | Some v__stubs =>
 (let v_indegree := fold_left (fun (v__n : N) (_ : (option N * N)) => N.add v__n 1%N) v__stubs v_indegree in
 (let v_c := (N.add v_c 1%N) in
 (let v_pages := py_heappush (v_indegree, v_c, v_lru) v_pages in
 (match (if (N.ltb v_pages_count (N.of_nat (length v_pages)))
 then (match py_heappop v_pages with None => None | Some (_, v__h) => Some v__h end)
 else Some v_pages) with
 | None => None
 | Some v_pages => (Some (sg, v_c, v_pages)) end)))) end))
 else (Some (sg, v_c, v_pages)))) end.

(* body of `for prefix in prefixes` *)
Definition obody (sgl : py_pm) (v_pages_count : N) (v_max_depth : option N) (st : HSt) (v_prefix : bytes) : HSt :=
 match st with
 | None => None
 | Some (sg, v_c, v_pages) =>
     match py_trie_lru_node sg v_prefix with
     | None => None
     | Some (sg, None) => None
     | Some (sg, Some v_starting_node) =>
         match py_trie_webentity_dfs_iter sg v_starting_node v_prefix v_max_depth with
         | None => None
         | Some (v__items, sg) =>
             match fold_left (ibody sgl v_pages_count) v__items (Some (sg, v_c, v_pages)) with
             | None => None
             | Some (sg, v_c, v_pages) => Some (sg, v_c, v_pages)
             end
         end
     end
 end.

Lemma most_linked_pages_eq : forall sg sgl w ps k maxd,
  py_traph_get_webentity_most_linked_pages sg sgl w ps k maxd =
  match fold_left (obody sgl k maxd) ps (Some (sg, 0, [])) with
  | None => None
  | Some (sg, _, v_pages) => Some (sg, py_heap_drain_desc v_pages)
  end.
Proof. reflexivity. Qed.

Lemma fold_obody_None : forall sgl k maxd ps, fold_left (obody sgl k maxd) ps None = None.
Proof. intros sgl k maxd. induction ps as [|p ps IH]; [reflexivity|exact IH]. Qed.

Lemma fold_ibody_None : forall sgl k items, fold_left (ibody sgl k) items None = None.
Proof. intros sgl k. induction items as [|p ps IH]; [reflexivity|exact IH]. Qed.

Lemma most_linked_eq : forall ps k maxd s,
  most_linked ps k maxd s =
  match we_page_nodes maxd ps s with
  | ROk l => ROk (map (fun x : key => let '(dg, _, lru) := x in (lru, dg)) (fst (fold_left (mstep s k) l ([], 0))))
  | RRefused => RRefused | RCrash => RCrash
  end.
Proof.
  intros ps k maxd s. unfold most_linked. destruct (we_page_nodes maxd ps s) as [| |l]; try reflexivity.
  change (fold_left _ l ([], 0)) with (fold_left (mstep s k) l ([], 0)).
  destruct (fold_left (mstep s k) l ([], 0)) as [heap c]. reflexivity.
Qed.

Section OnState.
  Variable s : traph.
  Hypothesis Hinv : Inv18 s.
  Hypothesis Hroot : root_first s.
  Variable sgl : py_pm.
  (* what section 2 gives on reachable states *)
  Hypothesis Hcount : forall p nd, find p (tr s) = Some nd ->
    exists stubs, py_ls_weighted_link_nodes_iter sgl (inh nd) = Some stubs /\
      fold_left (fun (v__n : N) (_ : (option N * N)) => N.add v__n 1%N) stubs 0 = reported_indegree nd s.

  Lemma item_inlinks : forall it m, item_rep s it m -> py_node_inlinks (fst it) = inh (snd m).
  Proof.
    intros it m (_ & l & c & r & _ & Hn). destruct Hn as (_ & _ & Hd & _).
    unfold py_node_inlinks. rewrite Hd, get_in. reflexivity.
  Qed.

  Lemma item_found : forall it m, item_rep s it m -> exists p, find p (tr s) = Some (snd m).
  Proof.
    intros it m (_ & l & c & r & Hsub & _).
    exact (subt_node_find _ _ _ _ _ (proj1 (I_wf _ Hinv)) Hsub).
  Qed.

  (* the inner loop: the pure step of the code over the pages among the items; the trie storage is not touched *)
  Lemma fold_ibody_spec : forall k items wl sg c h,
    Forall2 (item_rep s) items wl ->
    fold_left (ibody sgl k) items (Some (sg, c, h)) =
    (let hc := fold_left (cstep s k) (filter (fun x => page (snd x)) wl) (h, c) in Some (sg, snd hc, fst hc)).
  Proof.
    intros k items wl sg c h H. revert c h. induction H as [|it m items wl Hit _ IH]; intros c h; [reflexivity|].
    cbn [fold_left filter]. destruct it as [n lru]. cbn [ibody].
    rewrite <- (item_page s _ _ Hit). cbn [fst].
    destruct (py_node_is_page n); [|apply IH].
    pose proof (item_inlinks _ _ Hit) as Hin. cbn [fst] in Hin. rewrite Hin.
    destruct (item_found _ _ Hit) as (p & Hf).
    destruct (Hcount p (snd m) Hf) as (stubs & E & Hc).
    rewrite E. cbv zeta. rewrite Hc.
    change (if N.ltb k (N.of_nat (length (py_heappush (reported_indegree (snd m) s, c + 1, lru) h)))
            then match py_heappop (py_heappush (reported_indegree (snd m) s, c + 1, lru) h) with
                 | None => None | Some (_, v__h) => Some v__h end
            else Some (py_heappush (reported_indegree (snd m) s, c + 1, lru) h))
      with (py_trunc k (py_heappush (reported_indegree (snd m) s, c + 1, lru) h)).
    rewrite py_trunc_eq. cbn [fold_left].
    destruct Hit as (Hl & _). cbn [snd] in Hl. subst lru.
    exact (IH (c + 1) (ctrunc k (py_heappush (reported_indegree (snd m) s, c + 1, fst m) h))).
  Qed.

  Definition pages_at (maxd : option N) (p : bytes) (sub : tst) : list (bytes * nd) :=
    filter (fun x => page (snd x)) (wdfs_at maxd (lru_dirname p) sub).

  (* the outer loop *)
  Lemma fold_obody_spec : forall k maxd ps sg c h,
    trep (files_of s) sg -> Forall wf_lru ps ->
    match over_prefixes (pages_at maxd) ps (tr s) with
    | ROk l => exists sg', fold_left (obody sgl k maxd) ps (Some (sg, c, h)) =
                 (let hc := fold_left (cstep s k) l (h, c) in Some (sg', snd hc, fst hc)) /\
                 trep (files_of s) sg' /\ pm_array sg' = pm_array sg
    | _ => fold_left (obody sgl k maxd) ps (Some (sg, c, h)) = None
    end.
  Proof.
    intros k maxd. induction ps as [|p ps IH]; intros sg c h Hrep Hwf.
    - cbn [over_prefixes fold_left]. exists sg. split; [reflexivity|]. split; [exact Hrep|reflexivity].
    - inversion Hwf as [|? ? Hp Hps]; subst.
      cbn [over_prefixes fold_left].
      destruct (lru_node_full s Hinv Hroot sg p Hrep Hp) as (sg1 & Hrep1 & Harr1 & H1).
      destruct (find_sub (lru_iter p) (tr s)) as [sub|].
      2:{ cbn [obody]. rewrite H1. apply fold_obody_None. }
      destruct H1 as (n1 & E1 & Hn1 & Hsub1).
      destruct (py_trie_webentity_dfs_iter_spec s Hinv sg1 maxd sub n1 p Hrep1 Hsub1 Hn1)
        as (items & sg2 & E2 & Hrep2 & Harr2 & Hitems).
      cbn [obody]. rewrite E1, E2, (fold_ibody_spec k items _ sg2 c h Hitems). cbv zeta.
      fold (pages_at maxd p sub).
      destruct (fold_left (cstep s k) (pages_at maxd p sub) (h, c)) as [h1 c1] eqn:E3. cbn [fst snd].
      specialize (IH sg2 c1 h1 Hrep2 Hps).
      destruct (over_prefixes (pages_at maxd) ps (tr s)) as [| |l].
      + exact IH.
      + exact IH.
      + destruct IH as (sg' & E & Hrep' & Harr'). exists sg'.
        split; [|split; [exact Hrep'|congruence]].
        rewrite E, fold_left_app, E3. reflexivity.
  Qed.

  Theorem most_linked_pages_spec : forall sg w ps k maxd,
    trep (files_of s) sg -> Forall wf_lru ps ->
    match most_linked ps k maxd s with
    | ROk l => exists sg', py_traph_get_webentity_most_linked_pages sg sgl w ps k maxd = Some (sg', l) /\
                 trep (files_of s) sg' /\ pm_array sg' = pm_array sg
    | _ => py_traph_get_webentity_most_linked_pages sg sgl w ps k maxd = None
    end.
  Proof.
    intros sg w ps k maxd Hrep Hwf. rewrite most_linked_pages_eq, most_linked_eq.
    pose proof (fold_obody_spec k maxd ps sg 0 [] Hrep Hwf) as H.
    unfold we_page_nodes.
    change (fun p sub => filter (fun x => page (snd x)) (wdfs_at maxd (lru_dirname p) sub)) with (pages_at maxd).
    destruct (over_prefixes (pages_at maxd) ps (tr s)) as [| |l].
    - rewrite H. reflexivity.
    - rewrite H. reflexivity.
    - destruct H as (sg' & E & Hrep' & Harr'). rewrite E. cbv zeta. exists sg'.
      split; [|split; [exact Hrep'|exact Harr']].
      change (@nil key) with (rev (@nil key)). rewrite (fold_mirror s k l [] 0 (heap_inv_init k)). cbn [fst].
      reflexivity.
  Qed.
End OnState.

(* ====================================================================================== *)
(* 5. the main theorem: for every history                                                 *)
(* ====================================================================================== *)

(* None stands for TraphException on the code's side (a prefix of the list is not in the trie), RRefused on the model's;
   k = 0 needs no side condition: the code pushes then pops at once, the model cuts with firstn 0 *)
Theorem py_traph_most_linked_spec : forall d rs h, wf_rules rs -> Forall wf_op h ->
  let s := run d rs h in
  forall sg sgl w ps k maxd,
    trep (files_of s) sg -> lrep (stubs s) sgl -> fits (nb s * bsz) -> fits (saddr (length (stubs s))) -> Forall wf_lru ps ->
    match most_linked ps k maxd s with
    | ROk l => exists sg', py_traph_get_webentity_most_linked_pages sg sgl w ps k maxd = Some (sg', l) /\
                 trep (files_of s) sg' /\ pm_array sg' = pm_array sg
    | _ => py_traph_get_webentity_most_linked_pages sg sgl w ps k maxd = None
    end.
Proof.
  intros d rs h Hr Hh s sg sgl w ps k maxd Hrep Hlrep Hft Hfl Hwf.
  pose proof (run_Inv18 d rs h Hh) as Hinv. fold s in Hinv.
  pose proof (run_root_first d rs h) as Hroot. fold s in Hroot.
  apply (most_linked_pages_spec s Hinv Hroot sgl); [|exact Hrep|exact Hwf].
  intros p nd Hf. exact (count_spec d rs h Hr Hh sgl Hlrep Hft Hfl p nd Hf).
Qed.

(* ---- where the listed entries come from (on the model's side) ---- *)
Lemma keys_in : forall (A : Type) (deg : A -> N) (lru : A -> bytes) xs c y,
  In y (keys A deg lru c xs) -> exists x, In x xs /\ fst (fst y) = deg x /\ snd y = lru x.
Proof.
  intros A deg lru. induction xs as [|x xs IH]; intros c y H; [destruct H|].
  cbn [keys] in H. destruct H as [<-|H].
  - exists x. split; [left; reflexivity|]. split; reflexivity.
  - destruct (IH _ _ H) as (x' & Hx' & E). exists x'. split; [right; exact Hx'|exact E].
Qed.

Lemma in_keys : forall (A : Type) (deg : A -> N) (lru : A -> bytes) xs c x,
  In x xs -> exists c', In (deg x, c', lru x) (keys A deg lru c xs).
Proof.
  intros A deg lru. induction xs as [|x0 xs IH]; intros c x H; [destruct H|].
  cbn [keys]. destruct H as [->|H].
  - exists (c + 1). left. reflexivity.
  - destruct (IH (c + 1) x H) as (c' & Hc'). exists c'. right. exact Hc'.
Qed.

Lemma most_linked_origin : forall ps k maxd s cands,
  we_page_nodes maxd ps s = ROk cands ->
  exists ans, most_linked ps k maxd s = ROk ans /\
    (forall lru dg, In (lru, dg) ans -> exists nd, In (lru, nd) cands /\ dg = reported_indegree nd s) /\
    ((length cands <= N.to_nat k)%nat ->
       forall lru nd, In (lru, nd) cands -> In (lru, reported_indegree nd s) ans).
Proof.
  intros ps k maxd s cands Hc. rewrite most_linked_char, Hc.
  set (ks := keys _ (fun x : bytes * Tst.nd => reported_indegree (snd x) s) fst 0 cands).
  exists (map (fun '(dg, _, lru) => (lru, dg)) (firstn (N.to_nat k) (isort ks))).
  split; [reflexivity|]. pose proof (isort_perm ks) as Hp. split.
  - intros lru dg Hin. apply in_map_iff in Hin. destruct Hin as ([[dg' c'] lru'] & E & Hin).
    injection E as -> ->.
    assert (Hin' : In (dg, c', lru) (isort ks)).
    { rewrite <- (firstn_skipn (N.to_nat k) (isort ks)). apply in_or_app. left. exact Hin. }
    apply (Permutation.Permutation_in _ Hp) in Hin'. apply keys_in in Hin'.
    destruct Hin' as ([lru' nd] & Hx & E1 & E2). cbn [fst snd] in E1, E2. subst lru' dg.
    exists nd. split; [exact Hx|reflexivity].
  - intros Hlen lru nd Hin.
    destruct (in_keys _ (fun x : bytes * Tst.nd => reported_indegree (snd x) s) fst cands 0 (lru, nd) Hin) as (c' & Hk).
    cbn [fst snd] in Hk. fold ks in Hk.
    apply (Permutation.Permutation_in _ (Permutation.Permutation_sym Hp)) in Hk.
    rewrite firstn_all2.
    2:{ rewrite (Permutation.Permutation_length Hp). unfold ks. rewrite keys_length. exact Hlen. }
    apply in_map_iff. exists (reported_indegree nd s, c', lru). split; [reflexivity|exact Hk].
Qed.

(* ---- F7, from the translated code: whatever the history, the translated request lists a page with the number of
   distinct pages linking to it - except a page NOBODY links to (null in-head), which it lists with indegree 1;
   and such a page IS listed as soon as the bound k leaves room for every candidate ---- *)
Corollary F7_from_source : forall d rs h, wf_rules rs -> Forall wf_op h ->
  let s := run d rs h in
  forall sg sgl w ps k maxd cands,
    trep (files_of s) sg -> lrep (stubs s) sgl -> fits (nb s * bsz) -> fits (saddr (length (stubs s))) -> Forall wf_lru ps ->
    we_page_nodes maxd ps s = ROk cands ->
    exists sg' ans, py_traph_get_webentity_most_linked_pages sg sgl w ps k maxd = Some (sg', ans) /\
      (* every listed entry is a page of the webentity within the depth limit, with the model's reported indegree *)
      (forall lru dg, In (lru, dg) ans -> exists nd, In (lru, nd) cands /\ dg = reported_indegree nd s) /\
      (* a listed page without in-link is listed with indegree 1 *)
      (forall lru dg, In (lru, dg) ans -> (forall nd, In (lru, nd) cands -> inh nd = 0) -> dg = 1) /\
      (* and it is listed (with 1) when the bound does not cut *)
      ((length cands <= N.to_nat k)%nat -> forall lru nd, In (lru, nd) cands -> inh nd = 0 -> In (lru, 1) ans).
Proof.
  intros d rs h Hr Hh s sg sgl w ps k maxd cands Hrep Hlrep Hft Hfl Hwf Hc.
  pose proof (py_traph_most_linked_spec d rs h Hr Hh sg sgl w ps k maxd Hrep Hlrep Hft Hfl Hwf) as H.
  fold s in H. destruct (most_linked_origin ps k maxd s cands Hc) as (ans & E & Ho & Hall).
  rewrite E in H. destruct H as (sg' & E' & _). exists sg', ans. split; [exact E'|].
  split; [exact Ho|]. split.
  - intros lru dg Hin Hz. destruct (Ho lru dg Hin) as (nd & Hnd & ->).
    unfold reported_indegree. rewrite (Hz nd Hnd). reflexivity.
  - intros Hlen lru nd Hin Hz. specialize (Hall Hlen lru nd Hin).
    unfold reported_indegree in Hall. rewrite Hz in Hall. exact Hall.
Qed.

Print Assumptions weighted_at_zero.
Print Assumptions count_spec.
Print Assumptions fold_mirror.
Print Assumptions py_traph_most_linked_spec.
Print Assumptions F7_from_source.

(* ====================================================================================== *)
(* 6. non-vacuity: the translated request run on the bytes of the two files of the state  *)
(*    reached by GenTraphLFacts.exh_l (ex_pa linked from three pages, ex_pl from one,     *)
(*    ex_pxy = ...p:x|p:y| from NOBODY), for the prefixes of webentity 1                   *)
(* ====================================================================================== *)
From Traph Require IdFacts PropsEx.
Import IdFacts PropsEx.

Definition ex_ps_l : list bytes := map fst (filter (fun x => snd x =? 1) (prefix_iter exs_l)).

(* k = 10, no depth limit: everything, in descending (indegree, arrival) order; the page without in-link has 1 *)
Example ex_most_linked_all :
  option_map snd (py_traph_get_webentity_most_linked_pages ex_sgt ex_sgl 1 ex_ps_l 10 None)
    = res_opt (most_linked ex_ps_l 10 None exs_l) /\
  option_map snd (py_traph_get_webentity_most_linked_pages ex_sgt ex_sgl 1 ex_ps_l 10 None)
    = Some [(ex_pa, 3); (ex_pxy, 1); (ex_pl, 1)] /\
  length ex_ps_l = 4%nat.
Proof. vm_compute. repeat split; reflexivity. Qed.

(* k = 2, depth limit 1: ex_pxy (two stems below the prefix) is out of reach *)
Example ex_most_linked_depth :
  option_map snd (py_traph_get_webentity_most_linked_pages ex_sgt ex_sgl 1 ex_ps_l 2 (Some 1))
    = res_opt (most_linked ex_ps_l 2 (Some 1) exs_l) /\
  option_map snd (py_traph_get_webentity_most_linked_pages ex_sgt ex_sgl 1 ex_ps_l 2 (Some 1))
    = Some [(ex_pa, 3); (ex_pl, 1)].
Proof. vm_compute. split; reflexivity. Qed.

(* the bound cuts: k = 1 and k = 2 without depth limit (the later arrival wins among equal degrees); k = 0 *)
Example ex_most_linked_cut :
  option_map snd (py_traph_get_webentity_most_linked_pages ex_sgt ex_sgl 1 ex_ps_l 1 None) = Some [(ex_pa, 3)] /\
  most_linked ex_ps_l 1 None exs_l = ROk [(ex_pa, 3)] /\
  option_map snd (py_traph_get_webentity_most_linked_pages ex_sgt ex_sgl 1 ex_ps_l 2 None) = Some [(ex_pa, 3); (ex_pxy, 1)] /\
  most_linked ex_ps_l 2 None exs_l = ROk [(ex_pa, 3); (ex_pxy, 1)] /\
  option_map snd (py_traph_get_webentity_most_linked_pages ex_sgt ex_sgl 1 ex_ps_l 0 None) = Some [] /\
  most_linked ex_ps_l 0 None exs_l = ROk [].
Proof. vm_compute. repeat split; reflexivity. Qed.

(* a prefix that is not in the trie, whatever its position: TraphException / refusal *)
Example ex_most_linked_absent :
  py_traph_get_webentity_most_linked_pages ex_sgt ex_sgl 1 (ex_ps_l ++ [ex_px ++ [112; 58; 122; 124]]) 10 None = None /\
  most_linked (ex_ps_l ++ [ex_px ++ [112; 58; 122; 124]]) 10 None exs_l = RRefused /\
  py_traph_get_webentity_most_linked_pages ex_sgt ex_sgl 1 ((ex_px ++ [112; 58; 122; 124]) :: ex_ps_l) 10 None = None /\
  most_linked ((ex_px ++ [112; 58; 122; 124]) :: ex_ps_l) 10 None exs_l = RRefused.
Proof. vm_compute. repeat split; reflexivity. Qed.

(* F7 on the example: nobody links to ex_pxy - no link of the specification's state ends there, its in-head is null in the
   model - and the translated code lists it with indegree 1 *)
Example ex_F7 :
  s_indegree ex_pxy (srun Domain [] exh_l) = 0 /\
  option_map inh (find (lru_iter ex_pxy) (tr exs_l)) = Some 0 /\
  option_map (fun r => existsb (fun x => beq (fst x) ex_pxy && (snd x =? 1)) (snd r))
    (py_traph_get_webentity_most_linked_pages ex_sgt ex_sgl 1 ex_ps_l 10 None) = Some true.
Proof. vm_compute. repeat split; reflexivity. Qed.

(* the hypotheses of the theorem are met by that history and the two files, and the theorem then gives the replies above *)
Lemma ex_ps_l_wfb : forallb wf_lrub ex_ps_l = true.
Proof. vm_compute. reflexivity. Qed.
Lemma ex_ps_l_wf : Forall wf_lru ex_ps_l.
Proof.
  apply Forall_forall. intros p Hp. apply wf_lrub_ok.
  exact (proj1 (forallb_forall wf_lrub ex_ps_l) ex_ps_l_wfb p Hp).
Qed.

Example ex_most_linked_by_theorem : exists sg',
  py_traph_get_webentity_most_linked_pages ex_sgt ex_sgl 1 ex_ps_l 10 None
    = Some (sg', [(ex_pa, 3); (ex_pxy, 1); (ex_pl, 1)]) /\
  trep (files_of exs_l) sg' /\ pm_array sg' = pm_array ex_sgt.
Proof.
  assert (H1 : fits (nb exs_l * bsz)) by (vm_compute; reflexivity).
  assert (H2 : fits (saddr (length (stubs exs_l)))) by (vm_compute; reflexivity).
  pose proof (py_traph_most_linked_spec Domain [] exh_l ex_rules_wf exh_l_wf ex_sgt ex_sgl 1 ex_ps_l 10 None
                ex_trep_l ex_lrep_l H1 H2 ex_ps_l_wf) as H.
  replace (most_linked ex_ps_l 10 None (run Domain [] exh_l))
    with (ROk [(ex_pa, 3); (ex_pxy, 1); (ex_pl, 1)]) in H by (vm_compute; reflexivity).
  exact H.
Qed.

Print Assumptions ex_most_linked_all.
Print Assumptions ex_F7.
Print Assumptions ex_most_linked_by_theorem.
