(* SchedFacts12.v — get_webentities_links_iter as a coroutine (netq_step of Sched.v).
   Part 1 (N1): one iteration of its loop (nmicro), and the invariant NInv of the
   coroutine's local variables: the phase-1 stack holds block addresses of nodes of the
   tree; every recorded (block, webentity) names a page and a non-null webentity; every
   recorded (webentity, head) is a valid head of the link store whose chain is a part of
   the current chain of a recorded page of that webentity; every phase-2 item has a
   positive weight.  NInv is established by netq_start, kept by netq_step (any fuel) and
   by the turns of all the other coroutines (growth: sext, lext). *)
From Coq Require Import List NArith Bool Lia Arith Permutation.
Import ListNotations.
From Traph Require Import Bytes Consts Helpers Rules Tst TstDefs Traph Spec Ops RefDefs TstFacts TopkFacts
  ViewFacts ViewFacts2 RefCore RefCore3 LinkFacts LinkFacts2 LinkFacts3 RefFull QueryCore QueryCore3
  Sched SchedFacts SchedFacts2 SchedFacts3 SchedFacts4 SchedFacts5 SchedFacts6 SchedFacts7 SchedFacts8
  SchedFacts11.
Open Scope N_scope.

(* ====================================================================== *)
(* one iteration of the loop of netq_step                                 *)
(* ====================================================================== *)

(* the first lines of the generator: the root goes on the stack *)
Definition nstart (q : nco) (s : traph) : nco :=
  if n_started q then q
  else mkNC (n_out q) (n_auto q) true (nz2 (root_addr (tr s)) 0) [] [] [] [] false [] false.

(* phase 1, the node popped is d, with these three pointers *)
Definition nvisit (q0 : nco) (a w : N) (rest : list (N * N)) (d : nd) (lft rgt chd : N) : nco * bool :=
  let cur := if we d =? 0 then w else we d in
  let pushes := nz2 chd cur ++ nz2 lft w ++ nz2 rgt w in
  if page d && negb (cur =? 0) then
    let h := if n_out q0 then outh d else inh d in
    (mkNC (n_out q0) (n_auto q0) true rest pushes ((a, cur) :: n_p2w q0)
          (n_ptrs q0 ++ (if h =? 0 then [] else [(cur, h)])) [] false
          (gincr (cur, if crawled d then 1 else 2, 0) 1 (n_graph q0)) false, true)
  else (mkNC (n_out q0) (n_auto q0) true (pushes ++ rest) [] (n_p2w q0) (n_ptrs q0) [] false
             (n_graph q0) false, false).

Definition nmicro1 (q0 : nco) (s : traph) : nco * bool :=
  match n_pend q0 ++ n_stack q0 with
  | [] => (mkNC (n_out q0) (n_auto q0) true [] [] (n_p2w q0) (n_ptrs q0) [] true (n_graph q0) false, false)
  | (a, w) :: rest =>
      match read_at a (tr s) with
      | None => (mkNC (n_out q0) (n_auto q0) true rest [] (n_p2w q0) (n_ptrs q0) [] false (n_graph q0) false, false)
      | Some x => nvisit q0 a w rest (rn_d x) (rn_left x) (rn_right x) (rn_child x)
      end
  end.

Definition nmicro2 (q : nco) (s : traph) : nco * bool :=
  match n_items q with
  | (sw, tg, wt) :: rest =>
      let q' g := mkNC (n_out q) (n_auto q) true [] [] (n_p2w q) (n_ptrs q) rest true g false in
      let tw := p2w_get tg (n_p2w q) in
      if tw =? 0 then (q' (n_graph q), false)
      else if negb (n_auto q) && (sw =? tw) then (q' (n_graph q), false)
      else (q' (gincr (sw, 0, tw) wt (n_graph q)), true)
  | [] =>
      match n_ptrs q with
      | [] => (mkNC (n_out q) (n_auto q) true [] [] (n_p2w q) [] [] true (n_graph q) true, true)
      | (sw, h) :: ptrs =>
          (mkNC (n_out q) (n_auto q) true [] [] (n_p2w q) ptrs
                (map (fun x => (sw, fst x, snd x)) (weighted (targets_of (stubs s) h)))
                true (n_graph q) false, false)
      end
  end.

Definition nmicro (q : nco) (s : traph) : nco * bool :=
  if n_phase2 q then nmicro2 q s else nmicro1 (nstart q s) s.

Lemma netq_step_S : forall f q s,
  netq_step (S f) q s = if snd (nmicro q s) then fst (nmicro q s) else netq_step f (fst (nmicro q s)) s.
Proof.
  intros f q s. cbn [netq_step]. unfold nmicro. destruct (n_phase2 q).
  - unfold nmicro2. destruct (n_items q) as [|[[sw tg] wt] rest].
    + destruct (n_ptrs q) as [|[sw h] ptrs]; reflexivity.
    + cbv zeta. destruct (p2w_get tg (n_p2w q) =? 0); [reflexivity|].
      destruct (negb (n_auto q) && (sw =? p2w_get tg (n_p2w q))); reflexivity.
  - cbv zeta. fold (nstart q s). unfold nmicro1.
    destruct (n_pend (nstart q s) ++ n_stack (nstart q s)) as [|[a w] rest]; [reflexivity|].
    destruct (read_at a (tr s)) as [x|]; [|reflexivity].
    unfold nvisit. cbv zeta.
    destruct (page (rn_d x) && negb ((if we (rn_d x) =? 0 then w else we (rn_d x)) =? 0)); reflexivity.
Qed.

(* whatever one iteration keeps, a turn keeps *)
Lemma netq_step_keeps : forall (I : nco -> Prop) s, (forall q, I q -> I (fst (nmicro q s))) ->
  forall fuel q, I q -> I (netq_step fuel q s).
Proof.
  intros I s H. induction fuel as [|f IH]; intros q Hq; [exact Hq|].
  rewrite netq_step_S. destruct (snd (nmicro q s)); [apply H; exact Hq|]. apply IH. apply H. exact Hq.
Qed.

Lemma co_step_netq : forall q s, exists fuel,
  co_step (CNet q) s = (CNet (if n_done q then q else netq_step fuel q s), s).
Proof.
  intros q s. unfold co_step. cbn [co_done]. destruct (n_done q); [exists 0%nat; reflexivity|].
  eexists. reflexivity.
Qed.

Lemma nmicro_out : forall q s, n_out (fst (nmicro q s)) = n_out q /\ n_auto (fst (nmicro q s)) = n_auto q.
Proof.
  intros q s. unfold nmicro. destruct (n_phase2 q).
  - unfold nmicro2. destruct (n_items q) as [|[[sw tg] wt] rest].
    + destruct (n_ptrs q) as [|[sw h] ptrs]; cbn; auto.
    + cbv zeta. destruct (p2w_get tg (n_p2w q) =? 0); [cbn; auto|].
      destruct (negb (n_auto q) && (sw =? p2w_get tg (n_p2w q))); cbn; auto.
  - assert (E : n_out (nstart q s) = n_out q /\ n_auto (nstart q s) = n_auto q)
      by (unfold nstart; destruct (n_started q); cbn; auto).
    destruct E as (<- & <-). generalize (nstart q s). intro q0. unfold nmicro1.
    destruct (n_pend q0 ++ n_stack q0) as [|[a w] rest]; [cbn; auto|].
    destruct (read_at a (tr s)) as [x|]; [|cbn; auto].
    unfold nvisit. cbv zeta.
    destruct (page (rn_d x) && negb ((if we (rn_d x) =? 0 then w else we (rn_d x)) =? 0)); cbn; auto.
Qed.

(* ====================================================================== *)
(* the counters of a graph only grow                                      *)
(* ====================================================================== *)

Lemma gincr_new : forall k w g, 0 < w -> exists v, In (k, v) (gincr k w g) /\ 0 < v.
Proof.
  intros [[a b] c] w g Hw. induction g as [|[[[a' b'] c'] v'] g IH]; cbn [gincr].
  - exists w. split; [left; reflexivity|exact Hw].
  - destruct ((a =? a') && (b =? b') && (c =? c')) eqn:E.
    + apply andb_prop in E. destruct E as (E & Ec). apply andb_prop in E. destruct E as (Ea & Eb).
      apply N.eqb_eq in Ea, Eb, Ec. subst. exists (v' + w). split; [left; reflexivity|lia].
    + destruct IH as (v & Hv & Hp). exists v. split; [right; exact Hv|exact Hp].
Qed.

Lemma gincr_keep : forall k0 v0 k w g, In (k0, v0) g -> 0 < v0 -> exists v, In (k0, v) (gincr k w g) /\ 0 < v.
Proof.
  intros k0 v0 [[a b] c] w g. induction g as [|[[[a' b'] c'] v'] g IH]; intros Hin Hp; [destruct Hin|].
  cbn [gincr]. destruct Hin as [Hin|Hin].
  - injection Hin as <- <-. destruct ((a =? a') && (b =? b') && (c =? c')).
    + exists (v' + w). split; [left; reflexivity|lia].
    + exists v'. split; [left; reflexivity|exact Hp].
  - destruct (IH Hin Hp) as (v & Hv & Hpv).
    destruct ((a =? a') && (b =? b') && (c =? c')).
    + exists v0. split; [right; exact Hin|exact Hp].
    + exists v. split; [right; exact Hv|exact Hpv].
Qed.

Lemma weighted_pos : forall l x, In x l -> exists wt, In (x, wt) (weighted l) /\ 0 < wt.
Proof.
  intros l x Hin. exists (N.of_nat (count_occ N.eq_dec l x)). split; [apply weighted_count_in; exact Hin|].
  apply (count_occ_In N.eq_dec) in Hin. lia.
Qed.

Lemma weighted_all_pos : forall l x wt, In (x, wt) (weighted l) -> 0 < wt.
Proof.
  intros l x wt Hin. pose proof (weighted_count l x wt Hin) as E.
  assert (Hx : In x l) by (apply weighted_in; exists wt; exact Hin).
  apply (count_occ_In N.eq_dec) in Hx. lia.
Qed.

(* ====================================================================== *)
(* stack entries                                                          *)
(* ====================================================================== *)

(* the block of the entry is the block of a node of the tree, and the inherited
   webentity satisfies P at the sibling-prefix of that node *)
Definition nentP (P : list bytes -> N -> Prop) (t : tst) (e : N * N) : Prop :=
  exists pp d l c r, In (pp, Nd d l c r) (locs [] t) /\ addr d = fst e /\ P pp (snd e).

Definition SI (P : list bytes -> N -> Prop) (q : nco) (s : traph) : Prop :=
  Forall (nentP P (tr s)) (n_pend q ++ n_stack q).

Lemma nentP_ext : forall (P : list bytes -> N -> Prop) t t' e, text t t' -> nentP P t e -> nentP P t' e.
Proof.
  intros P t t' e Hx (pp & d & l & c & r & Hin & Ha & HP).
  destruct (text_locs t t' Hx [] pp _ Hin) as (sub' & Hin' & Hxs).
  inversion Hxs as [|? d' ? l' ? c' ? r' Hd Hl Hc Hr]; subst.
  exists pp, d', l', c', r'. split; [exact Hin'|]. split; [|exact HP].
  destruct Hd as (_ & E & _). congruence.
Qed.

Lemma SI_ext : forall (P : list bytes -> N -> Prop) q s s', sext s s' -> SI P q s -> SI P q s'.
Proof.
  intros P q s s' Hx H. unfold SI in *. apply Forall_forall. intros e He. rewrite Forall_forall in H.
  apply (nentP_ext P _ _ e Hx (H e He)).
Qed.

Lemma nz2_ent : forall (P : list bytes -> N -> Prop) t pp sub w, incl (locs pp sub) (locs [] t) -> P pp w ->
  Forall (nentP P t) (nz2 (root_addr sub) w).
Proof.
  intros P t pp sub w Hi HP. unfold nz2. destruct sub as [|d l c r]; cbn [root_addr].
  - constructor.
  - destruct (addr d =? 0); constructor; [|constructor].
    exists pp, d, l, c, r. split; [apply Hi; apply locs_self|]. split; [reflexivity|exact HP].
Qed.

Lemma nstart_started : forall q s, n_started (nstart q s) = true.
Proof. intros q s. unfold nstart. destruct (n_started q) eqn:E; [exact E|reflexivity]. Qed.

Lemma nstart_phase2 : forall q s, n_phase2 q = false -> n_phase2 (nstart q s) = false.
Proof. intros q s H. unfold nstart. destruct (n_started q); [exact H|reflexivity]. Qed.

Lemma nstart_id : forall q s, n_started q = true -> nstart q s = q.
Proof. intros q s H. unfold nstart. rewrite H. reflexivity. Qed.

Lemma nstart_SI : forall (P : list bytes -> N -> Prop) q s, P [] 0 -> SI P q s -> SI P (nstart q s) s.
Proof.
  intros P q s H0 H. unfold nstart. destruct (n_started q); [exact H|].
  unfold SI. cbn [n_pend n_stack app]. apply (nz2_ent P (tr s) [] (tr s) 0); [apply incl_refl|exact H0].
Qed.

(* reading the block of a located node *)
Lemma nmicro1_located : forall s q0 a w rest pp d l c r, wf_tst (tr s) -> addr_ok (tr s) (nb s) ->
  n_pend q0 ++ n_stack q0 = (a, w) :: rest -> In (pp, Nd d l c r) (locs [] (tr s)) -> addr d = a ->
  nmicro1 q0 s = nvisit q0 a w rest d (root_addr l) (root_addr r) (root_addr c).
Proof.
  intros s q0 a w rest pp d l c r Hwf Hok Est Hin Ha. unfold nmicro1. rewrite Est.
  destruct (read_at a (tr s)) as [x|] eqn:Er; [|exfalso; apply (read_at_none _ _ _ _ _ _ _ _ Er Hin Ha)].
  destruct (read_at_located (tr s) (nb s) a pp d l c r x Hwf Hok Hin Ha Er) as (-> & -> & -> & ->). reflexivity.
Qed.

(* the stack after the visit of a located node *)
Lemma nvisit_SI : forall (P : list bytes -> N -> Prop) s q0 a w rest pp d l c r,
  (forall pp d w, find (pp ++ [stem d]) (tr s) = Some d -> P pp w ->
                  P (pp ++ [stem d]) (if we d =? 0 then w else we d)) ->
  wf_tst (tr s) -> In (pp, Nd d l c r) (locs [] (tr s)) -> P pp w -> Forall (nentP P (tr s)) rest ->
  SI P (fst (nvisit q0 a w rest d (root_addr l) (root_addr r) (root_addr c))) s.
Proof.
  intros P s q0 a w rest pp d l c r Hstep Hwf Hin HP Hrest.
  destruct (locs_children _ _ _ _ _ _ _ Hin) as (Ic & Il & Ir).
  pose proof (locs_find_root _ _ _ _ _ _ Hwf Hin) as Hfd.
  assert (Hpush : Forall (nentP P (tr s))
            (nz2 (root_addr c) (if we d =? 0 then w else we d) ++ nz2 (root_addr l) w ++ nz2 (root_addr r) w)).
  { apply Forall_app. split; [apply (nz2_ent P _ (pp ++ [stem d]) c _ Ic); apply (Hstep pp d w Hfd HP)|].
    apply Forall_app. split; [apply (nz2_ent P _ pp l _ Il HP)|apply (nz2_ent P _ pp r _ Ir HP)]. }
  unfold nvisit. cbv zeta.
  destruct (page d && negb ((if we d =? 0 then w else we d) =? 0)); unfold SI; cbn [fst n_pend n_stack app].
  - apply Forall_app. auto.
  - apply Forall_app. auto.
Qed.

Lemma nmicro1_SI : forall (P : list bytes -> N -> Prop) s q0,
  (forall pp d w, find (pp ++ [stem d]) (tr s) = Some d -> P pp w ->
                  P (pp ++ [stem d]) (if we d =? 0 then w else we d)) ->
  wf_tst (tr s) -> addr_ok (tr s) (nb s) -> SI P q0 s -> SI P (fst (nmicro1 q0 s)) s.
Proof.
  intros P s q0 Hstep Hwf Hok H. unfold SI in H.
  destruct (n_pend q0 ++ n_stack q0) as [|[a w] rest] eqn:Est.
  - unfold nmicro1. rewrite Est. unfold SI. cbn. constructor.
  - pose proof (Forall_inv H) as (pp & d & l & c & r & Hin & Ha & HP). cbn [fst snd] in Ha, HP.
    rewrite (nmicro1_located s q0 a w rest pp d l c r Hwf Hok Est Hin Ha).
    apply (nvisit_SI P s q0 a w rest pp d l c r Hstep Hwf Hin HP (Forall_inv_tail H)).
Qed.

Lemma nmicro2_SI : forall (P : list bytes -> N -> Prop) s q, SI P (fst (nmicro2 q s)) s.
Proof.
  intros P s q. unfold nmicro2, SI. destruct (n_items q) as [|[[sw tg] wt] rest].
  - destruct (n_ptrs q) as [|[sw h] ptrs]; cbn; constructor.
  - cbv zeta. destruct (p2w_get tg (n_p2w q) =? 0); [cbn; constructor|].
    destruct (negb (n_auto q) && (sw =? p2w_get tg (n_p2w q))); cbn; constructor.
Qed.

(* ====================================================================== *)
(* N1. the invariant of the local variables                               *)
(* ====================================================================== *)

Definition ptrue (pp : list bytes) (w : N) : Prop := True.

Record NInv (q : nco) (s : traph) : Prop := mkNInv {
  NI_fresh : n_started q = false ->
    n_pend q = [] /\ n_stack q = [] /\ n_p2w q = [] /\ n_ptrs q = [] /\ n_items q = [] /\
    n_phase2 q = false /\ n_done q = false;
  NI_ph1 : n_phase2 q = false -> n_items q = [] /\ n_done q = false;
  NI_done : n_done q = true -> n_phase2 q = true /\ n_items q = [] /\ n_ptrs q = [];
  (* the stack holds blocks of nodes *)
  NI_stack : SI ptrue q s;
  (* a recorded block is the block of a page, with a non-null webentity *)
  NI_p2w : forall a w, In (a, w) (n_p2w q) ->
    w <> 0 /\ exists p d, find p (tr s) = Some d /\ addr d = a /\ page d = true;
  (* a recorded head is a valid head; its chain is a part of the current chain of a
     recorded page of that webentity *)
  NI_ptrs : forall sw h, In (sw, h) (n_ptrs q) ->
    h <> 0 /\ head_ok (length (stubs s)) h /\
    exists a p d, In (a, sw) (n_p2w q) /\ find p (tr s) = Some d /\ addr d = a /\
                  incl (targets_of (stubs s) h) (targets_of (stubs s) (head_dir (n_out q) d));
  (* an item still to process: positive weight, source webentity of a recorded page *)
  NI_items : forall sw tg wt, In (sw, tg, wt) (n_items q) -> 0 < wt /\ exists a, In (a, sw) (n_p2w q)
}.

Lemma NInv_start : forall out auto s, NInv (netq_start out auto) s.
Proof.
  intros out auto s. constructor; cbn [netq_start n_started n_pend n_stack n_p2w n_ptrs n_items n_phase2 n_done].
  - intros _. repeat split; reflexivity.
  - intros _. split; reflexivity.
  - intro E. discriminate.
  - unfold SI. cbn. constructor.
  - intros a w [].
  - intros sw h [].
  - intros sw tg wt [].
Qed.

Lemma nstart_NInv : forall q s, NInv q s -> NInv (nstart q s) s.
Proof.
  intros q s H. pose proof (nstart_SI ptrue q s I (NI_stack q s H)) as HS.
  unfold nstart in *. destruct (n_started q) eqn:E; [exact H|].
  constructor; cbn [n_started n_pend n_stack n_p2w n_ptrs n_items n_phase2 n_done n_out].
  - intro E'. discriminate.
  - intros _. split; reflexivity.
  - intro E'. discriminate.
  - exact HS.
  - intros a w [].
  - intros sw h [].
  - intros sw tg wt [].
Qed.

Lemma nmicro1_NInv : forall q s, wf_tst (tr s) -> addr_ok (tr s) (nb s) -> Rbase s ->
  n_started q = true -> n_phase2 q = false -> NInv q s -> NInv (fst (nmicro1 q s)) s.
Proof.
  intros q s Hwf Hok HB Hst Hp2 H.
  pose proof (nmicro1_SI ptrue s q (fun _ _ _ _ _ => I) Hwf Hok (NI_stack q s H)) as HS.
  pose proof (NI_stack q s H) as Hstk. unfold SI in Hstk.
  destruct (NI_ph1 q s H Hp2) as (Eit & Edn).
  destruct (n_pend q ++ n_stack q) as [|[a w] rest] eqn:Est.
  - (* phase 1 is over *)
    unfold nmicro1 in *. rewrite Est in *. cbn [fst] in *.
    constructor; cbn [n_started n_pend n_stack n_p2w n_ptrs n_items n_phase2 n_done n_out].
    + intro E'. discriminate.
    + intro E'. discriminate.
    + intro E'. discriminate.
    + exact HS.
    + apply (NI_p2w q s H).
    + apply (NI_ptrs q s H).
    + intros sw tg wt [].
  - pose proof (Forall_inv Hstk) as (pp & d & l & c & r & Hin & Ha & _). cbn [fst] in Ha.
    rewrite (nmicro1_located s q a w rest pp d l c r Hwf Hok Est Hin Ha) in *.
    pose proof (locs_find_root _ _ _ _ _ _ Hwf Hin) as Hfd.
    unfold nvisit in *. cbv zeta in *.
    set (cur := if we d =? 0 then w else we d) in *.
    destruct (page d && negb (cur =? 0)) eqn:Ey; cbn [fst] in *.
    + (* a page with a webentity: recorded *)
      apply andb_prop in Ey. destruct Ey as (Hpg & Hcur). apply negb_true_iff, N.eqb_neq in Hcur.
      constructor; cbn [n_started n_pend n_stack n_p2w n_ptrs n_items n_phase2 n_done n_out].
      * intro E'. discriminate.
      * intros _. split; reflexivity.
      * intro E'. discriminate.
      * exact HS.
      * intros a' w' [E|Hin'].
        -- injection E as <- <-. split; [exact Hcur|]. exists (pp ++ [stem d]), d. auto.
        -- apply (NI_p2w q s H a' w' Hin').
      * intros sw h Hin'. apply in_app_or in Hin'. destruct Hin' as [Hin'|Hin'].
        -- destruct (NI_ptrs q s H sw h Hin') as (H1 & H2 & a' & p' & d' & H3 & H4).
           split; [exact H1|]. split; [exact H2|]. exists a', p', d'. split; [right; exact H3|exact H4].
        -- fold (head_dir (n_out q) d) in Hin'.
           destruct (head_dir (n_out q) d =? 0) eqn:Eh; [destruct Hin'|]. destruct Hin' as [E|[]].
           injection E as <- <-. apply N.eqb_neq in Eh. split; [exact Eh|].
           split; [apply (head_dir_ok s HB (n_out q) _ d Hfd)|].
           exists a, (pp ++ [stem d]), d. split; [left; reflexivity|]. split; [exact Hfd|]. split; [exact Ha|apply incl_refl].
      * intros sw tg wt [].
    + constructor; cbn [n_started n_pend n_stack n_p2w n_ptrs n_items n_phase2 n_done n_out].
      * intro E'. discriminate.
      * intros _. split; reflexivity.
      * intro E'. discriminate.
      * exact HS.
      * apply (NI_p2w q s H).
      * apply (NI_ptrs q s H).
      * intros sw tg wt [].
Qed.

Lemma nmicro2_NInv : forall q s, n_phase2 q = true -> NInv q s -> NInv (fst (nmicro2 q s)) s.
Proof.
  intros q s Hp2 H. pose proof (nmicro2_SI ptrue s q) as HS. unfold nmicro2 in *.
  destruct (n_items q) as [|[[sw tg] wt] rest] eqn:Eit.
  - destruct (n_ptrs q) as [|[sw h] ptrs] eqn:Ept; cbn [fst] in *.
    + constructor; cbn [n_started n_pend n_stack n_p2w n_ptrs n_items n_phase2 n_done n_out].
      * intro E'. discriminate.
      * intro E'. discriminate.
      * intros _. repeat split; reflexivity.
      * exact HS.
      * apply (NI_p2w q s H).
      * intros sw h [].
      * intros sw tg wt [].
    + destruct (NI_ptrs q s H sw h) as (_ & _ & a0 & _ & _ & Ha0 & _); [rewrite Ept; left; reflexivity|].
      constructor; cbn [n_started n_pend n_stack n_p2w n_ptrs n_items n_phase2 n_done n_out].
      * intro E'. discriminate.
      * intro E'. discriminate.
      * intro E'. discriminate.
      * exact HS.
      * apply (NI_p2w q s H).
      * intros sw' h' Hin'. apply (NI_ptrs q s H sw' h'). rewrite Ept. right. exact Hin'.
      * intros sw' tg wt Hin'. apply in_map_iff in Hin'. destruct Hin' as ([x y] & E & Hx).
        cbn [fst snd] in E. injection E as <- <- <-. split; [apply (weighted_all_pos _ _ _ Hx)|exists a0; exact Ha0].
  - assert (Hq' : forall g, NInv (mkNC (n_out q) (n_auto q) true [] [] (n_p2w q) (n_ptrs q) rest true g false) s).
    { intro g. constructor; cbn [n_started n_pend n_stack n_p2w n_ptrs n_items n_phase2 n_done n_out].
      - intro E'. discriminate.
      - intro E'. discriminate.
      - intro E'. discriminate.
      - unfold SI. cbn. constructor.
      - apply (NI_p2w q s H).
      - apply (NI_ptrs q s H).
      - intros sw' tg' wt' Hin'. apply (NI_items q s H sw' tg' wt'). rewrite Eit. right. exact Hin'. }
    cbv zeta. destruct (p2w_get tg (n_p2w q) =? 0); [apply Hq'|].
    destruct (negb (n_auto q) && (sw =? p2w_get tg (n_p2w q))); apply Hq'.
Qed.

Lemma nmicro_NInv : forall q s, wf_tst (tr s) -> addr_ok (tr s) (nb s) -> Rbase s ->
  NInv q s -> NInv (fst (nmicro q s)) s.
Proof.
  intros q s Hwf Hok HB H. unfold nmicro. destruct (n_phase2 q) eqn:Hp2; [apply nmicro2_NInv; assumption|].
  apply (nmicro1_NInv _ s Hwf Hok HB (nstart_started q s) (nstart_phase2 q s Hp2) (nstart_NInv q s H)).
Qed.

(* N1, a turn of the query *)
Theorem NInv_step : forall s, wf_tst (tr s) -> addr_ok (tr s) (nb s) -> Rbase s ->
  forall fuel q, NInv q s -> NInv (netq_step fuel q s) s.
Proof.
  intros s Hwf Hok HB. apply (netq_step_keeps (fun q => NInv q s)). intros q. apply nmicro_NInv; assumption.
Qed.

(* N1, a turn of another coroutine *)
Theorem NInv_ext : forall q s s', sext s s' -> lext s s' -> stubs_ok (stubs s) -> NInv q s -> NInv q s'.
Proof.
  intros q s s' Hx Hl Hst [H1 H2 H3 H4 H5 H6 H7]. constructor; try assumption.
  - apply (SI_ext _ _ _ _ Hx H4).
  - intros a w Hin. destruct (H5 a w Hin) as (Hw & p & d & Hf & Ha & Hp). split; [exact Hw|].
    destruct (text_find p _ _ Hx d Hf) as (d' & Hf' & _ & Ea & Hpg & _).
    exists p, d'. split; [exact Hf'|]. split; [congruence|auto].
  - intros sw h Hin. destruct (H6 sw h Hin) as (Hh & Hok & a & p & d & Hin' & Hf & Ha & Hi).
    destruct (lext_old_head s s' h Hl Hst Hok) as (Et & Hok').
    split; [exact Hh|]. split; [exact Hok'|].
    destruct (text_find p _ _ Hx d Hf) as (d' & Hf' & _ & Ea & _).
    destruct (proj2 Hl p d Hf) as (d2 & Hf2 & Hch). rewrite Hf' in Hf2. injection Hf2 as <-.
    exists a, p, d'. split; [exact Hin'|]. split; [exact Hf'|]. split; [congruence|].
    intros x Hx'. rewrite Et in Hx'. apply Hch. apply Hi. exact Hx'.
Qed.

(* ====================================================================== *)
(* Part 2 (N2).  A target page and its webentity                          *)
(* ====================================================================== *)

Lemma under_refl : forall p : list bytes, under p p.
Proof. intro p. exists []. rewrite app_nil_r. reflexivity. Qed.

Lemma under_snoc_inv : forall (C pp : list bytes) x, under C (pp ++ [x]) -> C <> pp ++ [x] -> under C pp.
Proof.
  intros C pp x (r & E) Hne. destruct (exists_last (l := r)) as (r' & z & ->).
  - intros ->. rewrite app_nil_r in E. congruence.
  - rewrite app_assoc in E. apply app_inj_tail in E. destruct E as (-> & _). exists r'. reflexivity.
Qed.

Lemma under_app_l : forall (pp : list bytes) x T, under (pp ++ [x]) T -> under pp T.
Proof. intros pp x T (r & ->). exists ([x] ++ r). rewrite app_assoc. reflexivity. Qed.

(* the page T (a list of stems) has block aT; the node CT on its path carries the
   webentity B and no node strictly below CT on the way to T (T included) carries one:
   the uninterrupted walk resolves T to B *)
Definition ntgt (T CT : list bytes) (B aT : N) (s : traph) : Prop :=
  under CT T /\
  (exists dT, find T (tr s) = Some dT /\ page dT = true /\ addr dT = aT) /\
  (exists dC, find CT (tr s) = Some dC /\ we dC = B) /\
  (forall p' d', under CT p' -> p' <> CT -> under p' T -> find p' (tr s) = Some d' -> we d' = 0).

(* what the inherited webentity of an entry at sibling-prefix pp must be *)
Definition Pt (T CT : list bytes) (B : N) (pp : list bytes) (w : N) : Prop :=
  under CT pp -> under pp T -> w = B.

Lemma ntgt_ne : forall T CT B aT s, ntgt T CT B aT s -> CT <> [].
Proof. intros T CT B aT s (_ & _ & (dC & Hf & _) & _) ->. rewrite find_nil in Hf. discriminate. Qed.

Lemma Pt_root : forall T CT B, CT <> [] -> Pt T CT B [] 0.
Proof.
  intros T CT B Hne (r & E) _. symmetry in E. apply app_eq_nil in E. destruct E as (E & _). contradiction.
Qed.

Lemma Pt_step : forall T CT B aT s, ntgt T CT B aT s -> B <> 0 ->
  forall pp d w, find (pp ++ [stem d]) (tr s) = Some d -> Pt T CT B pp w ->
    Pt T CT B (pp ++ [stem d]) (if we d =? 0 then w else we d).
Proof.
  intros T CT B aT s (Hu & _ & (dC & HfC & HwC) & Hbetween) HB pp d w Hfd HP Hu1 Hu2.
  destruct (list_eq_dec (list_eq_dec N.eq_dec) CT (pp ++ [stem d])) as [E|E].
  - rewrite E, Hfd in HfC. injection HfC as <-. rewrite HwC.
    apply N.eqb_neq in HB. rewrite HB. reflexivity.
  - assert (Hw0 : we d = 0) by (apply (Hbetween (pp ++ [stem d]) d Hu1 (fun X => E (eq_sym X)) Hu2 Hfd)).
    rewrite Hw0. cbn. apply HP; [apply (under_snoc_inv _ _ _ Hu1 E)|apply (under_app_l _ _ _ Hu2)].
Qed.

(* the webentity with which the walk leaves a node on the path of T below CT *)
Lemma Pt_visit : forall T CT B aT s, ntgt T CT B aT s -> B <> 0 ->
  forall pp d w, find (pp ++ [stem d]) (tr s) = Some d -> Pt T CT B pp w -> pp ++ [stem d] = T ->
    (if we d =? 0 then w else we d) = B.
Proof.
  intros T CT B aT s Ht HB pp d w Hfd HP ET.
  apply (Pt_step T CT B aT s Ht HB pp d w Hfd HP); rewrite ET; [apply Ht|apply under_refl].
Qed.

(* the subtree hanging from the block of the entry contains the rest of the path *)
Definition ncov (t : tst) (T : list bytes) (e : N * N) : Prop :=
  exists pp sub rst, In (pp, sub) (locs [] t) /\ root_addr sub = fst e /\ T = pp ++ rst /\ find rst sub <> None.

Lemma ncov_ext : forall t t' T e, text t t' -> ncov t T e -> ncov t' T e.
Proof.
  intros t t' T e Hx (pp & sub & rst & Hin & Hra & ET & Hf).
  destruct (text_locs t t' Hx [] pp sub Hin) as (sub' & Hin' & Hxs).
  exists pp, sub', rst. split; [exact Hin'|]. split; [|split; [exact ET|]].
  - rewrite <- Hra. apply (text_root_addr _ _ Hxs). intros ->. rewrite find_Lf in Hf. congruence.
  - destruct (find rst sub) as [d|] eqn:E; [|congruence].
    destruct (text_find rst sub sub' Hxs d E) as (d' & -> & _). discriminate.
Qed.

Lemma ncov_push : forall t nbk T pp sub rst w, wf_tst t -> addr_ok t nbk ->
  incl (locs pp sub) (locs [] t) -> T = pp ++ rst -> find rst sub <> None ->
  Exists (ncov t T) (nz2 (root_addr sub) w).
Proof.
  intros t nbk T pp sub rst w Hwf Hok Hi ET Hf.
  destruct sub as [|d l c r]; [rewrite find_Lf in Hf; congruence|].
  assert (Hin : In (pp, Nd d l c r) (locs [] t)) by (apply Hi; apply locs_self).
  pose proof (locs_find_root _ _ _ _ _ _ Hwf Hin) as Hfd.
  destruct (proj1 Hok _ _ Hfd) as (k & Ek & Hk & _).
  assert (Hnz : addr d <> 0).
  { rewrite Ek. pose proof SchedFacts8.bsz_pos. intro E. apply N.eq_mul_0 in E. lia. }
  unfold nz2. cbn [root_addr]. apply N.eqb_neq in Hnz. rewrite Hnz. constructor.
  exists pp, (Nd d l c r), rst. cbn [fst root_addr]. auto.
Qed.

(* what the walk knows about the target *)
Record TG (T CT : list bytes) (B aT : N) (q : nco) (s : traph) : Prop := mkTG {
  (* an entry above the target, below CT, inherits B *)
  TG_stack : SI (Pt T CT B) q s;
  (* the block of the target is only ever recorded with B *)
  TG_val : forall w, In (aT, w) (n_p2w q) -> w = B;
  (* the target is still to come, or covered by an entry, or recorded *)
  TG_cov : n_started q = false \/
           (n_phase2 q = false /\ Exists (ncov (tr s) T) (n_pend q ++ n_stack q)) \/
           In (aT, B) (n_p2w q)
}.

Lemma TG_init : forall T CT B aT out auto s, TG T CT B aT (netq_start out auto) s.
Proof.
  intros. constructor; cbn [netq_start n_started n_pend n_stack n_p2w n_phase2].
  - unfold SI. cbn. constructor.
  - intros w [].
  - left. reflexivity.
Qed.

Lemma TG_ext : forall T CT B aT q s s', sext s s' -> TG T CT B aT q s -> TG T CT B aT q s'.
Proof.
  intros T CT B aT q s s' Hx [H1 H2 H3]. constructor; [apply (SI_ext _ _ _ _ Hx H1)|exact H2|].
  destruct H3 as [H3|[(H3 & H4)|H3]]; [left; exact H3| |right; right; exact H3].
  right. left. split; [exact H3|]. apply Exists_exists in H4. destruct H4 as (e & He & Hc).
  apply Exists_exists. exists e. split; [exact He|apply (ncov_ext _ _ _ _ Hx Hc)].
Qed.

Lemma nstart_TG : forall T CT B aT q s, wf_tst (tr s) -> addr_ok (tr s) (nb s) -> ntgt T CT B aT s ->
  TG T CT B aT q s -> TG T CT B aT (nstart q s) s.
Proof.
  intros T CT B aT q s Hwf Hok Ht H.
  pose proof (nstart_SI (Pt T CT B) q s (Pt_root T CT B (ntgt_ne _ _ _ _ _ Ht)) (TG_stack _ _ _ _ _ _ H)) as HS.
  unfold nstart in *. destruct (n_started q) eqn:E; [exact H|].
  constructor; cbn [n_started n_pend n_stack n_p2w n_phase2 app].
  - exact HS.
  - intros w [].
  - right. left. split; [reflexivity|].
    destruct Ht as (_ & (dT & HfT & _) & _).
    apply (ncov_push (tr s) (nb s) T [] (tr s) T 0 Hwf Hok (incl_refl _) eq_refl). rewrite HfT. discriminate.
Qed.

Lemma nmicro2_TG : forall T CT B aT q s, n_started q = true -> n_phase2 q = true ->
  TG T CT B aT q s -> TG T CT B aT (fst (nmicro2 q s)) s.
Proof.
  intros T CT B aT q s Hst Hp2 [H1 H2 H3].
  assert (H3' : In (aT, B) (n_p2w q)) by (destruct H3 as [H3|[(H3 & _)|H3]]; [congruence|congruence|exact H3]).
  assert (Hk : forall q', n_p2w q' = n_p2w q -> n_pend q' ++ n_stack q' = [] -> TG T CT B aT q' s).
  { intros q' E1 E2. constructor; [unfold SI; rewrite E2; constructor|rewrite E1; exact H2|rewrite E1; auto]. }
  unfold nmicro2. destruct (n_items q) as [|[[sw tg] wt] rest].
  - destruct (n_ptrs q) as [|[sw h] ptrs]; apply Hk; reflexivity.
  - cbv zeta. destruct (p2w_get tg (n_p2w q) =? 0); [apply Hk; reflexivity|].
    destruct (negb (n_auto q) && (sw =? p2w_get tg (n_p2w q))); apply Hk; reflexivity.
Qed.

Lemma nmicro1_TG : forall T CT B aT q s, wf_tst (tr s) -> addr_ok (tr s) (nb s) -> ntgt T CT B aT s -> B <> 0 ->
  n_started q = true -> TG T CT B aT q s -> TG T CT B aT (fst (nmicro1 q s)) s.
Proof.
  intros T CT B aT q s Hwf Hok Ht HB Hst [HS Hv Hc].
  pose proof (nmicro1_SI (Pt T CT B) s q (Pt_step T CT B aT s Ht HB) Hwf Hok HS) as HS'.
  pose proof Ht as (HuT & (dT & HfT & HpT & HaT) & _).
  unfold SI in HS.
  destruct (n_pend q ++ n_stack q) as [|[a w] rest] eqn:Est.
  - (* phase 1 is over *)
    unfold nmicro1 in *. rewrite Est in *. cbn [fst] in *.
    constructor; cbn [n_started n_pend n_stack n_p2w n_phase2]; [exact HS'|exact Hv|].
    destruct Hc as [Hc|[(_ & Hc)|Hc]]; [congruence|inversion Hc|right; right; exact Hc].
  - pose proof (Forall_inv HS) as (pp & d & l & c & r & Hin & Ha & HP). cbn [fst snd] in Ha, HP.
    rewrite (nmicro1_located s q a w rest pp d l c r Hwf Hok Est Hin Ha) in *.
    pose proof (locs_find_root _ _ _ _ _ _ Hwf Hin) as Hfd.
    pose proof (Pt_visit T CT B aT s Ht HB pp d w Hfd HP) as Hvis.
    destruct (locs_children _ _ _ _ _ _ _ Hin) as (Ic & Il & Ir).
    (* the node is the target iff its block is aT *)
    assert (Hblk : a = aT -> pp ++ [stem d] = T).
    { intro E. apply (proj2 Hok _ _ d dT Hfd HfT). congruence. }
    unfold nvisit in *. cbv zeta in *.
    set (cur := if we d =? 0 then w else we d) in *.
    set (pushes := nz2 (root_addr c) cur ++ nz2 (root_addr l) w ++ nz2 (root_addr r) w) in *.
    (* coverage after the visit, whichever branch *)
    assert (Hcov : Exists (ncov (tr s) T) ((a, w) :: rest) ->
                   (page d && negb (cur =? 0) = true /\ a = aT /\ cur = B) \/
                   Exists (ncov (tr s) T) (pushes ++ rest)).
    { intro Hex. apply Exists_cons in Hex. destruct Hex as [Hex|Hex]; [|right; apply Exists_app; right; exact Hex].
      destruct Hex as (pp' & sub' & rst & Hin' & Hra & ET & Hfr). cbn [fst] in Hra.
      destruct sub' as [|d' l' c' r']; [rewrite find_Lf in Hfr; congruence|]. cbn [root_addr] in Hra.
      pose proof (locs_find_root _ _ _ _ _ _ Hwf Hin') as Hfd'.
      assert (Epp : pp' ++ [stem d'] = pp ++ [stem d]) by (apply (proj2 Hok _ _ d' d Hfd' Hfd); congruence).
      pose proof (locs_unique (tr s) _ _ _ _ _ _ _ _ _ _ Hwf Hin' Hin Epp) as Eq.
      injection Eq as -> -> -> -> ->.
      destruct rst as [|x' rst']; [rewrite find_nil in Hfr; congruence|].
      rewrite find_Nd in Hfr. destruct (lex x' (stem d)) eqn:Elex.
      - apply lex_eq in Elex. subst x'. destruct rst' as [|y rst''].
        + (* the node is the target *)
          left. assert (ET' : pp ++ [stem d] = T) by (symmetry; exact ET).
          rewrite <- ET', Hfd in HfT. injection HfT as <-.
          pose proof (Hvis ET') as Ecur. fold cur in Ecur.
          split; [|split; [congruence|exact Ecur]].
          rewrite HpT, Ecur. apply N.eqb_neq in HB. rewrite HB. reflexivity.
        + right. apply Exists_app. left. unfold pushes. apply Exists_app. left.
          apply (ncov_push (tr s) (nb s) T (pp ++ [stem d]) c (y :: rst'') cur Hwf Hok Ic); [|exact Hfr].
          rewrite ET, <- app_assoc. reflexivity.
      - right. apply Exists_app. left. unfold pushes. apply Exists_app. right. apply Exists_app. left.
        apply (ncov_push (tr s) (nb s) T pp l (x' :: rst') w Hwf Hok Il ET Hfr).
      - right. apply Exists_app. left. unfold pushes. apply Exists_app. right. apply Exists_app. right.
        apply (ncov_push (tr s) (nb s) T pp r (x' :: rst') w Hwf Hok Ir ET Hfr). }
    destruct (page d && negb (cur =? 0)) eqn:Ey; cbn [fst] in *.
    + constructor; cbn [n_started n_pend n_stack n_p2w n_phase2]; [exact HS'| |].
      * intros w' [E|Hin']; [|apply (Hv w' Hin')]. injection E as E1 <-. apply Hvis. apply Hblk. exact E1.
      * destruct Hc as [Hc|[(_ & Hc)|Hc]]; [congruence| |right; right; right; exact Hc].
        destruct (Hcov Hc) as [(_ & -> & ->)|Hex]; [right; right; left; reflexivity|].
        right. left. split; [reflexivity|exact Hex].
    + constructor; cbn [n_started n_pend n_stack n_p2w n_phase2 app]; [exact HS'|exact Hv|].
      destruct Hc as [Hc|[(_ & Hc)|Hc]]; [congruence| |right; right; exact Hc].
      destruct (Hcov Hc) as [(E & _)|Hex]; [discriminate|].
      right. left. split; [reflexivity|exact Hex].
Qed.

(* ====================================================================== *)
(* the link S -> T                                                        *)
(* ====================================================================== *)

(* once S is recorded with A: the head of its chain is waiting, or the item (A, block
   of T) is waiting, or the edge (A, B) has been counted *)
Definition LK (aS aT A B : N) (q : nco) (s : traph) : Prop :=
  In (aS, A) (n_p2w q) ->
  (exists h, In (A, h) (n_ptrs q) /\ head_ok (length (stubs s)) h /\ In aT (targets_of (stubs s) h)) \/
  (exists wt, In (A, aT, wt) (n_items q) /\ 0 < wt) \/
  (exists v, In (A, 0, B, v) (n_graph q) /\ 0 < v).

Lemma LK_init : forall aS aT A B out auto s, LK aS aT A B (netq_start out auto) s.
Proof. intros aS aT A B out auto s []. Qed.

Lemma LK_ext : forall aS aT A B q s s', lext s s' -> stubs_ok (stubs s) ->
  LK aS aT A B q s -> LK aS aT A B q s'.
Proof.
  intros aS aT A B q s s' Hl Hst H Hin. destruct (H Hin) as [(h & H1 & H2 & H3)|H']; [|right; exact H'].
  left. exists h. split; [exact H1|]. destruct (lext_old_head s s' h Hl Hst H2) as (Et & Hok').
  split; [exact Hok'|rewrite Et; exact H3].
Qed.

Lemma nstart_LK : forall aS aT A B q s, LK aS aT A B q s -> LK aS aT A B (nstart q s) s.
Proof. intros aS aT A B q s H. unfold nstart. destruct (n_started q); [exact H|intros []]. Qed.

Lemma nmicro1_LK : forall aS aT A B q s S dS, wf_tst (tr s) -> addr_ok (tr s) (nb s) -> Rbase s ->
  find S (tr s) = Some dS -> addr dS = aS -> In aT (targets_of (stubs s) (head_dir (n_out q) dS)) ->
  n_phase2 q = false -> NInv q s ->
  LK aS aT A B q s -> LK aS aT A B (fst (nmicro1 q s)) s.
Proof.
  intros aS aT A B q s S dS Hwf Hok HB HfS HaS Hlink Hp2 HN H.
  destruct (NI_ph1 q s HN Hp2) as (Eit & _).
  pose proof (NI_stack q s HN) as Hstk. unfold SI in Hstk.
  (* the disjunction survives as long as pointers and graph only grow *)
  assert (Hkeep : forall ptrs' items' g', (forall x, In x (n_ptrs q) -> In x ptrs') ->
            (forall k v, In (k, v) (n_graph q) -> 0 < v -> exists v', In (k, v') g' /\ 0 < v') ->
            In (aS, A) (n_p2w q) ->
            (exists h, In (A, h) ptrs' /\ head_ok (length (stubs s)) h /\ In aT (targets_of (stubs s) h)) \/
            (exists wt, In (A, aT, wt) items' /\ 0 < wt) \/
            (exists v, In (A, 0, B, v) g' /\ 0 < v)).
  { intros ptrs' items' g' Hp Hg Hin. destruct (H Hin) as [(h & H1 & H2)|[(wt & H1 & _)|(v & H1 & H2)]].
    - left. exists h. split; [apply Hp; exact H1|exact H2].
    - rewrite Eit in H1. destruct H1.
    - right. right. apply (Hg _ _ H1 H2). }
  destruct (n_pend q ++ n_stack q) as [|[a w] rest] eqn:Est.
  - unfold nmicro1. rewrite Est. cbn [fst]. intro Hin. cbn [n_p2w n_ptrs n_items n_graph] in *.
    apply Hkeep; [auto|intros k v Hk Hv; exists v; auto|exact Hin].
  - pose proof (Forall_inv Hstk) as (pp & d & l & c & r & Hin & Ha & _). cbn [fst] in Ha.
    rewrite (nmicro1_located s q a w rest pp d l c r Hwf Hok Est Hin Ha).
    pose proof (locs_find_root _ _ _ _ _ _ Hwf Hin) as Hfd.
    unfold nvisit. cbv zeta. set (cur := if we d =? 0 then w else we d).
    destruct (page d && negb (cur =? 0)); cbn [fst]; intro Hin'; cbn [n_p2w n_ptrs n_items n_graph] in *.
    + destruct Hin' as [E|Hin'].
      * (* S itself is recorded: its head goes to the pointers *)
        injection E as E1 E2.
        assert (ES : pp ++ [stem d] = S) by (apply (proj2 Hok _ _ d dS Hfd HfS); congruence).
        rewrite <- ES, Hfd in HfS. injection HfS as <-.
        left. exists (head_dir (n_out q) d). fold (head_dir (n_out q) d).
        assert (Hnz : head_dir (n_out q) d <> 0) by (intro E0; rewrite E0, targets_of_0 in Hlink; destruct Hlink).
        apply N.eqb_neq in Hnz. rewrite Hnz. split; [apply in_or_app; right; left; rewrite E2; reflexivity|].
        split; [apply (head_dir_ok s HB (n_out q) _ d Hfd)|exact Hlink].
      * apply Hkeep; [intros x Hx; apply in_or_app; left; exact Hx| |exact Hin'].
        intros k v Hk Hv. apply (gincr_keep k v _ 1 _ Hk Hv).
    + apply Hkeep; [auto|intros k v Hk Hv; exists v; auto|exact Hin'].
Qed.

Lemma p2w_get_val : forall a b m, In (a, b) m -> (forall w, In (a, w) m -> w = b) -> p2w_get a m = b.
Proof.
  intros a b m Hin Hv. unfold p2w_get. destruct (List.find (fun x => fst x =? a) m) as [[a' w']|] eqn:E.
  - apply find_some in E. destruct E as (Hin' & Ea). cbn [fst] in Ea. apply N.eqb_eq in Ea. subst a'.
    apply (Hv w' Hin').
  - pose proof (find_none _ _ E (a, b) Hin) as Hc. cbn [fst] in Hc. rewrite N.eqb_refl in Hc. discriminate.
Qed.

Lemma nmicro2_LK : forall aS aT A B q s, B <> 0 -> n_auto q = true \/ A <> B -> NInv q s ->
  In (aT, B) (n_p2w q) -> (forall w, In (aT, w) (n_p2w q) -> w = B) ->
  LK aS aT A B q s -> LK aS aT A B (fst (nmicro2 q s)) s.
Proof.
  intros aS aT A B q s HB Hauto HN HinT HvT H.
  pose proof (p2w_get_val aT B (n_p2w q) HinT HvT) as Eget.
  unfold nmicro2. destruct (n_items q) as [|[[sw tg] wt] rest] eqn:Eit.
  - destruct (n_ptrs q) as [|[sw h] ptrs] eqn:Ept; cbn [fst]; intro Hin; cbn [n_p2w n_ptrs n_items n_graph] in *;
      (destruct (H Hin) as [(h0 & H1 & H2 & H3)|[(wt & H1 & _)|H']];
       [rewrite Ept in H1|rewrite Eit in H1; destruct H1|right; right; exact H']).
    + destruct H1.
    + destruct H1 as [E|H1].
      * injection E as -> ->. right. left. destruct (weighted_pos _ _ H3) as (wt & Hw & Hp).
        exists wt. split; [|exact Hp]. apply in_map_iff. exists (aT, wt). auto.
      * left. exists h0. auto.
  - assert (Hq' : forall g, (forall k v, In (k, v) (n_graph q) -> 0 < v -> exists v', In (k, v') g /\ 0 < v') ->
              ((sw, tg) = (A, aT) -> exists v', In (A, 0, B, v') g /\ 0 < v') ->
              LK aS aT A B (mkNC (n_out q) (n_auto q) true [] [] (n_p2w q) (n_ptrs q) rest true g false) s).
    { intros g Hg Hhit Hin. cbn [n_p2w] in Hin. destruct (H Hin) as [H'|[(wt0 & H1 & H2)|(v & H1 & H2)]].
      - left. exact H'.
      - rewrite Eit in H1. destruct H1 as [E|H1].
        + right. right. apply Hhit. congruence.
        + right. left. exists wt0. auto.
      - right. right. apply (Hg _ _ H1 H2). }
    cbv zeta.
    destruct (p2w_get tg (n_p2w q) =? 0) eqn:E0.
    { cbn [fst]. apply Hq'; [intros k v Hk Hv; exists v; auto|].
      intro E. injection E as -> ->. rewrite Eget in E0. apply N.eqb_eq in E0. contradiction. }
    destruct (negb (n_auto q) && (sw =? p2w_get tg (n_p2w q))) eqn:E1; cbn [fst].
    { apply Hq'; [intros k v Hk Hv; exists v; auto|].
      intro E. injection E as -> ->. rewrite Eget in E1. apply andb_prop in E1. destruct E1 as (E1 & E2).
      apply N.eqb_eq in E2. destruct Hauto as [Ha|Ha]; [rewrite Ha in E1; discriminate|contradiction]. }
    assert (Hwt : 0 < wt) by (apply (NI_items q s HN sw tg wt); rewrite Eit; left; reflexivity).
    apply Hq'.
    + intros k v Hk Hv. apply (gincr_keep k v _ wt _ Hk Hv).
    + intro E. injection E as -> ->. rewrite Eget. apply gincr_new. exact Hwt.
Qed.

(* ====================================================================== *)
(* the two targets and the link, along a run                              *)
(* ====================================================================== *)

Lemma nstart_out : forall q s, n_out (nstart q s) = n_out q /\ n_auto (nstart q s) = n_auto q.
Proof. intros q s. unfold nstart. destruct (n_started q); cbn; auto. Qed.

Section Lower.
Variables (out auto : bool) (S CS T CT : list bytes) (A B aS aT : N).
Hypothesis HA : A <> 0.
Hypothesis HB : B <> 0.
Hypothesis Hauto : auto = true \/ A <> B.
Hypothesis HuS : under CS S.
Hypothesis HuT : under CT T.

Record NB (q : nco) (s : traph) : Prop := mkNB {
  NB_out : n_out q = out;
  NB_auto : n_auto q = auto;
  NB_inv : NInv q s;
  NB_S : TG S CS A aS q s;
  NB_T : TG T CT B aT q s;
  NB_lk : LK aS aT A B q s
}.

(* the index at one moment: S resolves to A, T to B, the link S -> T is stored *)
Record NCtx (s : traph) : Prop := mkNCtx {
  NC_wf : wf_tst (tr s);
  NC_ok : addr_ok (tr s) (nb s);
  NC_base : Rbase s;
  NC_S : ntgt S CS A aS s;
  NC_T : ntgt T CT B aT s;
  NC_link : exists dS, find S (tr s) = Some dS /\ addr dS = aS /\
                       In aT (targets_of (stubs s) (head_dir out dS))
}.

Lemma NB_init : forall s, NB (netq_start out auto) s.
Proof.
  intro s. constructor; [reflexivity|reflexivity|apply NInv_start|apply TG_init|apply TG_init|apply LK_init].
Qed.

Lemma nmicro_NB : forall q s, NCtx s -> NB q s -> NB (fst (nmicro q s)) s.
Proof.
  intros q s [Hwf Hok Hb HS HT (dS & HfS & HaS & Hlk)] [Eo Ea HN GS GT HL].
  destruct (nmicro_out q s) as (Eo' & Ea').
  pose proof (nmicro_NInv q s Hwf Hok Hb HN) as HN'.
  unfold nmicro in *. destruct (n_phase2 q) eqn:Hp2.
  - assert (Hst : n_started q = true).
    { destruct (n_started q) eqn:E; [reflexivity|].
      destruct (NI_fresh q s HN E) as (_ & _ & _ & _ & _ & X & _). congruence. }
    constructor; [congruence|congruence|exact HN'|apply nmicro2_TG; assumption|apply nmicro2_TG; assumption|].
    apply nmicro2_LK; try assumption.
    + rewrite Ea. exact Hauto.
    + destruct (TG_cov _ _ _ _ _ _ GT) as [X|[(X & _)|X]]; [congruence|congruence|exact X].
    + apply (TG_val _ _ _ _ _ _ GT).
  - destruct (nstart_out q s) as (Eo0 & Ea0).
    pose proof (nstart_started q s) as Hst0. pose proof (nstart_phase2 q s Hp2) as Hp0.
    pose proof (nstart_NInv q s HN) as HN0.
    constructor; [congruence|congruence|exact HN'| | |].
    + apply (nmicro1_TG S CS A aS _ s Hwf Hok HS HA Hst0). apply nstart_TG; assumption.
    + apply (nmicro1_TG T CT B aT _ s Hwf Hok HT HB Hst0). apply nstart_TG; assumption.
    + apply (nmicro1_LK aS aT A B _ s S dS Hwf Hok Hb HfS HaS); [rewrite Eo0, Eo; exact Hlk|exact Hp0|exact HN0|].
      apply nstart_LK. exact HL.
Qed.

Lemma netq_step_NB : forall s, NCtx s -> forall fuel q, NB q s -> NB (netq_step fuel q s) s.
Proof. intros s Hc. apply (netq_step_keeps (fun q => NB q s)). intros q. apply nmicro_NB. exact Hc. Qed.

Lemma NB_ext : forall q s s', sext s s' -> lext s s' -> stubs_ok (stubs s) -> NB q s -> NB q s'.
Proof.
  intros q s s' Hx Hl Hst [H1 H2 H3 H4 H5 H6].
  constructor; [exact H1|exact H2|apply (NInv_ext q s s' Hx Hl Hst H3)|apply (TG_ext _ _ _ _ _ _ _ Hx H4)|
                apply (TG_ext _ _ _ _ _ _ _ Hx H5)|apply (LK_ext _ _ _ _ _ _ _ Hl Hst H6)].
Qed.

(* what holds now and keeps holding *)
Definition CF (s : traph) : Prop :=
  (exists dS, find S (tr s) = Some dS /\ page dS = true /\ addr dS = aS /\
              In aT (targets_of (stubs s) (head_dir out dS))) /\
  (exists dT, find T (tr s) = Some dT /\ page dT = true /\ addr dT = aT) /\
  (exists dC, find CS (tr s) = Some dC /\ we dC = A) /\
  (exists dC, find CT (tr s) = Some dC /\ we dC = B).

(* what holds at the end and held all along *)
Definition FF (s : traph) : Prop :=
  (forall p' d', under CS p' -> p' <> CS -> under p' S -> find p' (tr s) = Some d' -> we d' = 0) /\
  (forall p' d', under CT p' -> p' <> CT -> under p' T -> find p' (tr s) = Some d' -> we d' = 0).

Lemma CF_ext : forall s s', sext s s' -> wext s s' -> lext s s' -> CF s -> CF s'.
Proof.
  intros s s' Hx Hw Hl ((dS & H1 & H2 & H3 & H4) & (dT & K1 & K2 & K3) & (dA & L1 & L2) & (dB & M1 & M2)).
  split; [|split; [|split]].
  - destruct (text_find S _ _ Hx dS H1) as (d' & Hf' & _ & Ea & Hp & _).
    destruct (proj2 Hl S dS H1) as (d2 & Hf2 & Hch). rewrite Hf' in Hf2. injection Hf2 as <-.
    exists d'. split; [exact Hf'|]. split; [auto|]. split; [congruence|apply Hch; exact H4].
  - destruct (text_find T _ _ Hx dT K1) as (d' & Hf' & _ & Ea & Hp & _).
    exists d'. split; [exact Hf'|]. split; [auto|congruence].
  - destruct (Hw CS dA L1) as (d' & Hf' & E). exists d'. split; [exact Hf'|]. rewrite E; [exact L2|congruence].
  - destruct (Hw CT dB M1) as (d' & Hf' & E). exists d'. split; [exact Hf'|]. rewrite E; [exact M2|congruence].
Qed.

Lemma FF_back : forall s s', sext s s' -> FF s' -> FF s.
Proof.
  intros s s' Hx (H1 & H2). split; intros p' d' U1 U2 U3 Hf;
    destruct (text_find p' _ _ Hx d' Hf) as (d2 & Hf2 & _ & _ & _ & Hw2);
    (destruct (N.eq_dec (we d') 0) as [E|E]; [exact E|exfalso; apply (Hw2 E)]).
  - apply (H1 p' d2 U1 U2 U3 Hf2).
  - apply (H2 p' d2 U1 U2 U3 Hf2).
Qed.

Lemma NCtx_of : forall s a go gi, SInv s a go gi -> CF s -> FF s -> NCtx s.
Proof.
  intros s a go gi HS ((dS & H1 & H2 & H3 & H4) & (dT & K1 & K2 & K3) & (dA & L1 & L2) & (dB & M1 & M2)) (F1 & F2).
  destruct (SInv_facts _ _ _ _ HS) as (_ & Hwf & Hok & _).
  constructor; [exact Hwf|exact Hok|apply (SI_base _ _ _ _ HS)| | |].
  - split; [exact HuS|]. split; [exists dS; auto|]. split; [exists dA; auto|exact F1].
  - split; [exact HuT|]. split; [exists dT; auto|]. split; [exists dB; auto|exact F2].
  - exists dS. auto.
Qed.

Lemma net_exec : forall a0 jobs i sched cl s a go gi q,
  HInv a0 jobs cl s a go gi -> nth_error cl i = Some (CNet q) -> NB q s -> CF s ->
  FF (snd (exec_sched sched cl s)) ->
  exists q', nth_error (fst (exec_sched sched cl s)) i = Some (CNet q') /\ NB q' (snd (exec_sched sched cl s)).
Proof.
  intros a0 jobs i. induction sched as [|j sched IH]; intros cl s a go gi q HG Hi HN HC Hfinal.
  - cbn [exec_sched fst snd]. exists q. auto.
  - cbn [exec_sched] in *. destruct (nth_error cl j) as [c|] eqn:Hj; [|apply (IH _ _ _ _ _ _ HG Hi HN HC Hfinal)].
    destruct (HInv_step _ _ _ _ _ _ _ j c HG Hj) as (a1 & go1 & gi1 & HG1 & _).
    pose proof (co_step_sext c s) as Hx. pose proof (co_step_wext c s) as Hw.
    pose proof (co_step_lext _ _ _ _ _ _ _ j c HG Hj) as Hl.
    pose proof (H_s _ _ _ _ _ _ _ HG) as HS.
    assert (HFs : FF s).
    { pose proof (exec_sext (j :: sched) cl s) as Hxx. cbn [exec_sched] in Hxx. rewrite Hj in Hxx.
      apply (FF_back _ _ Hxx Hfinal). }
    pose proof (NCtx_of s a go gi HS HC HFs) as Hctx.
    destruct (Nat.eq_dec i j) as [<-|Hne].
    + rewrite Hi in Hj. injection Hj as <-.
      destruct (co_step_netq q s) as (fuel & E). rewrite E in *. cbn [fst snd] in *. rewrite set_nth_co_eq in *.
      set (q1 := if n_done q then q else netq_step fuel q s) in *.
      apply (IH _ _ _ _ _ q1 HG1); [apply (nth_set_nth_same _ _ _ _ _ Hi)| |exact HC|exact Hfinal].
      unfold q1. destruct (n_done q); [exact HN|apply (netq_step_NB s Hctx fuel q HN)].
    + destruct (co_step c s) as [c' s'] eqn:Ec. cbn [fst snd] in *. rewrite set_nth_co_eq in *.
      apply (IH _ _ _ _ _ q HG1); [rewrite nth_set_nth_other by exact Hne; exact Hi| | |exact Hfinal].
      * apply (NB_ext q s s' Hx Hl (B_stubs s (SI_base _ _ _ _ HS)) HN).
      * apply (CF_ext s s' Hx Hw Hl HC).
Qed.

End Lower.

(* ====================================================================== *)
(* N2. the lower clause at the level of page links                        *)
(* ====================================================================== *)

(* The query is started (not yet stepped) in s1 and finished in s2.  S and T are pages of
   s1 and the block of T is in the out-chain (out = true; in-chain for out = false) of S
   in s1.  CS (resp. CT) is a node on the path of S (resp. T), itself possibly, that
   carries the webentity A (resp. B) in s1, and in s2 no node strictly below it on the
   way to the page, the page included, carries a webentity: the uninterrupted walk
   resolves S to A and T to B at the end, hence (SchedFacts11) at every moment.  Then the
   answer counts the edge A -> B, unless it is a self edge that was not asked for. *)
Theorem C16_network_lower : forall jobs sched1 sched2 s0 a0 i out auto S CS T CT A B dS dT dCS dCT,
  R s0 a0 -> Forall job_wf jobs ->
  let cs0 := map job_start jobs in
  let cs1 := fst (exec_sched sched1 cs0 s0) in
  let s1 := snd (exec_sched sched1 cs0 s0) in
  let cs2 := fst (exec_sched sched2 cs1 s1) in
  let s2 := snd (exec_sched sched2 cs1 s1) in
  nth_error cs1 i = Some (CNet (netq_start out auto)) ->
  find S (tr s1) = Some dS -> page dS = true ->
  find T (tr s1) = Some dT -> page dT = true ->
  In (addr dT) (targets_of (stubs s1) (head_dir out dS)) ->
  under CS S -> find CS (tr s1) = Some dCS -> we dCS = A -> A <> 0 ->
  under CT T -> find CT (tr s1) = Some dCT -> we dCT = B -> B <> 0 ->
  (forall p' d', under CS p' -> p' <> CS -> under p' S -> find p' (tr s2) = Some d' -> we d' = 0) ->
  (forall p' d', under CT p' -> p' <> CT -> under p' T -> find p' (tr s2) = Some d' -> we d' = 0) ->
  auto = true \/ A <> B ->
  forall q2, nth_error cs2 i = Some (CNet q2) -> n_done q2 = true ->
  exists v, In (A, 0, B, v) (n_graph q2) /\ 0 < v.
Proof.
  intros jobs sched1 sched2 s0 a0 i out auto S CS T CT A B dS dT dCS dCT HR Hwf cs0 cs1 s1 cs2 s2
    Hi HfS HpS HfT HpT Hlink HuS HfCS HwS HA HuT HfCT HwT HB HFS HFT Hauto q2 Hi2 Hd2.
  destruct (HInv_exec a0 jobs sched1 _ _ _ _ _ (HInv_init s0 a0 jobs HR Hwf)) as (a1 & go1 & gi1 & HG1).
  fold cs0 in HG1. fold cs1 in HG1. fold s1 in HG1.
  destruct (net_exec out auto S CS T CT A B (addr dS) (addr dT) HA HB Hauto HuS HuT
              a0 jobs i sched2 cs1 s1 a1 go1 gi1 (netq_start out auto) HG1 Hi) as (q' & Hq' & HN).
  - apply NB_init.
  - split; [exists dS; auto|]. split; [exists dT; auto|]. split; [exists dCS; auto|exists dCT; auto].
  - split; assumption.
  - fold cs2 in Hq'. fold s2 in HN. rewrite Hi2 in Hq'. injection Hq' as <-.
    destruct HN as [_ _ HNI GS _ HL].
    destruct (NI_done q2 s2 HNI Hd2) as (Hp2 & Eit & Ept).
    assert (Hrec : In (addr dS, A) (n_p2w q2)).
    { destruct (TG_cov _ _ _ _ _ _ GS) as [X|[(X & _)|X]]; [|congruence|exact X].
      destruct (NI_fresh q2 s2 HNI X) as (_ & _ & _ & _ & _ & _ & Y). congruence. }
    destruct (HL Hrec) as [(h & H1 & _)|[(wt & H1 & _)|H']]; [rewrite Ept in H1; destruct H1|rewrite Eit in H1; destruct H1|exact H'].
Qed.

(* the same with LRUs *)
Corollary C16_network_lower_lru : forall jobs sched1 sched2 s0 a0 i out auto lS pS lT pT A B dS dT dCS dCT,
  R s0 a0 -> Forall job_wf jobs ->
  let cs0 := map job_start jobs in
  let cs1 := fst (exec_sched sched1 cs0 s0) in
  let s1 := snd (exec_sched sched1 cs0 s0) in
  let cs2 := fst (exec_sched sched2 cs1 s1) in
  let s2 := snd (exec_sched sched2 cs1 s1) in
  nth_error cs1 i = Some (CNet (netq_start out auto)) ->
  nodeof s1 lS = Some dS -> page dS = true ->
  nodeof s1 lT = Some dT -> page dT = true ->
  In (addr dT) (targets_of (stubs s1) (head_dir out dS)) ->
  under (lru_iter pS) (lru_iter lS) -> nodeof s1 pS = Some dCS -> we dCS = A -> A <> 0 ->
  under (lru_iter pT) (lru_iter lT) -> nodeof s1 pT = Some dCT -> we dCT = B -> B <> 0 ->
  (forall p' d', under (lru_iter pS) p' -> p' <> lru_iter pS -> under p' (lru_iter lS) ->
                 find p' (tr s2) = Some d' -> we d' = 0) ->
  (forall p' d', under (lru_iter pT) p' -> p' <> lru_iter pT -> under p' (lru_iter lT) ->
                 find p' (tr s2) = Some d' -> we d' = 0) ->
  auto = true \/ A <> B ->
  forall q2, nth_error cs2 i = Some (CNet q2) -> n_done q2 = true ->
  exists v, In (A, 0, B, v) (n_graph q2) /\ 0 < v.
Proof.
  intros jobs sched1 sched2 s0 a0 i out auto lS pS lT pT A B dS dT dCS dCT HR Hwf cs0 cs1 s1 cs2 s2
    Hi HfS HpS HfT HpT Hlink HuS HfCS HwS HA HuT HfCT HwT HB HFS HFT Hauto q2 Hi2 Hd2.
  apply (C16_network_lower jobs sched1 sched2 s0 a0 i out auto (lru_iter lS) (lru_iter pS) (lru_iter lT) (lru_iter pT)
           A B dS dT dCS dCT HR Hwf Hi HfS HpS HfT HpT Hlink HuS HfCS HwS HA HuT HfCT HwT HB HFS HFT Hauto q2 Hi2 Hd2).
Qed.

(* ====================================================================== *)
(* N1, completeness of the page -> webentity map when phase 2 starts      *)
(* ====================================================================== *)

Section OneTarget.
Variables (T CT : list bytes) (B aT : N).
Hypothesis HB : B <> 0.
Hypothesis HuT : under CT T.

Record NB1 (q : nco) (s : traph) : Prop := mkNB1 { NB1_inv : NInv q s; NB1_T : TG T CT B aT q s }.

Lemma nmicro_NB1 : forall q s, wf_tst (tr s) -> addr_ok (tr s) (nb s) -> Rbase s -> ntgt T CT B aT s ->
  NB1 q s -> NB1 (fst (nmicro q s)) s.
Proof.
  intros q s Hwf Hok Hb HT [HN GT]. split; [apply nmicro_NInv; assumption|].
  unfold nmicro. destruct (n_phase2 q) eqn:Hp2.
  - apply nmicro2_TG; try assumption.
    destruct (n_started q) eqn:E; [reflexivity|].
    destruct (NI_fresh q s HN E) as (_ & _ & _ & _ & _ & X & _). congruence.
  - apply (nmicro1_TG T CT B aT _ s Hwf Hok HT HB (nstart_started q s)). apply nstart_TG; assumption.
Qed.

Definition CF1 (s : traph) : Prop :=
  (exists dT, find T (tr s) = Some dT /\ page dT = true /\ addr dT = aT) /\
  (exists dC, find CT (tr s) = Some dC /\ we dC = B).
Definition FF1 (s : traph) : Prop :=
  forall p' d', under CT p' -> p' <> CT -> under p' T -> find p' (tr s) = Some d' -> we d' = 0.

Lemma tg_exec : forall a0 jobs i sched cl s a go gi q,
  HInv a0 jobs cl s a go gi -> nth_error cl i = Some (CNet q) -> NB1 q s -> CF1 s ->
  FF1 (snd (exec_sched sched cl s)) ->
  exists q', nth_error (fst (exec_sched sched cl s)) i = Some (CNet q') /\ NB1 q' (snd (exec_sched sched cl s)).
Proof.
  intros a0 jobs i. induction sched as [|j sched IH]; intros cl s a go gi q HG Hi HN HC Hfinal.
  - cbn [exec_sched fst snd]. exists q. auto.
  - cbn [exec_sched] in *. destruct (nth_error cl j) as [c|] eqn:Hj; [|apply (IH _ _ _ _ _ _ HG Hi HN HC Hfinal)].
    destruct (HInv_step _ _ _ _ _ _ _ j c HG Hj) as (a1 & go1 & gi1 & HG1 & _).
    pose proof (co_step_sext c s) as Hx. pose proof (co_step_wext c s) as Hw.
    pose proof (co_step_lext _ _ _ _ _ _ _ j c HG Hj) as Hl.
    pose proof (H_s _ _ _ _ _ _ _ HG) as HS.
    destruct (SInv_facts _ _ _ _ HS) as (_ & Hwf & Hok & Hst).
    destruct HC as ((dT & K1 & K2 & K3) & (dB & M1 & M2)).
    assert (HT : ntgt T CT B aT s).
    { split; [exact HuT|]. split; [exists dT; auto|]. split; [exists dB; auto|].
      intros p' d' U1 U2 U3 Hf.
      pose proof (exec_sext (j :: sched) cl s) as Hxx. cbn [exec_sched] in Hxx. rewrite Hj in Hxx.
      destruct (text_find p' _ _ Hxx d' Hf) as (d2 & Hf2 & _ & _ & _ & Hw2).
      destruct (N.eq_dec (we d') 0) as [E|E]; [exact E|exfalso; apply (Hw2 E)].
      apply (Hfinal p' d2 U1 U2 U3 Hf2). }
    assert (HC' : CF1 (snd (co_step c s))).
    { split.
      - destruct (text_find T _ _ Hx dT K1) as (d' & Hf' & _ & Ea & Hp & _).
        exists d'. split; [exact Hf'|]. split; [auto|congruence].
      - destruct (Hw CT dB M1) as (d' & Hf' & E). exists d'. split; [exact Hf'|]. rewrite E; [exact M2|congruence]. }
    destruct (Nat.eq_dec i j) as [<-|Hne].
    + rewrite Hi in Hj. injection Hj as <-.
      destruct (co_step_netq q s) as (fuel & E). rewrite E in *. cbn [fst snd] in *. rewrite set_nth_co_eq in *.
      set (q1 := if n_done q then q else netq_step fuel q s) in *.
      apply (IH _ _ _ _ _ q1 HG1); [apply (nth_set_nth_same _ _ _ _ _ Hi)| |exact HC'|exact Hfinal].
      unfold q1. destruct (n_done q); [exact HN|].
      apply (netq_step_keeps (fun q => NB1 q s)); [|exact HN].
      intros q0. apply nmicro_NB1; try assumption. apply (SI_base _ _ _ _ HS).
    + destruct (co_step c s) as [c' s'] eqn:Ec. cbn [fst snd] in *. rewrite set_nth_co_eq in *.
      apply (IH _ _ _ _ _ q HG1); [rewrite nth_set_nth_other by exact Hne; exact Hi| |exact HC'|exact Hfinal].
      destruct HN as [H1 H2]. split; [apply (NInv_ext q s s' Hx Hl Hst H1)|apply (TG_ext _ _ _ _ _ _ _ Hx H2)].
Qed.

End OneTarget.

(* A page T of s1 whose webentity, as the walk resolves it, is B from s1 to s2: once the
   query (started in s1) has entered phase 2, its map sends the block of T to B, and every
   record of the map is a page with a non-null webentity (NInv). *)
Theorem C16_network_p2w_complete : forall jobs sched1 sched2 s0 a0 i out auto T CT B dT dCT,
  R s0 a0 -> Forall job_wf jobs ->
  let cs0 := map job_start jobs in
  let cs1 := fst (exec_sched sched1 cs0 s0) in
  let s1 := snd (exec_sched sched1 cs0 s0) in
  let cs2 := fst (exec_sched sched2 cs1 s1) in
  let s2 := snd (exec_sched sched2 cs1 s1) in
  nth_error cs1 i = Some (CNet (netq_start out auto)) ->
  find T (tr s1) = Some dT -> page dT = true ->
  under CT T -> find CT (tr s1) = Some dCT -> we dCT = B -> B <> 0 ->
  (forall p' d', under CT p' -> p' <> CT -> under p' T -> find p' (tr s2) = Some d' -> we d' = 0) ->
  forall q2, nth_error cs2 i = Some (CNet q2) ->
  NInv q2 s2 /\
  (n_phase2 q2 = true -> In (addr dT, B) (n_p2w q2) /\ p2w_get (addr dT) (n_p2w q2) = B).
Proof.
  intros jobs sched1 sched2 s0 a0 i out auto T CT B dT dCT HR Hwf cs0 cs1 s1 cs2 s2
    Hi HfT HpT HuT HfCT HwT HB HFT q2 Hi2.
  destruct (HInv_exec a0 jobs sched1 _ _ _ _ _ (HInv_init s0 a0 jobs HR Hwf)) as (a1 & go1 & gi1 & HG1).
  fold cs0 in HG1. fold cs1 in HG1. fold s1 in HG1.
  destruct (tg_exec T CT B (addr dT) HB HuT a0 jobs i sched2 cs1 s1 a1 go1 gi1 (netq_start out auto) HG1 Hi)
    as (q' & Hq' & HN).
  - split; [apply NInv_start|apply TG_init].
  - split; [exists dT; auto|exists dCT; auto].
  - exact HFT.
  - fold cs2 in Hq'. fold s2 in HN. rewrite Hi2 in Hq'. injection Hq' as <-.
    destruct HN as [HNI GT]. split; [exact HNI|]. intro Hp2.
    assert (Hrec : In (addr dT, B) (n_p2w q2)).
    { destruct (TG_cov _ _ _ _ _ _ GT) as [X|[(X & _)|X]]; [|congruence|exact X].
      destruct (NI_fresh q2 s2 HNI X) as (_ & _ & _ & _ & _ & Y & _). congruence. }
    split; [exact Hrec|]. apply (p2w_get_val _ _ _ Hrec (TG_val _ _ _ _ _ _ GT)).
Qed.

(* ====================================================================== *)
(* N1 along any schedule                                                  *)
(* ====================================================================== *)

Lemma co_step_kind_net : forall c s q', fst (co_step c s) = CNet q' -> exists q, c = CNet q.
Proof.
  intros c s q' H. destruct c as [b|r|q|n|lq].
  - rewrite co_step_batch in H. discriminate.
  - rewrite co_step_rule in H. discriminate.
  - rewrite co_step_pages in H. discriminate.
  - exists n. reflexivity.
  - destruct (co_step_links lq s) as (n' & E). rewrite E in H. discriminate.
Qed.

Lemma ninv_exec : forall a0 jobs sched cl s a go gi, HInv a0 jobs cl s a go gi ->
  (forall i q, nth_error cl i = Some (CNet q) -> NInv q s) ->
  forall i q, nth_error (fst (exec_sched sched cl s)) i = Some (CNet q) -> NInv q (snd (exec_sched sched cl s)).
Proof.
  intros a0 jobs. induction sched as [|j sched IH]; intros cl s a go gi HG Hall i q Hi.
  - cbn [exec_sched fst snd] in *. apply (Hall i q Hi).
  - cbn [exec_sched] in *. destruct (nth_error cl j) as [c|] eqn:Hj; [|apply (IH _ _ _ _ _ HG Hall i q Hi)].
    destruct (HInv_step _ _ _ _ _ _ _ j c HG Hj) as (a1 & go1 & gi1 & HG1 & _).
    pose proof (co_step_sext c s) as Hx.
    pose proof (co_step_lext _ _ _ _ _ _ _ j c HG Hj) as Hl.
    pose proof (H_s _ _ _ _ _ _ _ HG) as HS.
    destruct (SInv_facts _ _ _ _ HS) as (_ & Hwf & Hok & Hst).
    destruct (co_step c s) as [c' s'] eqn:Ec. cbn [fst snd] in *.
    refine (IH _ _ _ _ _ HG1 _ i q Hi). clear i q Hi.
    intros i q Hi. rewrite set_nth_co_eq in Hi.
    destruct (Nat.eq_dec i j) as [->|Hne].
    + rewrite (nth_set_nth_same _ _ _ _ _ Hj) in Hi. injection Hi as ->.
      destruct (co_step_kind_net c s q) as (q0 & ->); [rewrite Ec; reflexivity|].
      destruct (co_step_netq q0 s) as (fuel & E). rewrite E in Ec. injection Ec as <- <-.
      pose proof (Hall j q0 Hj) as H0. destruct (n_done q0); [exact H0|].
      apply (NInv_step s Hwf Hok (SI_base _ _ _ _ HS) fuel q0 H0).
    + rewrite nth_set_nth_other in Hi by exact Hne.
      apply (NInv_ext q s s' Hx Hl Hst (Hall i q Hi)).
Qed.

(* N1: at every moment of any schedule, the local variables of every network query
   satisfy NInv *)
Theorem C16_network_invariant : forall jobs sched s0 a0, R s0 a0 -> Forall job_wf jobs ->
  forall i q, nth_error (fst (exec_sched sched (map job_start jobs) s0)) i = Some (CNet q) ->
  NInv q (snd (exec_sched sched (map job_start jobs) s0)).
Proof.
  intros jobs sched s0 a0 HR Hwf.
  apply (ninv_exec a0 jobs sched _ _ _ _ _ (HInv_init s0 a0 jobs HR Hwf)).
  intros i q Hi. rewrite nth_error_map in Hi. destruct (nth_error jobs i) as [j|]; [|discriminate].
  cbn [option_map] in Hi. destruct j; cbn [job_start] in Hi; try discriminate.
  injection Hi as <-. apply NInv_start.
Qed.

(* ====================================================================== *)
(* a checker for the "no webentity below the carrier" hypothesis          *)
(* ====================================================================== *)

Definition chk_below (C rest : list bytes) (t : tst) : bool :=
  forallb (fun k => match find (C ++ firstn k rest) t with Some d => we d =? 0 | None => true end)
          (seq 1 (length rest)).

Lemma chk_below_ok : forall C rest t, chk_below C rest t = true ->
  forall p' d', under C p' -> p' <> C -> under p' (C ++ rest) -> find p' t = Some d' -> we d' = 0.
Proof.
  intros C rest t H p' d' (r1 & ->) Hne (r2 & E) Hf.
  rewrite <- app_assoc in E. apply app_inv_head in E. subst rest.
  unfold chk_below in H. rewrite forallb_forall in H.
  assert (Hr1 : r1 <> []) by (intros ->; apply Hne; apply app_nil_r).
  assert (Hin : In (length r1) (seq 1 (length (r1 ++ r2)))).
  { apply in_seq. rewrite app_length. destruct r1; [congruence|cbn [length]; lia]. }
  specialize (H _ Hin). rewrite firstn_app, Nat.sub_diag, firstn_all, firstn_O, app_nil_r, Hf in H.
  apply N.eqb_eq. exact H.
Qed.
