(* Effects.v — reachability in a finite call graph, with a checker whose soundness
   does not depend on how the candidate closure was computed: a set that contains
   the root and is closed under the edges contains everything reachable. *)
From Coq Require Import List NArith Bool.
Import ListNotations.
Open Scope N_scope.

Definition memN (x : N) (l : list N) : bool := existsb (N.eqb x) l.

Inductive path (edges : list (N * N)) : N -> N -> Prop :=
| path_refl : forall v, path edges v v
| path_step : forall u v w, In (u, v) edges -> path edges v w -> path edges u w.

Definition closed (edges : list (N * N)) (S : list N) : bool :=
  forallb (fun e => negb (memN (fst e) S) || memN (snd e) S) edges.

Lemma memN_In : forall x l, memN x l = true <-> In x l.
Proof.
  intros x l; unfold memN; rewrite existsb_exists; split.
  - intros [y [Hy He]]; apply N.eqb_eq in He; subst; exact Hy.
  - intros H; exists x; split; [exact H | apply N.eqb_refl].
Qed.

Lemma closed_sound : forall edges S, closed edges S = true ->
  forall u w, path edges u w -> memN u S = true -> memN w S = true.
Proof.
  intros edges S Hc u w Hp; induction Hp as [v | u v w He Hp IH]; intros Hu; [exact Hu|].
  apply IH. unfold closed in Hc. rewrite forallb_forall in Hc.
  specialize (Hc (u, v) He). cbn [fst snd] in Hc. rewrite Hu in Hc. exact Hc.
Qed.

(* candidate closure: iterate "add the successors" *)
Definition succs (edges : list (N * N)) (S : list N) : list N :=
  map snd (filter (fun e => memN (fst e) S) edges).
Definition add_new (S new : list N) : list N :=
  fold_left (fun S x => if memN x S then S else x :: S) new S.
Fixpoint iterate (fuel : nat) (edges : list (N * N)) (S : list N) : list N :=
  match fuel with
  | O => S
  | S f => let S' := add_new S (succs edges S) in
           if Nat.eqb (length S') (length S) then S else iterate f edges S'
  end.
Definition closure (edges : list (N * N)) (n : N) (r : N) : list N := iterate (N.to_nat n) edges [r].

(* root r can reach none of the writers *)
Definition safe_root (edges : list (N * N)) (n : N) (writers : list N) (r : N) : bool :=
  let S := closure edges n r in
  closed edges S && memN r S && forallb (fun w => negb (memN w S)) writers.

Theorem safe_root_sound : forall edges n writers r, safe_root edges n writers r = true ->
  forall w, In w writers -> ~ path edges r w.
Proof.
  intros edges n writers r H w Hw Hp. unfold safe_root in H.
  apply andb_true_iff in H as [H Hn]. apply andb_true_iff in H as [Hc Hr].
  pose proof (closed_sound _ _ Hc _ _ Hp Hr) as Hin.
  rewrite forallb_forall in Hn. specialize (Hn w Hw). rewrite Hin in Hn. discriminate.
Qed.
