(* GenHelpers3Facts.v — the translated parse_pagination_token (GenHelpers3.v, regenerated on every run) is, on ALL inputs, the
   hand-written Helpers.parse_token with which the paginated requests are translated (GenTraphG.v, GenTraphH.v) and about which
   C09_token_roundtrip speaks. *)
From Coq Require Import List NArith Bool.
Import ListNotations.
From Traph Require Import Bytes Helpers GenHelpers2 GenHelpers2Facts GenHelpers3.
From Traph Require TokenFacts.

Theorem py_parse_pagination_token_eq : forall t, py_parse_pagination_token t = parse_token t.
Proof.
  intro t. unfold py_parse_pagination_token, parse_token, py_split_hash, py_int_of_str, hash_char.
  destruct (split_on 35 t) as [|a [|b [|c l]]]; try reflexivity.
  rewrite py_base64_to_int_eq. destruct (dec_to_int a); destruct (base64_to_int b); reflexivity.
Qed.

(* hence tokens built by the translated build_pagination_token parse back with the translated parser *)
Corollary py_token_roundtrip : forall i p,
  py_parse_pagination_token (py_build_pagination_token i p) = Some (i, p).
Proof.
  intros i p. rewrite py_parse_pagination_token_eq, py_build_pagination_token_eq. apply TokenFacts.token_roundtrip.
Qed.
Print Assumptions py_parse_pagination_token_eq.
Print Assumptions py_token_roundtrip.
