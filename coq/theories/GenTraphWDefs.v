(* GenTraphWDefs.v — vocabulary for the theorems about GenTraphW.v (Traph.create_webentity / __add_prefixes /
   __generated_web_entity_id and the header object, translated from the source on every run): how the header object in RAM and
   the trie storage together represent a model state.  Definitions only. *)
From Coq Require Import List NArith Bool.
Import ListNotations.
From Traph Require Import Bytes Consts Helpers Tst TstDefs Traph TraceDefs Codec GenStorage GenNode GenTrie GenTrieFacts GenTraphW.
Open Scope N_scope.

(* the RAM header holds the counter of the state, and so do the first 128 bytes of the file; the rest of the file holds the blocks *)
Definition hrep (s : traph) (hd : py_thdr) (sg : py_pm) : Prop :=
  trep (files_of s) sg /\
  th_data hd = [VNum (lastwe s); VBytes version_bytes] /\
  firstn 128 (pm_array sg) = encode_trie_header (lastwe s).
