(* GenTrieWAll.v — the translated LRUTrie.add_page with the hypothesis of GenTrieWPage.v discharged by the theorem of
   GenTrieWAdd.v: on the trie file of every state satisfying Inv18, the code translated from the source writes exactly
   the bytes of the model's next state. *)
From Coq Require Import List NArith Bool.
Import ListNotations.
From Traph Require Import Bytes Consts Helpers Tst TstDefs Traph TraceDefs StoreFacts GenStorage GenNode GenTrie GenTrieFacts
  GenTrieW GenTrieWDefs GenTrieWAdd GenTrieWPage.
Open Scope N_scope.

Theorem py_trie_add_page_full : forall s, Inv18 s -> forall sg lru cr,
  root_first s -> trep (files_of s) sg -> wf_lru lru ->
  let r := trie_add_page lru cr s in
  let s' := fst (fst r) in
  nb s' * 128 < 2 ^ 64 ->
  exists sg' n ph, py_trie_add_page sg lru cr = Some (sg', (n, ph)) /\
    trep (files_of s') sg' /\
    hist_rep lru (snd (fst r)) (snd r) ph /\
    exists t', find_sub (lru_iter lru) (tr s') = Some t' /\ node_at t' n.
Proof. exact (py_trie_add_page_spec py_trie_add_lru_spec). Qed.
Print Assumptions py_trie_add_page_full.
