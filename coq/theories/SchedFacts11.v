(* SchedFacts11.v — two more growth facts along the turns of the coroutines, needed for
   the lower clause of the network query (SchedFacts12.v):
   (wext) a node that carries a webentity keeps THAT webentity (SchedFacts7 only says
          that it keeps carrying one): every write of a webentity id goes to a node
          that had none;
   (lext) the link store is only appended to; the chain hanging from the head of a
          node only grows; the chain hanging from an old head never changes. *)
From Coq Require Import List NArith Bool Lia Arith Permutation.
Import ListNotations.
From Traph Require Import Bytes Consts Helpers Rules Tst TstDefs Traph Spec Ops RefDefs TstFacts
  ViewFacts ViewFacts2 RefCore RefCore3 LinkFacts LinkFacts2 LinkFacts3 RefFull
  Sched SchedFacts SchedFacts2 SchedFacts3 SchedFacts4 SchedFacts5 SchedFacts6 SchedFacts7.
Open Scope N_scope.

(* ====================================================================== *)
(* a webentity id, once written, stays                                    *)
(* ====================================================================== *)

Definition wxt (t t' : tst) : Prop :=
  forall p d, find p t = Some d -> exists d', find p t' = Some d' /\ (we d <> 0 -> we d' = we d).

Definition wext (s s' : traph) : Prop := wxt (tr s) (tr s').

Lemma wxt_refl : forall t, wxt t t.
Proof. intros t p d H. exists d. auto. Qed.

Lemma wxt_trans : forall t1 t2 t3, wxt t1 t2 -> wxt t2 t3 -> wxt t1 t3.
Proof.
  intros t1 t2 t3 H1 H2 p d Hd. destruct (H1 p d Hd) as (d2 & Hd2 & E2). destruct (H2 p d2 Hd2) as (d3 & Hd3 & E3).
  exists d3. split; [exact Hd3|]. intro Hw. rewrite <- (E2 Hw). apply E3. rewrite (E2 Hw). exact Hw.
Qed.

Lemma wext_refl : forall s, wext s s.
Proof. intro s. apply wxt_refl. Qed.
Lemma wext_trans : forall s1 s2 s3, wext s1 s2 -> wext s2 s3 -> wext s1 s3.
Proof. intros s1 s2 s3. apply wxt_trans. Qed.

Lemma ins_wxt : forall flag ss pre pa nb h t, wxt t (ins_t flag ss pre pa nb h t).
Proof.
  intros flag ss pre pa nb h t p d Hd.
  destruct (find_ins_keeps flag ss pre pa nb h t p d Hd) as (d' & Hd' & _ & _ & _ & _ & Hw & _).
  exists d'. split; [exact Hd'|]. intros _. exact Hw.
Qed.

(* a node of the tree after insertion is an old one with its webentity, or has none *)
Lemma ins_we_class : forall flag ss pre pa nb h t p d',
  find p (ins_t flag ss pre pa nb h t) = Some d' ->
  (exists d, find p t = Some d /\ we d' = we d) \/ we d' = 0.
Proof.
  intros flag ss pre pa nb h t p d' Hf.
  destruct (find_ins_class flag ss pre pa nb h t p d' Hf) as [(d & Hd & Hk)|(Hn & Hpre & Hp)].
  - left. exists d. split; [exact Hd|]. apply Hk.
  - right. destruct (ins_new_addr flag ss pre pa nb h t p Hp Hpre Hn) as (d1 & Hd1 & _ & _ & _ & Hw & _).
    rewrite Hd1 in Hf. injection Hf as <-. exact Hw.
Qed.

Lemma upd_wxt : forall f q t, (forall d, stem (f d) = stem d) -> (forall d, we d <> 0 -> we (f d) = we d) ->
  wxt t (upd f q t).
Proof.
  intros f q t Hs Hw p d Hd. destruct (find_upd_keeps f q t p d Hs Hd) as [H|(_ & H)].
  - exists d. auto.
  - exists (f d). split; [exact H|apply Hw].
Qed.

Lemma add_lru_wext : forall flag l s, wext s (fst (add_lru flag l s)).
Proof. intros flag l s. unfold wext. rewrite add_lru_tr. apply ins_wxt. Qed.

Lemma upd_wext : forall f q s, (forall d, stem (f d) = stem d) -> (forall d, we d <> 0 -> we (f d) = we d) ->
  wext s (set_tree (upd f q (tr s)) s).
Proof. intros f q s Hs Hw. unfold wext. cbn [tr set_tree set_tr]. apply upd_wxt; assumption. Qed.

Lemma trie_add_page_wext : forall l cr s, wext s (fst (fst (trie_add_page l cr s))).
Proof.
  intros l cr s. unfold trie_add_page.
  pose proof (add_lru_wext false l s) as H1.
  destruct (add_lru false l s) as [s1 h]. cbn [fst] in H1.
  destruct (find (lru_iter l) (tr s1)) as [d|]; [|exact H1].
  destruct (page d).
  - destruct (cr && negb (crawled d)); cbn [fst]; [|exact H1].
    apply (wext_trans _ _ _ H1). apply upd_wext; reflexivity.
  - cbn [fst]. apply (wext_trans _ _ _ H1). apply upd_wext; intro x; destruct cr; reflexivity.
Qed.

(* the prefixes kept as valid by the walk still have no webentity when it is over *)
Lemma walk_prefixes_valid : forall ps s ninv valid,
  (forall p d, In p valid -> find (lru_iter p) (tr s) = Some d -> we d = 0) ->
  forall p d, In p (snd (walk_prefixes ps s ninv valid)) ->
    find (lru_iter p) (tr (fst (fst (walk_prefixes ps s ninv valid)))) = Some d -> we d = 0.
Proof.
  induction ps as [|p0 ps IH]; intros s ninv valid Hv; [exact Hv|].
  cbn [walk_prefixes].
  pose proof (add_lru_tr true p0 s) as Etr.
  destruct (add_lru true p0 s) as [s1 h]. cbn [fst] in Etr.
  assert (Hv1 : forall p d, In p valid -> find (lru_iter p) (tr s1) = Some d -> we d = 0).
  { intros p d Hp Hd. rewrite Etr in Hd.
    destruct (ins_we_class _ _ _ _ _ _ _ _ _ Hd) as [(d0 & Hd0 & E)|E]; [|exact E].
    rewrite E. apply (Hv p d0 Hp Hd0). }
  destruct (find (lru_iter p0) (tr s1)) as [d0|] eqn:E0; [|apply IH; exact Hv1].
  destruct (we d0 =? 0) eqn:Ew; [|apply IH; exact Hv1].
  apply IH. destruct (mem_bytes p0 valid); [exact Hv1|].
  intros p d Hp Hd. apply in_app_or in Hp. destruct Hp as [Hp|[<-|[]]]; [apply (Hv1 p d Hp Hd)|].
  rewrite E0 in Hd. injection Hd as <-. apply N.eqb_eq. exact Ew.
Qed.

Lemma walk_prefixes_wext : forall ps s ninv valid, wext s (fst (fst (walk_prefixes ps s ninv valid))).
Proof.
  induction ps as [|p ps IH]; intros s ninv valid; [apply wext_refl|].
  cbn [walk_prefixes].
  pose proof (add_lru_wext true p s) as H1.
  destruct (add_lru true p s) as [s1 h]. cbn [fst] in H1.
  destruct (find (lru_iter p) (tr s1)) as [d|].
  - destruct (we d =? 0); apply (wext_trans _ _ _ H1); apply IH.
  - apply (wext_trans _ _ _ H1); apply IH.
Qed.

Lemma set_we_all_wxt : forall w ps t,
  (forall p d, In p ps -> find (lru_iter p) t = Some d -> we d = 0 \/ we d = w) ->
  wxt t (set_we_all w ps t).
Proof.
  intros w ps. induction ps as [|p ps IH]; intros t Hv; [apply wxt_refl|].
  unfold set_we_all. cbn [fold_left]. fold (set_we_all w ps).
  apply (wxt_trans _ (upd (set_we w) (lru_iter p) t)).
  - intros q d Hd. destruct (find_upd_keeps (set_we w) (lru_iter p) t q d (fun _ => eq_refl) Hd) as [H|(Eq & H)].
    + exists d. auto.
    + exists (set_we w d). split; [exact H|]. intro Hw. cbn [set_we we]. subst q.
      destruct (Hv p d (or_introl eq_refl) Hd) as [E|E]; [contradiction|symmetry; exact E].
  - apply IH. intros p' d1 Hp' Hd1.
    destruct (find_upd_class (set_we w) (lru_iter p) t (lru_iter p') d1 (fun _ => eq_refl) Hd1) as [(_ & d0 & _ & ->)|(_ & H)].
    + right. reflexivity.
    + apply (Hv p' d1 (or_intror Hp') H).
Qed.

Lemma add_prefixes_wext : forall ps best s, wext s (fst (add_prefixes ps best s)).
Proof.
  intros ps best s. unfold add_prefixes.
  pose proof (walk_prefixes_wext ps s 0%nat []) as H1.
  pose proof (walk_prefixes_valid ps s 0%nat [] (fun p d (H : In p []) => match H with end)) as Hv.
  destruct (walk_prefixes ps s 0 []) as [[s1 ninv] valid]. cbn [fst snd] in H1, Hv.
  destruct (negb (Nat.eqb ninv 0) && negb best); [exact H1|].
  destruct (Nat.eqb ninv (length ps)); [exact H1|]. cbn [fst].
  apply (wext_trans _ _ _ H1). unfold wext. cbn [tr]. apply set_we_all_wxt.
  intros p d Hp Hd. left. apply (Hv p d Hp Hd).
Qed.

Lemma create_from_wext : forall p s, wext s (fst (create_from p s)).
Proof.
  intros p s. unfold create_from.
  pose proof (add_prefixes_wext (lru_variations p) true s) as H1.
  destruct (add_prefixes (lru_variations p) true s) as [s1 [| |w valid]]; exact H1.
Qed.

Lemma add_page_int_wext : forall l cr s, wext s (fst (fst (add_page_int l cr s))).
Proof.
  intros l cr s. unfold add_page_int.
  pose proof (trie_add_page_wext l cr s) as H1.
  destruct (trie_add_page l cr s) as [[s1 h] created]. cbn [fst] in H1.
  destruct (decide s1 l h) as [|p|]; try exact H1.
  pose proof (create_from_wext p s1) as H2.
  destruct (create_from p s1) as [s2 c]. cbn [fst] in *. apply (wext_trans _ _ _ H1 H2).
Qed.

Lemma store_links_wext : forall out path tg s, wext s (store_links out path tg s).
Proof.
  intros out path tg s. unfold store_links. destruct tg as [|t tg]; [apply wext_refl|].
  destruct (find path (tr s)) as [d0|]; [|apply wext_refl].
  destruct (push_stubs (t :: tg) (if out then outh d0 else inh d0) (stubs s)) as [st' h'].
  unfold wext. cbn [tr]. apply upd_wxt; intro d; destruct out; reflexivity.
Qed.

Lemma mstep_wext : forall c c', mstep c c' -> wext (SchedFacts.cs c) (SchedFacts.cs c').
Proof.
  intros c c' H. destruct H; cbn [SchedFacts.cs]; try apply wext_refl; try apply store_links_wext.
  - apply upd_wext; reflexivity.
  - apply add_page_int_wext.
  - apply add_page_int_wext.
Qed.

Lemma msteps_wext : forall c c', msteps c c' -> wext (SchedFacts.cs c) (SchedFacts.cs c').
Proof.
  intros c c' H. induction H as [c|c c1 c2 H1 H2 IH]; [apply wext_refl|].
  apply (wext_trans _ _ _ (mstep_wext _ _ H1) IH).
Qed.

Lemma batch_step_wext : forall fuel b s, wext s (snd (batch_step fuel b s)).
Proof.
  intros fuel b s. pose (a := mkA [] [] [] [] 0 [] [] (dflt s)).
  pose proof (batch_step_giter fuel (mkC b s a [] [])) as E. cbn [cb SchedFacts.cs] in E. rewrite E. cbn [snd].
  apply (msteps_wext _ _ (giter_msteps fuel (mkC b s a [] []))).
Qed.

Lemma rule_step_wext : forall r s, wext s (snd (rule_step r s)).
Proof.
  intros r s. rewrite rule_step_eq.
  assert (H1 : wext s (snd (rule_pre r s))).
  { unfold rule_pre. destruct (r_init r) as [[p k]|]; [|apply wext_refl]. cbn [snd]. unfold rule_setup.
    set (s0 := mkT (tr s) (nb s) (lastwe s) (stubs s) (aset p k (rules s)) (dflt s)).
    apply (wext_trans _ (fst (add_lru false p s0))).
    - apply (add_lru_wext false p s0).
    - apply upd_wext; reflexivity. }
  apply (wext_trans _ _ _ H1).
  generalize (fst (rule_pre r s)) (snd (rule_pre r s)). clear. intros r0 s0.
  unfold rule_dfs. destruct (r_pend r0 ++ r_stack r0) as [|[a pre] rest]; [apply wext_refl|].
  destruct (read_at a (tr s0)) as [x|]; [|apply wext_refl].
  destruct (page (rn_d x)); [|apply wext_refl].
  pose proof (add_page_int_wext (pre ++ stem (rn_d x)) false s0) as H.
  destruct (add_page_int (pre ++ stem (rn_d x)) false s0) as [[s1 n'] c']. exact H.
Qed.

Theorem co_step_wext : forall c s, wext s (snd (co_step c s)).
Proof.
  intros c s. unfold co_step. destruct (co_done c); [apply wext_refl|].
  destruct c as [b|r|q|n|lq]; cbn [snd]; try apply wext_refl.
  - pose proof (batch_step_wext (batch_fuel b) b s) as H.
    destruct (batch_step (batch_fuel b) b s) as [b' s']. exact H.
  - pose proof (rule_step_wext r s) as H. destruct (rule_step r s) as [r' s']. exact H.
Qed.

Theorem exec_wext : forall sched cs s, wext s (snd (exec_sched sched cs s)).
Proof.
  induction sched as [|i sched IH]; intros cs s; [apply wext_refl|].
  cbn [exec_sched]. destruct (nth_error cs i) as [c|]; [|apply IH].
  pose proof (co_step_wext c s) as H1. destruct (co_step c s) as [c' s']. cbn [snd] in H1.
  apply (wext_trans _ _ _ H1). apply IH.
Qed.

(* ====================================================================== *)
(* the link store only grows, chains only grow at the head                *)
(* ====================================================================== *)

Definition lext (s s' : traph) : Prop :=
  (exists more, stubs s' = stubs s ++ more) /\
  forall p d, find p (tr s) = Some d -> exists d', find p (tr s') = Some d' /\
    forall out x, In x (targets_of (stubs s) (head_dir out d)) -> In x (targets_of (stubs s') (head_dir out d')).

Lemma lext_refl : forall s, lext s s.
Proof.
  intro s. split; [exists []; rewrite app_nil_r; reflexivity|]. intros p d Hd. exists d. auto.
Qed.

Lemma lext_trans : forall s1 s2 s3, lext s1 s2 -> lext s2 s3 -> lext s1 s3.
Proof.
  intros s1 s2 s3 ((m1 & E1) & H1) ((m2 & E2) & H2). split.
  - exists (m1 ++ m2). rewrite E2, E1, app_assoc. reflexivity.
  - intros p d Hd. destruct (H1 p d Hd) as (d2 & Hd2 & K2). destruct (H2 p d2 Hd2) as (d3 & Hd3 & K3).
    exists d3. split; [exact Hd3|]. intros out x Hx. apply K3. apply K2. exact Hx.
Qed.

Lemma step_ok_lext : forall s s', step_ok s s' -> lext s s'.
Proof.
  intros s s' (_ & Hst & Hold & Hnew). split; [exists []; rewrite app_nil_r; exact Hst|].
  intros p d Hd. destruct (Hold p d Hd) as (d' & Hd' & _). exists d'. split; [exact Hd'|].
  destruct (Hnew p d' Hd') as [(d0 & Hd0 & Ho & Hi)|(Hn & _)]; [|congruence].
  rewrite Hd in Hd0. injection Hd0 as <-. rewrite Hst.
  intros out x Hx. destruct out; cbn [head_dir] in *; [rewrite Ho|rewrite Hi]; exact Hx.
Qed.

Lemma store_links_lext : forall out path tg s, Rbase s -> lext s (store_links out path tg s).
Proof.
  intros out path tg s HB.
  destruct tg as [|t tg]; [rewrite store_links_nil; apply lext_refl|].
  destruct (find path (tr s)) as [d0|] eqn:Ef.
  2:{ unfold store_links. rewrite Ef. apply lext_refl. }
  pose proof (B_stubs s HB) as Hst.
  destruct (store_links_shape out path (t :: tg) s d0 (fun E => nil_cons (eq_sym E)) Ef Hst (head_dir_ok s HB out path d0 Ef))
    as (news & h' & E & _ & _ & _ & Htg).
  rewrite E. split; [exists news; reflexivity|]. cbn [tr stubs].
  intros p d Hd.
  destruct (find_upd_keeps (set_head out h') path (tr s) p d (set_head_stem out h') Hd) as [H|(Ep & H)].
  - exists d. split; [exact H|]. intros o x Hx.
    rewrite targets_app; [exact Hx|exact Hst|apply (head_dir_ok s HB o p d Hd)].
  - exists (set_head out h' d). split; [exact H|]. subst p. rewrite Ef in Hd. injection Hd as <-.
    intros o x Hx. destruct (bool_out_cases o out) as [-> | ->].
    + rewrite set_head_same, Htg. apply in_or_app. right. exact Hx.
    + rewrite set_head_other. rewrite targets_app; [exact Hx|exact Hst|apply (head_dir_ok s HB _ path d0 Ef)].
Qed.

Lemma mstep_lext : forall c c', CInv c -> mstep c c' -> lext (SchedFacts.cs c) (SchedFacts.cs c').
Proof.
  intros c c' [HS HB] H. pose proof (SI_good _ _ _ _ HS) as Hg. pose proof (SI_base _ _ _ _ HS) as Hb.
  destruct H; cbn [SchedFacts.cs] in *; try apply lext_refl; try (apply store_links_lext; exact Hb).
  - apply step_ok_lext. apply set_tree_upd_step; [apply neutral_set_crawled|exact Hg].
  - apply step_ok_lext. apply add_page_int_step. exact Hg.
  - apply step_ok_lext. apply add_page_int_step. exact Hg.
Qed.

Lemma msteps_lext : forall c c', msteps c c' -> CInv c -> CInv c' /\ lext (SchedFacts.cs c) (SchedFacts.cs c').
Proof.
  apply (msteps_ind2 CInv (fun c c' => lext (SchedFacts.cs c) (SchedFacts.cs c'))).
  - intro c. apply lext_refl.
  - intros c c1 c2. apply lext_trans.
  - intros c c' HI H. split; [apply (mstep_CInv c c' HI H)|apply (mstep_lext c c' HI H)].
Qed.

Lemma bstep_lext : forall b s a go gi, SInv s a go gi -> BInv b a -> lext s (snd (bstep b s)).
Proof.
  intros b s a go gi HS HB. unfold bstep. destruct (b_done b); [apply lext_refl|].
  pose proof (batch_step_giter (batch_fuel b) (mkC b s a go gi)) as E. cbn [cb SchedFacts.cs] in E.
  rewrite E. cbn [snd].
  apply (msteps_lext _ _ (giter_msteps (batch_fuel b) (mkC b s a go gi)) (conj HS HB)).
Qed.

(* a turn of any coroutine of a run *)
Theorem co_step_lext : forall a0 jobs cs s a go gi i c, HInv a0 jobs cs s a go gi ->
  nth_error cs i = Some c -> lext s (snd (co_step c s)).
Proof.
  intros a0 jobs cs s a go gi i c HG Hi.
  pose proof (H_s _ _ _ _ _ _ _ HG) as Gs.
  destruct (F2_nth _ _ _ _ _ _ _ (H_c _ _ _ _ _ _ _ HG) Hi) as (j & Hj & HJ).
  destruct j as [d|p k|ps|out auto|w ps inb int outb], c as [b|r|q|n|lq]; cbn [JInv] in HJ; try contradiction.
  - rewrite co_step_batch. cbn [snd]. apply (bstep_lext b s a go gi Gs HJ).
  - rewrite co_step_rule. cbn [snd].
    destruct (rstep_inv r s a go gi Gs HJ) as (a' & _ & _ & _ & _ & St). apply step_ok_lext. exact St.
  - rewrite co_step_pages. cbn [snd]. apply lext_refl.
  - destruct (co_step_net n s) as (n' & E). rewrite E. apply lext_refl.
  - destruct (co_step_links lq s) as (n' & E). rewrite E. apply lext_refl.
Qed.

(* the chain hanging from a head that was valid does not change *)
Lemma lext_old_head : forall s s' h, lext s s' -> stubs_ok (stubs s) -> head_ok (length (stubs s)) h ->
  targets_of (stubs s') h = targets_of (stubs s) h /\ head_ok (length (stubs s')) h.
Proof.
  intros s s' h ((more & E) & _) Hst Hh. rewrite E. split; [apply targets_app; assumption|].
  apply (head_ok_mono (length (stubs s))); [rewrite app_length; lia|exact Hh].
Qed.
