(* GenTraphPReach.v — when does the condition of GenTraphPFacts.v (every node carrying the rule flag has its anchor in the RAM rule
   table: anchors_known) hold on `run d rs h` ?  The flags live in the trie file, the compiled rules in RAM; add_rule / remove_rule
   keep them in step, and nothing else touches either of them except reopen, which rebuilds the RAM table from the rules it is
   given.  So the condition holds on every history whose reopen requests re-supply a rule for every anchor flagged in the file at
   that moment (reopens_resupply; in particular on every history without reopen), and the theorems of GenTraphPFacts.v hold there
   without any extra hypothesis.  The proof goes through the abstract state (Spec.v) related to the model by Rcore: there the
   flags and the rules are two fields that most requests copy.
   PLAN
     1. association lists: aget after aset / adel
     2. the abstract requests that copy a_flags and a_rules (fr)
     3. cov (every flagged anchor has a rule) along sstep
     4. run_anchors_known, no_reopen_resupply
     5. the theorems of GenTraphPFacts.v on such histories *)
From Coq Require Import List NArith Bool Lia Arith.
Import ListNotations.
From Traph Require Import Bytes Consts Layout Helpers Rules Tst TstDefs Traph Spec Ops RefDefs Traphw TraceDefs Codec CodecFacts
  TstFacts Store StoreFacts StoreFacts2 RefFull GenStorage GenNode GenNodeFacts GenTrie GenTrieFacts GenTrieW GenTrieWDefs
  GenTraphW GenTraphWDefs GenTraphP GenTraphPDefs.
From Traph Require Import ViewFacts ViewFacts2 RefCore RefCore4 RefCore5 GenTraphPFacts1 GenTraphPFacts.
Open Scope N_scope.

Arguments N.add : simpl never.
Arguments N.mul : simpl never.
Arguments N.pow : simpl never.

(* ====================================================================================== *)
(* 1. association lists                                                                   *)
(* ====================================================================================== *)
Lemma beq_sym_false : forall a b : bytes, beq a b = false -> beq b a = false.
Proof.
  intros a b H. destruct (beq b a) eqn:E; [|reflexivity]. apply beq_eq in E. subst b. rewrite beq_refl in H. discriminate H.
Qed.

Lemma aget_aset : forall (A : Type) x k (v : A) m, aget x (aset k v m) = if beq x k then Some v else aget x m.
Proof.
  intros A x k v m. induction m as [|[k' v'] m IH]; [reflexivity|].
  cbn [aset aget]. destruct (beq k k') eqn:Ekk.
  - apply beq_eq in Ekk. subst k'. cbn [aget]. destruct (beq x k); reflexivity.
  - cbn [aget]. destruct (beq x k') eqn:Exk'.
    + apply beq_eq in Exk'. subst k'. rewrite (beq_sym_false _ _ Ekk). reflexivity.
    + exact IH.
Qed.

Lemma aget_adel_other : forall (A : Type) x k (m : list (bytes * A)), x <> k -> aget x (adel k m) = aget x m.
Proof.
  intros A x k m Hne. induction m as [|[k' v'] m IH]; [reflexivity|].
  cbn [adel aget]. destruct (beq k k') eqn:Ekk.
  - apply beq_eq in Ekk. subst k'. destruct (beq x k) eqn:E; [apply beq_eq in E; contradiction|reflexivity].
  - cbn [aget]. rewrite IH. reflexivity.
Qed.

(* ====================================================================================== *)
(* 2. the abstract requests that copy the flags and the rules                             *)
(* ====================================================================================== *)
Definition cov (a : astate) : Prop := forall l, In l (a_flags a) -> aget l (a_rules a) <> None.
Definition fr (a a' : astate) : Prop := a_flags a' = a_flags a /\ a_rules a' = a_rules a.

Lemma fr_refl : forall a, fr a a.
Proof. intro a. split; reflexivity. Qed.
Lemma fr_trans : forall a b c, fr a b -> fr b c -> fr a c.
Proof. intros a b c [H1 H2] [H3 H4]. split; congruence. Qed.
Lemma cov_fr : forall a a', fr a a' -> cov a -> cov a'.
Proof. intros a a' [H1 H2] H l Hl. rewrite H2. apply H. rewrite <- H1. exact Hl. Qed.

Lemma fold_fr : forall (T E : Type) (proj : T -> astate) (f : T -> E -> T),
  (forall t e, fr (proj t) (proj (f t e))) -> forall es t, fr (proj t) (proj (fold_left f es t)).
Proof.
  intros T E proj f Hf es. induction es as [|e es IH]; intro t; [apply fr_refl|].
  cbn [fold_left]. eapply fr_trans; [apply Hf|apply IH].
Qed.

Lemma acreate_fr : forall x a, fr a (fst (acreate x a)).
Proof.
  intros x a. unfold acreate. cbv zeta.
  destruct (dedup_bytes _ []); split; reflexivity.
Qed.

Lemma s_add_page_fr : forall l cr a, fr a (fst (fst (s_add_page l cr a))).
Proof.
  intros l cr a. unfold s_add_page. cbv zeta.
  match goal with |- context [adecide ?x l] => set (a1 := x) end.
  assert (H1 : fr a a1) by (split; reflexivity).
  destruct (adecide a1 l) as [|p|]; cbn [fst]; try exact H1.
  pose proof (acreate_fr p a1) as H2. destruct (acreate p a1) as [a2 c]. cbn [fst] in *. exact (fr_trans _ _ _ H1 H2).
Qed.

Definition p3 (x : astate * N * list (N * list bytes)) : astate := fst (fst x).
Definition p4 (x : astate * N * list (N * list bytes) * list bytes) : astate := fst (fst (fst x)).

Lemma s_add_pages_fr : forall ls cr a, fr a (p3 (s_add_pages ls cr a)).
Proof.
  intros ls cr a. unfold s_add_pages.
  apply (fold_fr _ _ p3 _) with (t := (a, 0, [])).
  intros [[a1 n] c] l. pose proof (s_add_page_fr l cr a1) as H. destruct (s_add_page l cr a1) as [[a2 n2] c2]. exact H.
Qed.

(* `see`: a page met in a link, inserted once *)
Definition see (cr : bool) (l : bytes) (st : astate * N * list (N * list bytes) * list bytes) :=
  let '(a, n, c, seen) := st in
  if mem_bytes l seen then (a, n, c, seen)
  else let '(a', n', c') := s_add_page l cr a in (a', n + n', c ++ c', l :: seen).

Lemma see_fr : forall cr l st, fr (p4 st) (p4 (see cr l st)).
Proof.
  intros cr l [[[a n] c] seen]. unfold see. destruct (mem_bytes l seen); [apply fr_refl|].
  pose proof (s_add_page_fr l cr a) as H. destruct (s_add_page l cr a) as [[a2 n2] c2]. exact H.
Qed.

Lemma add_link_fr : forall p a, fr a (add_link p a).
Proof. intros. split; reflexivity. Qed.

Lemma s_add_links_fr : forall links a, fr a (fst (s_add_links links a)).
Proof.
  intros links a. unfold s_add_links. cbv zeta.
  match goal with |- context [fold_left ?f links (a, 0, [], [])] =>
    pose proof (fold_fr _ _ p4 f) as HF; specialize (HF ltac:(intros t [x y]; eapply fr_trans; apply (see_fr false)) links (a, 0, [], []));
    destruct (fold_left f links (a, 0, [], [])) as [[[a1 n] c] seen]
  end.
  cbn [fst]. eapply fr_trans; [exact HF|].
  apply (fold_fr _ _ (fun a => a) (fun a p => add_link p a)). intros t e. apply add_link_fr.
Qed.

Lemma mark_crawled_fr : forall l a, fr a (mark_crawled l a).
Proof. intros. split; reflexivity. Qed.

Lemma s_batch_fr : forall data a, fr a (fst (s_batch data a)).
Proof.
  intros data a. unfold s_batch.
  match goal with |- context [fold_left ?f data (a, 0, [], [])] => set (F := f) end.
  cut (forall t e, fr (p4 t) (p4 (F t e))).
  { intro Hstep. pose proof (fold_fr _ _ p4 F Hstep data (a, 0, [], [])) as HF.
    destruct (fold_left F data (a, 0, [], [])) as [[[a1 n] c] seen]. exact HF. }
  intros [[[a1 n] c] seen] [src tgts]. unfold F.
  (* the source *)
  assert (H1 : fr a1 (p4 (if mem_bytes src seen then (mark_crawled src a1, n, c, seen)
                          else let '(a', n', c') := s_add_page src true a1 in (a', n + n', c ++ c', src :: seen)))).
  { destruct (mem_bytes src seen); [apply mark_crawled_fr|].
    pose proof (s_add_page_fr src true a1) as H. destruct (s_add_page src true a1) as [[a2 n2] c2]. exact H. }
  destruct (if mem_bytes src seen then (mark_crawled src a1, n, c, seen)
            else let '(a', n', c') := s_add_page src true a1 in (a', n + n', c ++ c', src :: seen)) as [[[a2 n2] c2] seen2].
  eapply fr_trans; [exact H1|].
  apply (fold_fr _ _ p4). intros [[[a3 n3] c3] seen3] t.
  pose proof (see_fr false t (a3, n3, c3, seen3)) as H. unfold see in H.
  destruct (mem_bytes t seen3).
  - exact (fr_trans _ _ _ H (add_link_fr _ _)).
  - destruct (s_add_page t false a3) as [[a4 n4] c4]. exact (fr_trans _ _ _ H (add_link_fr _ _)).
Qed.

Lemma upd_known_fr : forall f a, fr a (upd_known f a).
Proof. intros. split; reflexivity. Qed.
Lemma upd_pref_fr : forall f a, fr a (upd_pref f a).
Proof. intros. split; reflexivity. Qed.

Lemma s_create_fr : forall ps a, fr a (fst (s_create ps a)).
Proof.
  intros ps a. unfold s_create. cbv zeta. destruct (existsb _ ps); [apply upd_known_fr|].
  destruct ps; split; reflexivity.
Qed.

Lemma s_delete_fr : forall w ps a, fr a (fst (s_delete w ps a)).
Proof. intros w ps a. unfold s_delete. destruct (forallb _ ps); [apply upd_pref_fr|apply fr_refl]. Qed.

Lemma s_add_prefix_fr : forall p w a, fr a (fst (s_add_prefix p w a)).
Proof. intros p w a. unfold s_add_prefix. cbv zeta. destruct (amem p (a_pref a)); split; reflexivity. Qed.

Lemma s_remove_prefix_fr : forall p w a, fr a (fst (s_remove_prefix p w a)).
Proof. intros p w a. unfold s_remove_prefix. cbv zeta. destruct (_ || _); split; reflexivity. Qed.

Lemma s_move_prefix_fr : forall p wt ws a, fr a (fst (s_move_prefix p wt ws a)).
Proof.
  intros p wt ws a. unfold s_move_prefix. pose proof (s_remove_prefix_fr p ws a) as H.
  destruct (s_remove_prefix p ws a) as [a1 r]. cbn [fst] in H.
  destruct r; try exact H. exact (fr_trans _ _ _ H (s_add_prefix_fr p wt a1)).
Qed.

(* ====================================================================================== *)
(* 3. cov along the requests                                                              *)
(* ====================================================================================== *)
Lemma s_add_rule_cov : forall p k write order a, cov a -> cov (fst (s_add_rule p k write order a)).
Proof.
  intros p k write order a H. unfold s_add_rule. cbv zeta.
  destruct (negb write).
  - cbn [fst]. intros l Hl. cbn [a_flags a_rules] in *. rewrite aget_aset. destruct (beq l p); [discriminate|]. exact (H l Hl).
  - match goal with |- context [s_add_pages order false ?x] => set (a1 := x) end.
    assert (H1 : cov a1).
    { intros l Hl. unfold a1 in *. cbn [a_flags a_rules] in *. rewrite aget_aset.
      destruct (beq l p) eqn:E; [discriminate|]. apply In_add_set in Hl. destruct Hl as [->|Hl]; [rewrite beq_refl in E; discriminate E|].
      exact (H l Hl). }
    pose proof (s_add_pages_fr order false a1) as H2. destruct (s_add_pages order false a1) as [[a2 n] c].
    cbn [fst]. exact (cov_fr _ _ H2 H1).
Qed.

Lemma s_install_cov : forall rs write a, cov a -> cov (s_install rs write a).
Proof.
  intros rs write. unfold s_install. induction rs as [|[p k] rs IH]; intros a H; [exact H|].
  cbn [fold_left]. apply IH. apply s_add_rule_cov. exact H.
Qed.

(* the RAM table after installing without writing *)
Lemma s_add_rule_nowrite : forall p k order a, fst (s_add_rule p k false order a) =
  mkA (a_pages a) (a_known a) (a_pref a) (a_links a) (a_last a) (a_flags a) (aset p k (a_rules a)) (a_dflt a).
Proof. reflexivity. Qed.

Lemma s_install_nowrite : forall rs a l,
  a_flags (s_install rs false a) = a_flags a /\
  (In l (map fst rs) \/ aget l (a_rules a) <> None -> aget l (a_rules (s_install rs false a)) <> None).
Proof.
  unfold s_install. induction rs as [|[p k] rs IH]; intros a l.
  - cbn [fold_left map]. split; [reflexivity|]. intros [[]|H]; exact H.
  - cbn [fold_left map fst]. rewrite s_add_rule_nowrite. destruct (IH (mkA (a_pages a) (a_known a) (a_pref a) (a_links a) (a_last a)
      (a_flags a) (aset p k (a_rules a)) (a_dflt a)) l) as [I1 I2]. cbn [a_flags a_rules] in *.
    split; [exact I1|]. intros H. apply I2. rewrite aget_aset.
    destruct (beq l p) eqn:E; [right; discriminate|].
    destruct H as [[Hp|H]|H]; [subst p; rewrite beq_refl in E; discriminate E|left; exact H|right; exact H].
Qed.

(* one request: the reopen case needs the rules to be re-supplied *)
Definition resupplies (s : traph) (o : op) : Prop :=
  match o with
  | OReopen _ rs' => forall l d, wf_lru l -> nodeof s l = Some d -> rule d = true -> In l (map fst rs')
  | _ => True
  end.

Lemma sstep_cov : forall s a o, Rcore s a -> wf_op o -> resupplies s o -> cov a -> cov (fst (sstep s a o)).
Proof.
  intros s a o HR Hwf Hre H. destruct o; cbn [sstep resupplies wf_op] in *.
  - unfold rep3. pose proof (s_add_page_fr l cr a) as F. destruct (s_add_page l cr a) as [[a1 n] c]. exact (cov_fr _ _ F H).
  - unfold rep3. pose proof (s_add_pages_fr ls cr a) as F. destruct (s_add_pages ls cr a) as [[a1 n] c]. exact (cov_fr _ _ F H).
  - exact (cov_fr _ _ (s_add_links_fr links a) H).
  - exact (cov_fr _ _ (s_batch_fr data a) H).
  - exact (cov_fr _ _ (s_create_fr ps a) H).
  - exact (cov_fr _ _ (s_delete_fr w ps a) H).
  - exact (cov_fr _ _ (s_add_prefix_fr p w a) H).
  - exact (cov_fr _ _ (s_remove_prefix_fr p w a) H).
  - exact (cov_fr _ _ (s_move_prefix_fr p wt ws a) H).
  - apply s_add_rule_cov. exact H.
  - (* remove_rule *)
    unfold s_remove_rule. destruct (aget p (a_rules a)) as [k|]; [|exact H].
    destruct (mem_bytes p (a_known a)) eqn:Ek; cbn [fst]; intros l Hl; cbn [a_flags a_rules] in *.
    + apply filter_In in Hl. destruct Hl as [Hl Hb]. rewrite aget_adel_other; [exact (H l Hl)|].
      intros ->. rewrite beq_refl in Hb. discriminate Hb.
    + rewrite aget_adel_other; [exact (H l Hl)|]. intros ->.
      apply mem_bytes_nIn in Ek. apply Ek. apply (R_known s a HR p Hwf).
      apply (R_flags s a HR p Hwf) in Hl. destruct Hl as (d & Hd & _). rewrite Hd. discriminate.
  - (* reopen *)
    cbn [fst]. unfold s_reopen. intros l Hl.
    set (a1 := mkA (a_pages a) (a_known a) (a_pref a) (a_links a) (a_last a) (a_flags a) [] d) in *.
    destruct (s_install_nowrite rs a1 l) as [I1 I2]. rewrite I1 in Hl. change (a_flags a1) with (a_flags a) in Hl.
    apply I2. left.
    pose proof (R_flags_wf s a HR) as Hfw. rewrite Forall_forall in Hfw. pose proof (Hfw l Hl) as Hwl.
    apply (R_flags s a HR l Hwl) in Hl. destruct Hl as (d0 & Hd & Hr). exact (Hre l d0 Hwl Hd Hr).
  - (* clear *)
    cbn [fst]. unfold s_clear. cbv zeta. destruct ors as [rs|].
    + apply s_install_cov. intros l [].
    + intros l [].
Qed.

(* ====================================================================================== *)
(* 4. the histories on which every flagged anchor has its rule in RAM                     *)
(* ====================================================================================== *)
Lemma anchors_known_of_Rcore : forall s a, Rcore s a -> cov a -> anchors_known s.
Proof.
  intros s a HR Hc l d Hl Hd Hr. rewrite (R_rules s a HR). apply Hc. apply (R_flags s a HR l Hl). exists d. auto.
Qed.

(* every reopen of the history re-supplies a rule for each anchor flagged in the file at that moment *)
Fixpoint reopens_resupply (h : list op) (s : traph) : Prop :=
  match h with
  | [] => True
  | o :: h' => resupplies s o /\ reopens_resupply h' (fst (Ops.step s o))
  end.

Lemma run2_cov : forall h s a, Rcore s a -> Forall wf_op h -> reopens_resupply h s -> cov a ->
  cov (snd (fst (run2 h s a))).
Proof.
  induction h as [|o h IH]; intros s a HR Hh Hre Hc; [exact Hc|].
  inversion Hh as [|? ? Ho Hh']; subst. destruct Hre as [Hre1 Hre2]. cbn [run2].
  pose proof (step_Rcore s a o HR Ho) as (H1 & _).
  pose proof (sstep_cov s a o HR Ho Hre1 Hc) as H2.
  destruct (Ops.step s o) as [s1 r]. destruct (sstep s a o) as [a1 r']. cbn [fst snd] in *.
  specialize (IH s1 a1 H1 Hh' Hre2 H2).
  destruct (run2 h s1 a1) as [[s2 a2] rs]. exact IH.
Qed.

Theorem run_anchors_known : forall d rs h, wf_rules rs -> Forall wf_op h ->
  reopens_resupply h (init d rs) -> anchors_known (run d rs h).
Proof.
  intros d rs h Hrs Hh Hre.
  destruct (run_Rcore d rs h Hrs Hh) as [HR _].
  apply (anchors_known_of_Rcore _ _ HR). unfold srun.
  apply run2_cov; [apply init_Rcore; exact Hrs|exact Hh|exact Hre|].
  unfold s_init. apply s_install_cov. intros l [].
Qed.

(* in particular: no reopen at all *)
Definition not_reopen (o : op) : Prop := match o with OReopen _ _ => False | _ => True end.

Lemma no_reopen_resupply : forall h s, Forall not_reopen h -> reopens_resupply h s.
Proof.
  induction h as [|o h IH]; intros s Hh; [exact I|].
  inversion Hh as [|? ? Ho Hh']; subst. split; [|apply IH; exact Hh'].
  destruct o; try exact I. destruct Ho.
Qed.

(* ====================================================================================== *)
(* 5. the theorems of GenTraphPFacts.v on such histories                                  *)
(* ====================================================================================== *)
Theorem py_traph_add_page_reach : forall d rs h, wf_rules rs -> Forall wf_op h -> reopens_resupply h (init d rs) ->
  let s := run d rs h in
  forall rm hd sg lru cr, ramrep s rm -> hrep s hd sg -> wf_lru lru ->
  let r := add_page_int lru cr s in
  let s' := fst (fst r) in
  nb s' * 128 < 2 ^ 64 -> lastwe s + 1 < 2 ^ 32 ->
  exists hd' sg', py_traph_add_page rm hd sg lru cr = Some (hd', sg', report_of (snd (fst r)) (snd r)) /\
    hrep s' hd' sg' /\ ramrep s' rm.
Proof.
  intros d rs h Hrs Hh Hre s. apply (py_traph_add_page_spec' d rs h Hrs Hh). apply run_anchors_known; assumption.
Qed.

Theorem py_traph_add_pages_reach : forall d rs h, wf_rules rs -> Forall wf_op h -> reopens_resupply h (init d rs) ->
  let s := run d rs h in
  forall rm hd sg lrus cr, ramrep s rm -> hrep s hd sg -> Forall wf_lru lrus ->
  let r := add_pages lrus cr s in
  let s' := fst r in
  nb s' * 128 < 2 ^ 64 -> lastwe s + N.of_nat (length lrus) < 2 ^ 32 ->
  exists n c, snd r = Report n c /\
  exists hd' sg', py_traph_add_pages rm hd sg lrus cr = Some (hd', sg', report_of n c) /\ hrep s' hd' sg' /\ ramrep s' rm.
Proof.
  intros d rs h Hrs Hh Hre s. apply (py_traph_add_pages_spec d rs h Hrs Hh). apply run_anchors_known; assumption.
Qed.

Print Assumptions run_anchors_known.
Print Assumptions py_traph_add_page_reach.
Print Assumptions py_traph_add_pages_reach.
