(* CutFacts3.v — C18, part 9: the write list of every request appends the blocks of a
   new node as one uninterrupted group, and the main block of the group does not carry
   the page bit ([grouped]).  Hence in every cut the main blocks that carry the page bit
   have all their tail blocks ([pclosed]).  Then the theorems on the cuts of a request:
   reads are total, the page scan of a cut is included in the page scan of the completed
   files (and in the pages of the completed tree), link lists read in the cut are those
   of the completed files. *)
From Coq Require Import List NArith Bool Lia Arith.
Import ListNotations.
From Traph Require Import Bytes Consts Helpers Rules Tst TstDefs Traph Traphw Ops RefDefs
  TstFacts LinkFacts TraceDefs TraceFacts TraceFacts2 TraceFacts3 TraceFacts6 Store StoreFacts
  CutFacts CutFacts2.
Open Scope N_scope.

(* ====================================================================== *)
(* Grouped write lists                                                      *)
(* ====================================================================== *)
Definition not_app (w : wr) : Prop := match w with TApp _ => False | _ => True end.

Inductive grouped : list wr -> Prop :=
| g_nil : grouped []
| g_new : forall d ws, page d = false -> grouped ws -> grouped (new_blocks d ++ ws)
| g_other : forall w ws, not_app w -> grouped ws -> grouped (w :: ws).

Lemma grouped_app : forall a b, grouped a -> grouped b -> grouped (a ++ b).
Proof.
  intros a b Ha Hb. induction Ha as [|d ws Hd _ IH|w ws Hw _ IH].
  - exact Hb.
  - rewrite <- app_assoc. apply g_new; assumption.
  - cbn [app]. apply g_other; assumption.
Qed.

Lemma grouped_one : forall w, not_app w -> grouped [w].
Proof. intros w H. apply g_other; [exact H|apply g_nil]. Qed.

Lemma grouped_new : forall d, page d = false -> grouped (new_blocks d).
Proof. intros d H. rewrite <- (app_nil_r (new_blocks d)). apply g_new; [exact H|apply g_nil]. Qed.

Lemma grouped_if_set : forall (c : bool) a b, grouped (if c then [TSet a b] else []).
Proof. intros [|] a b; [apply grouped_one; exact I|apply g_nil]. Qed.

Lemma grouped_lapps : forall l, grouped (map LApp l).
Proof. induction l as [|x l IH]; [apply g_nil|cbn [map]; apply g_other; [exact I|exact IH]]. Qed.

Lemma here_w_grouped : forall flag rest s pa nb cx, grouped (here_w flag rest s pa nb cx).
Proof.
  intros flag rest s pa nb cx. unfold here_w. destruct cx as [|pd la ra ca isleft|pd la ra].
  - apply grouped_app; [apply grouped_new; reflexivity|apply grouped_if_set].
  - apply grouped_app; [apply grouped_new; reflexivity|].
    apply grouped_app; [apply grouped_one; exact I|apply grouped_if_set].
  - apply grouped_app; [apply grouped_new; reflexivity|apply grouped_one; exact I].
Qed.

Lemma insw_grouped : forall flag stems pa nb cx t, grouped (insw flag stems pa nb cx t).
Proof.
  intros flag stems. induction stems as [|s rest IHs]; intros pa nb cx t; [apply g_nil|].
  revert cx. induction t as [|d l IHl c _ r IHr]; intro cx.
  - rewrite insw_Lf. apply grouped_app; [apply here_w_grouped|apply IHs].
  - rewrite insw_Nd. destruct (lex s (stem d)).
    + cbv zeta. apply grouped_app; [apply grouped_if_set|apply IHs].
    + apply IHl.
    + apply IHr.
Qed.

Lemma add_lru_w_grouped : forall flag l s, grouped (add_lru_w flag l s).
Proof. intros. apply insw_grouped. Qed.

Lemma node_write_grouped : forall l s, grouped (node_write l s).
Proof.
  intros l s. unfold node_write. destruct (find_sub (lru_iter l) (tr s)) as [[|d a c r]|]; try apply g_nil.
  apply grouped_one. exact I.
Qed.

Lemma trie_add_page_w_grouped : forall l cr s, grouped (trie_add_page_w l cr s).
Proof.
  intros l cr s. unfold trie_add_page_w. destruct (add_lru false l s) as [s1 h].
  apply grouped_app; [apply add_lru_w_grouped|].
  destruct (find (lru_iter l) (tr s1)) as [d|]; [|apply g_nil].
  destruct (page d); [destruct (cr && negb (crawled d)); [|apply g_nil]|]; apply node_write_grouped.
Qed.

Lemma walk_prefixes_w_grouped : forall ps s, grouped (walk_prefixes_w ps s).
Proof.
  induction ps as [|p ps IH]; intro s; [apply g_nil|]. cbn [walk_prefixes_w].
  apply grouped_app; [apply add_lru_w_grouped|apply IH].
Qed.

Lemma set_we_w_grouped : forall w ps s, grouped (set_we_w w ps s).
Proof.
  intros w. induction ps as [|p ps IH]; intro s; [apply g_nil|]. cbn [set_we_w].
  apply grouped_app; [apply node_write_grouped|apply IH].
Qed.

Lemma add_prefixes_w_grouped : forall ps best s, grouped (add_prefixes_w ps best s).
Proof.
  intros ps best s. unfold add_prefixes_w. destruct (walk_prefixes ps s 0 []) as [[s1 ninv] valid].
  apply grouped_app; [apply walk_prefixes_w_grouped|].
  destruct (negb (Nat.eqb ninv 0) && negb best); [apply g_nil|].
  destruct (Nat.eqb ninv (length ps)); [apply g_nil|].
  apply g_other; [exact I|apply set_we_w_grouped].
Qed.

Lemma add_page_int_w_grouped : forall l cr s, grouped (add_page_int_w l cr s).
Proof.
  intros l cr s. unfold add_page_int_w. destruct (trie_add_page l cr s) as [[s1 h] c].
  apply grouped_app; [apply trie_add_page_w_grouped|].
  destruct (decide s1 l h); try apply g_nil. apply add_prefixes_w_grouped.
Qed.

Lemma add_pages_w_grouped : forall ls cr s, grouped (add_pages_w ls cr s).
Proof.
  intros ls cr s. unfold add_pages_w.
  apply (fold_pres_o _ _ (fun x : traph * list wr => grouped (snd x))); [|apply g_nil].
  intros [s0 w0] l H. cbn [snd] in *. apply grouped_app; [exact H|apply add_page_int_w_grouped].
Qed.

Lemma store_links_w_grouped : forall out l tgs s, grouped (store_links_w out l tgs s).
Proof.
  intros out l tgs s. unfold store_links_w. destruct tgs as [|t0 tgs]; [apply g_nil|].
  destruct (find (lru_iter l) (tr s)) as [d|]; [|apply g_nil].
  apply grouped_app; [apply grouped_lapps|apply node_write_grouped].
Qed.

Lemma flush_links_w_grouped : forall out mm s, grouped (flush_links_w out mm s).
Proof.
  intros out mm s. unfold flush_links_w.
  apply (fold_pres_o _ _ (fun x : traph * list wr => grouped (snd x))); [|apply g_nil].
  intros [s0 w0] [p others] H. cbn [snd] in *. apply grouped_app; [exact H|apply store_links_w_grouped].
Qed.

Lemma add_links_w_grouped : forall links s, grouped (add_links_w links s).
Proof.
  intros links s. unfold add_links_w.
  match goal with |- context [fold_left ?f links ?x0] =>
    assert (H1 : grouped (snd (fst (fst (fst (fold_left f links x0)))))) end.
  { apply (fold_pres_o _ _ (fun x : traph * list wr * list bytes * list (bytes * list bytes)
                                     * list (bytes * list bytes)
                            => grouped (snd (fst (fst (fst x)))))); [|apply g_nil].
    intros [[[[s0 w0] seen0] outs0] ins0] [a b] Ha. cbn [fst snd] in Ha.
    destruct (mem_bytes a seen0).
    - destruct (mem_bytes b seen0); cbn [fst snd]; [exact Ha|].
      apply grouped_app; [exact Ha|apply add_page_int_w_grouped].
    - destruct (mem_bytes b (a :: seen0)); cbn [fst snd].
      + apply grouped_app; [exact Ha|apply add_page_int_w_grouped].
      + apply grouped_app; [|apply add_page_int_w_grouped].
        apply grouped_app; [exact Ha|apply add_page_int_w_grouped]. }
  destruct (fold_left _ links _) as [[[[s1 w] seen] outs] ins]. cbn [fst snd] in H1.
  apply grouped_app; [exact H1|]. apply grouped_app; apply flush_links_w_grouped.
Qed.

Lemma batch_crawl_w_grouped : forall data s, grouped (batch_crawl_w data s).
Proof.
  intros data s. unfold batch_crawl_w.
  match goal with |- context [fold_left ?f data ?x0] =>
    assert (H1 : grouped (snd (fst (fst (fold_left f data x0))))) end.
  { apply (fold_pres_o _ _ (fun x : traph * list wr * list bytes * list (bytes * list bytes)
                            => grouped (snd (fst (fst x))))); [|apply g_nil].
    intros [[[s0 w0] seen0] ins0] [src tgts] Ha. cbn [fst snd] in Ha.
    match goal with |- context [if mem_bytes src seen0 then ?A else ?B] =>
      assert (H2 : grouped (snd (fst (if mem_bytes src seen0 then A else B)))) end.
    { destruct (mem_bytes src seen0).
      - destruct (find (lru_iter src) (tr s0)) as [d|]; [|exact Ha].
        destruct (crawled d); cbn [fst snd]; [exact Ha|].
        apply grouped_app; [exact Ha|apply node_write_grouped].
      - cbn [fst snd]. apply grouped_app; [exact Ha|apply add_page_int_w_grouped]. }
    match goal with |- context [if mem_bytes src seen0 then ?A else ?B] =>
      destruct (if mem_bytes src seen0 then A else B) as [[s2 w2] seen2] end.
    cbn [fst snd] in H2.
    match goal with |- context [fold_left ?g tgts ?y0] =>
      assert (H3 : grouped (snd (fst (fst (fold_left g tgts y0))))) end.
    { apply (fold_pres_o _ _ (fun x : traph * list wr * list bytes * list (bytes * list bytes)
                              => grouped (snd (fst (fst x))))); [|exact H2].
      intros [[[s3 w3] seen3] ins3] t Hb. cbn [fst snd] in Hb.
      destruct (mem_bytes t seen3); cbn [fst snd]; [exact Hb|].
      apply grouped_app; [exact Hb|apply add_page_int_w_grouped]. }
    destruct (fold_left _ tgts _) as [[[s4 w4] seen4] ins4]. cbn [fst snd] in *.
    apply grouped_app; [exact H3|apply store_links_w_grouped]. }
  destruct (fold_left _ data _) as [[[s1 w] seen] ins]. cbn [fst snd] in H1.
  apply grouped_app; [exact H1|apply flush_links_w_grouped].
Qed.

Lemma delete_webentity_w_grouped : forall w ps s, grouped (delete_webentity_w w ps s).
Proof.
  intros w ps s. unfold delete_webentity_w. destruct (delete_webentity w ps s) as [s' []]; try apply g_nil.
  apply (fold_pres_o _ _ (fun x : traph * list wr => grouped (snd x))); [|apply g_nil].
  intros [s0 w0] p H. cbn [snd] in *. apply grouped_app; [exact H|apply node_write_grouped].
Qed.

Lemma add_prefix_w_grouped : forall p w s, grouped (add_prefix_w p w s).
Proof.
  intros p w s. unfold add_prefix_w. apply grouped_app; [apply add_lru_w_grouped|].
  destruct (add_prefix p w s) as [s' []]; try apply g_nil. apply node_write_grouped.
Qed.

Lemma remove_prefix_w_grouped : forall p w s, grouped (remove_prefix_w p w s).
Proof.
  intros p w s. unfold remove_prefix_w. apply grouped_app; [apply add_lru_w_grouped|].
  destruct (remove_prefix p w s) as [s' []]; try apply g_nil. apply node_write_grouped.
Qed.

Lemma move_prefix_w_grouped : forall p wt ws s, grouped (move_prefix_w p wt ws s).
Proof.
  intros p wt ws s. unfold move_prefix_w. apply grouped_app; [apply remove_prefix_w_grouped|].
  destruct (remove_prefix p ws s) as [s1 []]; try apply g_nil. apply add_prefix_w_grouped.
Qed.

Lemma add_rule_w_grouped : forall p k s, grouped (add_rule_w p k s).
Proof.
  intros p k s. unfold add_rule_w.
  destruct (add_lru false p _) as [s1 h].
  apply grouped_app; [apply add_lru_w_grouped|].
  apply grouped_app; [apply node_write_grouped|apply add_pages_w_grouped].
Qed.

Lemma remove_rule_w_grouped : forall p s, grouped (remove_rule_w p s).
Proof.
  intros p s. unfold remove_rule_w. destruct (remove_rule p s) as [s' []]; try apply g_nil.
  apply node_write_grouped.
Qed.

Lemma install_rules_w_grouped : forall rs s, grouped (install_rules_w rs s).
Proof.
  intros rs s. unfold install_rules_w.
  apply (fold_pres_o _ _ (fun x : traph * list wr => grouped (snd x))); [|apply g_nil].
  intros [s0 w0] [p k] H. cbn [snd] in *. apply grouped_app; [exact H|apply add_rule_w_grouped].
Qed.

Theorem step_w_grouped : forall s o, grouped (step_w s o).
Proof.
  intros s o. destruct o; cbn [step_w].
  - apply add_page_int_w_grouped.
  - apply add_pages_w_grouped.
  - apply add_links_w_grouped.
  - apply batch_crawl_w_grouped.
  - apply add_prefixes_w_grouped.
  - apply delete_webentity_w_grouped.
  - apply add_prefix_w_grouped.
  - apply remove_prefix_w_grouped.
  - apply move_prefix_w_grouped.
  - apply add_rule_w_grouped.
  - apply remove_rule_w_grouped.
  - apply g_nil.
  - unfold clear_w. apply g_other; [exact I|]. apply g_other; [exact I|].
    destruct ors as [rs|]; [apply install_rules_w_grouped|apply g_nil].
Qed.

(* ====================================================================== *)
(* Cuts of a grouped list of safe writes are pclosed                        *)
(* ====================================================================== *)
Lemma complete_app : forall l x, complete l = true -> complete (l ++ x) = true.
Proof.
  induction l as [|b l IH]; intros x H; [discriminate H|].
  cbn [app complete] in *. destruct (blk_has_tail b); [apply IH; exact H|reflexivity].
Qed.

Lemma closed_pclosed : forall f, closed f -> pclosed f.
Proof.
  intros f Hc i b E _ _. apply closed_complete; [exact Hc|]. apply nth_error_Some. congruence.
Qed.

Lemma node_blocks_In : forall d la ra ca b, In b (node_blocks d la ra ca) ->
  b = main_block d la ra ca \/ blk_is_tail b = true.
Proof.
  intros d la ra ca b [<-|Hin]; [left; reflexivity|right]. apply (tb_is_tail _ _ Hin).
Qed.

Lemma firstn_In' : forall (A : Type) n (l : list A) x, In x (firstn n l) -> In x l.
Proof.
  intros A n. induction n as [|n IH]; intros [|y l] x H; cbn [firstn] in H; try (exfalso; exact H).
  destruct H as [->|H]; [left; reflexivity|right; apply IH; exact H].
Qed.

(* files extended by a prefix of the blocks of a new node without the page bit *)
Lemma pclosed_partial : forall f d m, closed f -> page d = false ->
  pclosed (mkFiles (ft f ++ firstn m (node_blocks d 0 0 0)) (fhdr f) (fl f)).
Proof.
  intros f d m Hc Hd i b E Hm Hp. cbn [ft] in *.
  destruct (Nat.lt_ge_cases i (length (ft f))) as [Hlt|Hge].
  - rewrite skipn_app. apply complete_app. apply closed_complete; assumption.
  - exfalso. rewrite nth_error_app2 in E by exact Hge.
    apply nth_error_In, firstn_In', node_blocks_In in E. destruct E as [->|Ht]; [|congruence].
    rewrite main_page in Hp. congruence.
Qed.

Lemma closed_new : forall f d, closed f ->
  closed (mkFiles (ft f ++ node_blocks d 0 0 0) (fhdr f) (fl f)).
Proof.
  intros f d Hc i b E Hh. cbn [ft] in *. rewrite app_length.
  destruct (Nat.lt_ge_cases i (length (ft f))) as [Hlt|Hge].
  - rewrite nth_error_app1 in E by exact Hlt. pose proof (Hc i b E Hh). lia.
  - rewrite nth_error_app2 in E by exact Hge.
    destruct (node_blocks_chain _ _ _ _ _ _ E) as (_ & _ & C). destruct (C Hh) as (c & Ec & _).
    assert (S (i - length (ft f)) < length (node_blocks d 0 0 0))%nat by (apply nth_error_Some; congruence).
    lia.
Qed.

Lemma closed_other : forall f w, closed f -> not_app w -> safe_write f w -> closed (apply w f).
Proof.
  intros f w Hc Hw Hs. destruct w as [b|a b|n|st|]; cbn [apply]; try exact Hc; [destruct Hw|].
  cbn [safe_write] in Hs. destruct Hs as (i0 & old & -> & Eold & Hbel & _).
  intros i x E Hh. cbn [ft] in *. rewrite set_nth_length. rewrite tidx_S in E.
  assert (Hi0 : (i0 < length (ft f))%nat) by (apply nth_error_Some; congruence).
  destruct (Nat.eq_dec i i0) as [->|Hne].
  - rewrite set_nth_same in E by exact Hi0. injection E as <-.
    destruct Hbel as (_ & _ & _ & Eht & _). apply (Hc i0 old Eold).
    unfold blk_has_tail in *. rewrite Eht. exact Hh.
  - rewrite set_nth_other in E by exact Hne. apply (Hc i x E Hh).
Qed.

Theorem grouped_cuts_pclosed : forall ws, grouped ws -> forall f, closed f -> safe_all ws f ->
  forall k, pclosed (apply_all (firstn k ws) f).
Proof.
  intros ws Hg. induction Hg as [|d ws Hd Hg IH|w ws Hw Hg IH]; intros f Hc Hs k.
  - rewrite firstn_nil. apply closed_pclosed. exact Hc.
  - rewrite firstn_app.
    apply safe_all_app in Hs. destruct Hs as [_ Hs].
    rewrite new_blocks_eq in *. rewrite map_length in *.
    destruct (Nat.le_gt_cases k (length (node_blocks d 0 0 0))) as [Hle|Hgt].
    + replace (k - length (node_blocks d 0 0 0))%nat with 0%nat by lia.
      cbn [firstn]. rewrite app_nil_r, firstn_map, apply_apps. apply pclosed_partial; assumption.
    + rewrite firstn_all2 by (rewrite map_length; lia).
      rewrite apply_all_app, apply_apps. rewrite apply_apps in Hs.
      apply IH; [apply closed_new; exact Hc|exact Hs].
  - destruct k as [|k]; [apply closed_pclosed; exact Hc|].
    cbn [firstn]. rewrite apply_all_cons. destruct Hs as [Hs1 Hs2].
    apply IH; [apply closed_other; assumption|exact Hs2].
Qed.

(* ====================================================================== *)
(* The cuts of a list of writes that replays to the files of a state         *)
(* ====================================================================== *)
Section Trace.
  Variables (f0 : files) (ws : list wr) (s' : traph) (k : nat).
  Hypothesis Hnd0 : no_dangling f0.
  Hypothesis Hc0 : closed f0.
  Hypothesis Hsafe : safe_all ws f0.
  Hypothesis Hgr : grouped ws.
  Hypothesis Hend : apply_all ws f0 = files_of s'.
  Hypothesis Hinv' : Inv18 s'.
  Hypothesis Hoq' : OQ s'.

  Let f := apply_all (firstn k ws) f0.
  Let g := files_of s'.

  Lemma tr_below : files_below f g.
  Proof. unfold g. rewrite <- Hend. apply (safe_all_cuts ws f0 Hnd0 Hsafe k). Qed.
  Lemma tr_nd : no_dangling f.
  Proof. apply (safe_all_cuts ws f0 Hnd0 Hsafe k). Qed.
  Lemma tr_done_ordered : ordered g.
  Proof. apply ordered_files_of; assumption. Qed.

  (* K2 for cuts *)
  Theorem tr_ordered : ordered f.
  Proof. exact (ordered_below f g tr_below tr_done_ordered). Qed.

  Theorem tr_pclosed : pclosed f.
  Proof. apply grouped_cuts_pclosed; assumption. Qed.

  (* K1 + K3 *)
  Theorem tr_reads_total :
    (forall b, In b (ft f) ->
       (b_left b <> 0 -> blk_at f (b_left b) <> None) /\ (b_right b <> 0 -> blk_at f (b_right b) <> None) /\
       (b_child b <> 0 -> blk_at f (b_child b) <> None) /\ (b_parent b <> 0 -> blk_at f (b_parent b) <> None)) /\
    (forall j tg pv, nth_error (fl f) j = Some (tg, pv) ->
       blk_at f tg <> None /\ (pv <> 0 -> exists j', (j' < j)%nat /\ pv = ssz * N.of_nat (S j'))) /\
    (forall i, (i < length (ft f))%nat -> b_windup_lru f (off i) <> None) /\
    (forall fuel stems i, (i < length (ft f))%nat -> (length (ft f) - i <= fuel)%nat ->
       answered (b_find' fuel f stems (off i))).
  Proof.
    pose proof tr_nd as Hnd. pose proof (proj1 tr_ordered) as Ho.
    split; [intros b Hb; apply K1_tree_pointers; assumption|].
    split; [intros j tg pv E; apply K1_stubs; assumption|].
    split; [intros i Hi; apply b_windup_lru_total; assumption|].
    intros fuel stems i Hi Hf. apply b_find'_total; assumption.
  Qed.

  (* K4 *)
  Theorem tr_windup_eq : forall i b, nth_error (ft f) i = Some b -> blk_is_tail b = false ->
    blk_page b = true ->
    b_windup_lru f (off i) = b_windup_lru g (off i) /\ b_is_page g (off i) = true.
  Proof.
    intros i b E Hm Hp. split.
    - apply (windup_lru_cut_eq f g tr_below tr_nd tr_done_ordered i b E Hm (tr_pclosed i b E Hm Hp)).
    - apply (is_page_cut f g tr_below). unfold b_is_page. rewrite blk_at_off, E. exact Hp.
  Qed.

  Theorem tr_pages_subset : forall x cr, In (x, cr) (scan_pages f) ->
    x <> None /\ exists cr', In (x, cr') (scan_pages g) /\ (cr = true -> cr' = true).
  Proof. apply scan_pages_subset; [exact tr_below|exact tr_nd|exact tr_done_ordered|exact tr_pclosed]. Qed.

  (* ... hence only pages of the completed tree *)
  Theorem tr_pages_tree : forall x cr, In (x, cr) (scan_pages f) ->
    exists p d, find p (tr s') = Some d /\ page d = true /\ x = Some (concat p) /\
                (cr = true -> crawled d = true).
  Proof.
    intros x cr Hin. destruct (tr_pages_subset x cr Hin) as (_ & cr' & Hin' & Hcr).
    apply (scan_pages_tree _ Hinv') in Hin'. destruct Hin' as (p & d & Hf & Hp & -> & ->).
    exists p, d. auto.
  Qed.

  (* K5 *)
  Theorem tr_links : forall b, In b (ft f) ->
    targets_of (fl f) (b_out b) = targets_of (fl g) (b_out b) /\
    targets_of (fl f) (b_in b) = targets_of (fl g) (b_in b).
  Proof. apply block_links_cut; [exact tr_below|exact tr_nd]. Qed.

  Theorem tr_links_subset : forall h t, In t (targets_of (fl f) h) ->
    blk_at f t <> None /\
    exists j pv, nth_error (fl f) j = Some (t, pv) /\ nth_error (fl g) j = Some (t, pv).
  Proof. apply targets_cut_subset; [exact tr_below|exact tr_nd]. Qed.
End Trace.

(* ====================================================================== *)
(* The cuts of a request                                                    *)
(* ====================================================================== *)
Section Request.
  Variables (s : traph) (o : op) (k : nat).
  Hypothesis Hinv : Inv18 s.
  Hypothesis Hoq : OQ s.
  Hypothesis Hwf : wf_op o.
  Hypothesis Hcov : covered o.

  Let f := apply_all (firstn k (step_w s o)) (files_of s).
  Let g := files_of (fst (step s o)).

  Lemma cut_below : files_below f g.
  Proof. apply C18_cut_below; assumption. Qed.
  Lemma cut_nd : no_dangling f.
  Proof. apply C18_cut_no_dangling; assumption. Qed.
  Lemma done_inv : Inv18 (fst (step s o)).
  Proof. apply (step_trace s o Hinv Hwf Hcov). Qed.
  Lemma done_ordered : ordered g.
  Proof. apply ordered_files_of; [exact done_inv|apply step_OQ; exact Hoq]. Qed.

  Let A1 := Inv18_no_dangling s Hinv.
  Let A2 := proj2 (tails_follow_files_of s Hinv).
  Let A3 := step_safe s o Hinv Hwf Hcov.
  Let A4 := step_w_grouped s o.
  Let A5 := proj1 (step_trace s o Hinv Hwf Hcov).
  Let A6 := step_OQ s o Hoq.

  Theorem cut_ordered : ordered f.
  Proof. exact (tr_ordered _ _ _ k A1 A3 A5 done_inv A6). Qed.

  Theorem cut_pclosed : pclosed f.
  Proof. exact (tr_pclosed _ _ k A2 A3 A4). Qed.

  Theorem cut_reads_total :
    (forall b, In b (ft f) ->
       (b_left b <> 0 -> blk_at f (b_left b) <> None) /\ (b_right b <> 0 -> blk_at f (b_right b) <> None) /\
       (b_child b <> 0 -> blk_at f (b_child b) <> None) /\ (b_parent b <> 0 -> blk_at f (b_parent b) <> None)) /\
    (forall j tg pv, nth_error (fl f) j = Some (tg, pv) ->
       blk_at f tg <> None /\ (pv <> 0 -> exists j', (j' < j)%nat /\ pv = ssz * N.of_nat (S j'))) /\
    (forall i, (i < length (ft f))%nat -> b_windup_lru f (off i) <> None) /\
    (forall fuel stems i, (i < length (ft f))%nat -> (length (ft f) - i <= fuel)%nat ->
       answered (b_find' fuel f stems (off i))).
  Proof. exact (tr_reads_total _ _ _ k A1 A3 A5 done_inv A6). Qed.

  Theorem cut_windup_eq : forall i b, nth_error (ft f) i = Some b -> blk_is_tail b = false ->
    blk_page b = true ->
    b_windup_lru f (off i) = b_windup_lru g (off i) /\ b_is_page g (off i) = true.
  Proof. exact (tr_windup_eq _ _ _ k A1 A2 A3 A4 A5 done_inv A6). Qed.

  Theorem cut_pages_subset : forall x cr, In (x, cr) (scan_pages f) ->
    x <> None /\ exists cr', In (x, cr') (scan_pages g) /\ (cr = true -> cr' = true).
  Proof. exact (tr_pages_subset _ _ _ k A1 A2 A3 A4 A5 done_inv A6). Qed.

  Theorem cut_pages_tree : forall x cr, In (x, cr) (scan_pages f) ->
    exists p d, find p (tr (fst (step s o))) = Some d /\ page d = true /\ x = Some (concat p) /\
                (cr = true -> crawled d = true).
  Proof. exact (tr_pages_tree _ _ _ k A1 A2 A3 A4 A5 done_inv A6). Qed.

  Theorem cut_links : forall b, In b (ft f) ->
    targets_of (fl f) (b_out b) = targets_of (fl g) (b_out b) /\
    targets_of (fl f) (b_in b) = targets_of (fl g) (b_in b).
  Proof. exact (tr_links _ _ _ k A1 A3 A5). Qed.

  Theorem cut_links_subset : forall h t, In t (targets_of (fl f) h) ->
    blk_at f t <> None /\
    exists j pv, nth_error (fl f) j = Some (t, pv) /\ nth_error (fl g) j = Some (t, pv).
  Proof. exact (tr_links_subset _ _ _ k A1 A3 A5). Qed.
End Request.

(* ====================================================================== *)
(* The cuts of clear: its writes are replayed on EMPTY files                *)
(* ====================================================================== *)
Lemma files0_nd : no_dangling files0.
Proof. split; [intros b []|intros j tg pv Ej; destruct j; discriminate Ej]. Qed.
Lemma files0_closed : closed files0.
Proof. intros i b E. destruct i; discriminate E. Qed.

Section Clear.
  Variables (od : option rulekind) (ors : option (list (bytes * rulekind))) (s : traph) (k : nat).

  Let f := apply_all (firstn k (clear_w od ors s)) files0.
  Let g := files_of (clear od ors s).

  Let B3 := proj2 (proj2 (clear_trace od ors s)).
  Let B4 := step_w_grouped s (OClear od ors).
  Let B5 := proj1 (clear_trace od ors s).
  Let B6 := proj1 (proj2 (clear_trace od ors s)).
  Let B7 := clear_OQ od ors s.

  Theorem clear_cut_ordered : ordered f.
  Proof. exact (tr_ordered _ _ _ k files0_nd B3 B5 B6 B7). Qed.

  Theorem clear_cut_reads_total :
    (forall b, In b (ft f) ->
       (b_left b <> 0 -> blk_at f (b_left b) <> None) /\ (b_right b <> 0 -> blk_at f (b_right b) <> None) /\
       (b_child b <> 0 -> blk_at f (b_child b) <> None) /\ (b_parent b <> 0 -> blk_at f (b_parent b) <> None)) /\
    (forall j tg pv, nth_error (fl f) j = Some (tg, pv) ->
       blk_at f tg <> None /\ (pv <> 0 -> exists j', (j' < j)%nat /\ pv = ssz * N.of_nat (S j'))) /\
    (forall i, (i < length (ft f))%nat -> b_windup_lru f (off i) <> None) /\
    (forall fuel stems i, (i < length (ft f))%nat -> (length (ft f) - i <= fuel)%nat ->
       answered (b_find' fuel f stems (off i))).
  Proof. exact (tr_reads_total _ _ _ k files0_nd B3 B5 B6 B7). Qed.

  Theorem clear_cut_pages_subset : forall x cr, In (x, cr) (scan_pages f) ->
    x <> None /\ exists cr', In (x, cr') (scan_pages g) /\ (cr = true -> cr' = true).
  Proof. exact (tr_pages_subset _ _ _ k files0_nd files0_closed B3 B4 B5 B6 B7). Qed.

  Theorem clear_cut_pages_tree : forall x cr, In (x, cr) (scan_pages f) ->
    exists p d, find p (tr (clear od ors s)) = Some d /\ page d = true /\ x = Some (concat p) /\
                (cr = true -> crawled d = true).
  Proof. exact (tr_pages_tree _ _ _ k files0_nd files0_closed B3 B4 B5 B6 B7). Qed.

  Theorem clear_cut_links : forall b, In b (ft f) ->
    targets_of (fl f) (b_out b) = targets_of (fl g) (b_out b) /\
    targets_of (fl f) (b_in b) = targets_of (fl g) (b_in b).
  Proof. exact (tr_links _ _ _ k files0_nd B3 B5). Qed.
End Clear.

Print Assumptions step_w_grouped.
Print Assumptions grouped_cuts_pclosed.
Print Assumptions cut_ordered.
Print Assumptions cut_reads_total.
Print Assumptions cut_windup_eq.
Print Assumptions cut_pages_subset.
Print Assumptions cut_pages_tree.
Print Assumptions cut_links.
Print Assumptions cut_links_subset.
Print Assumptions clear_cut_ordered.
Print Assumptions clear_cut_reads_total.
Print Assumptions clear_cut_pages_subset.
Print Assumptions clear_cut_pages_tree.
Print Assumptions clear_cut_links.
