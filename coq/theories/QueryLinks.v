(* QueryLinks.v — the link read requests answer what the specification dictates.
   Part 1: generic list lemmas, the webentity inherited along a walk (dww / we_at),
   link chains read through R, and Q03 (page links, link enumeration, link count). *)
From Coq Require Import List NArith Bool Lia Arith Permutation.
Import ListNotations.
From Traph Require Import Bytes Consts Helpers Rules Tst TstDefs Traph Spec Ops RefDefs TstFacts
     QueryCore QueryCore2 QueryCore3 TopkFacts.
Open Scope N_scope.

(* ====================================================================== *)
(* Generic list lemmas                                                     *)
(* ====================================================================== *)
Lemma find_unique : forall (A : Type) (f : A -> bool) (l : list A) x,
  In x l -> f x = true -> (forall y, In y l -> f y = true -> y = x) -> List.find f l = Some x.
Proof.
  intros A f l x Hin Hf Hu.
  destruct (List.find f l) as [y|] eqn:E.
  - apply find_some in E. destruct E as [Hy Hfy]. f_equal. apply Hu; assumption.
  - exfalso. pose proof (find_none _ _ E _ Hin) as H. congruence.
Qed.

Lemma find_filter_unique : forall (A : Type) (f g : A -> bool) (l : list A) x,
  In x l -> f x = true -> (forall y, In y l -> f y = true -> y = x) ->
  List.find f (filter g l) = if g x then Some x else None.
Proof.
  intros A f g l x Hin Hf Hu.
  destruct (g x) eqn:Eg.
  - apply find_unique; [apply filter_In; auto|exact Hf|].
    intros y Hy Hfy. apply filter_In in Hy. apply Hu; tauto.
  - destruct (List.find f (filter g l)) as [y|] eqn:E; [|reflexivity].
    apply find_some in E. destruct E as [Hy Hfy]. apply filter_In in Hy. destruct Hy as [Hy Hgy].
    assert (y = x) by (apply Hu; assumption). subst y. congruence.
Qed.

Lemma flat_map_if : forall (A B : Type) (c : A -> bool) (g : A -> B) (l : list A),
  flat_map (fun x => if c x then [g x] else []) l = map g (filter c l).
Proof.
  intros A B c g l. induction l as [|x l IH]; [reflexivity|].
  cbn [flat_map filter]. destruct (c x); cbn [map app]; rewrite IH; reflexivity.
Qed.

Lemma flat_map_cons' : forall (A B : Type) (f : A -> list B) x l, flat_map f (x :: l) = f x ++ flat_map f l.
Proof. reflexivity. Qed.

Lemma flat_map_ext_in : forall (A B : Type) (f g : A -> list B) (l : list A),
  (forall x, In x l -> f x = g x) -> flat_map f l = flat_map g l.
Proof.
  intros A B f g l H. induction l as [|x l IH]; [reflexivity|].
  cbn [flat_map]. rewrite H by (left; reflexivity). rewrite IH; [reflexivity|].
  intros y Hy. apply H. right. exact Hy.
Qed.

Lemma filter_ext_in' : forall (A : Type) (f g : A -> bool) (l : list A),
  (forall x, In x l -> f x = g x) -> filter f l = filter g l.
Proof.
  intros A f g l H. induction l as [|x l IH]; [reflexivity|].
  cbn [filter]. rewrite H by (left; reflexivity). rewrite IH; [reflexivity|].
  intros y Hy. apply H. right. exact Hy.
Qed.

Lemma filter_map_comm : forall (A B : Type) (f : B -> bool) (g : A -> B) (l : list A),
  filter f (map g l) = map g (filter (fun x => f (g x)) l).
Proof.
  intros A B f g l. induction l as [|x l IH]; [reflexivity|].
  cbn [map filter]. destruct (f (g x)); cbn [map]; rewrite IH; reflexivity.
Qed.

Lemma filter_rev_len : forall (A : Type) (f : A -> bool) (l : list A),
  length (filter f (rev l)) = length (filter f l).
Proof.
  intros A f l. induction l as [|x l IH]; [reflexivity|].
  cbn [rev filter]. rewrite filter_app, app_length, IH. cbn [filter].
  destruct (f x); cbn [length]; lia.
Qed.

Lemma NoDup_flat_map : forall (A B : Type) (f : A -> list B) (l : list A),
  NoDup l -> (forall x, In x l -> NoDup (f x)) ->
  (forall x y z, In x l -> In y l -> In z (f x) -> In z (f y) -> x = y) ->
  NoDup (flat_map f l).
Proof.
  intros A B f l Hnd. induction Hnd as [|x l Hx Hnd IH]; intros Hf Hdisj.
  - constructor.
  - cbn [flat_map]. apply NoDup_app_intro.
    + apply Hf. left. reflexivity.
    + apply IH.
      * intros y Hy. apply Hf. right. exact Hy.
      * intros y1 y2 z H1 H2. apply Hdisj; right; assumption.
    + intros z Hz1 Hz2. apply in_flat_map in Hz2. destruct Hz2 as (y & Hy & Hzy).
      assert (x = y) by (apply (Hdisj x y z); [left; reflexivity|right; exact Hy|exact Hz1|exact Hzy]).
      subst y. contradiction.
Qed.

(* ---- sums ------------------------------------------------------------- *)
Fixpoint sumf {A : Type} (f : A -> N) (l : list A) : N :=
  match l with [] => 0 | x :: l' => f x + sumf f l' end.

Lemma sumf_app : forall (A : Type) (f : A -> N) l1 l2, sumf f (l1 ++ l2) = sumf f l1 + sumf f l2.
Proof. intros A f l1 l2. induction l1 as [|x l1 IH]; cbn [sumf app]; [reflexivity|]. rewrite IH. lia. Qed.

Lemma sumf_ext_in : forall (A : Type) (f g : A -> N) l,
  (forall x, In x l -> f x = g x) -> sumf f l = sumf g l.
Proof.
  intros A f g l H. induction l as [|x l IH]; [reflexivity|].
  cbn [sumf]. rewrite H by (left; reflexivity). rewrite IH; [reflexivity|].
  intros y Hy. apply H. right. exact Hy.
Qed.

Lemma sumf_zero : forall (A : Type) (f : A -> N) l, (forall x, In x l -> f x = 0) -> sumf f l = 0.
Proof.
  intros A f l H. induction l as [|x l IH]; [reflexivity|].
  cbn [sumf]. rewrite H by (left; reflexivity). rewrite IH; [reflexivity|].
  intros y Hy. apply H. right. exact Hy.
Qed.

Lemma sumf_flat_map : forall (A B : Type) (f : B -> N) (g : A -> list B) l,
  sumf f (flat_map g l) = sumf (fun x => sumf f (g x)) l.
Proof.
  intros A B f g l. induction l as [|x l IH]; [reflexivity|].
  cbn [flat_map sumf]. rewrite sumf_app, IH. reflexivity.
Qed.

Lemma sumf_map : forall (A B : Type) (f : B -> N) (g : A -> B) l,
  sumf f (map g l) = sumf (fun x => f (g x)) l.
Proof. intros A B f g l. induction l as [|x l IH]; cbn [map sumf]; [reflexivity|]. rewrite IH. reflexivity. Qed.

Lemma sumf_filter : forall (A : Type) (f : A -> N) (c : A -> bool) l,
  sumf f (filter c l) = sumf (fun x => if c x then f x else 0) l.
Proof.
  intros A f c l. induction l as [|x l IH]; [reflexivity|].
  cbn [filter sumf]. destruct (c x); cbn [sumf]; rewrite IH; lia.
Qed.

Lemma sumf_count : forall (A : Type) (c : A -> bool) l,
  N.of_nat (length (filter c l)) = sumf (fun x => if c x then 1 else 0) l.
Proof.
  intros A c l. induction l as [|x l IH]; [reflexivity|].
  cbn [filter sumf]. destruct (c x); cbn [length]; lia.
Qed.

Lemma sumf_add : forall (A : Type) (f g : A -> N) l,
  sumf (fun x => f x + g x) l = sumf f l + sumf g l.
Proof. intros A f g l. induction l as [|x l IH]; cbn [sumf]; [reflexivity|]. rewrite IH. lia. Qed.

Lemma sumf_swap : forall (A B : Type) (f : A -> B -> N) (la : list A) (lb : list B),
  sumf (fun x => sumf (fun y => f x y) lb) la = sumf (fun y => sumf (fun x => f x y) la) lb.
Proof.
  intros A B f la lb. induction la as [|x la IH].
  - cbn [sumf]. symmetry. apply sumf_zero. reflexivity.
  - cbn [sumf]. rewrite IH, <- sumf_add. reflexivity.
Qed.

Lemma sumf_pos : forall (A : Type) (f : A -> N) l x, In x l -> f x <> 0 -> sumf f l <> 0.
Proof.
  intros A f l x Hin Hf. induction l as [|y l IH]; [destruct Hin|].
  cbn [sumf]. destruct Hin as [->|Hin]; [lia|]. specialize (IH Hin). lia.
Qed.

Lemma sumf_nonzero : forall (A : Type) (f : A -> N) l, sumf f l <> 0 -> exists x, In x l /\ f x <> 0.
Proof.
  intros A f l H. induction l as [|y l IH]; [cbn in H; congruence|].
  cbn [sumf] in H. destruct (N.eq_dec (f y) 0) as [E|E].
  - rewrite E in H. destruct IH as (x & Hx & Hfx); [lia|]. exists x. split; [right|]; assumption.
  - exists y. split; [left; reflexivity|exact E].
Qed.

(* a sum over a duplicate-free index list of "is it this one?" *)
Lemma sumf_select : forall (l : list bytes) (x : bytes) (c : N), NoDup l ->
  sumf (fun y => if beq x y then c else 0) l = if mem_bytes x l then c else 0.
Proof.
  intros l x c Hnd. induction Hnd as [|y l Hy Hnd IH]; [reflexivity|].
  cbn [sumf mem_bytes]. rewrite IH. destruct (beq x y) eqn:E; cbn [orb]; [|lia].
  apply beq_eq in E. subst y. apply mem_bytes_false in Hy. rewrite Hy. lia.
Qed.

(* weights of a Counter walk, summed against a predicate, count the matching items *)
Lemma sumf_incr : forall (P : N -> bool) x acc,
  sumf (fun tw => if P (fst tw) then snd tw else 0) (incr x acc)
  = sumf (fun tw => if P (fst tw) then snd tw else 0) acc + (if P x then 1 else 0).
Proof.
  intros P x acc. induction acc as [|[y n] acc IH].
  - cbn [incr sumf fst snd]. lia.
  - cbn [incr]. destruct (x =? y) eqn:E.
    + apply N.eqb_eq in E. subst y. cbn [sumf fst snd]. destruct (P x); lia.
    + cbn [sumf fst snd]. rewrite IH. lia.
Qed.

Lemma sumf_weighted_from : forall (P : N -> bool) l acc,
  sumf (fun tw => if P (fst tw) then snd tw else 0) (weighted_from acc l)
  = sumf (fun tw => if P (fst tw) then snd tw else 0) acc + N.of_nat (length (filter P l)).
Proof.
  intros P l. induction l as [|x l IH]; intro acc.
  - cbn. lia.
  - unfold weighted_from in *. cbn [fold_left filter]. rewrite IH, sumf_incr.
    destruct (P x); cbn [length]; lia.
Qed.

Lemma sumf_weighted : forall (P : N -> bool) l,
  sumf (fun tw => if P (fst tw) then snd tw else 0) (weighted l) = N.of_nat (length (filter P l)).
Proof. intros P l. apply (sumf_weighted_from P l []). Qed.

Lemma weighted_pos : forall l x w, In (x, w) (weighted l) -> w <> 0.
Proof.
  intros l x w H.
  assert (Hx : In x l) by (apply weighted_in; exists w; exact H).
  apply weighted_count in H. subst w.
  rewrite (count_occ_In N.eq_dec) in Hx. lia.
Qed.

Lemma count_occ_filter : forall (l : list N) x,
  count_occ N.eq_dec l x = length (filter (fun y => y =? x) l).
Proof.
  intros l x. induction l as [|y l IH]; [reflexivity|].
  cbn [count_occ filter]. destruct (N.eq_dec y x) as [E|E].
  - subst y. rewrite N.eqb_refl. cbn [length]. rewrite IH. reflexivity.
  - apply N.eqb_neq in E. rewrite E. exact IH.
Qed.

(* ====================================================================== *)
(* dedup_pairs, dedup_bytes                                                *)
(* ====================================================================== *)
Definition peq (p q : bytes * bytes) : bool := beq (fst p) (fst q) && beq (snd p) (snd q).

Lemma peq_eq : forall p q, peq p q = true <-> p = q.
Proof.
  intros [a b] [c d]. unfold peq. cbn [fst snd]. rewrite andb_true_iff, !beq_eq.
  split; [intros [-> ->]; reflexivity|intro E; inversion E; auto].
Qed.

Lemma existsb_peq : forall p acc, existsb (fun q => peq p q) acc = true <-> In p acc.
Proof.
  intros p acc. rewrite existsb_exists. split.
  - intros (q & Hq & E). apply peq_eq in E. subst q. exact Hq.
  - intro H. exists p. split; [exact H|apply peq_eq; reflexivity].
Qed.

Definition dedup_pairs_from (acc links : list (bytes * bytes)) : list (bytes * bytes) :=
  fold_left (fun acc p => if existsb (fun q => peq p q) acc then acc else acc ++ [p]) links acc.

Lemma dedup_pairs_from_spec : forall links acc, NoDup acc ->
  NoDup (dedup_pairs_from acc links) /\
  (forall p, In p (dedup_pairs_from acc links) <-> In p acc \/ In p links).
Proof.
  induction links as [|x links IH]; intros acc Hnd.
  - cbn. split; [exact Hnd|]. intro p. tauto.
  - unfold dedup_pairs_from in *. cbn [fold_left].
    destruct (existsb (fun q => peq x q) acc) eqn:E.
    + apply existsb_peq in E. destruct (IH acc Hnd) as [H1 H2]. split; [exact H1|].
      intro p. rewrite H2. cbn [In]. split; [tauto|]. intros [H|[<-|H]]; auto.
    + assert (Hx : ~ In x acc) by (intro H; apply existsb_peq in H; congruence).
      assert (Hnd' : NoDup (acc ++ [x])).
      { apply NoDup_app_intro; [exact Hnd|constructor; [intros []|constructor]|].
        intros z Hz [<-|[]]. contradiction. }
      destruct (IH _ Hnd') as [H1 H2]. split; [exact H1|].
      intro p. rewrite H2, in_app_iff. cbn [In]. tauto.
Qed.

Lemma dedup_pairs_eq : forall links, dedup_pairs links = dedup_pairs_from [] links.
Proof. reflexivity. Qed.

Lemma dedup_pairs_in : forall links p, In p (dedup_pairs links) <-> In p links.
Proof.
  intros links p. rewrite dedup_pairs_eq.
  destruct (dedup_pairs_from_spec links [] (NoDup_nil _)) as [_ H]. rewrite H. cbn [In]. tauto.
Qed.

Lemma dedup_pairs_nodup : forall links, NoDup (dedup_pairs links).
Proof. intro links. rewrite dedup_pairs_eq. apply dedup_pairs_from_spec. constructor. Qed.

Lemma dedup_bytes_spec : forall l acc, NoDup acc ->
  NoDup (dedup_bytes l acc) /\ (forall x, In x (dedup_bytes l acc) <-> In x acc \/ In x l).
Proof.
  induction l as [|y l IH]; intros acc Hnd.
  - cbn. split; [exact Hnd|]. intro x. tauto.
  - cbn [dedup_bytes]. destruct (mem_bytes y acc) eqn:E.
    + apply mem_bytes_In in E. destruct (IH acc Hnd) as [H1 H2]. split; [exact H1|].
      intro x. rewrite H2. cbn [In]. split; [tauto|]. intros [H|[<-|H]]; auto.
    + apply mem_bytes_false in E.
      assert (Hnd' : NoDup (acc ++ [y])).
      { apply NoDup_app_intro; [exact Hnd|constructor; [intros []|constructor]|].
        intros z Hz [<-|[]]. contradiction. }
      destruct (IH _ Hnd') as [H1 H2]. split; [exact H1|].
      intro x. rewrite H2, in_app_iff. cbn [In]. tauto.
Qed.

(* the submitted multigraph *)
Lemma s_wlinks_in : forall a x y w,
  In (x, y, w) (s_wlinks a) <-> In (x, y) (a_links a) /\ w = count_link x y (a_links a).
Proof.
  intros a x y w. unfold s_wlinks. rewrite in_map_iff. split.
  - intros ([x' y'] & E & Hin). cbn [fst snd] in E. inversion E; subst.
    apply (proj1 (dedup_pairs_in _ _)) in Hin. split; [exact Hin|reflexivity].
  - intros [Hin ->]. exists (x, y). split; [reflexivity|]. apply dedup_pairs_in. exact Hin.
Qed.

Lemma s_wlinks_nodup : forall a, NoDup (s_wlinks a).
Proof.
  intro a. unfold s_wlinks. apply NoDup_map_inj_in; [|apply dedup_pairs_nodup].
  intros [x y] [x' y'] _ _ E. cbn [fst snd] in E. inversion E. reflexivity.
Qed.

(* ====================================================================== *)
(* The webentity inherited along a walk                                    *)
(* ====================================================================== *)
Fixpoint wwalk (w : N) (t : tst) (p : list bytes) : N :=
  match p with
  | [] => w
  | s :: rest =>
      match sib_find s t with
      | Some (d, c) => wwalk (if we d =? 0 then w else we d) c rest
      | None => w
      end
  end.

Lemma h_we_visit : forall d lru h, h_we (visit d lru h) = if we d =? 0 then h_we h else we d.
Proof. intros d lru h. unfold visit. destruct (we d =? 0), (rule d); reflexivity. Qed.

Lemma wwalk_hist_from : forall ss pre h t, h_we (hist_from pre h t ss) = wwalk (h_we h) t ss.
Proof.
  induction ss as [|s rest IH]; intros pre h t.
  - rewrite hist_from_nil. reflexivity.
  - rewrite hist_from_cons, IH. cbn [wwalk]. rewrite find_single. unfold child.
    destruct (sib_find s t) as [[d c]|].
    + rewrite h_we_visit. reflexivity.
    + destruct rest; reflexivity.
Qed.

Lemma sib_find_Nd : forall s d l c r,
  sib_find s (Nd d l c r) =
  match lex s (stem d) with Eq => Some (d, c) | Lt => sib_find s l | Gt => sib_find s r end.
Proof. reflexivity. Qed.

Lemma dww_Nd : forall w d l c r,
  dww w (Nd d l c r) =
  (d, if we d =? 0 then w else we d) :: dww (if we d =? 0 then w else we d) c ++ dww w l ++ dww w r.
Proof. reflexivity. Qed.

Lemma dww_in : forall t w0 d w, bst t ->
  (In (d, w) (dww w0 t) <-> exists p, find p t = Some d /\ w = wwalk w0 t p).
Proof.
  induction t as [|d0 l IHl c IHc r IHr]; intros w0 d w Hb.
  - cbn [dww In]. split; [tauto|]. intros (p & Hp & _). rewrite find_Lf in Hp. discriminate.
  - destruct Hb as (Hl & Hr & Hbl & Hbc & Hbr).
    rewrite dww_Nd. cbn [In]. rewrite !in_app_iff, IHl, IHc, IHr by assumption.
    split.
    + intros [E|[(p & Hp & Hw)|[(p & Hp & Hw)|(p & Hp & Hw)]]].
      * inversion E; subst. exists [stem d]. rewrite find_Nd, lex_refl. split; [reflexivity|].
        cbn [wwalk]. rewrite sib_find_Nd, lex_refl. reflexivity.
      * destruct p as [|s' p']; [rewrite find_nil in Hp; discriminate|].
        exists (stem d0 :: s' :: p'). rewrite find_Nd, lex_refl. split; [exact Hp|].
        cbn [wwalk]. rewrite sib_find_Nd, lex_refl. exact Hw.
      * destruct p as [|s' p']; [rewrite find_nil in Hp; discriminate|].
        pose proof (Hl _ (find_cons_in_sib _ _ _ _ Hp)) as E.
        exists (s' :: p'). rewrite find_Nd, E. split; [exact Hp|].
        cbn [wwalk]. rewrite sib_find_Nd, E. exact Hw.
      * destruct p as [|s' p']; [rewrite find_nil in Hp; discriminate|].
        pose proof (Hr _ (find_cons_in_sib _ _ _ _ Hp)) as E.
        exists (s' :: p'). rewrite find_Nd, E. split; [exact Hp|].
        cbn [wwalk]. rewrite sib_find_Nd, E. exact Hw.
    + intros (p & Hp & Hw). destruct p as [|s' p']; [rewrite find_nil in Hp; discriminate|].
      rewrite find_Nd in Hp. cbn [wwalk] in Hw. rewrite sib_find_Nd in Hw.
      destruct (lex s' (stem d0)) eqn:E.
      * destruct p' as [|s2 p2].
        -- left. inversion Hp; subst. reflexivity.
        -- right. left. exists (s2 :: p2). auto.
      * right. right. left. exists (s' :: p'). auto.
      * right. right. right. exists (s' :: p'). auto.
Qed.

(* dfs and dww run in the same order: the combined traversal *)
Fixpoint dfw (pre : bytes) (w : N) (t : tst) : list (bytes * nd * N) :=
  match t with
  | Lf => []
  | Nd d l c r =>
      let cur := pre ++ stem d in
      let cw := if we d =? 0 then w else we d in
      (cur, d, cw) :: dfw cur cw c ++ dfw pre w l ++ dfw pre w r
  end.

Lemma dfw_dfs : forall t pre w, map fst (dfw pre w t) = dfs pre t.
Proof.
  induction t as [|d l IHl c IHc r IHr]; intros pre w; [reflexivity|].
  cbn [dfw dfs map fst]. rewrite !map_app, IHl, IHc, IHr. reflexivity.
Qed.

Lemma dfw_dww : forall t pre w, map (fun x => (snd (fst x), snd x)) (dfw pre w t) = dww w t.
Proof.
  induction t as [|d l IHl c IHc r IHr]; intros pre w; [reflexivity|].
  cbn [dfw dww map fst snd]. rewrite !map_app, IHl, IHc, IHr. reflexivity.
Qed.

(* ====================================================================== *)
(* Link chains                                                             *)
(* ====================================================================== *)
Lemma chain_zero : forall f st, chain f st 0 = [].
Proof. intros [|f] st; reflexivity. Qed.

Lemma targets_of_zero : forall st, targets_of st 0 = [].
Proof. intro st. apply chain_zero. Qed.

Lemma ssz_val : ssz = 16.
Proof. reflexivity. Qed.

Lemma targets_of_head : forall st h, head_ok (length st) h -> h <> 0 -> targets_of st h <> [].
Proof.
  intros st h [E|(j & Hj & E)] Hnz; [congruence|].
  unfold targets_of. cbn [chain]. apply N.eqb_neq in Hnz. rewrite Hnz.
  assert (Ei : N.to_nat (h / ssz - 1) = j).
  { subst h. unfold stub_addr. rewrite ssz_val, N.mul_comm, N.div_mul by lia. lia. }
  rewrite Ei. destruct (nth_error st j) as [[tg pv]|] eqn:En; [discriminate|].
  apply nth_error_None in En. lia.
Qed.

(* sources / targets submitted at a page, in submission order *)
Definition ends (out : bool) (l : bytes) (links : list (bytes * bytes)) : list bytes :=
  if out then map snd (filter (fun p => beq (fst p) l) links)
  else map fst (filter (fun p => beq (snd p) l) links).

(* the link seen from page l with the other end y, as a submitted pair *)
Definition mkpair (out : bool) (l y : bytes) : bytes * bytes := if out then (l, y) else (y, l).

Lemma ends_in : forall out l links y, In y (ends out l links) <-> In (mkpair out l y) links.
Proof.
  intros out l links y. unfold ends, mkpair. destruct out; rewrite in_map_iff; split.
  - intros ([x' y'] & E & Hin). cbn [snd] in E. subst y'. apply filter_In in Hin.
    destruct Hin as [Hin Hb]. cbn [fst] in Hb. apply beq_eq in Hb. subst x'. exact Hin.
  - intro Hin. exists (l, y). split; [reflexivity|]. apply filter_In. split; [exact Hin|].
    cbn [fst]. apply beq_refl.
  - intros ([x' y'] & E & Hin). cbn [fst] in E. subst x'. apply filter_In in Hin.
    destruct Hin as [Hin Hb]. cbn [snd] in Hb. apply beq_eq in Hb. subst y'. exact Hin.
  - intro Hin. exists (y, l). split; [reflexivity|]. apply filter_In. split; [exact Hin|].
    cbn [snd]. apply beq_refl.
Qed.

Lemma ends_count : forall out l links (P : bytes -> bool),
  length (filter P (ends out l links))
  = length (filter (fun p => if out then beq (fst p) l && P (snd p) else beq (snd p) l && P (fst p)) links).
Proof.
  intros out l links P. unfold ends. destruct out.
  - rewrite filter_map_comm, map_length. f_equal.
    induction links as [|x links IH]; [reflexivity|].
    cbn [filter]. destruct (beq (fst x) l); cbn [filter andb]; [|exact IH].
    destruct (P (snd x)); [f_equal|]; exact IH.
  - rewrite filter_map_comm, map_length. f_equal.
    induction links as [|x links IH]; [reflexivity|].
    cbn [filter]. destruct (beq (snd x) l); cbn [filter andb]; [|exact IH].
    destruct (P (fst x)); [f_equal|]; exact IH.
Qed.

Lemma count_link_ends : forall out l y links,
  N.of_nat (length (filter (fun z => beq z y) (ends out l links)))
  = count_link (fst (mkpair out l y)) (snd (mkpair out l y)) links.
Proof.
  intros out l y links. rewrite ends_count. unfold count_link, count_if, mkpair. f_equal. f_equal.
  destruct out; cbn [fst snd]; apply filter_ext; intro p; [reflexivity|apply andb_comm].
Qed.

Lemma chain_in' : forall f st h tg, In tg (chain f st h) -> exists i pv, nth_error st i = Some (tg, pv).
Proof.
  induction f as [|f IH]; intros st h tg Hin; [destruct Hin|].
  cbn [chain] in Hin. destruct (h =? 0); [destruct Hin|].
  destruct (nth_error st (N.to_nat (h / ssz - 1))) as [[tg' pv]|] eqn:En; [|destruct Hin].
  destruct Hin as [<-|Hin]; [eauto|]. eapply IH. exact Hin.
Qed.

Definition dir_targets (out : bool) (d : nd) (s : traph) : list N :=
  targets_of (stubs s) (head_dir out d).

(* ====================================================================== *)
(* Reading the links through R                                             *)
(* ====================================================================== *)
Section Links.
  Variables (s : traph) (a : astate).
  Hypothesis HR : R s a.

  Let HC : Rcore s a := proj1 HR.
  Let HL : Rlinks s a := proj2 HR.
  Let Hwf : wf_tst (tr s) := R_wf s a HC.

  Lemma node_unique : forall p q d d', find p (tr s) = Some d -> find q (tr s) = Some d' ->
    addr d = addr d' -> p = q /\ d = d'.
  Proof.
    intros p q d d' Hp Hq E. destruct (L_addr s a HL) as [_ Hinj].
    pose proof (Hinj p q d d' Hp Hq E) as Epq. subst q. split; [reflexivity|congruence].
  Qed.

  Lemma owner_wwalk : forall l, owner a l = wwalk 0 (tr s) (lru_iter l).
  Proof.
    intro l. unfold owner. rewrite <- (retrieve_webentity_spec_gen s a HC).
    unfold retrieve_webentity, q_follow. rewrite follow_hist_from, wwalk_hist_from.
    cbn [h_we hist0]. destruct (wwalk 0 (tr s) (lru_iter l) =? 0) eqn:E; [|reflexivity].
    apply N.eqb_eq in E. symmetry. exact E.
  Qed.

  Lemma dww_unique : forall p d d1 w1, find p (tr s) = Some d ->
    In (d1, w1) (dww 0 (tr s)) -> addr d1 = addr d -> (d1, w1) = (d, wwalk 0 (tr s) p).
  Proof.
    intros p d d1 w1 Hp Hin E. apply dww_in in Hin; [|apply Hwf].
    destruct Hin as (q & Hq & Hw). destruct (node_unique q p d1 d Hq Hp E) as [-> ->].
    rewrite Hw. reflexivity.
  Qed.

  Lemma dww_here : forall p d, find p (tr s) = Some d -> In (d, wwalk 0 (tr s) p) (dww 0 (tr s)).
  Proof. intros p d Hp. apply dww_in; [apply Hwf|]. exists p. auto. Qed.

  Lemma we_at_find : forall p d, find p (tr s) = Some d -> we_at (addr d) (tr s) = wwalk 0 (tr s) p.
  Proof.
    intros p d Hp. unfold we_at.
    rewrite (find_unique _ _ _ (d, wwalk 0 (tr s) p)); [reflexivity|apply dww_here; exact Hp| |].
    - cbn [fst]. apply N.eqb_refl.
    - intros [d1 w1] Hin E. cbn [fst] in E. apply N.eqb_eq in E. eapply dww_unique; eassumption.
  Qed.

  (* the windup from a block address finds the longest-prefix webentity *)
  Theorem we_at_spec : forall l d, wf_lru l -> nodeof s l = Some d -> we_at (addr d) (tr s) = owner a l.
  Proof. intros l d _ Hn. rewrite owner_wwalk. apply we_at_find. exact Hn. Qed.

  (* everything a stub target is *)
  Record target_view (tg : N) (y : bytes) (d : nd) : Prop := mkTV {
    tv_wf : wf_lru y;
    tv_node : nodeof s y = Some d;
    tv_addr : addr d = tg;
    tv_page : page d = true;
    tv_lru : lru_at tg s = y;
    tv_we : we_at tg (tr s) = owner a y
  }.

  Lemma node_view : forall p d, find p (tr s) = Some d -> page d = true ->
    target_view (addr d) (concat p) d.
  Proof.
    intros p d Hp Hpg. destruct (find_nodeof s a HC p d Hp) as [Hl Hn].
    constructor; try assumption; try reflexivity.
    - apply (windup s a HC (L_addr s a HL)); assumption.
    - apply we_at_spec; assumption.
  Qed.

  Lemma target_node : forall h tg, In tg (targets_of (stubs s) h) ->
    exists y d, target_view tg y d.
  Proof.
    intros h tg Hin. apply chain_in' in Hin. destruct Hin as (i & pv & Hn).
    destruct (L_targets s a HL i tg pv Hn) as (p & d & Hp & Ha & Hpg).
    exists (concat p), d. subst tg. apply node_view; assumption.
  Qed.

  Lemma lru_at_inj : forall h h' t t', In t (targets_of (stubs s) h) -> In t' (targets_of (stubs s) h') ->
    lru_at t s = lru_at t' s -> t = t'.
  Proof.
    intros h h' t t' Ht Ht' E.
    destruct (target_node h t Ht) as (y & d & V). destruct (target_node h' t' Ht') as (y' & d' & V').
    rewrite (tv_lru _ _ _ V), (tv_lru _ _ _ V') in E. subst y'.
    pose proof (tv_node _ _ _ V) as H1. pose proof (tv_node _ _ _ V') as H2.
    rewrite H1 in H2. inversion H2; subst d'.
    rewrite <- (tv_addr _ _ _ V), <- (tv_addr _ _ _ V'). reflexivity.
  Qed.

  (* L_out / L_in with the reversal moved *)
  Theorem out_targets : forall l d, wf_lru l -> nodeof s l = Some d ->
    map (fun t => lru_at t s) (targets_of (stubs s) (outh d))
    = rev (map snd (filter (fun p => beq (fst p) l) (a_links a))).
  Proof.
    intros l d Hl Hn. rewrite <- (L_out s a HL l d Hl Hn), map_rev, rev_involutive. reflexivity.
  Qed.

  Theorem in_sources : forall l d, wf_lru l -> nodeof s l = Some d ->
    map (fun t => lru_at t s) (targets_of (stubs s) (inh d))
    = rev (map fst (filter (fun p => beq (snd p) l) (a_links a))).
  Proof.
    intros l d Hl Hn. rewrite <- (L_in s a HL l d Hl Hn), map_rev, rev_involutive. reflexivity.
  Qed.

  Lemma dir_targets_ends : forall out l d, wf_lru l -> nodeof s l = Some d ->
    map (fun t => lru_at t s) (dir_targets out d s) = rev (ends out l (a_links a)).
  Proof.
    intros out l d Hl Hn. unfold dir_targets, ends, head_dir. destruct out.
    - apply out_targets; assumption.
    - apply in_sources; assumption.
  Qed.

  Lemma dir_count : forall out l d (P : bytes -> bool), wf_lru l -> nodeof s l = Some d ->
    length (filter (fun t => P (lru_at t s)) (dir_targets out d s))
    = length (filter P (ends out l (a_links a))).
  Proof.
    intros out l d P Hl Hn. rewrite <- (filter_rev_len _ P (ends out l (a_links a))), <- (dir_targets_ends out l d Hl Hn).
    rewrite filter_map_comm, map_length. reflexivity.
  Qed.

  (* the Counter weight of a target = the number of submissions of that link *)
  Theorem weight_spec : forall out l d tg w, wf_lru l -> nodeof s l = Some d ->
    In (tg, w) (weighted (dir_targets out d s)) ->
    w = count_link (fst (mkpair out l (lru_at tg s))) (snd (mkpair out l (lru_at tg s))) (a_links a).
  Proof.
    intros out l d tg w Hl Hn Hin.
    assert (Htg : In tg (dir_targets out d s)) by (apply weighted_in; exists w; exact Hin).
    apply weighted_count in Hin. subst w.
    rewrite count_occ_filter, <- count_link_ends.
    rewrite <- (dir_count out l d (fun z => beq z (lru_at tg s)) Hl Hn). f_equal. f_equal.
    apply filter_ext_in'. intros t Ht.
    destruct (t =? tg) eqn:E.
    - apply N.eqb_eq in E. subst t. symmetry. apply beq_refl.
    - destruct (beq (lru_at t s) (lru_at tg s)) eqn:E2; [|reflexivity].
      apply beq_eq in E2. apply (lru_at_inj _ _ _ _ Ht Htg) in E2. apply N.eqb_neq in E. contradiction.
  Qed.

  Corollary out_weight : forall l d tg w, wf_lru l -> nodeof s l = Some d ->
    In (tg, w) (out_w d s) -> w = count_link l (lru_at tg s) (a_links a).
  Proof. intros l d tg w Hl Hn H. exact (weight_spec true l d tg w Hl Hn H). Qed.

  Corollary in_weight : forall l d sr w, wf_lru l -> nodeof s l = Some d ->
    In (sr, w) (in_w d s) -> w = count_link (lru_at sr s) l (a_links a).
  Proof. intros l d tg w Hl Hn H. exact (weight_spec false l d tg w Hl Hn H). Qed.

  (* the (other end, weight) view of one page in one direction *)
  Definition wl (out : bool) (d : nd) : list (bytes * N) :=
    map (fun tw => (lru_at (fst tw) s, snd tw)) (weighted (dir_targets out d s)).

  Lemma wl_in : forall out l d y w, wf_lru l -> nodeof s l = Some d ->
    (In (y, w) (wl out d) <->
     In (mkpair out l y) (a_links a) /\
     w = count_link (fst (mkpair out l y)) (snd (mkpair out l y)) (a_links a)).
  Proof.
    intros out l d y w Hl Hn. unfold wl. rewrite in_map_iff. split.
    - intros ([tg w'] & E & Hin). cbn [fst snd] in E. inversion E; subst. split.
      + apply ends_in. apply in_rev. rewrite <- (dir_targets_ends out l d Hl Hn).
        apply (in_map (fun t => lru_at t s)). apply weighted_in. exists w. exact Hin.
      + apply (weight_spec out l d tg w Hl Hn Hin).
    - intros [Hin Hw]. apply ends_in, in_rev in Hin.
      rewrite <- (dir_targets_ends out l d Hl Hn) in Hin. apply in_map_iff in Hin.
      destruct Hin as (tg & E & Htg). apply weighted_in in Htg. destruct Htg as [w' Hw'].
      exists (tg, w'). split; [|exact Hw']. cbn [fst snd]. rewrite E. f_equal.
      rewrite Hw. pose proof (weight_spec out l d tg w' Hl Hn Hw') as H. rewrite E in H. exact H.
  Qed.

  Lemma wl_nodup : forall out d, NoDup (map fst (wl out d)).
  Proof.
    intros out d. unfold wl. rewrite map_map. cbn [fst].
    rewrite <- (map_map fst (fun t => lru_at t s)). apply NoDup_map_inj_in; [|apply weighted_nodup].
    intros t t' Ht Ht' E. rewrite weighted_fst in Ht, Ht'. apply (proj1 (deduped_in _ _)) in Ht. apply (proj1 (deduped_in _ _)) in Ht'.
    eapply lru_at_inj; eassumption.
  Qed.

  Lemma wl_owner : forall out d tg w, In (tg, w) (weighted (dir_targets out d s)) ->
    we_at tg (tr s) = owner a (lru_at tg s).
  Proof.
    intros out d tg w Hin.
    assert (Htg : In tg (dir_targets out d s)) by (apply weighted_in; exists w; exact Hin).
    destruct (target_node _ _ Htg) as (y & d' & V).
    rewrite (tv_we _ _ _ V), (tv_lru _ _ _ V). reflexivity.
  Qed.

  (* link ends are page nodes *)
  Lemma link_ends : forall x y, In (x, y) (a_links a) ->
    (wf_lru x /\ exists d, nodeof s x = Some d /\ page d = true) /\
    (wf_lru y /\ exists d, nodeof s y = Some d /\ page d = true).
  Proof.
    intros x y Hin. destruct (L_ends s a HL x y Hin) as [[c Hc] [c' Hc']].
    pose proof (R_pages_wf s a HC) as Hw. rewrite Forall_forall in Hw.
    pose proof (Hw _ Hc) as Hx. pose proof (Hw _ Hc') as Hy. cbn [fst] in Hx, Hy.
    apply (R_pages s a HC) in Hc; [|exact Hx]. apply (R_pages s a HC) in Hc'; [|exact Hy].
    destruct Hc as (d & Hn & Hp & _). destruct Hc' as (d' & Hn' & Hp' & _). split; split; eauto.
  Qed.

  Lemma head_zero_nil : forall out d, head_dir out d = 0 -> dir_targets out d s = [].
  Proof. intros out d E. unfold dir_targets. rewrite E. apply targets_of_zero. Qed.

  Lemma head_nonzero : forall out p d, find p (tr s) = Some d -> head_dir out d <> 0 ->
    dir_targets out d s <> [].
  Proof.
    intros out p d Hp Hnz. unfold dir_targets. apply targets_of_head; [|exact Hnz].
    destruct (L_heads s a HL p d Hp) as [Ho Hi]. destruct out; assumption.
  Qed.
End Links.

(* ====================================================================== *)
(* Q03: the links of a page, the enumeration of links, the link count      *)
(* ====================================================================== *)
Lemma plcond_iff : forall l (inb int outb : bool) x y,
  ((outb && beq x l && negb (beq y l)) || (int && beq x l && beq y l)
   || (inb && beq y l && negb (beq x l)) = true)
  <-> (x = l /\ ((y = l /\ int = true) \/ (y <> l /\ outb = true))) \/ (x <> l /\ y = l /\ inb = true).
Proof.
  intros l inb int outb x y.
  destruct (beq x l) eqn:Ex; destruct (beq y l) eqn:Ey;
    try (apply beq_eq in Ex); try (apply beq_eq in Ey);
    try (assert (Nx : x <> l) by (intro H; apply beq_eq in H; congruence));
    try (assert (Ny : y <> l) by (intro H; apply beq_eq in H; congruence));
    destruct inb, int, outb; cbn [andb orb negb]; split; intro H;
    try reflexivity; try discriminate; try tauto;
    repeat match goal with
           | H : _ \/ _ |- _ => destruct H
           | H : _ /\ _ |- _ => destruct H
           end; try congruence; try contradiction.
Qed.

Section Q03.
  Variables (s : traph) (a : astate).
  Hypothesis HR : R s a.

  Let HC : Rcore s a := proj1 HR.
  Let HL : Rlinks s a := proj2 HR.

  Lemma flat_map_wl : forall (B : Type) (c : bytes -> bool) (g : bytes -> N -> B) (L : list (N * N)),
    flat_map (fun '(tg, w) => let tl := lru_at tg s in if c tl then [g tl w] else []) L
    = map (fun yw => g (fst yw) (snd yw))
          (filter (fun yw => c (fst yw)) (map (fun tw => (lru_at (fst tw) s, snd tw)) L)).
  Proof.
    intros B c g L. induction L as [|[tg w] L IH]; [reflexivity|].
    rewrite flat_map_cons', IH. cbn [map filter fst snd].
    destruct (c (lru_at tg s)); reflexivity.
  Qed.

  Lemma guard_drop : forall (B : Type) out d (G : bool) (F : N * N -> list B),
    (if negb (head_dir out d =? 0) && G then flat_map F (weighted (dir_targets out d s)) else [])
    = if G then flat_map F (weighted (dir_targets out d s)) else [].
  Proof.
    intros B out d G F. destruct (head_dir out d =? 0) eqn:E; cbn [negb andb]; [|reflexivity].
    apply N.eqb_eq in E. rewrite (head_zero_nil s out d E). destruct G; reflexivity.
  Qed.

  (* the two halves of a page's answer, over the (other end, weight) views *)
  Definition out_half (l : bytes) (c : bytes -> bool) (d : nd) : list (bytes * bytes * N) :=
    map (fun yw => (l, fst yw, snd yw)) (filter (fun yw => c (fst yw)) (wl s true d)).
  Definition in_half (l : bytes) (c : bytes -> bool) (d : nd) : list (bytes * bytes * N) :=
    map (fun yw => (fst yw, l, snd yw)) (filter (fun yw => c (fst yw)) (wl s false d)).

  Lemma out_half_in : forall l c d x y w, wf_lru l -> nodeof s l = Some d ->
    (In (x, y, w) (out_half l c d) <->
     x = l /\ c y = true /\ In (l, y) (a_links a) /\ w = count_link l y (a_links a)).
  Proof.
    intros l c d x y w Hl Hn. unfold out_half. rewrite in_map_iff. split.
    - intros ([y' w'] & E & Hin). cbn [fst snd] in E. injection E as E1 E2 E3. subst x y' w'.
      apply filter_In in Hin. destruct Hin as [Hin Hc]. cbn [fst] in Hc.
      apply (wl_in s a HR true l d y w Hl Hn) in Hin. cbn [mkpair fst snd] in Hin. tauto.
    - intros (Ex & Hc & Hin & Hw). subst x. exists (y, w). split; [reflexivity|].
      apply filter_In. split; [|exact Hc]. apply (wl_in s a HR true l d y w Hl Hn).
      cbn [mkpair fst snd]. auto.
  Qed.

  Lemma in_half_in : forall l c d x y w, wf_lru l -> nodeof s l = Some d ->
    (In (x, y, w) (in_half l c d) <->
     y = l /\ c x = true /\ In (x, l) (a_links a) /\ w = count_link x l (a_links a)).
  Proof.
    intros l c d x y w Hl Hn. unfold in_half. rewrite in_map_iff. split.
    - intros ([y' w'] & E & Hin). cbn [fst snd] in E. injection E as E1 E2 E3. subst y y' w'.
      apply filter_In in Hin. destruct Hin as [Hin Hc]. cbn [fst] in Hc.
      apply (wl_in s a HR false l d x w Hl Hn) in Hin. cbn [mkpair fst snd] in Hin. tauto.
    - intros (Ey & Hc & Hin & Hw). subst y. exists (x, w). split; [reflexivity|].
      apply filter_In. split; [|exact Hc]. apply (wl_in s a HR false l d x w Hl Hn).
      cbn [mkpair fst snd]. auto.
  Qed.

  Lemma wl_filter_nodup : forall out d c, NoDup (filter (fun yw : bytes * N => c (fst yw)) (wl s out d)).
  Proof. intros out d c. apply NoDup_filter, NoDup_fst_pairs, (wl_nodup s a HR). Qed.

  Lemma out_half_nodup : forall l c d, NoDup (out_half l c d).
  Proof.
    intros l c d. unfold out_half. apply NoDup_map_inj_in; [|apply wl_filter_nodup].
    intros [y w] [y' w'] _ _ E. cbn [fst snd] in E. inversion E. reflexivity.
  Qed.

  Lemma in_half_nodup : forall l c d, NoDup (in_half l c d).
  Proof.
    intros l c d. unfold in_half. apply NoDup_map_inj_in; [|apply wl_filter_nodup].
    intros [y w] [y' w'] _ _ E. cbn [fst snd] in E. inversion E. reflexivity.
  Qed.

  Lemma page_links_halves : forall l inb int outb d, nodeof s l = Some d -> page d = true ->
    page_links l inb int outb s
    = (if outb || int then out_half l (fun tl => (outb && negb (beq tl l)) || (int && beq tl l)) d else [])
      ++ (if inb then in_half l (fun sl => negb (beq sl l)) d else []).
  Proof.
    intros l inb int outb d Hn Hp. unfold page_links. unfold nodeof in Hn. rewrite Hn, Hp.
    cbn [negb]. unfold out_w, in_w.
    change (targets_of (stubs s) (outh d)) with (dir_targets true d s).
    change (targets_of (stubs s) (inh d)) with (dir_targets false d s).
    change (outh d) with (head_dir true d). change (inh d) with (head_dir false d).
    rewrite !guard_drop. f_equal.
    - destruct (outb || int); [|reflexivity].
      exact (flat_map_wl _ (fun tl => (outb && negb (beq tl l)) || (int && beq tl l))
                         (fun tl w => (l, tl, w)) _).
    - destruct inb; [|reflexivity].
      exact (flat_map_wl _ (fun sl => negb (beq sl l)) (fun sl w => (sl, l, w)) _).
  Qed.

  Lemma page_links_nopage : forall l inb int outb,
    (forall d, nodeof s l = Some d -> page d = false) -> page_links l inb int outb s = [].
  Proof.
    intros l inb int outb H. unfold page_links. fold (nodeof s l).
    destruct (nodeof s l) as [d|] eqn:En; [|reflexivity]. rewrite (H d eq_refl). reflexivity.
  Qed.

  Theorem page_links_spec : forall l inb int outb, wf_lru l -> forall x y w,
    In (x, y, w) (page_links l inb int outb s) <-> In (x, y, w) (s_page_links l inb int outb a).
  Proof.
    intros l inb int outb Hl x y w.
    unfold s_page_links. rewrite filter_In, s_wlinks_in, plcond_iff.
    destruct (nodeof s l) as [d|] eqn:En.
    destruct (page d) eqn:Ep.
    - rewrite (page_links_halves l inb int outb d En Ep), in_app_iff. split.
      + intros [H|H].
        * destruct (outb || int) eqn:G; [|destruct H].
          apply (out_half_in l _ d x y w Hl En) in H. destruct H as (-> & Hc & Hin & Hw).
          split; [auto|]. left. split; [reflexivity|].
          destruct (beq y l) eqn:Ey.
          -- apply beq_eq in Ey. left. split; [exact Ey|]. destruct outb, int; cbn in Hc; congruence.
          -- right. split; [intro H; apply beq_eq in H; congruence|]. destruct outb, int; cbn in Hc; congruence.
        * destruct inb; [|destruct H].
          apply (in_half_in l _ d x y w Hl En) in H. destruct H as (-> & Hc & Hin & Hw).
          split; [auto|]. right. split; [|auto].
          intro H. apply beq_eq in H. rewrite H in Hc. discriminate.
      + intros [[Hin Hw] [[-> [[-> Hi]|[Hy Ho]]]|(Hx & -> & Hi)]].
        * subst int. left. rewrite orb_true_r. apply (out_half_in l _ d l l w Hl En).
          rewrite beq_refl. destruct outb; cbn; auto.
        * subst outb. left. cbn [orb]. apply (out_half_in l _ d l y w Hl En).
          assert (E : beq y l = false).
          { destruct (beq y l) eqn:E; [|reflexivity]. apply beq_eq in E. contradiction. }
          rewrite E. cbn. auto.
        * subst inb. right. apply (in_half_in l _ d x l w Hl En).
          assert (E : beq x l = false).
          { destruct (beq x l) eqn:E; [|reflexivity]. apply beq_eq in E. contradiction. }
          rewrite E. cbn. auto.
    - rewrite page_links_nopage by (intros d' E; congruence). split; [intros []|].
      intros [[Hin _] H]. exfalso.
      destruct (link_ends s a HR x y Hin) as [(_ & dx & Hdx & Hpx) (_ & dy & Hdy & Hpy)].
      destruct H as [[-> _]|(_ & -> & _)]; congruence.
    - rewrite page_links_nopage by (intros d' E; congruence). split; [intros []|].
      intros [[Hin _] H]. exfalso.
      destruct (link_ends s a HR x y Hin) as [(_ & dx & Hdx & Hpx) (_ & dy & Hdy & Hpy)].
      destruct H as [[-> _]|(_ & -> & _)]; congruence.
  Qed.

  Theorem page_links_nodup : forall l inb int outb, wf_lru l -> NoDup (page_links l inb int outb s).
  Proof.
    intros l inb int outb Hl.
    destruct (nodeof s l) as [d|] eqn:En.
    destruct (page d) eqn:Ep.
    - rewrite (page_links_halves l inb int outb d En Ep). apply NoDup_app_intro.
      + destruct (outb || int); [apply out_half_nodup|constructor].
      + destruct inb; [apply in_half_nodup|constructor].
      + intros [[x y] w] H1 H2.
        destruct (outb || int); [|destruct H1]. destruct inb; [|destruct H2].
        apply (out_half_in l _ d x y w Hl En) in H1. apply (in_half_in l _ d x y w Hl En) in H2.
        destruct H1 as (-> & _). destruct H2 as (_ & Hc & _). rewrite beq_refl in Hc. discriminate.
    - rewrite page_links_nopage by (intros d' E; congruence). constructor.
    - rewrite page_links_nopage by (intros d' E; congruence). constructor.
  Qed.

  (* consequences spelled out: one weight per submitted pair, seen alike from both ends *)
  Corollary page_links_weight : forall l inb int outb x y w, wf_lru l ->
    In (x, y, w) (page_links l inb int outb s) ->
    In (x, y) (a_links a) /\ w = count_link x y (a_links a) /\ (x = l \/ y = l).
  Proof.
    intros l inb int outb x y w Hl H. apply page_links_spec in H; [|exact Hl].
    unfold s_page_links in H. rewrite filter_In, s_wlinks_in, plcond_iff in H.
    destruct H as [[H1 H2] H3]. repeat split; try assumption. tauto.
  Qed.

  (* ---- links_iter ------------------------------------------------------------ *)
  Lemma links_iter_in : forall out x y,
    In (x, y) (links_iter out s) <-> In (mkpair out x y) (a_links a).
  Proof.
    intros out x y. unfold links_iter. rewrite in_flat_map. split.
    - intros ([x' d] & Hnode & Hin). cbn [fst snd] in Hin.
      destruct (negb (page d) || (head_dir out d =? 0)); [destruct Hin|].
      apply in_map_iff in Hin. destruct Hin as (tg & E & Htg). inversion E; subst.
      apply (proj1 (deduped_in _ _)) in Htg.
      apply (all_nodes_nodeof s a HC) in Hnode. destruct Hnode as [Hl Hn].
      apply ends_in, in_rev. rewrite <- (dir_targets_ends s a HR out x d Hl Hn).
      apply (in_map (fun t => lru_at t s)). exact Htg.
    - intro Hin.
      assert (Hx : wf_lru x /\ exists d, nodeof s x = Some d /\ page d = true).
      { destruct out; cbn [mkpair] in Hin; apply (link_ends s a HR) in Hin; tauto. }
      destruct Hx as (Hl & d & Hn & Hp). exists (x, d). split.
      + apply (all_nodes_nodeof s a HC). auto.
      + cbn [fst snd]. apply ends_in, in_rev in Hin.
        rewrite <- (dir_targets_ends s a HR out x d Hl Hn) in Hin.
        apply in_map_iff in Hin. destruct Hin as (tg & E & Htg).
        rewrite Hp. cbn [negb orb].
        destruct (head_dir out d =? 0) eqn:E0.
        * apply N.eqb_eq in E0. rewrite (head_zero_nil s out d E0) in Htg. destruct Htg.
        * apply in_map_iff. exists tg. split; [rewrite E; reflexivity|].
          apply deduped_in. exact Htg.
  Qed.

  Theorem links_iter_spec :
    set_eq (links_iter true s) (dedup_pairs (a_links a)) /\
    set_eq (links_iter false s) (map (fun p => (snd p, fst p)) (dedup_pairs (a_links a))).
  Proof.
    split; intros [x y].
    - rewrite links_iter_in, dedup_pairs_in. reflexivity.
    - rewrite links_iter_in, in_map_iff. cbn [mkpair]. split.
      + intro H. exists (y, x). split; [reflexivity|]. apply dedup_pairs_in. exact H.
      + intros ([x' y'] & E & H). cbn [fst snd] in E. inversion E; subst.
        apply dedup_pairs_in. exact H.
  Qed.

  Theorem count_links_spec : count_links_x2 s = s_stubs a.
  Proof. exact (L_nstubs s a HL). Qed.
End Q03.
