(* GenTrieMFacts.v — the translated LRUTrie.metrics() (GenTrieM.v, generated from /repo/traph/lru_trie/lru_trie.py by
   harness/gen_triem.py; integer figures only, the floating-point averages are sliced away) agrees with the model
   Traph.metrics on the trie file of every state:
     nb_nodes, nb_pages, nb_crawled_pages, nb_tail_nodes, nb_fragmented_nodes, nb_stems, max_tail
   = m_nodes, m_pages, m_crawled, m_tail, m_fragmented, m_stems, m_max_tail.
   The scan never runs out of fuel, never raises and leaves the bytes of the file as they were. *)
From Coq Require Import List NArith Bool Lia Arith.
Import ListNotations.
From Traph Require Import Bytes Consts Layout Helpers Rules Tst TstDefs Traph Ops Traphw TraceDefs Codec CodecFacts
  TstFacts Store StoreFacts StoreFacts2 GenStorage GenNode GenNodeFacts GenTrie GenTrieFacts GenTrieW GenTrieWDefs
  GenTrieD GenTrieDDefs GenTrieDCount GenTrieM.
From Traph Require PropsEx GenTraphLFacts.
Open Scope N_scope.

Arguments N.shiftr : simpl never.
Arguments N.shiftl : simpl never.
Arguments N.modulo : simpl never.
Arguments N.div : simpl never.
Arguments N.land : simpl never.
Arguments N.lor : simpl never.
Arguments N.mul : simpl never.
Arguments N.add : simpl never.
Arguments N.sub : simpl never.
Arguments N.ltb : simpl never.
Arguments N.eqb : simpl never.
Arguments N.max : simpl never.

(* ====================================================================================== *)
(* 1. the two remaining flag tests                                                        *)
(* ====================================================================================== *)
Lemma has_tail_vals : forall n b, nd_data n = tblock_vals b -> py_node_has_tail n = blk_has_tail b.
Proof. intros n b H. unfold py_node_has_tail, blk_has_tail. rewrite H. apply py_test_flag. Qed.

Lemma is_tail_vals : forall n b, nd_data n = tblock_vals b -> py_node_is_tail n = blk_is_tail b.
Proof. intros n b H. unfold py_node_is_tail, blk_is_tail. rewrite H. apply py_test_flag. Qed.

(* ====================================================================================== *)
(* 2. nodes_iter leaves the bytes of the file                                             *)
(* ====================================================================================== *)
Lemma read_block_arr : forall f nd0 sg i, trep f sg ->
  pm_array (snd (py_node_read_o nd0 sg (Some (blk_off i)))) = pm_array sg.
Proof.
  intros f nd0 sg i Hrep. pose proof Hrep as (Hbs & (hdr & Harr & Hh) & Henc).
  rewrite py_node_read_o_some.
  destruct (nth_error (ft f) i) as [b|] eqn:En.
  - pose proof (py_node_read_spec nd0 sg hdr f i b Hbs Harr Hh Henc En) as HS. cbv zeta in HS.
    destruct HS as (_ & _ & _ & _ & _ & H6 & _). exact H6.
  - apply nth_error_None in En.
    pose proof (py_node_read_absent nd0 sg (blk_off i)) as HA. cbv zeta in HA.
    destruct HA as (_ & _ & _ & _ & H5 & _); [|exact H5].
    rewrite (GenTrieDCount.trep_len f sg Hrep), blk_off_eq. lia.
Qed.

Lemma nloop_spec_arr : forall f k i n sg out fuel,
  (i + k = length (ft f))%nat -> (k < fuel)%nat -> trep f sg -> cur_ok f i n ->
  exists sg' nl items, nloop fuel (sg, n, out) = Some (sg', nl, out ++ items) /\ trep f sg' /\
    pm_array sg' = pm_array sg /\ nodes_rep i (skipn i (ft f)) items.
Proof.
  intros f k. induction k as [|k IH]; intros i n sg out fuel Hik Hfuel Hrep Hcur;
    (destruct fuel as [|fuel]; [lia|]); unfold cur_ok in Hcur.
  - assert (En : nth_error (ft f) i = None) by (apply nth_error_None; lia).
    rewrite En in Hcur. cbn [nloop]. rewrite Hcur.
    exists sg, n, []. rewrite app_nil_r. split; [reflexivity|]. split; [exact Hrep|]. split; [reflexivity|].
    rewrite skipn_all2 by lia. exact I.
  - destruct (nth_error (ft f) i) as [b|] eqn:En; [|apply nth_error_None in En; lia].
    destruct Hcur as (He & Hb & Hd).
    cbn [nloop]. rewrite He, Hb.
    pose proof Hrep as (Hbs & _ & _). rewrite Hbs, blk_off_next.
    pose proof (read_block f n sg (S i) Hrep) as HR. cbv zeta in HR.
    pose proof (read_block_arr f n sg (S i) Hrep) as HA.
    destruct (py_node_read_o n sg (Some (blk_off (S i)))) as [n1 sg1]. cbn [fst snd] in HR, HA.
    destruct HR as [Hn1 Hrep1].
    destruct (IH (S i) n1 sg1 (out ++ [n]) fuel ltac:(lia) ltac:(lia) Hrep1 Hn1)
      as (sg' & nl & items & E & Hrep' & Harr' & Hitems).
    exists sg', nl, (n :: items). rewrite E, <- app_assoc. split; [reflexivity|]. split; [exact Hrep'|].
    split; [rewrite Harr'; exact HA|].
    assert (Esk : skipn i (ft f) = b :: skipn (S i) (ft f)).
    { rewrite (skipn_S_tl _ i (ft f)). rewrite (nth_error_skipn_hd _ i (ft f)) in En.
      destruct (skipn i (ft f)); [discriminate En|]. cbn in En. injection En as ->. reflexivity. }
    rewrite Esk. cbn [nodes_rep]. split; [|exact Hitems]. split; [exact He|split; [exact Hb|exact Hd]].
Qed.

(* LRUTrie.nodes_iter() on a trie file: one node object per block, the bytes of the file are left as they were *)
Theorem py_trie_nodes_iter_files_arr : forall f sg, trep f sg ->
  exists items sg', py_trie_nodes_iter sg = Some (items, sg') /\ trep f sg' /\ pm_array sg' = pm_array sg /\
    nodes_rep 0 (ft f) items.
Proof.
  intros f sg Hrep. rewrite nodes_iter_eq, init_read.
  change py_first_data_block with (blk_off 0).
  pose proof (read_block f (nd_set_tail [] (nd_set_exists false (nd_set_block None py_node_new))) sg 0%nat Hrep) as HR.
  pose proof (read_block_arr f (nd_set_tail [] (nd_set_exists false (nd_set_block None py_node_new))) sg 0%nat Hrep) as HA.
  cbv zeta in HR. destruct (py_node_read_o _ sg (Some (blk_off 0))) as [n0 sg0]. cbn [fst snd] in HR, HA.
  destruct HR as [Hn0 Hrep0].
  destruct (nloop_spec_arr f (length (ft f)) 0 n0 sg0 [] (S (length (pm_array sg0))) eq_refl)
    as (sg' & nl & items & E & Hrep' & Harr' & Hitems);
    [rewrite (GenTrieDCount.trep_len f sg0 Hrep0); lia|exact Hrep0|exact Hn0|].
  rewrite E. cbn [app skipn] in *. exists items, sg'. split; [reflexivity|]. split; [exact Hrep'|].
  split; [rewrite Harr'; exact HA|exact Hitems].
Qed.

(* ====================================================================================== *)
(* 3. one step of the loop of metrics(), and the whole loop                               *)
(* ====================================================================================== *)
Definition b2n (b : bool) : N := if b then 1 else 0.
Definition cnt (q : tblock -> bool) (bs : list tblock) : N := N.of_nat (length (filter q bs)).

(* the step of Traph.max_run, on blocks *)
Definition run_step (a : N * N) (b : tblock) : N * N :=
  let '(mx, cur) := a in if blk_is_tail b then (N.max mx (cur + 1), cur + 1) else (mx, 0).

Lemma cnt_cons : forall q b bs, cnt q (b :: bs) = b2n (q b) + cnt q bs.
Proof. intros q b bs. unfold cnt. cbn [filter]. destruct (q b); cbn [length b2n]; lia. Qed.

Lemma tuple9_eq : forall (a b c d e f g h i a' b' c' d' e' f' g' h' i' : N),
  a = a' -> b = b' -> c = c' -> d = d' -> e = e' -> f = f' -> g = g' -> h = h' -> i = i' ->
  (a, b, c, d, e, f, g, h, i) = (a', b', c', d', e', f', g', h', i').
Proof. intros. subst. reflexivity. Qed.

Lemma metrics_step_vals : forall nd b n p c t f s mx cur last, nd_data nd = tblock_vals b ->
  exists last',
    py_trie_metrics_step (n, p, c, t, f, s, mx, cur, last) nd =
    (n + 1, p + b2n (blk_page b), c + b2n (blk_page b && blk_crawled b), t + b2n (blk_is_tail b),
     f + b2n (blk_has_tail b), s + b2n (negb (blk_is_tail b)),
     fst (run_step (mx, cur) b), snd (run_step (mx, cur) b), last').
Proof.
  intros nd b n p c t f s mx cur last Hd. unfold py_trie_metrics_step, run_step.
  rewrite (is_page_vals nd b Hd), (is_crawled_vals nd b Hd), (has_tail_vals nd b Hd), (is_tail_vals nd b Hd).
  destruct (blk_page b), (blk_crawled b), (blk_has_tail b), (blk_is_tail b); cbn [andb negb b2n fst snd];
    try (destruct (N.ltb_spec mx (cur + 1)) as [Hlt|Hlt]);
    try (destruct (negb (N.eqb last 0)));
    eexists; apply tuple9_eq; try reflexivity; lia.
Qed.

Lemma metrics_fold : forall bs i items n p c t f s mx cur last, nodes_rep i bs items ->
  exists last',
    fold_left py_trie_metrics_step items (n, p, c, t, f, s, mx, cur, last) =
    (n + N.of_nat (length bs), p + cnt blk_page bs, c + cnt (fun b => blk_page b && blk_crawled b) bs,
     t + cnt blk_is_tail bs, f + cnt blk_has_tail bs, s + cnt (fun b => negb (blk_is_tail b)) bs,
     fst (fold_left run_step bs (mx, cur)), snd (fold_left run_step bs (mx, cur)), last').
Proof.
  induction bs as [|b bs IH]; intros i [|nd items] n p c t f s mx cur last H; try (destruct H; fail).
  - exists last. cbn [fold_left length fst snd]. unfold cnt. cbn [filter length].
    apply tuple9_eq; try reflexivity; lia.
  - destruct H as [(_ & _ & Hd) H]. cbn [fold_left].
    destruct (metrics_step_vals nd b n p c t f s mx cur last Hd) as (last1 & E1). rewrite E1.
    destruct (IH _ _ (n + 1) (p + b2n (blk_page b)) (c + b2n (blk_page b && blk_crawled b)) (t + b2n (blk_is_tail b))
                (f + b2n (blk_has_tail b)) (s + b2n (negb (blk_is_tail b)))
                (fst (run_step (mx, cur) b)) (snd (run_step (mx, cur) b)) last1 H) as (last2 & E2).
    exists last2. rewrite E2, <- surjective_pairing, !cnt_cons. cbn [length]. rewrite Nat2N.inj_succ.
    apply tuple9_eq; try reflexivity; lia.
Qed.

(* ====================================================================================== *)
(* 4. the model's figures, on the blocks of the file                                      *)
(* ====================================================================================== *)
Lemma count_if_snd : forall (q : tblock -> bool) (l : list (N * tblock)),
  count_if (fun p => q (snd p)) l = cnt q (map snd l).
Proof. intros q l. unfold count_if, cnt. rewrite filter_map_length. reflexivity. Qed.

Lemma max_run_snd : forall (l : list (N * tblock)) a,
  fold_left (fun '(mx, cur) p => if blk_is_tail (snd p) then (N.max mx (cur + 1), cur + 1) else (mx, 0)) l a =
  fold_left run_step (map snd l) a.
Proof.
  induction l as [|x l IH]; intro a; [reflexivity|]. cbn [map fold_left]. rewrite IH.
  destruct a as [mx cur]. reflexivity.
Qed.

Lemma metrics_ft : forall s,
  let bs := ft (files_of s) in
  metrics s = mkTM (N.of_nat (length bs)) (cnt blk_page bs) (cnt (fun b => blk_page b && blk_crawled b) bs)
                   (cnt blk_is_tail bs) (cnt blk_has_tail bs) (cnt (fun b => negb (blk_is_tail b)) bs)
                   (fst (fold_left run_step bs (0, 0))).
Proof.
  intro s. cbv zeta. unfold metrics, max_run. cbn [files_of ft].
  rewrite map_length, max_run_snd.
  rewrite (count_if_snd blk_page), (count_if_snd (fun b => blk_page b && blk_crawled b)),
    (count_if_snd blk_is_tail), (count_if_snd blk_has_tail), (count_if_snd (fun b => negb (blk_is_tail b))).
  reflexivity.
Qed.

(* ====================================================================================== *)
(* 5. metrics()                                                                           *)
(* ====================================================================================== *)
(* LRUTrie.metrics() on the trie file of a state: the integer figures are the model's, in the order of the dict literal;
   the bytes of the file are left as they were *)
Theorem py_trie_metrics_state : forall s, Inv18 s -> forall sg, trep (files_of s) sg ->
  exists sg' l, py_trie_metrics sg = Some (sg', l) /\ trep (files_of s) sg' /\ pm_array sg' = pm_array sg /\
    map snd l = [m_nodes (metrics s); m_pages (metrics s); m_crawled (metrics s); m_tail (metrics s);
                 m_fragmented (metrics s); m_stems (metrics s); m_max_tail (metrics s)].
Proof.
  intros s _ sg Hrep.
  destruct (py_trie_nodes_iter_files_arr _ sg Hrep) as (items & sg' & E & Hrep' & Harr & Hitems).
  destruct (metrics_fold _ _ _ 0 0 0 0 0 0 0 0 0 Hitems) as (last' & EF).
  unfold py_trie_metrics. rewrite E, EF.
  eexists sg', _. split; [reflexivity|]. split; [exact Hrep'|]. split; [exact Harr|].
  rewrite (metrics_ft s). cbv zeta. cbn [map snd m_nodes m_pages m_crawled m_tail m_fragmented m_stems m_max_tail].
  rewrite !N.add_0_l. reflexivity.
Qed.

(* the same on every reachable state *)
Theorem py_trie_metrics_spec : forall d rs h, Forall wf_op h ->
  let s := run d rs h in
  forall sg, trep (files_of s) sg ->
  exists sg' l, py_trie_metrics sg = Some (sg', l) /\ trep (files_of s) sg' /\ pm_array sg' = pm_array sg /\
    map snd l = [m_nodes (metrics s); m_pages (metrics s); m_crawled (metrics s); m_tail (metrics s);
                 m_fragmented (metrics s); m_stems (metrics s); m_max_tail (metrics s)].
Proof. intros d rs h Hh s sg Hrep. exact (py_trie_metrics_state s (run_Inv18 d rs h Hh) sg Hrep). Qed.

(* the keys of the returned dict, in the order of the literal in the Python source *)
Lemma py_trie_metrics_keys : forall sg sg' l, py_trie_metrics sg = Some (sg', l) ->
  map fst l = [ [110; 98; 95; 110; 111; 100; 101; 115]; [110; 98; 95; 112; 97; 103; 101; 115];
                [110; 98; 95; 99; 114; 97; 119; 108; 101; 100; 95; 112; 97; 103; 101; 115];
                [110; 98; 95; 116; 97; 105; 108; 95; 110; 111; 100; 101; 115];
                [110; 98; 95; 102; 114; 97; 103; 109; 101; 110; 116; 101; 100; 95; 110; 111; 100; 101; 115];
                [110; 98; 95; 115; 116; 101; 109; 115]; [109; 97; 120; 95; 116; 97; 105; 108] ].
Proof.
  intros sg sg' l H. unfold py_trie_metrics in H.
  destruct (py_trie_nodes_iter sg) as [[items sg1]|]; [|discriminate H].
  destruct (fold_left py_trie_metrics_step items (0, 0, 0, 0, 0, 0, 0, 0, 0)) as [[[[[[[[a b] c] d'] e] f] g] h'] i].
  injection H as _ <-. reflexivity.
Qed.

(* ====================================================================================== *)
(* 6. non-vacuity: the translated code run on the bytes of the trie files of two example  *)
(*    states (PropsEx.exs: 16 blocks, one of them the tail block of a 103-byte stem)      *)
(* ====================================================================================== *)
Definition tm_list (m : trie_metrics) : list N :=
  [m_nodes m; m_pages m; m_crawled m; m_tail m; m_fragmented m; m_stems m; m_max_tail m].

Example ex_metrics_values : option_map (fun r => map snd (snd r)) (py_trie_metrics ex_sg) = Some [16; 4; 1; 1; 1; 15; 1].
Proof. vm_compute. reflexivity. Qed.

Example ex_metrics_model : option_map (fun r => map snd (snd r)) (py_trie_metrics ex_sg) = Some (tm_list (metrics PropsEx.exs)).
Proof. vm_compute. reflexivity. Qed.

Example ex_metrics_model_l :
  option_map (fun r => map snd (snd r)) (py_trie_metrics GenTraphLFacts.ex_sgt)
  = Some (tm_list (metrics GenTraphLFacts.exs_l)).
Proof. vm_compute. reflexivity. Qed.

Example ex_metrics_values_l :
  option_map (fun r => map snd (snd r)) (py_trie_metrics GenTraphLFacts.ex_sgt) = Some (tm_list (metrics GenTraphLFacts.exs_l)) /\
  m_nodes (metrics GenTraphLFacts.exs_l) <> 0.
Proof. split; [vm_compute; reflexivity|vm_compute; discriminate]. Qed.

Print Assumptions py_trie_metrics_state.
Print Assumptions py_trie_metrics_spec.
