(* Rules.v — Hyphe's webentity-creation-rule regex family (test/config.py) as a
   matcher on bytes.  `apply_rule k lru` = `re.compile(RX[k], re.I).search(lru).group()`.
   Every piece of the patterns ends with '\|' and contains no other '|', so a match
   at a given offset is a match on the stems of the suffix starting there.
   Definitions only. *)
From Coq Require Import List NArith Bool.
From Traph Require Import Bytes Helpers.
Import ListNotations.
Open Scope N_scope.

Inductive rulekind := Domain | Subdomain | Path (n : nat).

Definition colon : N := 58.

(* stem = tag ':' body '|' with the tag letter compared case-insensitively; returns the body *)
Definition tagged (tag : N) (st : bytes) : option bytes :=
  match st with
  | t :: c :: rest =>
      if ieq t tag && (c =? colon) then
        match rev rest with
        | p :: body_rev => if p =? sep then Some (rev body_rev) else None
        | [] => None
        end
      else None
  | _ => None
  end.

Definition all_nonempty (f : N -> bool) (b : bytes) : bool :=
  match b with [] => false | _ => forallb f b end.

(* s:[a-zA-Z]+\| *)
Definition is_scheme (st : bytes) : bool :=
  match tagged 115 st with Some b => all_nonempty is_alpha b | None => false end.
(* t:[0-9]+\| *)
Definition is_port (st : bytes) : bool :=
  match tagged 116 st with Some b => all_nonempty is_digit b | None => false end.
(* h:[^\|]+\| *)
Definition is_host (st : bytes) : bool :=
  match tagged 104 st with Some b => match b with [] => false | _ => true end | None => false end.
(* p:[^\|]+\| *)
Definition is_pathstem (st : bytes) : bool :=
  match tagged 112 st with Some b => match b with [] => false | _ => true end | None => false end.

Definition localhost : bytes := [108; 111; 99; 97; 108; 104; 111; 115; 116].
Fixpoint ieq_bytes (a b : bytes) : bool :=
  match a, b with
  | [], [] => true
  | x :: a', y :: b' => ieq x y && ieq_bytes a' b'
  | _, _ => false
  end.

(* \d{1,3} : returns the possible remainders after consuming 1..3 digits, longest first *)
Definition take_digits (b : bytes) : list bytes :=
  match b with
  | d1 :: r1 =>
      if is_digit d1 then
        match r1 with
        | d2 :: r2 =>
            if is_digit d2 then
              match r2 with
              | d3 :: r3 => if is_digit d3 then [r3; r2; r1] else [r2; r1]
              | [] => [r2; r1]
              end
            else [r1]
        | [] => [r1]
        end
      else []
  | [] => []
  end.
Definition dot : N := 46.
Definition eat_dot (b : bytes) : list bytes :=
  match b with c :: r => if c =? dot then [r] else [] | [] => [] end.
(* (\d{1,3}\.){3}\d{1,3} must cover the whole body *)
Definition is_ipv4 (b : bytes) : bool :=
  let step (bs : list bytes) := flat_map eat_dot (flat_map take_digits bs) in
  existsb (fun r => match r with [] => true | _ => false end)
          (flat_map take_digits (step (step (step [b])))).

Definition is_hex (c : N) : bool := is_digit c || ((97 <=? lower c) && (lower c <=? 102)).
(* \[[\da-f]*:[\da-f:]*\] *)
Definition is_ipv6 (b : bytes) : bool :=
  match b with
  | o :: rest =>
      if o =? 91 then
        match rev rest with
        | c :: inner_rev =>
            (c =? 93) && forallb (fun x => is_hex x || (x =? colon)) inner_rev
            && existsb (fun x => x =? colon) inner_rev
        | [] => false
        end
      else false
  | [] => false
  end.

Definition is_special_host (st : bytes) : bool :=
  match tagged 104 st with
  | Some b => ieq_bytes b localhost || is_ipv4 b || is_ipv6 b
  | None => false
  end.

Fixpoint count_prefix (f : bytes -> bool) (l : list bytes) : nat :=
  match l with
  | x :: l' => if f x then S (count_prefix f l') else O
  | [] => O
  end.

(* exactly n path stems at the head of l *)
Definition has_paths (n : nat) (l : list bytes) : bool := forallb is_pathstem (firstn n l) && Nat.eqb (length (firstn n l)) n.

(* number of stems consumed after the scheme/port part, or None *)
Definition match_hosts (k : rulekind) (l : list bytes) : option nat :=
  let nh := count_prefix is_host l in
  let npath := match k with Path n => n | _ => O end in
  let alt2 :=
      match l with
      | st :: rest => if is_special_host st && has_paths npath rest then Some (S npath) else None
      | [] => None
      end in
  match k with
  | Domain => if Nat.leb 2 nh then Some 2%nat else alt2
  | _ =>
      (* greedy (h:..|)+ with backtracking: longest take in [2..nh] followed by npath path stems *)
      let fix try (take : nat) (fuel : nat) : option nat :=
          match fuel with
          | O => None
          | S f =>
              if Nat.ltb take 2 then None
              else if has_paths npath (skipn take l) then Some (take + npath)%nat
              else try (pred take) f
          end in
      match try nh (S nh) with
      | Some n => Some n
      | None => alt2
      end
  end.

(* match anchored at the start of the byte string b; returns the matched bytes *)
Definition match_at (k : rulekind) (b : bytes) : option bytes :=
  match lru_iter b with
  | sch :: rest =>
      if is_scheme sch then
        let with_port :=
            match rest with
            | pt :: rest' =>
                if is_port pt then
                  match match_hosts k rest' with
                  | Some n => Some (concat (sch :: pt :: firstn n rest'))
                  | None => None
                  end
                else None
            | [] => None
            end in
        match with_port with
        | Some r => Some r
        | None =>
            match match_hosts k rest with
            | Some n => Some (concat (sch :: firstn n rest))
            | None => None
            end
        end
      else None
  | [] => None
  end.

(* re.search: first offset at which the pattern matches *)
Fixpoint search (k : rulekind) (b : bytes) : option bytes :=
  match match_at k b with
  | Some r => Some r
  | None => match b with [] => None | _ :: b' => search k b' end
  end.

Definition apply_rule (k : rulekind) (lru : bytes) : option bytes := search k lru.
